/-
  Lungo.Proofs.IndexCat — the catalog-level invariant (`Inv` + `UniqueOkCat`) is preserved by
  every transaction method of Lungo/Model/Txn.lean and every call of Lungo/Model/Api.lean.
-/
import Lungo.Proofs.IndexReject
import Lungo.Model.Session
namespace Lungo

variable {sch : SchemaEval} {uq : Bool}

/-- what the invariant says about one namespace -/
structure NsOk (sch : SchemaEval) (uq : Bool) (h : Handle) (c : Coll) (n : Nat) : Prop where
  coherent : Coherent sch c
  below : IdsBelow c.docs n
  bare : h = oplogHandle → c.indexes = []
  idIndex : h ≠ oplogHandle → IdIndexPresent c
  unique : uq = true → UniqueOk sch c
  names : NamesDistinct c

/-- the C15 invariant, together with C07 on well-formed documents when `uq = true`
    (one proof for both: `u = false` gives the preservation of `Inv` alone) -/
def Good (sch : SchemaEval) (uq : Bool) (cat : Catalog) (n : Nat) : Prop :=
  Inv sch cat n ∧ (uq = true → UniqueOkCat sch cat)

theorem Good.nsOk {cat : Catalog} {n : Nat} (g : Good sch uq cat n) {h : Handle} {c : Coll}
    (hm : (h, c) ∈ cat.namespaces) : NsOk sch uq h c n :=
  ⟨g.1.coherent h c hm, g.1.below h c hm, fun e => g.1.oplogBare c (e ▸ hm), g.1.idIndex h c hm, fun hu => g.2 hu h c hm,
   g.1.names h c hm⟩

theorem Good.of {cat : Catalog} {n : Nat} (hns : ∀ h c, (h, c) ∈ cat.namespaces → NsOk sch uq h c n)
    (hop : ∃ c, (oplogHandle, c) ∈ cat.namespaces) : Good sch uq cat n :=
  ⟨⟨fun h c hm => (hns h c hm).coherent, fun h c hm => (hns h c hm).below, hop,
    fun c hm => (hns _ c hm).bare rfl, fun h c hm => (hns h c hm).idIndex,
    fun h c hm => (hns h c hm).names⟩,
   fun hu h c hm => (hns h c hm).unique hu⟩

theorem Good.congr_ns {cat cat' : Catalog} {n : Nat} (g : Good sch uq cat n)
    (e : cat'.namespaces = cat.namespaces) : Good sch uq cat' n :=
  Good.of (fun _ _ hm => g.nsOk (e ▸ hm)) (e ▸ g.1.oplog)

theorem NsOk.mono {h : Handle} {c : Coll} {n m : Nat} (k : NsOk sch uq h c n) (hnm : n ≤ m) : NsOk sch uq h c m :=
  ⟨k.coherent, k.below.mono hnm, k.bare, k.idIndex, k.unique, k.names⟩

theorem Good.mono {cat : Catalog} {n m : Nat} (g : Good sch uq cat n) (hnm : n ≤ m) : Good sch uq cat m :=
  Good.of (fun _ _ hm => (g.nsOk hm).mono hnm) g.1.oplog

/-- a collection derived from a good one with the same index definitions -/
theorem NsOk.of_shape {h : Handle} {c c' : Coll} {n n' : Nat} (k : NsOk sch uq h c n)
    (hc : Coherent sch c') (hb : IdsBelow c'.docs n') (hu : uq = true → UniqueOk sch c')
    (hs : shape c'.indexes = shape c.indexes) : NsOk sch uq h c' n' := by
  refine ⟨hc, hb, ?_, ?_, hu, k.names.of_shape hs⟩
  · intro e
    have := k.bare e
    rw [this] at hs
    cases hi : c'.indexes with
    | nil => rfl
    | cons a r => rw [hi] at hs; simp [shape] at hs
  · intro e
    rw [idIndexPresent_iff, hs, ← idIndexPresent_iff]
    exact k.idIndex e

theorem NsOk.new {h : Handle} {n : Nat} (hne : h ≠ oplogHandle) : NsOk sch uq h (newColl true) n :=
  ⟨.new true, fun x hx => by simp [newColl] at hx, fun e => absurd e hne,
   fun _ => ⟨{ config := idIndexConfig, columns := [{ path := "_id", reverse := false }], entries := [] },
     by simp [newColl], rfl⟩, fun _ => .new true, .new true⟩

/-! ### `Catalog.get?` / `set` -/

theorem get?_some {cat : Catalog} {h : Handle} {c : Coll} (e : cat.get? h = some c) :
    (h, c) ∈ cat.namespaces := by
  unfold Catalog.get? at e
  cases hf : cat.namespaces.find? (·.1 == h) with
  | none => rw [hf] at e; cases e
  | some p =>
    rw [hf] at e
    simp only [Option.map_some, Option.some.injEq] at e
    have h1 := List.mem_of_find?_eq_some hf
    have h2 := List.find?_some hf
    simp only [beq_iff_eq] at h2
    obtain ⟨a, b⟩ := p
    simp only at h2 e
    subst h2 e
    exact h1

theorem get?_none {cat : Catalog} {h : Handle} (e : cat.get? h = none) :
    ∀ c, (h, c) ∉ cat.namespaces := by
  unfold Catalog.get? at e
  intro c hm
  cases hf : cat.namespaces.find? (·.1 == h) with
  | none =>
    have := List.find?_eq_none.mp hf (h, c) hm
    simp at this
  | some p => rw [hf] at e; cases e

theorem mem_set {cat : Catalog} {h h' : Handle} {coll c' : Coll}
    (hm : (h', c') ∈ (cat.set h coll).namespaces) :
    (h' = h ∧ c' = coll) ∨ ((h', c') ∈ cat.namespaces ∧ h' ≠ h) := by
  unfold Catalog.set at hm
  split at hm
  · simp only [List.mem_map] at hm
    obtain ⟨⟨a, b⟩, hab, e⟩ := hm
    simp only at e
    split at e
    · rename_i hah
      simp only [beq_iff_eq] at hah
      simp only [Prod.mk.injEq] at e
      exact .inl ⟨e.1.symm.trans hah, e.2.symm⟩
    · rename_i hah
      simp only [beq_iff_eq] at hah
      simp only [Prod.mk.injEq] at e
      obtain ⟨rfl, rfl⟩ := e
      exact .inr ⟨hab, hah⟩
  · rename_i hany
    dsimp only at hm
    rcases List.mem_append.mp hm with hm1 | hm1
    · refine .inr ⟨hm1, ?_⟩
      rintro rfl
      apply hany
      exact List.any_eq_true.mpr ⟨(h', c'), hm1, by simp⟩
    · simp only [List.mem_singleton, Prod.mk.injEq] at hm1
      exact .inl hm1

theorem set_keeps {cat : Catalog} {h k : Handle} {coll : Coll}
    (hk : ∃ c, (k, c) ∈ cat.namespaces) : ∃ c, (k, c) ∈ (cat.set h coll).namespaces := by
  obtain ⟨c, hc⟩ := hk
  unfold Catalog.set
  split
  · by_cases e : k = h
    · exact ⟨coll, List.mem_map.mpr ⟨(k, c), hc, by simp [e]⟩⟩
    · exact ⟨c, List.mem_map.mpr ⟨(k, c), hc, by simp [e]⟩⟩
  · exact ⟨c, List.mem_append_left _ hc⟩

theorem Good.set {cat : Catalog} {n n' : Nat} {h : Handle} {coll : Coll} (g : Good sch uq cat n)
    (hnn : n ≤ n') (k : NsOk sch uq h coll n') : Good sch uq (cat.set h coll) n' := by
  refine Good.of ?_ (set_keeps g.1.oplog)
  intro h' c' hm
  rcases mem_set hm with ⟨rfl, rfl⟩ | ⟨hm, _⟩
  · exact k
  · exact (g.nsOk hm).mono hnn

theorem Good.ensureNs {cat : Catalog} {n : Nat} {h : Handle} (g : Good sch uq cat n)
    (hne : h ≠ oplogHandle) : NsOk sch uq h (ensureNs cat h) n := by
  unfold Lungo.ensureNs
  cases e : cat.get? h with
  | none => exact .new hne
  | some c => exact g.nsOk (get?_some e)

/-! ### `writable` -/

theorem writable_ne_oplog {h : Handle} {b : Bool} (hw : writable h b = .ok ()) : h ≠ oplogHandle := by
  unfold writable at hw
  split at hw
  · cases hw
  · split at hw
    · cases hw
    · rename_i hl
      rintro rfl
      exact hl (by decide)

theorem writable_db {h : Handle} {b : Bool} (hw : writable h b = .ok ()) : h.db ≠ "local" := by
  unfold writable at hw
  split at hw
  · cases hw
  · split at hw
    · cases hw
    · rename_i hl
      simpa using hl

/-! ### the oplog -/

theorem Good.appendOplog {cat cat' : Catalog} {nu nu' : Nu} {h : Handle} {op : String}
    {doc : Option Doc} {ch : Option (List (String × V))} (g : Good sch uq cat nu.nextId)
    (e : appendOplog cat nu h op doc ch = (cat', nu')) :
    Good sch uq cat' nu'.nextId ∧ nu'.nextId = nu.nextId + 1 := by
  unfold Lungo.appendOplog at e
  simp only [Nu.fresh, Prod.mk.injEq] at e
  obtain ⟨rfl, rfl⟩ := e
  refine ⟨?_, rfl⟩
  obtain ⟨oc, hoc⟩ := g.1.oplog
  have k : NsOk sch uq oplogHandle ((cat.get? oplogHandle).getD (newColl false)) nu.nextId := by
    cases e : cat.get? oplogHandle with
    | none => exact absurd hoc (get?_none e oc)
    | some c => exact g.nsOk (get?_some e)
  have hbare := k.bare rfl
  have k' : NsOk sch uq oplogHandle
      { (cat.get? oplogHandle).getD (newColl false) with
        docs := ((cat.get? oplogHandle).getD (newColl false)).docs ++
          [⟨nu.nextId, oplogEvent (cat.clock + 1) h op doc ch⟩] } (nu.nextId + 1) := by
    refine ⟨⟨k.coherent.1.append_fresh (fun x hx => k.below.fresh x hx), ?_⟩, ?_, fun _ => hbare,
      fun e => absurd rfl e, ?_, by unfold NamesDistinct; simp [hbare]⟩
    · intro n i hm; simp only [hbare] at hm; cases hm
    · intro x hx
      rcases List.mem_append.mp hx with hx | hx
      · have := k.below x hx; omega
      · simp only [List.mem_singleton] at hx; subst hx; exact Nat.lt_succ_self _
    · intro _ n i hm; simp only [hbare] at hm; cases hm
  exact (Good.set g (Nat.le_succ _) k').congr_ns rfl

/-- an invariant of a fold is preserved -/
theorem foldl_inv {α β : Type} (P : β → Prop) (g : β → α → β) (hg : ∀ b a, P b → P (g b a)) :
    ∀ (l : List α) (b : β), P b → P (l.foldl g b)
  | [], _, h => h
  | a :: r, b, h => foldl_inv P g hg r (g b a) (hg b a h)

/-- state of a catalog/ν pair during a method: good, and ν only moved forward from `n0` -/
def GoodFrom (sch : SchemaEval) (uq : Bool) (n0 : Nat) (cn : Catalog × Nu) : Prop :=
  Good sch uq cn.1 cn.2.nextId ∧ n0 ≤ cn.2.nextId

theorem GoodFrom.appendOplog {n0 : Nat} {cn : Catalog × Nu} {h : Handle} {op : String}
    {doc : Option Doc} {ch : Option (List (String × V))} (g : GoodFrom sch uq n0 cn) :
    GoodFrom sch uq n0 (Lungo.appendOplog cn.1 cn.2 h op doc ch) := by
  have e : Lungo.appendOplog cn.1 cn.2 h op doc ch =
      ((Lungo.appendOplog cn.1 cn.2 h op doc ch).1, (Lungo.appendOplog cn.1 cn.2 h op doc ch).2) := rfl
  obtain ⟨g1, g2⟩ := Good.appendOplog g.1 e
  exact ⟨g1, Nat.le_trans g.2 (by rw [g2]; exact Nat.le_succ _)⟩

/-! ### one namespace under the collection methods -/

theorem NsOk.insert {h : Handle} {c c' : Coll} {d : Doc} {nu nu' : Nu} {sd : SDoc}
    (k : NsOk sch uq h c nu.nextId) (e : c.insert sch d nu = .ok (c', sd, nu')) :
    NsOk sch uq h c' nu'.nextId ∧ nu.nextId ≤ nu'.nextId := by
  obtain ⟨h1, h2⟩ := Coherent.insert k.coherent k.below e
  refine ⟨k.of_shape h1 h2 (fun hu => UniqueOk.insert k.coherent (k.unique hu) e) (insert_shape e), ?_⟩
  obtain ⟨_, _, _, _, hn, _⟩ := insert_spec e
  omega

theorem NsOk.upsert {ac : ACtx} {h : Handle} {c c' : Coll} {q : Doc} {repl update : Option Doc}
    {filters : List Doc} {nu nu' : Nu} {sd : SDoc}
    (k : NsOk ac.sch uq h c nu.nextId) (e : c.upsert ac q repl update filters nu = .ok (c', sd, nu')) :
    NsOk ac.sch uq h c' nu'.nextId ∧ nu.nextId ≤ nu'.nextId := by
  obtain ⟨doc, e⟩ := upsert_spec e
  exact k.insert e

theorem NsOk.replace {h : Handle} {c : Coll} {q repl : Doc} {sort : Option Doc} {nu nu' : Nu}
    {res : CResult} (k : NsOk sch uq h c nu.nextId) (e : c.replace sch q repl sort nu = .ok (res, nu')) :
    NsOk sch uq h res.coll nu'.nextId ∧ nu.nextId ≤ nu'.nextId := by
  obtain ⟨h1, h2, h3⟩ := Coherent.replace k.coherent k.below e
  exact ⟨k.of_shape h1 h2 (fun hu => UniqueOk.replace k.coherent (k.unique hu) e) (replace_shape e), h3⟩

theorem NsOk.update {ac : ACtx} {h : Handle} {c : Coll} {q u : Doc} {sort : Option Doc}
    {skip limit : Int} {filters : List Doc} {nu nu' : Nu} {res : CResult}
    (k : NsOk ac.sch uq h c nu.nextId) (e : c.update ac q u sort skip limit filters nu = .ok (res, nu')) :
    NsOk ac.sch uq h res.coll nu'.nextId ∧ nu.nextId ≤ nu'.nextId := by
  obtain ⟨h1, h2, h3⟩ := Coherent.update k.coherent k.below e
  exact ⟨k.of_shape h1 h2 (fun hu => UniqueOk.update k.coherent k.below (k.unique hu) e) (update_shape e), h3⟩

theorem NsOk.delete {h : Handle} {c c' : Coll} {q : Doc} {sort : Option Doc} {skip limit : Int}
    {list : List SDoc} {n : Nat} (k : NsOk sch uq h c n) (e : c.delete sch q sort skip limit = .ok (c', list)) :
    NsOk sch uq h c' n := by
  obtain ⟨h1, h2⟩ := Coherent.delete k.coherent e
  exact k.of_shape h1 (h2 n k.below) (fun hu => UniqueOk.delete (k.unique hu) e) (delete_shape e)

theorem NsOk.createIndex {h : Handle} {c c' : Coll} {name name' : String} {config : IndexConfig}
    {n : Nat} (k : NsOk sch uq h c n) (hne : h ≠ oplogHandle)
    (e : c.createIndex sch name config = .ok (c', name')) : NsOk sch uq h c' n := by
  obtain ⟨h1, h2⟩ := Coherent.createIndex k.coherent e
  refine ⟨h1, by rw [h2]; exact k.below, fun e' => absurd e' hne, fun _ => ?_,
    fun hu => UniqueOk.createIndex k.coherent (k.unique hu) e, k.names.createIndex e⟩
  obtain ⟨i, hi, hc⟩ := k.idIndex hne
  exact ⟨i, createIndex_keeps e _ hi, hc⟩

theorem NsOk.dropIndex {h : Handle} {c c' : Coll} {name : String} {dropped : List String}
    {n : Nat} (k : NsOk sch uq h c n) (hne : h ≠ oplogHandle)
    (e : c.dropIndex name = .ok (c', dropped)) : NsOk sch uq h c' n := by
  obtain ⟨h1, h2⟩ := Coherent.dropIndex k.coherent e
  refine ⟨h1, by rw [h2]; exact k.below, fun e' => absurd e' hne, fun _ => ?_,
    fun hu => UniqueOk.dropIndex (k.unique hu) e, k.names.dropIndex e⟩
  obtain ⟨i, hi, hc⟩ := k.idIndex hne
  exact ⟨i, dropIndex_keeps_id e i hi, hc⟩

/-! ### the transaction's inner operations -/

theorem Good.insertOne {cat cat' : Catalog} {h : Handle} {d d' : Doc} {nu nu' : Nu}
    (g : Good sch uq cat nu.nextId) (hne : h ≠ oplogHandle)
    (e : insertOne sch cat h d nu = .ok (cat', d', nu')) : GoodFrom sch uq nu.nextId (cat', nu') := by
  unfold Lungo.insertOne at e
  split at e
  · cases e
  · rename_i coll sd nu1 hi
    obtain ⟨k, hle⟩ := (g.ensureNs hne).insert hi
    simp only [Except.ok.injEq, Prod.mk.injEq] at e
    obtain ⟨rfl, _, rfl⟩ := e
    have g1 : GoodFrom sch uq nu.nextId (cat.set h coll, nu1) := ⟨g.set hle k, hle⟩
    exact g1.appendOplog

theorem Good.replaceOp {ac : ACtx} {cat cat' : Catalog} {h : Handle} {q repl : Doc} {sort : Option Doc}
    {upsert : Bool} {nu nu' : Nu} {r : TResult}
    (g : Good ac.sch uq cat nu.nextId) (hne : h ≠ oplogHandle)
    (e : replaceOp ac cat h q repl sort upsert nu = .ok (cat', r, nu')) :
    GoodFrom ac.sch uq nu.nextId (cat', nu') := by
  unfold Lungo.replaceOp at e
  simp only at e
  split at e
  · cases e
  · rename_i res nu1 hr
    obtain ⟨k1, hle1⟩ := (g.ensureNs hne).replace hr
    split at e
    · split at e
      · cases e
      · rename_i coll sd nu2 hu
        obtain ⟨k2, hle2⟩ := ((g.ensureNs hne).mono hle1).upsert hu
        simp only [Except.ok.injEq, Prod.mk.injEq] at e
        obtain ⟨rfl, _, rfl⟩ := e
        have g1 : GoodFrom ac.sch uq nu.nextId (cat.set h coll, nu2) :=
          ⟨g.set (Nat.le_trans hle1 hle2) k2, Nat.le_trans hle1 hle2⟩
        exact g1.appendOplog
    · simp only [Except.ok.injEq, Prod.mk.injEq] at e
      obtain ⟨rfl, _, rfl⟩ := e
      have g1 : GoodFrom ac.sch uq nu.nextId (cat.set h res.coll, nu1) := ⟨g.set hle1 k1, hle1⟩
      split
      · exact g1.appendOplog
      · exact g1
  
theorem Good.updateOp {ac : ACtx} {cat cat' : Catalog} {h : Handle} {q u : Doc} {sort : Option Doc}
    {upsert : Bool} {skip limit : Int} {filters : List Doc} {nu nu' : Nu} {r : TResult}
    (g : Good ac.sch uq cat nu.nextId) (hne : h ≠ oplogHandle)
    (e : updateOp ac cat h q u sort upsert skip limit filters nu = .ok (cat', r, nu')) :
    GoodFrom ac.sch uq nu.nextId (cat', nu') := by
  unfold Lungo.updateOp at e
  simp only at e
  split at e
  · cases e
  · rename_i res nu1 hr
    obtain ⟨k1, hle1⟩ := (g.ensureNs hne).update hr
    split at e
    · split at e
      · cases e
      · rename_i coll sd nu2 hu
        obtain ⟨k2, hle2⟩ := ((g.ensureNs hne).mono hle1).upsert hu
        simp only [Except.ok.injEq, Prod.mk.injEq] at e
        obtain ⟨rfl, _, rfl⟩ := e
        have g1 : GoodFrom ac.sch uq nu.nextId (cat.set h coll, nu2) :=
          ⟨g.set (Nat.le_trans hle1 hle2) k2, Nat.le_trans hle1 hle2⟩
        exact g1.appendOplog
    · simp only [Except.ok.injEq, Prod.mk.injEq] at e
      obtain ⟨rfl, _, rfl⟩ := e
      have g1 : GoodFrom ac.sch uq nu.nextId (cat.set h res.coll, nu1) := ⟨g.set hle1 k1, hle1⟩
      exact foldl_inv (GoodFrom ac.sch uq nu.nextId) _ (fun b a hb => hb.appendOplog) _ _ g1

theorem Good.deleteOp {cat cat' : Catalog} {h : Handle} {q : Doc} {sort : Option Doc}
    {skip limit : Int} {nu nu' : Nu} {r : TResult}
    (g : Good sch uq cat nu.nextId) (k : NsOk sch uq h (Lungo.ensureNs cat h) nu.nextId)
    (e : deleteOp sch cat h q sort skip limit nu = .ok (cat', r, nu')) :
    GoodFrom sch uq nu.nextId (cat', nu') := by
  unfold Lungo.deleteOp at e
  simp only at e
  split at e
  · cases e
  · rename_i coll list hd
    have k1 := k.delete hd
    simp only [Except.ok.injEq, Prod.mk.injEq] at e
    obtain ⟨rfl, _, rfl⟩ := e
    have g1 : GoodFrom sch uq nu.nextId (cat.set h coll, nu) := ⟨g.set (Nat.le_refl _) k1, Nat.le_refl _⟩
    exact foldl_inv (GoodFrom sch uq nu.nextId) _ (fun b a hb => hb.appendOplog) _ _ g1

/-! ### the transaction methods -/

theorem GoodFrom.trans {n0 n1 : Nat} {cn : Catalog × Nu} (g : GoodFrom sch uq n1 cn) (h : n0 ≤ n1) :
    GoodFrom sch uq n0 cn := ⟨g.1, Nat.le_trans h g.2⟩

theorem Good.base {cat : Catalog} {n : Nat} {h : Handle} (g : Good sch uq cat n) (hne : h ≠ oplogHandle) :
    Good sch uq (if (cat.get? h).isSome then cat else cat.set h (newColl true)) n := by
  split
  · exact g
  · exact g.set (Nat.le_refl _) (.new hne)

theorem Good.txn_create {t t' : Txn} {h : Handle} {n : Nat} (g : Good sch uq t.catalog n)
    (e : t.create h = .ok t') : Good sch uq t'.catalog n := by
  unfold Txn.create at e
  split at e
  · cases e
  · rename_i hw
    split at e
    · simp only [Except.ok.injEq] at e; subst e; exact g
    · simp only [Except.ok.injEq] at e; subst e
      exact g.set (Nat.le_refl _) (.new (writable_ne_oplog hw))

theorem goodFrom_ite_left {c : Prop} [Decidable c] {t : Txn} {cat : Catalog} {nu nu' : Nu}
    (g : Good sch uq t.catalog nu.nextId) (k : GoodFrom sch uq nu.nextId (cat, nu')) :
    GoodFrom sch uq nu.nextId ((if c then t else { catalog := cat, dirty := true }).catalog, nu') := by
  split
  · exact ⟨g.mono k.2, k.2⟩
  · exact k

theorem goodFrom_ite_right {c : Prop} [Decidable c] {t : Txn} {cat : Catalog} {nu nu' : Nu}
    (g : Good sch uq t.catalog nu.nextId) (k : GoodFrom sch uq nu.nextId (cat, nu')) :
    GoodFrom sch uq nu.nextId ((if c then { catalog := cat, dirty := true } else t).catalog, nu') := by
  split
  · exact k
  · exact ⟨g.mono k.2, k.2⟩

theorem insert_go_good {h : Handle} {ordered : Bool} {n0 : Nat} (hne : h ≠ oplogHandle) :
    ∀ (list : List Doc) (cat : Catalog) (nu : Nu) (acc : List Doc) (err : Option Err),
    GoodFrom sch uq n0 (cat, nu) →
    GoodFrom sch uq n0 ((Txn.insert.go sch h ordered cat nu acc err list).1,
      (Txn.insert.go sch h ordered cat nu acc err list).2.1)
  | [], cat, nu, acc, err, g => by simpa [Txn.insert.go] using g
  | d :: r, cat, nu, acc, err, g => by
    rw [Txn.insert.go]
    split
    · dsimp only
      split
      · exact g
      · exact insert_go_good hne r cat nu acc _ g
    · rename_i cat' d' nu' hi
      exact insert_go_good hne r cat' nu' _ err ((Good.insertOne g.1 hne hi).trans g.2)

theorem Good.txn_insert {t t' : Txn} {h : Handle} {list : List Doc} {ordered : Bool} {nu nu' : Nu}
    {r : TResult} (g : Good sch uq t.catalog nu.nextId)
    (e : t.insert sch h list ordered nu = .ok (t', r, nu')) :
    GoodFrom sch uq nu.nextId (t'.catalog, nu') := by
  unfold Txn.insert at e
  split at e
  · cases e
  · rename_i hw
    have hne := writable_ne_oplog hw
    have gb : GoodFrom sch uq nu.nextId
        (if (t.catalog.get? h).isSome then t.catalog else t.catalog.set h (newColl true), nu) :=
      ⟨g.base hne, Nat.le_refl _⟩
    have := insert_go_good (ordered := ordered) hne list _ nu [] none gb
    simp only [Except.ok.injEq, Prod.mk.injEq] at e
    obtain ⟨rfl, _, rfl⟩ := e
    exact goodFrom_ite_left g this

theorem bulk_go_good {ac : ACtx} {h : Handle} {ordered : Bool} {n0 : Nat} (hne : h ≠ oplogHandle) :
    ∀ (ops : List Operation) (cat : Catalog) (nu : Nu) (acc : List TResult) (ch : Nat),
    GoodFrom ac.sch uq n0 (cat, nu) →
    GoodFrom ac.sch uq n0 ((Txn.bulk.go ac h ordered cat nu acc ch ops).1,
      (Txn.bulk.go ac h ordered cat nu acc ch ops).2.1)
  | [], cat, nu, acc, ch, g => by simpa [Txn.bulk.go] using g
  | op :: r, cat, nu, acc, ch, g => by
    rw [Txn.bulk.go]
    simp only
    split
    · split
      · exact g
      · exact bulk_go_good hne r cat nu _ ch g
    · rename_i cat' tr nu' hres
      refine bulk_go_good hne r cat' nu' _ _ ?_
      split at hres
      · split at hres
        · cases hres
        · rename_i c d n hi
          simp only [Except.ok.injEq, Prod.mk.injEq] at hres
          obtain ⟨rfl, _, rfl⟩ := hres
          exact (Good.insertOne g.1 hne hi).trans g.2
      · exact (Good.replaceOp g.1 hne hres).trans g.2
      · exact (Good.updateOp g.1 hne hres).trans g.2
      · exact (Good.deleteOp g.1 (g.1.ensureNs hne) hres).trans g.2

theorem Good.txn_bulk {ac : ACtx} {t t' : Txn} {h : Handle} {ops : List Operation} {ordered : Bool}
    {nu nu' : Nu} {rs : List TResult} (g : Good ac.sch uq t.catalog nu.nextId)
    (e : t.bulk ac h ops ordered nu = .ok (t', rs, nu')) :
    GoodFrom ac.sch uq nu.nextId (t'.catalog, nu') := by
  unfold Txn.bulk at e
  split at e
  · cases e
  · rename_i hw
    have hne := writable_ne_oplog hw
    have gb : GoodFrom ac.sch uq nu.nextId
        (if (t.catalog.get? h).isSome then t.catalog else t.catalog.set h (newColl true), nu) :=
      ⟨g.base hne, Nat.le_refl _⟩
    have := bulk_go_good (ordered := ordered) hne ops _ nu [] 0 gb
    simp only [Except.ok.injEq, Prod.mk.injEq] at e
    obtain ⟨rfl, _, rfl⟩ := e
    exact goodFrom_ite_right g this

theorem Good.txn_replace {ac : ACtx} {t t' : Txn} {h : Handle} {q repl : Doc} {sort : Option Doc}
    {upsert : Bool} {nu nu' : Nu} {r : TResult} (g : Good ac.sch uq t.catalog nu.nextId)
    (e : t.replace ac h q sort repl upsert nu = .ok (t', r, nu')) :
    GoodFrom ac.sch uq nu.nextId (t'.catalog, nu') := by
  unfold Txn.replace at e
  split at e
  · cases e
  · rename_i hw
    have hne := writable_ne_oplog hw
    split at e
    · simp only [Except.ok.injEq, Prod.mk.injEq] at e
      obtain ⟨rfl, _, rfl⟩ := e
      exact ⟨g, Nat.le_refl _⟩
    · split at e
      · cases e
      · rename_i cat res nu1 hop
        have := Good.replaceOp g hne hop
        split at e
        · simp only [Except.ok.injEq, Prod.mk.injEq] at e
          obtain ⟨rfl, _, rfl⟩ := e
          exact this
        · simp only [Except.ok.injEq, Prod.mk.injEq] at e
          obtain ⟨rfl, _, rfl⟩ := e
          exact ⟨g.mono this.2, this.2⟩

theorem Good.txn_update {ac : ACtx} {t t' : Txn} {h : Handle} {q u : Doc} {sort : Option Doc}
    {skip limit : Int} {upsert : Bool} {filters : List Doc} {nu nu' : Nu} {r : TResult}
    (g : Good ac.sch uq t.catalog nu.nextId)
    (e : t.update ac h q sort u skip limit upsert filters nu = .ok (t', r, nu')) :
    GoodFrom ac.sch uq nu.nextId (t'.catalog, nu') := by
  unfold Txn.update at e
  split at e
  · cases e
  · rename_i hw
    have hne := writable_ne_oplog hw
    split at e
    · simp only [Except.ok.injEq, Prod.mk.injEq] at e
      obtain ⟨rfl, _, rfl⟩ := e
      exact ⟨g, Nat.le_refl _⟩
    · split at e
      · cases e
      · rename_i cat res nu1 hop
        have := Good.updateOp g hne hop
        split at e
        · simp only [Except.ok.injEq, Prod.mk.injEq] at e
          obtain ⟨rfl, _, rfl⟩ := e
          exact this
        · simp only [Except.ok.injEq, Prod.mk.injEq] at e
          obtain ⟨rfl, _, rfl⟩ := e
          exact ⟨g.mono this.2, this.2⟩

theorem Good.txn_delete {t t' : Txn} {h : Handle} {q : Doc} {sort : Option Doc}
    {skip limit : Int} {nu nu' : Nu} {r : TResult} (g : Good sch uq t.catalog nu.nextId)
    (e : t.delete sch h q sort skip limit nu = .ok (t', r, nu')) :
    GoodFrom sch uq nu.nextId (t'.catalog, nu') := by
  unfold Txn.delete at e
  split at e
  · cases e
  · rename_i hw
    have hne := writable_ne_oplog hw
    split at e
    · simp only [Except.ok.injEq, Prod.mk.injEq] at e
      obtain ⟨rfl, _, rfl⟩ := e
      exact ⟨g, Nat.le_refl _⟩
    · split at e
      · cases e
      · rename_i cat res nu1 hop
        have := Good.deleteOp g (g.ensureNs hne) hop
        split at e
        · simp only [Except.ok.injEq, Prod.mk.injEq] at e
          obtain ⟨rfl, _, rfl⟩ := e
          exact this
        · simp only [Except.ok.injEq, Prod.mk.injEq] at e
          obtain ⟨rfl, _, rfl⟩ := e
          exact ⟨g.mono this.2, this.2⟩

theorem Good.txn_createIndex {t t' : Txn} {h : Handle} {name name' : String} {config : IndexConfig}
    {n : Nat} (g : Good sch uq t.catalog n)
    (e : t.createIndex sch h name config = .ok (t', name')) : Good sch uq t'.catalog n := by
  unfold Txn.createIndex at e
  split at e
  · cases e
  · rename_i hw
    have hne := writable_ne_oplog hw
    split at e
    · cases e
    · rename_i coll nm hci
      simp only [Except.ok.injEq, Prod.mk.injEq] at e
      obtain ⟨rfl, _⟩ := e
      exact g.set (Nat.le_refl _) ((g.ensureNs hne).createIndex hne hci)

theorem Good.txn_dropIndex {t t' : Txn} {h : Handle} {name : String} {n : Nat}
    (g : Good sch uq t.catalog n) (e : t.dropIndex h name = .ok t') : Good sch uq t'.catalog n := by
  unfold Txn.dropIndex at e
  split at e
  · cases e
  · rename_i hw
    have hne := writable_ne_oplog hw
    split at e
    · cases e
    · rename_i c hc
      split at e
      · cases e
      · rename_i coll dropped hd
        split at e
        · simp only [Except.ok.injEq] at e; subst e; exact g
        · simp only [Except.ok.injEq] at e; subst e
          exact g.set (Nat.le_refl _) ((g.nsOk (get?_some hc)).dropIndex hne hd)

theorem Good.txn_dropIndexByKey {t t' : Txn} {h : Handle} {key : Doc} {n : Nat}
    (g : Good sch uq t.catalog n) (e : t.dropIndexByKey h key = .ok t') : Good sch uq t'.catalog n := by
  unfold Txn.dropIndexByKey at e
  split at e
  · cases e
  · split at e
    · cases e
    · split at e
      · cases e
      · exact g.txn_dropIndex e

theorem Good.filter {cat : Catalog} {n : Nat} (g : Good sch uq cat n) (p : Handle × Coll → Bool)
    (hp : ∀ c, (oplogHandle, c) ∈ cat.namespaces → p (oplogHandle, c) = true) :
    Good sch uq { cat with namespaces := cat.namespaces.filter p } n := by
  refine Good.of (fun h c hm => g.nsOk (List.mem_filter.mp hm).1) ?_
  obtain ⟨c, hc⟩ := g.1.oplog
  exact ⟨c, List.mem_filter.mpr ⟨hc, hp c hc⟩⟩

theorem Good.txn_drop {t t' : Txn} {h : Handle} {nu nu' : Nu} (g : Good sch uq t.catalog nu.nextId)
    (e : t.drop h nu = .ok (t', nu')) : GoodFrom sch uq nu.nextId (t'.catalog, nu') := by
  unfold Txn.drop at e
  split at e
  · cases e
  · rename_i hw
    have hne := writable_ne_oplog hw
    have hdb := writable_db hw
    simp only at e
    split at e
    · simp only [Except.ok.injEq, Prod.mk.injEq] at e
      obtain ⟨rfl, rfl⟩ := e
      exact ⟨g, Nat.le_refl _⟩
    · simp only [Except.ok.injEq, Prod.mk.injEq] at e
      obtain ⟨rfl, rfl⟩ := e
      have g0 : GoodFrom sch uq nu.nextId
          ({ t.catalog with namespaces := t.catalog.namespaces.filter fun x =>
              !(x.1 == h || (h.coll == "" && x.1.db == h.db)) }, nu) := by
        refine ⟨g.filter _ ?_, Nat.le_refl _⟩
        intro c _
        have h1 : (oplogHandle == h) = false := by
          simp only [beq_eq_false_iff_ne, ne_eq]; exact fun e => hne e.symm
        have h2 : (oplogHandle.db == h.db) = false := by
          simp only [beq_eq_false_iff_ne, ne_eq]; exact fun e => hdb e.symm
        simp only [h1, h2, Bool.and_false, Bool.or_false, Bool.not_false]
      have g1 := foldl_inv (GoodFrom sch uq nu.nextId)
        (fun (cn : Catalog × Nu) (ns : Handle) => Lungo.appendOplog cn.1 cn.2 ns "drop" none none)
        (fun b a hb => hb.appendOplog)
        ((t.catalog.namespaces.filter fun x => x.1 == h || (h.coll == "" && x.1.db == h.db)).map (·.1)) _ g0
      split
      · exact g1.appendOplog
      · exact g1

theorem expire_go_good {nowMs : Int} {n0 : Nat} :
    ∀ (l : List (Handle × Coll)) (cat : Catalog) (nu : Nu) (deleted : Nat) {cat' : Catalog} {nu' : Nu} {d' : Nat},
    (∀ h c, (h, c) ∈ l → h = oplogHandle → c.indexes = []) → GoodFrom sch uq n0 (cat, nu) →
    Txn.expire.go sch nowMs cat nu deleted l = .ok (cat', nu', d') → GoodFrom sch uq n0 (cat', nu')
  | [], cat, nu, deleted, cat', nu', d', _, g, e => by
    simp only [Txn.expire.go, Except.ok.injEq, Prod.mk.injEq] at e
    obtain ⟨rfl, rfl, _⟩ := e
    exact g
  | (h, c) :: r, cat, nu, deleted, cat', nu', d', hl, g, e => by
    rw [Txn.expire.go] at e
    simp only at e
    have hl' : ∀ h c, (h, c) ∈ r → h = oplogHandle → c.indexes = [] :=
      fun h c hm => hl h c (List.mem_cons_of_mem _ hm)
    split at e
    · exact expire_go_good r cat nu deleted hl' g e
    · rename_i httl
      have hne : h ≠ oplogHandle := by
        intro eh
        apply httl
        rw [hl h c (by simp) eh]
        rfl
      split at e
      · cases e
      · rename_i cat1 res nu1 hd
        have g1 := (Good.deleteOp g.1 (g.1.ensureNs hne) hd).trans g.2
        exact expire_go_good r cat1 nu1 _ hl' g1 e

theorem Good.txn_expire {t t' : Txn} {nowMs : Int} {nu nu' : Nu} {k : Nat}
    (g : Good sch uq t.catalog nu.nextId)
    (e : t.expire sch nowMs nu = .ok (t', k, nu')) : GoodFrom sch uq nu.nextId (t'.catalog, nu') := by
  unfold Txn.expire at e
  split at e
  · cases e
  · rename_i cat nu1 deleted hgo
    have := expire_go_good (sch := sch) t.catalog.namespaces t.catalog nu 0
      (fun h c hm eh => g.1.oplogBare c (eh ▸ hm)) ⟨g, Nat.le_refl _⟩ hgo
    split at e
    · simp only [Except.ok.injEq, Prod.mk.injEq] at e
      obtain ⟨rfl, _, rfl⟩ := e
      exact this
    · simp only [Except.ok.injEq, Prod.mk.injEq] at e
      obtain ⟨rfl, _, rfl⟩ := e
      exact ⟨g.mono this.2, this.2⟩

/-! ### the driver calls -/

def SysGood (sch : SchemaEval) (uq : Bool) (s : Sys) : Prop := Good sch uq s.catalog s.nextId

theorem SysGood.commit {s : Sys} {t : Txn} {nu' : Nu} (g : SysGood sch uq s)
    (k : GoodFrom sch uq s.nextId (t.catalog, nu')) : SysGood sch uq (s.commit t nu') := by
  unfold Sys.commit SysGood
  split
  · exact k.1
  · exact g.mono k.2

theorem SysGood.commit0 {s : Sys} {t : Txn} {oids : List V} (g : SysGood sch uq s)
    (k : Good sch uq t.catalog s.nextId) : SysGood sch uq (s.commit t (s.nu oids)) :=
  g.commit ⟨k, Nat.le_refl _⟩

theorem SysGood.init : SysGood sch uq Sys.init := by
  refine Good.of ?_ ⟨newColl false, by simp [Sys.init, newCatalog]⟩
  intro h c hm
  simp only [Sys.init, newCatalog, List.mem_singleton, Prod.mk.injEq] at hm
  obtain ⟨rfl, rfl⟩ := hm
  exact ⟨.new false, fun x hx => by simp [newColl] at hx, fun _ => rfl, fun e => absurd rfl e, fun _ => .new false, .new false⟩

theorem goodFrom_refl {t : Txn} {nu : Nu} (g : Good sch uq t.catalog nu.nextId) :
    GoodFrom sch uq nu.nextId (t.catalog, nu) := ⟨g, Nat.le_refl _⟩

theorem goodFrom0 {t' : Txn} {nu : Nu} (g : Good sch uq t'.catalog nu.nextId) :
    GoodFrom sch uq nu.nextId (t'.catalog, nu) := ⟨g, Nat.le_refl _⟩

/-- one driver call on a transaction (plain call or inside a session) preserves the invariant of
    the transaction's catalog -/
theorem Good.runCall {t t' : Txn} {nu nu' : Nu} {c : Call} {r : Reply}
    (g : Good sch uq t.catalog nu.nextId)
    (e : runCall sch t nu c = .ok (t', nu', r)) : GoodFrom sch uq nu.nextId (t'.catalog, nu') := by
  have g0 := g
  unfold Lungo.runCall at e
  cases c with
  | insertOne h doc =>
    simp only at e
    split at e
    · cases e
    · rename_i t r nu he
      split at e
      · cases e
      · split at e
        · simp only [Except.ok.injEq, Prod.mk.injEq] at e
          obtain ⟨rfl, rfl, _⟩ := e
          exact (Good.txn_insert g0 he)
        · cases e
  | insertMany h docs ordered =>
    simp only at e
    split at e
    · cases e
    · rename_i t r nu he
      simp only [Except.ok.injEq, Prod.mk.injEq] at e
      obtain ⟨rfl, rfl, _⟩ := e
      exact (Good.txn_insert g0 he)
  | find h q o =>
    simp only at e
    split at e
    · cases e
    · split at e
      · cases e
      · simp only [Except.ok.injEq, Prod.mk.injEq] at e
        obtain ⟨rfl, rfl, _⟩ := e
        exact goodFrom_refl g
  | findOne h q o =>
    simp only at e
    split at e
    · cases e
    · simp only [Except.ok.injEq, Prod.mk.injEq] at e
      obtain ⟨rfl, rfl, _⟩ := e
      exact goodFrom_refl g
    · split at e
      · cases e
      · simp only [Except.ok.injEq, Prod.mk.injEq] at e
        obtain ⟨rfl, rfl, _⟩ := e
        exact goodFrom_refl g
  | count h q skip limit =>
    simp only at e
    split at e
    · cases e
    · simp only [Except.ok.injEq, Prod.mk.injEq] at e
      obtain ⟨rfl, rfl, _⟩ := e
      exact goodFrom_refl g
  | estCount h =>
    simp only at e
    split at e
    · cases e
    · simp only [Except.ok.injEq, Prod.mk.injEq] at e
      obtain ⟨rfl, rfl, _⟩ := e
      exact goodFrom_refl g
  | distinct h field q =>
    simp only at e
    split at e
    · cases e
    · simp only [Except.ok.injEq, Prod.mk.injEq] at e
      obtain ⟨rfl, rfl, _⟩ := e
      exact goodFrom_refl g
  | updateOne h q u upsert fs =>
    simp only at e
    split at e
    · cases e
    · rename_i t r nu he
      simp only [Except.ok.injEq, Prod.mk.injEq] at e
      obtain ⟨rfl, rfl, _⟩ := e
      exact (Good.txn_update (ac := acOf sch) g0 he)
  | updateMany h q u upsert fs =>
    simp only at e
    split at e
    · cases e
    · rename_i t r nu he
      simp only [Except.ok.injEq, Prod.mk.injEq] at e
      obtain ⟨rfl, rfl, _⟩ := e
      exact (Good.txn_update (ac := acOf sch) g0 he)
  | replaceOne h q repl upsert =>
    simp only at e
    split at e
    · cases e
    · split at e
      · cases e
      · rename_i t r nu he
        simp only [Except.ok.injEq, Prod.mk.injEq] at e
        obtain ⟨rfl, rfl, _⟩ := e
        exact (Good.txn_replace (ac := acOf sch) g0 he)
  | deleteOne h q =>
    simp only at e
    split at e
    · cases e
    · rename_i t r nu he
      simp only [Except.ok.injEq, Prod.mk.injEq] at e
      obtain ⟨rfl, rfl, _⟩ := e
      exact (Good.txn_delete g0 he)
  | deleteMany h q =>
    simp only at e
    split at e
    · cases e
    · rename_i t r nu he
      simp only [Except.ok.injEq, Prod.mk.injEq] at e
      obtain ⟨rfl, rfl, _⟩ := e
      exact (Good.txn_delete g0 he)
  | findOneAndDelete h q sort proj =>
    simp only at e
    split at e
    · cases e
    · rename_i t r nu he
      split at e
      · cases e
      · simp only [Except.ok.injEq, Prod.mk.injEq] at e
        obtain ⟨rfl, rfl, _⟩ := e
        exact (Good.txn_delete g0 he)
  | findOneAndReplace h q repl sort proj upsert after =>
    simp only at e
    split at e
    · cases e
    · split at e
      · cases e
      · rename_i t r nu he
        split at e
        · cases e
        · simp only [Except.ok.injEq, Prod.mk.injEq] at e
          obtain ⟨rfl, rfl, _⟩ := e
          exact (Good.txn_replace (ac := acOf sch) g0 he)
  | findOneAndUpdate h q u sort proj upsert after fs =>
    simp only at e
    split at e
    · cases e
    · rename_i t r nu he
      split at e
      · cases e
      · simp only [Except.ok.injEq, Prod.mk.injEq] at e
        obtain ⟨rfl, rfl, _⟩ := e
        exact (Good.txn_update (ac := acOf sch) g0 he)
  | bulkWrite h models ordered =>
    simp only at e
    split at e
    · cases e
    · split at e
      · cases e
      · rename_i t results nu he
        simp only [Except.ok.injEq, Prod.mk.injEq] at e
        obtain ⟨rfl, rfl, _⟩ := e
        exact (Good.txn_bulk (ac := acOf sch) g0 he)
  | createIndex h name config =>
    simp only at e
    split at e
    · cases e
    · rename_i t nm he
      simp only [Except.ok.injEq, Prod.mk.injEq] at e
      obtain ⟨rfl, rfl, _⟩ := e
      exact goodFrom0 (Good.txn_createIndex g0 he)
  | dropIndex h name =>
    simp only at e
    split at e
    · cases e
    · rename_i t he
      simp only [Except.ok.injEq, Prod.mk.injEq] at e
      obtain ⟨rfl, rfl, _⟩ := e
      exact goodFrom0 (Good.txn_dropIndex g0 he)
  | dropAllIndexes h =>
    simp only at e
    split at e
    · cases e
    · rename_i t he
      simp only [Except.ok.injEq, Prod.mk.injEq] at e
      obtain ⟨rfl, rfl, _⟩ := e
      exact goodFrom0 (Good.txn_dropIndex g0 he)
  | dropIndexByKey h key =>
    simp only at e
    split at e
    · cases e
    · rename_i t he
      simp only [Except.ok.injEq, Prod.mk.injEq] at e
      obtain ⟨rfl, rfl, _⟩ := e
      exact goodFrom0 (Good.txn_dropIndexByKey g0 he)
  | listIndexes h =>
    simp only at e
    split at e
    · cases e
    · simp only [Except.ok.injEq, Prod.mk.injEq] at e
      obtain ⟨rfl, rfl, _⟩ := e
      exact goodFrom_refl g
  | createCollection h =>
    simp only at e
    split at e
    · cases e
    · rename_i t he
      simp only [Except.ok.injEq, Prod.mk.injEq] at e
      obtain ⟨rfl, rfl, _⟩ := e
      exact goodFrom0 (Good.txn_create g0 he)
  | dropCollection h =>
    simp only at e
    split at e
    · cases e
    · split at e
      · cases e
      · rename_i t nu he
        simp only [Except.ok.injEq, Prod.mk.injEq] at e
        obtain ⟨rfl, rfl, _⟩ := e
        exact (Good.txn_drop g0 he)
  | dropDatabase db =>
    simp only at e
    split at e
    · cases e
    · rename_i t nu he
      simp only [Except.ok.injEq, Prod.mk.injEq] at e
      obtain ⟨rfl, rfl, _⟩ := e
      exact (Good.txn_drop g0 he)
  | listCollections db q =>
    simp only at e
    split at e
    · cases e
    · split at e
      · cases e
      · simp only [Except.ok.injEq, Prod.mk.injEq] at e
        obtain ⟨rfl, rfl, _⟩ := e
        exact goodFrom_refl g
  | listDatabases q =>
    simp only at e
    split at e
    · cases e
    · simp only [Except.ok.injEq, Prod.mk.injEq] at e
      obtain ⟨rfl, rfl, _⟩ := e
      exact goodFrom_refl g
  | expire nowMs =>
    simp only at e
    split at e
    · cases e
    · rename_i t n nu he
      simp only [Except.ok.injEq, Prod.mk.injEq] at e
      obtain ⟨rfl, rfl, _⟩ := e
      exact (Good.txn_expire g0 he)


theorem SysGood.step {s s' : Sys} {c : Call} {oids : List V} {r : Reply} (g : SysGood sch uq s)
    (e : Sys.step sch s c oids = .ok (s', r)) : SysGood sch uq s' := by
  unfold Sys.step at e
  split at e
  · cases e
  · rename_i t nu r' he
    simp only [Except.ok.injEq, Prod.mk.injEq] at e
    obtain ⟨rfl, _⟩ := e
    have g0 : Good sch uq (Txn.mk s.catalog false).catalog (s.nu oids).nextId := g
    exact g.commit (Good.runCall g0 he)

theorem SysGood.run {s : Sys} (g : SysGood sch uq s) (calls : List (Call × List V)) :
    SysGood sch uq (Sys.run sch s calls) := by
  unfold Sys.run
  refine foldl_inv (SysGood sch uq) _ ?_ calls s g
  intro b a hb
  split
  · rename_i s' r he; exact hb.step he
  · exact hb

/-! ### the session-level system (`SSys.step`): committed catalog and every open session transaction -/

def SGood (sch : SchemaEval) (uq : Bool) (s : SSys) : Prop :=
  SysGood sch uq s.sys ∧
  ∀ k st t, (k, st) ∈ s.sessions → st.txn = some t → Good sch uq t.catalog s.sys.nextId

theorem sess_txn {s : SSys} {k : Nat} {t : Txn} (h : (s.sess k).txn = some t) :
    ∃ st, (k, st) ∈ s.sessions ∧ st.txn = some t := by
  unfold SSys.sess at h
  cases hf : s.sessions.find? (·.1 == k) with
  | none => rw [hf] at h; cases h
  | some p =>
    rw [hf] at h
    have h1 := List.mem_of_find?_eq_some hf
    have h2 := List.find?_some hf
    simp only [beq_iff_eq] at h2
    obtain ⟨a, b⟩ := p
    simp only at h2; subst h2
    exact ⟨b, h1, h⟩

theorem mem_setSess {s : SSys} {k k' : Nat} {st st' : SessState}
    (hm : (k', st') ∈ (s.setSess k st).sessions) : st' = st ∨ (k', st') ∈ s.sessions := by
  unfold SSys.setSess at hm
  split at hm
  · simp only [List.mem_map] at hm
    obtain ⟨⟨a, b⟩, hab, e⟩ := hm
    simp only at e
    split at e
    · simp only [Prod.mk.injEq] at e; exact .inl e.2.symm
    · simp only [Prod.mk.injEq] at e
      obtain ⟨rfl, rfl⟩ := e; exact .inr hab
  · dsimp only at hm
    rcases List.mem_append.mp hm with h1 | h1
    · exact .inr h1
    · simp only [List.mem_singleton, Prod.mk.injEq] at h1; exact .inl h1.2

theorem setSess_sys (s : SSys) (k : Nat) (st : SessState) : (s.setSess k st).sys = s.sys := by
  unfold SSys.setSess; split <;> rfl

/-- updating one session's state: good if the new transaction (if any) is good -/
theorem SGood.setSess {s : SSys} {k : Nat} {st : SessState} (g : SGood sch uq s)
    (h : ∀ t, st.txn = some t → Good sch uq t.catalog s.sys.nextId) : SGood sch uq (s.setSess k st) := by
  refine ⟨by rw [setSess_sys]; exact g.1, ?_⟩
  intro k' st' t hm ht
  rw [setSess_sys]
  rcases mem_setSess hm with rfl | hm
  · exact h t ht
  · exact g.2 k' st' t hm ht

theorem SGood.init : SGood sch uq SSys.init :=
  ⟨SysGood.init, fun _ _ _ hm => by simp [SSys.init] at hm⟩

theorem SGood.step {s : SSys} (g : SGood sch uq s) (c : SCall) : SGood sch uq (s.step sch c).1 := by
  unfold SSys.step
  cases c with
  | start sid =>
    simp only
    split
    · exact g
    · split
      · exact g
      · split
        · exact g
        · have := g.setSess (k := sid) (st := { s.sess sid with txn := some { catalog := s.sys.catalog } })
            (fun t ht => by
              simp only [Option.some.injEq] at ht; subst ht; exact g.1)
          exact ⟨this.1, this.2⟩
  | commit sid =>
    simp only
    split
    · exact g
    · split
      · exact g
      · rename_i t ht
        obtain ⟨st0, hm0, ht0⟩ := sess_txn ht
        have gt := g.2 sid st0 t hm0 ht0
        have := g.setSess (k := sid) (st := { s.sess sid with txn := none }) (fun t h => by cases h)
        refine ⟨?_, ?_⟩
        · show Good sch uq (if t.dirty then t.catalog else s.sys.catalog) s.sys.nextId
          split
          · exact gt
          · exact g.1
        · intro k st t' hm ht'
          have := this.2 k st t' hm ht'
          rw [setSess_sys] at this
          exact this
  | abort sid =>
    simp only
    split
    · exact g
    · split
      · exact g
      · have := g.setSess (k := sid) (st := { s.sess sid with txn := none }) (fun t h => by cases h)
        exact ⟨this.1, this.2⟩
  | endSession sid =>
    simp only
    split
    · exact g
    · have g' : SGood sch uq (match (s.sess sid).txn with
          | none => s
          | some _ => { s with holder := none }) := by
        split
        · exact g
        · exact ⟨g.1, g.2⟩
      exact g'.setSess (fun t h => by cases h)
  | call sid c oids =>
    simp only
    split
    · rename_i k t hact
      split
      · exact g
      · split
        · exact g
        · rename_i t' nu r he
          have ht : (s.sess k).txn = some t := by
            split at hact
            · cases hact
            · rename_i k0
              cases hx : (s.sess k0).txn with
              | none => rw [hx] at hact; cases hact
              | some t0 =>
                rw [hx] at hact
                simp only [Option.map_some, Option.some.injEq, Prod.mk.injEq] at hact
                obtain ⟨rfl, rfl⟩ := hact
                exact hx
          obtain ⟨st0, hm0, ht0⟩ := sess_txn ht
          have gt : Good sch uq t.catalog (Nu.mk s.sys.nextId oids).nextId := g.2 k st0 t hm0 ht0
          obtain ⟨g1, hle⟩ := Good.runCall gt he
          have hle' : s.sys.nextId ≤ nu.nextId := hle
          refine ⟨g.1.mono hle' |> fun x => ?_, ?_⟩
          · have : Good sch uq s.sys.catalog nu.nextId := x
            exact this
          · intro k' st' t'' hm ht''
            have hm' : (k', st') ∈ (s.setSess k { s.sess k with txn := some t' }).sessions := hm
            show Good sch uq t''.catalog nu.nextId
            rcases mem_setSess hm' with rfl | hm'
            · simp only [Option.some.injEq] at ht''; subst ht''; exact g1
            · exact (g.2 k' st' t'' hm' ht'').mono hle'
    · split
      · exact g
      · split
        · exact g
        · split
          · exact g
          · rename_i sys' r he
            exact ⟨g.1.step he, fun k st t hm ht => by
              have := g.2 k st t hm ht
              -- ν only moves forward
              unfold Sys.step at he
              split at he
              · cases he
              · rename_i t1 nu1 r1 hr
                simp only [Except.ok.injEq, Prod.mk.injEq] at he
                obtain ⟨rfl, _⟩ := he
                have g0 : Good sch uq (Txn.mk s.sys.catalog false).catalog (s.sys.nu oids).nextId := g.1
                exact this.mono (Good.runCall g0 hr).2⟩

end Lungo
