/-
  Lungo.Proofs.NoPanic2 — the no-panic lemmas of the layers above Match / Apply:
  Project, Sort, Collection, Transaction, the driver calls (Api) and the session layer.
  One lemma per model function, named `<function>_np`.  Used by C20.

  `NP r` (from Proofs/NoPanic) says "the result `r` is not `.error (.panic _)`".
  Errors that a call stores INSIDE a successful result (`TResult.error`, the `errors` of a
  bulk write, the `err` of `insertMany`) are covered as well: `Err.isPanic`, `Reply.panicFree`.
-/
import Lungo.Proofs.NoPanic
import Lungo.Model.Session
import Lungo.Spec.IndexSpec
namespace Lungo

/-- the `$jsonSchema` evaluator parameter reports no panic (it is `schemaUnmodelled` in the driver). -/
def SchNoPanic (sch : SchemaEval) : Prop := ∀ a b, NP (sch a b)

theorem schemaUnmodelled_noPanic : SchNoPanic schemaUnmodelled := by
  intro a b site h; cases h

theorem NP_dup {α} : NP (.error .dup : Res α) := by intro s h; cases h

/-- closes / splits `NP (…)` goals whose shape is nested `match`/`if` with leaves `.ok _`,
    `.error <non-panic constant>`, `.error e` under a hypothesis `g … = .error e` (closed by one of
    the given lemmas `NP (g …)`), or a call `g …` itself (closed by a given lemma). -/
syntax "np_auto" "[" term,* "]" : tactic
macro_rules
  | `(tactic| np_auto [$ts,*]) => do
    let alts ← ts.getElems.mapM fun t => `(tactic| exact NP_of_error $t (by assumption))
    let alts2 ← ts.getElems.mapM fun t => `(tactic| exact $t)
    `(tactic| repeat' (first
        | exact NP_ok _ | exact NP_err | exact NP_dup | exact NP_notMatched | exact NP_unmodelled _
        $[| $alts:tactic]* $[| $alts2:tactic]*
        | split
        | (simp only []; done)
        | simp only []))

/-! ### Project -/

theorem projectCondition_np (s : PState) (path : String) (v : V) : NP (projectCondition s path v) := by
  unfold projectCondition
  np_leaves

theorem projectSlice_np (s : PState) (d : Doc) (path : String) (v : V) : NP (projectSlice s d path v) := by
  unfold projectSlice
  np_leaves

theorem firstElemMatch_np (sch : SchemaEval) (hs : SchNoPanic sch) (query : Doc) (xs : List V) :
    NP (firstElemMatch sch query xs) := by
  induction xs with
  | nil => exact NP_ok _
  | cons item r ih =>
    unfold firstElemMatch
    np_auto [ih, (match_np_all sch hs).2.1 _ _ _ _]

theorem projectElemMatch_np (sch : SchemaEval) (hs : SchNoPanic sch) (s : PState) (d : Doc) (path : String)
    (v : V) : NP (projectElemMatch sch s d path v) := by
  unfold projectElemMatch
  np_auto [firstElemMatch_np sch hs _ _]

theorem projOp_np (sch : SchemaEval) (hs : SchNoPanic sch) (s : PState) (d : Doc) (op path : String) (v : V) :
    NP (projOp sch s d op path v) := by
  unfold projOp
  np_auto [projectCondition_np _ _ _, projectSlice_np _ _ _ _, projectElemMatch_np sch hs _ _ _ _]

theorem projOps_np (sch : SchemaEval) (hs : SchNoPanic sch) (s : PState) (d : Doc) (path : String)
    (l : List (String × V)) : NP (projOps sch s d path l) := by
  induction l generalizing s with
  | nil => exact NP_ok _
  | cons kv r ih =>
    obtain ⟨k, v⟩ := kv
    unfold projOps
    np_auto [ih _, projOp_np sch hs _ _ _ _ _]

theorem projProcess_np (sch : SchemaEval) (hs : SchNoPanic sch) (s : PState) (d : Doc)
    (l : List (String × V)) : NP (projProcess sch s d l) := by
  induction l generalizing s with
  | nil => exact NP_ok _
  | cons kv r ih =>
    obtain ⟨k, v⟩ := kv
    unfold projProcess
    simp only
    split
    · rename_i e he
      refine NP_of_error ?_ he
      np_auto [projOps_np sch hs _ _ _ _, projectCondition_np _ _ _]
    · exact ih _

theorem Put_np' (d : Doc) (p : String) (x : V) (pre : Bool) : NP (Put d (splitPath p) x pre) :=
  Put_np d _ x pre (splitPath_ne_nil p)

theorem Put_id_np (d : Doc) (x : V) (pre : Bool) : NP (Put d ["_id"] x pre) :=
  Put_np d _ x pre (by simp)

theorem putAll_np (res : Doc) (l : List (String × V)) : NP (putAll res l) := by
  induction l generalizing res with
  | nil => exact NP_ok _
  | cons kv r ih =>
    obtain ⟨p, v⟩ := kv
    unfold putAll
    np_auto [ih _, Put_np' _ _ _ _]

/-- `mongokit.Project` -/
theorem Project_np (sch : SchemaEval) (hs : SchNoPanic sch) (d proj : Doc) : NP (Project sch d proj) := by
  unfold Project
  split
  · np_auto [projProcess_np sch hs _ _ _]
  · split
    · exact NP_err
    · simp only
      split
      · rename_i e he
        refine NP_of_error ?_ he
        np_auto [putAll_np _ _, Put_id_np _ _ _]
      · np_auto [putAll_np _ _]

/-! ### Sort / Distinct -/

theorem columns_np (spec : Doc) : NP (columns spec) := by
  induction spec with
  | nil => exact NP_ok _
  | cons kv r ih =>
    obtain ⟨k, v⟩ := kv
    unfold columns
    simp only
    split
    · rename_i e he
      refine NP_of_error ?_ he
      np_auto []
    · np_auto [ih]

theorem sortBySpec_np (list : List Doc) (spec : Doc) : NP (sortBySpec list spec) := by
  unfold sortBySpec
  np_auto [columns_np _]

/-! ### Collection -/

theorem partialMatches_np (sch : SchemaEval) (hs : SchNoPanic sch) (i : Index) (d : Doc) :
    NP (partialMatches sch i d) := by
  unfold partialMatches
  np_auto [Match_np sch hs _ _]

theorem Index.add_np (sch : SchemaEval) (hs : SchNoPanic sch) (i : Index) (sd : SDoc) : NP (i.add sch sd) := by
  unfold Index.add
  np_auto [partialMatches_np sch hs _ _]

theorem Index.remove_np (sch : SchemaEval) (hs : SchNoPanic sch) (i : Index) (sd : SDoc) :
    NP (i.remove sch sd) := by
  unfold Index.remove
  np_auto [partialMatches_np sch hs _ _]

theorem newIndex_np (config : IndexConfig) : NP (newIndex config) := by
  unfold newIndex
  np_auto [columns_np _]

theorem Index.build_np (sch : SchemaEval) (hs : SchNoPanic sch) (i : Index) (l : List SDoc) :
    NP (i.build sch l) := by
  induction l generalizing i with
  | nil => exact NP_ok _
  | cons sd r ih =>
    unfold Index.build
    np_auto [ih _, Index.add_np sch hs _ _]

theorem IndexConfig.name_np (c : IndexConfig) : NP c.name := by
  unfold IndexConfig.name
  np_auto [columns_np _]

theorem addToIndexes_np (sch : SchemaEval) (hs : SchNoPanic sch) (sd : SDoc) (l : List (String × Index)) :
    NP (addToIndexes sch sd l) := by
  induction l with
  | nil => exact NP_ok _
  | cons ni r ih =>
    obtain ⟨n, i⟩ := ni
    unfold addToIndexes
    np_auto [ih, Index.add_np sch hs _ _]

theorem removeFromIndexes_np (sch : SchemaEval) (hs : SchNoPanic sch) (sd : SDoc) (l : List (String × Index)) :
    NP (removeFromIndexes sch sd l) := by
  induction l with
  | nil => exact NP_ok _
  | cons ni r ih =>
    obtain ⟨n, i⟩ := ni
    unfold removeFromIndexes
    np_auto [ih, Index.remove_np sch hs _ _]

theorem filterDocs_np (sch : SchemaEval) (hs : SchNoPanic sch) (query : Doc) (limit : Nat) (l : List SDoc) :
    NP (filterDocs sch query limit l) := by
  induction l generalizing limit with
  | nil => exact NP_ok _
  | cons sd r ih =>
    unfold filterDocs
    np_auto [ih _, Match_np sch hs _ _]

theorem selectDocs_np (sch : SchemaEval) (hs : SchNoPanic sch) (c : Coll) (query : Doc) (sort : Option Doc)
    (skip limit : Int) : NP (selectDocs sch c query sort skip limit) := by
  unfold selectDocs
  split
  · exact NP_err
  · simp only
    split
    · rename_i e he
      refine NP_of_error ?_ he
      np_auto [columns_np _]
    · np_auto [filterDocs_np sch hs _ _ _]

theorem Coll.find_np (sch : SchemaEval) (hs : SchNoPanic sch) (c : Coll) (query : Doc) (sort : Option Doc)
    (skip limit : Int) : NP (c.find sch query sort skip limit) :=
  selectDocs_np sch hs c query sort skip limit

theorem Nu.oid_np (n : Nu) : NP n.oid := by
  unfold Nu.oid
  np_auto []

theorem ensureId_np (d : Doc) (nu : Nu) : NP (ensureId d nu) := by
  unfold ensureId
  np_auto [Nu.oid_np _, Put_id_np _ _ _]

theorem Coll.insert_np (sch : SchemaEval) (hs : SchNoPanic sch) (c : Coll) (d : Doc) (nu : Nu) :
    NP (c.insert sch d nu) := by
  unfold Coll.insert
  np_auto [ensureId_np _ _, addToIndexes_np sch hs _ _]

theorem Coll.replace.upd_np (sch : SchemaEval) (hs : SchNoPanic sch) (old nw : SDoc) (l : List (String × Index)) :
    NP (Coll.replace.upd sch old nw l) := by
  induction l with
  | nil => exact NP_ok _
  | cons ni r ih =>
    obtain ⟨n, i⟩ := ni
    unfold Coll.replace.upd
    np_auto [ih, Index.add_np sch hs _ _, Index.remove_np sch hs _ _]

theorem Coll.replace_np (sch : SchemaEval) (hs : SchNoPanic sch) (c : Coll) (query repl : Doc)
    (sort : Option Doc) (nu : Nu) : NP (c.replace sch query repl sort nu) := by
  unfold Coll.replace
  split
  · np_auto [selectDocs_np sch hs _ _ _ _ _]
  · exact NP_ok _
  · simp only
    split
    · rename_i e he
      refine NP_of_error ?_ he
      np_auto [Put_id_np _ _ _]
    · np_auto [Coll.replace.upd_np sch hs _ _ _]

theorem foldIdx_np (f : List (String × Index) → SDoc → Res (List (String × Index))) (hf : ∀ i s, NP (f i s))
    (idx : List (String × Index)) (l : List SDoc) : NP (foldIdx f idx l) := by
  induction l generalizing idx with
  | nil => exact NP_ok _
  | cons sd r ih =>
    unfold foldIdx
    np_auto [ih _, hf _ _]

theorem Coll.update.applyAll_np (ac : ACtx) (hs : SchNoPanic ac.sch) (update : Doc) (afs : List Doc) (nu : Nu)
    (l : List SDoc) : NP (Coll.update.applyAll ac update afs nu l) := by
  induction l generalizing nu with
  | nil => exact NP_ok _
  | cons sd r ih =>
    unfold Coll.update.applyAll
    np_auto [ih _, Apply_np { ac with upsert := false } hs _ _ _]

theorem Coll.update_np (ac : ACtx) (hs : SchNoPanic ac.sch) (c : Coll) (query update : Doc) (sort : Option Doc)
    (skip limit : Int) (afs : List Doc) (nu : Nu) : NP (c.update ac query update sort skip limit afs nu) := by
  unfold Coll.update
  simp only
  np_auto [selectDocs_np ac.sch hs _ _ _ _ _, Coll.update.applyAll_np ac hs _ _ _ _,
    foldIdx_np _ (fun i s => removeFromIndexes_np ac.sch hs s i) _ _,
    foldIdx_np _ (fun i s => addToIndexes_np ac.sch hs s i) _ _]

theorem extractEq_np (doc : Doc) (path : String) (v : V) : NP (extractEq doc path v) := by
  unfold extractEq
  np_auto [Put_np' _ _ _ _]

theorem extractIn_np (doc : Doc) (path : String) (v : V) : NP (extractIn doc path v) := by
  unfold extractIn
  np_auto [Put_np' _ _ _ _]

theorem extractOps_np (doc : Doc) (path : String) (l : List (String × V)) : NP (extractOps doc path l) := by
  induction l generalizing doc with
  | nil => exact NP_ok _
  | cons kv r ih =>
    obtain ⟨k, v⟩ := kv
    unfold extractOps
    np_auto [ih _, extractEq_np _ _ _, extractIn_np _ _ _]

theorem extract_np_all (n : Nat) :
    (∀ doc query pfx root, sizeOf query ≤ n → NP (extractSeq doc query pfx root)) ∧
    (∀ doc items, sizeOf items ≤ n → NP (extractAndLoop doc items)) := by
  induction n with
  | zero =>
    constructor
    · intro doc query pfx root h
      cases query with
      | nil => unfold extractSeq; exact NP_ok _
      | cons a r => simp at h
    · intro doc items h
      cases items with
      | nil => unfold extractAndLoop; exact NP_ok _
      | cons a r => simp at h
  | succ n ih =>
    obtain ⟨ih1, ih2⟩ := ih
    constructor
    · intro doc query pfx root h
      cases query with
      | nil => unfold extractSeq; exact NP_ok _
      | cons kv r =>
        obtain ⟨key, value⟩ := kv
        unfold extractSeq
        simp only
        split
        · rename_i e he
          refine NP_of_error ?_ he
          np_auto [Put_np' _ _ _ _, extractIn_np _ _ _, extractEq_np _ _ _, extractOps_np _ _ _]
          · apply ih2; simp at h; omega
          · apply ih1; simp at h; omega
        · apply ih1; simp at h; omega
    · intro doc items h
      cases items with
      | nil => unfold extractAndLoop; exact NP_ok _
      | cons a r =>
        unfold extractAndLoop
        split
        · cases ‹_ = _›
        · rename_i q r' heq
          cases heq
          split
          · rename_i e he
            refine NP_of_error ?_ he
            apply ih1; simp at h; omega
          · apply ih2; simp at h; omega
        · exact NP_err

/-- `mongokit.Extract` -/
theorem Extract_np (query : Doc) : NP (Extract query) :=
  (extract_np_all (sizeOf query)).1 [] query "" true (Nat.le_refl _)

theorem extractSeq_np (doc : Doc) (query : List (String × V)) (pfx : String) (root : Bool) :
    NP (extractSeq doc query pfx root) :=
  (extract_np_all (sizeOf query)).1 doc query pfx root (Nat.le_refl _)

theorem extractAndLoop_np (doc : Doc) (items : List V) : NP (extractAndLoop doc items) :=
  (extract_np_all (sizeOf items)).2 doc items (Nat.le_refl _)

theorem Coll.upsert_np (ac : ACtx) (hs : SchNoPanic ac.sch) (c : Coll) (query : Doc) (repl update : Option Doc)
    (afs : List Doc) (nu : Nu) : NP (c.upsert ac query repl update afs nu) := by
  unfold Coll.upsert
  split
  · np_auto [Extract_np _]
  · simp only
    split
    · rename_i e he
      refine NP_of_error ?_ he
      np_auto [Put_id_np _ _ _]
    · split
      · rename_i e he
        refine NP_of_error ?_ he
        np_auto [Apply_np { ac with upsert := true } hs _ _ _]
      · exact Coll.insert_np ac.sch hs _ _ _

theorem Coll.delete_np (sch : SchemaEval) (hs : SchNoPanic sch) (c : Coll) (query : Doc) (sort : Option Doc)
    (skip limit : Int) : NP (c.delete sch query sort skip limit) := by
  unfold Coll.delete
  np_auto [selectDocs_np sch hs _ _ _ _ _, foldIdx_np _ (fun i s => removeFromIndexes_np sch hs s i) _ _]

theorem Coll.createIndex_np (sch : SchemaEval) (hs : SchNoPanic sch) (c : Coll) (name : String)
    (config : IndexConfig) : NP (c.createIndex sch name config) := by
  unfold Coll.createIndex
  simp only
  split
  · rename_i e he
    refine NP_of_error ?_ he
    np_auto [IndexConfig.name_np _]
  · np_auto [newIndex_np _, Index.build_np sch hs _ _]

theorem Coll.dropIndex_np (c : Coll) (name : String) : NP (c.dropIndex name) := by
  unfold Coll.dropIndex
  np_auto []

/-! ### Transaction -/

def Err.isPanic : Err → Bool
  | .panic _ => true
  | _ => false

/-- an optional stored error is not a panic -/
def OptNP (e : Option Err) : Prop := ∀ site, e ≠ some (.panic site)

theorem OptNP_none : OptNP none := by intro s h; cases h

theorem OptNP_of_NP {α} {r : Res α} (h : NP r) {e : Err} (he : r = .error e) : OptNP (some e) := by
  intro s h'; cases h'; exact h s he

/-- the per-operation results of a transaction method carry no panic -/
def TResult.NP (r : TResult) : Prop := OptNP r.error

theorem Handle.validate_np (h : Handle) (b : Bool) : NP (h.validate b) := by
  unfold Handle.validate
  np_auto []

theorem writable_np (h : Handle) (b : Bool) : NP (writable h b) := by
  unfold writable
  np_auto [Handle.validate_np _ _]

theorem Txn.create_np (t : Txn) (h : Handle) : NP (t.create h) := by
  unfold Txn.create
  np_auto [writable_np _ _]

theorem Txn.find_np (sch : SchemaEval) (hs : SchNoPanic sch) (t : Txn) (h : Handle) (query : Doc)
    (sort : Option Doc) (skip limit : Int) : NP (t.find sch h query sort skip limit) := by
  unfold Txn.find
  np_auto [Handle.validate_np _ _, Coll.find_np sch hs _ _ _ _ _]

theorem insertOne_np (sch : SchemaEval) (hs : SchNoPanic sch) (cat : Catalog) (h : Handle) (d : Doc) (nu : Nu) :
    NP (insertOne sch cat h d nu) := by
  unfold insertOne
  np_auto [Coll.insert_np sch hs _ _ _]

theorem Txn.insert.go_np (sch : SchemaEval) (hs : SchNoPanic sch) (h : Handle) (ordered : Bool) (cat : Catalog)
    (nu : Nu) (acc : List Doc) (err : Option Err) (l : List Doc) (he : OptNP err) :
    OptNP (Txn.insert.go sch h ordered cat nu acc err l).2.2.2 := by
  induction l generalizing cat nu acc err with
  | nil => unfold Txn.insert.go; exact he
  | cons d r ih =>
    unfold Txn.insert.go
    split
    · rename_i e hie
      have hne : OptNP (if err.isNone = true then some e else err) := by
        split
        · exact OptNP_of_NP (insertOne_np sch hs _ _ _ _) hie
        · exact he
      simp only
      split
      · exact hne
      · exact ih _ _ _ _ hne
    · exact ih _ _ _ _ he

/-- `Transaction.Insert` never fails with a panic, and the error it stores in the result is none either -/
theorem Txn.insert_np (sch : SchemaEval) (t : Txn) (h : Handle) (list : List Doc)
    (ordered : Bool) (nu : Nu) : NP (t.insert sch h list ordered nu) := by
  unfold Txn.insert
  np_auto [writable_np _ _]

theorem Txn.insert_result_np (sch : SchemaEval) (hs : SchNoPanic sch) (t t' : Txn) (h : Handle) (list : List Doc)
    (ordered : Bool) (nu nu' : Nu) (r : TResult) (hr : t.insert sch h list ordered nu = .ok (t', r, nu')) :
    r.NP := by
  unfold Txn.insert at hr
  split at hr
  · cases hr
  · have key := fun base => Txn.insert.go_np sch hs h ordered base nu [] none list OptNP_none
    simp only at hr
    repeat' split at hr
    all_goals (cases hr; exact key _)
theorem replaceOp_np (ac : ACtx) (hs : SchNoPanic ac.sch) (cat : Catalog) (h : Handle) (query repl : Doc)
    (sort : Option Doc) (upsert : Bool) (nu : Nu) : NP (replaceOp ac cat h query repl sort upsert nu) := by
  unfold replaceOp
  simp only
  np_auto [Coll.replace_np ac.sch hs _ _ _ _ _, Coll.upsert_np ac hs _ _ _ _ _ _]

theorem updateOp_np (ac : ACtx) (hs : SchNoPanic ac.sch) (cat : Catalog) (h : Handle) (query update : Doc)
    (sort : Option Doc) (upsert : Bool) (skip limit : Int) (afs : List Doc) (nu : Nu) :
    NP (updateOp ac cat h query update sort upsert skip limit afs nu) := by
  unfold updateOp
  simp only
  np_auto [Coll.update_np ac hs _ _ _ _ _ _ _ _, Coll.upsert_np ac hs _ _ _ _ _ _]

theorem deleteOp_np (sch : SchemaEval) (hs : SchNoPanic sch) (cat : Catalog) (h : Handle) (query : Doc)
    (sort : Option Doc) (skip limit : Int) (nu : Nu) : NP (deleteOp sch cat h query sort skip limit nu) := by
  unfold deleteOp
  simp only
  np_auto [Coll.delete_np sch hs _ _ _ _ _]

theorem replaceOp_result (ac : ACtx) (cat cat' : Catalog) (h : Handle) (query repl : Doc)
    (sort : Option Doc) (upsert : Bool) (nu nu' : Nu) (r : TResult)
    (hr : replaceOp ac cat h query repl sort upsert nu = .ok (cat', r, nu')) : r.error = none := by
  unfold replaceOp at hr
  simp only at hr
  repeat' split at hr
  all_goals first | (cases hr; done) | (cases hr; rfl)

theorem updateOp_result (ac : ACtx) (cat cat' : Catalog) (h : Handle) (query update : Doc)
    (sort : Option Doc) (upsert : Bool) (skip limit : Int) (afs : List Doc) (nu nu' : Nu) (r : TResult)
    (hr : updateOp ac cat h query update sort upsert skip limit afs nu = .ok (cat', r, nu')) : r.error = none := by
  unfold updateOp at hr
  simp only at hr
  repeat' split at hr
  all_goals first | (cases hr; done) | (cases hr; rfl)

theorem deleteOp_result (sch : SchemaEval) (cat cat' : Catalog) (h : Handle) (query : Doc)
    (sort : Option Doc) (skip limit : Int) (nu nu' : Nu) (r : TResult)
    (hr : deleteOp sch cat h query sort skip limit nu = .ok (cat', r, nu')) : r.error = none := by
  unfold deleteOp at hr
  simp only at hr
  repeat' split at hr
  all_goals first | (cases hr; done) | (cases hr; rfl)

theorem Txn.replace_np (ac : ACtx) (hs : SchNoPanic ac.sch) (t : Txn) (h : Handle) (query : Doc)
    (sort : Option Doc) (repl : Doc) (upsert : Bool) (nu : Nu) :
    NP (t.replace ac h query sort repl upsert nu) := by
  unfold Txn.replace
  np_auto [writable_np _ _, replaceOp_np ac hs _ _ _ _ _ _ _]

theorem Txn.update_np (ac : ACtx) (hs : SchNoPanic ac.sch) (t : Txn) (h : Handle) (query : Doc)
    (sort : Option Doc) (update : Doc) (skip limit : Int) (upsert : Bool) (afs : List Doc) (nu : Nu) :
    NP (t.update ac h query sort update skip limit upsert afs nu) := by
  unfold Txn.update
  np_auto [writable_np _ _, updateOp_np ac hs _ _ _ _ _ _ _ _ _ _]

theorem Txn.delete_np (sch : SchemaEval) (hs : SchNoPanic sch) (t : Txn) (h : Handle) (query : Doc)
    (sort : Option Doc) (skip limit : Int) (nu : Nu) : NP (t.delete sch h query sort skip limit nu) := by
  unfold Txn.delete
  np_auto [writable_np _ _, deleteOp_np sch hs _ _ _ _ _ _ _]

theorem Txn.replace_result (ac : ACtx) (t t' : Txn) (h : Handle) (query : Doc)
    (sort : Option Doc) (repl : Doc) (upsert : Bool) (nu nu' : Nu) (r : TResult)
    (hr : t.replace ac h query sort repl upsert nu = .ok (t', r, nu')) : r.error = none := by
  unfold Txn.replace at hr
  repeat' split at hr
  all_goals first | (cases hr; done) | (cases hr; rfl) | (cases hr; exact replaceOp_result _ _ _ _ _ _ _ _ _ _ _ ‹_›)

theorem Txn.update_result (ac : ACtx) (t t' : Txn) (h : Handle) (query : Doc)
    (sort : Option Doc) (update : Doc) (skip limit : Int) (upsert : Bool) (afs : List Doc) (nu nu' : Nu) (r : TResult)
    (hr : t.update ac h query sort update skip limit upsert afs nu = .ok (t', r, nu')) : r.error = none := by
  unfold Txn.update at hr
  repeat' split at hr
  all_goals first | (cases hr; done) | (cases hr; rfl) | (cases hr; exact updateOp_result _ _ _ _ _ _ _ _ _ _ _ _ _ _ ‹_›)

theorem Txn.delete_result (sch : SchemaEval) (t t' : Txn) (h : Handle) (query : Doc)
    (sort : Option Doc) (skip limit : Int) (nu nu' : Nu) (r : TResult)
    (hr : t.delete sch h query sort skip limit nu = .ok (t', r, nu')) : r.error = none := by
  unfold Txn.delete at hr
  repeat' split at hr
  all_goals first | (cases hr; done) | (cases hr; rfl) | (cases hr; exact deleteOp_result _ _ _ _ _ _ _ _ _ _ _ ‹_›)

/-- all stored per-operation errors are panic free -/
def ResultsNP (rs : List TResult) : Prop := ∀ r ∈ rs, TResult.NP r

theorem ResultsNP_nil : ResultsNP [] := by intro r h; cases h

theorem ResultsNP_append {a : List TResult} {r : TResult} (ha : ResultsNP a) (hr : r.NP) : ResultsNP (a ++ [r]) := by
  intro x hx
  rcases List.mem_append.mp hx with h | h
  · exact ha x h
  · cases List.mem_singleton.mp h; exact hr

theorem TResult.NP_of_none {r : TResult} (h : r.error = none) : r.NP := by
  unfold TResult.NP; rw [h]; exact OptNP_none

/-- the operation dispatch of `Transaction.Bulk` -/
theorem bulkDispatch_np (ac : ACtx) (hs : SchNoPanic ac.sch) (cat : Catalog) (h : Handle) (op : Operation) (nu : Nu) :
    NP (match op.opcode with
        | .insert => (match insertOne ac.sch cat h op.document nu with
          | .error e => .error e
          | .ok (c, d, n) => .ok (c, ({ modified := [d] } : TResult), n) : Res (Catalog × TResult × Nu))
        | .replace => replaceOp ac cat h op.filter op.document op.sort op.upsert nu
        | .update => updateOp ac cat h op.filter op.document op.sort op.upsert op.skip op.limit op.arrayFilters nu
        | .delete => deleteOp ac.sch cat h op.filter op.sort op.skip op.limit nu) := by
  np_auto [insertOne_np ac.sch hs _ _ _ _, replaceOp_np ac hs _ _ _ _ _ _ _, updateOp_np ac hs _ _ _ _ _ _ _ _ _ _,
    deleteOp_np ac.sch hs _ _ _ _ _ _ _]

theorem bulkDispatch_result (ac : ACtx) (cat cat' : Catalog) (h : Handle) (op : Operation) (nu nu' : Nu) (tr : TResult)
    (hr : (match op.opcode with
        | .insert => (match insertOne ac.sch cat h op.document nu with
          | .error e => .error e
          | .ok (c, d, n) => .ok (c, ({ modified := [d] } : TResult), n) : Res (Catalog × TResult × Nu))
        | .replace => replaceOp ac cat h op.filter op.document op.sort op.upsert nu
        | .update => updateOp ac cat h op.filter op.document op.sort op.upsert op.skip op.limit op.arrayFilters nu
        | .delete => deleteOp ac.sch cat h op.filter op.sort op.skip op.limit nu) = .ok (cat', tr, nu')) :
    tr.error = none := by
  split at hr
  · split at hr
    · cases hr
    · cases hr; rfl
  · exact replaceOp_result _ _ _ _ _ _ _ _ _ _ _ hr
  · exact updateOp_result _ _ _ _ _ _ _ _ _ _ _ _ _ _ hr
  · exact deleteOp_result _ _ _ _ _ _ _ _ _ _ _ hr

theorem Txn.bulk.go_np (ac : ACtx) (hs : SchNoPanic ac.sch) (h : Handle) (ordered : Bool) (cat : Catalog)
    (nu : Nu) (acc : List TResult) (changes : Nat) (ops : List Operation) (ha : ResultsNP acc) :
    ResultsNP (Txn.bulk.go ac h ordered cat nu acc changes ops).2.2.1 := by
  induction ops generalizing cat nu acc changes with
  | nil => unfold Txn.bulk.go; exact ha
  | cons op r ih =>
    unfold Txn.bulk.go
    simp only
    split
    · rename_i e he
      have hacc : ResultsNP (acc ++ [{ error := some e }]) :=
        ResultsNP_append ha (OptNP_of_NP (bulkDispatch_np ac hs cat h op nu) he)
      split
      · exact hacc
      · exact ih _ _ _ _ hacc
    · rename_i cat' tr nu' he
      exact ih _ _ _ _ (ResultsNP_append ha (TResult.NP_of_none (bulkDispatch_result ac cat cat' h op nu nu' tr he)))

theorem Txn.bulk_np (ac : ACtx) (t : Txn) (h : Handle) (ops : List Operation) (ordered : Bool) (nu : Nu) :
    NP (t.bulk ac h ops ordered nu) := by
  unfold Txn.bulk
  np_auto [writable_np _ _]

theorem Txn.bulk_result_np (ac : ACtx) (hs : SchNoPanic ac.sch) (t t' : Txn) (h : Handle) (ops : List Operation)
    (ordered : Bool) (nu nu' : Nu) (rs : List TResult) (hr : t.bulk ac h ops ordered nu = .ok (t', rs, nu')) :
    ResultsNP rs := by
  unfold Txn.bulk at hr
  split at hr
  · cases hr
  · have key := fun base => Txn.bulk.go_np ac hs h ordered base nu [] 0 ops ResultsNP_nil
    simp only at hr
    repeat' split at hr
    all_goals (cases hr; exact key _)

theorem Txn.drop_np (t : Txn) (h : Handle) (nu : Nu) : NP (t.drop h nu) := by
  unfold Txn.drop
  np_auto [writable_np _ _]

theorem Txn.createIndex_np (sch : SchemaEval) (hs : SchNoPanic sch) (t : Txn) (h : Handle) (name : String)
    (config : IndexConfig) : NP (t.createIndex sch h name config) := by
  unfold Txn.createIndex
  np_auto [writable_np _ _, Coll.createIndex_np sch hs _ _ _]

theorem Txn.dropIndex_np (t : Txn) (h : Handle) (name : String) : NP (t.dropIndex h name) := by
  unfold Txn.dropIndex
  np_auto [writable_np _ _, Coll.dropIndex_np _ _]

theorem Txn.dropIndexByKey_np (t : Txn) (h : Handle) (key : Doc) : NP (t.dropIndexByKey h key) := by
  unfold Txn.dropIndexByKey
  np_auto [writable_np _ _, Txn.dropIndex_np _ _ _]

theorem Txn.listIndexes_np (t : Txn) (h : Handle) : NP (t.listIndexes h) := by
  unfold Txn.listIndexes
  np_auto [Handle.validate_np _ _]

theorem Txn.count_np (t : Txn) (h : Handle) : NP (t.count h) := by
  unfold Txn.count
  np_auto [Handle.validate_np _ _]

theorem Txn.expire.go_np (sch : SchemaEval) (hs : SchNoPanic sch) (nowMs : Int) (cat : Catalog) (nu : Nu)
    (deleted : Nat) (l : List (Handle × Coll)) : NP (Txn.expire.go sch nowMs cat nu deleted l) := by
  induction l generalizing cat nu deleted with
  | nil => exact NP_ok _
  | cons hc r ih =>
    obtain ⟨h, c⟩ := hc
    unfold Txn.expire.go
    np_auto [ih _ _ _, deleteOp_np sch hs _ _ _ _ _ _ _]

theorem Txn.expire_np (sch : SchemaEval) (hs : SchNoPanic sch) (t : Txn) (nowMs : Int) (nu : Nu) :
    NP (t.expire sch nowMs nu) := by
  unfold Txn.expire
  np_auto [Txn.expire.go_np sch hs _ _ _ _ _]


/-! ### driver calls -/

theorem mapM_np {α β} (f : α → Res β) (hf : ∀ a, NP (f a)) (l : List α) : NP (l.mapM f) := by
  induction l with
  | nil => rw [List.mapM_nil]; exact NP_ok _
  | cons a r ih =>
    rw [List.mapM_cons]
    cases h1 : f a with
    | error e => exact NP_of_error (hf a) h1
    | ok b =>
      cases h2 : List.mapM f r with
      | error e => exact NP_of_error ih h2
      | ok bs => exact NP_ok _

theorem projList_np (sch : SchemaEval) (hs : SchNoPanic sch) (proj : Option Doc) (ds : List Doc) :
    NP (projList sch proj ds) := by
  unfold projList
  split
  · exact NP_ok _
  · exact mapM_np _ (fun d => Project_np sch hs d _) _

theorem validateReplacement_np (d : Doc) : NP (validateReplacement d) := by
  unfold validateReplacement
  np_auto []

theorem projOpt_np (sch : SchemaEval) (hs : SchNoPanic sch) (proj : Option Doc) (d : Option Doc) :
    NP (projOpt sch proj d) := by
  unfold projOpt
  np_auto [Project_np sch hs _ _]

theorem filterPlain_np (sch : SchemaEval) (hs : SchNoPanic sch) (q : Doc) (l : List Doc) :
    NP (filterPlain sch q l) := by
  induction l with
  | nil => exact NP_ok _
  | cons d r ih =>
    unfold filterPlain
    np_auto [ih, Match_np sch hs _ _]

theorem acOf_sch (sch : SchemaEval) : (acOf sch).sch = sch := rfl

theorem runCall_np (sch : SchemaEval) (hs : SchNoPanic sch) (t0 : Txn) (nu : Nu) (c : Call) :
    NP (runCall sch t0 nu c) := by
  have hs' : SchNoPanic (acOf sch).sch := hs
  unfold runCall
  simp only
  cases c
  all_goals simp only
  all_goals
    np_auto [Txn.insert_np sch _ _ _ _ _, Txn.find_np sch hs _ _ _ _ _ _, projList_np sch hs _ _, Txn.count_np _ _,
      Txn.update_np (acOf sch) hs' _ _ _ _ _ _ _ _ _ _, validateReplacement_np _,
      Txn.replace_np (acOf sch) hs' _ _ _ _ _ _ _, Txn.delete_np sch hs _ _ _ _ _ _ _, projOpt_np sch hs _ _,
      Txn.bulk_np (acOf sch) _ _ _ _ _, Txn.createIndex_np sch hs _ _ _ _, Txn.dropIndex_np _ _ _,
      Txn.dropIndexByKey_np _ _ _, Txn.listIndexes_np _ _, Txn.create_np _ _, Txn.drop_np _ _ _,
      Handle.validate_np _ _, filterPlain_np sch hs _ _, Txn.expire_np sch hs _ _ _]
  · rename_i heq1 _ e heq2
    have := Txn.insert_result_np sch hs _ _ _ _ _ _ _ _ heq1
    intro site h; cases h
    exact this site heq2

/-- errors a reply carries (insertMany's error, the bulk-write error list) are no panics -/
def Reply.NP : Reply → Prop
  | .ids _ err => OptNP err
  | .bulk _ _ _ _ _ _ errs => ∀ p ∈ errs, ∀ site, p.2 ≠ .panic site
  | _ => True

/-- the reply fold of `BulkWrite` -/
def bulkReply (idx : List (Nat × TResult × Operation)) (init : Reply) : Reply :=
  idx.foldl (fun acc (i, (r, op)) =>
    match acc with
    | .bulk ins mat mod del ups uids errs =>
      match r.error with
      | some e => .bulk ins mat mod del ups uids (errs ++ [(i, e)])
      | none =>
        match op.opcode with
        | .insert => .bulk (ins + r.modified.length) mat mod del ups uids errs
        | .delete => .bulk ins mat mod (del + r.matched.length) ups uids errs
        | _ =>
          match r.upserted with
          | some d => .bulk ins (mat + r.matched.length) (mod + r.modified.length) del (ups + 1) (uids ++ [(i, Get d "_id")]) errs
          | none => .bulk ins (mat + r.matched.length) (mod + r.modified.length) del ups uids errs
    | other => other) init

theorem bulkReply_np (idx : List (Nat × TResult × Operation)) (init : Reply) (hi : init.NP)
    (hr : ∀ p ∈ idx, TResult.NP p.2.1) : (bulkReply idx init).NP := by
  induction idx generalizing init with
  | nil => exact hi
  | cons p r ih =>
    obtain ⟨i, tr, op⟩ := p
    unfold bulkReply
    rw [List.foldl_cons]
    apply ih
    · have htr : TResult.NP tr := hr (i, tr, op) (List.mem_cons_self)
      simp only
      split
      · rename_i ins mat mod del ups uids errs
        split
        · rename_i e he
          intro p hp site
          rcases List.mem_append.mp hp with h | h
          · exact hi p h site
          · cases List.mem_singleton.mp h
            intro hc
            simp only at hc
            cases hc
            exact htr site he
        · split
          · exact hi
          · exact hi
          · split <;> exact hi
      · exact hi
    · intro p hp; exact hr p (List.mem_cons_of_mem _ hp)

theorem Reply.NP_bulk0 : (Reply.bulk 0 0 0 0 0 [] []).NP := by
  intro p hp; cases hp

theorem updReply_np (r : TResult) : (updReply r).NP := by
  unfold updReply; split <;> trivial

theorem runCall_reply_np (sch : SchemaEval) (hs : SchNoPanic sch) (t0 t : Txn) (nu nu' : Nu) (c : Call) (r : Reply)
    (h : runCall sch t0 nu c = .ok (t, nu', r)) : r.NP := by
  have hs' : SchNoPanic (acOf sch).sch := hs
  unfold runCall at h
  simp only at h
  cases c
  case insertMany hd docs ordered =>
    simp only at h
    split at h
    · cases h
    · rename_i heq; cases h
      exact Txn.insert_result_np sch hs _ _ _ _ _ _ _ _ heq
  case bulkWrite hd models ordered =>
    simp only at h
    split at h
    · cases h
    · split at h
      · cases h
      · rename_i t1 results nu1 heq
        cases h
        have hres := Txn.bulk_result_np (acOf sch) hs' _ _ _ _ _ _ _ _ heq
        refine bulkReply_np ((List.range results.length).zip (results.zip (models.map BulkModel.toOp))) _ Reply.NP_bulk0 ?_
        intro p hp
        obtain ⟨i, tr, op⟩ := p
        have h1 := (List.of_mem_zip hp).2
        have h2 := (List.of_mem_zip h1).1
        exact hres tr h2
  all_goals
    simp only at h
    repeat' split at h
    all_goals first | (cases h; done) | (cases h; trivial) | (cases h; exact updReply_np _)


/-! ### fuel of `resolve` -/

def cntD (l : List Char) : Nat := (l.filter (· == '$')).length

theorem cntD_append (a b : List Char) : cntD (a ++ b) = cntD a + cntD b := by
  simp [cntD, List.filter_append]

theorem cntD_cons (c : Char) (l : List Char) : cntD (c :: l) = (if c == '$' then 1 else 0) + cntD l := by
  unfold cntD
  rw [List.filter_cons]
  split <;> simp <;> omega

theorem countDollar_eq (s : String) : countDollar s = cntD s.toList := rfl

theorem cntD_drop_le (l : List Char) (n : Nat) : cntD (l.drop n) ≤ cntD l := by
  conv => rhs; rw [← List.take_append_drop n l]
  rw [cntD_append]; omega

theorem cntD_take_le (l : List Char) (n : Nat) : cntD (l.take n) ≤ cntD l := by
  conv => rhs; rw [← List.take_append_drop n l]
  rw [cntD_append]; omega

theorem cntD_take_mono (l : List Char) (m n : Nat) (h : m ≤ n) : cntD (l.take m) ≤ cntD (l.take n) := by
  have : l.take m = (l.take n).take m := by rw [List.take_take]; congr; omega
  rw [this]; exact cntD_take_le _ _

theorem cntD_digits (i : Nat) : cntD (Nat.toDigits 10 i) = 0 := by
  unfold cntD
  rw [List.length_eq_zero_iff, List.filter_eq_nil_iff]
  intro c hc
  have hd := Nat.isDigit_of_mem_toDigits (by decide) (by decide) hc
  intro h
  have : c = '$' := by simpa using h
  subst this
  revert hd; decide

theorem cntD_toString (i : Nat) : cntD (toString i).toList = 0 := by
  show cntD (Nat.repr i).toList = 0
  rw [Nat.toList_repr]; exact cntD_digits i

theorem cntD_dot : cntD (".".toList) = 0 := by decide
theorem cntD_empty : cntD ("".toList) = 0 := by decide

/-- before the first `$` there is none -/
theorem cntD_take_findIdx (cs : List Char) (idx : Nat) (h : cs.findIdx? (· == '$') = some idx) :
    cntD (cs.take idx) = 0 := by
  induction cs generalizing idx with
  | nil => simp at h
  | cons c r ih =>
    rw [List.findIdx?_cons] at h
    split at h
    · cases h; rfl
    · rename_i hc
      cases hr : r.findIdx? (· == '$') with
      | none => simp [hr] at h
      | some j =>
        simp [hr] at h
        subst h
        rw [List.take_succ_cons, cntD_cons, ih j hr]
        simp [hc]

theorem findIdx_drop (cs : List Char) (idx : Nat) (h : cs.findIdx? (· == '$') = some idx) :
    ∃ r, cs.drop idx = '$' :: r := by
  induction cs generalizing idx with
  | nil => simp at h
  | cons c r ih =>
    rw [List.findIdx?_cons] at h
    split at h
    · rename_i hc; cases h
      have : c = '$' := by simpa using hc
      exact ⟨r, by simp [this]⟩
    · cases hr : r.findIdx? (· == '$') with
      | none => simp [hr] at h
      | some j =>
        simp [hr] at h
        subst h
        simpa using ih j hr

theorem cntD_takeWhile_dropWhile (p : Char → Bool) (l : List Char) :
    cntD (l.takeWhile p) + cntD (l.dropWhile p) = cntD l := by
  rw [← cntD_append, List.takeWhile_append_dropWhile]

theorem buildPath_fewer_dollars (path head op : String) (tail : Option String) (i : Nat)
    (h : splitDynamicPath path = (some head, some op, tail)) :
    countDollar (buildPath head i tail) < countDollar path := by
  unfold splitDynamicPath at h
  simp only at h
  split at h
  · cases h
  · rename_i idx hidx
    obtain ⟨r, hr⟩ := findIdx_drop _ _ hidx
    have h0 := cntD_take_findIdx _ _ hidx
    have hsplit : cntD path.toList = cntD (path.toList.take idx) + cntD (path.toList.drop idx) := by
      rw [← cntD_append, List.take_append_drop]
    have htw := cntD_takeWhile_dropWhile (· != '.') (path.toList.drop idx)
    have hseg : 1 ≤ cntD ((path.toList.drop idx).takeWhile (· != '.')) := by
      rw [hr, List.takeWhile_cons]
      simp [cntD_cons]
    split at h
    · cases h
    · rename_i hne
      simp only [Prod.mk.injEq, Option.some.injEq] at h
      obtain ⟨hh, _, ht⟩ := h
      have hhead : cntD head.toList = 0 := by
        rw [← hh, String.toList_ofList]
        have := cntD_take_mono path.toList (idx - 1) idx (by omega)
        omega
      have htail : ∀ t, tail = some t → cntD t.toList + 1 ≤ cntD (path.toList.drop idx) := by
        intro t htt
        rw [htt] at ht
        split at ht
        · simp only [Option.some.injEq] at ht
          rw [← ht, String.toList_ofList]
          have := cntD_drop_le ((path.toList.drop idx).dropWhile (· != '.')) 1
          omega
        · cases ht
      rw [countDollar_eq, countDollar_eq]
      unfold buildPath
      simp only
      have hbase : cntD ((if head == "" then "" else head ++ ".") ++ toString i).toList = 0 := by
        rw [String.toList_append, cntD_append, cntD_toString]
        split
        · exact cntD_empty
        · rw [String.toList_append, cntD_append, hhead, cntD_dot]
      cases tail with
      | none => simp only; rw [hbase]; omega
      | some t =>
        simp only
        rw [String.toList_append, String.toList_append, cntD_append, cntD_append, hbase, cntD_dot]
        have := htail t rfl
        omega

/-- any two fuels above the number of `$` give the same result: the fuel-exhaustion branch of
    `resolve` is not what produced it. -/
theorem resolve_fuel_stable (sch : SchemaEval) (doc : Doc) (afs : List Doc) (n : Nat) :
    ∀ (m : Nat) (path : String), countDollar path < n → countDollar path < m →
      resolve sch n path doc afs = resolve sch m path doc afs := by
  induction n with
  | zero => intro m path h; omega
  | succ n ih =>
    intro m path hn hm
    cases m with
    | zero => omega
    | succ m =>
      unfold resolve
      split
      · rfl
      · rfl
      · rename_i head op tail hsp
        have hlt : ∀ i, countDollar (buildPath head i tail) < countDollar path :=
          fun i => buildPath_fewer_dollars path head op tail i hsp
        have hrec : ∀ i, resolve sch n (buildPath head i tail) doc afs = resolve sch m (buildPath head i tail) doc afs :=
          fun i => ih m _ (by have := hlt i; omega) (by have := hlt i; omega)
        simp only [hrec]


/-! ### arithmetic guards -/

/-- `$push` `$position`: the Go computation (`len(arr)+int(p)` clamped at 0, or `int(p)` clamped at
    `len(arr)`) for every int64 `p` (MinInt64 included): nothing leaves the int64 range, the insertion
    index lies in `[0, len]`, and the model's expression computes the same index. -/
theorem push_position_guard (n p : Int) (hn : 0 ≤ n ∧ n ≤ i64Max) (hp : i64Min ≤ p ∧ p ≤ i64Max) :
    (p < 0 → i64Min ≤ n + p ∧ n + p ≤ i64Max) ∧
    (let goIdx : Int := if p < 0 then (if n + p < 0 then 0 else n + p) else (if p > n then n else p)
     0 ≤ goIdx ∧ goIdx ≤ n ∧
     ((if p < 0 then (n + p).toNat else min p.toNat n.toNat : Nat) : Int) = goIdx) := by
  unfold i64Min i64Max at *
  refine ⟨fun h => by omega, ?_⟩
  simp only
  split <;> split <;> omega

/-- `$push` `$slice`: for every int64 `s` and length `m`, `-int64(len)` and `len+int(s)` stay in the
    int64 range, the re-slice bounds lie in `[0, len]`, and the model's `Nat` expressions are the
    Go ones. -/
theorem push_slice_guard (m s : Int) (hm : 0 ≤ m ∧ m ≤ i64Max) (hs : i64Min ≤ s ∧ s ≤ i64Max) :
    (i64Min ≤ -m ∧ -m ≤ i64Max) ∧
    (s > 0 → s < m → 0 ≤ s ∧ s ≤ m) ∧
    (s < 0 → s > -m → 0 ≤ m + s ∧ m + s ≤ m ∧ i64Min ≤ m + s) ∧
    (s < 0 → ((m.toNat - (-s).toNat : Nat) : Int) = if s > -m then m + s else 0) := by
  unfold i64Min i64Max at *
  refine ⟨by omega, fun _ _ => by omega, fun _ _ => by omega, fun h => ?_⟩
  split <;> omega

/-- the model's insertion index never exceeds the length, whatever `$position` is -/
theorem push_insertAt_le {α} (arr : List α) (p : Int) :
    (if p < 0 then ((arr.length : Int) + p).toNat else min p.toNat arr.length) ≤ arr.length := by
  split <;> omega

theorem insertAtIdx_length {α} (xs ys : List α) (i : Nat) : (insertAtIdx xs i ys).length = xs.length + ys.length := by
  unfold insertAtIdx
  simp only [List.length_append, List.length_take, List.length_drop]
  omega

/-- the model's `$slice` window is always a sub-range of the array -/
theorem push_slice_window {α} (xs : List α) (s : Int) :
    (s > 0 → (xs.take s.toNat).length = min s.toNat xs.length) ∧
    (s < 0 → xs.length - (-s).toNat ≤ xs.length ∧
        (xs.drop (xs.length - (-s).toNat)).length = min (-s).toNat xs.length) := by
  refine ⟨fun _ => by simp, fun _ => ⟨by omega, ?_⟩⟩
  rw [List.length_drop]; omega

/-! #### `put` on arrays -/

theorem listSet_length {α} (l : List α) (n : Nat) (x : α) : (listSet l n x).length = l.length := by
  rw [listSet_eq_set]; simp

theorem parseIndex_le_maxInt {s : String} {n : Nat} (h : parseIndex s = some n) : n ≤ maxInt := by
  unfold parseIndex at h
  simp only at h
  repeat' split at h
  all_goals first | (cases h; done) | (cases h; assumption)

/-- a key that `ParseIndex` does not accept (anything but plain digits: signed numerals such as
    "-1" or "+1" included) and `math.MaxInt` (where `index+1` would wrap) are rejected -/
theorem put_index_rejected (xs : List V) (key : String) (rest : Path) (value : V) (pre : Bool)
    (hne : ¬(key = "" ∧ rest = [])) (hbad : parseIndex key = none ∨ parseIndex key = some maxInt) :
    put (.arr xs) (key :: rest) value pre = .error .err := by
  unfold put
  have : (key == "" && rest.isEmpty) = false := by
    cases h1 : (key == "") <;> cases h2 : rest.isEmpty <;> simp_all
  rcases hbad with h | h <;> simp [this, h]

/-- an index more than `MaxArrayPadding` beyond the end of the array is rejected before any padding
    is allocated (whatever the value; an unset beyond the end is rejected anyway) -/
theorem put_padding_rejected (xs : List V) (key : String) (rest : Path) (value : V) (pre : Bool) (index : Nat)
    (hk : parseIndex key = some index) (hpad : xs.length + maxArrayPadding < index) :
    put (.arr xs) (key :: rest) value pre = .error .err := by
  unfold put
  split
  · rfl
  · simp only [hk]
    have h1 : ¬ index < xs.length := by omega
    have h2 : index - xs.length > maxArrayPadding := by omega
    simp only [h1, h2, if_false, if_true]
    split
    · rfl
    · split <;> rfl

/-- otherwise the element at `index` is written (padding with nulls up to it): the key parsed as an
    index (so `0 ≤ index`), `index+1` does not wrap, at most `MaxArrayPadding` nulls are added, the new
    array has length `max len (index+1)`, and no element outside is accessed. -/
theorem put_index_guard (xs : List V) (key : String) (rest : Path) (value : V) (pre : Bool) (nv prev : V)
    (h : put (.arr xs) (key :: rest) value pre = .ok (nv, prev)) :
    ∃ (index : Nat) (ys : List V), parseIndex key = some index ∧ index + 1 ≤ maxInt ∧
      index ≤ xs.length + maxArrayPadding ∧
      nv = .arr ys ∧ ys.length = max xs.length (index + 1) := by
  rw [put] at h
  split at h
  · cases h
  · split at h
    · cases h
    · rename_i index hk
      have hmax := parseIndex_le_maxInt hk
      split at h
      · cases h
      · rename_i hguard
        have hg : index ≠ maxInt := by simpa using hguard
        refine ⟨index, ?_⟩
        split at h
        · rename_i hlt
          split at h
          · split at h
            · cases h
              exact ⟨_, hk, by omega, by omega, rfl, by rw [listSet_length]; omega⟩
            · cases h
          · cases h
        · rename_i hge
          split at h
          · cases h
          · split at h
            · cases h
            · rename_i hpad
              split at h
              · cases h
                refine ⟨_, hk, by omega, by omega, rfl, ?_⟩
                simp only [List.length_append, List.length_replicate, List.length_cons, List.length_nil]
                omega
              · cases h


/-! ### the sequential system and the session layer -/

theorem Sys.step_np (sch : SchemaEval) (hs : SchNoPanic sch) (s : Sys) (c : Call) (oids : List V) :
    NP (s.step sch c oids) := by
  unfold Sys.step
  np_auto [runCall_np sch hs _ _ _]

theorem Sys.step_reply_np (sch : SchemaEval) (hs : SchNoPanic sch) (s s' : Sys) (c : Call) (oids : List V) (r : Reply)
    (h : s.step sch c oids = .ok (s', r)) : r.NP := by
  unfold Sys.step at h
  split at h
  · cases h
  · rename_i heq; cases h
    exact runCall_reply_np sch hs _ _ _ _ _ _ heq

/-- what a caller of the session layer can observe carries no panic -/
def SReply.NP : SReply → Prop
  | .ok r => r.NP
  | .failed e => ∀ site, e ≠ .panic site
  | _ => True

theorem SReply.NP_failed_err : (SReply.failed .err).NP := by intro s h; cases h

theorem SSys.step_np (sch : SchemaEval) (hs : SchNoPanic sch) (s : SSys) (c : SCall) : (s.step sch c).2.NP := by
  unfold SSys.step
  cases c
  case call sid c oids =>
    simp only
    split
    · split
      · exact SReply.NP_failed_err
      · split
        · rename_i e he
          intro site hc
          exact runCall_np sch hs _ _ _ site (by rw [he, hc])
        · rename_i he
          exact runCall_reply_np sch hs _ _ _ _ _ _ he
    · split
      · exact SReply.NP_failed_err
      · split
        · trivial
        · split
          · rename_i e he
            intro site hc
            exact Sys.step_np sch hs _ _ _ site (by rw [he, hc])
          · rename_i he
            exact Sys.step_reply_np sch hs _ _ _ _ _ he
  all_goals
    simp only
    repeat' split
    all_goals first | exact SReply.NP_failed_err | trivial

/-- a call that fails (or blocks) hands back the very state it was given -/
theorem SSys.step_failed_unchanged (sch : SchemaEval) (s : SSys) (c : SCall) (e : Err)
    (h : (s.step sch c).2 = .failed e) : (s.step sch c).1 = s := by
  generalize hr : s.step sch c = r at h ⊢
  unfold SSys.step at hr
  cases c
  all_goals
    simp only at hr
    repeat' split at hr
    all_goals (subst hr; first | rfl | (cases h))

/-- the same for a call that blocks on the writer slot -/
theorem SSys.step_blocked_unchanged (sch : SchemaEval) (s : SSys) (c : SCall)
    (h : (s.step sch c).2 = .blocked) : (s.step sch c).1 = s := by
  generalize hr : s.step sch c = r at h ⊢
  unfold SSys.step at hr
  cases c
  all_goals
    simp only at hr
    repeat' split at hr
    all_goals (subst hr; first | rfl | (cases h))

/-! #### sequences of calls -/

/-- the observation of one call: its reply or its error -/
def Sys.trace (sch : SchemaEval) (s : Sys) : List (Call × List V) → List (Res Reply)
  | [] => []
  | (c, oids) :: rest =>
    match s.step sch c oids with
    | .ok (s', r) => .ok r :: Sys.trace sch s' rest
    | .error e => .error e :: Sys.trace sch s rest      -- the harness carries on with the same system

/-- the system after a sequence of calls (failed calls are skipped), as `Sys.run` of Spec/IndexSpec -/
def Sys.after (sch : SchemaEval) (s : Sys) : List (Call × List V) → Sys
  | [] => s
  | (c, oids) :: rest =>
    match s.step sch c oids with
    | .ok (s', _) => Sys.after sch s' rest
    | .error _ => Sys.after sch s rest

/-- a failed call is a no-op: what every later call observes, and the final state, are exactly as
    if the failed call had not been made. -/
theorem Sys.failed_call_is_noop (sch : SchemaEval) (s : Sys) (c : Call) (oids : List V) (e : Err)
    (rest : List (Call × List V)) (h : s.step sch c oids = .error e) :
    Sys.trace sch s ((c, oids) :: rest) = .error e :: Sys.trace sch s rest ∧
    Sys.after sch s ((c, oids) :: rest) = Sys.after sch s rest := by
  constructor
  · rw [Sys.trace]; simp only [h]
  · rw [Sys.after]; simp only [h]

/-- every call of every sequence is served: one observation per call, none of them a panic -/
theorem Sys.trace_served (sch : SchemaEval) (hs : SchNoPanic sch) (s : Sys) (calls : List (Call × List V)) :
    (Sys.trace sch s calls).length = calls.length ∧
    ∀ o ∈ Sys.trace sch s calls, NP o ∧ ∀ r, o = .ok r → r.NP := by
  induction calls generalizing s with
  | nil => exact ⟨rfl, fun o ho => by cases ho⟩
  | cons co rest ih =>
    obtain ⟨c, oids⟩ := co
    rw [Sys.trace]
    split
    · rename_i s' r he
      obtain ⟨h1, h2⟩ := ih s'
      refine ⟨by simp [h1], ?_⟩
      intro o ho
      rcases List.mem_cons.mp ho with h | h
      · subst h
        exact ⟨NP_ok _, fun r' hr => by cases hr; exact Sys.step_reply_np sch hs _ _ _ _ _ he⟩
      · exact h2 o h
    · rename_i e he
      obtain ⟨h1, h2⟩ := ih s
      refine ⟨by simp [h1], ?_⟩
      intro o ho
      rcases List.mem_cons.mp ho with h | h
      · subst h
        exact ⟨NP_of_error (Sys.step_np sch hs _ _ _) he, fun r' hr => by cases hr⟩
      · exact h2 o h

/-- the replies of a sequence of session-level calls -/
def SSys.trace (sch : SchemaEval) (s : SSys) : List SCall → List SReply
  | [] => []
  | c :: rest => (s.step sch c).2 :: SSys.trace sch (s.step sch c).1 rest

/-- every session-level call of every sequence is answered, never with a panic -/
theorem SSys.trace_served (sch : SchemaEval) (hs : SchNoPanic sch) (s : SSys) (calls : List SCall) :
    (SSys.trace sch s calls).length = calls.length ∧ ∀ o ∈ SSys.trace sch s calls, o.NP := by
  induction calls generalizing s with
  | nil => exact ⟨rfl, fun o ho => by cases ho⟩
  | cons c rest ih =>
    rw [SSys.trace]
    obtain ⟨h1, h2⟩ := ih (s.step sch c).1
    refine ⟨by simp [h1], ?_⟩
    intro o ho
    rcases List.mem_cons.mp ho with h | h
    · subst h; exact SSys.step_np sch hs s c
    · exact h2 o h


/-- `Sys.after` is the `Sys.run` used by the index properties (C07/C15) -/
theorem Sys.after_eq_run (sch : SchemaEval) (s : Sys) (calls : List (Call × List V)) :
    Sys.after sch s calls = Sys.run sch s calls := by
  induction calls generalizing s with
  | nil => rfl
  | cons co rest ih =>
    obtain ⟨c, oids⟩ := co
    rw [Sys.after, Sys.run, List.foldl_cons]
    split
    · rename_i s' r he; simp only [he]; exact ih s'
    · rename_i e he; simp only [he]; exact ih s

end Lungo
