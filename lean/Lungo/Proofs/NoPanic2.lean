/-
  Lungo.Proofs.NoPanic2 — the no-panic lemmas of the layers above Match / Apply:
  Project, Sort, Collection, Transaction, the driver calls (Api) and the session layer.
  One lemma per model function, named `<function>_np`.  Used by C20.

  `NP r` (from Proofs/NoPanic) says "the result `r` is not `.error (.panic _)`".
  Errors that a call stores INSIDE a successful result (`TResult.error`, the `errors` of a
  bulk write, the `err` of `insertMany`) are covered as well: `Err.isPanic`, `Reply.panicFree`.
-/
import Lungo.Proofs.NoPanic
import Lungo.Model.Session
namespace Lungo

/-- the `$jsonSchema` evaluator parameter reports no panic (it is `schemaUnmodelled` in the driver). -/
def SchNoPanic (sch : SchemaEval) : Prop := ∀ a b, NP (sch a b)

theorem schemaUnmodelled_noPanic : SchNoPanic schemaUnmodelled := by
  intro a b site h; cases h

theorem NP_dup {α} : NP (.error .dup : Res α) := by intro s h; cases h

/-- closes / splits `NP (…)` goals whose shape is nested `match`/`if` with leaves `.ok _`,
    `.error <non-panic constant>`, `.error e` under a hypothesis `g … = .error e` (closed by one of
    the given lemmas `NP (g …)`), or a call `g …` itself (closed by a given lemma). -/
syntax "np_auto" "[" term,* "]" : tactic
macro_rules
  | `(tactic| np_auto [$ts,*]) => do
    let alts ← ts.getElems.mapM fun t => `(tactic| exact NP_of_error $t (by assumption))
    let alts2 ← ts.getElems.mapM fun t => `(tactic| exact $t)
    `(tactic| repeat' (first
        | exact NP_ok _ | exact NP_err | exact NP_dup | exact NP_notMatched | exact NP_unmodelled _
        $[| $alts:tactic]* $[| $alts2:tactic]*
        | split
        | (simp only []; done)
        | simp only []))

/-! ### Project -/

theorem projectCondition_np (s : PState) (path : String) (v : V) : NP (projectCondition s path v) := by
  unfold projectCondition
  np_leaves

theorem projectSlice_np (s : PState) (d : Doc) (path : String) (v : V) : NP (projectSlice s d path v) := by
  unfold projectSlice
  np_leaves

theorem firstElemMatch_np (sch : SchemaEval) (hs : SchNoPanic sch) (query : Doc) (xs : List V) :
    NP (firstElemMatch sch query xs) := by
  induction xs with
  | nil => exact NP_ok _
  | cons item r ih =>
    unfold firstElemMatch
    np_auto [ih, (match_np_all sch hs).2.1 _ _ _ _]

theorem projectElemMatch_np (sch : SchemaEval) (hs : SchNoPanic sch) (s : PState) (d : Doc) (path : String)
    (v : V) : NP (projectElemMatch sch s d path v) := by
  unfold projectElemMatch
  np_auto [firstElemMatch_np sch hs _ _]

theorem projOp_np (sch : SchemaEval) (hs : SchNoPanic sch) (s : PState) (d : Doc) (op path : String) (v : V) :
    NP (projOp sch s d op path v) := by
  unfold projOp
  np_auto [projectCondition_np _ _ _, projectSlice_np _ _ _ _, projectElemMatch_np sch hs _ _ _ _]

theorem projOps_np (sch : SchemaEval) (hs : SchNoPanic sch) (s : PState) (d : Doc) (path : String)
    (l : List (String × V)) : NP (projOps sch s d path l) := by
  induction l generalizing s with
  | nil => exact NP_ok _
  | cons kv r ih =>
    obtain ⟨k, v⟩ := kv
    unfold projOps
    np_auto [ih _, projOp_np sch hs _ _ _ _ _]

theorem projProcess_np (sch : SchemaEval) (hs : SchNoPanic sch) (s : PState) (d : Doc)
    (l : List (String × V)) : NP (projProcess sch s d l) := by
  induction l generalizing s with
  | nil => exact NP_ok _
  | cons kv r ih =>
    obtain ⟨k, v⟩ := kv
    unfold projProcess
    simp only
    split
    · rename_i e he
      refine NP_of_error ?_ he
      np_auto [projOps_np sch hs _ _ _ _, projectCondition_np _ _ _]
    · exact ih _

theorem Put_np' (d : Doc) (p : String) (x : V) (pre : Bool) : NP (Put d (splitPath p) x pre) :=
  Put_np d _ x pre (splitPath_ne_nil p)

theorem Put_id_np (d : Doc) (x : V) (pre : Bool) : NP (Put d ["_id"] x pre) :=
  Put_np d _ x pre (by simp)

theorem putAll_np (res : Doc) (l : List (String × V)) : NP (putAll res l) := by
  induction l generalizing res with
  | nil => exact NP_ok _
  | cons kv r ih =>
    obtain ⟨p, v⟩ := kv
    unfold putAll
    np_auto [ih _, Put_np' _ _ _ _]

/-- `mongokit.Project` -/
theorem Project_np (sch : SchemaEval) (hs : SchNoPanic sch) (d proj : Doc) : NP (Project sch d proj) := by
  unfold Project
  split
  · np_auto [projProcess_np sch hs _ _ _]
  · split
    · exact NP_err
    · simp only
      split
      · rename_i e he
        refine NP_of_error ?_ he
        np_auto [putAll_np _ _, Put_id_np _ _ _]
      · np_auto [putAll_np _ _]

/-! ### Sort / Distinct -/

theorem columns_np (spec : Doc) : NP (columns spec) := by
  induction spec with
  | nil => exact NP_ok _
  | cons kv r ih =>
    obtain ⟨k, v⟩ := kv
    unfold columns
    simp only
    split
    · rename_i e he
      refine NP_of_error ?_ he
      np_auto []
    · np_auto [ih]

theorem sortBySpec_np (list : List Doc) (spec : Doc) : NP (sortBySpec list spec) := by
  unfold sortBySpec
  np_auto [columns_np _]

/-! ### Collection -/

theorem partialMatches_np (sch : SchemaEval) (hs : SchNoPanic sch) (i : Index) (d : Doc) :
    NP (partialMatches sch i d) := by
  unfold partialMatches
  np_auto [Match_np sch hs _ _]

theorem Index.add_np (sch : SchemaEval) (hs : SchNoPanic sch) (i : Index) (sd : SDoc) : NP (i.add sch sd) := by
  unfold Index.add
  np_auto [partialMatches_np sch hs _ _]

theorem Index.remove_np (sch : SchemaEval) (hs : SchNoPanic sch) (i : Index) (sd : SDoc) :
    NP (i.remove sch sd) := by
  unfold Index.remove
  np_auto [partialMatches_np sch hs _ _]

theorem newIndex_np (config : IndexConfig) : NP (newIndex config) := by
  unfold newIndex
  np_auto [columns_np _]

theorem Index.build_np (sch : SchemaEval) (hs : SchNoPanic sch) (i : Index) (l : List SDoc) :
    NP (i.build sch l) := by
  induction l generalizing i with
  | nil => exact NP_ok _
  | cons sd r ih =>
    unfold Index.build
    np_auto [ih _, Index.add_np sch hs _ _]

theorem IndexConfig.name_np (c : IndexConfig) : NP c.name := by
  unfold IndexConfig.name
  np_auto [columns_np _]

theorem addToIndexes_np (sch : SchemaEval) (hs : SchNoPanic sch) (sd : SDoc) (l : List (String × Index)) :
    NP (addToIndexes sch sd l) := by
  induction l with
  | nil => exact NP_ok _
  | cons ni r ih =>
    obtain ⟨n, i⟩ := ni
    unfold addToIndexes
    np_auto [ih, Index.add_np sch hs _ _]

theorem removeFromIndexes_np (sch : SchemaEval) (hs : SchNoPanic sch) (sd : SDoc) (l : List (String × Index)) :
    NP (removeFromIndexes sch sd l) := by
  induction l with
  | nil => exact NP_ok _
  | cons ni r ih =>
    obtain ⟨n, i⟩ := ni
    unfold removeFromIndexes
    np_auto [ih, Index.remove_np sch hs _ _]

theorem filterDocs_np (sch : SchemaEval) (hs : SchNoPanic sch) (query : Doc) (limit : Nat) (l : List SDoc) :
    NP (filterDocs sch query limit l) := by
  induction l generalizing limit with
  | nil => exact NP_ok _
  | cons sd r ih =>
    unfold filterDocs
    np_auto [ih _, Match_np sch hs _ _]

theorem selectDocs_np (sch : SchemaEval) (hs : SchNoPanic sch) (c : Coll) (query : Doc) (sort : Option Doc)
    (skip limit : Int) : NP (selectDocs sch c query sort skip limit) := by
  unfold selectDocs
  split
  · exact NP_err
  · simp only
    split
    · rename_i e he
      refine NP_of_error ?_ he
      np_auto [columns_np _]
    · np_auto [filterDocs_np sch hs _ _ _]

theorem Coll.find_np (sch : SchemaEval) (hs : SchNoPanic sch) (c : Coll) (query : Doc) (sort : Option Doc)
    (skip limit : Int) : NP (c.find sch query sort skip limit) :=
  selectDocs_np sch hs c query sort skip limit

theorem Nu.oid_np (n : Nu) : NP n.oid := by
  unfold Nu.oid
  np_auto []

theorem ensureId_np (d : Doc) (nu : Nu) : NP (ensureId d nu) := by
  unfold ensureId
  np_auto [Nu.oid_np _, Put_id_np _ _ _]

theorem Coll.insert_np (sch : SchemaEval) (hs : SchNoPanic sch) (c : Coll) (d : Doc) (nu : Nu) :
    NP (c.insert sch d nu) := by
  unfold Coll.insert
  np_auto [ensureId_np _ _, addToIndexes_np sch hs _ _]

theorem Coll.replace.upd_np (sch : SchemaEval) (hs : SchNoPanic sch) (old nw : SDoc) (l : List (String × Index)) :
    NP (Coll.replace.upd sch old nw l) := by
  induction l with
  | nil => exact NP_ok _
  | cons ni r ih =>
    obtain ⟨n, i⟩ := ni
    unfold Coll.replace.upd
    np_auto [ih, Index.add_np sch hs _ _, Index.remove_np sch hs _ _]

theorem Coll.replace_np (sch : SchemaEval) (hs : SchNoPanic sch) (c : Coll) (query repl : Doc)
    (sort : Option Doc) (nu : Nu) : NP (c.replace sch query repl sort nu) := by
  unfold Coll.replace
  split
  · np_auto [selectDocs_np sch hs _ _ _ _ _]
  · exact NP_ok _
  · simp only
    split
    · rename_i e he
      refine NP_of_error ?_ he
      np_auto [Put_id_np _ _ _]
    · np_auto [Coll.replace.upd_np sch hs _ _ _]

theorem foldIdx_np (f : List (String × Index) → SDoc → Res (List (String × Index))) (hf : ∀ i s, NP (f i s))
    (idx : List (String × Index)) (l : List SDoc) : NP (foldIdx f idx l) := by
  induction l generalizing idx with
  | nil => exact NP_ok _
  | cons sd r ih =>
    unfold foldIdx
    np_auto [ih _, hf _ _]

theorem Coll.update.applyAll_np (ac : ACtx) (hs : SchNoPanic ac.sch) (update : Doc) (afs : List Doc) (nu : Nu)
    (l : List SDoc) : NP (Coll.update.applyAll ac update afs nu l) := by
  induction l generalizing nu with
  | nil => exact NP_ok _
  | cons sd r ih =>
    unfold Coll.update.applyAll
    np_auto [ih _, Apply_np { ac with upsert := false } hs _ _ _]

theorem Coll.update_np (ac : ACtx) (hs : SchNoPanic ac.sch) (c : Coll) (query update : Doc) (sort : Option Doc)
    (skip limit : Int) (afs : List Doc) (nu : Nu) : NP (c.update ac query update sort skip limit afs nu) := by
  unfold Coll.update
  simp only
  np_auto [selectDocs_np ac.sch hs _ _ _ _ _, Coll.update.applyAll_np ac hs _ _ _ _,
    foldIdx_np _ (fun i s => removeFromIndexes_np ac.sch hs s i) _ _,
    foldIdx_np _ (fun i s => addToIndexes_np ac.sch hs s i) _ _]

theorem extractEq_np (doc : Doc) (path : String) (v : V) : NP (extractEq doc path v) := by
  unfold extractEq
  np_auto [Put_np' _ _ _ _]

theorem extractIn_np (doc : Doc) (path : String) (v : V) : NP (extractIn doc path v) := by
  unfold extractIn
  np_auto [Put_np' _ _ _ _]

theorem extractOps_np (doc : Doc) (path : String) (l : List (String × V)) : NP (extractOps doc path l) := by
  induction l generalizing doc with
  | nil => exact NP_ok _
  | cons kv r ih =>
    obtain ⟨k, v⟩ := kv
    unfold extractOps
    np_auto [ih _, extractEq_np _ _ _, extractIn_np _ _ _]

theorem extract_np_all (n : Nat) :
    (∀ doc query pfx root, sizeOf query ≤ n → NP (extractSeq doc query pfx root)) ∧
    (∀ doc items, sizeOf items ≤ n → NP (extractAndLoop doc items)) := by
  induction n with
  | zero =>
    constructor
    · intro doc query pfx root h
      cases query with
      | nil => unfold extractSeq; exact NP_ok _
      | cons a r => simp at h
    · intro doc items h
      cases items with
      | nil => unfold extractAndLoop; exact NP_ok _
      | cons a r => simp at h
  | succ n ih =>
    obtain ⟨ih1, ih2⟩ := ih
    constructor
    · intro doc query pfx root h
      cases query with
      | nil => unfold extractSeq; exact NP_ok _
      | cons kv r =>
        obtain ⟨key, value⟩ := kv
        unfold extractSeq
        simp only
        split
        · rename_i e he
          refine NP_of_error ?_ he
          np_auto [Put_np' _ _ _ _, extractIn_np _ _ _, extractEq_np _ _ _, extractOps_np _ _ _]
          · apply ih2; simp at h; omega
          · apply ih1; simp at h; omega
        · apply ih1; simp at h; omega
    · intro doc items h
      cases items with
      | nil => unfold extractAndLoop; exact NP_ok _
      | cons a r =>
        unfold extractAndLoop
        split
        · cases ‹_ = _›
        · rename_i q r' heq
          cases heq
          split
          · rename_i e he
            refine NP_of_error ?_ he
            apply ih1; simp at h; omega
          · apply ih2; simp at h; omega
        · exact NP_err

/-- `mongokit.Extract` -/
theorem Extract_np (query : Doc) : NP (Extract query) :=
  (extract_np_all (sizeOf query)).1 [] query "" true (Nat.le_refl _)

theorem extractSeq_np (doc : Doc) (query : List (String × V)) (pfx : String) (root : Bool) :
    NP (extractSeq doc query pfx root) :=
  (extract_np_all (sizeOf query)).1 doc query pfx root (Nat.le_refl _)

theorem extractAndLoop_np (doc : Doc) (items : List V) : NP (extractAndLoop doc items) :=
  (extract_np_all (sizeOf items)).2 doc items (Nat.le_refl _)

theorem Coll.upsert_np (ac : ACtx) (hs : SchNoPanic ac.sch) (c : Coll) (query : Doc) (repl update : Option Doc)
    (afs : List Doc) (nu : Nu) : NP (c.upsert ac query repl update afs nu) := by
  unfold Coll.upsert
  split
  · np_auto [Extract_np _]
  · simp only
    split
    · rename_i e he
      refine NP_of_error ?_ he
      np_auto [Put_id_np _ _ _]
    · split
      · rename_i e he
        refine NP_of_error ?_ he
        np_auto [Apply_np { ac with upsert := true } hs _ _ _]
      · exact Coll.insert_np ac.sch hs _ _ _

theorem Coll.delete_np (sch : SchemaEval) (hs : SchNoPanic sch) (c : Coll) (query : Doc) (sort : Option Doc)
    (skip limit : Int) : NP (c.delete sch query sort skip limit) := by
  unfold Coll.delete
  np_auto [selectDocs_np sch hs _ _ _ _ _, foldIdx_np _ (fun i s => removeFromIndexes_np sch hs s i) _ _]

theorem Coll.createIndex_np (sch : SchemaEval) (hs : SchNoPanic sch) (c : Coll) (name : String)
    (config : IndexConfig) : NP (c.createIndex sch name config) := by
  unfold Coll.createIndex
  simp only
  split
  · rename_i e he
    refine NP_of_error ?_ he
    np_auto [IndexConfig.name_np _]
  · np_auto [newIndex_np _, Index.build_np sch hs _ _]

theorem Coll.dropIndex_np (c : Coll) (name : String) : NP (c.dropIndex name) := by
  unfold Coll.dropIndex
  np_auto []

end Lungo
