/-
  Lungo.Proofs.IndexColl — collection-level lemmas for C15 / C07: how `addToIndexes`,
  `removeFromIndexes`, `foldIdx`, `selectDocs`, `replaceDoc` and the `Coll.*` methods act on the
  document set and on every index.
-/
import Lungo.Proofs.IndexLaws
namespace Lungo

variable {sch : SchemaEval}

/-! ### Document identities -/

theorem ids_inj : ∀ {docs : List SDoc}, IdsDistinct docs →
    ∀ x ∈ docs, ∀ y ∈ docs, x.id = y.id → x = y
  | [], _, _, hx, _, _, _ => by cases hx
  | a :: r, h, x, hx, y, hy, e => by
    unfold IdsDistinct at h
    rw [List.map_cons, List.nodup_cons] at h
    rcases List.mem_cons.mp hx with rfl | hx'
    · rcases List.mem_cons.mp hy with rfl | hy'
      · rfl
      · exact absurd (List.mem_map.mpr ⟨y, hy', e.symm⟩) h.1
    · rcases List.mem_cons.mp hy with rfl | hy'
      · exact absurd (List.mem_map.mpr ⟨x, hx', e⟩) h.1
      · exact ids_inj h.2 x hx' y hy' e

theorem IdsDistinct.append_fresh {docs : List SDoc} {sd : SDoc} (h : IdsDistinct docs)
    (hf : ∀ x ∈ docs, x.id ≠ sd.id) : IdsDistinct (docs ++ [sd]) := by
  unfold IdsDistinct at *
  rw [List.map_append, List.nodup_append]
  refine ⟨h, by simp, ?_⟩
  intro a ha b hb
  simp only [List.map_cons, List.map_nil, List.mem_singleton] at hb
  subst hb
  obtain ⟨x, hx, rfl⟩ := List.mem_map.mp ha
  exact hf x hx

theorem IdsDistinct.sublist {l docs : List SDoc} (h : IdsDistinct docs) (hs : l.Sublist docs) :
    IdsDistinct l :=
  (hs.map _).nodup h

theorem IdsBelow.fresh {docs : List SDoc} {n : Nat} (h : IdsBelow docs n) :
    ∀ x ∈ docs, x.id ≠ n := fun x hx e => by have := h x hx; omega

theorem IdsBelow.mono {docs : List SDoc} {n m : Nat} (h : IdsBelow docs n) (hnm : n ≤ m) :
    IdsBelow docs m := fun x hx => Nat.lt_of_lt_of_le (h x hx) hnm

/-! ### All indexes of a collection at once -/

def AllCoherent (sch : SchemaEval) (S : SDoc → Prop) (idx : List (String × Index)) : Prop :=
  ∀ n i, (n, i) ∈ idx → IndexCoherent sch S i

def AllUnique (sch : SchemaEval) (S : SDoc → Prop) (idx : List (String × Index)) : Prop :=
  ∀ n i, (n, i) ∈ idx → IndexUnique sch S i

/-- names and configurations of the indexes (what index management looks at) -/
def shape (idx : List (String × Index)) : List (String × IndexConfig) :=
  idx.map fun p => (p.1, p.2.config)

theorem AllCoherent.congr {S S' : SDoc → Prop} {idx} (h : AllCoherent sch S idx)
    (e : ∀ x, S' x ↔ S x) : AllCoherent sch S' idx := fun n i hm => (h n i hm).congr e

theorem AllUnique.congr {S S' : SDoc → Prop} {idx} (h : AllUnique sch S idx)
    (e : ∀ x, S' x ↔ S x) : AllUnique sch S' idx :=
  fun n i hm => (h n i hm).mono (fun x hx => (e x).mp hx) rfl rfl

theorem addToIndexes_mem {sd : SDoc} : ∀ {idx idx' : List (String × Index)},
    addToIndexes sch sd idx = .ok idx' → ∀ n i', (n, i') ∈ idx' →
      ∃ i, (n, i) ∈ idx ∧ i.add sch sd = .ok (i', true)
  | [], idx', h, n, i', hm => by
    simp only [addToIndexes, Except.ok.injEq] at h; subst h; cases hm
  | (m, j) :: r, idx', h, n, i', hm => by
    rw [addToIndexes] at h
    split at h
    · cases h
    · cases h
    · rename_i j' hj
      split at h
      · cases h
      · rename_i r' hr
        simp only [Except.ok.injEq] at h; subst h
        rcases List.mem_cons.mp hm with e | hm
        · simp only [Prod.mk.injEq] at e
          obtain ⟨rfl, rfl⟩ := e
          exact ⟨j, by simp, hj⟩
        · obtain ⟨i, hi, ha⟩ := addToIndexes_mem hr n i' hm
          exact ⟨i, List.mem_cons_of_mem _ hi, ha⟩

theorem addToIndexes_shape {sd : SDoc} : ∀ {idx idx' : List (String × Index)},
    addToIndexes sch sd idx = .ok idx' → shape idx' = shape idx
  | [], idx', h => by
    simp only [addToIndexes, Except.ok.injEq] at h; subst h; rfl
  | (m, j) :: r, idx', h => by
    rw [addToIndexes] at h
    split at h
    · cases h
    · cases h
    · rename_i j' hj
      split at h
      · cases h
      · rename_i r' hr
        simp only [Except.ok.injEq] at h; subst h
        simp only [shape, List.map_cons, List.cons.injEq, Prod.mk.injEq, true_and]
        exact ⟨(add_shape hj).1, addToIndexes_shape hr⟩

theorem removeFromIndexes_mem {sd : SDoc} : ∀ {idx idx' : List (String × Index)},
    removeFromIndexes sch sd idx = .ok idx' → ∀ n i', (n, i') ∈ idx' →
      ∃ i, (n, i) ∈ idx ∧ i.remove sch sd = .ok (i', true)
  | [], idx', h, n, i', hm => by
    simp only [removeFromIndexes, Except.ok.injEq] at h; subst h; cases hm
  | (m, j) :: r, idx', h, n, i', hm => by
    rw [removeFromIndexes] at h
    split at h
    · cases h
    · cases h
    · rename_i j' hj
      split at h
      · cases h
      · rename_i r' hr
        simp only [Except.ok.injEq] at h; subst h
        rcases List.mem_cons.mp hm with e | hm
        · simp only [Prod.mk.injEq] at e
          obtain ⟨rfl, rfl⟩ := e
          exact ⟨j, by simp, hj⟩
        · obtain ⟨i, hi, ha⟩ := removeFromIndexes_mem hr n i' hm
          exact ⟨i, List.mem_cons_of_mem _ hi, ha⟩

theorem removeFromIndexes_shape {sd : SDoc} : ∀ {idx idx' : List (String × Index)},
    removeFromIndexes sch sd idx = .ok idx' → shape idx' = shape idx
  | [], idx', h => by
    simp only [removeFromIndexes, Except.ok.injEq] at h; subst h; rfl
  | (m, j) :: r, idx', h => by
    rw [removeFromIndexes] at h
    split at h
    · cases h
    · cases h
    · rename_i j' hj
      split at h
      · cases h
      · rename_i r' hr
        simp only [Except.ok.injEq] at h; subst h
        simp only [shape, List.map_cons, List.cons.injEq, Prod.mk.injEq, true_and]
        exact ⟨(remove_shape hj).1, removeFromIndexes_shape hr⟩

/-- removing a stored document from coherent indexes never fails -/
theorem removeFromIndexes_ok {S : SDoc → Prop} {sd : SDoc} (hs : S sd) :
    ∀ {idx : List (String × Index)}, AllCoherent sch S idx → ∃ idx', removeFromIndexes sch sd idx = .ok idx'
  | [], _ => ⟨[], rfl⟩
  | (m, j) :: r, h => by
    obtain ⟨j', hj⟩ := (h m j (by simp)).remove_ok hs
    obtain ⟨r', hr⟩ := removeFromIndexes_ok hs (idx := r) (fun n i hm => h n i (List.mem_cons_of_mem _ hm))
    exact ⟨(m, j') :: r', by rw [removeFromIndexes]; simp only [hj, hr]⟩

theorem AllCoherent.add {S : SDoc → Prop} {idx idx'} {sd : SDoc} (h : AllCoherent sch S idx)
    (ha : addToIndexes sch sd idx = .ok idx') : AllCoherent sch (fun x => S x ∨ x = sd) idx' := by
  intro n i' hm
  obtain ⟨i, hi, hadd⟩ := addToIndexes_mem ha n i' hm
  exact (h n i hi).add hadd

theorem AllCoherent.remove {S : SDoc → Prop} {idx idx'} {sd : SDoc} (h : AllCoherent sch S idx)
    (hinj : ∀ x, S x → x.id = sd.id → x = sd)
    (hr : removeFromIndexes sch sd idx = .ok idx') :
    AllCoherent sch (fun x => S x ∧ x.id ≠ sd.id) idx' := by
  intro n i' hm
  obtain ⟨i, hi, hrem⟩ := removeFromIndexes_mem hr n i' hm
  exact (h n i hi).remove hinj hrem

theorem AllUnique.add {S : SDoc → Prop} {idx idx'} {sd : SDoc} (hc : AllCoherent sch S idx)
    (hinj : IdInj S) (hu : AllUnique sch (fun x => S x ∧ DocOk x.doc) idx)
    (ha : addToIndexes sch sd idx = .ok idx') :
    AllUnique sch (fun x => (S x ∨ x = sd) ∧ DocOk x.doc) idx' := by
  intro n i' hm
  obtain ⟨i, hi, hadd⟩ := addToIndexes_mem ha n i' hm
  exact (hu n i hi).add (hc n i hi) hinj hadd

theorem AllUnique.remove {S S' : SDoc → Prop} {idx idx'} {sd : SDoc} (hu : AllUnique sch S idx)
    (hs : ∀ x, S' x → S x) (hr : removeFromIndexes sch sd idx = .ok idx') :
    AllUnique sch S' idx' := by
  intro n i' hm
  obtain ⟨i, hi, hrem⟩ := removeFromIndexes_mem hr n i' hm
  obtain ⟨h1, h2⟩ := remove_shape hrem
  exact (hu n i hi).mono hs h1 h2

/-! ### `foldIdx` over lists of documents -/

theorem foldIdx_remove_shape : ∀ {list : List SDoc} {idx idx' : List (String × Index)},
    foldIdx (fun idx sd => removeFromIndexes sch sd idx) idx list = .ok idx' → shape idx' = shape idx
  | [], idx, idx', h => by simp only [foldIdx, Except.ok.injEq] at h; subst h; rfl
  | sd :: r, idx, idx', h => by
    rw [foldIdx] at h
    split at h
    · cases h
    · rename_i idx1 h1
      rw [foldIdx_remove_shape h, removeFromIndexes_shape h1]

theorem foldIdx_add_shape : ∀ {list : List SDoc} {idx idx' : List (String × Index)},
    foldIdx (fun idx sd => addToIndexes sch sd idx) idx list = .ok idx' → shape idx' = shape idx
  | [], idx, idx', h => by simp only [foldIdx, Except.ok.injEq] at h; subst h; rfl
  | sd :: r, idx, idx', h => by
    rw [foldIdx] at h
    split at h
    · cases h
    · rename_i idx1 h1
      rw [foldIdx_add_shape h, addToIndexes_shape h1]

/-- removing the documents of `list` (each stored, identities unambiguous) one after the other -/
theorem foldIdx_remove_coherent : ∀ {list : List SDoc} {S : SDoc → Prop} {idx idx' : List (String × Index)},
    AllCoherent sch S idx → (∀ o ∈ list, ∀ x, S x → x.id = o.id → x = o) →
    foldIdx (fun idx sd => removeFromIndexes sch sd idx) idx list = .ok idx' →
    AllCoherent sch (fun x => S x ∧ ∀ o ∈ list, x.id ≠ o.id) idx'
  | [], S, idx, idx', hc, _, h => by
    simp only [foldIdx, Except.ok.injEq] at h; subst h
    exact hc.congr (fun x => by simp)
  | sd :: r, S, idx, idx', hc, hinj, h => by
    rw [foldIdx] at h
    split at h
    · cases h
    · rename_i idx1 h1
      have hc1 := hc.remove (hinj sd (by simp)) h1
      have := foldIdx_remove_coherent hc1
        (fun o ho x hx e => hinj o (List.mem_cons_of_mem _ ho) x hx.1 e) h
      exact this.congr (fun x => by
        simp only [List.mem_cons, forall_eq_or_imp, and_assoc])

theorem foldIdx_remove_unique : ∀ {list : List SDoc} {S S' : SDoc → Prop} {idx idx' : List (String × Index)},
    AllUnique sch S idx → (∀ x, S' x → S x) →
    foldIdx (fun idx sd => removeFromIndexes sch sd idx) idx list = .ok idx' →
    AllUnique sch S' idx'
  | [], S, S', idx, idx', hu, hs, h => by
    simp only [foldIdx, Except.ok.injEq] at h; subst h
    exact fun n i hm => (hu n i hm).mono hs rfl rfl
  | sd :: r, S, S', idx, idx', hu, hs, h => by
    rw [foldIdx] at h
    split at h
    · cases h
    · rename_i idx1 h1
      exact foldIdx_remove_unique (hu.remove (fun x hx => hx) h1) hs h

/-- removal of stored documents from coherent indexes never fails -/
theorem foldIdx_remove_ok : ∀ {list : List SDoc} {S : SDoc → Prop} {idx : List (String × Index)},
    AllCoherent sch S idx → (∀ o ∈ list, S o) → (list.map (·.id)).Nodup →
    (∀ o ∈ list, ∀ x, S x → x.id = o.id → x = o) →
    ∃ idx', foldIdx (fun idx sd => removeFromIndexes sch sd idx) idx list = .ok idx'
  | [], _, idx, _, _, _, _ => ⟨idx, rfl⟩
  | sd :: r, S, idx, hc, hs, hnd, hinj => by
    obtain ⟨idx1, h1⟩ := removeFromIndexes_ok (hs sd (by simp)) hc
    have hc1 := hc.remove (hinj sd (by simp)) h1
    rw [List.map_cons, List.nodup_cons] at hnd
    obtain ⟨idx', h'⟩ := foldIdx_remove_ok hc1
      (fun o ho => ⟨hs o (List.mem_cons_of_mem _ ho), fun e =>
        hnd.1 (List.mem_map.mpr ⟨o, ho, e⟩)⟩) hnd.2
      (fun o ho x hx e => hinj o (List.mem_cons_of_mem _ ho) x hx.1 e)
    exact ⟨idx', by rw [foldIdx]; simp only [h1, h']⟩

/-- adding the documents of `list` one after the other -/
theorem foldIdx_add_coherent : ∀ {list : List SDoc} {S : SDoc → Prop} {idx idx' : List (String × Index)},
    AllCoherent sch S idx →
    foldIdx (fun idx sd => addToIndexes sch sd idx) idx list = .ok idx' →
    AllCoherent sch (fun x => S x ∨ x ∈ list) idx'
  | [], S, idx, idx', hc, h => by
    simp only [foldIdx, Except.ok.injEq] at h; subst h
    exact hc.congr (fun x => by simp)
  | sd :: r, S, idx, idx', hc, h => by
    rw [foldIdx] at h
    split at h
    · cases h
    · rename_i idx1 h1
      have := foldIdx_add_coherent (hc.add h1) h
      exact this.congr (fun x => by simp only [List.mem_cons, or_assoc])

theorem foldIdx_add_unique : ∀ {list : List SDoc} {S : SDoc → Prop} {idx idx' : List (String × Index)},
    AllCoherent sch S idx → IdInj S → (∀ nd ∈ list, ∀ x, S x → x.id ≠ nd.id) →
    (list.map (·.id)).Nodup → AllUnique sch (fun x => S x ∧ DocOk x.doc) idx →
    foldIdx (fun idx sd => addToIndexes sch sd idx) idx list = .ok idx' →
    AllUnique sch (fun x => (S x ∨ x ∈ list) ∧ DocOk x.doc) idx'
  | [], S, idx, idx', _, _, _, _, hu, h => by
    simp only [foldIdx, Except.ok.injEq] at h; subst h
    exact hu.congr (fun x => by simp)
  | sd :: r, S, idx, idx', hc, hinj, hfresh, hnd, hu, h => by
    rw [foldIdx] at h
    split at h
    · cases h
    · rename_i idx1 h1
      rw [List.map_cons, List.nodup_cons] at hnd
      have := foldIdx_add_unique (hc.add h1) (hinj.insert (hfresh sd (by simp)))
        (fun nd hnd' x hx => by
          rcases hx with hx | rfl
          · exact hfresh nd (List.mem_cons_of_mem _ hnd') x hx
          · exact fun e => hnd.1 (List.mem_map.mpr ⟨nd, hnd', e.symm⟩))
        hnd.2 (hu.add hc hinj h1) h
      exact this.congr (fun x => by simp only [List.mem_cons, or_assoc])

/-! ### `selectDocs`: a sub-list of a permutation of the documents -/

theorem filterDocs_sublist {q : Doc} : ∀ {l : List SDoc} {lim : Nat} {r : List SDoc},
    filterDocs sch q lim l = .ok r → r.Sublist l
  | [], lim, r, h => by simp only [filterDocs, Except.ok.injEq] at h; subst h; exact .slnil
  | sd :: t, lim, r, h => by
    rw [filterDocs] at h
    split at h
    · cases h
    · exact (filterDocs_sublist h).cons _
    · split at h
      · simp only [Except.ok.injEq] at h; subst h
        exact (List.nil_sublist t).cons_cons sd
      · split at h
        · cases h
        · rename_i rest hr
          simp only [Except.ok.injEq] at h; subst h
          exact (filterDocs_sublist hr).cons_cons sd

theorem selectDocs_spec {c : Coll} {q : Doc} {sort : Option Doc} {skip limit : Int} {l : List SDoc}
    (h : selectDocs sch c q sort skip limit = .ok l) :
    ∃ l0 : List SDoc, l0.Perm c.docs ∧ l.Sublist l0 := by
  unfold selectDocs at h
  split at h
  · cases h
  · simp only at h
    split at h
    · cases h
    · rename_i list hl
      split at h
      · cases h
      · rename_i l1 h1
        simp only [Except.ok.injEq] at h; subst h
        have hs : (l1.drop skip.toNat).Sublist list := (List.drop_sublist _ _).trans (filterDocs_sublist h1)
        refine ⟨list, ?_, hs⟩
        split at hl
        · split at hl
          · simp only [Except.ok.injEq] at hl; subst hl; exact .refl _
          · split at hl
            · cases hl
            · simp only [Except.ok.injEq] at hl; subst hl
              exact List.mergeSort_perm _ _
        · simp only [Except.ok.injEq] at hl; subst hl; exact .refl _

theorem selectDocs_mem {c : Coll} {q : Doc} {sort : Option Doc} {skip limit : Int} {l : List SDoc}
    (h : selectDocs sch c q sort skip limit = .ok l) : ∀ x ∈ l, x ∈ c.docs := by
  obtain ⟨l0, hp, hs⟩ := selectDocs_spec h
  exact fun x hx => hp.mem_iff.mp (hs.subset hx)

theorem selectDocs_distinct {c : Coll} {q : Doc} {sort : Option Doc} {skip limit : Int} {l : List SDoc}
    (h : selectDocs sch c q sort skip limit = .ok l) (hd : IdsDistinct c.docs) : IdsDistinct l := by
  obtain ⟨l0, hp, hs⟩ := selectDocs_spec h
  have : IdsDistinct l0 := (hp.map _).nodup_iff.mpr hd
  exact this.sublist hs

/-! ### `replaceDoc` -/

theorem mem_replaceDoc {oid : Nat} {nw x : SDoc} : ∀ {docs : List SDoc},
    x ∈ replaceDoc docs oid nw ↔ (x ∈ docs ∧ x.id ≠ oid) ∨ (x = nw ∧ ∃ y ∈ docs, y.id = oid)
  | [] => by simp [replaceDoc]
  | a :: r => by
    have ih := mem_replaceDoc (oid := oid) (nw := nw) (x := x) (docs := r)
    unfold replaceDoc at ih ⊢
    rw [List.map_cons, List.mem_cons, ih]
    by_cases ha : a.id = oid
    · simp only [ha, beq_self_eq_true, ↓reduceIte, List.mem_cons, exists_eq_or_imp, true_or, and_true]
      constructor
      · rintro (h | h | h)
        · exact .inr h
        · exact .inl ⟨.inr h.1, h.2⟩
        · exact .inr h.1
      · rintro (⟨h1 | h1, h2⟩ | h)
        · subst h1; exact absurd ha h2
        · exact .inr (.inl ⟨h1, h2⟩)
        · exact .inl h
    · have hb : (a.id == oid) = false := by simpa using ha
      simp only [hb, Bool.false_eq_true, ↓reduceIte, List.mem_cons, exists_eq_or_imp, ha, false_or]
      constructor
      · rintro (h | h | h)
        · subst h; exact .inl ⟨.inl rfl, ha⟩
        · exact .inl ⟨.inr h.1, h.2⟩
        · exact .inr h
      · rintro (⟨h1 | h1, h2⟩ | h)
        · exact .inl h1
        · exact .inr (.inl ⟨h1, h2⟩)
        · exact .inr (.inr h)

theorem IdsDistinct.replaceDoc {oid : Nat} {nw : SDoc} : ∀ {docs : List SDoc}, IdsDistinct docs →
    (∀ x ∈ docs, x.id ≠ nw.id) → IdsDistinct (replaceDoc docs oid nw)
  | [], _, _ => by simp [Lungo.replaceDoc, IdsDistinct]
  | a :: r, h, hf => by
    have hr : IdsDistinct r := by
      unfold IdsDistinct at h ⊢; rw [List.map_cons, List.nodup_cons] at h; exact h.2
    have hna : ∀ y ∈ r, y.id ≠ a.id := by
      unfold IdsDistinct at h; rw [List.map_cons, List.nodup_cons] at h
      exact fun y hy e => h.1 (List.mem_map.mpr ⟨y, hy, e⟩)
    have ih := IdsDistinct.replaceDoc (oid := oid) (nw := nw) hr (fun x hx => hf x (List.mem_cons_of_mem _ hx))
    have hcons : Lungo.replaceDoc (a :: r) oid nw =
        (if a.id == oid then nw else a) :: Lungo.replaceDoc r oid nw := by
      simp [Lungo.replaceDoc]
    rw [hcons]
    unfold IdsDistinct at ih ⊢
    rw [List.map_cons, List.nodup_cons]
    refine ⟨?_, ih⟩
    intro hm
    obtain ⟨x, hx, he⟩ := List.mem_map.mp hm
    rcases mem_replaceDoc.mp hx with ⟨hx1, hx2⟩ | ⟨rfl, y, hy, hyo⟩
    · split at he
      · exact hf x (List.mem_cons_of_mem _ hx1) he
      · exact hna x hx1 he
    · split at he
      · rename_i hao
        have : a.id = oid := by simpa using hao
        exact hna y hy (by rw [hyo, this])
      · exact hf a (by simp) he.symm

theorem IdsBelow.replaceDoc {oid n : Nat} {nw : SDoc} {docs : List SDoc} (h : IdsBelow docs n)
    (hn : nw.id < n) : IdsBelow (Lungo.replaceDoc docs oid nw) n := by
  intro x hx
  rcases mem_replaceDoc.mp hx with ⟨hx1, _⟩ | ⟨rfl, _⟩
  · exact h x hx1
  · exact hn

/-! ### `Coll.insert` -/

theorem ensureId_nextId {d d' : Doc} {nu nu' : Nu} (h : ensureId d nu = .ok (d', nu')) :
    nu'.nextId = nu.nextId := by
  unfold ensureId at h
  split at h
  · split at h
    · cases h
    · rename_i o nu1 ho
      split at h
      · cases h
      · simp only [Except.ok.injEq, Prod.mk.injEq] at h
        rw [← h.2]
        unfold Nu.oid at ho
        split at ho
        · simp only [Except.ok.injEq, Prod.mk.injEq] at ho; rw [← ho.2]
        · cases ho
  · simp only [Except.ok.injEq, Prod.mk.injEq] at h; rw [h.2]

theorem insert_spec {c c' : Coll} {d : Doc} {nu nu' : Nu} {sd : SDoc}
    (h : c.insert sch d nu = .ok (c', sd, nu')) :
    ∃ d' nu1, ensureId d nu = .ok (d', nu1) ∧ sd = ⟨nu.nextId, d'⟩ ∧ nu'.nextId = nu.nextId + 1 ∧
      ∃ idx', addToIndexes sch sd c.indexes = .ok idx' ∧ c' = ⟨c.docs ++ [sd], idx'⟩ := by
  unfold Coll.insert at h
  split at h
  · cases h
  · rename_i d' nu1 he
    have hn := ensureId_nextId he
    simp only [Nu.fresh] at h
    split at h
    · cases h
    · rename_i idx' ha
      simp only [Except.ok.injEq, Prod.mk.injEq] at h
      obtain ⟨h1, h2, h3⟩ := h
      subst h2
      refine ⟨d', nu1, he, ?_, ?_, idx', ha, h1.symm⟩
      · rw [hn]
      · rw [← h3]; simp [hn]

/-! ### Coherence and uniqueness of the collection methods -/

theorem idIndex_cols : columns idIndexConfig.key = .ok [{ path := "_id", reverse := false }] := by
  simp [columns, idIndexConfig]

theorem Coherent.new (b : Bool) : Coherent sch (newColl b) := by
  refine ⟨by simp [newColl, IdsDistinct], ?_⟩
  intro n i hm
  unfold newColl at hm
  cases b with
  | false => simp at hm
  | true =>
    simp only [↓reduceIte, List.mem_singleton, Prod.mk.injEq] at hm
    obtain ⟨_, rfl⟩ := hm
    exact ⟨idIndex_cols, fun x hx => by simp [newColl] at hx, fun k id hm => by simp at hm,
      fun x hx => by simp [newColl] at hx, List.Pairwise.nil⟩

theorem Unique.new (b : Bool) : Unique sch (newColl b) := by
  intro n i _ _ x y hx
  simp [newColl] at hx

theorem idInj_of_distinct {docs : List SDoc} (h : IdsDistinct docs) : IdInj (· ∈ docs) :=
  fun x y hx hy e => ids_inj h x hx y hy e

theorem UniqueOk.of_unique {c : Coll} (h : Unique sch c) : UniqueOk sch c :=
  fun n i hm => (h n i hm).mono (fun _ hx => hx.1) rfl rfl

/-- on well-formed documents (every Go value) `UniqueOk` is `Unique` -/
theorem UniqueOk.unique {c : Coll} (h : UniqueOk sch c) (hok : DocsOk c.docs) : Unique sch c :=
  fun n i hm => (h n i hm).mono (fun x hx => ⟨hx, hok x hx⟩) rfl rfl

theorem UniqueOk.new (b : Bool) : UniqueOk sch (newColl b) := .of_unique (.new b)

theorem Coherent.insert {c c' : Coll} {d : Doc} {nu nu' : Nu} {sd : SDoc}
    (hc : Coherent sch c) (hb : IdsBelow c.docs nu.nextId)
    (h : c.insert sch d nu = .ok (c', sd, nu')) :
    Coherent sch c' ∧ IdsBelow c'.docs nu'.nextId := by
  obtain ⟨d', nu1, _, hsd, hn, idx', ha, rfl⟩ := insert_spec h
  have hid : sd.id = nu.nextId := by rw [hsd]
  refine ⟨⟨hc.1.append_fresh (fun x hx => by rw [hid]; exact hb.fresh x hx), ?_⟩, ?_⟩
  · exact (AllCoherent.add hc.2 ha).congr (fun x => by simp)
  · intro x hx
    rw [hn]
    rcases List.mem_append.mp hx with hx | hx
    · have := hb x hx; omega
    · simp only [List.mem_singleton] at hx; subst hx; omega

theorem UniqueOk.insert {c c' : Coll} {d : Doc} {nu nu' : Nu} {sd : SDoc}
    (hc : Coherent sch c) (hu : UniqueOk sch c)
    (h : c.insert sch d nu = .ok (c', sd, nu')) : UniqueOk sch c' := by
  obtain ⟨d', nu1, _, _, _, idx', ha, rfl⟩ := insert_spec h
  exact (AllUnique.add hc.2 (idInj_of_distinct hc.1) hu ha).congr (fun x => by simp)

theorem Unique.insert {c c' : Coll} {d : Doc} {nu nu' : Nu} {sd : SDoc}
    (hc : Coherent sch c) (hu : Unique sch c) (hok' : DocsOk c'.docs)
    (h : c.insert sch d nu = .ok (c', sd, nu')) : Unique sch c' :=
  (UniqueOk.insert hc (.of_unique hu) h).unique hok'

theorem delete_spec {c c' : Coll} {q : Doc} {sort : Option Doc} {skip limit : Int} {list : List SDoc}
    (h : c.delete sch q sort skip limit = .ok (c', list)) :
    selectDocs sch c q sort skip limit = .ok list ∧
    ∃ idx', foldIdx (fun idx sd => removeFromIndexes sch sd idx) c.indexes list = .ok idx' ∧
      c' = ⟨c.docs.filter (fun sd => !(list.any (·.id == sd.id))), idx'⟩ := by
  unfold Coll.delete at h
  split at h
  · cases h
  · rename_i l hl
    split at h
    · cases h
    · rename_i idx' hi
      simp only [Except.ok.injEq, Prod.mk.injEq] at h
      obtain ⟨h1, h2⟩ := h
      subst h2
      exact ⟨hl, idx', hi, h1.symm⟩

theorem mem_filter_notAny {docs list : List SDoc} {x : SDoc} :
    x ∈ docs.filter (fun sd => !(list.any (·.id == sd.id))) ↔ x ∈ docs ∧ ∀ o ∈ list, x.id ≠ o.id := by
  simp only [List.mem_filter, Bool.not_eq_true', List.any_eq_false, beq_iff_eq]
  constructor
  · rintro ⟨h1, h2⟩; exact ⟨h1, fun o ho e => h2 o ho e.symm⟩
  · rintro ⟨h1, h2⟩; exact ⟨h1, fun o ho e => h2 o ho e.symm⟩

theorem Coherent.delete {c c' : Coll} {q : Doc} {sort : Option Doc} {skip limit : Int} {list : List SDoc}
    (hc : Coherent sch c) (h : c.delete sch q sort skip limit = .ok (c', list)) :
    Coherent sch c' ∧ (∀ n, IdsBelow c.docs n → IdsBelow c'.docs n) := by
  obtain ⟨hsel, idx', hf, rfl⟩ := delete_spec h
  have hmem := selectDocs_mem hsel
  refine ⟨⟨hc.1.sublist List.filter_sublist, ?_⟩, ?_⟩
  · have := foldIdx_remove_coherent hc.2
      (fun o ho x hx e => ids_inj hc.1 x hx o (hmem o ho) e) hf
    exact this.congr (fun x => mem_filter_notAny)
  · intro n hb x hx
    exact hb x (List.mem_filter.mp hx).1

theorem UniqueOk.delete {c c' : Coll} {q : Doc} {sort : Option Doc} {skip limit : Int} {list : List SDoc}
    (hu : UniqueOk sch c) (h : c.delete sch q sort skip limit = .ok (c', list)) : UniqueOk sch c' := by
  obtain ⟨_, idx', hf, rfl⟩ := delete_spec h
  exact foldIdx_remove_unique hu (fun x hx => ⟨(mem_filter_notAny.mp hx.1).1, hx.2⟩) hf

theorem Unique.delete {c c' : Coll} {q : Doc} {sort : Option Doc} {skip limit : Int} {list : List SDoc}
    (hu : Unique sch c) (h : c.delete sch q sort skip limit = .ok (c', list)) : Unique sch c' := by
  obtain ⟨_, idx', hf, rfl⟩ := delete_spec h
  exact foldIdx_remove_unique hu (fun x hx => (mem_filter_notAny.mp hx).1) hf

/-- once the documents are selected, a delete on a coherent collection cannot fail -/
theorem delete_ok {c : Coll} {q : Doc} {sort : Option Doc} {skip limit : Int} {list : List SDoc}
    (hc : Coherent sch c) (hsel : selectDocs sch c q sort skip limit = .ok list) :
    ∃ c', c.delete sch q sort skip limit = .ok (c', list) := by
  have hmem := selectDocs_mem hsel
  obtain ⟨idx', hf⟩ := foldIdx_remove_ok hc.2 hmem (selectDocs_distinct hsel hc.1)
    (fun o ho x hx e => ids_inj hc.1 x hx o (hmem o ho) e)
  exact ⟨⟨c.docs.filter (fun sd => !(list.any (·.id == sd.id))), idx'⟩, by
    unfold Coll.delete; simp only [hsel, hf]⟩

/-! ### `Coll.replace` -/

theorem replace_upd_mem {old nw : SDoc} : ∀ {idx idx' : List (String × Index)},
    Coll.replace.upd sch old nw idx = .ok idx' → ∀ n i', (n, i') ∈ idx' →
      ∃ i i1, (n, i) ∈ idx ∧ i.remove sch old = .ok (i1, true) ∧ i1.add sch nw = .ok (i', true)
  | [], idx', h, n, i', hm => by
    simp only [Coll.replace.upd, Except.ok.injEq] at h; subst h; cases hm
  | (m, j) :: r, idx', h, n, i', hm => by
    rw [Coll.replace.upd] at h
    split at h
    · cases h
    · cases h
    · rename_i j1 hj1
      split at h
      · cases h
      · cases h
      · rename_i j2 hj2
        split at h
        · cases h
        · rename_i r' hr
          simp only [Except.ok.injEq] at h; subst h
          rcases List.mem_cons.mp hm with e | hm
          · simp only [Prod.mk.injEq] at e
            obtain ⟨rfl, rfl⟩ := e
            exact ⟨j, j1, by simp, hj1, hj2⟩
          · obtain ⟨i, i1, hi, h1, h2⟩ := replace_upd_mem hr n i' hm
            exact ⟨i, i1, List.mem_cons_of_mem _ hi, h1, h2⟩

theorem replace_upd_shape {old nw : SDoc} : ∀ {idx idx' : List (String × Index)},
    Coll.replace.upd sch old nw idx = .ok idx' → shape idx' = shape idx
  | [], idx', h => by
    simp only [Coll.replace.upd, Except.ok.injEq] at h; subst h; rfl
  | (m, j) :: r, idx', h => by
    rw [Coll.replace.upd] at h
    split at h
    · cases h
    · cases h
    · rename_i j1 hj1
      split at h
      · cases h
      · cases h
      · rename_i j2 hj2
        split at h
        · cases h
        · rename_i r' hr
          simp only [Except.ok.injEq] at h; subst h
          simp only [shape, List.map_cons, List.cons.injEq, Prod.mk.injEq, true_and]
          exact ⟨by rw [(add_shape hj2).1, (remove_shape hj1).1], replace_upd_shape hr⟩

/-- the successful outcomes of `Coll.replace` -/
theorem replace_spec {c : Coll} {q repl : Doc} {sort : Option Doc} {nu nu' : Nu} {res : CResult}
    (h : c.replace sch q repl sort nu = .ok (res, nu')) :
    (res.coll = c ∧ nu' = nu ∧ res.matched = [] ∧ res.modified = []) ∨
    ∃ old repl' idx', old ∈ c.docs ∧ nu'.nextId = nu.nextId + 1 ∧
      Coll.replace.upd sch old ⟨nu.nextId, repl'⟩ c.indexes = .ok idx' ∧
      res.coll = ⟨replaceDoc c.docs old.id ⟨nu.nextId, repl'⟩, idx'⟩ ∧
      (∀ m ∈ res.modified, m = ⟨nu.nextId, repl'⟩) := by
  unfold Coll.replace at h
  split at h
  · cases h
  · simp only [Except.ok.injEq, Prod.mk.injEq] at h
    obtain ⟨h1, h2⟩ := h
    subst h1; exact .inl ⟨rfl, h2.symm, rfl, rfl⟩
  · rename_i old rest hsel
    simp only at h
    split at h
    · cases h
    · rename_i repl' _
      simp only [Nu.fresh] at h
      split at h
      · cases h
      · rename_i idx' hupd
        simp only [Except.ok.injEq, Prod.mk.injEq] at h
        obtain ⟨h1, h2⟩ := h
        subst h1
        refine .inr ⟨old, repl', idx', selectDocs_mem hsel old (by simp), by rw [← h2], hupd, rfl, ?_⟩
        intro m hm
        simp only at hm
        split at hm
        · cases hm
        · simpa using hm

theorem Coherent.replace {c : Coll} {q repl : Doc} {sort : Option Doc} {nu nu' : Nu} {res : CResult}
    (hc : Coherent sch c) (hb : IdsBelow c.docs nu.nextId)
    (h : c.replace sch q repl sort nu = .ok (res, nu')) :
    Coherent sch res.coll ∧ IdsBelow res.coll.docs nu'.nextId ∧ nu.nextId ≤ nu'.nextId := by
  rcases replace_spec h with ⟨h1, h2, _, _⟩ | ⟨old, repl', idx', hold, hn, hupd, hcoll, _⟩
  · rw [h1, h2]; exact ⟨hc, hb, Nat.le_refl _⟩
  · rw [hcoll, hn]
    refine ⟨⟨hc.1.replaceDoc (fun x hx => hb.fresh x hx), ?_⟩,
      (hb.mono (Nat.le_succ _)).replaceDoc (Nat.lt_succ_self _), Nat.le_succ _⟩
    intro n i' hm
    obtain ⟨i, i1, hi, hrem, hadd⟩ := replace_upd_mem hupd n i' hm
    have h1 := (hc.2 n i hi).remove (fun x hx e => ids_inj hc.1 x hx old hold e) hrem
    exact (h1.add hadd).congr (fun x => by
      rw [mem_replaceDoc]
      constructor
      · rintro (hx | ⟨rfl, _⟩)
        · exact .inl hx
        · exact .inr rfl
      · rintro (hx | rfl)
        · exact .inl hx
        · exact .inr ⟨rfl, old, hold, rfl⟩)

theorem UniqueOk.replace {c : Coll} {q repl : Doc} {sort : Option Doc} {nu nu' : Nu} {res : CResult}
    (hc : Coherent sch c) (hu : UniqueOk sch c)
    (h : c.replace sch q repl sort nu = .ok (res, nu')) : UniqueOk sch res.coll := by
  rcases replace_spec h with ⟨h1, _⟩ | ⟨old, repl', idx', hold, hn, hupd, hcoll, _⟩
  · rw [h1]; exact hu
  · rw [hcoll]
    intro n i' hm
    obtain ⟨i, i1, hi, hrem, hadd⟩ := replace_upd_mem hupd n i' hm
    have c1 := (hc.2 n i hi).remove (fun x hx e => ids_inj hc.1 x hx old hold e) hrem
    obtain ⟨s1, s2⟩ := remove_shape hrem
    have u1 : IndexUnique sch (fun x => (x ∈ c.docs ∧ x.id ≠ old.id) ∧ DocOk x.doc) i1 :=
      (hu n i hi).mono (fun x hx => ⟨hx.1.1, hx.2⟩) s1 s2
    have u2 := u1.add c1 ((idInj_of_distinct hc.1).mono (fun x hx => hx.1)) hadd
    exact u2.mono (fun x hx => by
      refine ⟨?_, hx.2⟩
      rcases mem_replaceDoc.mp hx.1 with hx | ⟨rfl, _⟩
      · exact .inl hx
      · exact .inr rfl) rfl rfl

theorem Unique.replace {c : Coll} {q repl : Doc} {sort : Option Doc} {nu nu' : Nu} {res : CResult}
    (hc : Coherent sch c) (hu : Unique sch c) (hok' : DocsOk res.coll.docs)
    (h : c.replace sch q repl sort nu = .ok (res, nu')) : Unique sch res.coll :=
  (UniqueOk.replace hc (.of_unique hu) h).unique hok'

/-! ### `Coll.update`: remove all matched documents, then add all updated ones -/

theorem applyAll_spec {ac : ACtx} {update : Doc} {filters : List Doc} :
    ∀ {list : List SDoc} {nu nu' : Nu} {news : List (SDoc × List (String × V))},
    Coll.update.applyAll ac update filters nu list = .ok (news, nu') →
      news.map (·.1.id) = List.range' nu.nextId list.length ∧ nu'.nextId = nu.nextId + list.length
  | [], nu, nu', news, h => by
    simp only [Coll.update.applyAll, Except.ok.injEq, Prod.mk.injEq] at h
    obtain ⟨rfl, rfl⟩ := h; simp
  | sd :: r, nu, nu', news, h => by
    rw [Coll.update.applyAll] at h
    split at h
    · cases h
    · simp only [Nu.fresh] at h
      split at h
      · cases h
      · rename_i rest nu2 hr
        simp only [Except.ok.injEq, Prod.mk.injEq] at h
        obtain ⟨rfl, rfl⟩ := h
        obtain ⟨h1, h2⟩ := applyAll_spec hr
        simp only at h1 h2
        refine ⟨?_, by rw [h2, List.length_cons]; omega⟩
        simp only [List.map_cons, List.length_cons, List.range'_succ, h1]

theorem applyAll_length {ac : ACtx} {update : Doc} {filters : List Doc}
    {list : List SDoc} {nu nu' : Nu} {news : List (SDoc × List (String × V))}
    (h : Coll.update.applyAll ac update filters nu list = .ok (news, nu')) :
    news.length = list.length := by
  have := congrArg List.length (applyAll_spec h).1
  simpa using this

/-- the document list after replacing each old document by its successor -/
theorem foldl_replaceDoc_spec {α : Type} : ∀ (pairs : List (SDoc × SDoc × α)) (docs : List SDoc),
    IdsDistinct docs → (∀ p ∈ pairs, p.1 ∈ docs) → (pairs.map (·.1.id)).Nodup →
    (∀ p ∈ pairs, ∀ x ∈ docs, x.id ≠ p.2.1.id) → (pairs.map (·.2.1.id)).Nodup →
    IdsDistinct (pairs.foldl (fun ds p => replaceDoc ds p.1.id p.2.1) docs) ∧
    ∀ x, x ∈ pairs.foldl (fun ds p => replaceDoc ds p.1.id p.2.1) docs ↔
      (x ∈ docs ∧ ∀ p ∈ pairs, x.id ≠ p.1.id) ∨ (∃ p ∈ pairs, x = p.2.1)
  | [], docs, hd, _, _, _, _ => ⟨hd, fun x => by simp⟩
  | p :: r, docs, hd, hold, hond, hfresh, hnnd => by
    rw [List.foldl_cons]
    rw [List.map_cons, List.nodup_cons] at hond hnnd
    have hp : p.1 ∈ docs := hold p (by simp)
    have hd1 : IdsDistinct (replaceDoc docs p.1.id p.2.1) :=
      hd.replaceDoc (hfresh p (by simp))
    have hold1 : ∀ p' ∈ r, p'.1 ∈ replaceDoc docs p.1.id p.2.1 := fun p' hp' =>
      mem_replaceDoc.mpr (.inl ⟨hold p' (List.mem_cons_of_mem _ hp'), fun e =>
        hond.1 (List.mem_map.mpr ⟨p', hp', e⟩)⟩)
    have hfresh1 : ∀ p' ∈ r, ∀ x ∈ replaceDoc docs p.1.id p.2.1, x.id ≠ p'.2.1.id := by
      intro p' hp' x hx
      rcases mem_replaceDoc.mp hx with ⟨hx1, _⟩ | ⟨rfl, _⟩
      · exact hfresh p' (List.mem_cons_of_mem _ hp') x hx1
      · exact fun e => hnnd.1 (List.mem_map.mpr ⟨p', hp', e.symm⟩)
    obtain ⟨ih1, ih2⟩ := foldl_replaceDoc_spec r _ hd1 hold1 hond.2 hfresh1 hnnd.2
    refine ⟨ih1, fun x => ?_⟩
    rw [ih2 x, mem_replaceDoc]
    constructor
    · rintro (⟨⟨hx1, hx2⟩ | ⟨rfl, _⟩, hx3⟩ | ⟨p', hp', rfl⟩)
      · exact .inl ⟨hx1, fun p' hp' => by
          rcases List.mem_cons.mp hp' with rfl | hp'
          · exact hx2
          · exact hx3 p' hp'⟩
      · exact .inr ⟨p, by simp, rfl⟩
      · exact .inr ⟨p', List.mem_cons_of_mem _ hp', rfl⟩
    · rintro (⟨hx1, hx2⟩ | ⟨p', hp', rfl⟩)
      · exact .inl ⟨.inl ⟨hx1, hx2 p (by simp)⟩, fun p' hp' => hx2 p' (List.mem_cons_of_mem _ hp')⟩
      · rcases List.mem_cons.mp hp' with rfl | hp'
        · refine .inl ⟨.inr ⟨rfl, p'.1, hp, rfl⟩, fun p'' hp'' => ?_⟩
          exact (hfresh p' (by simp) p''.1 (hold p'' (List.mem_cons_of_mem _ hp''))).symm
        · exact .inr ⟨p', hp', rfl⟩

/-- the successful outcomes of `Coll.update` -/
theorem update_spec {ac : ACtx} {c : Coll} {q u : Doc} {sort : Option Doc} {skip limit : Int}
    {filters : List Doc} {nu nu' : Nu} {res : CResult}
    (h : c.update ac q u sort skip limit filters nu = .ok (res, nu')) :
    (res.coll = c ∧ nu' = nu ∧ res.matched = [] ∧ res.modified = []) ∨
    ∃ list news idx1 idx2, selectDocs ac.sch c q sort skip limit = .ok list ∧
      Coll.update.applyAll ac u filters nu list = .ok (news, nu') ∧
      foldIdx (fun idx sd => removeFromIndexes ac.sch sd idx) c.indexes list = .ok idx1 ∧
      foldIdx (fun idx sd => addToIndexes ac.sch sd idx) idx1 (news.map (·.1)) = .ok idx2 ∧
      res.coll = ⟨(list.zip news).foldl (fun ds p => replaceDoc ds p.1.id p.2.1) c.docs, idx2⟩ ∧
      (∀ m ∈ res.modified, m ∈ news.map (·.1)) := by
  unfold Coll.update at h
  simp only at h
  split at h
  · cases h
  · simp only [Except.ok.injEq, Prod.mk.injEq] at h
    obtain ⟨h1, h2⟩ := h
    subst h1; exact .inl ⟨rfl, h2.symm, rfl, rfl⟩
  · rename_i list _ hsel
    split at h
    · cases h
    · rename_i news nu2 hap
      split at h
      · cases h
      · split at h
        · cases h
        · rename_i idx1 hrem
          split at h
          · cases h
          · rename_i idx2 hadd
            simp only [Except.ok.injEq, Prod.mk.injEq] at h
            obtain ⟨h1, h2⟩ := h
            subst h1 h2
            refine .inr ⟨list, news, idx1, idx2, hsel, hap, hrem, hadd, ?_, ?_⟩
            · rfl
            · intro m hm
              simp only [List.mem_map] at hm ⊢
              obtain ⟨p, hp, rfl⟩ := hm
              have := (List.mem_filter.mp hp).1
              exact ⟨p.2, (List.of_mem_zip this).2, rfl⟩

/-- facts about the (old, new) pairs of a multi-update -/
theorem update_pairs_facts {ac : ACtx} {u : Doc} {filters : List Doc} {c : Coll} {list : List SDoc}
    {nu nu' : Nu} {news : List (SDoc × List (String × V))}
    (hd : IdsDistinct c.docs) (hb : IdsBelow c.docs nu.nextId)
    (hmem : ∀ o ∈ list, o ∈ c.docs) (hdl : IdsDistinct list)
    (hap : Coll.update.applyAll ac u filters nu list = .ok (news, nu')) :
    let docs' := (list.zip news).foldl (fun ds p => replaceDoc ds p.1.id p.2.1) c.docs
    IdsDistinct docs' ∧
    (∀ x, x ∈ docs' ↔ (x ∈ c.docs ∧ ∀ o ∈ list, x.id ≠ o.id) ∨ x ∈ news.map (·.1)) ∧
    (∀ x ∈ news.map (·.1), nu.nextId ≤ x.id ∧ x.id < nu'.nextId) ∧
    nu'.nextId = nu.nextId + list.length := by
  intro docs'
  obtain ⟨hids, hn⟩ := applyAll_spec hap
  have hlen := applyAll_length hap
  have e1 : (list.zip news).map Prod.fst = list := List.map_fst_zip (by omega)
  have e2 : (list.zip news).map Prod.snd = news := List.map_snd_zip (by omega)
  have e1' : (list.zip news).map (fun p => p.1.id) = list.map (·.id) := by
    have := congrArg (List.map (·.id)) e1
    simpa [List.map_map, Function.comp_def] using this
  have e2' : (list.zip news).map (fun p => p.2.1.id) = List.range' nu.nextId list.length := by
    have := congrArg (List.map (·.1.id)) e2
    rw [hids] at this
    simpa [List.map_map, Function.comp_def] using this
  have hrange : ∀ x ∈ news.map (·.1), nu.nextId ≤ x.id ∧ x.id < nu'.nextId := by
    intro x hx
    obtain ⟨p, hp, rfl⟩ := List.mem_map.mp hx
    have : p.1.id ∈ news.map (·.1.id) := List.mem_map.mpr ⟨p, hp, rfl⟩
    rw [hids, List.mem_range'] at this
    obtain ⟨k, hk, he⟩ := this
    omega
  have hold : ∀ p ∈ list.zip news, p.1 ∈ c.docs := fun p hp => hmem p.1 (List.of_mem_zip hp).1
  have hfresh : ∀ p ∈ list.zip news, ∀ x ∈ c.docs, x.id ≠ p.2.1.id := by
    intro p hp x hx e
    have h1 := hb x hx
    have h2 := (hrange p.2.1 (List.mem_map.mpr ⟨p.2, (List.of_mem_zip hp).2, rfl⟩)).1
    omega
  obtain ⟨r1, r2⟩ := foldl_replaceDoc_spec (list.zip news) c.docs hd hold
    (by rw [e1']; exact hdl) hfresh (by rw [e2']; exact List.nodup_range' 1)
  refine ⟨r1, fun x => ?_, hrange, hn⟩
  rw [r2 x]
  have a1 : (∀ p ∈ list.zip news, x.id ≠ p.1.id) ↔ ∀ o ∈ list, x.id ≠ o.id := by
    constructor
    · intro h o ho
      rw [← e1] at ho
      obtain ⟨p, hp, rfl⟩ := List.mem_map.mp ho
      exact h p hp
    · intro h p hp; exact h p.1 (List.of_mem_zip hp).1
  have a2 : (∃ p ∈ list.zip news, x = p.2.1) ↔ x ∈ news.map (·.1) := by
    constructor
    · rintro ⟨p, hp, rfl⟩
      exact List.mem_map.mpr ⟨p.2, (List.of_mem_zip hp).2, rfl⟩
    · intro h
      obtain ⟨n, hn', rfl⟩ := List.mem_map.mp h
      rw [← e2] at hn'
      obtain ⟨p, hp, rfl⟩ := List.mem_map.mp hn'
      exact ⟨p, hp, rfl⟩
  rw [a1, a2]

theorem Coherent.update {ac : ACtx} {c : Coll} {q u : Doc} {sort : Option Doc} {skip limit : Int}
    {filters : List Doc} {nu nu' : Nu} {res : CResult}
    (hc : Coherent ac.sch c) (hb : IdsBelow c.docs nu.nextId)
    (h : c.update ac q u sort skip limit filters nu = .ok (res, nu')) :
    Coherent ac.sch res.coll ∧ IdsBelow res.coll.docs nu'.nextId ∧ nu.nextId ≤ nu'.nextId := by
  rcases update_spec h with ⟨h1, h2, _, _⟩ | ⟨list, news, idx1, idx2, hsel, hap, hrem, hadd, hcoll, _⟩
  · rw [h1, h2]; exact ⟨hc, hb, Nat.le_refl _⟩
  · have hmem := selectDocs_mem hsel
    have hdl := selectDocs_distinct hsel hc.1
    obtain ⟨f1, f2, f3, f4⟩ := update_pairs_facts hc.1 hb hmem hdl hap
    rw [hcoll]
    refine ⟨⟨f1, ?_⟩, ?_, by omega⟩
    · have c1 := foldIdx_remove_coherent hc.2
        (fun o ho x hx e => ids_inj hc.1 x hx o (hmem o ho) e) hrem
      exact (foldIdx_add_coherent c1 hadd).congr f2
    · intro x hx
      rcases (f2 x).mp hx with ⟨hx1, _⟩ | hx2
      · have := hb x hx1; omega
      · exact (f3 x hx2).2

theorem UniqueOk.update {ac : ACtx} {c : Coll} {q u : Doc} {sort : Option Doc} {skip limit : Int}
    {filters : List Doc} {nu nu' : Nu} {res : CResult}
    (hc : Coherent ac.sch c) (hb : IdsBelow c.docs nu.nextId) (hu : UniqueOk ac.sch c)
    (h : c.update ac q u sort skip limit filters nu = .ok (res, nu')) : UniqueOk ac.sch res.coll := by
  rcases update_spec h with ⟨h1, _⟩ | ⟨list, news, idx1, idx2, hsel, hap, hrem, hadd, hcoll, _⟩
  · rw [h1]; exact hu
  · have hmem := selectDocs_mem hsel
    have hdl := selectDocs_distinct hsel hc.1
    obtain ⟨f1, f2, f3, f4⟩ := update_pairs_facts hc.1 hb hmem hdl hap
    obtain ⟨hids, _⟩ := applyAll_spec hap
    rw [hcoll]
    have c1 := foldIdx_remove_coherent hc.2
      (fun o ho x hx e => ids_inj hc.1 x hx o (hmem o ho) e) hrem
    have u1 : AllUnique ac.sch (fun x => (x ∈ c.docs ∧ ∀ o ∈ list, x.id ≠ o.id) ∧ DocOk x.doc) idx1 :=
      foldIdx_remove_unique hu (fun x hx => ⟨hx.1.1, hx.2⟩) hrem
    have hnd : ((news.map (·.1)).map (·.id)).Nodup := by
      rw [List.map_map]
      have : ((fun x : SDoc => x.id) ∘ fun x : SDoc × List (String × V) => x.1) = fun x => x.1.id := rfl
      rw [this, hids]; exact List.nodup_range' 1
    have := foldIdx_add_unique c1 ((idInj_of_distinct hc.1).mono (fun x hx => hx.1))
      (fun nd hnd' x hx e => by
        have h1 := hb x hx.1
        have h2 := (f3 nd hnd').1
        omega) hnd u1 hadd
    exact this.congr (fun x => by rw [f2 x])

theorem Unique.update {ac : ACtx} {c : Coll} {q u : Doc} {sort : Option Doc} {skip limit : Int}
    {filters : List Doc} {nu nu' : Nu} {res : CResult}
    (hc : Coherent ac.sch c) (hb : IdsBelow c.docs nu.nextId) (hu : Unique ac.sch c)
    (hok' : DocsOk res.coll.docs)
    (h : c.update ac q u sort skip limit filters nu = .ok (res, nu')) : Unique ac.sch res.coll :=
  (UniqueOk.update hc hb (.of_unique hu) h).unique hok'

/-! ### `Coll.upsert` is an insert of the computed document -/

theorem upsert_spec {ac : ACtx} {c c' : Coll} {q : Doc} {repl update : Option Doc} {filters : List Doc}
    {nu nu' : Nu} {sd : SDoc} (h : c.upsert ac q repl update filters nu = .ok (c', sd, nu')) :
    ∃ doc, c.insert ac.sch doc nu = .ok (c', sd, nu') := by
  unfold Coll.upsert at h
  split at h
  · cases h
  · simp only at h
    split at h
    · cases h
    · split at h
      · cases h
      · rename_i doc _
        exact ⟨doc, h⟩

/-! ### `Index.build`, `newIndex`, `Coll.createIndex`, `Coll.dropIndex` -/

theorem build_shape : ∀ {list : List SDoc} {i i' : Index} {b : Bool},
    i.build sch list = .ok (i', b) → i'.config = i.config ∧ i'.columns = i.columns
  | [], i, i', b, h => by
    simp only [Index.build, Except.ok.injEq, Prod.mk.injEq] at h; rw [← h.1]; exact ⟨rfl, rfl⟩
  | sd :: r, i, i', b, h => by
    rw [Index.build] at h
    split at h
    · cases h
    · rename_i i1 h1
      simp only [Except.ok.injEq, Prod.mk.injEq] at h
      rw [← h.1]; exact add_shape h1
    · rename_i i1 h1
      obtain ⟨a1, a2⟩ := add_shape h1
      obtain ⟨b1, b2⟩ := build_shape h
      exact ⟨b1.trans a1, b2.trans a2⟩

theorem build_coherent : ∀ {list : List SDoc} {S : SDoc → Prop} {i i' : Index},
    IndexCoherent sch S i → i.build sch list = .ok (i', true) →
    IndexCoherent sch (fun x => S x ∨ x ∈ list) i'
  | [], S, i, i', hc, h => by
    simp only [Index.build, Except.ok.injEq, Prod.mk.injEq, and_true] at h; subst h
    exact hc.congr (fun x => by simp)
  | sd :: r, S, i, i', hc, h => by
    rw [Index.build] at h
    split at h
    · cases h
    · simp at h
    · rename_i i1 h1
      exact (build_coherent (hc.add h1) h).congr (fun x => by simp only [List.mem_cons, or_assoc])

theorem build_unique : ∀ {list : List SDoc} {S : SDoc → Prop} {i i' : Index},
    IndexCoherent sch S i → IdInj S → (∀ nd ∈ list, ∀ x, S x → x.id ≠ nd.id) →
    (list.map (·.id)).Nodup → IndexUnique sch (fun x => S x ∧ DocOk x.doc) i →
    i.build sch list = .ok (i', true) →
    IndexUnique sch (fun x => (S x ∨ x ∈ list) ∧ DocOk x.doc) i'
  | [], S, i, i', _, _, _, _, hu, h => by
    simp only [Index.build, Except.ok.injEq, Prod.mk.injEq, and_true] at h; subst h
    exact hu.mono (fun x hx => by simpa using hx) rfl rfl
  | sd :: r, S, i, i', hc, hinj, hfresh, hnd, hu, h => by
    rw [Index.build] at h
    split at h
    · cases h
    · simp at h
    · rename_i i1 h1
      rw [List.map_cons, List.nodup_cons] at hnd
      have := build_unique (hc.add h1) (hinj.insert (hfresh sd (by simp)))
        (fun nd hnd' x hx => by
          rcases hx with hx | rfl
          · exact hfresh nd (List.mem_cons_of_mem _ hnd') x hx
          · exact fun e => hnd.1 (List.mem_map.mpr ⟨nd, hnd', e.symm⟩))
        hnd.2 (hu.add hc hinj h1) h
      exact this.mono (fun x hx => by simpa only [List.mem_cons, or_assoc] using hx) rfl rfl

theorem newIndex_spec {config : IndexConfig} {index : Index} (h : newIndex config = .ok index) :
    index.config = config ∧ columns config.key = .ok index.columns ∧ index.entries = [] := by
  unfold newIndex at h
  split at h
  · cases h
  · split at h
    · cases h
    · rename_i cols hc
      split at h
      · cases h
      · split at h
        · cases h
        · simp only [Except.ok.injEq] at h; subst h; exact ⟨rfl, hc, rfl⟩

theorem newIndex_coherent {config : IndexConfig} {index : Index} (h : newIndex config = .ok index) :
    IndexCoherent sch (fun _ => False) index := by
  obtain ⟨h1, h2, h3⟩ := newIndex_spec h
  exact ⟨(by rw [h1]; exact h2), fun _ hx => hx.elim, fun k id hm => (by rw [h3] at hm; cases hm),
    fun _ hx => hx.elim, (by rw [h3]; exact List.Pairwise.nil)⟩

theorem assocSet_fresh {α} {l : List (String × α)} {k : String} {v : α}
    (h : l.any (·.1 == k) = false) : assocSet l k v = l ++ [(k, v)] := by
  unfold assocSet; rw [h]; rfl

/-- the successful outcomes of `Coll.createIndex` -/
theorem createIndex_spec {c c' : Coll} {name name' : String} {config : IndexConfig}
    (h : c.createIndex sch name config = .ok (c', name')) :
    (if name = "" then config.name = .ok name' else name' = name) ∧
    ((c' = c ∧ ∃ i, c.indexes.lookup name' = some i ∧ config.equal i.config = true) ∨
     (∃ index index', newIndex config = .ok index ∧ index.build sch c.docs = .ok (index', true) ∧
        c' = { c with indexes := c.indexes ++ [(name', index')] } ∧
        c.indexes.any (·.1 == name') = false ∧
        c.indexes.any (fun p => V.cmp (.doc config.key) (.doc p.2.config.key) == .eq) = false)) := by
  unfold Coll.createIndex at h
  simp only at h
  split at h
  · cases h
  · rename_i nm hnm
    have hname : (if name = "" then config.name = .ok nm else nm = name) := by
      split at hnm
      · rename_i hn; simp only [beq_iff_eq] at hn; simp only [hn, ↓reduceIte]; exact hnm
      · rename_i hn; simp only [beq_iff_eq] at hn; simp only [hn, ↓reduceIte]
        simp only [Except.ok.injEq] at hnm; exact hnm.symm
    have hrest : (if (c.indexes.any fun x => (V.doc config.key).cmp (V.doc x.snd.config.key) == Ordering.eq) = true then
          (Except.error Err.err : Res (Coll × String))
        else
          if (c.indexes.any fun x => x.fst == nm) = true then Except.error Err.err
          else
            match newIndex config with
            | Except.error e => Except.error e
            | Except.ok index =>
              match Index.build sch index c.docs with
              | Except.error e => Except.error e
              | Except.ok (_, false) => Except.error Err.dup
              | Except.ok (index', true) => Except.ok ({ docs := c.docs, indexes := assocSet c.indexes nm index' }, nm)) =
          Except.ok (c', name') ∨ (c' = c ∧ name' = nm ∧ ∃ i, c.indexes.lookup nm = some i ∧ config.equal i.config = true) := by
      cases hl : c.indexes.lookup nm with
      | none =>
        simp only [hl, Bool.false_eq_true, ↓reduceIte] at h
        exact .inl h
      | some i =>
        simp only [hl] at h
        split at h
        · rename_i he
          simp only [Except.ok.injEq, Prod.mk.injEq] at h
          exact .inr ⟨h.1.symm, h.2.symm, i, rfl, he⟩
        · exact .inl h
    clear h
    rcases hrest with h | ⟨rfl, rfl, hi⟩
    rotate_left
    · exact ⟨hname, .inl ⟨rfl, hi⟩⟩
    · 
      split at h
      · cases h
      · rename_i hkey
        split at h
        · cases h
        · rename_i hnone
          split at h
          · cases h
          · rename_i index hidx
            split at h
            · cases h
            · cases h
            · rename_i index' hb
              simp only [Except.ok.injEq, Prod.mk.injEq] at h
              obtain ⟨rfl, rfl⟩ := h
              have hnone' : c.indexes.any (·.1 == nm) = false := Bool.eq_false_iff.mpr hnone
              refine ⟨hname, .inr ⟨index, index', hidx, hb, ?_, hnone', ?_⟩⟩
              · rw [assocSet_fresh hnone']
              · simpa using hkey

theorem Coherent.createIndex {c c' : Coll} {name name' : String} {config : IndexConfig}
    (hc : Coherent sch c) (h : c.createIndex sch name config = .ok (c', name')) :
    Coherent sch c' ∧ c'.docs = c.docs := by
  rcases (createIndex_spec h).2 with ⟨rfl, _⟩ | ⟨index, index', hn, hb, rfl, _, _⟩
  · exact ⟨hc, rfl⟩
  · refine ⟨⟨hc.1, ?_⟩, rfl⟩
    intro n i hm
    rcases List.mem_append.mp hm with hm | hm
    · exact hc.2 n i hm
    · simp only [List.mem_singleton, Prod.mk.injEq] at hm
      obtain ⟨_, rfl⟩ := hm
      exact (build_coherent (newIndex_coherent hn) hb).congr (fun x => by simp)

theorem UniqueOk.createIndex {c c' : Coll} {name name' : String} {config : IndexConfig}
    (hc : Coherent sch c) (hu : UniqueOk sch c)
    (h : c.createIndex sch name config = .ok (c', name')) : UniqueOk sch c' := by
  rcases (createIndex_spec h).2 with ⟨rfl, _⟩ | ⟨index, index', hn, hb, rfl, _, _⟩
  · exact hu
  · intro n i hm
    rcases List.mem_append.mp hm with hm | hm
    · exact hu n i hm
    · simp only [List.mem_singleton, Prod.mk.injEq] at hm
      obtain ⟨_, rfl⟩ := hm
      have u0 : IndexUnique sch (fun x => False ∧ DocOk x.doc) index := fun _ _ _ hx => hx.1.elim
      exact (build_unique (newIndex_coherent hn) (fun _ _ hx => hx.elim) (fun _ _ _ hx => hx.elim)
        hc.1 u0 hb).mono (fun x hx => ⟨.inr hx.1, hx.2⟩) rfl rfl

theorem Unique.createIndex {c c' : Coll} {name name' : String} {config : IndexConfig}
    (hc : Coherent sch c) (hu : Unique sch c) (hok : DocsOk c.docs)
    (h : c.createIndex sch name config = .ok (c', name')) : Unique sch c' :=
  (UniqueOk.createIndex hc (.of_unique hu) h).unique
    (by rw [(Coherent.createIndex hc h).2]; exact hok)

/-- the successful outcomes of `Coll.dropIndex`: a sub-list of the indexes that keeps `_id_` -/
theorem dropIndex_spec {c c' : Coll} {name : String} {dropped : List String}
    (h : c.dropIndex name = .ok (c', dropped)) :
    c'.docs = c.docs ∧ name ≠ "_id_" ∧ ∃ p : String × Index → Bool, c'.indexes = c.indexes.filter p ∧
      (∀ e, e.1 = "_id_" → p e = true) ∧
      (name ≠ "" → p = (fun e => e.1 != name) ∧ c.indexes.any (·.1 == name) = true ∧ dropped = [name]) ∧
      (name = "" → p = (fun e => e.1 == "_id_")) := by
  unfold Coll.dropIndex at h
  split at h
  · rename_i hne
    have hne' : name ≠ "" := by simpa using hne
    split at h
    · cases h
    · rename_i hid
      have hid' : name ≠ "_id_" := by simpa using hid
      split at h
      · cases h
      · rename_i hex
        simp only [Except.ok.injEq, Prod.mk.injEq] at h
        obtain ⟨rfl, rfl⟩ := h
        refine ⟨rfl, hid', (fun e => e.1 != name), rfl, ?_, ?_, ?_⟩
        · intro e he; simp only [he, bne_iff_ne, ne_eq]; exact fun e' => hid' e'.symm
        · intro _; exact ⟨rfl, by simpa using hex, rfl⟩
        · intro e; exact absurd e hne'
  · rename_i hne
    have hne' : name = "" := by simpa using hne
    simp only [Except.ok.injEq, Prod.mk.injEq] at h
    obtain ⟨rfl, rfl⟩ := h
    refine ⟨rfl, by rw [hne']; decide, (fun e => e.1 == "_id_"), rfl, ?_, ?_, ?_⟩
    · intro e he; simp [he]
    · intro e; exact absurd hne' e
    · intro _; rfl

theorem Coherent.dropIndex {c c' : Coll} {name : String} {dropped : List String}
    (hc : Coherent sch c) (h : c.dropIndex name = .ok (c', dropped)) :
    Coherent sch c' ∧ c'.docs = c.docs := by
  obtain ⟨hd, _, p, hi, _⟩ := dropIndex_spec h
  refine ⟨⟨by rw [hd]; exact hc.1, ?_⟩, hd⟩
  intro n i hm
  rw [hi] at hm
  rw [hd]
  exact hc.2 n i (List.mem_filter.mp hm).1

theorem Unique.dropIndex {c c' : Coll} {name : String} {dropped : List String}
    (hu : Unique sch c) (h : c.dropIndex name = .ok (c', dropped)) : Unique sch c' := by
  obtain ⟨hd, _, p, hi, _⟩ := dropIndex_spec h
  intro n i hm
  rw [hi] at hm
  rw [hd]
  exact hu n i (List.mem_filter.mp hm).1

theorem UniqueOk.dropIndex {c c' : Coll} {name : String} {dropped : List String}
    (hu : UniqueOk sch c) (h : c.dropIndex name = .ok (c', dropped)) : UniqueOk sch c' := by
  obtain ⟨hd, _, p, hi, _⟩ := dropIndex_spec h
  intro n i hm
  rw [hi] at hm
  rw [hd]
  exact hu n i (List.mem_filter.mp hm).1

/-! ### Index names and definitions are untouched by document writes -/

theorem idIndexPresent_iff {c : Coll} : IdIndexPresent c ↔ ("_id_", idIndexConfig) ∈ shape c.indexes := by
  unfold IdIndexPresent shape
  rw [List.mem_map]
  constructor
  · rintro ⟨i, hm, hc⟩; exact ⟨("_id_", i), hm, by rw [hc]⟩
  · rintro ⟨⟨n, i⟩, hm, he⟩
    simp only [Prod.mk.injEq] at he
    obtain ⟨rfl, hc⟩ := he
    exact ⟨i, hm, hc⟩

theorem insert_shape {c c' : Coll} {d : Doc} {nu nu' : Nu} {sd : SDoc}
    (h : c.insert sch d nu = .ok (c', sd, nu')) : shape c'.indexes = shape c.indexes := by
  obtain ⟨_, _, _, _, _, idx', ha, rfl⟩ := insert_spec h
  exact addToIndexes_shape ha

theorem upsert_shape {ac : ACtx} {c c' : Coll} {q : Doc} {repl update : Option Doc} {filters : List Doc}
    {nu nu' : Nu} {sd : SDoc} (h : c.upsert ac q repl update filters nu = .ok (c', sd, nu')) :
    shape c'.indexes = shape c.indexes := by
  obtain ⟨doc, h⟩ := upsert_spec h
  exact insert_shape h

theorem delete_shape {c c' : Coll} {q : Doc} {sort : Option Doc} {skip limit : Int} {list : List SDoc}
    (h : c.delete sch q sort skip limit = .ok (c', list)) : shape c'.indexes = shape c.indexes := by
  obtain ⟨_, idx', hf, rfl⟩ := delete_spec h
  exact foldIdx_remove_shape hf

theorem replace_shape {c : Coll} {q repl : Doc} {sort : Option Doc} {nu nu' : Nu} {res : CResult}
    (h : c.replace sch q repl sort nu = .ok (res, nu')) : shape res.coll.indexes = shape c.indexes := by
  rcases replace_spec h with ⟨h1, _⟩ | ⟨old, repl', idx', _, _, hupd, hcoll, _⟩
  · rw [h1]
  · rw [hcoll]; exact replace_upd_shape hupd

theorem update_shape {ac : ACtx} {c : Coll} {q u : Doc} {sort : Option Doc} {skip limit : Int}
    {filters : List Doc} {nu nu' : Nu} {res : CResult}
    (h : c.update ac q u sort skip limit filters nu = .ok (res, nu')) :
    shape res.coll.indexes = shape c.indexes := by
  rcases update_spec h with ⟨h1, _⟩ | ⟨list, news, idx1, idx2, _, _, hrem, hadd, hcoll, _⟩
  · rw [h1]
  · rw [hcoll]
    exact (foldIdx_add_shape hadd).trans (foldIdx_remove_shape hrem)

theorem createIndex_keeps {c c' : Coll} {name name' : String} {config : IndexConfig}
    (h : c.createIndex sch name config = .ok (c', name')) :
    ∀ e ∈ c.indexes, e ∈ c'.indexes := by
  rcases (createIndex_spec h).2 with ⟨rfl, _⟩ | ⟨_, _, _, _, rfl, _, _⟩
  · exact fun e he => he
  · exact fun e he => List.mem_append_left _ he

theorem dropIndex_keeps_id {c c' : Coll} {name : String} {dropped : List String}
    (h : c.dropIndex name = .ok (c', dropped)) :
    ∀ i, ("_id_", i) ∈ c.indexes → ("_id_", i) ∈ c'.indexes := by
  obtain ⟨_, _, p, hi, hp, _⟩ := dropIndex_spec h
  intro i hm
  rw [hi]
  exact List.mem_filter.mpr ⟨hm, hp _ rfl⟩

/-! ### index names stay pairwise distinct -/

theorem names_of_shape {idx idx' : List (String × Index)} (h : shape idx' = shape idx) :
    idx'.map (·.1) = idx.map (·.1) := by
  have := congrArg (List.map Prod.fst) h
  simpa [shape, List.map_map, Function.comp_def] using this

theorem NamesDistinct.of_shape {c c' : Coll} (h : NamesDistinct c)
    (hs : shape c'.indexes = shape c.indexes) : NamesDistinct c' := by
  unfold NamesDistinct at *; rw [names_of_shape hs]; exact h

theorem NamesDistinct.new (b : Bool) : NamesDistinct (newColl b) := by
  unfold NamesDistinct newColl; cases b <;> simp

theorem NamesDistinct.createIndex {c c' : Coll} {name name' : String} {config : IndexConfig}
    (hn : NamesDistinct c) (h : c.createIndex sch name config = .ok (c', name')) :
    NamesDistinct c' := by
  rcases (createIndex_spec h).2 with ⟨rfl, _⟩ | ⟨_, _, _, _, rfl, hnone, _⟩
  · exact hn
  · unfold NamesDistinct at *
    rw [List.map_append, List.nodup_append]
    refine ⟨hn, by simp, ?_⟩
    intro a ha b hb
    simp only [List.map_cons, List.map_nil, List.mem_singleton] at hb
    subst hb
    obtain ⟨p, hp, rfl⟩ := List.mem_map.mp ha
    intro e
    have : c.indexes.any (fun x => x.1 == p.1) = true := List.any_eq_true.mpr ⟨p, hp, by simp⟩
    rw [e, hnone] at this; cases this

theorem NamesDistinct.dropIndex {c c' : Coll} {name : String} {dropped : List String}
    (hn : NamesDistinct c) (h : c.dropIndex name = .ok (c', dropped)) : NamesDistinct c' := by
  obtain ⟨_, _, p, hi, _⟩ := dropIndex_spec h
  unfold NamesDistinct at *
  rw [hi]
  exact (List.filter_sublist.map _).nodup hn

/-- with distinct names, `lookup` is membership -/
theorem lookup_of_mem : ∀ {idx : List (String × Index)} {n : String} {i : Index},
    (idx.map (·.1)).Nodup → (n, i) ∈ idx → idx.lookup n = some i
  | [], _, _, _, hm => by cases hm
  | (m, j) :: r, n, i, hnd, hm => by
    rw [List.map_cons, List.nodup_cons] at hnd
    rw [List.lookup_cons]
    rcases List.mem_cons.mp hm with e | hm'
    · simp only [Prod.mk.injEq] at e
      obtain ⟨rfl, rfl⟩ := e
      simp
    · have hne : (n == m) = false := by
        simp only [beq_eq_false_iff_ne, ne_eq]
        rintro rfl
        exact hnd.1 (List.mem_map.mpr ⟨(n, i), hm', rfl⟩)
      rw [hne]
      exact lookup_of_mem hnd.2 hm'

end Lungo
