/-
  Lungo.Proofs.SeqHandles — the namespaces of the catalog have pairwise distinct handles, in every
  reachable state (the Go map `Catalog.Namespaces` is a map). Not part of `Inv` (C15 does not need
  it); C01 needs it for `expire`, which walks the namespaces while `Catalog.set` replaces every entry
  of a handle. Every transition builds its catalog with `Catalog.set`, `appendOplog` and filtering.
-/
import Lungo.Proofs.IndexCat
namespace Lungo.SeqRef
open Lungo

variable {sch : SchemaEval}

/-- the handles of the catalog are pairwise distinct -/
def HD (cat : Catalog) : Prop := (cat.namespaces.map (·.1)).Nodup

theorem HD.set {cat : Catalog} (hd : HD cat) (h : Handle) (c : Coll) : HD (cat.set h c) := by
  unfold Catalog.set HD
  split
  · simp only [List.map_map]
    have : ((fun x : Handle × Coll => x.1) ∘ fun (x : Handle × Coll) =>
        match x with
        | (h', x) => if h' == h then (h', c) else (h', x)) = fun x => x.1 := by
      funext x
      obtain ⟨a, b⟩ := x
      simp only [Function.comp]
      split <;> rfl
    rw [this]
    exact hd
  · rename_i hany
    simp only [List.map_append, List.map_cons, List.map_nil]
    apply List.nodup_append.mpr
    refine ⟨hd, by simp, ?_⟩
    intro a ha b hb e
    simp only [List.mem_singleton] at hb
    subst hb
    subst e
    apply hany
    obtain ⟨x, hx, rfl⟩ := List.mem_map.mp ha
    exact List.any_eq_true.mpr ⟨x, hx, by simp⟩

theorem HD.clock {cat : Catalog} (hd : HD cat) (k : Nat) : HD { cat with clock := k } := hd

theorem HD.appendOplog {cat : Catalog} (hd : HD cat) (nu : Nu) (h : Handle) (op : String) (doc : Option Doc)
    (ch : Option (List (String × V))) : HD (appendOplog cat nu h op doc ch).1 := by
  unfold Lungo.appendOplog
  simp only [Nu.fresh]
  exact (hd.set _ _).clock _

theorem HD.filter {cat : Catalog} (hd : HD cat) (p : Handle × Coll → Bool) :
    HD { cat with namespaces := cat.namespaces.filter p } := by
  unfold HD at hd ⊢
  exact hd.sublist (List.filter_sublist.map _)

theorem HD.fold {α : Type} (F : Catalog × Nu → α → Catalog × Nu)
    (hF : ∀ cn a, ∃ h op doc ch, F cn a = Lungo.appendOplog cn.1 cn.2 h op doc ch)
    (l : List α) (cn : Catalog × Nu) (hd : HD cn.1) : HD (l.foldl F cn).1 :=
  foldl_inv (fun cn => HD cn.1) F (fun b a hb => by
    obtain ⟨h, op, doc, ch, e⟩ := hF b a
    rw [e]; exact hb.appendOplog _ _ _ _ _) l cn hd

theorem HD.base {cat : Catalog} (hd : HD cat) (h : Handle) :
    HD (if (cat.get? h).isSome then cat else cat.set h (newColl true)) := by
  split
  · exact hd
  · exact hd.set _ _

/-! ### the transaction's single operations -/

theorem HD.insertOne {cat cat' : Catalog} {h : Handle} {d d' : Doc} {nu nu' : Nu} (hd : HD cat)
    (e : insertOne sch cat h d nu = .ok (cat', d', nu')) : HD cat' := by
  unfold Lungo.insertOne at e
  split at e
  · cases e
  · simp only [Except.ok.injEq, Prod.mk.injEq] at e
    obtain ⟨rfl, _, _⟩ := e
    exact (hd.set _ _).appendOplog _ _ _ _ _

theorem HD.replaceOp {ac : ACtx} {cat cat' : Catalog} {h : Handle} {q repl : Doc} {sort : Option Doc}
    {upsert : Bool} {nu nu' : Nu} {r : TResult} (hd : HD cat)
    (e : replaceOp ac cat h q repl sort upsert nu = .ok (cat', r, nu')) : HD cat' := by
  unfold Lungo.replaceOp at e
  simp only at e
  split at e
  · cases e
  · split at e
    · split at e
      · cases e
      · simp only [Except.ok.injEq, Prod.mk.injEq] at e
        obtain ⟨rfl, _, _⟩ := e
        exact (hd.set _ _).appendOplog _ _ _ _ _
    · simp only [Except.ok.injEq, Prod.mk.injEq] at e
      obtain ⟨rfl, _, _⟩ := e
      split
      · exact (hd.set _ _).appendOplog _ _ _ _ _
      · exact hd.set _ _

theorem HD.updateOp {ac : ACtx} {cat cat' : Catalog} {h : Handle} {q u : Doc} {sort : Option Doc}
    {upsert : Bool} {skip limit : Int} {filters : List Doc} {nu nu' : Nu} {r : TResult} (hd : HD cat)
    (e : updateOp ac cat h q u sort upsert skip limit filters nu = .ok (cat', r, nu')) : HD cat' := by
  unfold Lungo.updateOp at e
  simp only at e
  split at e
  · cases e
  · split at e
    · split at e
      · cases e
      · simp only [Except.ok.injEq, Prod.mk.injEq] at e
        obtain ⟨rfl, _, _⟩ := e
        exact (hd.set _ _).appendOplog _ _ _ _ _
    · simp only [Except.ok.injEq, Prod.mk.injEq] at e
      obtain ⟨rfl, _, _⟩ := e
      refine HD.fold _ ?_ _ _ (hd.set _ _)
      rintro cn ⟨m, ch⟩
      exact ⟨h, "update", some m.doc, some ch, rfl⟩

theorem HD.deleteOp {cat cat' : Catalog} {h : Handle} {q : Doc} {sort : Option Doc}
    {skip limit : Int} {nu nu' : Nu} {r : TResult} (hd : HD cat)
    (e : deleteOp sch cat h q sort skip limit nu = .ok (cat', r, nu')) : HD cat' := by
  unfold Lungo.deleteOp at e
  simp only at e
  split at e
  · cases e
  · simp only [Except.ok.injEq, Prod.mk.injEq] at e
    obtain ⟨rfl, _, _⟩ := e
    exact HD.fold (fun (cn : Catalog × Nu) (sd : SDoc) => Lungo.appendOplog cn.1 cn.2 h "delete" (some sd.doc) none)
      (fun cn a => ⟨h, "delete", some a.doc, none, rfl⟩) _ _ (hd.set _ _)

/-! ### the transaction methods -/

theorem HD.ite_left {c : Prop} [Decidable c] {t : Txn} {cat : Catalog} (h1 : HD t.catalog) (h2 : HD cat) :
    HD (if c then t else { catalog := cat, dirty := true }).catalog := by
  split
  · exact h1
  · exact h2

theorem HD.ite_right {c : Prop} [Decidable c] {t : Txn} {cat : Catalog} (h1 : HD t.catalog) (h2 : HD cat) :
    HD (if c then { catalog := cat, dirty := true } else t).catalog := by
  split
  · exact h2
  · exact h1

theorem HD.insert_go {h : Handle} {ordered : Bool} :
    ∀ (list : List Doc) (cat : Catalog) (nu : Nu) (acc : List Doc) (err : Option Err), HD cat →
      HD (Txn.insert.go sch h ordered cat nu acc err list).1
  | [], cat, nu, acc, err, hd => by simpa [Txn.insert.go] using hd
  | d :: r, cat, nu, acc, err, hd => by
    rw [Txn.insert.go]
    split
    · dsimp only
      split
      · exact hd
      · exact HD.insert_go r cat nu acc _ hd
    · rename_i cat' d' nu' hi
      exact HD.insert_go r cat' nu' _ err (hd.insertOne hi)

theorem HD.txn_insert {t t' : Txn} {h : Handle} {list : List Doc} {ordered : Bool} {nu nu' : Nu}
    {r : TResult} (hd : HD t.catalog) (e : t.insert sch h list ordered nu = .ok (t', r, nu')) :
    HD t'.catalog := by
  unfold Txn.insert at e
  split at e
  · cases e
  · have := HD.insert_go (sch := sch) (h := h) (ordered := ordered) list _ nu [] none (hd.base h)
    simp only [Except.ok.injEq, Prod.mk.injEq] at e
    obtain ⟨rfl, _, _⟩ := e
    exact HD.ite_left hd this

theorem HD.bulk_go {ac : ACtx} {h : Handle} {ordered : Bool} :
    ∀ (ops : List Operation) (cat : Catalog) (nu : Nu) (acc : List TResult) (ch : Nat), HD cat →
      HD (Txn.bulk.go ac h ordered cat nu acc ch ops).1
  | [], cat, nu, acc, ch, hd => by simpa [Txn.bulk.go] using hd
  | op :: r, cat, nu, acc, ch, hd => by
    rw [Txn.bulk.go]
    simp only
    split
    · split
      · exact hd
      · exact HD.bulk_go r cat nu _ ch hd
    · rename_i cat' tr nu' hres
      refine HD.bulk_go r cat' nu' _ _ ?_
      split at hres
      · split at hres
        · cases hres
        · rename_i c d n hi
          simp only [Except.ok.injEq, Prod.mk.injEq] at hres
          obtain ⟨rfl, _, _⟩ := hres
          exact hd.insertOne hi
      · exact hd.replaceOp hres
      · exact hd.updateOp hres
      · exact hd.deleteOp hres

theorem HD.txn_bulk {ac : ACtx} {t t' : Txn} {h : Handle} {ops : List Operation} {ordered : Bool}
    {nu nu' : Nu} {rs : List TResult} (hd : HD t.catalog)
    (e : t.bulk ac h ops ordered nu = .ok (t', rs, nu')) : HD t'.catalog := by
  unfold Txn.bulk at e
  split at e
  · cases e
  · have := HD.bulk_go (ac := ac) (h := h) (ordered := ordered) ops _ nu [] 0 (hd.base h)
    simp only [Except.ok.injEq, Prod.mk.injEq] at e
    obtain ⟨rfl, _, _⟩ := e
    exact HD.ite_right hd this

theorem HD.txn_replace {ac : ACtx} {t t' : Txn} {h : Handle} {q repl : Doc} {sort : Option Doc}
    {upsert : Bool} {nu nu' : Nu} {r : TResult} (hd : HD t.catalog)
    (e : t.replace ac h q sort repl upsert nu = .ok (t', r, nu')) : HD t'.catalog := by
  unfold Txn.replace at e
  split at e
  · cases e
  · split at e
    · simp only [Except.ok.injEq, Prod.mk.injEq] at e
      obtain ⟨rfl, _, _⟩ := e
      exact hd
    · split at e
      · cases e
      · rename_i cat res nu1 hop
        have := hd.replaceOp hop
        split at e
        · simp only [Except.ok.injEq, Prod.mk.injEq] at e
          obtain ⟨rfl, _, _⟩ := e
          exact this
        · simp only [Except.ok.injEq, Prod.mk.injEq] at e
          obtain ⟨rfl, _, _⟩ := e
          exact hd

theorem HD.txn_update {ac : ACtx} {t t' : Txn} {h : Handle} {q u : Doc} {sort : Option Doc}
    {skip limit : Int} {upsert : Bool} {filters : List Doc} {nu nu' : Nu} {r : TResult} (hd : HD t.catalog)
    (e : t.update ac h q sort u skip limit upsert filters nu = .ok (t', r, nu')) : HD t'.catalog := by
  unfold Txn.update at e
  split at e
  · cases e
  · split at e
    · simp only [Except.ok.injEq, Prod.mk.injEq] at e
      obtain ⟨rfl, _, _⟩ := e
      exact hd
    · split at e
      · cases e
      · rename_i cat res nu1 hop
        have := hd.updateOp hop
        split at e
        · simp only [Except.ok.injEq, Prod.mk.injEq] at e
          obtain ⟨rfl, _, _⟩ := e
          exact this
        · simp only [Except.ok.injEq, Prod.mk.injEq] at e
          obtain ⟨rfl, _, _⟩ := e
          exact hd

theorem HD.txn_delete {t t' : Txn} {h : Handle} {q : Doc} {sort : Option Doc}
    {skip limit : Int} {nu nu' : Nu} {r : TResult} (hd : HD t.catalog)
    (e : t.delete sch h q sort skip limit nu = .ok (t', r, nu')) : HD t'.catalog := by
  unfold Txn.delete at e
  split at e
  · cases e
  · split at e
    · simp only [Except.ok.injEq, Prod.mk.injEq] at e
      obtain ⟨rfl, _, _⟩ := e
      exact hd
    · split at e
      · cases e
      · rename_i cat res nu1 hop
        have := hd.deleteOp hop
        split at e
        · simp only [Except.ok.injEq, Prod.mk.injEq] at e
          obtain ⟨rfl, _, _⟩ := e
          exact this
        · simp only [Except.ok.injEq, Prod.mk.injEq] at e
          obtain ⟨rfl, _, _⟩ := e
          exact hd

theorem HD.txn_create {t t' : Txn} {h : Handle} (hd : HD t.catalog) (e : t.create h = .ok t') :
    HD t'.catalog := by
  unfold Txn.create at e
  split at e
  · cases e
  · split at e
    · simp only [Except.ok.injEq] at e; subst e; exact hd
    · simp only [Except.ok.injEq] at e; subst e; exact hd.set _ _

theorem HD.txn_createIndex {t t' : Txn} {h : Handle} {name name' : String} {config : IndexConfig}
    (hd : HD t.catalog) (e : t.createIndex sch h name config = .ok (t', name')) : HD t'.catalog := by
  unfold Txn.createIndex at e
  split at e
  · cases e
  · split at e
    · cases e
    · simp only [Except.ok.injEq, Prod.mk.injEq] at e
      obtain ⟨rfl, _⟩ := e
      exact hd.set _ _

theorem HD.txn_dropIndex {t t' : Txn} {h : Handle} {name : String} (hd : HD t.catalog)
    (e : t.dropIndex h name = .ok t') : HD t'.catalog := by
  unfold Txn.dropIndex at e
  split at e
  · cases e
  · split at e
    · cases e
    · split at e
      · cases e
      · split at e
        · simp only [Except.ok.injEq] at e; subst e; exact hd
        · simp only [Except.ok.injEq] at e; subst e; exact hd.set _ _

theorem HD.txn_dropIndexByKey {t t' : Txn} {h : Handle} {key : Doc} (hd : HD t.catalog)
    (e : t.dropIndexByKey h key = .ok t') : HD t'.catalog := by
  unfold Txn.dropIndexByKey at e
  split at e
  · cases e
  · split at e
    · cases e
    · split at e
      · cases e
      · exact hd.txn_dropIndex e

theorem HD.txn_drop {t t' : Txn} {h : Handle} {nu nu' : Nu} (hd : HD t.catalog)
    (e : t.drop h nu = .ok (t', nu')) : HD t'.catalog := by
  unfold Txn.drop at e
  split at e
  · cases e
  · simp only at e
    split at e
    · simp only [Except.ok.injEq, Prod.mk.injEq] at e
      obtain ⟨rfl, _⟩ := e
      exact hd
    · simp only [Except.ok.injEq, Prod.mk.injEq] at e
      obtain ⟨rfl, _⟩ := e
      have g1 := HD.fold
        (fun (cn : Catalog × Nu) (ns : Handle) => Lungo.appendOplog cn.1 cn.2 ns "drop" none none)
        (fun cn a => ⟨a, "drop", none, none, rfl⟩)
        ((t.catalog.namespaces.filter fun x => x.1 == h || (h.coll == "" && x.1.db == h.db)).map (·.1))
        ({ t.catalog with namespaces := t.catalog.namespaces.filter fun x =>
            !(x.1 == h || (h.coll == "" && x.1.db == h.db)) }, nu) (hd.filter _)
      split
      · exact g1.appendOplog _ _ _ _ _
      · exact g1

theorem HD.expire_go {nowMs : Int} :
    ∀ (l : List (Handle × Coll)) (cat : Catalog) (nu : Nu) (deleted : Nat) {cat' : Catalog} {nu' : Nu} {d' : Nat},
    HD cat → Txn.expire.go sch nowMs cat nu deleted l = .ok (cat', nu', d') → HD cat'
  | [], cat, nu, deleted, cat', nu', d', hd, e => by
    simp only [Txn.expire.go, Except.ok.injEq, Prod.mk.injEq] at e
    obtain ⟨rfl, _, _⟩ := e
    exact hd
  | (h, c) :: r, cat, nu, deleted, cat', nu', d', hd, e => by
    rw [Txn.expire.go] at e
    simp only at e
    split at e
    · exact HD.expire_go r cat nu deleted hd e
    · split at e
      · cases e
      · rename_i cat1 res nu1 hdel
        exact HD.expire_go r cat1 nu1 _ (hd.deleteOp hdel) e

theorem HD.txn_expire {t t' : Txn} {nowMs : Int} {nu nu' : Nu} {k : Nat} (hd : HD t.catalog)
    (e : t.expire sch nowMs nu = .ok (t', k, nu')) : HD t'.catalog := by
  unfold Txn.expire at e
  split at e
  · cases e
  · rename_i cat nu1 deleted hgo
    have := HD.expire_go (sch := sch) t.catalog.namespaces t.catalog nu 0 hd hgo
    split at e
    · simp only [Except.ok.injEq, Prod.mk.injEq] at e
      obtain ⟨rfl, _, _⟩ := e
      exact this
    · simp only [Except.ok.injEq, Prod.mk.injEq] at e
      obtain ⟨rfl, _, _⟩ := e
      exact hd

/-! ### the driver calls -/

theorem HD.runCall {t t' : Txn} {nu nu' : Nu} {c : Call} {r : Reply} (hd : HD t.catalog)
    (e : runCall sch t nu c = .ok (t', nu', r)) : HD t'.catalog := by
  unfold Lungo.runCall at e
  cases c with
  | insertOne h doc =>
    simp only at e
    split at e
    · cases e
    · rename_i t r nu he
      split at e
      · cases e
      · split at e
        · simp only [Except.ok.injEq, Prod.mk.injEq] at e
          obtain ⟨rfl, _, _⟩ := e
          exact hd.txn_insert he
        · cases e
  | insertMany h docs ordered =>
    simp only at e
    split at e
    · cases e
    · rename_i t r nu he
      simp only [Except.ok.injEq, Prod.mk.injEq] at e
      obtain ⟨rfl, _, _⟩ := e
      exact hd.txn_insert he
  | find h q o =>
    simp only at e
    split at e
    · cases e
    · split at e
      · cases e
      · simp only [Except.ok.injEq, Prod.mk.injEq] at e
        obtain ⟨rfl, _, _⟩ := e
        exact hd
  | findOne h q o =>
    simp only at e
    split at e
    · cases e
    · simp only [Except.ok.injEq, Prod.mk.injEq] at e
      obtain ⟨rfl, _, _⟩ := e
      exact hd
    · split at e
      · cases e
      · simp only [Except.ok.injEq, Prod.mk.injEq] at e
        obtain ⟨rfl, _, _⟩ := e
        exact hd
  | count h q skip limit =>
    simp only at e
    split at e
    · cases e
    · simp only [Except.ok.injEq, Prod.mk.injEq] at e
      obtain ⟨rfl, _, _⟩ := e
      exact hd
  | estCount h =>
    simp only at e
    split at e
    · cases e
    · simp only [Except.ok.injEq, Prod.mk.injEq] at e
      obtain ⟨rfl, _, _⟩ := e
      exact hd
  | distinct h field q =>
    simp only at e
    split at e
    · cases e
    · simp only [Except.ok.injEq, Prod.mk.injEq] at e
      obtain ⟨rfl, _, _⟩ := e
      exact hd
  | updateOne h q u upsert fs =>
    simp only at e
    split at e
    · cases e
    · rename_i t r nu he
      simp only [Except.ok.injEq, Prod.mk.injEq] at e
      obtain ⟨rfl, _, _⟩ := e
      exact hd.txn_update he
  | updateMany h q u upsert fs =>
    simp only at e
    split at e
    · cases e
    · rename_i t r nu he
      simp only [Except.ok.injEq, Prod.mk.injEq] at e
      obtain ⟨rfl, _, _⟩ := e
      exact hd.txn_update he
  | replaceOne h q repl upsert =>
    simp only at e
    split at e
    · cases e
    · split at e
      · cases e
      · rename_i t r nu he
        simp only [Except.ok.injEq, Prod.mk.injEq] at e
        obtain ⟨rfl, _, _⟩ := e
        exact hd.txn_replace he
  | deleteOne h q =>
    simp only at e
    split at e
    · cases e
    · rename_i t r nu he
      simp only [Except.ok.injEq, Prod.mk.injEq] at e
      obtain ⟨rfl, _, _⟩ := e
      exact hd.txn_delete he
  | deleteMany h q =>
    simp only at e
    split at e
    · cases e
    · rename_i t r nu he
      simp only [Except.ok.injEq, Prod.mk.injEq] at e
      obtain ⟨rfl, _, _⟩ := e
      exact hd.txn_delete he
  | findOneAndDelete h q sort proj =>
    simp only at e
    split at e
    · cases e
    · rename_i t r nu he
      split at e
      · cases e
      · simp only [Except.ok.injEq, Prod.mk.injEq] at e
        obtain ⟨rfl, _, _⟩ := e
        exact hd.txn_delete he
  | findOneAndReplace h q repl sort proj upsert after =>
    simp only at e
    split at e
    · cases e
    · split at e
      · cases e
      · rename_i t r nu he
        split at e
        · cases e
        · simp only [Except.ok.injEq, Prod.mk.injEq] at e
          obtain ⟨rfl, _, _⟩ := e
          exact hd.txn_replace he
  | findOneAndUpdate h q u sort proj upsert after fs =>
    simp only at e
    split at e
    · cases e
    · rename_i t r nu he
      split at e
      · cases e
      · simp only [Except.ok.injEq, Prod.mk.injEq] at e
        obtain ⟨rfl, _, _⟩ := e
        exact hd.txn_update he
  | bulkWrite h models ordered =>
    simp only at e
    split at e
    · cases e
    · split at e
      · cases e
      · rename_i t results nu he
        simp only [Except.ok.injEq, Prod.mk.injEq] at e
        obtain ⟨rfl, _, _⟩ := e
        exact hd.txn_bulk he
  | createIndex h name config =>
    simp only at e
    split at e
    · cases e
    · rename_i t nm he
      simp only [Except.ok.injEq, Prod.mk.injEq] at e
      obtain ⟨rfl, _, _⟩ := e
      exact hd.txn_createIndex he
  | dropIndex h name =>
    simp only at e
    split at e
    · cases e
    · rename_i t he
      simp only [Except.ok.injEq, Prod.mk.injEq] at e
      obtain ⟨rfl, _, _⟩ := e
      exact hd.txn_dropIndex he
  | dropAllIndexes h =>
    simp only at e
    split at e
    · cases e
    · rename_i t he
      simp only [Except.ok.injEq, Prod.mk.injEq] at e
      obtain ⟨rfl, _, _⟩ := e
      exact hd.txn_dropIndex he
  | dropIndexByKey h key =>
    simp only at e
    split at e
    · cases e
    · rename_i t he
      simp only [Except.ok.injEq, Prod.mk.injEq] at e
      obtain ⟨rfl, _, _⟩ := e
      exact hd.txn_dropIndexByKey he
  | listIndexes h =>
    simp only at e
    split at e
    · cases e
    · simp only [Except.ok.injEq, Prod.mk.injEq] at e
      obtain ⟨rfl, _, _⟩ := e
      exact hd
  | createCollection h =>
    simp only at e
    split at e
    · cases e
    · rename_i t he
      simp only [Except.ok.injEq, Prod.mk.injEq] at e
      obtain ⟨rfl, _, _⟩ := e
      exact hd.txn_create he
  | dropCollection h =>
    simp only at e
    split at e
    · cases e
    · split at e
      · cases e
      · rename_i t nu he
        simp only [Except.ok.injEq, Prod.mk.injEq] at e
        obtain ⟨rfl, _, _⟩ := e
        exact hd.txn_drop he
  | dropDatabase db =>
    simp only at e
    split at e
    · cases e
    · rename_i t nu he
      simp only [Except.ok.injEq, Prod.mk.injEq] at e
      obtain ⟨rfl, _, _⟩ := e
      exact hd.txn_drop he
  | listCollections db q =>
    simp only at e
    split at e
    · cases e
    · split at e
      · cases e
      · simp only [Except.ok.injEq, Prod.mk.injEq] at e
        obtain ⟨rfl, _, _⟩ := e
        exact hd
  | listDatabases q =>
    simp only at e
    split at e
    · cases e
    · simp only [Except.ok.injEq, Prod.mk.injEq] at e
      obtain ⟨rfl, _, _⟩ := e
      exact hd
  | expire nowMs =>
    simp only at e
    split at e
    · cases e
    · rename_i t n nu he
      simp only [Except.ok.injEq, Prod.mk.injEq] at e
      obtain ⟨rfl, _, _⟩ := e
      exact hd.txn_expire he

theorem HD.step {s s' : Sys} {c : Call} {oids : List V} {r : Reply} (hd : HD s.catalog)
    (e : Sys.step sch s c oids = .ok (s', r)) : HD s'.catalog := by
  unfold Sys.step at e
  split at e
  · cases e
  · rename_i t nu rep hr
    simp only [Except.ok.injEq, Prod.mk.injEq] at e
    obtain ⟨rfl, _⟩ := e
    have := HD.runCall (t := { catalog := s.catalog }) hd hr
    unfold Sys.commit
    simp only
    split
    · exact this
    · exact hd

theorem HD.init : HD Sys.init.catalog := by
  simp [HD, Sys.init, newCatalog]

/-- in every reachable state the handles of the catalog are pairwise distinct -/
theorem HD.run {s : Sys} (hd : HD s.catalog) (calls : List (Call × List V)) :
    HD (Sys.run sch s calls).catalog := by
  unfold Sys.run
  refine foldl_inv (fun s : Sys => HD s.catalog) _ ?_ calls s hd
  intro b a hb
  split
  · rename_i s' r e
    exact hb.step e
  · exact hb

end Lungo.SeqRef
