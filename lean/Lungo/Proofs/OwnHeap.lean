/-
  Lungo.Proofs.OwnHeap — heap lemmas for the ownership layer: allocation never disturbs an existing
  object, a write disturbs only its target; the `Step` relation ("only writable objects changed, and
  collection objects written keep pointing at fresh parts") and its closure properties.
-/
import Lungo.Model.Own
namespace Lungo.Own

namespace Heap
variable (h : Heap) (x : Obj)

@[simp] theorem size_alloc : (h.alloc x).1.size = h.size + 1 := by simp [alloc, size]
@[simp] theorem alloc_id : (h.alloc x).2 = h.size := rfl
theorem get_alloc_lt {o : ObjId} (ho : o < h.size) : (h.alloc x).1.get o = h.get o := by
  simp only [alloc, get, size] at *; exact List.getElem?_append_left ho
@[simp] theorem get_alloc_new : (h.alloc x).1.get h.size = some x := by
  simp [alloc, get, size]
@[simp] theorem size_write (o : ObjId) : (h.write o x).size = h.size := by simp [write, size]
theorem get_write_ne {o p : ObjId} (hne : p ≠ o) : (h.write o x).get p = h.get p := by
  simp only [write, get]; exact List.getElem?_set_ne (Ne.symm hne)
theorem get_write_eq {o : ObjId} (ho : o < h.size) : (h.write o x).get o = some x := by
  simp only [write, get, size] at *; simp [ho]
theorem get_lt {o : ObjId} {y : Obj} (hg : h.get o = some y) : o < h.size := by
  simp only [get, size] at *
  exact (List.getElem?_eq_some_iff.mp hg).1
theorem get_none_of_ge {o : ObjId} (ho : h.size ≤ o) : h.get o = none := by
  simp only [get, size] at *; exact List.getElem?_eq_none ho
end Heap

/-! ### allocs -/

theorem Heap.allocs_size (h : Heap) (xs : List Obj) : (h.allocs xs).1.size = h.size + xs.length := by
  induction xs generalizing h with
  | nil => simp [Heap.allocs]
  | cons x xs ih => simp only [Heap.allocs, List.length_cons]; rw [ih]; simp; omega

theorem Heap.allocs_get_lt (h : Heap) (xs : List Obj) {o : ObjId} (ho : o < h.size) :
    (h.allocs xs).1.get o = h.get o := by
  induction xs generalizing h with
  | nil => simp [Heap.allocs]
  | cons x xs ih =>
    simp only [Heap.allocs]
    rw [ih (h.alloc x).1 (by rw [Heap.size_alloc]; omega)]
    exact h.get_alloc_lt x ho

theorem Heap.allocs_ids (h : Heap) (xs : List Obj) :
    ∀ o ∈ (h.allocs xs).2, h.size ≤ o ∧ o < (h.allocs xs).1.size := by
  induction xs generalizing h with
  | nil => simp [Heap.allocs]
  | cons x xs ih =>
    intro o ho
    have hs := Heap.allocs_size (h.alloc x).1 xs
    rw [Heap.size_alloc] at hs
    have e1 : (h.allocs (x :: xs)).1 = ((h.alloc x).1.allocs xs).1 := rfl
    have e2 : (h.allocs (x :: xs)).2 = h.size :: ((h.alloc x).1.allocs xs).2 := rfl
    rw [e1, hs]; rw [e2] at ho
    rcases List.mem_cons.mp ho with rfl | ho
    · omega
    · have := ih (h.alloc x).1 o ho
      rw [Heap.size_alloc, hs] at this; omega

theorem Heap.allocs_length (h : Heap) (xs : List Obj) : (h.allocs xs).2.length = xs.length := by
  induction xs generalizing h with
  | nil => simp [Heap.allocs]
  | cons x xs ih => simp [Heap.allocs, ih]

/-! ### Step -/

/-- the analysis context of one call: `base` = heap size at call start; `ex` = the caller's documents;
    with `strict` nothing below `base` may be written, otherwise the caller's documents may -/
structure Ctx where
  base : Nat
  strict : Bool
  ex : List ObjId

def Writable (cx : Ctx) (o : ObjId) : Prop := cx.base ≤ o ∨ (cx.strict = false ∧ o ∈ cx.ex)

/-- a collection object points at parts allocated in this call -/
def FreshObj (base : Nat) (x : Obj) : Prop :=
  ∀ s idxs, x = .coll s idxs → base ≤ s ∧ ∀ p ∈ idxs, base ≤ p.2

theorem FreshObj.cat {b ns} : FreshObj b (.cat ns) := by intro s i h; cases h
theorem FreshObj.set {b l} : FreshObj b (.set l) := by intro s i h; cases h
theorem FreshObj.idx {b l} : FreshObj b (.idx l) := by intro s i h; cases h
theorem FreshObj.doc {b v} : FreshObj b (.doc v) := by intro s i h; cases h

structure Step (cx : Ctx) (h h' : Heap) : Prop where
  size : h.size ≤ h'.size
  old : ∀ o, o < h.size → h'.get o = h.get o ∨ (Writable cx o ∧ ∀ x, h'.get o = some x → FreshObj cx.base x)

theorem Step.refl (cx : Ctx) (h : Heap) : Step cx h h := ⟨Nat.le_refl _, fun _ _ => .inl rfl⟩

theorem Step.trans {cx : Ctx} {h1 h2 h3 : Heap} (a : Step cx h1 h2) (b : Step cx h2 h3) : Step cx h1 h3 := by
  refine ⟨Nat.le_trans a.size b.size, fun o ho => ?_⟩
  rcases b.old o (Nat.lt_of_lt_of_le ho a.size) with e | ⟨w, f⟩
  · rcases a.old o ho with e' | ⟨w, f⟩
    · exact .inl (e.trans e')
    · exact .inr ⟨w, fun x hx => f x (e ▸ hx)⟩
  · exact .inr ⟨w, f⟩

theorem Step.alloc (cx : Ctx) (h : Heap) (x : Obj) : Step cx h (h.alloc x).1 :=
  ⟨by simp, fun _ ho => .inl (h.get_alloc_lt x ho)⟩

theorem Step.allocs (cx : Ctx) (h : Heap) (xs : List Obj) : Step cx h (h.allocs xs).1 :=
  ⟨by rw [Heap.allocs_size]; omega, fun _ ho => .inl (h.allocs_get_lt xs ho)⟩

theorem Step.write {cx : Ctx} (h : Heap) {o : ObjId} {x : Obj} (w : Writable cx o) (f : FreshObj cx.base x) :
    Step cx h (h.write o x) := by
  refine ⟨by simp, fun p hp => ?_⟩
  by_cases e : p = o
  · subst e
    refine .inr ⟨w, fun y hy => ?_⟩
    rw [h.get_write_eq x hp] at hy; cases hy; exact f
  · exact .inl (h.get_write_ne x e)

theorem Step.writes {cx : Ctx} (h : Heap) (ws : List (ObjId × Obj))
    (hw : ∀ w ∈ ws, Writable cx w.1 ∧ FreshObj cx.base w.2) : Step cx h (h.writes ws) := by
  induction ws generalizing h with
  | nil => exact Step.refl _ _
  | cons w ws ih =>
    obtain ⟨o, x⟩ := w
    simp only [Heap.writes]
    have := hw (o, x) (List.mem_cons_self ..)
    exact (Step.write h this.1 this.2).trans (ih _ fun w hw' => hw w (List.mem_cons_of_mem _ hw'))

/-- objects below `base` outside the exception set are untouched -/
theorem Step.frozen {cx : Ctx} {h h' : Heap} (s : Step cx h h') {o : ObjId} (ho : o < h.size)
    (hb : o < cx.base) (hx : cx.strict = true ∨ o ∉ cx.ex) : h'.get o = h.get o := by
  rcases s.old o ho with e | ⟨w, _⟩
  · exact e
  · rcases w with w | ⟨w1, w2⟩
    · exact absurd w (Nat.not_le.mpr hb)
    · rcases hx with hx | hx
      · rw [hx] at w1; cases w1
      · exact absurd w2 hx

/-- `o` was allocated in this call and, if it is a collection, so were its Set and indexes -/
structure Own (cx : Ctx) (h : Heap) (o : ObjId) : Prop where
  fresh : cx.base ≤ o
  lt : o < h.size
  parts : ∀ x, h.get o = some x → FreshObj cx.base x

theorem Own.step {cx : Ctx} {h h' : Heap} {o : ObjId} (s : Step cx h h') (w : Own cx h o) : Own cx h' o := by
  refine ⟨w.fresh, Nat.lt_of_lt_of_le w.lt s.size, fun x hx => ?_⟩
  rcases s.old o w.lt with e | ⟨_, f⟩
  · exact w.parts x (e ▸ hx)
  · exact f x hx

theorem Own.writable {cx : Ctx} {h : Heap} {o : ObjId} (w : Own cx h o) : Writable cx o := .inl w.fresh

/-- the object just allocated is owned if it is fresh-pointing -/
theorem Own.alloc {cx : Ctx} (h : Heap) (x : Obj) (hb : cx.base ≤ h.size) (f : FreshObj cx.base x) :
    Own cx (h.alloc x).1 h.size :=
  ⟨hb, by simp, fun y hy => by simp at hy; subst hy; exact f⟩

end Lungo.Own
