/-
  Lungo.Proofs.SeqDelete — C01: deleteOne / deleteMany / findOneAndDelete. The implementation removes
  the selected documents by identity, the Spec removes them as values; the two agree because a
  collection never holds two equal documents (`_id_` is unique — C07).
-/
import Lungo.Proofs.SeqInsert
import Lungo.Proofs.BeqLaws
namespace Lungo.SeqRef
open Lungo Lungo.Spec

variable {sch : SchemaEval}

theorem sameDoc_iff (a b : Doc) : sameDoc a b = true ↔ a = b := by
  unfold sameDoc
  rw [V.beq_iff]
  constructor
  · intro h; cases h; rfl
  · intro h; rw [h]

/-- no two stored documents are equal as values -/
def DocInj (docs : List SDoc) : Prop := ∀ x ∈ docs, ∀ y ∈ docs, x.doc = y.doc → x = y

/-- `_id_` is unique, so equal documents (equal `_id`) are the same stored document -/
theorem docInj_of_unique {c : Coll} (hc : Coherent sch c) (hp : IdIndexPresent c) (hu : UniqueOk sch c)
    (hok : DocsOk c.docs) : DocInj c.docs := by
  intro x hx y hy hd
  apply Classical.byContradiction
  intro hne
  obtain ⟨i, hm, hcfg⟩ := hp
  have hb : ∀ d, belongs sch i d := fun d => by
    unfold belongs partialMatches; rw [hcfg]; rfl
  have hU := (hu.unique hok) "_id_" i hm (by rw [hcfg]; rfl) x y hx hy hne (hb _) (hb _)
  obtain ⟨t, ht⟩ := List.exists_mem_of_ne_nil _ (tuples_ne_nil i.columns x.doc)
  have := hU t ht t (hd ▸ ht)
  rw [tupleEq_refl] at this
  cases this

theorem docInj_new : DocInj (newColl true).docs := by
  intro x hx; simp [newColl] at hx

/-- removal by identity = removal by value -/
theorem remove_abs {docs list : List SDoc} (hd : IdsDistinct docs) (hinj : DocInj docs)
    (hsub : ∀ x ∈ list, x ∈ docs) :
    (docs.filter (fun sd => !(list.any (·.id == sd.id)))).map (·.doc) =
      (docs.map (·.doc)).filter (fun d => !memDoc d (list.map (·.doc))) := by
  rw [List.filter_map]
  congr 1
  apply List.filter_congr
  intro sd hsd
  simp only [Function.comp, memDoc, List.any_map]
  congr 1
  apply Bool.eq_iff_iff.mpr
  simp only [List.any_eq_true, beq_iff_eq, Function.comp, sameDoc_iff]
  constructor
  · rintro ⟨x, hx, e⟩
    have := ids_inj hd x (hsub x hx) sd hsd e
    exact ⟨x, hx, by rw [this]⟩
  · rintro ⟨x, hx, e⟩
    have := hinj sd hsd x (hsub x hx) e
    exact ⟨x, hx, by rw [this]⟩

/-- what the writes need to know about the target collection -/
structure CollOk (sch : SchemaEval) (c : Coll) : Prop where
  coherent : Coherent sch c
  docsOk : DocsOk c.docs
  inj : DocInj c.docs

theorem collOk_ensureNs {cat : Catalog} {n : Nat} (g : Good sch true cat n) (ok : OkDB (abs cat))
    {h : Handle} (hne : h ≠ oplogHandle) : CollOk sch (ensureNs cat h) := by
  have k := g.ensureNs hne
  have hok := okDB_ensureNs ok hne
  exact ⟨k.coherent, hok, docInj_of_unique k.coherent (k.idIndex hne) (k.unique rfl) hok⟩

/-- `Collection.Delete` = the Spec's delete -/
theorem delete_abs {c : Coll} (k : CollOk sch c) (q : Doc) (sort : Option Doc) (skip limit : Int)
    (hne : noMatchError sch q c.docs) :
    (c.delete sch q sort skip limit).map (fun r => (absC r.1, r.2.map (·.doc))) =
      (absC c).delete sch q sort skip limit := by
  unfold SColl.delete
  have hs := select_abs c q sort skip limit k.docsOk hne
  rw [← hs]
  cases hsel : selectDocs sch c q sort skip limit with
  | error e => simp [Coll.delete, hsel, Except.map]
  | ok list =>
    obtain ⟨c', hdel⟩ := delete_ok k.coherent hsel
    rw [hdel]
    obtain ⟨_, idx', hf, rfl⟩ := delete_spec hdel
    simp only [Except.map, SColl.remove, absC]
    rw [remove_abs k.coherent.1 k.inj (selectDocs_mem hsel), foldIdx_remove_shape hf]

/-- `Transaction.delete` = the Spec's `opDelete` -/
theorem deleteOp_abs {cat : Catalog} {n : Nat} (g : Good sch true cat n) (ok : OkDB (abs cat)) {h : Handle}
    (hne : h ≠ oplogHandle) (q : Doc) (sort : Option Doc) (skip limit : Int) (nu : Nu)
    (hq : QueryOk sch (abs cat) h q) :
    (deleteOp sch cat h q sort skip limit nu).map (fun r => (abs r.1, r.2.1)) =
      opDelete sch (abs cat) h q sort skip limit := by
  unfold deleteOp opDelete
  rw [abs_coll cat hne, ← delete_abs (collOk_ensureNs g ok hne) q sort skip limit (queryOk_noMatchError hne hq)]
  cases hdel : (ensureNs cat h).delete sch q sort skip limit with
  | error e => simp only [hdel, Except.map]
  | ok r =>
    obtain ⟨coll, list⟩ := r
    have ho' : ∃ c, (oplogHandle, c) ∈ (cat.set h coll).namespaces := set_keeps g.1.oplog
    have := (abs_appendOplog_fold h "delete" (fun sd : SDoc => some sd.doc) (fun _ => none) list
      (cat.set h coll) nu ho').1
    simp only [hdel, Except.map]
    rw [this, abs_set cat coll hne]
    cases list <;> rfl

theorem commit_if (s : Sys) (b : Bool) (cat' : Catalog) (nu' : Nu) :
    abs (s.commit (if b = true then { catalog := cat', dirty := true } else { catalog := s.catalog }) nu').catalog =
      keepIf b (abs cat') (abs s.catalog) := by
  cases b <;> simp [Sys.commit, keepIf]

/-- `Transaction.Delete` = the Spec's `deleteCall` -/
theorem txnDelete_abs (s : Sys) (h : Handle) (q : Doc) (sort : Option Doc) (limit : Int) (oids : List V)
    (g : Good sch true s.catalog s.nextId) (ok : OkDB (abs s.catalog))
    (hq : QueryOk sch (abs s.catalog) h q) :
    deleteCall sch (abs s.catalog) h q sort limit =
      (Txn.delete sch { catalog := s.catalog } h q sort 0 limit (s.nu oids)).map
        (fun r => (abs (s.commit r.1 r.2.2).catalog, r.2.1)) := by
  unfold deleteCall Txn.delete
  cases hwr : writable h true with
  | error e => rfl
  | ok _ =>
    have hne := writable_ne_oplog hwr
    simp only [abs_get?_isNone s.catalog hne]
    cases hg : (s.catalog.get? h).isNone with
    | true => simp [Except.map, Sys.commit]
    | false =>
      simp only [Bool.false_eq_true, ↓reduceIte]
      rw [← deleteOp_abs g ok hne q sort 0 limit (s.nu oids) hq]
      cases deleteOp sch s.catalog h q sort 0 limit (s.nu oids) with
      | error e => rfl
      | ok r =>
        obtain ⟨cat', res, nu'⟩ := r
        simp only [Except.map]
        cases hb : res.matched.isEmpty <;> simp [Sys.commit, keepIf]

theorem refines_deleteOne (s : Sys) (h : Handle) (q : Doc) (oids : List V)
    (g : Good sch true s.catalog s.nextId) (ok : OkDB (abs s.catalog))
    (hq : QueryOk sch (abs s.catalog) h q) : Refines sch s (.deleteOne h q) oids := by
  unfold Refines Sys.step
  simp only [Spec.step, runCall, txnDelete_abs s h q none 1 oids g ok hq]
  cases Txn.delete sch { catalog := s.catalog } h q none 0 1 (s.nu oids) with
  | error e => rfl
  | ok r => rfl

theorem refines_deleteMany (s : Sys) (h : Handle) (q : Doc) (oids : List V)
    (g : Good sch true s.catalog s.nextId) (ok : OkDB (abs s.catalog))
    (hq : QueryOk sch (abs s.catalog) h q) : Refines sch s (.deleteMany h q) oids := by
  unfold Refines Sys.step
  simp only [Spec.step, runCall, txnDelete_abs s h q none 0 oids g ok hq]
  cases Txn.delete sch { catalog := s.catalog } h q none 0 0 (s.nu oids) with
  | error e => rfl
  | ok r => rfl

theorem refines_findOneAndDelete (s : Sys) (h : Handle) (q : Doc) (sort proj : Option Doc) (oids : List V)
    (g : Good sch true s.catalog s.nextId) (ok : OkDB (abs s.catalog))
    (hq : QueryOk sch (abs s.catalog) h q) : Refines sch s (.findOneAndDelete h q sort proj) oids := by
  unfold Refines Sys.step
  simp only [Spec.step, runCall, txnDelete_abs s h q sort 1 oids g ok hq]
  cases Txn.delete sch { catalog := s.catalog } h q sort 0 1 (s.nu oids) with
  | error e => rfl
  | ok r =>
    obtain ⟨t, res, nu⟩ := r
    simp only [Except.map]
    cases projOpt sch proj res.matched.head? with
    | error e => rfl
    | ok d => rfl

end Lungo.SeqRef
