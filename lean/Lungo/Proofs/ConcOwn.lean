/-
  Lungo.Proofs.ConcOwn — Lwf / Rng / Bnd preservation lemmas per sub-machine (generated mechanically).
-/
import Lungo.Proofs.ConcOwnDefs
namespace Lungo.Conc

set_option maxHeartbeats 1000000 in
theorem lwf_idle {s s' : State} {a : ActorId} {c : Choice} (inv1 : Inv1 s) (g1 : Lwf s)
    (hpc : (s.loc a).pc = .idle) (hs : stepIdle s a (s.loc a) c = some s') : Lwf s' := by
  intro b
  have g := g1 b
  have w := (inv1.beginWf) b
  clear g1 inv1
  simp only [LWf, BeginWf] at g w
  unfold stepIdle at hs
  conc_split hs
  all_goals (
    by_cases hba : b = a
    · subst hba; (try goal_simp); grind
    · (try simp only [State.put, State.putS, State.finish, State.write, upd_apply, if_neg hba])
      first
      | exact g
      | ((try goal_simp); grind))

set_option maxHeartbeats 1000000 in
theorem lwf_begin {s s' : State} {a : ActorId} {c : Choice} (inv1 : Inv1 s) (g1 : Lwf s)
    (hs : stepBegin s a (s.loc a) c = some s') : Lwf s' := by
  intro b
  have g := g1 b
  have w := (inv1.beginWf) b
  clear g1 inv1
  simp only [LWf, BeginWf] at g w
  unfold stepBegin at hs
  conc_split hs
  all_goals (
    by_cases hba : b = a
    · subst hba; (try goal_simp); grind
    · (try simp only [State.put, State.putS, State.finish, State.write, upd_apply, if_neg hba])
      first
      | exact g
      | ((try goal_simp); grind))

set_option maxHeartbeats 1000000 in
theorem lwf_commit {s s' : State} {a : ActorId} {c : Choice} (inv1 : Inv1 s) (g1 : Lwf s)
    (hs : stepCommit s a (s.loc a) c = some s') : Lwf s' := by
  intro b
  have g := g1 b
  have w := (inv1.beginWf) b
  clear g1 inv1
  simp only [LWf, BeginWf] at g w
  unfold stepCommit at hs
  conc_split hs
  all_goals (
    by_cases hba : b = a
    · subst hba; (try goal_simp); grind
    · (try simp only [State.put, State.putS, State.finish, State.write, upd_apply, if_neg hba])
      first
      | exact g
      | ((try goal_simp); grind))

set_option maxHeartbeats 1000000 in
theorem lwf_abort {s s' : State} {a : ActorId} {c : Choice} (inv1 : Inv1 s) (g1 : Lwf s)
    (hs : stepAbort s a (s.loc a) c = some s') : Lwf s' := by
  intro b
  have g := g1 b
  have w := (inv1.beginWf) b
  clear g1 inv1
  simp only [LWf, BeginWf] at g w
  unfold stepAbort at hs
  conc_split hs
  all_goals (
    by_cases hba : b = a
    · subst hba; (try goal_simp); grind
    · (try simp only [State.put, State.putS, State.finish, State.write, upd_apply, if_neg hba])
      first
      | exact g
      | ((try goal_simp); grind))

set_option maxHeartbeats 1000000 in
theorem lwf_after {s s' : State} {a : ActorId} {c : Choice} (inv1 : Inv1 s) (g1 : Lwf s)
    (hpc : (s.loc a).pc = .after) (hs : stepAfter s a (s.loc a) c = some s') : Lwf s' := by
  intro b
  have g := g1 b
  have w := (inv1.beginWf) b
  clear g1 inv1
  simp only [LWf, BeginWf] at g w
  unfold stepAfter at hs
  conc_split hs
  all_goals (
    by_cases hba : b = a
    · subst hba; (try goal_simp); grind
    · (try simp only [State.put, State.putS, State.finish, State.write, upd_apply, if_neg hba])
      first
      | exact g
      | ((try goal_simp); grind))

set_option maxHeartbeats 1000000 in
theorem lwf_use {s s' : State} {a : ActorId} {c : Choice} (inv1 : Inv1 s) (g1 : Lwf s)
    (hs : stepUse s a (s.loc a) c = some s') : Lwf s' := by
  intro b
  have g := g1 b
  have w := (inv1.beginWf) b
  clear g1 inv1
  simp only [LWf, BeginWf] at g w
  unfold stepUse at hs
  conc_split hs
  all_goals (
    by_cases hba : b = a
    · subst hba; (try goal_simp); grind
    · (try simp only [State.put, State.putS, State.finish, State.write, upd_apply, if_neg hba])
      first
      | exact g
      | ((try goal_simp); grind))

set_option maxHeartbeats 1000000 in
theorem lwf_sess {s s' : State} {a : ActorId} {c : Choice} (inv1 : Inv1 s) (g1 : Lwf s)
    (hs : stepSess s a (s.loc a) c = some s') : Lwf s' := by
  intro b
  have g := g1 b
  have w := (inv1.beginWf) b
  clear g1 inv1
  simp only [LWf, BeginWf] at g w
  unfold stepSess at hs
  conc_split hs
  all_goals (
    by_cases hba : b = a
    · subst hba; (try goal_simp); grind
    · (try simp only [State.put, State.putS, State.finish, State.write, upd_apply, if_neg hba])
      first
      | exact g
      | ((try goal_simp); grind))

set_option maxHeartbeats 1000000 in
theorem lwf_close {s s' : State} {a : ActorId} {c : Choice} (inv1 : Inv1 s) (g1 : Lwf s)
    (hs : stepClose s a (s.loc a) c = some s') : Lwf s' := by
  intro b
  have g := g1 b
  have w := (inv1.beginWf) b
  clear g1 inv1
  simp only [LWf, BeginWf] at g w
  unfold stepClose at hs
  conc_split hs
  all_goals (
    by_cases hba : b = a
    · subst hba; (try goal_simp); grind
    · (try simp only [State.put, State.putS, State.finish, State.write, upd_apply, if_neg hba])
      first
      | exact g
      | ((try goal_simp); grind))

set_option maxHeartbeats 1000000 in
theorem lwf_exp {s s' : State} {a : ActorId} {c : Choice} (inv1 : Inv1 s) (g1 : Lwf s)
    (hs : stepExp s a (s.loc a) c = some s') : Lwf s' := by
  intro b
  have g := g1 b
  have w := (inv1.beginWf) b
  clear g1 inv1
  simp only [LWf, BeginWf] at g w
  unfold stepExp at hs
  conc_split hs
  all_goals (
    by_cases hba : b = a
    · subst hba; (try goal_simp); grind
    · (try simp only [State.put, State.putS, State.finish, State.write, upd_apply, if_neg hba])
      first
      | exact g
      | ((try goal_simp); grind))

set_option maxHeartbeats 1000000 in
theorem rng_idle {s s' : State} {a : ActorId} {c : Choice} (hle : a ≤ s.n) (g1 : Rng s)
    (hpc : (s.loc a).pc = .idle) (hs : stepIdle s a (s.loc a) c = some s') : Rng s' := by
  intro b hb
  have g := g1 b
  clear g1
  unfold stepIdle at hs
  conc_split hs
  all_goals (
    by_cases hba : b = a
    · subst hba
      simp only [State.put, State.putS, State.finish, State.write] at hb
      exact absurd hle (Nat.not_le_of_gt hb)
    · (try simp only [State.put, State.putS, State.finish, State.write, upd_apply, if_neg hba])
      first
      | exact g hb
      | (goal_simp; simp only [State.put, State.putS, State.finish, State.write] at hb; grind))

set_option maxHeartbeats 1000000 in
theorem rng_begin {s s' : State} {a : ActorId} {c : Choice} (hle : a ≤ s.n) (g1 : Rng s)
    (hs : stepBegin s a (s.loc a) c = some s') : Rng s' := by
  intro b hb
  have g := g1 b
  clear g1
  unfold stepBegin at hs
  conc_split hs
  all_goals (
    by_cases hba : b = a
    · subst hba
      simp only [State.put, State.putS, State.finish, State.write] at hb
      exact absurd hle (Nat.not_le_of_gt hb)
    · (try simp only [State.put, State.putS, State.finish, State.write, upd_apply, if_neg hba])
      first
      | exact g hb
      | (goal_simp; simp only [State.put, State.putS, State.finish, State.write] at hb; grind))

set_option maxHeartbeats 1000000 in
theorem rng_commit {s s' : State} {a : ActorId} {c : Choice} (hle : a ≤ s.n) (g1 : Rng s)
    (hs : stepCommit s a (s.loc a) c = some s') : Rng s' := by
  intro b hb
  have g := g1 b
  clear g1
  unfold stepCommit at hs
  conc_split hs
  all_goals (
    by_cases hba : b = a
    · subst hba
      simp only [State.put, State.putS, State.finish, State.write] at hb
      exact absurd hle (Nat.not_le_of_gt hb)
    · (try simp only [State.put, State.putS, State.finish, State.write, upd_apply, if_neg hba])
      first
      | exact g hb
      | (goal_simp; simp only [State.put, State.putS, State.finish, State.write] at hb; grind))

set_option maxHeartbeats 1000000 in
theorem rng_abort {s s' : State} {a : ActorId} {c : Choice} (hle : a ≤ s.n) (g1 : Rng s)
    (hs : stepAbort s a (s.loc a) c = some s') : Rng s' := by
  intro b hb
  have g := g1 b
  clear g1
  unfold stepAbort at hs
  conc_split hs
  all_goals (
    by_cases hba : b = a
    · subst hba
      simp only [State.put, State.putS, State.finish, State.write] at hb
      exact absurd hle (Nat.not_le_of_gt hb)
    · (try simp only [State.put, State.putS, State.finish, State.write, upd_apply, if_neg hba])
      first
      | exact g hb
      | (goal_simp; simp only [State.put, State.putS, State.finish, State.write] at hb; grind))

set_option maxHeartbeats 1000000 in
theorem rng_after {s s' : State} {a : ActorId} {c : Choice} (hle : a ≤ s.n) (g1 : Rng s)
    (hpc : (s.loc a).pc = .after) (hs : stepAfter s a (s.loc a) c = some s') : Rng s' := by
  intro b hb
  have g := g1 b
  clear g1
  unfold stepAfter at hs
  conc_split hs
  all_goals (
    by_cases hba : b = a
    · subst hba
      simp only [State.put, State.putS, State.finish, State.write] at hb
      exact absurd hle (Nat.not_le_of_gt hb)
    · (try simp only [State.put, State.putS, State.finish, State.write, upd_apply, if_neg hba])
      first
      | exact g hb
      | (goal_simp; simp only [State.put, State.putS, State.finish, State.write] at hb; grind))

set_option maxHeartbeats 1000000 in
theorem rng_use {s s' : State} {a : ActorId} {c : Choice} (hle : a ≤ s.n) (g1 : Rng s)
    (hs : stepUse s a (s.loc a) c = some s') : Rng s' := by
  intro b hb
  have g := g1 b
  clear g1
  unfold stepUse at hs
  conc_split hs
  all_goals (
    by_cases hba : b = a
    · subst hba
      simp only [State.put, State.putS, State.finish, State.write] at hb
      exact absurd hle (Nat.not_le_of_gt hb)
    · (try simp only [State.put, State.putS, State.finish, State.write, upd_apply, if_neg hba])
      first
      | exact g hb
      | (goal_simp; simp only [State.put, State.putS, State.finish, State.write] at hb; grind))

set_option maxHeartbeats 1000000 in
theorem rng_sess {s s' : State} {a : ActorId} {c : Choice} (hle : a ≤ s.n) (g1 : Rng s)
    (hs : stepSess s a (s.loc a) c = some s') : Rng s' := by
  intro b hb
  have g := g1 b
  clear g1
  unfold stepSess at hs
  conc_split hs
  all_goals (
    by_cases hba : b = a
    · subst hba
      simp only [State.put, State.putS, State.finish, State.write] at hb
      exact absurd hle (Nat.not_le_of_gt hb)
    · (try simp only [State.put, State.putS, State.finish, State.write, upd_apply, if_neg hba])
      first
      | exact g hb
      | (goal_simp; simp only [State.put, State.putS, State.finish, State.write] at hb; grind))

set_option maxHeartbeats 1000000 in
theorem rng_close {s s' : State} {a : ActorId} {c : Choice} (hle : a ≤ s.n) (g1 : Rng s)
    (hs : stepClose s a (s.loc a) c = some s') : Rng s' := by
  intro b hb
  have g := g1 b
  clear g1
  unfold stepClose at hs
  conc_split hs
  all_goals (
    by_cases hba : b = a
    · subst hba
      simp only [State.put, State.putS, State.finish, State.write] at hb
      exact absurd hle (Nat.not_le_of_gt hb)
    · (try simp only [State.put, State.putS, State.finish, State.write, upd_apply, if_neg hba])
      first
      | exact g hb
      | (goal_simp; simp only [State.put, State.putS, State.finish, State.write] at hb; grind))

set_option maxHeartbeats 1000000 in
theorem rng_exp {s s' : State} {a : ActorId} {c : Choice} (hle : a ≤ s.n) (g1 : Rng s)
    (hs : stepExp s a (s.loc a) c = some s') : Rng s' := by
  intro b hb
  have g := g1 b
  clear g1
  unfold stepExp at hs
  conc_split hs
  all_goals (
    by_cases hba : b = a
    · subst hba
      simp only [State.put, State.putS, State.finish, State.write] at hb
      exact absurd hle (Nat.not_le_of_gt hb)
    · (try simp only [State.put, State.putS, State.finish, State.write, upd_apply, if_neg hba])
      first
      | exact g hb
      | (goal_simp; simp only [State.put, State.putS, State.finish, State.write] at hb; grind))

set_option maxHeartbeats 1000000 in
theorem bnd_idle {s s' : State} {a : ActorId} {c : Choice} (lw : Lwf s) (g1 : Bnd s)
    (hpc : (s.loc a).pc = .idle) (hs : stepIdle s a (s.loc a) c = some s') : Bnd s' := by
  obtain ⟨b1, b2, b3, b4⟩ := g1
  have b2a := b2 a
  have b3a := b3 a
  have w := lw a
  clear lw
  simp only [LWf] at w
  unfold stepIdle at hs
  conc_split hs
  all_goals (
    refine ⟨?_, fun b => ?_, fun b => ?_, ?_⟩
    · first
      | exact b1
      | (clear b2 b3; goal_simp; grind)
    · have b2b := b2 b
      by_cases hba : b = a
      · subst hba; clear b2 b3; (try goal_simp); grind
      · (try simp only [State.put, State.putS, State.finish, State.write, upd_apply, if_neg hba])
        first
        | exact b2b
        | (clear b2 b3; (try goal_simp); grind)
    · have b3b := b3 b
      by_cases hba : b = a
      · subst hba; clear b2 b3; (try goal_simp); grind
      · (try simp only [State.put, State.putS, State.finish, State.write, upd_apply, if_neg hba])
        first
        | exact b3b
        | (clear b2 b3; (try goal_simp); grind)
    · first
      | exact b4
      | (clear b2 b3; goal_simp; grind))

set_option maxHeartbeats 1000000 in
theorem bnd_begin {s s' : State} {a : ActorId} {c : Choice} (lw : Lwf s) (g1 : Bnd s)
    (hs : stepBegin s a (s.loc a) c = some s') : Bnd s' := by
  obtain ⟨b1, b2, b3, b4⟩ := g1
  have b2a := b2 a
  have b3a := b3 a
  have w := lw a
  clear lw
  simp only [LWf] at w
  unfold stepBegin at hs
  conc_split hs
  all_goals (
    refine ⟨?_, fun b => ?_, fun b => ?_, ?_⟩
    · first
      | exact b1
      | (clear b2 b3; goal_simp; grind)
    · have b2b := b2 b
      by_cases hba : b = a
      · subst hba; clear b2 b3; (try goal_simp); grind
      · (try simp only [State.put, State.putS, State.finish, State.write, upd_apply, if_neg hba])
        first
        | exact b2b
        | (clear b2 b3; (try goal_simp); grind)
    · have b3b := b3 b
      by_cases hba : b = a
      · subst hba; clear b2 b3; (try goal_simp); grind
      · (try simp only [State.put, State.putS, State.finish, State.write, upd_apply, if_neg hba])
        first
        | exact b3b
        | (clear b2 b3; (try goal_simp); grind)
    · first
      | exact b4
      | (clear b2 b3; goal_simp; grind))

set_option maxHeartbeats 1000000 in
theorem bnd_commit {s s' : State} {a : ActorId} {c : Choice} (lw : Lwf s) (g1 : Bnd s)
    (hs : stepCommit s a (s.loc a) c = some s') : Bnd s' := by
  obtain ⟨b1, b2, b3, b4⟩ := g1
  have b2a := b2 a
  have b3a := b3 a
  have w := lw a
  clear lw
  simp only [LWf] at w
  unfold stepCommit at hs
  conc_split hs
  all_goals (
    refine ⟨?_, fun b => ?_, fun b => ?_, ?_⟩
    · first
      | exact b1
      | (clear b2 b3; goal_simp; grind)
    · have b2b := b2 b
      by_cases hba : b = a
      · subst hba; clear b2 b3; (try goal_simp); grind
      · (try simp only [State.put, State.putS, State.finish, State.write, upd_apply, if_neg hba])
        first
        | exact b2b
        | (clear b2 b3; (try goal_simp); grind)
    · have b3b := b3 b
      by_cases hba : b = a
      · subst hba; clear b2 b3; (try goal_simp); grind
      · (try simp only [State.put, State.putS, State.finish, State.write, upd_apply, if_neg hba])
        first
        | exact b3b
        | (clear b2 b3; (try goal_simp); grind)
    · first
      | exact b4
      | (clear b2 b3; goal_simp; grind))

set_option maxHeartbeats 1000000 in
theorem bnd_abort {s s' : State} {a : ActorId} {c : Choice} (lw : Lwf s) (g1 : Bnd s)
    (hs : stepAbort s a (s.loc a) c = some s') : Bnd s' := by
  obtain ⟨b1, b2, b3, b4⟩ := g1
  have b2a := b2 a
  have b3a := b3 a
  have w := lw a
  clear lw
  simp only [LWf] at w
  unfold stepAbort at hs
  conc_split hs
  all_goals (
    refine ⟨?_, fun b => ?_, fun b => ?_, ?_⟩
    · first
      | exact b1
      | (clear b2 b3; goal_simp; grind)
    · have b2b := b2 b
      by_cases hba : b = a
      · subst hba; clear b2 b3; (try goal_simp); grind
      · (try simp only [State.put, State.putS, State.finish, State.write, upd_apply, if_neg hba])
        first
        | exact b2b
        | (clear b2 b3; (try goal_simp); grind)
    · have b3b := b3 b
      by_cases hba : b = a
      · subst hba; clear b2 b3; (try goal_simp); grind
      · (try simp only [State.put, State.putS, State.finish, State.write, upd_apply, if_neg hba])
        first
        | exact b3b
        | (clear b2 b3; (try goal_simp); grind)
    · first
      | exact b4
      | (clear b2 b3; goal_simp; grind))

set_option maxHeartbeats 1000000 in
theorem bnd_after {s s' : State} {a : ActorId} {c : Choice} (lw : Lwf s) (g1 : Bnd s)
    (hpc : (s.loc a).pc = .after) (hs : stepAfter s a (s.loc a) c = some s') : Bnd s' := by
  obtain ⟨b1, b2, b3, b4⟩ := g1
  have b2a := b2 a
  have b3a := b3 a
  have w := lw a
  clear lw
  simp only [LWf] at w
  unfold stepAfter at hs
  conc_split hs
  all_goals (
    refine ⟨?_, fun b => ?_, fun b => ?_, ?_⟩
    · first
      | exact b1
      | (clear b2 b3; goal_simp; grind)
    · have b2b := b2 b
      by_cases hba : b = a
      · subst hba; clear b2 b3; (try goal_simp); grind
      · (try simp only [State.put, State.putS, State.finish, State.write, upd_apply, if_neg hba])
        first
        | exact b2b
        | (clear b2 b3; (try goal_simp); grind)
    · have b3b := b3 b
      by_cases hba : b = a
      · subst hba; clear b2 b3; (try goal_simp); grind
      · (try simp only [State.put, State.putS, State.finish, State.write, upd_apply, if_neg hba])
        first
        | exact b3b
        | (clear b2 b3; (try goal_simp); grind)
    · first
      | exact b4
      | (clear b2 b3; goal_simp; grind))

set_option maxHeartbeats 1000000 in
theorem bnd_use {s s' : State} {a : ActorId} {c : Choice} (lw : Lwf s) (g1 : Bnd s)
    (hs : stepUse s a (s.loc a) c = some s') : Bnd s' := by
  obtain ⟨b1, b2, b3, b4⟩ := g1
  have b2a := b2 a
  have b3a := b3 a
  have w := lw a
  clear lw
  simp only [LWf] at w
  unfold stepUse at hs
  conc_split hs
  all_goals (
    refine ⟨?_, fun b => ?_, fun b => ?_, ?_⟩
    · first
      | exact b1
      | (clear b2 b3; goal_simp; grind)
    · have b2b := b2 b
      by_cases hba : b = a
      · subst hba; clear b2 b3; (try goal_simp); grind
      · (try simp only [State.put, State.putS, State.finish, State.write, upd_apply, if_neg hba])
        first
        | exact b2b
        | (clear b2 b3; (try goal_simp); grind)
    · have b3b := b3 b
      by_cases hba : b = a
      · subst hba; clear b2 b3; (try goal_simp); grind
      · (try simp only [State.put, State.putS, State.finish, State.write, upd_apply, if_neg hba])
        first
        | exact b3b
        | (clear b2 b3; (try goal_simp); grind)
    · first
      | exact b4
      | (clear b2 b3; goal_simp; grind))

set_option maxHeartbeats 1000000 in
theorem bnd_sess {s s' : State} {a : ActorId} {c : Choice} (lw : Lwf s) (g1 : Bnd s)
    (hs : stepSess s a (s.loc a) c = some s') : Bnd s' := by
  obtain ⟨b1, b2, b3, b4⟩ := g1
  have b2a := b2 a
  have b3a := b3 a
  have w := lw a
  clear lw
  simp only [LWf] at w
  unfold stepSess at hs
  conc_split hs
  all_goals (
    refine ⟨?_, fun b => ?_, fun b => ?_, ?_⟩
    · first
      | exact b1
      | (clear b2 b3; goal_simp; grind)
    · have b2b := b2 b
      by_cases hba : b = a
      · subst hba; clear b2 b3; (try goal_simp); grind
      · (try simp only [State.put, State.putS, State.finish, State.write, upd_apply, if_neg hba])
        first
        | exact b2b
        | (clear b2 b3; (try goal_simp); grind)
    · have b3b := b3 b
      by_cases hba : b = a
      · subst hba; clear b2 b3; (try goal_simp); grind
      · (try simp only [State.put, State.putS, State.finish, State.write, upd_apply, if_neg hba])
        first
        | exact b3b
        | (clear b2 b3; (try goal_simp); grind)
    · first
      | exact b4
      | (clear b2 b3; goal_simp; grind))

set_option maxHeartbeats 1000000 in
theorem bnd_close {s s' : State} {a : ActorId} {c : Choice} (lw : Lwf s) (g1 : Bnd s)
    (hs : stepClose s a (s.loc a) c = some s') : Bnd s' := by
  obtain ⟨b1, b2, b3, b4⟩ := g1
  have b2a := b2 a
  have b3a := b3 a
  have w := lw a
  clear lw
  simp only [LWf] at w
  unfold stepClose at hs
  conc_split hs
  all_goals (
    refine ⟨?_, fun b => ?_, fun b => ?_, ?_⟩
    · first
      | exact b1
      | (clear b2 b3; goal_simp; grind)
    · have b2b := b2 b
      by_cases hba : b = a
      · subst hba; clear b2 b3; (try goal_simp); grind
      · (try simp only [State.put, State.putS, State.finish, State.write, upd_apply, if_neg hba])
        first
        | exact b2b
        | (clear b2 b3; (try goal_simp); grind)
    · have b3b := b3 b
      by_cases hba : b = a
      · subst hba; clear b2 b3; (try goal_simp); grind
      · (try simp only [State.put, State.putS, State.finish, State.write, upd_apply, if_neg hba])
        first
        | exact b3b
        | (clear b2 b3; (try goal_simp); grind)
    · first
      | exact b4
      | (clear b2 b3; goal_simp; grind))

set_option maxHeartbeats 1000000 in
theorem bnd_exp {s s' : State} {a : ActorId} {c : Choice} (lw : Lwf s) (g1 : Bnd s)
    (hs : stepExp s a (s.loc a) c = some s') : Bnd s' := by
  obtain ⟨b1, b2, b3, b4⟩ := g1
  have b2a := b2 a
  have b3a := b3 a
  have w := lw a
  clear lw
  simp only [LWf] at w
  unfold stepExp at hs
  conc_split hs
  all_goals (
    refine ⟨?_, fun b => ?_, fun b => ?_, ?_⟩
    · first
      | exact b1
      | (clear b2 b3; goal_simp; grind)
    · have b2b := b2 b
      by_cases hba : b = a
      · subst hba; clear b2 b3; (try goal_simp); grind
      · (try simp only [State.put, State.putS, State.finish, State.write, upd_apply, if_neg hba])
        first
        | exact b2b
        | (clear b2 b3; (try goal_simp); grind)
    · have b3b := b3 b
      by_cases hba : b = a
      · subst hba; clear b2 b3; (try goal_simp); grind
      · (try simp only [State.put, State.putS, State.finish, State.write, upd_apply, if_neg hba])
        first
        | exact b3b
        | (clear b2 b3; (try goal_simp); grind)
    · first
      | exact b4
      | (clear b2 b3; goal_simp; grind))

end Lungo.Conc
