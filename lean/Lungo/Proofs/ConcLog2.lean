/-
  Lungo.Proofs.ConcLog2 — real-time (Rinv), read-prefix (Pinv) and write-history (Hinv) invariants
  for C04.  (Per-sub-machine lemmas generated mechanically.)
-/
import Lungo.Proofs.ConcLog
namespace Lungo.Conc

/-- `p` is a prefix of `l` -/
def Pre (p l : List OpId) : Prop := ∃ r, l = p ++ r

theorem Pre.refl (l : List OpId) : Pre l l := ⟨[], by simp⟩
theorem Pre.app {p l : List OpId} (h : Pre p l) (x : List OpId) : Pre p (l ++ x) := by
  obtain ⟨r, rfl⟩ := h; exact ⟨r ++ x, by simp⟩
theorem Pre.len {p l : List OpId} (h : Pre p l) : p.length ≤ l.length := by
  obtain ⟨r, rfl⟩ := h; simp
theorem Pre.self_app (l x : List OpId) : Pre l (l ++ x) := ⟨x, rfl⟩

/-- real-time bookkeeping: positions recorded at invocation / commit / return are ordered -/
def Rinv (s : State) : Prop :=
  (∀ rec ∈ s.commitLog, rec.base.length + rec.ops.length ≤ s.eng.catalog.length ∧
      rec.invLen ≤ rec.base.length ∧ ∀ p ∈ rec.before, p.2 ≤ rec.invLen) ∧
  (∀ p ∈ s.done, p.2 ≤ s.eng.catalog.length) ∧
  (∀ a, (s.loc a).invLen ≤ s.eng.catalog.length ∧ (∀ p ∈ (s.loc a).invDone, p.2 ≤ (s.loc a).invLen) ∧
      (∀ p, (s.loc a).cmt = some p → p.2 ≤ s.eng.catalog.length)) ∧
  (∀ t, t < s.eng.nextTid → (s.txns t).invLen ≤ (s.txns t).base.length ∧
      ∀ p ∈ (s.txns t).before, p.2 ≤ (s.txns t).invLen)

/-- local states of a read-only call that has taken its snapshot -/
def ReadFlow (l : Local) : Prop :=
  l.pc = .uCbRead ∨ (l.pc = .after ∧ l.k = .use ∧ l.lockF = false ∧ l.res = .ok)

def Pinv (s : State) : Prop :=
  (∀ r ∈ s.reads, Pre r.obs s.eng.catalog ∧ r.invLen ≤ r.obs.length ∧ r.obs.length ≤ r.retLen) ∧
  (∀ a t, ReadFlow (s.loc a) → (s.loc a).t = some t →
      Pre (s.txns t).base s.eng.catalog ∧ (s.loc a).invLen ≤ (s.txns t).base.length) ∧
  (∀ a, (s.loc a).obs ≠ none → (s.loc a).pc = .idle)

/-- every recorded write ran on `seen` and its op directly follows `seen` in its transaction's log -/
def Hinv (s : State) : Prop :=
  ∀ h ∈ s.hist, h.tid < s.eng.nextTid ∧
    Pre (h.seen ++ [h.op]) ((s.txns h.tid).base ++ (s.txns h.tid).ops)

theorem rinv_init (n : Nat) : Rinv (init n) := by
  refine ⟨?_, ?_, fun b => ?_, ?_⟩
  all_goals (simp only [init]; try (by_cases hb : b = 0 <;> simp [hb]))
  all_goals simp
theorem pinv_init (n : Nat) : Pinv (init n) := by
  refine ⟨?_, fun b => ?_, fun b => ?_⟩
  all_goals (simp only [init, ReadFlow]; try (by_cases hb : b = 0 <;> simp [hb]))
  all_goals simp
theorem hinv_init (n : Nat) : Hinv (init n) := by
  simp [Hinv, init]

macro "log2_simp" : tactic => `(tactic|
  simp only [State.put, State.putS, State.finish, State.write, upd_apply, Eng.unlock, Eng.release,
    Local.back, Local.invoke, newTxn, ReadFlow, List.mem_append, List.mem_singleton, List.length_append,
    List.append_nil, List.nil_append, List.append_assoc, List.length_nil,
    if_true, if_false, ite_true, ite_false])

macro "log2_simp_at" h:ident : tactic => `(tactic|
  simp only [State.put, State.putS, State.finish, State.write, upd_apply, Eng.unlock, Eng.release,
    Local.back, Local.invoke, newTxn, ReadFlow, List.mem_append, List.mem_singleton, List.length_append,
    List.append_nil, List.nil_append, List.append_assoc, List.length_nil,
    if_true, if_false, ite_true, ite_false] at $h:ident ⊢)

set_option maxHeartbeats 1000000 in
theorem rinv_idle {s s' : State} {a : ActorId} {c : Choice} (bnd : Bnd s) (lv : Linv s) (g : Rinv s)
    (hpc : (s.loc a).pc = .idle) (hs : stepIdle s a (s.loc a) c = some s') : Rinv s' := by
  obtain ⟨r0, r1, r2, r3⟩ := g
  obtain ⟨l1, l2, l3, l4⟩ := lv
  obtain ⟨b1, b2, b3, b4⟩ := bnd
  have l2a := l2 a
  have b2a := b2 a
  have r2a := r2 a
  clear b3 b4 l3 l4 l2 b2 b1
  unfold stepIdle at hs
  conc_split hs
  all_goals (
    refine ⟨fun rec hrec => ?_, fun p hp => ?_, fun b => ?_, fun t ht => ?_⟩
    · first
      | exact r0 rec hrec
      | (have := l1; have := r3
         clear r1 r2 r3 l1
         (try log2_simp_at hrec); grind)
    · first
      | exact r1 p hp
      | (clear r0 r2 r3
         (try log2_simp_at hp); grind)
    · have hr2b := r2 b
      clear r0 r2 r3
      by_cases hba : b = a
      · subst hba; (try log2_simp); grind
      · have hab : ¬ a = b := fun h => hba h.symm
        try simp only [State.put, State.putS, State.finish, State.write, upd_apply, if_neg hba, if_neg hab]
        first
        | exact hr2b
        | ((try log2_simp); grind)
    · first
      | exact r3 t ht
      | (have := r3 t
         clear r0 r1 r2 r3
         (try log2_simp_at ht); grind))

set_option maxHeartbeats 1000000 in
theorem rinv_begin {s s' : State} {a : ActorId} {c : Choice} (bnd : Bnd s) (lv : Linv s) (g : Rinv s)
    (hs : stepBegin s a (s.loc a) c = some s') : Rinv s' := by
  obtain ⟨r0, r1, r2, r3⟩ := g
  obtain ⟨l1, l2, l3, l4⟩ := lv
  obtain ⟨b1, b2, b3, b4⟩ := bnd
  have l2a := l2 a
  have b2a := b2 a
  have r2a := r2 a
  clear b3 b4 l3 l4 l2 b2 b1
  unfold stepBegin at hs
  conc_split hs
  all_goals (
    refine ⟨fun rec hrec => ?_, fun p hp => ?_, fun b => ?_, fun t ht => ?_⟩
    · first
      | exact r0 rec hrec
      | (have := l1; have := r3
         clear r1 r2 r3 l1
         (try log2_simp_at hrec); grind)
    · first
      | exact r1 p hp
      | (clear r0 r2 r3
         (try log2_simp_at hp); grind)
    · have hr2b := r2 b
      clear r0 r2 r3
      by_cases hba : b = a
      · subst hba; (try log2_simp); grind
      · have hab : ¬ a = b := fun h => hba h.symm
        try simp only [State.put, State.putS, State.finish, State.write, upd_apply, if_neg hba, if_neg hab]
        first
        | exact hr2b
        | ((try log2_simp); grind)
    · first
      | exact r3 t ht
      | (have := r3 t
         clear r0 r1 r2 r3
         (try log2_simp_at ht); grind))

set_option maxHeartbeats 1000000 in
theorem rinv_commit {s s' : State} {a : ActorId} {c : Choice} (bnd : Bnd s) (lv : Linv s) (g : Rinv s)
    (hs : stepCommit s a (s.loc a) c = some s') : Rinv s' := by
  obtain ⟨r0, r1, r2, r3⟩ := g
  obtain ⟨l1, l2, l3, l4⟩ := lv
  obtain ⟨b1, b2, b3, b4⟩ := bnd
  have l2a := l2 a
  have b2a := b2 a
  have r2a := r2 a
  clear b3 b4 l3 l4 l2 b2 b1
  unfold stepCommit at hs
  conc_split hs
  all_goals (
    refine ⟨fun rec hrec => ?_, fun p hp => ?_, fun b => ?_, fun t ht => ?_⟩
    · first
      | exact r0 rec hrec
      | (have := l1; have := r3
         clear r1 r2 r3 l1
         (try log2_simp_at hrec); grind)
    · first
      | exact r1 p hp
      | (clear r0 r2 r3
         (try log2_simp_at hp); grind)
    · have hr2b := r2 b
      clear r0 r2 r3
      by_cases hba : b = a
      · subst hba; (try log2_simp); grind
      · have hab : ¬ a = b := fun h => hba h.symm
        try simp only [State.put, State.putS, State.finish, State.write, upd_apply, if_neg hba, if_neg hab]
        first
        | exact hr2b
        | ((try log2_simp); grind)
    · first
      | exact r3 t ht
      | (have := r3 t
         clear r0 r1 r2 r3
         (try log2_simp_at ht); grind))

set_option maxHeartbeats 1000000 in
theorem rinv_abort {s s' : State} {a : ActorId} {c : Choice} (bnd : Bnd s) (lv : Linv s) (g : Rinv s)
    (hs : stepAbort s a (s.loc a) c = some s') : Rinv s' := by
  obtain ⟨r0, r1, r2, r3⟩ := g
  obtain ⟨l1, l2, l3, l4⟩ := lv
  obtain ⟨b1, b2, b3, b4⟩ := bnd
  have l2a := l2 a
  have b2a := b2 a
  have r2a := r2 a
  clear b3 b4 l3 l4 l2 b2 b1
  unfold stepAbort at hs
  conc_split hs
  all_goals (
    refine ⟨fun rec hrec => ?_, fun p hp => ?_, fun b => ?_, fun t ht => ?_⟩
    · first
      | exact r0 rec hrec
      | (have := l1; have := r3
         clear r1 r2 r3 l1
         (try log2_simp_at hrec); grind)
    · first
      | exact r1 p hp
      | (clear r0 r2 r3
         (try log2_simp_at hp); grind)
    · have hr2b := r2 b
      clear r0 r2 r3
      by_cases hba : b = a
      · subst hba; (try log2_simp); grind
      · have hab : ¬ a = b := fun h => hba h.symm
        try simp only [State.put, State.putS, State.finish, State.write, upd_apply, if_neg hba, if_neg hab]
        first
        | exact hr2b
        | ((try log2_simp); grind)
    · first
      | exact r3 t ht
      | (have := r3 t
         clear r0 r1 r2 r3
         (try log2_simp_at ht); grind))

set_option maxHeartbeats 1000000 in
theorem rinv_after {s s' : State} {a : ActorId} {c : Choice} (bnd : Bnd s) (lv : Linv s) (g : Rinv s)
    (hpc : (s.loc a).pc = .after) (hs : stepAfter s a (s.loc a) c = some s') : Rinv s' := by
  obtain ⟨r0, r1, r2, r3⟩ := g
  obtain ⟨l1, l2, l3, l4⟩ := lv
  obtain ⟨b1, b2, b3, b4⟩ := bnd
  have l2a := l2 a
  have b2a := b2 a
  have r2a := r2 a
  clear b3 b4 l3 l4 l2 b2 b1
  unfold stepAfter at hs
  conc_split hs
  all_goals (
    refine ⟨fun rec hrec => ?_, fun p hp => ?_, fun b => ?_, fun t ht => ?_⟩
    · first
      | exact r0 rec hrec
      | (have := l1; have := r3
         clear r1 r2 r3 l1
         (try log2_simp_at hrec); grind)
    · first
      | exact r1 p hp
      | (clear r0 r2 r3
         (try log2_simp_at hp); grind)
    · have hr2b := r2 b
      clear r0 r2 r3
      by_cases hba : b = a
      · subst hba; (try log2_simp); grind
      · have hab : ¬ a = b := fun h => hba h.symm
        try simp only [State.put, State.putS, State.finish, State.write, upd_apply, if_neg hba, if_neg hab]
        first
        | exact hr2b
        | ((try log2_simp); grind)
    · first
      | exact r3 t ht
      | (have := r3 t
         clear r0 r1 r2 r3
         (try log2_simp_at ht); grind))

set_option maxHeartbeats 1000000 in
theorem rinv_use {s s' : State} {a : ActorId} {c : Choice} (bnd : Bnd s) (lv : Linv s) (g : Rinv s)
    (hs : stepUse s a (s.loc a) c = some s') : Rinv s' := by
  obtain ⟨r0, r1, r2, r3⟩ := g
  obtain ⟨l1, l2, l3, l4⟩ := lv
  obtain ⟨b1, b2, b3, b4⟩ := bnd
  have l2a := l2 a
  have b2a := b2 a
  have r2a := r2 a
  clear b3 b4 l3 l4 l2 b2 b1
  unfold stepUse at hs
  conc_split hs
  all_goals (
    refine ⟨fun rec hrec => ?_, fun p hp => ?_, fun b => ?_, fun t ht => ?_⟩
    · first
      | exact r0 rec hrec
      | (have := l1; have := r3
         clear r1 r2 r3 l1
         (try log2_simp_at hrec); grind)
    · first
      | exact r1 p hp
      | (clear r0 r2 r3
         (try log2_simp_at hp); grind)
    · have hr2b := r2 b
      clear r0 r2 r3
      by_cases hba : b = a
      · subst hba; (try log2_simp); grind
      · have hab : ¬ a = b := fun h => hba h.symm
        try simp only [State.put, State.putS, State.finish, State.write, upd_apply, if_neg hba, if_neg hab]
        first
        | exact hr2b
        | ((try log2_simp); grind)
    · first
      | exact r3 t ht
      | (have := r3 t
         clear r0 r1 r2 r3
         (try log2_simp_at ht); grind))

set_option maxHeartbeats 1000000 in
theorem rinv_sess {s s' : State} {a : ActorId} {c : Choice} (bnd : Bnd s) (lv : Linv s) (g : Rinv s)
    (hs : stepSess s a (s.loc a) c = some s') : Rinv s' := by
  obtain ⟨r0, r1, r2, r3⟩ := g
  obtain ⟨l1, l2, l3, l4⟩ := lv
  obtain ⟨b1, b2, b3, b4⟩ := bnd
  have l2a := l2 a
  have b2a := b2 a
  have r2a := r2 a
  clear b3 b4 l3 l4 l2 b2 b1
  unfold stepSess at hs
  conc_split hs
  all_goals (
    refine ⟨fun rec hrec => ?_, fun p hp => ?_, fun b => ?_, fun t ht => ?_⟩
    · first
      | exact r0 rec hrec
      | (have := l1; have := r3
         clear r1 r2 r3 l1
         (try log2_simp_at hrec); grind)
    · first
      | exact r1 p hp
      | (clear r0 r2 r3
         (try log2_simp_at hp); grind)
    · have hr2b := r2 b
      clear r0 r2 r3
      by_cases hba : b = a
      · subst hba; (try log2_simp); grind
      · have hab : ¬ a = b := fun h => hba h.symm
        try simp only [State.put, State.putS, State.finish, State.write, upd_apply, if_neg hba, if_neg hab]
        first
        | exact hr2b
        | ((try log2_simp); grind)
    · first
      | exact r3 t ht
      | (have := r3 t
         clear r0 r1 r2 r3
         (try log2_simp_at ht); grind))

set_option maxHeartbeats 1000000 in
theorem rinv_close {s s' : State} {a : ActorId} {c : Choice} (bnd : Bnd s) (lv : Linv s) (g : Rinv s)
    (hs : stepClose s a (s.loc a) c = some s') : Rinv s' := by
  obtain ⟨r0, r1, r2, r3⟩ := g
  obtain ⟨l1, l2, l3, l4⟩ := lv
  obtain ⟨b1, b2, b3, b4⟩ := bnd
  have l2a := l2 a
  have b2a := b2 a
  have r2a := r2 a
  clear b3 b4 l3 l4 l2 b2 b1
  unfold stepClose at hs
  conc_split hs
  all_goals (
    refine ⟨fun rec hrec => ?_, fun p hp => ?_, fun b => ?_, fun t ht => ?_⟩
    · first
      | exact r0 rec hrec
      | (have := l1; have := r3
         clear r1 r2 r3 l1
         (try log2_simp_at hrec); grind)
    · first
      | exact r1 p hp
      | (clear r0 r2 r3
         (try log2_simp_at hp); grind)
    · have hr2b := r2 b
      clear r0 r2 r3
      by_cases hba : b = a
      · subst hba; (try log2_simp); grind
      · have hab : ¬ a = b := fun h => hba h.symm
        try simp only [State.put, State.putS, State.finish, State.write, upd_apply, if_neg hba, if_neg hab]
        first
        | exact hr2b
        | ((try log2_simp); grind)
    · first
      | exact r3 t ht
      | (have := r3 t
         clear r0 r1 r2 r3
         (try log2_simp_at ht); grind))

set_option maxHeartbeats 1000000 in
theorem rinv_exp {s s' : State} {a : ActorId} {c : Choice} (bnd : Bnd s) (lv : Linv s) (g : Rinv s)
    (hs : stepExp s a (s.loc a) c = some s') : Rinv s' := by
  obtain ⟨r0, r1, r2, r3⟩ := g
  obtain ⟨l1, l2, l3, l4⟩ := lv
  obtain ⟨b1, b2, b3, b4⟩ := bnd
  have l2a := l2 a
  have b2a := b2 a
  have r2a := r2 a
  clear b3 b4 l3 l4 l2 b2 b1
  unfold stepExp at hs
  conc_split hs
  all_goals (
    refine ⟨fun rec hrec => ?_, fun p hp => ?_, fun b => ?_, fun t ht => ?_⟩
    · first
      | exact r0 rec hrec
      | (have := l1; have := r3
         clear r1 r2 r3 l1
         (try log2_simp_at hrec); grind)
    · first
      | exact r1 p hp
      | (clear r0 r2 r3
         (try log2_simp_at hp); grind)
    · have hr2b := r2 b
      clear r0 r2 r3
      by_cases hba : b = a
      · subst hba; (try log2_simp); grind
      · have hab : ¬ a = b := fun h => hba h.symm
        try simp only [State.put, State.putS, State.finish, State.write, upd_apply, if_neg hba, if_neg hab]
        first
        | exact hr2b
        | ((try log2_simp); grind)
    · first
      | exact r3 t ht
      | (have := r3 t
         clear r0 r1 r2 r3
         (try log2_simp_at ht); grind))

set_option maxHeartbeats 1000000 in
theorem pinv_idle {s s' : State} {a : ActorId} {c : Choice} (inv1 : Inv1 s) (bnd : Bnd s) (lv : Linv s) (rv : Rinv s) (g : Pinv s)
    (hpc : (s.loc a).pc = .idle) (hs : stepIdle s a (s.loc a) c = some s') : Pinv s' := by
  obtain ⟨p1, p2, p3⟩ := g
  obtain ⟨l1, l2, l3, l4⟩ := lv
  obtain ⟨b1, b2, b3, b4⟩ := bnd
  have l2a := l2 a
  have b2a := b2 a
  have p2a := p2 a
  have p3a := p3 a
  have r2a := rv.2.2.1 a
  have w := inv1.beginWf a
  clear b3 b4 l1 l3 l4 l2 b1 rv inv1
  simp only [ReadFlow, BeginWf] at *
  unfold stepIdle at hs
  conc_split hs
  all_goals (
    refine ⟨fun r hr => ?_, fun b t => ?_, fun b => ?_⟩
    · first
      | exact p1 r hr
      | (clear p2 p3 b2
         (try log2_simp_at hr); grind [Pre.app, Pre.len, Pre.refl, Pre.self_app])
    · have hp2b := p2 b t; have := b2 b t
      clear p1 p2 p3 b2
      by_cases hba : b = a
      · subst hba; (try log2_simp); grind [Pre.app, Pre.len, Pre.refl, Pre.self_app]
      · have hab : ¬ a = b := fun h => hba h.symm
        try simp only [State.put, State.putS, State.finish, State.write, upd_apply, if_neg hba, if_neg hab]
        first
        | exact hp2b
        | ((try log2_simp); grind [Pre.app, Pre.len, Pre.refl, Pre.self_app])
    · have hp3b := p3 b
      clear p1 p2 p3 b2
      by_cases hba : b = a
      · subst hba; (try log2_simp); grind
      · have hab : ¬ a = b := fun h => hba h.symm
        try simp only [State.put, State.putS, State.finish, State.write, upd_apply, if_neg hba, if_neg hab]
        first
        | exact hp3b
        | ((try log2_simp); grind))

set_option maxHeartbeats 1000000 in
theorem pinv_begin {s s' : State} {a : ActorId} {c : Choice} (inv1 : Inv1 s) (bnd : Bnd s) (lv : Linv s) (rv : Rinv s) (g : Pinv s)
    (hs : stepBegin s a (s.loc a) c = some s') : Pinv s' := by
  obtain ⟨p1, p2, p3⟩ := g
  obtain ⟨l1, l2, l3, l4⟩ := lv
  obtain ⟨b1, b2, b3, b4⟩ := bnd
  have l2a := l2 a
  have b2a := b2 a
  have p2a := p2 a
  have p3a := p3 a
  have r2a := rv.2.2.1 a
  have w := inv1.beginWf a
  clear b3 b4 l1 l3 l4 l2 b1 rv inv1
  simp only [ReadFlow, BeginWf] at *
  unfold stepBegin at hs
  conc_split hs
  all_goals (
    refine ⟨fun r hr => ?_, fun b t => ?_, fun b => ?_⟩
    · first
      | exact p1 r hr
      | (clear p2 p3 b2
         (try log2_simp_at hr); grind [Pre.app, Pre.len, Pre.refl, Pre.self_app])
    · have hp2b := p2 b t; have := b2 b t
      clear p1 p2 p3 b2
      by_cases hba : b = a
      · subst hba; (try log2_simp); grind [Pre.app, Pre.len, Pre.refl, Pre.self_app]
      · have hab : ¬ a = b := fun h => hba h.symm
        try simp only [State.put, State.putS, State.finish, State.write, upd_apply, if_neg hba, if_neg hab]
        first
        | exact hp2b
        | ((try log2_simp); grind [Pre.app, Pre.len, Pre.refl, Pre.self_app])
    · have hp3b := p3 b
      clear p1 p2 p3 b2
      by_cases hba : b = a
      · subst hba; (try log2_simp); grind
      · have hab : ¬ a = b := fun h => hba h.symm
        try simp only [State.put, State.putS, State.finish, State.write, upd_apply, if_neg hba, if_neg hab]
        first
        | exact hp3b
        | ((try log2_simp); grind))

set_option maxHeartbeats 1000000 in
theorem pinv_commit {s s' : State} {a : ActorId} {c : Choice} (inv1 : Inv1 s) (bnd : Bnd s) (lv : Linv s) (rv : Rinv s) (g : Pinv s)
    (hs : stepCommit s a (s.loc a) c = some s') : Pinv s' := by
  obtain ⟨p1, p2, p3⟩ := g
  obtain ⟨l1, l2, l3, l4⟩ := lv
  obtain ⟨b1, b2, b3, b4⟩ := bnd
  have l2a := l2 a
  have b2a := b2 a
  have p2a := p2 a
  have p3a := p3 a
  have r2a := rv.2.2.1 a
  have w := inv1.beginWf a
  clear b3 b4 l1 l3 l4 l2 b1 rv inv1
  simp only [ReadFlow, BeginWf] at *
  unfold stepCommit at hs
  conc_split hs
  all_goals (
    refine ⟨fun r hr => ?_, fun b t => ?_, fun b => ?_⟩
    · first
      | exact p1 r hr
      | (clear p2 p3 b2
         (try log2_simp_at hr); grind [Pre.app, Pre.len, Pre.refl, Pre.self_app])
    · have hp2b := p2 b t; have := b2 b t
      clear p1 p2 p3 b2
      by_cases hba : b = a
      · subst hba; (try log2_simp); grind [Pre.app, Pre.len, Pre.refl, Pre.self_app]
      · have hab : ¬ a = b := fun h => hba h.symm
        try simp only [State.put, State.putS, State.finish, State.write, upd_apply, if_neg hba, if_neg hab]
        first
        | exact hp2b
        | ((try log2_simp); grind [Pre.app, Pre.len, Pre.refl, Pre.self_app])
    · have hp3b := p3 b
      clear p1 p2 p3 b2
      by_cases hba : b = a
      · subst hba; (try log2_simp); grind
      · have hab : ¬ a = b := fun h => hba h.symm
        try simp only [State.put, State.putS, State.finish, State.write, upd_apply, if_neg hba, if_neg hab]
        first
        | exact hp3b
        | ((try log2_simp); grind))

set_option maxHeartbeats 1000000 in
theorem pinv_abort {s s' : State} {a : ActorId} {c : Choice} (inv1 : Inv1 s) (bnd : Bnd s) (lv : Linv s) (rv : Rinv s) (g : Pinv s)
    (hs : stepAbort s a (s.loc a) c = some s') : Pinv s' := by
  obtain ⟨p1, p2, p3⟩ := g
  obtain ⟨l1, l2, l3, l4⟩ := lv
  obtain ⟨b1, b2, b3, b4⟩ := bnd
  have l2a := l2 a
  have b2a := b2 a
  have p2a := p2 a
  have p3a := p3 a
  have r2a := rv.2.2.1 a
  have w := inv1.beginWf a
  clear b3 b4 l1 l3 l4 l2 b1 rv inv1
  simp only [ReadFlow, BeginWf] at *
  unfold stepAbort at hs
  conc_split hs
  all_goals (
    refine ⟨fun r hr => ?_, fun b t => ?_, fun b => ?_⟩
    · first
      | exact p1 r hr
      | (clear p2 p3 b2
         (try log2_simp_at hr); grind [Pre.app, Pre.len, Pre.refl, Pre.self_app])
    · have hp2b := p2 b t; have := b2 b t
      clear p1 p2 p3 b2
      by_cases hba : b = a
      · subst hba; (try log2_simp); grind [Pre.app, Pre.len, Pre.refl, Pre.self_app]
      · have hab : ¬ a = b := fun h => hba h.symm
        try simp only [State.put, State.putS, State.finish, State.write, upd_apply, if_neg hba, if_neg hab]
        first
        | exact hp2b
        | ((try log2_simp); grind [Pre.app, Pre.len, Pre.refl, Pre.self_app])
    · have hp3b := p3 b
      clear p1 p2 p3 b2
      by_cases hba : b = a
      · subst hba; (try log2_simp); grind
      · have hab : ¬ a = b := fun h => hba h.symm
        try simp only [State.put, State.putS, State.finish, State.write, upd_apply, if_neg hba, if_neg hab]
        first
        | exact hp3b
        | ((try log2_simp); grind))

set_option maxHeartbeats 1000000 in
theorem pinv_after {s s' : State} {a : ActorId} {c : Choice} (inv1 : Inv1 s) (bnd : Bnd s) (lv : Linv s) (rv : Rinv s) (g : Pinv s)
    (hpc : (s.loc a).pc = .after) (hs : stepAfter s a (s.loc a) c = some s') : Pinv s' := by
  obtain ⟨p1, p2, p3⟩ := g
  obtain ⟨l1, l2, l3, l4⟩ := lv
  obtain ⟨b1, b2, b3, b4⟩ := bnd
  have l2a := l2 a
  have b2a := b2 a
  have p2a := p2 a
  have p3a := p3 a
  have r2a := rv.2.2.1 a
  have w := inv1.beginWf a
  clear b3 b4 l1 l3 l4 l2 b1 rv inv1
  simp only [ReadFlow, BeginWf] at *
  unfold stepAfter at hs
  conc_split hs
  all_goals (
    refine ⟨fun r hr => ?_, fun b t => ?_, fun b => ?_⟩
    · first
      | exact p1 r hr
      | (clear p2 p3 b2
         (try log2_simp_at hr); grind [Pre.app, Pre.len, Pre.refl, Pre.self_app])
    · have hp2b := p2 b t; have := b2 b t
      clear p1 p2 p3 b2
      by_cases hba : b = a
      · subst hba; (try log2_simp); grind [Pre.app, Pre.len, Pre.refl, Pre.self_app]
      · have hab : ¬ a = b := fun h => hba h.symm
        try simp only [State.put, State.putS, State.finish, State.write, upd_apply, if_neg hba, if_neg hab]
        first
        | exact hp2b
        | ((try log2_simp); grind [Pre.app, Pre.len, Pre.refl, Pre.self_app])
    · have hp3b := p3 b
      clear p1 p2 p3 b2
      by_cases hba : b = a
      · subst hba; (try log2_simp); grind
      · have hab : ¬ a = b := fun h => hba h.symm
        try simp only [State.put, State.putS, State.finish, State.write, upd_apply, if_neg hba, if_neg hab]
        first
        | exact hp3b
        | ((try log2_simp); grind))

set_option maxHeartbeats 1000000 in
theorem pinv_use {s s' : State} {a : ActorId} {c : Choice} (inv1 : Inv1 s) (bnd : Bnd s) (lv : Linv s) (rv : Rinv s) (g : Pinv s)
    (hs : stepUse s a (s.loc a) c = some s') : Pinv s' := by
  obtain ⟨p1, p2, p3⟩ := g
  obtain ⟨l1, l2, l3, l4⟩ := lv
  obtain ⟨b1, b2, b3, b4⟩ := bnd
  have l2a := l2 a
  have b2a := b2 a
  have p2a := p2 a
  have p3a := p3 a
  have r2a := rv.2.2.1 a
  have w := inv1.beginWf a
  clear b3 b4 l1 l3 l4 l2 b1 rv inv1
  simp only [ReadFlow, BeginWf] at *
  unfold stepUse at hs
  conc_split hs
  all_goals (
    refine ⟨fun r hr => ?_, fun b t => ?_, fun b => ?_⟩
    · first
      | exact p1 r hr
      | (clear p2 p3 b2
         (try log2_simp_at hr); grind [Pre.app, Pre.len, Pre.refl, Pre.self_app])
    · have hp2b := p2 b t; have := b2 b t
      clear p1 p2 p3 b2
      by_cases hba : b = a
      · subst hba; (try log2_simp); grind [Pre.app, Pre.len, Pre.refl, Pre.self_app]
      · have hab : ¬ a = b := fun h => hba h.symm
        try simp only [State.put, State.putS, State.finish, State.write, upd_apply, if_neg hba, if_neg hab]
        first
        | exact hp2b
        | ((try log2_simp); grind [Pre.app, Pre.len, Pre.refl, Pre.self_app])
    · have hp3b := p3 b
      clear p1 p2 p3 b2
      by_cases hba : b = a
      · subst hba; (try log2_simp); grind
      · have hab : ¬ a = b := fun h => hba h.symm
        try simp only [State.put, State.putS, State.finish, State.write, upd_apply, if_neg hba, if_neg hab]
        first
        | exact hp3b
        | ((try log2_simp); grind))

set_option maxHeartbeats 1000000 in
theorem pinv_sess {s s' : State} {a : ActorId} {c : Choice} (inv1 : Inv1 s) (bnd : Bnd s) (lv : Linv s) (rv : Rinv s) (g : Pinv s)
    (hs : stepSess s a (s.loc a) c = some s') : Pinv s' := by
  obtain ⟨p1, p2, p3⟩ := g
  obtain ⟨l1, l2, l3, l4⟩ := lv
  obtain ⟨b1, b2, b3, b4⟩ := bnd
  have l2a := l2 a
  have b2a := b2 a
  have p2a := p2 a
  have p3a := p3 a
  have r2a := rv.2.2.1 a
  have w := inv1.beginWf a
  clear b3 b4 l1 l3 l4 l2 b1 rv inv1
  simp only [ReadFlow, BeginWf] at *
  unfold stepSess at hs
  conc_split hs
  all_goals (
    refine ⟨fun r hr => ?_, fun b t => ?_, fun b => ?_⟩
    · first
      | exact p1 r hr
      | (clear p2 p3 b2
         (try log2_simp_at hr); grind [Pre.app, Pre.len, Pre.refl, Pre.self_app])
    · have hp2b := p2 b t; have := b2 b t
      clear p1 p2 p3 b2
      by_cases hba : b = a
      · subst hba; (try log2_simp); grind [Pre.app, Pre.len, Pre.refl, Pre.self_app]
      · have hab : ¬ a = b := fun h => hba h.symm
        try simp only [State.put, State.putS, State.finish, State.write, upd_apply, if_neg hba, if_neg hab]
        first
        | exact hp2b
        | ((try log2_simp); grind [Pre.app, Pre.len, Pre.refl, Pre.self_app])
    · have hp3b := p3 b
      clear p1 p2 p3 b2
      by_cases hba : b = a
      · subst hba; (try log2_simp); grind
      · have hab : ¬ a = b := fun h => hba h.symm
        try simp only [State.put, State.putS, State.finish, State.write, upd_apply, if_neg hba, if_neg hab]
        first
        | exact hp3b
        | ((try log2_simp); grind))

set_option maxHeartbeats 1000000 in
theorem pinv_close {s s' : State} {a : ActorId} {c : Choice} (inv1 : Inv1 s) (bnd : Bnd s) (lv : Linv s) (rv : Rinv s) (g : Pinv s)
    (hs : stepClose s a (s.loc a) c = some s') : Pinv s' := by
  obtain ⟨p1, p2, p3⟩ := g
  obtain ⟨l1, l2, l3, l4⟩ := lv
  obtain ⟨b1, b2, b3, b4⟩ := bnd
  have l2a := l2 a
  have b2a := b2 a
  have p2a := p2 a
  have p3a := p3 a
  have r2a := rv.2.2.1 a
  have w := inv1.beginWf a
  clear b3 b4 l1 l3 l4 l2 b1 rv inv1
  simp only [ReadFlow, BeginWf] at *
  unfold stepClose at hs
  conc_split hs
  all_goals (
    refine ⟨fun r hr => ?_, fun b t => ?_, fun b => ?_⟩
    · first
      | exact p1 r hr
      | (clear p2 p3 b2
         (try log2_simp_at hr); grind [Pre.app, Pre.len, Pre.refl, Pre.self_app])
    · have hp2b := p2 b t; have := b2 b t
      clear p1 p2 p3 b2
      by_cases hba : b = a
      · subst hba; (try log2_simp); grind [Pre.app, Pre.len, Pre.refl, Pre.self_app]
      · have hab : ¬ a = b := fun h => hba h.symm
        try simp only [State.put, State.putS, State.finish, State.write, upd_apply, if_neg hba, if_neg hab]
        first
        | exact hp2b
        | ((try log2_simp); grind [Pre.app, Pre.len, Pre.refl, Pre.self_app])
    · have hp3b := p3 b
      clear p1 p2 p3 b2
      by_cases hba : b = a
      · subst hba; (try log2_simp); grind
      · have hab : ¬ a = b := fun h => hba h.symm
        try simp only [State.put, State.putS, State.finish, State.write, upd_apply, if_neg hba, if_neg hab]
        first
        | exact hp3b
        | ((try log2_simp); grind))

set_option maxHeartbeats 1000000 in
theorem pinv_exp {s s' : State} {a : ActorId} {c : Choice} (inv1 : Inv1 s) (bnd : Bnd s) (lv : Linv s) (rv : Rinv s) (g : Pinv s)
    (hs : stepExp s a (s.loc a) c = some s') : Pinv s' := by
  obtain ⟨p1, p2, p3⟩ := g
  obtain ⟨l1, l2, l3, l4⟩ := lv
  obtain ⟨b1, b2, b3, b4⟩ := bnd
  have l2a := l2 a
  have b2a := b2 a
  have p2a := p2 a
  have p3a := p3 a
  have r2a := rv.2.2.1 a
  have w := inv1.beginWf a
  clear b3 b4 l1 l3 l4 l2 b1 rv inv1
  simp only [ReadFlow, BeginWf] at *
  unfold stepExp at hs
  conc_split hs
  all_goals (
    refine ⟨fun r hr => ?_, fun b t => ?_, fun b => ?_⟩
    · first
      | exact p1 r hr
      | (clear p2 p3 b2
         (try log2_simp_at hr); grind [Pre.app, Pre.len, Pre.refl, Pre.self_app])
    · have hp2b := p2 b t; have := b2 b t
      clear p1 p2 p3 b2
      by_cases hba : b = a
      · subst hba; (try log2_simp); grind [Pre.app, Pre.len, Pre.refl, Pre.self_app]
      · have hab : ¬ a = b := fun h => hba h.symm
        try simp only [State.put, State.putS, State.finish, State.write, upd_apply, if_neg hba, if_neg hab]
        first
        | exact hp2b
        | ((try log2_simp); grind [Pre.app, Pre.len, Pre.refl, Pre.self_app])
    · have hp3b := p3 b
      clear p1 p2 p3 b2
      by_cases hba : b = a
      · subst hba; (try log2_simp); grind
      · have hab : ¬ a = b := fun h => hba h.symm
        try simp only [State.put, State.putS, State.finish, State.write, upd_apply, if_neg hba, if_neg hab]
        first
        | exact hp3b
        | ((try log2_simp); grind))

set_option maxHeartbeats 1000000 in
theorem hinv_idle {s s' : State} {a : ActorId} {c : Choice} (bnd : Bnd s) (g : Hinv s)
    (hpc : (s.loc a).pc = .idle) (hs : stepIdle s a (s.loc a) c = some s') : Hinv s' := by
  obtain ⟨b1, b2, b3, b4⟩ := bnd
  have b2a := b2 a
  clear b3 b4 b1 b2
  unfold stepIdle at hs
  conc_split hs
  all_goals (
    intro h hh
    first
    | exact g h hh
    | ((try log2_simp_at hh)
       first
       | (have := g h hh; grind [Pre.app, Pre.refl])
       | (rcases hh with hh | hh
          · have := g h hh; grind [Pre.app, Pre.refl]
          · subst hh
            simp only [List.append_assoc, if_true]
            grind [Pre.app, Pre.refl])))

set_option maxHeartbeats 1000000 in
theorem hinv_begin {s s' : State} {a : ActorId} {c : Choice} (bnd : Bnd s) (g : Hinv s)
    (hs : stepBegin s a (s.loc a) c = some s') : Hinv s' := by
  obtain ⟨b1, b2, b3, b4⟩ := bnd
  have b2a := b2 a
  clear b3 b4 b1 b2
  unfold stepBegin at hs
  conc_split hs
  all_goals (
    intro h hh
    first
    | exact g h hh
    | ((try log2_simp_at hh)
       first
       | (have := g h hh; grind [Pre.app, Pre.refl])
       | (rcases hh with hh | hh
          · have := g h hh; grind [Pre.app, Pre.refl]
          · subst hh
            simp only [List.append_assoc, if_true]
            grind [Pre.app, Pre.refl])))

set_option maxHeartbeats 1000000 in
theorem hinv_commit {s s' : State} {a : ActorId} {c : Choice} (bnd : Bnd s) (g : Hinv s)
    (hs : stepCommit s a (s.loc a) c = some s') : Hinv s' := by
  obtain ⟨b1, b2, b3, b4⟩ := bnd
  have b2a := b2 a
  clear b3 b4 b1 b2
  unfold stepCommit at hs
  conc_split hs
  all_goals (
    intro h hh
    first
    | exact g h hh
    | ((try log2_simp_at hh)
       first
       | (have := g h hh; grind [Pre.app, Pre.refl])
       | (rcases hh with hh | hh
          · have := g h hh; grind [Pre.app, Pre.refl]
          · subst hh
            simp only [List.append_assoc, if_true]
            grind [Pre.app, Pre.refl])))

set_option maxHeartbeats 1000000 in
theorem hinv_abort {s s' : State} {a : ActorId} {c : Choice} (bnd : Bnd s) (g : Hinv s)
    (hs : stepAbort s a (s.loc a) c = some s') : Hinv s' := by
  obtain ⟨b1, b2, b3, b4⟩ := bnd
  have b2a := b2 a
  clear b3 b4 b1 b2
  unfold stepAbort at hs
  conc_split hs
  all_goals (
    intro h hh
    first
    | exact g h hh
    | ((try log2_simp_at hh)
       first
       | (have := g h hh; grind [Pre.app, Pre.refl])
       | (rcases hh with hh | hh
          · have := g h hh; grind [Pre.app, Pre.refl]
          · subst hh
            simp only [List.append_assoc, if_true]
            grind [Pre.app, Pre.refl])))

set_option maxHeartbeats 1000000 in
theorem hinv_after {s s' : State} {a : ActorId} {c : Choice} (bnd : Bnd s) (g : Hinv s)
    (hpc : (s.loc a).pc = .after) (hs : stepAfter s a (s.loc a) c = some s') : Hinv s' := by
  obtain ⟨b1, b2, b3, b4⟩ := bnd
  have b2a := b2 a
  clear b3 b4 b1 b2
  unfold stepAfter at hs
  conc_split hs
  all_goals (
    intro h hh
    first
    | exact g h hh
    | ((try log2_simp_at hh)
       first
       | (have := g h hh; grind [Pre.app, Pre.refl])
       | (rcases hh with hh | hh
          · have := g h hh; grind [Pre.app, Pre.refl]
          · subst hh
            simp only [List.append_assoc, if_true]
            grind [Pre.app, Pre.refl])))

set_option maxHeartbeats 1000000 in
theorem hinv_use {s s' : State} {a : ActorId} {c : Choice} (bnd : Bnd s) (g : Hinv s)
    (hs : stepUse s a (s.loc a) c = some s') : Hinv s' := by
  obtain ⟨b1, b2, b3, b4⟩ := bnd
  have b2a := b2 a
  clear b3 b4 b1 b2
  unfold stepUse at hs
  conc_split hs
  all_goals (
    intro h hh
    first
    | exact g h hh
    | ((try log2_simp_at hh)
       first
       | (have := g h hh; grind [Pre.app, Pre.refl])
       | (rcases hh with hh | hh
          · have := g h hh; grind [Pre.app, Pre.refl]
          · subst hh
            simp only [List.append_assoc, if_true]
            grind [Pre.app, Pre.refl])))

set_option maxHeartbeats 1000000 in
theorem hinv_sess {s s' : State} {a : ActorId} {c : Choice} (bnd : Bnd s) (g : Hinv s)
    (hs : stepSess s a (s.loc a) c = some s') : Hinv s' := by
  obtain ⟨b1, b2, b3, b4⟩ := bnd
  have b2a := b2 a
  clear b3 b4 b1 b2
  unfold stepSess at hs
  conc_split hs
  all_goals (
    intro h hh
    first
    | exact g h hh
    | ((try log2_simp_at hh)
       first
       | (have := g h hh; grind [Pre.app, Pre.refl])
       | (rcases hh with hh | hh
          · have := g h hh; grind [Pre.app, Pre.refl]
          · subst hh
            simp only [List.append_assoc, if_true]
            grind [Pre.app, Pre.refl])))

set_option maxHeartbeats 1000000 in
theorem hinv_close {s s' : State} {a : ActorId} {c : Choice} (bnd : Bnd s) (g : Hinv s)
    (hs : stepClose s a (s.loc a) c = some s') : Hinv s' := by
  obtain ⟨b1, b2, b3, b4⟩ := bnd
  have b2a := b2 a
  clear b3 b4 b1 b2
  unfold stepClose at hs
  conc_split hs
  all_goals (
    intro h hh
    first
    | exact g h hh
    | ((try log2_simp_at hh)
       first
       | (have := g h hh; grind [Pre.app, Pre.refl])
       | (rcases hh with hh | hh
          · have := g h hh; grind [Pre.app, Pre.refl]
          · subst hh
            simp only [List.append_assoc, if_true]
            grind [Pre.app, Pre.refl])))

set_option maxHeartbeats 1000000 in
theorem hinv_exp {s s' : State} {a : ActorId} {c : Choice} (bnd : Bnd s) (g : Hinv s)
    (hs : stepExp s a (s.loc a) c = some s') : Hinv s' := by
  obtain ⟨b1, b2, b3, b4⟩ := bnd
  have b2a := b2 a
  clear b3 b4 b1 b2
  unfold stepExp at hs
  conc_split hs
  all_goals (
    intro h hh
    first
    | exact g h hh
    | ((try log2_simp_at hh)
       first
       | (have := g h hh; grind [Pre.app, Pre.refl])
       | (rcases hh with hh | hh
          · have := g h hh; grind [Pre.app, Pre.refl]
          · subst hh
            simp only [List.append_assoc, if_true]
            grind [Pre.app, Pre.refl])))

end Lungo.Conc
