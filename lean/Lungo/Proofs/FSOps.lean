/-
  Lungo.Proofs.FSOps — each file-system operation (with any fault choice) preserves the invariants.
-/
import Lungo.Proofs.FS
namespace Lungo.FS

structure Base (s : State) (p : Name) (A : Option Bytes → Prop) : Prop where
  wf : WF s
  inv : PathInv s p A

theorem Base.mono {s p A B} (hAB : ∀ x, A x → B x) (h : Base s p A) : Base s p B := ⟨h.wf, h.inv.mono hAB⟩

/-- inode `h` is not (and cannot become, through pending operations) the inode of name `p` -/
structure Private (s : State) (p : Name) (h : Ino) : Prop where
  d : s.ddir p ≠ some h
  v : s.vdir p ≠ some h
  pend : ∀ op ∈ s.pending, op.effect p ≠ some (some h)

theorem unlink_base {s p A n} (hn : n ≠ p) (fail : Bool) (h : Base s p A) : Base (unlink s n fail).1 p A := by
  unfold unlink
  split
  · exact h
  · split
    · exact h
    · have hpn : p ≠ n := fun e => hn e.symm
      refine ⟨⟨?_, h.wf.d, ?_⟩, ⟨h.inv.d, ?_, ?_⟩⟩
      · intro m i hm
        simp only [Dir.set] at hm
        split at hm
        · cases hm
        · exact h.wf.v m i hm
      · intro op hm i hi
        rcases List.mem_append.mp hm with hm | hm
        · exact h.wf.pend op hm i hi
        · simp only [List.mem_singleton] at hm; subst hm; cases hi
      · simp only [Dir.set, if_neg hpn]; exact h.inv.v
      · intro op hm v he
        rcases List.mem_append.mp hm with hm | hm
        · exact h.inv.pend op hm v he
        · simp only [List.mem_singleton] at hm; subst hm
          simp [DirOp.effect, hpn] at he

theorem createExcl_base {s p A n} (hn : n ≠ p) (fail : Bool) (h : Base s p A) : Base (createExcl s n fail).1 p A := by
  unfold createExcl
  split
  · exact h
  · split
    · exact h
    · have hpn : p ≠ n := fun e => hn e.symm
      have okc : ∀ v, (∀ i, v = some i → i < s.next) → ValOK s A v →
          ValOK { s with ino := setIno s.ino s.next ⟨[], []⟩, next := s.next + 1, vdir := s.vdir.set n (some s.next),
                         pending := s.pending ++ [.link n s.next], fds := .file s.next :: s.fds } A v := by
        intro v hv hok
        refine ValOK.congr ?_ hok
        intro i hi
        have := hv i hi
        simp only [setIno]
        rw [if_neg (Nat.ne_of_lt this)]
      refine ⟨⟨?_, ?_, ?_⟩, ⟨?_, ?_, ?_⟩⟩
      · intro m i hm
        simp only [Dir.set] at hm
        split at hm
        · cases hm; exact Nat.lt_succ_self _
        · exact Nat.lt_succ_of_lt (h.wf.v m i hm)
      · intro m i hm; exact Nat.lt_succ_of_lt (h.wf.d m i hm)
      · intro op hm i hi
        rcases List.mem_append.mp hm with hm | hm
        · exact Nat.lt_succ_of_lt (h.wf.pend op hm i hi)
        · simp only [List.mem_singleton] at hm; subst hm
          simp only [DirOp.inoRef, Option.some.injEq] at hi; subst hi; exact Nat.lt_succ_self _
      · exact okc _ (h.wf.d p) h.inv.d
      · simp only [Dir.set, if_neg hpn]; exact okc _ (h.wf.v p) h.inv.v
      · intro op hm v he
        rcases List.mem_append.mp hm with hm | hm
        · refine okc _ ?_ (h.inv.pend op hm v he)
          intro i hi; subst hi
          exact h.wf.pend op hm i (effect_inoRef he)
        · simp only [List.mem_singleton] at hm; subst hm
          simp [DirOp.effect, hpn] at he

/-- a state that differs from `s` only in the bytes of inode `h` (and descriptors) -/
theorem base_of_ino_change {s s' : State} {p A h}
    (hv : s'.vdir = s.vdir) (hd : s'.ddir = s.ddir) (hp : s'.pending = s.pending) (hn : s'.next = s.next)
    (hi : ∀ i, i ≠ h → s'.ino i = s.ino i) (hst : ∀ c, Stable s h c → Stable s' h c)
    (hb : Base s p A) : Base s' p A := by
  have okc : ∀ v, ValOK s A v → ValOK s' A v := by
    intro v hok
    cases v with
    | none => exact hok
    | some i =>
      obtain ⟨c, hs, ha⟩ := hok
      refine ⟨c, ?_, ha⟩
      by_cases e : i = h
      · subst e; exact hst c hs
      · unfold Stable at *; rw [hi i e]; exact hs
  refine ⟨⟨?_, ?_, ?_⟩, ⟨?_, ?_, ?_⟩⟩
  · rw [hv, hn]; exact hb.wf.v
  · rw [hd, hn]; exact hb.wf.d
  · rw [hp, hn]; exact hb.wf.pend
  · rw [hd]; exact okc _ hb.inv.d
  · rw [hv]; exact okc _ hb.inv.v
  · rw [hp]; intro op hm v he; exact okc _ (hb.inv.pend op hm v he)

/-- writing to a private inode -/
theorem base_of_private_write {s s' : State} {p A h}
    (hv : s'.vdir = s.vdir) (hd : s'.ddir = s.ddir) (hp : s'.pending = s.pending) (hn : s'.next = s.next)
    (hi : ∀ i, i ≠ h → s'.ino i = s.ino i) (hpr : Private s p h)
    (hb : Base s p A) : Base s' p A := by
  have okc : ∀ v, v ≠ some h → ValOK s A v → ValOK s' A v := by
    intro v hne hok
    refine ValOK.congr ?_ hok
    intro i e; subst e
    exact hi i (fun e => hne (by rw [e]))
  refine ⟨⟨?_, ?_, ?_⟩, ⟨?_, ?_, ?_⟩⟩
  · rw [hv, hn]; exact hb.wf.v
  · rw [hd, hn]; exact hb.wf.d
  · rw [hp, hn]; exact hb.wf.pend
  · rw [hd]; exact okc _ hpr.d hb.inv.d
  · rw [hv]; exact okc _ hpr.v hb.inv.v
  · rw [hp]; intro op hm v he
    refine okc _ ?_ (hb.inv.pend op hm v he)
    intro e; subst e; exact hpr.pend op hm he

theorem write_base {s p A h} (bs : Bytes) (fail : Option Nat) (hpr : Private s p h) (hb : Base s p A) :
    Base (write s h bs fail).1 p A := by
  unfold write
  split
  · split
    · exact base_of_private_write (s := s) rfl rfl rfl rfl (fun i e => by simp [setIno, e]) hpr hb
    · exact base_of_private_write (s := s) rfl rfl rfl rfl (fun i e => by simp [setIno, e]) hpr hb
  · exact hb

theorem fsync_base {s p A h} (fail : Bool) (hb : Base s p A) : Base (fsync s h fail).1 p A := by
  unfold fsync
  split
  · split
    · exact hb
    · refine base_of_ino_change (s := s) (h := h) rfl rfl rfl rfl (fun i e => by simp [setIno, e]) ?_ hb
      intro c hs
      unfold Stable at *
      simp [setIno, hs]
  · exact hb

theorem close_base {s p A} (fd : Fd) (fail : Bool) (hb : Base s p A) : Base (close s fd fail).1 p A := by
  unfold close
  split
  · exact base_of_ino_change (s := s) (h := 0) rfl rfl rfl rfl (fun _ _ => rfl) (fun _ hs => hs) hb
  · exact hb

theorem openDir_base {s p A} (fail : Bool) (hb : Base s p A) : Base (openDir s fail).1 p A := by
  unfold openDir
  split
  · exact hb
  · exact base_of_ino_change (s := s) (h := 0) rfl rfl rfl rfl (fun _ _ => rfl) (fun _ hs => hs) hb

theorem rename_base {s p A a} (ha : a ≠ p) (fail : Bool)
    (hsrc : ∀ i, s.vdir a = some i → ∃ c, Stable s i c ∧ A (some c)) (hb : Base s p A) :
    Base (rename s a p fail).1 p A := by
  unfold rename
  split
  · exact hb
  · split
    · exact hb
    · rename_i i hvi
      have hpa : p ≠ a := fun e => ha e.symm
      have hok : ValOK s A (some i) := hsrc i hvi
      refine ⟨⟨?_, hb.wf.d, ?_⟩, ⟨hb.inv.d, ?_, ?_⟩⟩
      · intro m j hm
        simp only [Dir.set] at hm
        split at hm
        · cases hm; exact hb.wf.v a i hvi
        · split at hm
          · cases hm
          · exact hb.wf.v m j hm
      · intro op hm j hj
        rcases List.mem_append.mp hm with hm | hm
        · exact hb.wf.pend op hm j hj
        · simp only [List.mem_singleton] at hm; subst hm
          simp only [DirOp.inoRef, Option.some.injEq] at hj; subst hj; exact hb.wf.v a _ hvi
      · simp only [Dir.set, if_true]; exact hok
      · intro op hm v he
        rcases List.mem_append.mp hm with hm | hm
        · exact hb.inv.pend op hm v he
        · simp only [List.mem_singleton] at hm; subst hm
          simp only [DirOp.effect, if_true, Option.some.injEq] at he; subst he; exact hok

theorem fsyncDir_base {s p A} (fail : Bool) (hb : Base s p A) : Base (fsyncDir s fail).1 p A := by
  unfold fsyncDir
  split
  · split
    · exact hb
    · refine ⟨⟨hb.wf.v, ?_, by intro op hm; cases hm⟩, ⟨?_, hb.inv.v, by intro op hm; cases hm⟩⟩
      · intro n i hni
        rcases applyAll_cases s.pending s.ddir n with he | ⟨op, hm, he⟩
        · exact hb.wf.d n i (by rw [← he]; exact hni)
        · exact hb.wf.pend op hm i (effect_inoRef (by rw [he]; exact congrArg some hni))
      · exact hb.inv.sub_ok (List.Sublist.refl _)
  · exact hb

end Lungo.FS
