/-
  Lungo.Proofs.AccessLaws — laws of bsonkit's path access (get / put / Put / Unset), stated over
  segment lists (`Path`); used by C11.
-/
import Lungo.Model.Access
namespace Lungo

/-! ### Path strings always split into at least one segment -/

theorem splitOnAux_ne_nil (s sep : String) (b i j : String.Pos.Raw) (r : List String) :
    String.splitOnAux s sep b i j r ≠ [] := by
  fun_induction String.splitOnAux s sep b i j r <;> simp_all

theorem splitPath_ne_nil (s : String) : splitPath s ≠ [] := by
  unfold splitPath String.splitOn
  split
  · simp
  · exact splitOnAux_ne_nil _ _ _ _ _ _

/-! ### list helpers -/

theorem listSet_eq_set {α} (l : List α) (n : Nat) (x : α) : listSet l n x = l.set n x := by
  induction l generalizing n with
  | nil => rfl
  | cons a r ih => cases n with
    | zero => rfl
    | succ n => simp [listSet, ih]

theorem fieldIndex_cons (kv : String × V) (r : List (String × V)) (key : String) :
    fieldIndex (kv :: r) key = if kv.1 == key then some 0 else (fieldIndex r key).map (· + 1) := by
  simp [fieldIndex, List.findIdx?_cons]

/-- the first field with the key is at the index found, earlier keys differ. -/
theorem fieldIndex_some_key {fs : List (String × V)} {key : String} {i : Nat} {k : String} {old : V}
    (hi : fieldIndex fs key = some i) (he : fs[i]? = some (k, old)) : k = key := by
  unfold fieldIndex at hi
  have := List.findIdx?_eq_some_iff_getElem.mp hi
  obtain ⟨hlt, hp, _⟩ := this
  rw [List.getElem?_eq_getElem hlt] at he
  injection he with he
  rw [he] at hp
  simpa using hp

theorem fieldIndex_some_lt {fs : List (String × V)} {key : String} {i : Nat}
    (hi : fieldIndex fs key = some i) : i < fs.length := by
  unfold fieldIndex at hi
  exact (List.findIdx?_eq_some_iff_getElem.mp hi).1

/-- replacing the value of a field keeps every key lookup. -/
theorem fieldIndex_set {fs : List (String × V)} {i : Nat} {k : String} {old : V} (nv : V)
    (he : fs[i]? = some (k, old)) (key' : String) :
    fieldIndex (fs.set i (k, nv)) key' = fieldIndex fs key' := by
  induction fs generalizing i with
  | nil => rfl
  | cons a r ih =>
    cases i with
    | zero =>
      simp at he; subst he
      simp [fieldIndex_cons]
    | succ n =>
      simp at he
      simp [fieldIndex_cons, ih he]

theorem fieldIndex_append_new {fs : List (String × V)} {key : String} (nv : V)
    (h : fieldIndex fs key = none) : fieldIndex (fs ++ [(key, nv)]) key = some fs.length := by
  unfold fieldIndex at h ⊢
  rw [List.findIdx?_append, h]
  simp [List.findIdx?_cons]

/-! ### one-step unfoldings of get -/

theorem get_nil (v : V) (c k : Bool) : get v [] c k = (v, false) := by
  rw [get]

theorem get_cons_doc (fs : List (String × V)) (key : String) (rest : Path) (c k : Bool)
    (h : ¬(key == "" && rest.isEmpty) = true) :
    get (.doc fs) (key :: rest) c k = getField fs key rest c k := by
  rw [get]; simp only [h]; simp

theorem get_cons_missing (key : String) (rest : Path) (c k : Bool) :
    get .missing (key :: rest) c k = (.missing, false) := by
  simp only [get]; split <;> rfl

theorem get_missing (p : Path) (c k : Bool) : get .missing p c k = (.missing, false) := by
  cases p with
  | nil => exact get_nil _ _ _
  | cons a r => exact get_cons_missing _ _ _ _

theorem getIdx_eq (xs : List V) (i : Nat) (rest : Path) (c k : Bool) :
    getIdx xs i rest c k = (xs[i]?).map (fun v => get v rest c k) := by
  induction xs generalizing i with
  | nil => simp [getIdx]
  | cons x r ih =>
    cases i with
    | zero => simp [getIdx]
    | succ n => simp [getIdx, ih]

/-- `get` on an array without fan-out (collect = false): index or Missing. -/
theorem get_cons_arr (xs : List V) (key : String) (rest : Path) (k : Bool)
    (h : ¬(key == "" && rest.isEmpty) = true) :
    get (.arr xs) (key :: rest) false k =
      match parseIndex key with
      | some idx => (match xs[idx]? with
          | some v => get v rest false k
          | none => (.missing, false))
      | none => (.missing, false) := by
  rw [get]; simp only [h]
  cases parseIndex key with
  | none => simp
  | some i =>
    simp only [getIdx_eq]
    cases xs[i]? <;> simp

theorem getField_eq (fs : List (String × V)) (key : String) (rest : Path) (c k : Bool) :
    getField fs key rest c k =
      match fieldIndex fs key with
      | some i => (match fs[i]? with
          | some kv => get kv.2 rest c k
          | none => (.missing, false))
      | none => (.missing, false) := by
  induction fs with
  | nil => simp [getField, fieldIndex]
  | cons x r ih =>
    obtain ⟨k', v'⟩ := x
    rw [getField, fieldIndex_cons]
    by_cases h : (k' == key) = true
    · simp [h]
    · simp only [h, if_false, Bool.false_eq_true]
      rw [ih]
      cases fieldIndex r key <;> simp

/-! ### one-step unfoldings of put -/

theorem put_nil (v x : V) (pre : Bool) : put v [] x pre = .ok (x, v) := by
  rw [put]

theorem put_doc_hit {fs : List (String × V)} {key : String} {rest : Path} {x : V} {pre : Bool}
    {i : Nat} {k : String} {old nvc pv : V}
    (hk : ¬(key == "" && rest.isEmpty) = true) (hi : fieldIndex fs key = some i)
    (he : fs[i]? = some (k, old)) (hc : put old rest x pre = .ok (nvc, pv))
    (hm : nvc.isMissing = false) :
    put (.doc fs) (key :: rest) x pre = .ok (.doc (fs.set i (k, nvc)), pv) := by
  rw [put]; simp only [hk, hi, he, hc, hm, listSet_eq_set]; simp

theorem put_arr_hit {xs : List V} {key : String} {rest : Path} {x : V} {pre : Bool}
    {index : Nat} {old nvc pv : V}
    (hk : ¬(key == "" && rest.isEmpty) = true) (ha : parseIndex key = some index)
    (hr : ¬(index == maxInt) = true)
    (he : xs[index]? = some old) (hc : put old rest x pre = .ok (nvc, pv))
    (hm : nvc.isMissing = false) :
    put (.arr xs) (key :: rest) x pre = .ok (.arr (xs.set index nvc), pv) := by
  have hlt : index < xs.length := by
    rcases Nat.lt_or_ge index xs.length with h | h
    · exact h
    · rw [List.getElem?_eq_none h] at he; cases he
  rw [put]; simp only [hk, ha, hr, hlt, he, hc, hm, listSet_eq_set]; simp

theorem put_doc_hit_err {fs : List (String × V)} {key : String} {rest : Path} {x : V} {pre : Bool}
    {i : Nat} {k : String} {old : V} {e : Err}
    (hk : ¬(key == "" && rest.isEmpty) = true) (hi : fieldIndex fs key = some i)
    (he : fs[i]? = some (k, old)) (hc : put old rest x pre = .error e) :
    put (.doc fs) (key :: rest) x pre = .error e := by
  rw [put]; simp only [hk, hi, he, hc]; simp

theorem put_arr_hit_err {xs : List V} {key : String} {rest : Path} {x : V} {pre : Bool}
    {index : Nat} {old : V} {e : Err}
    (hk : ¬(key == "" && rest.isEmpty) = true) (ha : parseIndex key = some index)
    (hr : ¬(index == maxInt) = true)
    (he : xs[index]? = some old) (hc : put old rest x pre = .error e) :
    put (.arr xs) (key :: rest) x pre = .error e := by
  have hlt : index < xs.length := by
    rcases Nat.lt_or_ge index xs.length with h | h
    · exact h
    · rw [List.getElem?_eq_none h] at he; cases he
  rw [put]; simp only [hk, ha, hr, hlt, he, hc]; simp

/-- unsetting an array element whose sub-path removal yields the marker stores null. -/
theorem put_arr_hit_null {xs : List V} {key : String} {rest : Path} {x : V} {pre : Bool}
    {index : Nat} {old nvc pv : V}
    (hk : ¬(key == "" && rest.isEmpty) = true) (ha : parseIndex key = some index)
    (hr : ¬(index == maxInt) = true)
    (he : xs[index]? = some old) (hc : put old rest x pre = .ok (nvc, pv))
    (hm : nvc.isMissing = true) :
    put (.arr xs) (key :: rest) x pre = .ok (.arr (xs.set index .null), pv) := by
  have hlt : index < xs.length := by
    rcases Nat.lt_or_ge index xs.length with h | h
    · exact h
    · rw [List.getElem?_eq_none h] at he; cases he
  rw [put]; simp only [hk, ha, hr, hlt, he, hc, hm, listSet_eq_set]; simp

/-! ### put: basic facts -/

/-- `put` never panics: its only error is the plain error. -/
theorem put_error_err (v : V) (p : Path) (x : V) (pre : Bool) (e : Err)
    (h : put v p x pre = .error e) : e = .err := by
  fun_induction put v p x pre generalizing e <;> simp_all

/-- writing a present value never yields the "remove me" marker. -/
theorem put_not_missing (v : V) (p : Path) (x : V) (pre : Bool) (nv prev : V)
    (h : put v p x pre = .ok (nv, prev)) (hx : x.isMissing = false) : nv.isMissing = false := by
  fun_induction put v p x pre generalizing nv prev <;> cases h <;> (try rfl)
  exact hx

/-- on a document with a non-empty path, `put` returns a document. -/
theorem put_doc_isDoc (fs : List (String × V)) (key : String) (rest : Path) (x : V) (pre : Bool)
    (nv prev : V) (h : put (.doc fs) (key :: rest) x pre = .ok (nv, prev)) : ∃ fs', nv = .doc fs' := by
  rw [put] at h
  split at h
  · cases h
  · split at h
    · split at h
      · split at h
        · split at h <;> cases h <;> exact ⟨_, rfl⟩
        · cases h
      · cases h
    · split at h
      · cases h
      · split at h
        · split at h <;> cases h <;> exact ⟨_, rfl⟩
        · cases h

/-! ### get after put -/

/-- `get_put_same`: reading back the path just written (no fan-out) yields the written value.
    No side condition on the path: `put` and `get` parse array indexes identically (ParseIndex). -/
theorem get_put_same (v : V) (p : Path) (x : V) (pre : Bool) (nv prev : V) (k : Bool)
    (h : put v p x pre = .ok (nv, prev)) (hx : x.isMissing = false) :
    get nv p false k = (x, false) := by
  fun_induction put v p x pre generalizing nv prev <;> cases h
  · -- []
    exact get_nil _ _ _
  · -- doc, field present, child removed: impossible for a present value
    rename_i h1 hm _
    have := put_not_missing _ _ _ _ _ _ h1 hx
    simp [this] at hm
  · -- doc, field present
    rename_i key rest hk fs i hi kk old he nvc pv hc hm ih
    have hkey := fieldIndex_some_key hi he
    have hlt := fieldIndex_some_lt hi
    have e1 : get (.doc (listSet fs i (kk, nvc))) (key :: rest) false k = get nvc rest false k := by
      rw [get_cons_doc _ _ _ _ _ hk, getField_eq, listSet_eq_set, fieldIndex_set nvc he, hi]
      simp [hlt]
    rw [e1]; exact ih _ _ hc
  · -- doc, new field, prepend
    rename_i key rest hk fs hi hvm nvc pv hc hpre ih
    have e1 : get (.doc ((key, nvc) :: fs)) (key :: rest) false k = get nvc rest false k := by
      rw [get_cons_doc _ _ _ _ _ hk, getField_eq, fieldIndex_cons]; simp
    rw [e1]; exact ih _ _ hc
  · -- doc, new field, append
    rename_i key rest hk fs hi hvm nvc pv hc hpre ih
    have e1 : get (.doc (fs ++ [(key, nvc)])) (key :: rest) false k = get nvc rest false k := by
      rw [get_cons_doc _ _ _ _ _ hk, getField_eq, fieldIndex_append_new nvc hi]; simp
    rw [e1]; exact ih _ _ hc
  · -- array, element present
    rename_i key rest hk xs idx ha hr hlt old he nvc pv hc ih
    have hnm := put_not_missing _ _ _ _ _ _ hc hx
    simp only [hnm, Bool.false_eq_true, if_false, listSet_eq_set]
    rw [get_cons_arr _ _ _ _ hk]
    simp only [ha, List.getElem?_set_self hlt]
    exact ih _ _ hc
  · -- array, padded
    rename_i key rest hk xs idx ha hr hlt hvm hpad nvc pv hc ih
    have hnm := put_not_missing _ _ _ _ _ _ hc hx
    simp only [hnm, Bool.false_eq_true, if_false]
    rw [get_cons_arr _ _ _ _ hk]
    have hge : xs.length ≤ idx := Nat.le_of_not_lt hlt
    have e3 : (xs ++ List.replicate (idx - xs.length) V.null ++ [nvc])[idx]? = some nvc := by
      rw [List.getElem?_append_right (by simp; omega)]
      have : idx - (xs ++ List.replicate (idx - xs.length) V.null).length = 0 := by simp; omega
      rw [this]; rfl
    simp only [ha, e3]
    exact ih _ _ hc
  · -- missing: create a document
    rename_i key rest hk hvm nvc pv hc ih
    have e1 : get (.doc [(key, nvc)]) (key :: rest) false k = get nvc rest false k := by
      rw [get_cons_doc _ _ _ _ _ hk, getField_eq, fieldIndex_cons]; simp
    rw [e1]; exact ih _ _ hc

/-! ### put is idempotent -/

theorem set_self_of_getElem? {α} {l : List α} {i : Nat} {a : α} (h : l[i]? = some a) : l.set i a = l := by
  induction l generalizing i with
  | nil => rfl
  | cons b r ih =>
    cases i with
    | zero => simp at h; simp [h]
    | succ n => simp at h; simp [ih h]

/-- Writing the same present value a second time at the same path returns the same value tree
    (and reports the value as the previous one). No side condition on the path. -/
theorem put_idempotent (v : V) (p : Path) (x : V) (pre : Bool) (nv prev : V)
    (h : put v p x pre = .ok (nv, prev)) (hx : x.isMissing = false) :
    put nv p x pre = .ok (nv, x) := by
  fun_induction put v p x pre generalizing nv prev <;> cases h
  · exact put_nil _ _ _
  · rename_i h1 hm _
    have := put_not_missing _ _ _ _ _ _ h1 hx
    simp [this] at hm
  · rename_i key rest hk fs i hi kk old he nvc pv hc hm ih
    have hlt := fieldIndex_some_lt hi
    have hnm := put_not_missing _ _ _ _ _ _ hc hx
    rw [listSet_eq_set]
    have he' : (fs.set i (kk, nvc))[i]? = some (kk, nvc) := by simp [hlt]
    rw [put_doc_hit hk (by rw [fieldIndex_set nvc he]; exact hi) he' (ih _ _ hc) hnm]
    simp
  · rename_i key rest hk fs hi hvm nvc pv hc hpre ih
    have hnm := put_not_missing _ _ _ _ _ _ hc hx
    have hi' : fieldIndex ((key, nvc) :: fs) key = some 0 := by simp [fieldIndex_cons]
    rw [put_doc_hit hk hi' (by rfl) (ih _ _ hc) hnm]
    simp
  · rename_i key rest hk fs hi hvm nvc pv hc hpre ih
    have hnm := put_not_missing _ _ _ _ _ _ hc hx
    have he' : (fs ++ [(key, nvc)])[fs.length]? = some (key, nvc) := by simp
    rw [put_doc_hit hk (fieldIndex_append_new nvc hi) he' (ih _ _ hc) hnm]
    rw [set_self_of_getElem? he']
  · rename_i key rest hk xs idx ha hr hlt old he nvc pv hc ih
    have hnm := put_not_missing _ _ _ _ _ _ hc hx
    simp only [hnm, Bool.false_eq_true, if_false, listSet_eq_set]
    have he' : (xs.set idx nvc)[idx]? = some nvc := by simp [hlt]
    rw [put_arr_hit hk ha hr he' (ih _ _ hc) hnm]
    simp
  · rename_i key rest hk xs idx ha hr hlt hvm hpad nvc pv hc ih
    have hnm := put_not_missing _ _ _ _ _ _ hc hx
    simp only [hnm, Bool.false_eq_true, if_false]
    have hge : xs.length ≤ idx := Nat.le_of_not_lt hlt
    have he' : (xs ++ List.replicate (idx - xs.length) V.null ++ [nvc])[idx]? = some nvc := by
      rw [List.getElem?_append_right (by simp; omega)]
      have : idx - (xs ++ List.replicate (idx - xs.length) V.null).length = 0 := by
        simp; omega
      rw [this]; rfl
    rw [put_arr_hit hk ha hr he' (ih _ _ hc) hnm]
    rw [set_self_of_getElem? he']
  · rename_i key rest hk hvm nvc pv hc ih
    have hnm := put_not_missing _ _ _ _ _ _ hc hx
    have hi' : fieldIndex [(key, nvc)] key = some 0 := by simp [fieldIndex_cons]
    rw [put_doc_hit hk hi' (by rfl) (ih _ _ hc) hnm]
    simp

/-! ### Put / Unset on documents: no panic, shape of the result -/

/-- only an empty path makes `put` return the "remove me" marker or a non-container. -/
theorem put_cons_container (v : V) (key : String) (rest : Path) (x : V) (pre : Bool) (nv prev : V)
    (h : put v (key :: rest) x pre = .ok (nv, prev)) : (∃ fs, nv = .doc fs) ∨ (∃ xs, nv = .arr xs) := by
  generalize hp : key :: rest = p at h
  fun_induction put v p x pre <;> cases h <;> cases hp <;>
    first | exact .inl ⟨_, rfl⟩ | exact .inr ⟨_, rfl⟩

theorem put_missing_nil (v : V) (p : Path) (x : V) (pre : Bool) (nv prev : V)
    (h : put v p x pre = .ok (nv, prev)) (hm : nv.isMissing = true) : p = [] := by
  cases p with
  | nil => rfl
  | cons key rest =>
    rcases put_cons_container _ _ _ _ _ _ _ h with ⟨_, e⟩ | ⟨_, e⟩ <;> (rw [e] at hm; cases hm)

/-- `bsonkit.Put` never panics on a non-empty path (the type assertion `v.(bson.D)` holds). -/
theorem Put_error_err (d : Doc) (p : Path) (x : V) (pre : Bool) (e : Err) (hp : p ≠ [])
    (h : Put d p x pre = .error e) : e = .err := by
  unfold Put at h
  split at h
  · cases h; rfl
  · split at h
    · cases h
    · rename_i hput
      cases p with
      | nil => exact absurd rfl hp
      | cons key rest =>
        obtain ⟨fs', e'⟩ := put_doc_isDoc _ _ _ _ _ _ _ hput
        rename_i hne
        exact (hne _ e').elim
    · rename_i hput; cases h; exact put_error_err _ _ _ _ _ hput

theorem Put_ok_iff (d : Doc) (key : String) (rest : Path) (x : V) (pre : Bool) (d' : Doc) (prev : V) :
    Put d (key :: rest) x pre = .ok (d', prev) ↔
      (x.isMissing = false ∧ put (.doc d) (key :: rest) x pre = .ok (.doc d', prev)) := by
  unfold Put
  constructor
  · intro h
    split at h
    · cases h
    · rename_i hx
      split at h
      · rename_i hput; cases h; exact ⟨by simpa using hx, hput⟩
      · cases h
      · cases h
  · rintro ⟨hx, hput⟩
    simp [hx, hput]

/-- shape of a successful `put` on a document: the addressed field is replaced in place, removed,
    or (when absent) added at the front (`prepend`) or at the end; nothing else moves. -/
theorem put_doc_shape (fs : List (String × V)) (key : String) (rest : Path) (x : V) (pre : Bool)
    (nv prev : V) (h : put (.doc fs) (key :: rest) x pre = .ok (nv, prev)) :
    match fieldIndex fs key with
    | some i => ∃ old, fs[i]? = some (key, old) ∧
        ((x.isMissing = true ∧ nv = .doc (fs.eraseIdx i)) ∨ ∃ nvc, nv = .doc (fs.set i (key, nvc)))
    | none => x.isMissing = false ∧ ∃ nvc, nv = .doc (if pre then (key, nvc) :: fs else fs ++ [(key, nvc)]) := by
  generalize hv : V.doc fs = v at h
  generalize hp : key :: rest = p at h
  fun_induction put v p x pre <;> cases h <;> cases hp <;> cases hv
  · rename_i i kk old nvc hm hc hk he hi ih
    have hkey := fieldIndex_some_key hi he
    subst hkey
    rw [hi]
    refine ⟨old, he, .inl ⟨?_, rfl⟩⟩
    cases hx : x.isMissing with
    | true => rfl
    | false => rw [put_not_missing _ _ _ _ _ _ hc hx] at hm; cases hm
  · rename_i i kk old nvc hm hc hk he hi ih
    have hkey := fieldIndex_some_key hi he
    subst hkey
    rw [hi]
    exact ⟨old, he, .inr ⟨nvc, by rw [listSet_eq_set]⟩⟩
  · rename_i hvm nvc pv hpre hc hk hi ih
    rw [hi]
    exact ⟨by simpa using hvm, nvc, by simp [hpre]⟩
  · rename_i hvm nvc pv hpre hc hk hi ih
    rw [hi]
    exact ⟨by simpa using hvm, nvc, by simp [hpre]⟩

/-- `Unset` result in terms of `put`. -/
theorem Unset_eq (d : Doc) (key : String) (rest : Path) :
    Unset d (key :: rest) =
      match put (.doc d) (key :: rest) .missing false with
      | .ok (nv, prev) => (match nv with | .doc d' => (d', prev) | _ => (d, .missing))
      | .error _ => (d, .missing) := by
  unfold Unset
  split
  · rename_i h; rw [h]
  · rename_i hne
    split
    · split
      · rename_i h; exact (hne _ _ h).elim
      · rfl
    · rfl

/-! ### Unset: idempotence and read-back (documents without duplicate keys) -/

mutual
/-- no document inside the value has two fields with the same key. -/
def V.nodupKeys : V → Bool
  | .doc fs => nodupFields fs
  | .arr xs => nodupList xs
  | _ => true
def nodupFields : List (String × V) → Bool
  | [] => true
  | (k, v) :: r => !(r.any fun kv => kv.1 == k) && v.nodupKeys && nodupFields r
def nodupList : List V → Bool
  | [] => true
  | v :: r => v.nodupKeys && nodupList r
end

theorem nodupFields_getElem {fs : List (String × V)} {i : Nat} {k : String} {v : V}
    (h : nodupFields fs = true) (he : fs[i]? = some (k, v)) : v.nodupKeys = true := by
  induction fs generalizing i with
  | nil => simp at he
  | cons a r ih =>
    obtain ⟨k', v'⟩ := a
    simp only [nodupFields, Bool.and_eq_true] at h
    cases i with
    | zero => simp at he; rw [← he.2]; exact h.1.2
    | succ n => simp at he; exact ih h.2 he

theorem nodupList_getElem {xs : List V} {i : Nat} {v : V}
    (h : nodupList xs = true) (he : xs[i]? = some v) : v.nodupKeys = true := by
  induction xs generalizing i with
  | nil => simp at he
  | cons a r ih =>
    simp only [nodupList, Bool.and_eq_true] at h
    cases i with
    | zero => simp at he; rw [← he]; exact h.1
    | succ n => simp at he; exact ih h.2 he

theorem fieldIndex_none_iff {fs : List (String × V)} {key : String} :
    fieldIndex fs key = none ↔ (fs.any fun kv => kv.1 == key) = false := by
  unfold fieldIndex
  rw [List.findIdx?_eq_none_iff]
  simp

/-- without duplicate keys, removing the first field named `key` leaves no field named `key`. -/
theorem fieldIndex_eraseIdx {fs : List (String × V)} {key : String} {i : Nat}
    (h : nodupFields fs = true) (hi : fieldIndex fs key = some i) :
    fieldIndex (fs.eraseIdx i) key = none := by
  induction fs generalizing i with
  | nil => simp [fieldIndex] at hi
  | cons a r ih =>
    obtain ⟨k', v'⟩ := a
    simp only [nodupFields, Bool.and_eq_true] at h
    rw [fieldIndex_cons] at hi
    by_cases hk : (k' == key) = true
    · simp only [hk, if_true] at hi
      injection hi with hi; subst hi
      simp only [List.eraseIdx_zero, List.tail_cons]
      rw [fieldIndex_none_iff]
      have := h.1.1
      simp at hk; subst hk
      simpa using this
    · simp only [hk, if_false, Bool.false_eq_true] at hi
      cases hj : fieldIndex r key with
      | none => rw [hj] at hi; cases hi
      | some j =>
        rw [hj] at hi; simp at hi; subst hi
        simp only [List.eraseIdx_cons_succ]
        rw [fieldIndex_cons]
        simp only [hk, if_false, Bool.false_eq_true]
        rw [ih h.2 hj]; rfl

theorem put_null (p : Path) (pre : Bool) :
    put .null p .missing pre = .ok (.missing, .null) ∨ ∃ e, put .null p .missing pre = .error e := by
  cases p with
  | nil => left; exact put_nil _ _ _
  | cons a r => right; simp only [put]; split <;> exact ⟨_, rfl⟩

/-- Unsetting a second time either fails (nothing to remove) or changes nothing. -/
theorem put_missing_twice (v : V) (p : Path) (pre : Bool) (nv prev : V)
    (h : put v p .missing pre = .ok (nv, prev)) (hn : v.nodupKeys = true) :
    (∃ e, put nv p .missing pre = .error e) ∨ (∃ pv, put nv p .missing pre = .ok (nv, pv)) := by
  generalize hx : V.missing = x at h
  fun_induction put v p x pre generalizing nv prev <;> cases h <;> subst hx
  · right; exact ⟨_, put_nil _ _ _⟩
  · -- field removed
    rename_i key rest hk fs i hi kk old he nvc pv _ _ ih
    left
    simp only [V.nodupKeys] at hn
    have := fieldIndex_eraseIdx hn hi
    rw [put]; simp only [hk, this]; exact ⟨_, rfl⟩
  · rename_i key rest hk fs i hi kk old he nvc pv hm hc ih
    simp only [V.nodupKeys] at hn
    have hlt := fieldIndex_some_lt hi
    rw [listSet_eq_set]
    have hi' : fieldIndex (fs.set i (kk, nvc)) key = some i := by rw [fieldIndex_set nvc he]; exact hi
    have he' : (fs.set i (kk, nvc))[i]? = some (kk, nvc) := by simp [hlt]
    rcases ih _ _ (nodupFields_getElem hn he) hc with ⟨e, h'⟩ | ⟨pv', h'⟩
    · left; exact ⟨e, put_doc_hit_err hk hi' he' h'⟩
    · right
      rw [put_doc_hit hk hi' he' h' (by simpa using hm)]
      refine ⟨pv', ?_⟩
      simp
  · exact absurd rfl ‹¬ V.missing.isMissing = true›
  · exact absurd rfl ‹¬ V.missing.isMissing = true›
  · -- array element
    rename_i key rest hk xs idx ha hr hlt old he nvc pv hc ih
    simp only [V.nodupKeys] at hn
    simp only [listSet_eq_set]
    cases hm : nvc.isMissing with
    | true =>
      simp only [if_true]
      have he' : (xs.set idx V.null)[idx]? = some .null := by simp [hlt]
      rcases put_null rest pre with h' | ⟨e, h'⟩
      · right
        rw [put_arr_hit_null hk ha hr he' h' rfl]
        refine ⟨.null, ?_⟩
        simp
      · left; exact ⟨e, put_arr_hit_err hk ha hr he' h'⟩
    | false =>
      simp only [Bool.false_eq_true, if_false]
      have he' : (xs.set idx nvc)[idx]? = some nvc := by simp [hlt]
      rcases ih _ _ (nodupList_getElem hn he) hc with ⟨e, h'⟩ | ⟨pv', h'⟩
      · left; exact ⟨e, put_arr_hit_err hk ha hr he' h'⟩
      · right
        rw [put_arr_hit hk ha hr he' h' hm]
        refine ⟨pv', ?_⟩
        simp
  · exact absurd rfl ‹¬ V.missing.isMissing = true›
  · exact absurd rfl ‹¬ V.missing.isMissing = true›

theorem get_null (p : Path) (c k : Bool) : get .null p c k = (.null, false) ∨ get .null p c k = (.missing, false) := by
  cases p with
  | nil => left; exact get_nil _ _ _
  | cons a r => right; simp only [get]; split <;> rfl

/-- after a successful unset the path reads Missing (field removed) or null (array element). -/
theorem get_after_unset (v : V) (p : Path) (pre : Bool) (nv prev : V) (k : Bool)
    (h : put v p .missing pre = .ok (nv, prev)) (hn : v.nodupKeys = true) :
    get nv p false k = (.missing, false) ∨ get nv p false k = (.null, false) := by
  generalize hx : V.missing = x at h
  fun_induction put v p x pre generalizing nv prev <;> cases h <;> subst hx
  · left; exact get_nil _ _ _
  · rename_i key rest hk fs i hi kk old he nvc pv hc hm ih
    left
    simp only [V.nodupKeys] at hn
    rw [get_cons_doc _ _ _ _ _ hk, getField_eq, fieldIndex_eraseIdx hn hi]
  · rename_i key rest hk fs i hi kk old he nvc pv hm hc ih
    simp only [V.nodupKeys] at hn
    have hlt := fieldIndex_some_lt hi
    have e1 : get (.doc (listSet fs i (kk, nvc))) (key :: rest) false k = get nvc rest false k := by
      rw [get_cons_doc _ _ _ _ _ hk, getField_eq, listSet_eq_set, fieldIndex_set nvc he, hi]
      simp [hlt]
    rw [e1]
    exact ih _ _ (nodupFields_getElem hn he) hc
  · exact absurd rfl ‹¬ V.missing.isMissing = true›
  · exact absurd rfl ‹¬ V.missing.isMissing = true›
  · rename_i key rest hk xs idx ha hr hlt old he nvc pv hc ih
    simp only [V.nodupKeys] at hn
    rw [get_cons_arr _ _ _ _ hk, listSet_eq_set]
    simp only [ha, List.getElem?_set_self hlt]
    cases hm : nvc.isMissing with
    | true =>
      simp only [if_true]
      rcases get_null rest false k with h' | h'
      · right; exact h'
      · left; exact h'
    | false =>
      simp only [Bool.false_eq_true, if_false]
      exact ih _ _ (nodupList_getElem hn he) hc
  · exact absurd rfl ‹¬ V.missing.isMissing = true›
  · exact absurd rfl ‹¬ V.missing.isMissing = true›

/-! ### a write leaves unrelated paths alone -/

/-- two segments may address the same child: equal strings, or array indexes (ParseIndex) with
    the same value ("1", "01", "001" all index element 1 of an array, for `put` and for `get`). -/
def segAlias (a b : String) : Bool :=
  a == b || (match parseIndex a, parseIndex b with
    | some i, some j => i == j
    | _, _ => false)

/-- the paths part at some position before either ends (up to numeral aliasing): neither is a
    prefix of the other. -/
def diverge : Path → Path → Bool
  | a :: p, b :: q => if segAlias a b then diverge p q else true
  | _, _ => false

/-- "unchanged, or was Missing and is now null (array padding)". -/
def Stab (after before : V × Bool) : Prop :=
  after = before ∨ (before = (.missing, false) ∧ after = (.null, false))

theorem Stab.rfl' {a : V × Bool} : Stab a a := .inl rfl

theorem stab_missing_of {a : V × Bool} {q : Path} {k : Bool} (h : Stab a (get .missing q false k)) :
    Stab a (.missing, false) := by rw [get_missing] at h; exact h

theorem get_guard (v : V) (b : String) (q : Path) (c k : Bool) (h : (b == "" && q.isEmpty) = true) :
    get v (b :: q) c k = (.missing, false) := by
  unfold get; simp [h]

theorem getField_cons (kv : String × V) (r : List (String × V)) (b : String) (q : Path) (c k : Bool) :
    getField (kv :: r) b q c k = if kv.1 == b then get kv.2 q c k else getField r b q c k := by
  obtain ⟨k', v'⟩ := kv
  rw [getField]

theorem getField_nil (b : String) (q : Path) (c k : Bool) : getField [] b q c k = (.missing, false) := by
  rw [getField]

theorem getField_eraseIdx {fs : List (String × V)} {i : Nat} {kk : String} {old : V} {b : String}
    (he : fs[i]? = some (kk, old)) (hne : (kk == b) = false) (q : Path) (c k : Bool) :
    getField (fs.eraseIdx i) b q c k = getField fs b q c k := by
  induction fs generalizing i with
  | nil => rfl
  | cons a r ih =>
    cases i with
    | zero =>
      simp at he; subst he
      simp [getField_cons, hne]
    | succ n =>
      simp at he
      simp only [List.eraseIdx_cons_succ, getField_cons, ih he]

theorem getField_append {fs : List (String × V)} (key : String) (nvc : V) (b : String) (q : Path) (c k : Bool) :
    getField (fs ++ [(key, nvc)]) b q c k =
      match fieldIndex fs b with
      | some _ => getField fs b q c k
      | none => if key == b then get nvc q c k else (.missing, false) := by
  induction fs with
  | nil => simp [getField_cons, getField_nil, fieldIndex]
  | cons a r ih =>
    simp only [List.cons_append, getField_cons, fieldIndex_cons]
    by_cases h : (a.1 == b) = true
    · simp [h]
    · simp only [h, if_false, Bool.false_eq_true]
      rw [ih]
      cases fieldIndex r b <;> simp

theorem getField_set {fs : List (String × V)} {i : Nat} {kk : String} {old : V} (nvc : V)
    (he : fs[i]? = some (kk, old)) (b : String) (q : Path) (c k : Bool) :
    getField (fs.set i (kk, nvc)) b q c k =
      if fieldIndex fs b = some i then get nvc q c k else getField fs b q c k := by
  rw [getField_eq, getField_eq, fieldIndex_set nvc he]
  cases hj : fieldIndex fs b with
  | none => simp
  | some j =>
    by_cases hji : j = i
    · subst hji
      have := fieldIndex_some_lt hj
      simp [this]
    · have : ¬ i = j := fun e => hji e.symm
      simp [hji, List.getElem?_set_ne this]

theorem segAlias_self (a : String) : segAlias a a = true := by simp [segAlias]

theorem segAlias_parseIndex {a b : String} {i : Nat} (ha : parseIndex a = some i) (hb : parseIndex b = some i) :
    segAlias a b = true := by simp [segAlias, ha, hb]

theorem diverge_cons (a b : String) (p q : Path) :
    diverge (a :: p) (b :: q) = if segAlias a b then diverge p q else true := by
  rw [diverge]

theorem diverge_nil_left (q : Path) : diverge [] q = false := by
  rw [diverge]; intros; simp_all

theorem diverge_nil_right (p : Path) : diverge p [] = false := by
  cases p <;> rfl

/-- `put_other_path_stable`: a successful write (or unset) at `p` leaves what is read at any path
    `q` that parts from `p` unchanged — except that array padding turns Missing into null. -/
theorem put_other_path_stable (v : V) (p : Path) (x : V) (pre : Bool) (nv prev : V) (q : Path) (k : Bool)
    (h : put v p x pre = .ok (nv, prev)) (hd : diverge p q = true) :
    Stab (get nv q false k) (get v q false k) := by
  fun_induction put v p x pre generalizing nv prev q <;> cases h
  · rw [diverge_nil_left] at hd; cases hd
  all_goals
    (rcases q with _ | ⟨b, q'⟩
     · rw [diverge_nil_right] at hd; cases hd)
  all_goals
    (by_cases hg : (b == "" && q'.isEmpty) = true
     · rw [get_guard _ _ _ _ _ hg, get_guard _ _ _ _ _ hg]; exact Stab.rfl')
  all_goals rw [diverge_cons] at hd
  · -- doc: field removed
    rename_i key rest hk fs i hi kk old he nvc pv hc hm ih
    have hkey := fieldIndex_some_key hi he
    have hnil := put_missing_nil _ _ _ _ _ _ hc hm
    subst hnil
    rw [diverge_nil_left] at hd
    have hne : (kk == b) = false := by
      cases hkb : kk == b with
      | false => rfl
      | true =>
        simp at hkb; subst hkb; subst hkey
        rw [segAlias_self] at hd; simp at hd
    rw [get_cons_doc _ _ _ _ _ hg, get_cons_doc _ _ _ _ _ hg, getField_eraseIdx he hne]
    exact Stab.rfl'
  · -- doc: field replaced
    rename_i key rest hk fs i hi kk old he nvc pv hc hm ih
    have hkey := fieldIndex_some_key hi he
    rw [get_cons_doc _ _ _ _ _ hg, get_cons_doc _ _ _ _ _ hg, listSet_eq_set, getField_set nvc he]
    by_cases hb : fieldIndex fs b = some i
    · have hkb := fieldIndex_some_key hb he
      subst hkey; subst hkb
      rw [segAlias_self] at hd
      simp only [if_true] at hd
      simp only [hb, if_true]
      rw [getField_eq, hb]; simp only [he]
      exact ih _ _ _ hc hd
    · simp only [hb, if_false]; exact Stab.rfl'
  · -- doc: new field, prepend
    rename_i key rest hk fs hi hvm nvc pv hc hpre ih
    rw [get_cons_doc _ _ _ _ _ hg, get_cons_doc _ _ _ _ _ hg, getField_cons]
    by_cases hkb : (key == b) = true
    · simp only [hkb, if_true]
      simp at hkb; subst hkb
      rw [segAlias_self] at hd
      simp only [if_true] at hd
      rw [getField_eq, hi]
      exact stab_missing_of (ih _ _ _ hc hd)
    · simp only [hkb, if_false, Bool.false_eq_true]; exact Stab.rfl'
  · -- doc: new field, append
    rename_i key rest hk fs hi hvm nvc pv hc hpre ih
    rw [get_cons_doc _ _ _ _ _ hg, get_cons_doc _ _ _ _ _ hg, getField_append]
    cases hb : fieldIndex fs b with
    | some j => exact Stab.rfl'
    | none =>
      simp only
      rw [getField_eq, hb]
      by_cases hkb : (key == b) = true
      · simp only [hkb, if_true]
        simp at hkb; subst hkb
        rw [segAlias_self] at hd
        simp only [if_true] at hd
        exact stab_missing_of (ih _ _ _ hc hd)
      · simp only [hkb, if_false, Bool.false_eq_true]; exact Stab.rfl'
  · -- array: element present
    rename_i key rest hk xs idx ha hr hlt old he nvc pv hc ih
    rw [get_cons_arr _ _ _ _ hg, get_cons_arr _ _ _ _ hg, listSet_eq_set]
    cases hp : parseIndex b with
    | none => exact Stab.rfl'
    | some j =>
      simp only
      by_cases hj : idx = j
      · subst hj
        rw [segAlias_parseIndex ha hp] at hd
        simp only [if_true] at hd
        have hnm : nvc.isMissing = false := by
          cases hm : nvc.isMissing with
          | false => rfl
          | true =>
            have := put_missing_nil _ _ _ _ _ _ hc hm
            subst this; rw [diverge_nil_left] at hd; cases hd
        simp only [hnm, Bool.false_eq_true, if_false, List.getElem?_set_self hlt, he]
        exact ih _ _ _ hc hd
      · rw [List.getElem?_set_ne hj]; exact Stab.rfl'
  · -- array: padded
    rename_i key rest hk xs idx ha hr hlt hvm hpad nvc pv hc ih
    have hnm := put_not_missing _ _ _ _ _ _ hc (by simpa using hvm)
    have hge : xs.length ≤ idx := Nat.le_of_not_lt hlt
    rw [get_cons_arr _ _ _ _ hg, get_cons_arr _ _ _ _ hg]
    cases hp : parseIndex b with
    | none => exact Stab.rfl'
    | some j =>
      simp only [hnm, Bool.false_eq_true, if_false]
      rcases Nat.lt_or_ge j xs.length with hjl | hjl
      · rw [List.append_assoc, List.getElem?_append_left hjl]; exact Stab.rfl'
      · rw [List.getElem?_eq_none hjl]
        rcases Nat.lt_trichotomy j idx with hlt' | heq | hgt
        · have e3 : (xs ++ List.replicate (idx - xs.length) V.null ++ [nvc])[j]? = some .null := by
            rw [List.getElem?_append_left (by simp; omega), List.getElem?_append_right hjl]
            rw [List.getElem?_replicate]; simp; omega
          rw [e3]
          simp only
          rcases get_null q' false k with h' | h'
          · right; exact ⟨rfl, h'⟩
          · left; exact h'
        · subst heq
          rw [segAlias_parseIndex ha hp] at hd
          simp only [if_true] at hd
          have e3 : (xs ++ List.replicate (j - xs.length) V.null ++ [nvc])[j]? = some nvc := by
            rw [List.getElem?_append_right (by simp; omega)]
            have : j - (xs ++ List.replicate (j - xs.length) V.null).length = 0 := by simp; omega
            rw [this]; rfl
          rw [e3]
          exact stab_missing_of (ih _ _ _ hc hd)
        · have e3 : (xs ++ List.replicate (idx - xs.length) V.null ++ [nvc])[j]? = none := by
            apply List.getElem?_eq_none; simp; omega
          rw [e3]; exact Stab.rfl'
  · -- missing: create a document
    rename_i key rest hk hvm nvc pv hc ih
    rw [get_cons_missing, get_cons_doc _ _ _ _ _ hg, getField_cons]
    by_cases hkb : (key == b) = true
    · simp only [hkb, if_true]
      simp at hkb; subst hkb
      rw [segAlias_self] at hd
      simp only [if_true] at hd
      exact stab_missing_of (ih _ _ _ hc hd)
    · simp only [hkb, if_false, Bool.false_eq_true, getField_nil]; exact Stab.rfl'

/-! ### field order -/

/-- `put_keeps_field_order` (top level, append mode): the key sequence is unchanged or extended by
    the new key at the end, and every field with another key keeps its position and value. -/
theorem put_field_order (fs : List (String × V)) (key : String) (rest : Path) (x : V)
    (fs' : List (String × V)) (prev : V)
    (h : put (.doc fs) (key :: rest) x false = .ok (.doc fs', prev)) (hx : x.isMissing = false) :
    (fs'.map Prod.fst = fs.map Prod.fst ∨ fs'.map Prod.fst = fs.map Prod.fst ++ [key]) ∧
      ∀ (j : Nat) (k : String) (v : V), fs[j]? = some (k, v) → k ≠ key → fs'[j]? = some (k, v) := by
  have := put_doc_shape fs key rest x false _ _ h
  cases hi : fieldIndex fs key with
  | some i =>
    rw [hi] at this
    obtain ⟨old, he, hcase⟩ := this
    rcases hcase with ⟨hm, _⟩ | ⟨nvc, e⟩
    · rw [hx] at hm; cases hm
    · injection e with e; subst e
      constructor
      · left
        rw [List.map_set]
        apply set_self_of_getElem?
        simp [he]
      · intro j k v hj hk
        have hne : i ≠ j := by
          intro e; subst e; rw [he] at hj; injection hj with hj; injection hj with h1 _; exact hk h1.symm
        rw [List.getElem?_set_ne hne]; exact hj
  | none =>
    rw [hi] at this
    obtain ⟨_, nvc, e⟩ := this
    simp only [Bool.false_eq_true, if_false] at e
    injection e with e; subst e
    constructor
    · right; simp
    · intro j k v hj hk
      have hlt : j < fs.length := by
        rcases Nat.lt_or_ge j fs.length with h | h
        · exact h
        · rw [List.getElem?_eq_none h] at hj; cases hj
      rw [List.getElem?_append_left hlt]; exact hj

end Lungo
