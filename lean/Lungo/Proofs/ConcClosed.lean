/-
  Lungo.Proofs.ConcClosed — after `tomb.Kill` (alive = false) every call finishes within a bounded
  number of its own steps: a rank on the actor-local control state strictly decreases with every
  step of that actor (except the expiry actor's `tick`, which restarts its loop: the Go `select`
  picks randomly between a ready ticker and `Dying`).
-/
import Lungo.Proofs.ConcInvDefs
namespace Lungo.Conc

/-- steps from `Pc.after` to the end of the call, assuming the engine is dead -/
def ar : K → Nat
  | .use => 10
  | .useCommit => 4
  | .useAbort => 1
  | .start => 6
  | .startAbort => 1
  | .sessCommit => 1
  | .sessAbort => 1
  | .expBegin => 8
  | .expAbort => 2
  | .expCommit => 2
  | .dBegin => 1
  | .dCommit => 1
  | .dAbort => 1

def rk : Pc → K → Nat
  | .idle, _ => 0
  | .bSessLock, k => 7 + ar k
  | .bSessRead, k => 6 + ar k
  | .bLock, k => 5 + ar k
  | .bCheck, k => 4 + ar k
  | .bAcquire, k => 3 + ar k
  | .bRelock, k => 2 + ar k
  | .bPost, k => 1 + ar k
  | .cLock, k => 3 + ar k
  | .cCheck, k => 2 + ar k
  | .cStore, k => 1 + ar k
  | .aLock, k => 2 + ar k
  | .aBody, k => 1 + ar k
  | .after, k => ar k
  | .uSessLock, _ => 20
  | .uSessRead, _ => 19
  | .uCb, _ => 9
  | .uCbSess, _ => 1
  | .uCbRead, _ => 1
  | .ssLock, _ => 16
  | .ssReserve, _ => 15
  | .ssRelock, _ => 5
  | .ssFinal, _ => 4
  | .scLock, _ => 6
  | .scBody, _ => 5
  | .saLock, _ => 5
  | .saBody, _ => 4
  | .clLock, _ => 4
  | .clKill, _ => 3
  | .clStreams, _ => 2
  | .clWait, _ => 1
  | .kLock, _ => 2
  | .kBody, _ => 1
  | .xWait, _ => 1
  | .xExpire, _ => 7
  | .xExited, _ => 0

/-- bound on the number of further steps of this actor's current call once the engine is dead -/
def rank (l : Local) : Nat := rk l.pc l.k

macro "rank_tac" h:ident fn:ident : tactic => `(tactic| (
  unfold $fn at $h:ident
  conc_split $h
  all_goals (
    simp only [State.put, State.putS, State.finish, State.write, upd_apply, Local.back, Local.invoke,
      if_true, ite_true, rank]
    simp_all [rk, ar]
    try omega)))

theorem alive_mono {s s' : State} {a : ActorId} {c : Choice} (hd : s.eng.alive = false)
    (hs : step s a c = some s') : s'.eng.alive = false := by
  rcases step_cases hs with ⟨_, h⟩ | h | h | h | ⟨_, h⟩ | h | h | h | h
  · unfold stepIdle at h; conc_split h; all_goals simp_all [State.put, State.putS, State.finish, State.write]
  · unfold stepBegin at h; conc_split h
    all_goals (simp only [State.put, State.putS, State.finish, State.write, Eng.unlock, Eng.release]; (try split) <;> simp_all)
  · unfold stepCommit at h; conc_split h
    all_goals (simp only [State.put, State.putS, State.finish, State.write, Eng.unlock, Eng.release]; (try split) <;> simp_all)
  · unfold stepAbort at h; conc_split h
    all_goals (simp only [State.put, State.putS, State.finish, State.write, Eng.unlock, Eng.release]; (try split) <;> simp_all)
  · unfold stepAfter at h; conc_split h; all_goals simp_all [State.put, State.putS, State.finish, State.write]
  · unfold stepUse at h; conc_split h; all_goals simp_all [State.put, State.putS, State.finish, State.write]
  · unfold stepSess at h; conc_split h; all_goals simp_all [State.put, State.putS, State.finish, State.write]
  · unfold stepClose at h; conc_split h; all_goals simp_all [State.put, State.putS, State.finish, State.write, Eng.unlock]
  · unfold stepExp at h; conc_split h; all_goals simp_all [State.put, State.putS, State.finish, State.write]

set_option maxHeartbeats 1000000 in
theorem rank_decreases {s s' : State} {a : ActorId} {c : Choice} (hd : s.eng.alive = false)
    (hs : step s a c = some s') (hidle : (s.loc a).pc ≠ .idle) (htick : c ≠ .tick) :
    rank (s'.loc a) < rank (s.loc a) := by
  rcases step_cases hs with ⟨hp, h⟩ | h | h | h | ⟨hp, h⟩ | h | h | h | h
  · exact absurd hp hidle
  · rank_tac h stepBegin
  · rank_tac h stepCommit
  · rank_tac h stepAbort
  · rank_tac h stepAfter
  · rank_tac h stepUse
  · rank_tac h stepSess
  · rank_tac h stepClose
  · rank_tac h stepExp

end Lungo.Conc
