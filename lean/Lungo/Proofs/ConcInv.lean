/-
  Lungo.Proofs.ConcInv — lock / token invariants of the concurrency model (`Lungo.Model.Conc`),
  proved for every reachable state by induction over `step` (any number of actors).
-/
import Lungo.Model.Conc
namespace Lungo.Conc

/-- program counters at which an actor holds `e.mutex` -/
def EHold (pc : Pc) : Prop :=
  pc = .bCheck ∨ pc = .bSessLock ∨ pc = .bSessRead ∨ pc = .bPost ∨ pc = .cCheck ∨ pc = .cStore ∨
  pc = .aBody ∨ pc = .clKill ∨ pc = .kBody

/-- local states in which an actor holds the writer token itself (between a successful
    `Acquire` and `e.txn = …`/`Release`, or inside Commit after `e.txn = nil`) -/
def THold (l : Local) : Prop :=
  ((l.pc = .bRelock ∨ l.pc = .bPost) ∧ l.okF = true) ∨ l.pc = .cStore

/-- local states in which an actor holds `s.mutex` of session `sid` -/
def SHold (l : Local) (sid : SessId) : Prop :=
  ((l.pc = .bSessRead ∨ l.pc = .uSessRead) ∧ l.ctxSess = some sid) ∨
  (l.sid = sid ∧ (l.pc = .ssReserve ∨ l.pc = .ssFinal ∨ l.pc = .scBody ∨ l.pc = .saBody ∨
    ((l.k = .startAbort ∨ l.k = .sessCommit ∨ l.k = .sessAbort) ∧
      (l.pc = .aLock ∨ l.pc = .aBody ∨ l.pc = .cLock ∨ l.pc = .cCheck ∨ l.pc = .cStore ∨ l.pc = .after))))

/-- inside Engine.Begin the continuation is one of the Begin call sites -/
def BeginWf (l : Local) : Prop :=
  ((l.pc = .bLock ∨ l.pc = .bCheck ∨ l.pc = .bSessLock ∨ l.pc = .bSessRead ∨ l.pc = .bAcquire ∨
    l.pc = .bRelock ∨ l.pc = .bPost) →
  (l.k = .use ∨ l.k = .start ∨ l.k = .expBegin ∨ l.k = .dBegin)) ∧
  ((l.pc = .cLock ∨ l.pc = .cCheck ∨ l.pc = .cStore) →
    (l.k = .useCommit ∨ l.k = .sessCommit ∨ l.k = .expCommit ∨ l.k = .dCommit)) ∧
  ((l.pc = .aLock ∨ l.pc = .aBody) →
    (l.k = .useAbort ∨ l.k = .startAbort ∨ l.k = .sessAbort ∨ l.k = .expAbort ∨ l.k = .dAbort))

/-- the lock/token invariant -/
structure Inv1 (s : State) : Prop where
  mutex_iff : ∀ a, s.eng.mutex = some a ↔ EHold (s.loc a).pc
  holder_iff : ∀ a, s.eng.holder = some a ↔ THold (s.loc a)
  conserv : s.eng.token + (if s.eng.holder.isSome then 1 else 0) + (if s.eng.txn.isSome then 1 else 0) = 1
  noPanic : s.eng.relPanic = false
  smutex_iff : ∀ a sid, (s.sess sid).mutex = some a ↔ SHold (s.loc a) sid
  beginWf : ∀ a, BeginWf (s.loc a)

/-- split a sub-step hypothesis into its cases -/
macro "conc_split" h:ident : tactic => `(tactic| (
  dsimp only at $h:ident
  split at $h:ident
  all_goals (try split at $h:ident)
  all_goals (try split at $h:ident)
  all_goals (try split at $h:ident)
  all_goals (try split at $h:ident)
  all_goals (try split at $h:ident)
  all_goals (try cases $h:ident)))

macro "conc_simp" : tactic => `(tactic|
  simp only [State.put, State.putS, State.finish, State.write, upd_apply, Eng.unlock, Eng.release,
    Local.back, Local.invoke, EHold, THold, SHold, BeginWf, if_true, if_false, ite_true, ite_false] at *)

/-- close a goal `P ((upd loc a l') b) …` by cases on `b = a` -/
macro "by_actor" b:ident a:ident : tactic => `(tactic| (
  by_cases hba : $b = $a
  · subst hba
    conc_simp
    grind
  · have hab : ¬ $a = $b := fun h => hba h.symm
    simp only [State.put, State.putS, State.finish, State.write, upd_apply, if_neg hba, if_neg hab] at *
    conc_simp
    grind))

macro "inv1_close" h1:ident h2:ident h5:ident h6:ident a:ident : tactic => `(tactic| (
  refine ⟨fun b => ?_, fun b => ?_, ?_, ?_, fun b sid => ?_, fun b => ?_⟩
  · have hb1 := $h1 b
    by_actor b $a
  · have hb1 := $h2 b
    by_actor b $a
  · conc_simp
    grind
  · conc_simp
    grind
  · have hb1 := $h5 b sid
    have hb2 := $h6 b
    by_actor b $a
  · have hb1 := $h6 b
    by_actor b $a))

theorem inv1_init (n : Nat) : Inv1 (init n) := by
  refine ⟨fun b => ?_, fun b => ?_, ?_, ?_, fun b sid => ?_, fun b => ?_⟩
  · simp only [init, EHold]; by_cases hb : b = 0 <;> simp [hb]
  · simp only [init, THold]; by_cases hb : b = 0 <;> simp [hb]
  · simp [init]
  · simp [init]
  · simp only [init, SHold]; by_cases hb : b = 0 <;> simp [hb]
  · simp only [init, BeginWf]; by_cases hb : b = 0 <;> simp [hb]

set_option maxHeartbeats 1000000 in
theorem inv1_begin {s s' : State} {a : ActorId} {c : Choice} (h : Inv1 s)
    (hs : stepBegin s a (s.loc a) c = some s') : Inv1 s' := by
  obtain ⟨h1, h2, h3, h4, h5, h6⟩ := h
  have h1a := h1 a
  have h2a := h2 a
  have h5a := h5 a
  have h6a := h6 a
  unfold stepBegin at hs
  conc_split hs
  all_goals inv1_close h1 h2 h5 h6 a

set_option maxHeartbeats 1000000 in
theorem inv1_commit {s s' : State} {a : ActorId} {c : Choice} (h : Inv1 s)
    (hs : stepCommit s a (s.loc a) c = some s') : Inv1 s' := by
  obtain ⟨h1, h2, h3, h4, h5, h6⟩ := h
  have h1a := h1 a
  have h2a := h2 a
  have h5a := h5 a
  have h6a := h6 a
  unfold stepCommit at hs
  conc_split hs
  all_goals inv1_close h1 h2 h5 h6 a

set_option maxHeartbeats 1000000 in
theorem inv1_abort {s s' : State} {a : ActorId} {c : Choice} (h : Inv1 s)
    (hs : stepAbort s a (s.loc a) c = some s') : Inv1 s' := by
  obtain ⟨h1, h2, h3, h4, h5, h6⟩ := h
  have h1a := h1 a
  have h2a := h2 a
  have h5a := h5 a
  have h6a := h6 a
  unfold stepAbort at hs
  conc_split hs
  all_goals inv1_close h1 h2 h5 h6 a

set_option maxHeartbeats 1000000 in
theorem inv1_after {s s' : State} {a : ActorId} {c : Choice} (h : Inv1 s)
    (hpc : (s.loc a).pc = .after) (hs : stepAfter s a (s.loc a) c = some s') : Inv1 s' := by
  obtain ⟨h1, h2, h3, h4, h5, h6⟩ := h
  have h1a := h1 a
  have h2a := h2 a
  have h5a := h5 a
  have h6a := h6 a
  unfold stepAfter at hs
  conc_split hs
  all_goals inv1_close h1 h2 h5 h6 a

set_option maxHeartbeats 1000000 in
theorem inv1_use {s s' : State} {a : ActorId} {c : Choice} (h : Inv1 s)
    (hs : stepUse s a (s.loc a) c = some s') : Inv1 s' := by
  obtain ⟨h1, h2, h3, h4, h5, h6⟩ := h
  have h1a := h1 a
  have h2a := h2 a
  have h5a := h5 a
  have h6a := h6 a
  unfold stepUse at hs
  conc_split hs
  all_goals inv1_close h1 h2 h5 h6 a

set_option maxHeartbeats 1000000 in
theorem inv1_sess {s s' : State} {a : ActorId} {c : Choice} (h : Inv1 s)
    (hs : stepSess s a (s.loc a) c = some s') : Inv1 s' := by
  obtain ⟨h1, h2, h3, h4, h5, h6⟩ := h
  have h1a := h1 a
  have h2a := h2 a
  have h5a := h5 a
  have h6a := h6 a
  unfold stepSess at hs
  conc_split hs
  all_goals inv1_close h1 h2 h5 h6 a

set_option maxHeartbeats 1000000 in
theorem inv1_close {s s' : State} {a : ActorId} {c : Choice} (h : Inv1 s)
    (hs : stepClose s a (s.loc a) c = some s') : Inv1 s' := by
  obtain ⟨h1, h2, h3, h4, h5, h6⟩ := h
  have h1a := h1 a
  have h2a := h2 a
  have h5a := h5 a
  have h6a := h6 a
  unfold stepClose at hs
  conc_split hs
  all_goals inv1_close h1 h2 h5 h6 a

set_option maxHeartbeats 1000000 in
theorem inv1_exp {s s' : State} {a : ActorId} {c : Choice} (h : Inv1 s)
    (hs : stepExp s a (s.loc a) c = some s') : Inv1 s' := by
  obtain ⟨h1, h2, h3, h4, h5, h6⟩ := h
  have h1a := h1 a
  have h2a := h2 a
  have h5a := h5 a
  have h6a := h6 a
  unfold stepExp at hs
  conc_split hs
  all_goals inv1_close h1 h2 h5 h6 a

set_option maxHeartbeats 1000000 in
theorem inv1_idle {s s' : State} {a : ActorId} {c : Choice} (h : Inv1 s)
    (hpc : (s.loc a).pc = .idle) (hs : stepIdle s a (s.loc a) c = some s') : Inv1 s' := by
  obtain ⟨h1, h2, h3, h4, h5, h6⟩ := h
  have h1a := h1 a
  have h2a := h2 a
  have h5a := h5 a
  have h6a := h6 a
  unfold stepIdle at hs
  conc_split hs
  all_goals inv1_close h1 h2 h5 h6 a

/-- dispatch lemma: a step of `step` is a step of exactly one sub-machine, with the pc known -/
theorem step_cases {s s' : State} {a : ActorId} {c : Choice} (hs : step s a c = some s') :
    ((s.loc a).pc = .idle ∧ stepIdle s a (s.loc a) c = some s') ∨
    stepBegin s a (s.loc a) c = some s' ∨ stepCommit s a (s.loc a) c = some s' ∨
    stepAbort s a (s.loc a) c = some s' ∨
    ((s.loc a).pc = .after ∧ stepAfter s a (s.loc a) c = some s') ∨
    stepUse s a (s.loc a) c = some s' ∨ stepSess s a (s.loc a) c = some s' ∨
    stepClose s a (s.loc a) c = some s' ∨ stepExp s a (s.loc a) c = some s' := by
  unfold step at hs
  split at hs
  · cases hs
  · dsimp only at hs
    split at hs <;> simp_all

theorem step_le_n {s s' : State} {a : ActorId} {c : Choice} (hs : step s a c = some s') : a ≤ s.n := by
  unfold step at hs
  split at hs
  · cases hs
  · rename_i h; exact Nat.le_of_not_gt h

theorem inv1_step {s s' : State} {a : ActorId} {c : Choice} (h : Inv1 s)
    (hs : step s a c = some s') : Inv1 s' := by
  rcases step_cases hs with ⟨hp, h'⟩ | h' | h' | h' | ⟨hp, h'⟩ | h' | h' | h' | h'
  · exact inv1_idle h hp h'
  · exact inv1_begin h h'
  · exact inv1_commit h h'
  · exact inv1_abort h h'
  · exact inv1_after h hp h'
  · exact inv1_use h h'
  · exact inv1_sess h h'
  · exact inv1_close h h'
  · exact inv1_exp h h'

theorem inv1_reachable {n : Nat} {s : State} (h : Reachable n s) : Inv1 s := by
  induction h with
  | init => exact inv1_init n
  | step _ hs ih => exact inv1_step ih hs

end Lungo.Conc
