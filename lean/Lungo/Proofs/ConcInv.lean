/-
  Lungo.Proofs.ConcInv — lock / token invariant Inv1 proved for every reachable state by
  induction over `step` (any number of actors).
-/
import Lungo.Proofs.ConcInvDefs
namespace Lungo.Conc

theorem inv1_init (n : Nat) : Inv1 (init n) := by
  refine ⟨fun b => ?_, fun b => ?_, ?_, ?_, fun b sid => ?_, fun b => ?_⟩
  · simp only [init, EHold]; by_cases hb : b = 0 <;> simp [hb]
  · simp only [init, THold]; by_cases hb : b = 0 <;> simp [hb]
  · simp [init]
  · simp [init]
  · simp only [init, SHold]; by_cases hb : b = 0 <;> simp [hb]
  · simp only [init, BeginWf]; by_cases hb : b = 0 <;> simp [hb]

set_option maxHeartbeats 1000000 in
theorem inv1_begin {s s' : State} {a : ActorId} {c : Choice} (h : Inv1 s)
    (hs : stepBegin s a (s.loc a) c = some s') : Inv1 s' := by
  obtain ⟨h1, h2, h3, h4, h5, h6⟩ := h
  have h1a := h1 a
  have h2a := h2 a
  have h5a := h5 a
  have h6a := h6 a
  simp only [EHold, THold, SHold, BeginWf] at h1 h2 h5 h6 h1a h2a h5a h6a
  unfold stepBegin at hs
  conc_split hs
  all_goals inv1_close h1 h2 h3 h4 h5 h6 a

set_option maxHeartbeats 1000000 in
theorem inv1_commit {s s' : State} {a : ActorId} {c : Choice} (h : Inv1 s)
    (hs : stepCommit s a (s.loc a) c = some s') : Inv1 s' := by
  obtain ⟨h1, h2, h3, h4, h5, h6⟩ := h
  have h1a := h1 a
  have h2a := h2 a
  have h5a := h5 a
  have h6a := h6 a
  simp only [EHold, THold, SHold, BeginWf] at h1 h2 h5 h6 h1a h2a h5a h6a
  unfold stepCommit at hs
  conc_split hs
  all_goals inv1_close h1 h2 h3 h4 h5 h6 a

set_option maxHeartbeats 1000000 in
theorem inv1_abort {s s' : State} {a : ActorId} {c : Choice} (h : Inv1 s)
    (hs : stepAbort s a (s.loc a) c = some s') : Inv1 s' := by
  obtain ⟨h1, h2, h3, h4, h5, h6⟩ := h
  have h1a := h1 a
  have h2a := h2 a
  have h5a := h5 a
  have h6a := h6 a
  simp only [EHold, THold, SHold, BeginWf] at h1 h2 h5 h6 h1a h2a h5a h6a
  unfold stepAbort at hs
  conc_split hs
  all_goals inv1_close h1 h2 h3 h4 h5 h6 a

set_option maxHeartbeats 1000000 in
theorem inv1_after {s s' : State} {a : ActorId} {c : Choice} (h : Inv1 s)
    (hpc : (s.loc a).pc = .after) (hs : stepAfter s a (s.loc a) c = some s') : Inv1 s' := by
  obtain ⟨h1, h2, h3, h4, h5, h6⟩ := h
  have h1a := h1 a
  have h2a := h2 a
  have h5a := h5 a
  have h6a := h6 a
  simp only [EHold, THold, SHold, BeginWf] at h1 h2 h5 h6 h1a h2a h5a h6a
  unfold stepAfter at hs
  conc_split hs
  all_goals inv1_close h1 h2 h3 h4 h5 h6 a

set_option maxHeartbeats 1000000 in
theorem inv1_use {s s' : State} {a : ActorId} {c : Choice} (h : Inv1 s)
    (hs : stepUse s a (s.loc a) c = some s') : Inv1 s' := by
  obtain ⟨h1, h2, h3, h4, h5, h6⟩ := h
  have h1a := h1 a
  have h2a := h2 a
  have h5a := h5 a
  have h6a := h6 a
  simp only [EHold, THold, SHold, BeginWf] at h1 h2 h5 h6 h1a h2a h5a h6a
  unfold stepUse at hs
  conc_split hs
  all_goals inv1_close h1 h2 h3 h4 h5 h6 a

set_option maxHeartbeats 1000000 in
theorem inv1_sess {s s' : State} {a : ActorId} {c : Choice} (h : Inv1 s)
    (hs : stepSess s a (s.loc a) c = some s') : Inv1 s' := by
  obtain ⟨h1, h2, h3, h4, h5, h6⟩ := h
  have h1a := h1 a
  have h2a := h2 a
  have h5a := h5 a
  have h6a := h6 a
  simp only [EHold, THold, SHold, BeginWf] at h1 h2 h5 h6 h1a h2a h5a h6a
  unfold stepSess at hs
  conc_split hs
  all_goals inv1_close h1 h2 h3 h4 h5 h6 a

set_option maxHeartbeats 1000000 in
theorem inv1_close {s s' : State} {a : ActorId} {c : Choice} (h : Inv1 s)
    (hs : stepClose s a (s.loc a) c = some s') : Inv1 s' := by
  obtain ⟨h1, h2, h3, h4, h5, h6⟩ := h
  have h1a := h1 a
  have h2a := h2 a
  have h5a := h5 a
  have h6a := h6 a
  simp only [EHold, THold, SHold, BeginWf] at h1 h2 h5 h6 h1a h2a h5a h6a
  unfold stepClose at hs
  conc_split hs
  all_goals inv1_close h1 h2 h3 h4 h5 h6 a

set_option maxHeartbeats 1000000 in
theorem inv1_exp {s s' : State} {a : ActorId} {c : Choice} (h : Inv1 s)
    (hs : stepExp s a (s.loc a) c = some s') : Inv1 s' := by
  obtain ⟨h1, h2, h3, h4, h5, h6⟩ := h
  have h1a := h1 a
  have h2a := h2 a
  have h5a := h5 a
  have h6a := h6 a
  simp only [EHold, THold, SHold, BeginWf] at h1 h2 h5 h6 h1a h2a h5a h6a
  unfold stepExp at hs
  conc_split hs
  all_goals inv1_close h1 h2 h3 h4 h5 h6 a

set_option maxHeartbeats 1000000 in
theorem inv1_idle {s s' : State} {a : ActorId} {c : Choice} (h : Inv1 s)
    (hpc : (s.loc a).pc = .idle) (hs : stepIdle s a (s.loc a) c = some s') : Inv1 s' := by
  obtain ⟨h1, h2, h3, h4, h5, h6⟩ := h
  have h1a := h1 a
  have h2a := h2 a
  have h5a := h5 a
  have h6a := h6 a
  simp only [EHold, THold, SHold, BeginWf] at h1 h2 h5 h6 h1a h2a h5a h6a
  unfold stepIdle at hs
  conc_split hs
  all_goals inv1_close h1 h2 h3 h4 h5 h6 a

theorem inv1_step {s s' : State} {a : ActorId} {c : Choice} (h : Inv1 s)
    (hs : step s a c = some s') : Inv1 s' := by
  rcases step_cases hs with ⟨hp, h'⟩ | h' | h' | h' | ⟨hp, h'⟩ | h' | h' | h' | h'
  · exact inv1_idle h hp h'
  · exact inv1_begin h h'
  · exact inv1_commit h h'
  · exact inv1_abort h h'
  · exact inv1_after h hp h'
  · exact inv1_use h h'
  · exact inv1_sess h h'
  · exact inv1_close h h'
  · exact inv1_exp h h'

theorem inv1_reachable {n : Nat} {s : State} (h : Reachable n s) : Inv1 s := by
  induction h with
  | init => exact inv1_init n
  | step _ hs ih => exact inv1_step ih hs

end Lungo.Conc
