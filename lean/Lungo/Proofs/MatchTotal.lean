/-
  Lungo.Proofs.MatchTotal — on well-formed filters (`Spec.parseFilter q = some f`) the matcher
  returns a truth value for EVERY document (no domain restriction on documents or paths).
-/
import Lungo.Proofs.SpecAgreeRec
namespace Lungo
open Lungo.Spec

/-- a matcher result that is a truth value (matched / not matched), not an error -/
def IsTV (r : Res Unit) : Prop := ∃ b, r = toRes b

theorem isTV_toRes (b : Bool) : IsTV (toRes b) := ⟨b, rfl⟩
theorem isTV_ok : IsTV (.ok ()) := ⟨true, rfl⟩
theorem isTV_nm : IsTV (.error .notMatched) := ⟨false, rfl⟩
theorem isTV_notMatched : IsTV notMatched := ⟨false, rfl⟩
theorem isTV_negate {r : Res Unit} (h : IsTV r) : IsTV (negate r) := by
  obtain ⟨b, rfl⟩ := h; exact ⟨!b, negate_toRes b⟩

theorem isTV_ite (c : Prop) [Decidable c] : IsTV (if c then (.ok () : Res Unit) else notMatched) := by
  by_cases h : c <;> simp [h, isTV_ok, isTV_notMatched]

theorem matchComp_tv (d : Doc) (path : String) (o : CmpOp) (v : V) : IsTV (matchComp d (cmpName o) path v) := by
  cases o
  · rw [cmpName, matchComp_eq_bool, matchUnwind_toRes]; exact isTV_toRes _
  · rw [cmpName, matchComp_gt_bool, matchUnwind_toRes]; exact isTV_toRes _
  · rw [cmpName, matchComp_gte_bool, matchUnwind_toRes]; exact isTV_toRes _
  · rw [cmpName, matchComp_lt_bool, matchUnwind_toRes]; exact isTV_toRes _
  · rw [cmpName, matchComp_lte_bool, matchUnwind_toRes]; exact isTV_toRes _

theorem matchLit_tv (d : Doc) (path : String) (v : V) : IsTV (matchComp d "" path v) := by
  rw [matchComp_lit_bool, matchUnwind_toRes]; exact isTV_toRes _

theorem matchExists_tv (d : Doc) (path : String) (v : V) : IsTV (matchExists d path v) := by
  unfold matchExists
  exact isTV_ite _

theorem matchSize_tv (d : Doc) (path : String) (v : V) (n : Int) (hp : parseSize v = some (.size n)) :
    IsTV (matchSize d path v) := by
  unfold parseSize at hp
  unfold matchSize
  cases hi : intArg v with
  | error e => simp [hi] at hp
  | ok m =>
    simp only [hi] at hp ⊢
    by_cases hneg : m < 0
    · simp [hneg] at hp
    · simp only [hneg, ↓reduceIte]
      generalize All d (splitPath path) false false = r
      obtain ⟨value, multi⟩ := r
      simp only
      split
      · split
        · exact isTV_ite _
        · exact isTV_notMatched
      · split
        · exact isTV_ite _
        · exact isTV_notMatched

theorem matchMod_tv (d : Doc) (path : String) (v : V) (dv r : Int) (hp : parseMod v = some (.mod dv r)) :
    IsTV (matchMod d path v) := by
  unfold parseMod at hp
  unfold matchMod
  split at hp
  · rename_i a b
    cases ha : modOperand a with
    | error e => simp [ha] at hp
    | ok da =>
      cases hb : modOperand b with
      | error e => simp [ha, hb] at hp
      | ok rb =>
        simp only [ha, hb] at hp ⊢
        by_cases hz : (da == 0) = true
        · simp [hz] at hp
        · simp only [hz, Bool.false_eq_true, ↓reduceIte]
          refine (congrArg (matchUnwind d path true false) (modCb_bool da rb)) ▸ ?_
          rw [matchUnwind_toRes]; exact isTV_toRes _
  · simp at hp

theorem matchBits_tv (d : Doc) (path : String) (o : BitsOp) (v : V) (ps : List Nat)
    (hp : parseBits o v = some (.bits o ps)) : IsTV (matchBits d (bitsName o) path v) := by
  unfold parseBits at hp
  unfold matchBits
  cases hm : parseBitMask v with
  | error e => simp [hm] at hp
  | ok ps' =>
    simp only
    refine (congrArg (matchUnwind d path true false) (bitsCb_bool o ps')) ▸ ?_
    rw [matchUnwind_toRes]; exact isTV_toRes _

/-- every operator without sub-expressions, well-formed argument: a truth value -/
theorem leaf_tv (sch : SchemaEval) (d : Doc) (path op : String) (v : V) (c : Cond)
    (hp : parseLeaf op v = some c) : IsTV (mOp sch d op path v) := by
  unfold parseLeaf at hp
  split at hp
  · rw [mOp_leaf sch d "$eq" path v _ rfl]; exact matchComp_tv d path .eq v
  · rw [mOp_leaf sch d "$gt" path v _ rfl]; exact matchComp_tv d path .gt v
  · rw [mOp_leaf sch d "$gte" path v _ rfl]; exact matchComp_tv d path .gte v
  · rw [mOp_leaf sch d "$lt" path v _ rfl]; exact matchComp_tv d path .lt v
  · rw [mOp_leaf sch d "$lte" path v _ rfl]; exact matchComp_tv d path .lte v
  · rw [mOp_leaf sch d "$ne" path v _ rfl]; exact isTV_negate (matchComp_tv d path .eq v)
  · split at hp
    · rw [mOp_leaf sch d "$in" path _ _ rfl, matchIn_bool, matchUnwind_toRes]; exact isTV_toRes _
    · simp at hp
  · split at hp
    · rw [mOp_leaf sch d "$nin" path _ _ rfl, matchIn_bool, matchUnwind_toRes]
      exact isTV_negate (isTV_toRes _)
    · simp at hp
  · rw [mOp_leaf sch d "$exists" path v _ rfl]; exact matchExists_tv d path v
  · rw [mOp_leaf sch d "$type" path v _ rfl]
    obtain ⟨n, ts, rfl⟩ := parseType_inv hp
    rw [matchType_unfold d path v n ts hp]; exact isTV_toRes _
  · rw [mOp_leaf sch d "$size" path v _ rfl]
    obtain ⟨n, rfl⟩ := parseSize_inv hp
    exact matchSize_tv d path v n hp
  · split at hp
    · rw [mOp_leaf sch d "$all" path _ _ rfl, matchAll_bool]; exact isTV_toRes _
    · simp at hp
  · rw [mOp_leaf sch d "$mod" path v _ rfl]
    obtain ⟨a, b, rfl⟩ := parseMod_inv hp
    exact matchMod_tv d path v a b hp
  · rw [mOp_leaf sch d "$bitsAllSet" path v _ rfl]
    obtain ⟨ps, rfl⟩ := parseBits_inv hp
    exact matchBits_tv d path .allSet v ps hp
  · rw [mOp_leaf sch d "$bitsAllClear" path v _ rfl]
    obtain ⟨ps, rfl⟩ := parseBits_inv hp
    exact matchBits_tv d path .allClear v ps hp
  · rw [mOp_leaf sch d "$bitsAnySet" path v _ rfl]
    obtain ⟨ps, rfl⟩ := parseBits_inv hp
    exact matchBits_tv d path .anySet v ps hp
  · rw [mOp_leaf sch d "$bitsAnyClear" path v _ rfl]
    obtain ⟨ps, rfl⟩ := parseBits_inv hp
    exact matchBits_tv d path .anyClear v ps hp
  · simp at hp

theorem elemLoop_tv (f : V → Res Unit) (xs : List V) (h : ∀ x, IsTV (f x)) : IsTV (elemLoop f xs) := by
  induction xs with
  | nil => exact isTV_notMatched
  | cons x r ih =>
    rw [elemLoop]
    obtain ⟨b, hb⟩ := h x
    rw [hb]
    cases b
    · exact ih
    · exact isTV_ok

/-- the sequencing step of the Process/mOps loops -/
def seqR (a r : Res Unit) : Res Unit :=
  match a with
  | .error e => .error e
  | .ok _ => r

theorem isTV_seq {a r : Res Unit} (ha : IsTV a) (hr : IsTV r) : IsTV (seqR a r) := by
  obtain ⟨b, rfl⟩ := ha
  cases b
  · exact isTV_nm
  · exact hr

/-! ### recursion over conditions (for every document and path) -/

def TvA (sch : SchemaEval) (op : String) (v : V) : Prop :=
  ∀ (d : Doc) (path : String) (c : Cond), parseCond op v = some c → IsTV (mOp sch d op path v)
def TvB (sch : SchemaEval) (ops : List (String × V)) : Prop :=
  ∀ (d : Doc) (path : String) (cs : List Cond), parseConds ops = some cs →
    IsTV (mOps sch d path ops) ∧ IsTV (mProcess sch d ops path false)
def TvD (sch : SchemaEval) (v : V) : Prop :=
  ∀ (d : Doc) (path : String) (cs : List Cond), parseFieldValue v = some cs → IsTV (mField sch d path v)
def TvC (sch : SchemaEval) (q : List (String × V)) : Prop :=
  ∀ (d : Doc) (pfx : String) (fcs : List FieldCond), parseFieldConds q = some fcs →
    IsTV (mProcess sch d q pfx false)

structure TvUpTo (sch : SchemaEval) (n : Nat) : Prop where
  a : ∀ op v, sizeOf v < n → TvA sch op v
  b : ∀ ops, sizeOf ops < n → TvB sch ops
  d : ∀ v, sizeOf v < n → TvD sch v
  c : ∀ q, sizeOf q < n → TvC sch q

theorem tvA_step (sch : SchemaEval) (n : Nat) (ih : TvUpTo sch n) (op : String) (v : V)
    (hn : sizeOf v < n + 1) : TvA sch op v := by
  intro d path c hp
  unfold parseCond at hp
  by_cases hnot : op = "$not"
  · subst hnot
    simp only [beq_self_eq_true, ↓reduceIte] at hp
    cases v with
    | doc q =>
      cases q with
      | nil => simp at hp
      | cons e es =>
        simp only [Option.map_eq_some_iff] at hp
        obtain ⟨cs, hcs, rfl⟩ := hp
        rw [mOp_not sch d path (e :: es) (by simp)]
        exact isTV_negate (ih.b (e :: es) (by simp at hn ⊢; omega) d path cs hcs).2
    | _ => simp at hp
  · have hnot' : (op == "$not") = false := by simpa using hnot
    by_cases hel : op = "$elemMatch"
    · subst hel
      simp only [hnot', Bool.false_eq_true, ↓reduceIte, beq_self_eq_true] at hp
      cases v with
      | doc q =>
        cases q with
        | nil => simp at hp
        | cons e es =>
          obtain ⟨k, w⟩ := e
          simp only at hp
          rw [mOp_elemMatch sch d path ((k, w) :: es) (by simp)]
          split
          · apply elemLoop_tv
            intro x
            split
            · exact isTV_notMatched
            by_cases hop : isOpKey k = true
            · simp only [hop, ↓reduceIte, Option.map_eq_some_iff] at hp
              obtain ⟨cs, hcs, _⟩ := hp
              exact (ih.b ((k, w) :: es) (by simp at hn ⊢; omega) _ "item" cs hcs).2
            · have hop' : isOpKey k = false := by simpa using hop
              simp only [hop', Bool.false_eq_true, ↓reduceIte, Option.map_eq_some_iff] at hp
              obtain ⟨fcs, hfcs, _⟩ := hp
              exact ih.c ((k, w) :: es) (by simp at hn ⊢; omega) _ "item" fcs hfcs
          · exact isTV_notMatched
      | _ => simp at hp
    · have hel' : (op == "$elemMatch") = false := by simpa using hel
      simp only [hnot', hel', Bool.false_eq_true, ↓reduceIte] at hp
      exact leaf_tv sch d path op v c hp

theorem tvB_step (sch : SchemaEval) (n : Nat) (ih : TvUpTo sch n) (ops : List (String × V))
    (hn : sizeOf ops < n + 1) : TvB sch ops := by
  intro d path cs hp
  cases ops with
  | nil => rw [mOps, mProcess]; exact ⟨isTV_ok, isTV_ok⟩
  | cons kv r =>
    obtain ⟨k, v⟩ := kv
    rw [parseConds] at hp
    by_cases hop : isOpKey k = true
    · simp only [hop, Bool.not_true, Bool.false_eq_true, ↓reduceIte] at hp
      cases hpc : parseCond k v with
      | none => simp [hpc] at hp
      | some c =>
        cases hpr : parseConds r with
        | none => simp [hpc, hpr] at hp
        | some cs' =>
          have iha := ih.a k v (by simp at hn ⊢; omega) d path c hpc
          have ihr := ih.b r (by simp at hn ⊢; omega) d path cs' hpr
          rw [mOps, mProcess, mExpr_op sch d path k v hop]
          simp only [hop, Bool.not_true, Bool.false_eq_true, ↓reduceIte]
          exact ⟨isTV_seq iha ihr.1, isTV_seq iha ihr.2⟩
    · simp [hop] at hp

theorem tvD_step (sch : SchemaEval) (n : Nat) (ih : TvUpTo sch n) (v : V)
    (hn : sizeOf v < n + 1) : TvD sch v := by
  intro d path cs hp
  cases v with
  | doc q =>
    cases q with
    | nil => exact matchLit_tv d path _
    | cons e es =>
      obtain ⟨k, w⟩ := e
      by_cases hop : isOpKey k = true
      · simp only [parseFieldValue, hop, ↓reduceIte] at hp
        simp only [mField, hop, ↓reduceIte]
        exact (ih.b ((k, w) :: es) (by simp at hn ⊢; omega) d path cs hp).1
      · have hop' : isOpKey k = false := by simpa using hop
        simp only [mField, hop', Bool.false_eq_true, ↓reduceIte]
        exact matchLit_tv d path _
  | _ => exact matchLit_tv d path _

theorem tvC_step (sch : SchemaEval) (n : Nat) (ih : TvUpTo sch n) (q : List (String × V))
    (hn : sizeOf q < n + 1) : TvC sch q := by
  intro d pfx fcs hp
  cases q with
  | nil => rw [mProcess]; exact isTV_ok
  | cons kv r =>
    obtain ⟨k, v⟩ := kv
    rw [parseFieldConds] at hp
    by_cases hop : isOpKey k = true
    · simp [hop] at hp
    · have hop' : isOpKey k = false := by simpa using hop
      simp only [hop', Bool.false_eq_true, ↓reduceIte] at hp
      cases hpv : parseFieldValue v with
      | none => simp [hpv] at hp
      | some cs =>
        cases hpr : parseFieldConds r with
        | none => simp [hpv, hpr] at hp
        | some fcs' =>
          rw [mProcess, mExpr_field sch d pfx k v false hop']
          exact isTV_seq (ih.d v (by simp at hn ⊢; omega) d _ cs hpv)
            (ih.c r (by simp at hn ⊢; omega) d pfx fcs' hpr)

theorem tv_upTo (sch : SchemaEval) : ∀ n, TvUpTo sch n := by
  intro n
  induction n with
  | zero => exact ⟨fun _ _ h => absurd h (Nat.not_lt_zero _), fun _ h => absurd h (Nat.not_lt_zero _),
      fun _ h => absurd h (Nat.not_lt_zero _), fun _ h => absurd h (Nat.not_lt_zero _)⟩
  | succ n ih =>
    exact ⟨fun op v h => tvA_step sch n ih op v h, fun ops h => tvB_step sch n ih ops h,
      fun v h => tvD_step sch n ih v h, fun q h => tvC_step sch n ih q h⟩

theorem fieldValue_tv (sch : SchemaEval) (v : V) : TvD sch v :=
  (tv_upTo sch (sizeOf v + 1)).d v (Nat.lt_succ_self _)

/-! ### entries and filters -/

/-- the `$jsonSchema` evaluator never fails -/
def SchTotal (sch : SchemaEval) : Prop := ∀ s d, IsTV (sch s d)

def TvE (sch : SchemaEval) (k : String) (v : V) : Prop :=
  ∀ (d : Doc) (e : Entry), parseEntry k v = some e → IsTV (mExpr sch d "" k v true)
def TvEs (sch : SchemaEval) (q : List (String × V)) : Prop :=
  ∀ (d : Doc) (es : List Entry), parseEntries q = some es → IsTV (mProcess sch d q "" true)
def TvFs (sch : SchemaEval) (items : List V) : Prop :=
  ∀ (d : Doc) (fs : List Filter), parseFilters items = some fs →
    IsTV (mAndLoop sch d items) ∧ IsTV (mOrLoop sch d items)

structure TvTopUpTo (sch : SchemaEval) (n : Nat) : Prop where
  e : ∀ k v, sizeOf v < n → TvE sch k v
  es : ∀ q, sizeOf q < n → TvEs sch q
  fs : ∀ items, sizeOf items < n → TvFs sch items

theorem tvE_step (sch : SchemaEval) (hs : SchTotal sch) (n : Nat) (ih : TvTopUpTo sch n) (k : String) (v : V)
    (hn : sizeOf v < n + 1) : TvE sch k v := by
  intro d e hp
  unfold parseEntry at hp
  by_cases hop : isOpKey k = true
  · simp only [hop, ↓reduceIte] at hp
    have arr_case : ∀ (kk : String), k = kk → (kk = "$and" ∨ kk = "$or" ∨ kk = "$nor") →
        ∀ x r, v = .arr (x :: r) → ∀ fs, parseFilters (x :: r) = some fs → IsTV (mExpr sch d "" k v true) := by
      intro kk hk hkk x r hv fs hfs
      subst hk hv
      have := ih.fs (x :: r) (by simp at hn ⊢; omega) d fs hfs
      unfold mExpr
      rcases hkk with h | h | h <;> subst h
      · simpa [isOpKey] using this.1
      · simpa [isOpKey] using this.2
      · have := isTV_negate this.2
        simpa [isOpKey] using this
    by_cases hand : k = "$and"
    · simp only [hand, beq_self_eq_true, ↓reduceIte] at hp
      cases v with
      | arr xs =>
        cases xs with
        | nil => simp at hp
        | cons x r =>
          simp only [Option.map_eq_some_iff] at hp
          obtain ⟨fs, hfs, _⟩ := hp
          exact arr_case "$and" hand (Or.inl rfl) x r rfl fs hfs
      | _ => simp at hp
    · have hand' : (k == "$and") = false := by simpa using hand
      by_cases hor : k = "$or"
      · simp only [hor, beq_self_eq_true, ↓reduceIte] at hp
        simp only [show ("$or" == "$and") = false by decide, Bool.false_eq_true, ↓reduceIte] at hp
        cases v with
        | arr xs =>
          cases xs with
          | nil => simp at hp
          | cons x r =>
            simp only [Option.map_eq_some_iff] at hp
            obtain ⟨fs, hfs, _⟩ := hp
            exact arr_case "$or" hor (Or.inr (Or.inl rfl)) x r rfl fs hfs
        | _ => simp at hp
      · have hor' : (k == "$or") = false := by simpa using hor
        by_cases hnor : k = "$nor"
        · simp only [hnor, beq_self_eq_true, ↓reduceIte] at hp
          simp only [show ("$nor" == "$and") = false by decide, show ("$nor" == "$or") = false by decide,
            Bool.false_eq_true, ↓reduceIte] at hp
          cases v with
          | arr xs =>
            cases xs with
            | nil => simp at hp
            | cons x r =>
              simp only [Option.map_eq_some_iff] at hp
              obtain ⟨fs, hfs, _⟩ := hp
              exact arr_case "$nor" hnor (Or.inr (Or.inr rfl)) x r rfl fs hfs
          | _ => simp at hp
        · have hnor' : (k == "$nor") = false := by simpa using hnor
          by_cases hjs : k = "$jsonSchema"
          · subst hjs
            simp only [hand', hor', hnor', Bool.false_eq_true, ↓reduceIte, beq_self_eq_true] at hp
            cases v with
            | doc s =>
              unfold mExpr
              have := hs s d
              simpa [isOpKey] using this
            | _ => simp at hp
          · have hjs' : (k == "$jsonSchema") = false := by simpa using hjs
            simp [hand', hor', hnor', hjs'] at hp
  · have hop' : isOpKey k = false := by simpa using hop
    simp only [hop', Bool.false_eq_true, ↓reduceIte, Option.map_eq_some_iff] at hp
    obtain ⟨cs, hcs, _⟩ := hp
    rw [mExpr_field sch d "" k v true hop']
    exact fieldValue_tv sch v d _ cs hcs

theorem tvEs_step (sch : SchemaEval) (n : Nat) (ih : TvTopUpTo sch n) (q : List (String × V))
    (hn : sizeOf q < n + 1) : TvEs sch q := by
  intro d es hp
  cases q with
  | nil => rw [mProcess]; exact isTV_ok
  | cons kv r =>
    obtain ⟨k, v⟩ := kv
    rw [parseEntries] at hp
    cases hpe : parseEntry k v with
    | none => simp [hpe] at hp
    | some e =>
      cases hpr : parseEntries r with
      | none => simp [hpe, hpr] at hp
      | some es' =>
        rw [mProcess]
        exact isTV_seq (ih.e k v (by simp at hn ⊢; omega) d e hpe) (ih.es r (by simp at hn ⊢; omega) d es' hpr)

theorem tvFs_step (sch : SchemaEval) (n : Nat) (ih : TvTopUpTo sch n) (items : List V)
    (hn : sizeOf items < n + 1) : TvFs sch items := by
  intro d fs hp
  cases items with
  | nil => rw [mAndLoop, mOrLoop]; exact ⟨isTV_ok, isTV_notMatched⟩
  | cons x r =>
    cases x with
    | doc q =>
      rw [parseFilters] at hp
      cases hpq : parseEntries q with
      | none => simp [hpq] at hp
      | some es =>
        cases hpr : parseFilters r with
        | none => simp [hpq, hpr] at hp
        | some fs' =>
          obtain ⟨b, hb⟩ := ih.es q (by simp at hn ⊢; omega) d es hpq
          obtain ⟨ha, ho⟩ := ih.fs r (by simp at hn ⊢; omega) d fs' hpr
          rw [mAndLoop, mOrLoop, hb]
          cases b
          · exact ⟨isTV_nm, ho⟩
          · exact ⟨ha, isTV_ok⟩
    | _ => simp [parseFilters] at hp

theorem tvTop_upTo (sch : SchemaEval) (hs : SchTotal sch) : ∀ n, TvTopUpTo sch n := by
  intro n
  induction n with
  | zero => exact ⟨fun _ _ h => absurd h (Nat.not_lt_zero _), fun _ h => absurd h (Nat.not_lt_zero _),
      fun _ h => absurd h (Nat.not_lt_zero _)⟩
  | succ n ih =>
    exact ⟨fun k v h => tvE_step sch hs n ih k v h, fun q h => tvEs_step sch n ih q h,
      fun items h => tvFs_step sch n ih items h⟩

theorem entries_tv (sch : SchemaEval) (hs : SchTotal sch) (q : List (String × V)) : TvEs sch q :=
  (tvTop_upTo sch hs (sizeOf q + 1)).es q (Nat.lt_succ_self _)

end Lungo
