/-
  Lungo.Proofs.OwnRun — soundness of `ownedOK` / `argsOK` at the level of one call (`run`), and the
  identity-erasing observation `observe`.
-/
import Lungo.Proofs.OwnSoundStmt
namespace Lungo.Own

/-- all DocNodes the caller passed in -/
def Args.allDocs (a : Args) : List Nat := a.docs.flatMap (·.2)

theorem initSt_docs (a : Args) (ch : Choices) (h : Heap) (t : TxnState) (v : Var) :
    ∀ o ∈ (initSt a ch h t).docsOf v, o ∈ a.allDocs := by
  intro o ho
  simp only [St.docsOf, initSt] at ho
  cases hl : (a.docs.map fun p => (p.1, p.2.filter (· < h.size))).lookup v with
  | none => simp [hl] at ho
  | some os =>
    simp only [hl, Option.getD_some] at ho
    obtain ⟨p, hp, e⟩ := List.mem_map.mp (lookup_mem hl)
    simp only [Prod.mk.injEq] at e
    rw [← e.2] at ho
    exact List.mem_flatMap.mpr ⟨p, hp, (List.mem_filter.mp ho).1⟩

theorem Gam.init (cx : Ctx) (a : Args) (ch : Choices) (h : Heap) (t : TxnState) :
    Gam cx t {} (initSt a ch h t) :=
  ⟨fun v hv => by simp [Abs.owns] at hv, fun v hv => by simp [Abs.ownsDocs] at hv,
   fun h => (by cases h), fun _ => rfl⟩

theorem Inv.init (strict : Bool) (a : Args) (ch : Choices) (h : Heap) (t : TxnState) :
    Inv ⟨h.size, strict, a.allDocs⟩ h (initSt a ch h t) :=
  ⟨Nat.le_refl _, Step.refl _ _, fun v o ho => .inr (initSt_docs a ch h t v o ho)⟩

/-- the call-level soundness statement shared by both modes -/
theorem run_sound (strict : Bool) (p : Prog) (hp : (checkL strict p {}).ok = true)
    (a : Args) (ch : Choices) (h : Heap) (t : TxnState) :
    Step ⟨h.size, strict, a.allDocs⟩ h (run p a ch (h, t)).1 ∧
    ((run p a ch (h, t)).2.2 = .error → (run p a ch (h, t)).2.1 = t) := by
  have := sound_execL (cx := ⟨h.size, strict, a.allDocs⟩) (t0 := t) (h0 := h) p {} (initSt a ch h t)
    (Inv.init strict a ch h t) (Gam.init _ a ch h t) hp
  simp only [run]
  revert this
  generalize execL p (initSt a ch h t) = r
  obtain ⟨st', sg⟩ := r
  intro this
  refine ⟨this.1.step, fun he => ?_⟩
  cases sg with
  | ret =>
    simp only [outcomeOf] at he
    split at he
    · rename_i herr; exact this.2.2 herr
    · cases he
  | next | brk | cont | panic => simp [outcomeOf] at he

/-- all DocNodes bound to document variables -/
def St.allDocs (st : St) : List Nat := st.env.docs.flatMap (·.2)

/-- **isolation of a checked block started anywhere**: a statement list that passes the ownership check
    from the EMPTY abstract state (it mutates only what it clones itself), run from ANY state, leaves every
    object that existed when it started untouched — except documents bound to document variables. -/
theorem block_isolated (P : List Stmt) (hp : (checkL false P {}).ok = true) (st : St) :
    st.heap.size ≤ (execL P st).1.heap.size ∧
    (∀ o, o < st.heap.size → o ∉ st.allDocs → (execL P st).1.heap.get o = st.heap.get o) := by
  have i : Inv ⟨st.heap.size, false, st.allDocs⟩ st.heap st :=
    ⟨Nat.le_refl _, Step.refl _ _, fun v o ho => .inr (by
      simp only [St.docsOf] at ho
      cases hl : st.env.docs.lookup v with
      | none => simp [hl] at ho
      | some os =>
        simp only [hl, Option.getD_some] at ho
        exact List.mem_flatMap.mpr ⟨_, lookup_mem hl, ho⟩)⟩
  have g : Gam ⟨st.heap.size, false, st.allDocs⟩ st.txn {} st :=
    ⟨fun v hv => by simp [Abs.owns] at hv, fun v hv => by simp [Abs.ownsDocs] at hv,
     fun h => (by cases h), fun _ => rfl⟩
  have := sound_execL (cx := ⟨st.heap.size, false, st.allDocs⟩) (t0 := st.txn) (h0 := st.heap) P {} st i g hp
  exact ⟨this.1.step.size, fun o ho hx => this.1.step.frozen ho ho (.inr hx)⟩

theorem execL_append (P T : List Stmt) (st : St) :
    execL (P ++ T) st = match execL P st with
      | (st1, .next) => execL T st1
      | r => r := by
  induction P generalizing st with
  | nil => simp [execL]
  | cons s ss ih =>
    simp only [List.cons_append, execL]
    generalize exec s st = r
    obtain ⟨st1, sg⟩ := r
    cases sg <;> simp [ih]

/-- the tail of a batch item: `if err != nil { if ordered { break } else { continue } }`, then the two installs -/
def itemTail (h : HExpr) : List Stmt :=
  [.ite .err [.ite (.test "ordered") [.brk] [.cont]] [], .setNs "clone" h "namespace", .setNs "clone" .oplog "oplog"]

theorem itemTail_err (h : HExpr) (st : St) (he : st.env.err = true) :
    (execL (itemTail h) st).1.heap = st.heap ∧ (execL (itemTail h) st).1.txn = st.txn ∧
    ((execL (itemTail h) st).2 = .brk ∨ (execL (itemTail h) st).2 = .cont) := by
  simp only [itemTail, execL, exec, Cond.eval, he, if_true]
  cases st.popFlag.1 <;> simp [St.popFlag]

theorem itemTail_ok (h : HExpr) (st : St) (he : st.env.err = false) :
    execL (itemTail h) st = execL [.setNs "clone" h "namespace", .setNs "clone" .oplog "oplog"] st := by
  simp [itemTail, execL, exec, Cond.eval, he]

/-! ### observation -/

/-- contents of a document node -/
def obsDoc (h : Heap) (o : Nat) : Option Nat :=
  match h.get o with
  | some (.doc v) => some v
  | _ => none

/-- contents of a Set / index: the documents it lists, identities erased -/
def obsList (h : Heap) (o : Nat) : Option (List (Option Nat)) :=
  match h.get o with
  | some (.set l) => some (l.map (obsDoc h))
  | some (.idx l) => some (l.map (obsDoc h))
  | _ => none

/-- what a collection shows: its documents and, per index name, the documents the index lists -/
structure CollV where
  docs : Option (List (Option Nat))
  idx : List (String × Option (List (Option Nat)))
  deriving DecidableEq, Repr

abbrev CollView := Option CollV

def obsColl (h : Heap) (o : Nat) : CollView :=
  match h.get o with
  | some (.coll s idxs) => some ⟨obsList h s, idxs.map fun p => (p.1, obsList h p.2)⟩
  | _ => none

abbrev CatView := Option (List (Nat × CollView))

/-- everything reachable from a catalog root — namespaces, their documents and indexes, the oplog —
    with object identities erased -/
def observe (h : Heap) (root : Nat) : CatView :=
  match h.get root with
  | some (.cat ns) => some (ns.map fun p => (p.1, obsColl h p.2))
  | _ => none

def Obj.ptrs : Obj → List Nat
  | .cat ns => ns.map (·.2)
  | .coll s idxs => s :: idxs.map (·.2)
  | .set l => l
  | .idx l => l
  | .doc _ => []

/-- no dangling pointers -/
def Closed (h : Heap) : Prop := ∀ o x, h.get o = some x → ∀ p ∈ x.ptrs, p < h.size

/-- `h'` agrees with `h` on every object of `h` -/
def Agree (h h' : Heap) : Prop := ∀ o, o < h.size → h'.get o = h.get o

theorem Agree.refl (h : Heap) : Agree h h := fun _ _ => rfl
theorem Agree.trans {h1 h2 h3 : Heap} (hs : h1.size ≤ h2.size) (a : Agree h1 h2) (b : Agree h2 h3) : Agree h1 h3 :=
  fun o ho => (b o (Nat.lt_of_lt_of_le ho hs)).trans (a o ho)

/-- the objects `obsList` looks at -/
def reachList (h : Heap) (o : Nat) : List Nat := o :: (setList h o ++ idxEntries h o)

/-- the objects `obsColl` looks at -/
def reachColl (h : Heap) (c : Nat) : List Nat :=
  match h.get c with
  | some (.coll s idxs) => c :: (reachList h s ++ idxs.flatMap fun p => reachList h p.2)
  | _ => [c]

/-- the objects `observe` looks at: everything reachable from the catalog root -/
def reach (h : Heap) (root : Nat) : List Nat :=
  match h.get root with
  | some (.cat ns) => root :: ns.flatMap fun p => reachColl h p.2
  | _ => [root]

theorem obsList_congr {h h' : Heap} {o : Nat} (e : ∀ p ∈ reachList h o, h'.get p = h.get p) :
    obsList h' o = obsList h o := by
  have e0 := e o (List.mem_cons_self ..)
  simp only [obsList, e0]
  cases hg : h.get o with
  | none => rfl
  | some x =>
    cases x with
    | set l =>
      simp only [Option.some.injEq]
      refine List.map_congr_left fun p hp => ?_
      simp only [obsDoc, e p (by simp [reachList, setList, hg, hp])]
    | idx l =>
      simp only [Option.some.injEq]
      refine List.map_congr_left fun p hp => ?_
      simp only [obsDoc, e p (by simp [reachList, idxEntries, hg, hp])]
    | cat _ | coll _ _ | doc _ => rfl

theorem obsColl_congr {h h' : Heap} {o : Nat} (e : ∀ p ∈ reachColl h o, h'.get p = h.get p) :
    obsColl h' o = obsColl h o := by
  have e0 : h'.get o = h.get o := e o (by simp only [reachColl]; split <;> simp)
  simp only [obsColl, e0]
  cases hg : h.get o with
  | none => rfl
  | some x =>
    cases x with
    | coll s idxs =>
      simp only [reachColl, hg] at e
      simp only [Option.some.injEq, CollV.mk.injEq]
      refine ⟨obsList_congr fun p hp => e p (by simp [hp]), List.map_congr_left fun q hq => ?_⟩
      rw [obsList_congr fun p hp => e p (List.mem_cons_of_mem _ (List.mem_append_right _
        (List.mem_flatMap.mpr ⟨q, hq, hp⟩)))]
    | cat _ | set _ | idx _ | doc _ => rfl

/-- `observe` depends only on the objects in `reach` -/
theorem observe_congr {h h' : Heap} {root : Nat} (e : ∀ p ∈ reach h root, h'.get p = h.get p) :
    observe h' root = observe h root := by
  have e0 : h'.get root = h.get root := e root (by simp only [reach]; split <;> simp)
  simp only [observe, e0]
  cases hg : h.get root with
  | none => rfl
  | some x =>
    cases x with
    | cat ns =>
      simp only [reach, hg] at e
      simp only [Option.some.injEq]
      refine List.map_congr_left fun q hq => ?_
      rw [obsColl_congr fun p hp => e p (List.mem_cons_of_mem _ (List.mem_flatMap.mpr ⟨q, hq, hp⟩))]
    | coll _ _ | set _ | idx _ | doc _ => rfl

theorem reachList_lt {h : Heap} (c : Closed h) {o : Nat} (ho : o < h.size) : ∀ p ∈ reachList h o, p < h.size := by
  intro p hp
  simp only [reachList, List.mem_cons, List.mem_append] at hp
  rcases hp with rfl | hp | hp
  · exact ho
  · simp only [setList] at hp
    split at hp
    · rename_i l hg; exact c o _ hg p hp
    · cases hp
  · simp only [idxEntries] at hp
    split at hp
    · rename_i l hg; exact c o _ hg p hp
    · cases hp

theorem reachColl_lt {h : Heap} (c : Closed h) {o : Nat} (ho : o < h.size) : ∀ p ∈ reachColl h o, p < h.size := by
  intro p hp
  simp only [reachColl] at hp
  split at hp
  · rename_i s idxs hg
    simp only [List.mem_cons, List.mem_append, List.mem_flatMap] at hp
    rcases hp with rfl | hp | ⟨q, hq, hp⟩
    · exact ho
    · exact reachList_lt c (c o _ hg s (by simp [Obj.ptrs])) p hp
    · exact reachList_lt c (c o _ hg q.2 (by simp only [Obj.ptrs, List.mem_cons, List.mem_map]; exact .inr ⟨q, hq, rfl⟩)) p hp
  · simp at hp; subst hp; exact ho

/-- in a closed heap everything reachable from an allocated root is allocated -/
theorem reach_lt {h : Heap} (c : Closed h) {root : Nat} (hr : root < h.size) : ∀ p ∈ reach h root, p < h.size := by
  intro p hp
  simp only [reach] at hp
  split at hp
  · rename_i ns hg
    simp only [List.mem_cons, List.mem_flatMap] at hp
    rcases hp with rfl | ⟨q, hq, hp⟩
    · exact hr
    · exact reachColl_lt c (c root _ hg q.2 (by simp only [Obj.ptrs, List.mem_map]; exact ⟨q, hq, rfl⟩)) p hp
  · simp at hp; subst hp; exact hr

/-- a root of the old heap observes the same in any heap that agrees with the old one -/
theorem observe_agree {h h' : Heap} (c : Closed h) (ag : Agree h h') {root : Nat} (hr : root < h.size) :
    observe h' root = observe h root :=
  observe_congr fun p hp => ag p (reach_lt c hr p hp)

end Lungo.Own
