/-
  Lungo.Proofs.ProjectPaths — "get after put" on nested documents, and inclusion projections on
  dotted paths (used by Props/C14.lean: `inclusion_values_are_stored`).

  `SubV x y` ("x is a projection of y") is the invariant of the inclusion phase of
  mongokit.Project: the result under construction only ever holds values that sit at the same path
  in the stored document.  `put_preserves_sub` is the Access lemma: writing `get y q` at `q` into a
  projection of `y` gives a projection of `y` — for paths `q` without empty segments that cross no
  array in `y` (`noArrayBefore`, from SortLaws §7).
-/
import Lungo.Proofs.ProjectLaws
import Lungo.Proofs.SortLaws
namespace Lungo


/-- `x` is a projection of `y`: equal to it, or a document each of whose (visible, i.e.
    first-occurrence) fields is a projection of the field of the same name of `y`. -/
inductive SubV : V → V → Prop
  | refl (v : V) : SubV v v
  | doc (fs gs : List (String × V))
      (hdom : ∀ k v, Doc.find? fs k = some v → (Doc.find? gs k).isSome = true)
      (hsub : ∀ k v w, Doc.find? fs k = some v → Doc.find? gs k = some w → SubV v w) :
      SubV (.doc fs) (.doc gs)

theorem SubV.doc_inv {fs gs : List (String × V)} (h : SubV (.doc fs) (.doc gs)) :
    (∀ k v, Doc.find? fs k = some v → (Doc.find? gs k).isSome = true) ∧
    (∀ k v w, Doc.find? fs k = some v → Doc.find? gs k = some w → SubV v w) := by
  cases h with
  | refl => exact ⟨fun k v h => by simp [h], fun k v w h1 h2 => by rw [h1] at h2; cases h2; exact SubV.refl _⟩
  | doc _ _ hdom hsub => exact ⟨hdom, hsub⟩

/-- a non-document projection is the value itself -/
theorem SubV.eq_of_not_doc {x y : V} (h : SubV x y) (hx : x.isDoc = false) : x = y := by
  cases h with
  | refl => rfl
  | doc => simp [V.isDoc] at hx

theorem getField_find (fs : List (String × V)) (key : String) (rest : Path) (c k : Bool) :
    getField fs key rest c k = match Doc.find? fs key with
      | some v => get v rest c k
      | none => (.missing, false) := by
  induction fs with
  | nil => rfl
  | cons kv r ih =>
    obtain ⟨k', v⟩ := kv
    simp only [getField, Doc.find?]
    split
    · rfl
    · exact ih

theorem get_doc_find (fs : List (String × V)) (key : String) (rest : Path) (c k : Bool)
    (hk : key ≠ "") :
    get (.doc fs) (key :: rest) c k = match Doc.find? fs key with
      | some v => get v rest c k
      | none => (.missing, false) := by
  have hk' : (key == "") = false := by simpa using hk
  simp only [get, hk', Bool.false_and, Bool.false_eq_true, ↓reduceIte, getField_find]

/-- reading through a projection: every path of `x` that is present leads to a projection of what
    the same path leads to in `y` -/
theorem SubV.get (path : Path) : ∀ {x y : V}, SubV x y → "" ∉ path →
    (get x path false false).1 = .missing ∨ SubV (get x path false false).1 (get y path false false).1 := by
  induction path with
  | nil => intro x y h _; right; simpa [Lungo.get] using h
  | cons key rest ih =>
    intro x y h hne
    have hk : key ≠ "" := fun e => hne (by simp [e])
    have hne' : "" ∉ rest := fun e => hne (by simp [e])
    cases h with
    | refl => right; exact SubV.refl _
    | doc fs gs hdom hsub =>
      rw [get_doc_find fs key rest _ _ hk, get_doc_find gs key rest _ _ hk]
      cases hf : Doc.find? fs key with
      | none => left; rfl
      | some v =>
        have := hdom key v hf
        cases hg : Doc.find? gs key with
        | none => simp [hg] at this
        | some w => exact ih (hsub key v w hf hg) hne'

theorem find_upsert (fs : Doc) (key : String) (nv : V) (k : String) :
    Doc.find? (upsert fs key nv) k = if k = key then some nv else Doc.find? fs k := by
  induction fs with
  | nil =>
    simp only [upsert, Doc.find?]
    by_cases h : k = key
    · simp [h]
    · have : (key == k) = false := by simpa using (fun e => h e.symm : ¬ key = k)
      simp [h, this]
  | cons kv r ih =>
    obtain ⟨k', x⟩ := kv
    simp only [upsert]
    by_cases h' : k' = key
    · subst h'
      simp only [beq_self_eq_true, ↓reduceIte, Doc.find?]
      by_cases h : k = k'
      · simp [h]
      · have : (k' == k) = false := by simpa using (fun e => h e.symm : ¬ k' = k)
        simp [h, this]
    · have hb : (k' == key) = false := by simpa using h'
      simp only [hb, Bool.false_eq_true, ↓reduceIte, Doc.find?, ih]
      by_cases h : k = key
      · have : (k' == k) = false := by rw [h]; exact hb
        simp [h, h']
      · simp [h]

theorem put_nonmissing (x : V) (path : Path) (value : V) (pp : Bool) (nv prev : V)
    (hv : value.isMissing = false) (h : put x path value pp = .ok (nv, prev)) : nv.isMissing = false := by
  cases path with
  | nil => simp only [put, Except.ok.injEq, Prod.mk.injEq] at h; rw [← h.1]; exact hv
  | cons key rest =>
    unfold put at h
    split at h
    · cases h
    · iterate 16 (all_goals (try (first | (cases h; first | rfl | done) | split at h | simp only at h)))
theorem fieldIndex_some (fs : Doc) (key : String) : ∀ i, fieldIndex fs key = some i →
    ∃ k old, fs[i]? = some (k, old) ∧ Doc.find? fs key = some old ∧
      ∀ nv, listSet fs i (k, nv) = upsert fs key nv := by
  induction fs with
  | nil => intro i h; simp [fieldIndex] at h
  | cons kv r ih =>
    obtain ⟨k', x⟩ := kv
    intro i h
    simp only [fieldIndex, List.findIdx?_cons] at h
    by_cases hk : k' = key
    · subst hk
      simp only [beq_self_eq_true, ↓reduceIte, Option.some.injEq] at h
      subst h
      exact ⟨k', x, rfl, by simp [Doc.find?], fun nv => by simp [listSet, upsert]⟩
    · have hb : (k' == key) = false := by simpa using hk
      simp only [hb, Bool.false_eq_true, ↓reduceIte, Option.map_eq_some_iff] at h
      obtain ⟨j, hj, rfl⟩ := h
      obtain ⟨k, old, h1, h2, h3⟩ := ih j hj
      exact ⟨k, old, by simpa using h1, by simp [Doc.find?, hb, h2],
        fun nv => by simp [listSet, upsert, hb, h3]⟩

theorem fieldIndex_none (fs : Doc) (key : String) : fieldIndex fs key = none →
    Doc.find? fs key = none ∧ ∀ nv, fs ++ [(key, nv)] = upsert fs key nv := by
  induction fs with
  | nil => intro _; exact ⟨rfl, fun nv => rfl⟩
  | cons kv r ih =>
    obtain ⟨k', x⟩ := kv
    intro h
    simp only [fieldIndex, List.findIdx?_cons] at h
    by_cases hk : k' = key
    · subst hk; simp at h
    · have hb : (k' == key) = false := by simpa using hk
      simp only [hb, Bool.false_eq_true, ↓reduceIte, Option.map_eq_none_iff] at h
      obtain ⟨h2, h3⟩ := ih h
      exact ⟨by simp [Doc.find?, hb, h2], fun nv => by simp [upsert, hb, h3]⟩

theorem put_doc_ok (fs : Doc) (key : String) (rest : Path) (value x' prev : V) (hk : key ≠ "")
    (hv : value.isMissing = false)
    (h : put (.doc fs) (key :: rest) value false = .ok (x', prev)) :
    ∃ nv prev0, put ((Doc.find? fs key).getD .missing) rest value false = .ok (nv, prev0) ∧
      x' = .doc (upsert fs key nv) := by
  have hk' : (key == "") = false := by simpa using hk
  simp only [put, hk', Bool.false_and, Bool.false_eq_true, ↓reduceIte] at h
  cases hfi : fieldIndex fs key with
  | some i =>
    obtain ⟨k, old, h1, h2, h3⟩ := fieldIndex_some fs key i hfi
    simp only [hfi, h1] at h
    cases hp : put old rest value false with
    | error e => simp [hp] at h
    | ok r =>
      obtain ⟨nv, prev0⟩ := r
      have hnm := put_nonmissing old rest value false nv prev0 hv hp
      simp only [hp, hnm, Bool.false_eq_true, ↓reduceIte, Except.ok.injEq, Prod.mk.injEq] at h
      exact ⟨nv, prev0, by simp [h2, hp], by rw [← h.1, h3]⟩
  | none =>
    obtain ⟨h2, h3⟩ := fieldIndex_none fs key hfi
    simp only [hfi, hv, Bool.false_eq_true, ↓reduceIte] at h
    cases hp : put .missing rest value false with
    | error e => simp [hp] at h
    | ok r =>
      obtain ⟨nv, prev0⟩ := r
      simp only [hp, Except.ok.injEq, Prod.mk.injEq] at h
      exact ⟨nv, prev0, by simp [h2, hp], by rw [← h.1, h3]⟩

theorem noArrayBefore_tail {gs : Doc} {key : String} {rest : Path} {w : V} (hk : key ≠ "")
    (hw : Doc.find? gs key = some w) (h : noArrayBefore (.doc gs) (key :: rest)) : noArrayBefore w rest := by
  intro pre suf e hs
  have := h (key :: pre) suf (by simp [e]) hs
  rwa [get_doc_find gs key pre _ _ hk, hw] at this

/-- writing the stored value of a path (crossing no array, no empty segment) into a projection of
    `y` — or into nothing — yields a projection of `y` -/
theorem put_preserves_sub (q : Path) : ∀ (x y x' prev : V), (x = .missing ∨ SubV x y) → "" ∉ q →
    noArrayBefore y q → ((get y q false false).1).isMissing = false →
    put x q (get y q false false).1 false = .ok (x', prev) → SubV x' y := by
  induction q with
  | nil =>
    intro x y x' prev _ _ _ _ h
    simp only [get, put, Except.ok.injEq, Prod.mk.injEq] at h
    rw [← h.1]; exact SubV.refl _
  | cons key rest ih =>
    intro x y x' prev hx hne hna hv h
    have hk : key ≠ "" := fun e => hne (by simp [e])
    have hk' : (key == "") = false := by simpa using hk
    have hne' : "" ∉ rest := fun e => hne (by simp [e])
    -- `y` is a document holding `key`
    have hyarr : y.isArr = false := by simpa [get] using hna [] (key :: rest) rfl (by simp)
    obtain ⟨gs, rfl⟩ : ∃ gs, y = .doc gs := by
      cases y <;> first | exact ⟨_, rfl⟩ | (simp [V.isArr] at hyarr; done) | (simp [get, hk', V.isMissing] at hv; done)
    rw [get_doc_find gs key rest _ _ hk] at hv h
    cases hg : Doc.find? gs key with
    | none => simp [hg, V.isMissing] at hv
    | some w =>
      simp only [hg] at hv h
      have hna' := noArrayBefore_tail hk hg hna
      -- the shape of the write
      have key_step : ∀ (fs : Doc) (old : V), (old = .missing ∨ SubV old w) →
          (∀ k v, k ≠ key → Doc.find? fs k = some v → (Doc.find? gs k).isSome = true) →
          (∀ k v u, k ≠ key → Doc.find? fs k = some v → Doc.find? gs k = some u → SubV v u) →
          ∀ nv prev0, put old rest (get w rest false false).1 false = .ok (nv, prev0) →
          SubV (.doc (upsert fs key nv)) (.doc gs) := by
        intro fs old hold hdom hsub nv prev0 hp
        have hnv := ih old w nv prev0 hold hne' hna' hv hp
        refine SubV.doc _ _ (fun k v hf => ?_) (fun k v u hf hgk => ?_)
        · rw [find_upsert] at hf
          split at hf
          · next e => rw [e, hg]; rfl
          · next e => exact hdom k v e hf
        · rw [find_upsert] at hf
          split at hf
          · next e => cases hf; rw [e, hg] at hgk; cases hgk; exact hnv
          · next e => exact hsub k v u e hf hgk
      rcases hx with rfl | hx
      · -- nothing there yet
        simp only [put, hk', Bool.false_and, Bool.false_eq_true, ↓reduceIte, hv] at h
        cases hp : put .missing rest (get w rest false false).1 false with
        | error e => simp [hp] at h
        | ok r =>
          obtain ⟨nv, prev0⟩ := r
          simp only [hp, Except.ok.injEq, Prod.mk.injEq] at h
          have := key_step [] .missing (Or.inl rfl) (fun k v _ hf => by simp [Doc.find?] at hf)
            (fun k v u _ hf => by simp [Doc.find?] at hf) nv prev0 hp
          rw [← h.1]; simpa [upsert] using this
      · -- a projection of `y`
        obtain ⟨fs, rfl⟩ : ∃ fs, x = .doc fs := by
          cases hx with
          | refl => exact ⟨_, rfl⟩
          | doc fs _ _ _ => exact ⟨fs, rfl⟩
        obtain ⟨hdom, hsub⟩ := hx.doc_inv
        obtain ⟨nv, prev0, hp, rfl⟩ := put_doc_ok fs key rest _ x' prev hk hv h
        refine key_step fs _ ?_ (fun k v _ hf => hdom k v hf) (fun k v u _ hf hgk => hsub k v u hf hgk)
          nv prev0 hp
        cases hf : Doc.find? fs key with
        | none => left; rfl
        | some o => right; exact hsub key o w hf hg

theorem Put_preserves_sub (d res res' : Doc) (q : Path) (prev : V) (hsub : SubV (.doc res) (.doc d))
    (hne : "" ∉ q) (hna : noArrayBefore (.doc d) q) (hv : (getP d q).isMissing = false)
    (h : Put res q (getP d q) false = .ok (res', prev)) : SubV (.doc res') (.doc d) := by
  simp only [Put, hv, Bool.false_eq_true, ↓reduceIte] at h
  cases hp : put (.doc res) q (getP d q) false with
  | error e => simp [hp] at h
  | ok r =>
    obtain ⟨x', prev0⟩ := r
    have := put_preserves_sub q (.doc res) (.doc d) x' prev0 (Or.inr hsub) hne hna hv hp
    rw [hp] at h
    cases x' <;> simp only [Except.ok.injEq, Prod.mk.injEq, reduceCtorEq] at h
    rw [← h.1]; exact this

theorem putAll_preserves_sub (d : Doc) (ps : List String)
    (hps : ∀ p ∈ ps, "" ∉ splitPath p ∧ noArrayBefore (.doc d) (splitPath p) ∧ (Get d p).isMissing = false) :
    ∀ (res res' : Doc), SubV (.doc res) (.doc d) →
      putAll res (ps.map fun p => (p, Get d p)) = .ok res' → SubV (.doc res') (.doc d) := by
  induction ps with
  | nil => intro res res' hs h; simp only [List.map_nil, putAll, Except.ok.injEq] at h; rw [← h]; exact hs
  | cons p r ih =>
    intro res res' hs h
    simp only [List.map_cons, putAll] at h
    obtain ⟨h1, h2, h3⟩ := hps p (by simp)
    cases hp : Put res (splitPath p) (Get d p) false with
    | error e => simp [hp] at h
    | ok r' =>
      obtain ⟨res1, prev⟩ := r'
      simp only [hp] at h
      exact ih (fun q hq => hps q (by simp [hq])) res1 res'
        (Put_preserves_sub d res res1 (splitPath p) prev hs h1 h2 h3 hp) h


theorem upsert_keys (fs : Doc) (k : String) (v : V) :
    (upsert fs k v).map (·.1) = if (fs.map (·.1)).contains k then fs.map (·.1) else fs.map (·.1) ++ [k] := by
  induction fs with
  | nil => simp [upsert]
  | cons kv r ih =>
    obtain ⟨k', x⟩ := kv
    simp only [upsert]
    by_cases h : k' = k
    · subst h; simp
    · have hb : (k' == k) = false := by simpa using h
      have hb' : (k == k') = false := by simpa using (fun e => h e.symm : ¬ k = k')
      simp only [hb, Bool.false_eq_true, ↓reduceIte, List.map_cons, ih, List.contains_cons, hb', Bool.false_or]
      split <;> simp

theorem upsert_nodup (fs : Doc) (k : String) (v : V) (nd : (fs.map (·.1)).Nodup) :
    ((upsert fs k v).map (·.1)).Nodup := by
  rw [upsert_keys]
  split
  · exact nd
  · next h =>
    have : k ∉ fs.map (·.1) := by simpa using h
    rw [List.nodup_append]
    exact ⟨nd, by simp, fun a ha b hb => by simp at hb; subst hb; exact fun e => this (e ▸ ha)⟩

theorem Put_nodup (res res' : Doc) (key : String) (rest : Path) (v prev : V) (hk : key ≠ "")
    (hv : v.isMissing = false) (nd : (res.map (·.1)).Nodup)
    (h : Put res (key :: rest) v false = .ok (res', prev)) : (res'.map (·.1)).Nodup := by
  simp only [Put, hv, Bool.false_eq_true, ↓reduceIte] at h
  cases hp : put (.doc res) (key :: rest) v false with
  | error e => simp [hp] at h
  | ok r =>
    obtain ⟨x', prev0⟩ := r
    obtain ⟨nv, _, _, rfl⟩ := put_doc_ok res key rest v x' prev0 hk hv hp
    simp only [hp, Except.ok.injEq, Prod.mk.injEq] at h
    rw [← h.1]; exact upsert_nodup res key nv nd

theorem putAll_nodup (copies : List (String × V))
    (hc : ∀ pv ∈ copies, "" ∉ splitPath pv.1 ∧ splitPath pv.1 ≠ [] ∧ pv.2.isMissing = false) :
    ∀ (res res' : Doc), (res.map (·.1)).Nodup → putAll res copies = .ok res' → (res'.map (·.1)).Nodup := by
  induction copies with
  | nil => intro res res' nd h; simp only [putAll, Except.ok.injEq] at h; rw [← h]; exact nd
  | cons pv r ih =>
    obtain ⟨p, v⟩ := pv
    intro res res' nd h
    obtain ⟨h1, h2, h3⟩ := hc (p, v) (by simp)
    simp only [putAll] at h
    cases hq : splitPath p with
    | nil => exact absurd hq h2
    | cons key rest =>
      have hk : key ≠ "" := fun e => h1 (by rw [hq, e]; simp)
      rw [hq] at h
      cases hp : Put res (key :: rest) v false with
      | error e => simp [hp] at h
      | ok r' =>
        obtain ⟨res1, prev⟩ := r'
        simp only [hp] at h
        exact ih (fun pv hpv => hc pv (by simp [hpv])) res1 res' (Put_nodup res res1 key rest v prev hk h3 nd hp) h

theorem find_filter_ne (fs : Doc) (k0 k : String) :
    Doc.find? (fs.filter fun kv => kv.1 != k0) k = if k = k0 then none else Doc.find? fs k := by
  induction fs with
  | nil => simp [Doc.find?]
  | cons kv r ih =>
    obtain ⟨k', x⟩ := kv
    simp only [List.filter_cons]
    by_cases h : k' = k0
    · subst h
      simp only [bne_self_eq_false, Bool.false_eq_true, ↓reduceIte, ih, Doc.find?]
      by_cases hk : k = k'
      · simp [hk]
      · have : (k' == k) = false := by simpa using (fun e => hk e.symm : ¬ k' = k)
        simp [hk, this]
    · have hb : (k' != k0) = true := by simpa using h
      simp only [hb, ↓reduceIte, Doc.find?, ih]
      by_cases hk : k = k0
      · simp [hk, h]
      · simp [hk]

theorem SubV.erase_key (full d : Doc) (k0 : String) (hk0 : k0 ≠ "") (nd : (full.map (·.1)).Nodup)
    (h : SubV (.doc full) (.doc d)) : SubV (.doc (Unset full [k0]).1) (.doc d) := by
  rw [Unset_single full k0 hk0, eraseP_key_eq_filter full k0 nd]
  obtain ⟨hdom, hsub⟩ := h.doc_inv
  refine SubV.doc _ _ (fun k v hf => ?_) (fun k v w hf hg => ?_)
  · rw [find_filter_ne] at hf
    split at hf
    · cases hf
    · exact hdom k v hf
  · rw [find_filter_ne] at hf
    split at hf
    · cases hf
    · exact hsub k v w hf hg

/-- Inclusion (flags only, `_id: 0` allowed) on arbitrary dotted paths that descend through embedded
    documents only: the result is a projection of the stored document. -/
theorem inclusion_sub (sch : SchemaEval) (d proj res : Doc)
    (hk : ∀ kv ∈ proj, isOpKey kv.1 = false ∧ (flagOf kv.2).isSome = true)
    (hex : ∀ kv ∈ proj, flagOf kv.2 = some false → kv.1 = "_id")
    (hinc : ((flagsOf proj).filter (·.2)).map (·.1) ≠ [])
    (hdom : ∀ kv ∈ proj, "" ∉ splitPath kv.1 ∧ splitPath kv.1 ≠ [] ∧ noArrayBefore (.doc d) (splitPath kv.1))
    (hidp : splitPath "_id" = ["_id"])
    (h : Project sch d proj = .ok res) :
    SubV (.doc res) (.doc d) := by
  have hp := projProcess_flags sch d proj hk {}
  obtain ⟨h1, h2, h3, h4, h5⟩ := flagsState_fields (flagsOf proj) {}
  have e2 : (flagsState {} (flagsOf proj)).excludes = [] := by
    rw [h2]
    simp only [List.nil_append, List.map_eq_nil_iff, List.filter_eq_nil_iff]
    intro pb hpb
    obtain ⟨kv, hkv, rfl⟩ := List.mem_map.mp hpb
    cases hf : flagOf kv.2 with
    | none => have := (hk kv hkv).2; simp [hf] at this
    | some b =>
      cases b
      · simp [hex kv hkv hf]
      · simp
  simp only [List.nil_append] at h1
  have e1 : (((flagsOf proj).filter (·.2)).map (·.1)).isEmpty = false := by
    cases hh : ((flagsOf proj).filter (·.2)).map (·.1) with
    | nil => exact absurd hh hinc
    | cons _ _ => rfl
  have hskip : ∀ l : List String, (l.filter fun p => !([] : List String).contains p) = l := by
    intro l; simp
  rw [Project_eq, hp] at h
  simp only [projectFinish, e1, e2, List.isEmpty_nil, Bool.not_false, Bool.not_true, Bool.and_false,
    Bool.false_eq_true, ↓reduceIte, h5, h4, h3, h1, hskip, filterMap_present, Bool.false_or] at h
  cases hput : Put [] ["_id"] (Get d "_id") false with
  | error e => simp [hput] at h
  | ok r =>
    obtain ⟨res0, prev⟩ := r
    simp only [hput] at h
    have hidm : (Get d "_id").isMissing = false := by
      cases hm : (Get d "_id").isMissing with
      | false => rfl
      | true => simp [Put, hm] at hput
    have hget : Get d "_id" = getP d ["_id"] := by simp [Get, getP, hidp]
    have hs0 : SubV (.doc res0) (.doc d) := by
      rw [hget] at hput hidm
      refine Put_preserves_sub d [] res0 ["_id"] prev ?_ (by simp [id_ne_empty.symm]) ?_ hidm hput
      · exact SubV.doc _ _ (fun k v hf => by simp [Doc.find?] at hf) (fun k v w hf => by simp [Doc.find?] at hf)
      · intro pre suf e hs
        cases pre with
        | nil => simp [get, V.isArr]
        | cons a pre' =>
          cases pre' with
          | nil => simp at e; exact absurd e.2 hs
          | cons b t => simp at e
    cases hall : putAll res0 (List.map (fun p => (p, Get d p))
        (List.filter (fun p => !(Get d p).isMissing)
          (List.map (fun x => x.fst) (List.filter (fun x => x.snd) (flagsOf proj))))) with
    | error e => simp [hall] at h
    | ok full =>
      simp only [hall, putAll_nil, Except.ok.injEq] at h
      have hmem : ∀ p ∈ (List.filter (fun p => !(Get d p).isMissing)
          (List.map (fun x => x.fst) (List.filter (fun x => x.snd) (flagsOf proj)))),
          ∃ kv ∈ proj, kv.1 = p ∧ (Get d p).isMissing = false := by
        intro p hp'
        have hp'' := List.mem_filter.mp hp'
        obtain ⟨pb, hpb, rfl⟩ := List.mem_map.mp hp''.1
        obtain ⟨kv, hkv, rfl⟩ := List.mem_map.mp (List.mem_filter.mp hpb).1
        exact ⟨kv, hkv, rfl, by simpa using hp''.2⟩
      have hsf : SubV (.doc full) (.doc d) := by
        refine putAll_preserves_sub d _ ?_ res0 full hs0 hall
        intro p hp'
        obtain ⟨kv, hkv, rfl, hm⟩ := hmem p hp'
        exact ⟨(hdom kv hkv).1, (hdom kv hkv).2.2, hm⟩
      have nd0 : (res0.map (·.1)).Nodup :=
        Put_nodup [] res0 "_id" [] _ prev id_ne_empty hidm (by simp) hput
      have ndf : (full.map (·.1)).Nodup := by
        refine putAll_nodup _ ?_ res0 full nd0 hall
        intro pv hpv
        obtain ⟨p, hp', rfl⟩ := List.mem_map.mp hpv
        obtain ⟨kv, hkv, rfl, hm⟩ := hmem p hp'
        exact ⟨(hdom kv hkv).1, (hdom kv hkv).2.1, hm⟩
      rw [← h]
      split
      · exact SubV.erase_key full d "_id" id_ne_empty ndf hsf
      · exact hsf

end Lungo
