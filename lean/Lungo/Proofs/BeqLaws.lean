/-
  Lungo.Proofs.BeqLaws — structural equality `V.beq` (same BSON encoding) decides propositional equality.
-/
import Lungo.Model.Value
namespace Lungo

mutual
theorem V.beq_refl : ∀ a : V, V.beq a a = true
  | .doc fs => by rw [V.beq]; exact beqFields_refl fs
  | .arr xs => by rw [V.beq]; exact beqList_refl xs
  | .null | .missing => by rw [V.beq]
  | .i32 _ | .i64 _ | .f64 _ | .str _ | .oid _ | .bool _ | .date _ => by simp [V.beq]
  | .dec _ _ | .bin _ _ | .ts _ _ | .regex _ _ => by simp [V.beq]
theorem beqFields_refl : ∀ fs : List (String × V), beqFields fs fs = true
  | [] => by rw [beqFields]
  | (k, v) :: r => by rw [beqFields, V.beq_refl v, beqFields_refl r]; simp
theorem beqList_refl : ∀ xs : List V, beqList xs xs = true
  | [] => by rw [beqList]
  | v :: r => by rw [beqList, V.beq_refl v, beqList_refl r]; rfl
end

mutual
theorem V.eq_of_beq : ∀ a b : V, V.beq a b = true → a = b
  | .doc fs, b => by
      cases b <;> simp only [V.beq, Bool.false_eq_true, false_implies]
      intro h; rw [beqFields_eq _ _ h]
  | .arr xs, b => by
      cases b <;> simp only [V.beq, Bool.false_eq_true, false_implies]
      intro h; rw [beqList_eq _ _ h]
  | .null, b | .missing, b => by cases b <;> simp [V.beq]
  | .i32 _, b | .i64 _, b | .f64 _, b | .str _, b | .oid _, b | .bool _, b | .date _, b => by
      cases b <;> simp [V.beq]
  | .dec _ _, b | .bin _ _, b | .ts _ _, b | .regex _ _, b => by
      cases b <;> simp [V.beq]
theorem beqFields_eq : ∀ a b : List (String × V), beqFields a b = true → a = b
  | [], [] => fun _ => rfl
  | [], _ :: _ => by simp [beqFields]
  | _ :: _, [] => by simp [beqFields]
  | (k, v) :: r, (k', v') :: r' => by
      simp only [beqFields, Bool.and_eq_true, beq_iff_eq, and_imp]
      intro hk hv hr
      rw [hk, V.eq_of_beq v v' hv, beqFields_eq r r' hr]
theorem beqList_eq : ∀ a b : List V, beqList a b = true → a = b
  | [], [] => fun _ => rfl
  | [], _ :: _ => by simp [beqList]
  | _ :: _, [] => by simp [beqList]
  | v :: r, v' :: r' => by
      simp only [beqList, Bool.and_eq_true, and_imp]
      intro hv hr
      rw [V.eq_of_beq v v' hv, beqList_eq r r' hr]
end

theorem V.beq_iff (a b : V) : (a == b) = true ↔ a = b :=
  ⟨V.eq_of_beq a b, fun e => e ▸ V.beq_refl a⟩

theorem V.beq_false_iff (a b : V) : (a == b) = false ↔ a ≠ b := by
  have := V.beq_iff a b
  cases h : (a == b) <;> simp_all

end Lungo
