/-
  Lungo.Proofs.SeqInsert — C01: the uniqueness check of the implementation (index entries, `hasKey`)
  against the Spec's declarative condition on documents (`admits`, `clashes`), and the refinement of
  insertOne / insertMany.
-/
import Lungo.Proofs.SeqReads
import Lungo.Proofs.IndexCat
namespace Lungo.SeqRef
open Lungo Lungo.Spec

variable {sch : SchemaEval}

/-! ### the partial filter and the key tuples, on definitions -/

theorem under_eq (i : Index) (d : Doc) : under sch i.config d = partialMatches sch i d := by
  unfold under partialMatches; rfl

theorem underB_iff (i : Index) (d : Doc) : underB sch i.config d = true ↔ belongs sch i d := by
  unfold underB belongs
  rw [under_eq]
  cases partialMatches sch i d with
  | error e => simp
  | ok b => cases b <;> simp

theorem keysOf_eq {S : SDoc → Prop} {i : Index} (hc : IndexCoherent sch S i) (d : Doc) :
    keysOf i.config d = tuples i.columns d := by
  unfold keysOf; rw [hc.cols]

/-- the implementation-side notion of collision (C07's `CollidesAt`, over stored documents with
    identities) is the Spec's condition on plain documents -/
theorem collidesAt_iff {docs : List SDoc} {i : Index} (hc : IndexCoherent sch (· ∈ docs) i) (d : Doc) :
    CollidesAt sch (· ∈ docs) i d ↔
      (i.config.unique = true ∧ belongs sch i d ∧ clashes sch i.config (docs.map (·.doc)) d = true) := by
  unfold CollidesAt clashes sharesKey
  simp only [keysOf_eq hc, List.any_map, List.any_eq_true, Bool.and_eq_true, Function.comp, underB_iff]

/-- `mongokit.Index.Add` on a coherent index, for a document with a fresh identity: the partial
    filter decides membership, and a unique index answers `false` exactly when the Spec's `clashes` holds -/
theorem add_eq {docs : List SDoc} {i : Index} {sd : SDoc} (hc : IndexCoherent sch (· ∈ docs) i)
    (hfresh : ∀ x ∈ docs, x.id ≠ sd.id) (hinj : IdInj (· ∈ docs)) (hok : DocsOk docs) (hsd : DocOk sd.doc) :
    i.add sch sd =
      match under sch i.config sd.doc with
      | .error e => .error e
      | .ok false => .ok (i, true)
      | .ok true => .ok ((i.baseAdd sd).1, !(i.config.unique && clashes sch i.config (docs.map (·.doc)) sd.doc)) := by
  rw [under_eq]
  unfold Index.add
  cases hp : partialMatches sch i sd.doc with
  | error e => rfl
  | ok b =>
    cases b with
    | false => rfl
    | true =>
      simp only
      have hb : belongs sch i sd.doc := hp
      cases hba : i.baseAdd sd with
      | mk i' b =>
        simp only [Except.ok.injEq, Prod.mk.injEq, true_and]
        cases b with
        | false =>
          have := (collidesAt_iff hc sd.doc).mp (baseAdd_false_collides hc hfresh hb hba)
          simp [this.1, this.2.2]
        | true =>
          have hadd : i.add sch sd = .ok (i', true) := by
            unfold Index.add; rw [hp]; simp [hba]
          have hno := add_true_not_collides hc hinj hok hsd hadd
          rw [collidesAt_iff hc] at hno
          cases hu : i.config.unique with
          | false => simp
          | true =>
            cases hcl : clashes sch i.config (docs.map (·.doc)) sd.doc with
            | false => simp
            | true => exact absurd ⟨hu, hb, hcl⟩ hno

/-- **the uniqueness check refines the Spec's `admits`**: adding a fresh document to all indexes
    succeeds, or fails with the same error, exactly as `admits` says on the plain documents -/
theorem addToIndexes_admits {docs : List SDoc} {sd : SDoc}
    (hfresh : ∀ x ∈ docs, x.id ≠ sd.id) (hinj : IdInj (· ∈ docs)) (hok : DocsOk docs) (hsd : DocOk sd.doc) :
    ∀ (idx : List (String × Index)), AllCoherent sch (· ∈ docs) idx →
      (addToIndexes sch sd idx).map (fun _ => ()) = admits sch (docs.map (·.doc)) sd.doc (shape idx)
  | [], _ => rfl
  | (n, i) :: r, hc => by
    have ih := addToIndexes_admits hfresh hinj hok hsd r (fun n i hm => hc n i (List.mem_cons_of_mem _ hm))
    have ha := add_eq (hc n i (by simp)) hfresh hinj hok hsd
    simp only [shape, List.map_cons, admits, addToIndexes]
    rw [ha]
    cases hu : under sch i.config sd.doc with
    | error e => rfl
    | ok b =>
      cases b with
      | false =>
        simp only
        simp only [shape] at ih
        rw [← ih]
        cases addToIndexes sch sd r <;> rfl
      | true =>
        simp only
        cases hcl : (i.config.unique && clashes sch i.config (docs.map (·.doc)) sd.doc) with
        | true => simp [Except.map]
        | false =>
          simp only [Bool.not_false, Bool.false_eq_true, ↓reduceIte]
          simp only [shape] at ih
          rw [← ih]
          cases addToIndexes sch sd r <;> rfl

/-! ### generated ids -/

theorem ensureId_genId (d : Doc) (nu : Nu) :
    ensureId d nu = (genId d nu.oids).map (fun p => (p.1, { nu with oids := p.2 })) := by
  unfold ensureId genId Nu.oid
  split
  · cases nu.oids with
    | nil => rfl
    | cons o r =>
      simp only
      cases Put d ["_id"] o true with
      | error e => rfl
      | ok p => rfl
  · rfl

theorem i64OkFields_listSet : ∀ (fs : List (String × V)) (i : Nat) (k : String) (v : V),
    i64OkFields fs = true → v.i64Ok = true → i64OkFields (listSet fs i (k, v)) = true
  | [], _, _, _, _, _ => by simp [listSet, i64OkFields]
  | (k0, v0) :: r, 0, k, v, h, hv => by
    simp only [i64OkFields, Bool.and_eq_true] at h
    simp [listSet, i64OkFields, hv, h.2]
  | (k0, v0) :: r, i + 1, k, v, h, hv => by
    simp only [i64OkFields, Bool.and_eq_true] at h
    simp [listSet, i64OkFields, h.1, i64OkFields_listSet r i k v h.2 hv]

/-- putting a well-formed `_id` into a well-formed document gives a well-formed document -/
theorem put_id_ok {d d' : Doc} {o prev : V} (hd : DocOk d) (ho : o.i64Ok = true)
    (h : Put d ["_id"] o true = .ok (d', prev)) : DocOk d' := by
  unfold Put at h
  split at h
  · cases h
  · rename_i hm
    unfold put at h
    simp only [List.isEmpty_nil, Bool.and_true] at h
    have : ("_id" == "") = false := by decide
    simp only [this, Bool.false_eq_true, ↓reduceIte] at h
    have hd' : i64OkFields d = true := by simpa [DocOk, V.i64Ok] using hd
    cases hf : fieldIndex d "_id" with
    | none =>
      simp only [hf, hm, Bool.false_eq_true, ↓reduceIte, put] at h
      simp only [Except.ok.injEq, Prod.mk.injEq] at h
      obtain ⟨rfl, _⟩ := h
      simp [DocOk, V.i64Ok, i64OkFields, ho, hd']
    | some i =>
      simp only [hf] at h
      cases hg : d[i]? with
      | none => simp [hg] at h
      | some kv =>
        obtain ⟨k, old⟩ := kv
        simp only [hg, put, hm, Bool.false_eq_true, ↓reduceIte] at h
        simp only [Except.ok.injEq, Prod.mk.injEq] at h
        obtain ⟨rfl, _⟩ := h
        simpa [DocOk, V.i64Ok] using i64OkFields_listSet d i k o hd' ho

theorem genId_ok {d d' : Doc} {oids r : List V} (hd : DocOk d) (ho : ∀ o ∈ oids, o.i64Ok = true)
    (h : genId d oids = .ok (d', r)) : DocOk d' ∧ ∀ o ∈ r, o.i64Ok = true := by
  unfold genId at h
  split at h
  · cases oids with
    | nil => cases h
    | cons o rest =>
      simp only at h
      cases hp : Put d ["_id"] o true with
      | error e => rw [hp] at h; cases h
      | ok p =>
        obtain ⟨x, prev⟩ := p
        rw [hp] at h
        simp only [Except.ok.injEq, Prod.mk.injEq] at h
        obtain ⟨rfl, rfl⟩ := h
        exact ⟨put_id_ok hd (ho o (by simp)) hp, fun o' ho' => ho o' (List.mem_cons_of_mem _ ho')⟩
  · simp only [Except.ok.injEq, Prod.mk.injEq] at h
    obtain ⟨rfl, rfl⟩ := h
    exact ⟨hd, ho⟩

/-! ### `Collection.Insert` -/

/-- inserting into a coherent collection of well-formed documents is the Spec's insert -/
theorem insert_abs {c : Coll} {d : Doc} {nu : Nu} (hc : Coherent sch c) (hb : IdsBelow c.docs nu.nextId)
    (hok : DocsOk c.docs) (hd : DocOk d) (ho : ∀ o ∈ nu.oids, o.i64Ok = true) :
    (c.insert sch d nu).map (fun r => (absC r.1, r.2.1.doc, r.2.2.oids)) = (absC c).insert sch d nu.oids := by
  unfold SColl.insert
  cases hg : genId d nu.oids with
  | error e =>
    have he : ensureId d nu = .error e := by rw [ensureId_genId, hg]; rfl
    unfold Coll.insert; rw [he]; rfl
  | ok p =>
    obtain ⟨d', r⟩ := p
    have he : ensureId d nu = .ok (d', { nu with oids := r }) := by rw [ensureId_genId, hg]; rfl
    rw [insert_unfold he]
    have hd' := (genId_ok hd ho hg).1
    have := addToIndexes_admits (sch := sch) (sd := ⟨nu.nextId, d'⟩) (fun x hx => hb.fresh x hx)
      (idInj_of_distinct hc.1) hok hd' c.indexes hc.2
    simp only [absC] at this ⊢
    rw [← this]
    cases ha : addToIndexes sch ⟨nu.nextId, d'⟩ c.indexes with
    | error e => rfl
    | ok idx' =>
      simp [Except.map, addToIndexes_shape ha]


/-! ### well-formedness is kept by the Spec's writes -/

theorem okDB_put {db : SeqDB} {h : Handle} {c : SColl} (ok : OkDB db) (hc : ∀ d ∈ c.docs, DocOk d) :
    OkDB (db.put h c) := by
  intro h' c' hm
  unfold SeqDB.put at hm
  split at hm
  · simp only [List.mem_map] at hm
    obtain ⟨⟨a, b⟩, hab, e⟩ := hm
    simp only at e
    split at e
    · simp only [Prod.mk.injEq] at e; rw [← e.2]; exact hc
    · simp only [Prod.mk.injEq] at e; rw [← e.2]; exact ok a b hab
  · simp only [List.mem_append, List.mem_singleton, Prod.mk.injEq] at hm
    rcases hm with hm | ⟨_, rfl⟩
    · exact ok h' c' hm
    · exact hc

theorem okDB_log {db : SeqDB} (ok : OkDB db) : OkDB db.log := ok

theorem okDB_coll {db : SeqDB} (ok : OkDB db) (h : Handle) : ∀ d ∈ (db.coll h).docs, DocOk d := by
  unfold SeqDB.coll SeqDB.get?
  cases hf : db.colls.find? (·.1 == h) with
  | none => intro d hd; simp [SColl.new] at hd
  | some p =>
    have := List.mem_of_find?_eq_some hf
    exact ok p.1 p.2 this

theorem opInsert_ok {db db' : SeqDB} {h : Handle} {d d' : Doc} {oids r : List V} (ok : OkDB db)
    (hd : DocOk d) (ho : ∀ o ∈ oids, o.i64Ok = true) (e : opInsert sch db h d oids = .ok (db', d', r)) :
    OkDB db' ∧ DocOk d' ∧ ∀ o ∈ r, o.i64Ok = true := by
  unfold opInsert SColl.insert at e
  cases hg : genId d oids with
  | error e' => simp [hg] at e
  | ok p =>
    obtain ⟨x, r'⟩ := p
    obtain ⟨hx, hr⟩ := genId_ok hd ho hg
    simp only [hg] at e
    split at e
    · cases e
    · rename_i c1 d1 o1 hadm
      split at hadm
      · cases hadm
      · simp only [Except.ok.injEq, Prod.mk.injEq] at hadm e
        obtain ⟨rfl, rfl, rfl⟩ := hadm
        obtain ⟨rfl, rfl, rfl⟩ := e
        refine ⟨okDB_log (okDB_put ok ?_), hx, hr⟩
        intro y hy
        simp only [List.mem_append, List.mem_singleton] at hy
        rcases hy with hy | rfl
        · exact okDB_coll ok h y hy
        · exact hx

/-! ### `Transaction.insert` (one document) and the loop of `Transaction.Insert` -/

theorem good_of_inv {cat : Catalog} {n : Nat} (g : Inv sch cat n) : Good sch false cat n :=
  ⟨g, fun h => by cases h⟩

theorem insertOne_abs {cat : Catalog} {h : Handle} {d : Doc} {nu : Nu}
    (g : Inv sch cat nu.nextId) (hne : h ≠ oplogHandle) (ok : OkDB (abs cat)) (hd : DocOk d)
    (ho : ∀ o ∈ nu.oids, o.i64Ok = true) :
    (insertOne sch cat h d nu).map (fun r => (abs r.1, r.2.1, r.2.2.oids)) =
      opInsert sch (abs cat) h d nu.oids := by
  have k := (good_of_inv g).ensureNs hne
  have hi := insert_abs (sch := sch) (c := ensureNs cat h) (d := d) (nu := nu) k.coherent k.below
    (okDB_ensureNs ok hne) hd ho
  unfold insertOne opInsert
  rw [abs_coll cat hne, ← hi]
  cases hins : (ensureNs cat h).insert sch d nu with
  | error e => rfl
  | ok r =>
    obtain ⟨coll, sd, nu1⟩ := r
    have ho' : ∃ c, (oplogHandle, c) ∈ (cat.set h coll).namespaces := set_keeps g.oplog
    have ha := (abs_appendOplog ho' nu1 h "insert" (some sd.doc) none).1
    simp only [Except.map]
    rw [abs_set cat coll hne] at ha
    simp only [ha]
    simp [appendOplog, Nu.fresh]

theorem insert_go_abs {h : Handle} (ordered : Bool) (hne : h ≠ oplogHandle) :
    ∀ (list : List Doc) (cat : Catalog) (nu : Nu) (acc : List Doc) (err : Option Err),
      Inv sch cat nu.nextId → OkDB (abs cat) → (∀ d ∈ list, DocOk d) → (∀ o ∈ nu.oids, o.i64Ok = true) →
      insertAll sch h ordered (abs cat) nu.oids acc err list =
        (abs (Txn.insert.go sch h ordered cat nu acc err list).1,
         (Txn.insert.go sch h ordered cat nu acc err list).2.1.oids,
         (Txn.insert.go sch h ordered cat nu acc err list).2.2.1,
         (Txn.insert.go sch h ordered cat nu acc err list).2.2.2)
  | [], cat, nu, acc, err, _, _, _, _ => by simp [Txn.insert.go, insertAll]
  | d :: r, cat, nu, acc, err, g, ok, hl, ho => by
    have hio := insertOne_abs g hne ok (hl d (by simp)) ho
    rw [Txn.insert.go, insertAll, ← hio]
    cases hi : insertOne sch cat h d nu with
    | error e =>
      simp only [Except.map]
      cases ordered with
      | true => simp
      | false =>
        simp only [Bool.false_eq_true, ↓reduceIte]
        exact insert_go_abs false hne r cat nu acc _ g ok (fun x hx => hl x (List.mem_cons_of_mem _ hx)) ho
    | ok res =>
      obtain ⟨cat', d', nu'⟩ := res
      simp only [Except.map]
      rw [hi] at hio
      simp only [Except.map] at hio
      obtain ⟨ok', _, ho'⟩ := opInsert_ok ok (hl d (by simp)) ho hio.symm
      have g' := (Good.insertOne (good_of_inv g) hne hi).1.1
      exact insert_go_abs ordered hne r cat' nu' _ err g' ok' (fun x hx => hl x (List.mem_cons_of_mem _ hx)) ho'

/-- all documents of the call and all generated ids are Go values -/
def InsertOk (docs : List Doc) (oids : List V) : Prop := (∀ d ∈ docs, DocOk d) ∧ ∀ o ∈ oids, o.i64Ok = true

theorem base_abs (cat : Catalog) {h : Handle} (hne : h ≠ oplogHandle) :
    abs (if (cat.get? h).isSome then cat else cat.set h (newColl true)) =
      (if ((abs cat).get? h).isSome then abs cat else (abs cat).put h SColl.new) := by
  rw [abs_get?_isSome cat hne]
  split
  · rfl
  · rw [abs_set cat _ hne, absC_new]

theorem okDB_base {db : SeqDB} (ok : OkDB db) (h : Handle) :
    OkDB (if (db.get? h).isSome then db else db.put h SColl.new) := by
  split
  · exact ok
  · exact okDB_put ok (fun d hd => by simp [SColl.new] at hd)

theorem commit_insert (s : Sys) (cat' : Catalog) (nu' : Nu) (mods : List Doc) :
    abs (s.commit (if mods.isEmpty = true then { catalog := s.catalog } else { catalog := cat', dirty := true }) nu').catalog =
      keepIf (!mods.isEmpty) (abs cat') (abs s.catalog) := by
  cases mods <;> simp [Sys.commit, keepIf]

/-- `Transaction.Insert` = the Spec's `insertCall` -/
theorem txnInsert_abs (s : Sys) (h : Handle) (docs : List Doc) (ordered : Bool) (oids : List V)
    (hi : SysInv sch s) (ok : OkDB (abs s.catalog)) (hw : InsertOk docs oids) :
    insertCall sch (abs s.catalog) h docs ordered oids =
      (Txn.insert sch { catalog := s.catalog } h docs ordered (s.nu oids)).map
        (fun r => (abs (s.commit r.1 r.2.2).catalog, r.2.1.modified, r.2.1.error)) := by
  unfold insertCall Txn.insert
  cases hwr : writable h true with
  | error e => rfl
  | ok _ =>
    have hne := writable_ne_oplog hwr
    simp only
    have gb := ((good_of_inv hi).base hne).1
    have := insert_go_abs (sch := sch) ordered hne docs _ (s.nu oids) [] none gb
      (by rw [base_abs s.catalog hne]; exact okDB_base ok h) hw.1 hw.2
    rw [base_abs s.catalog hne] at this
    simp only [Sys.nu] at this ⊢
    rw [this]
    simp only [Except.map]
    congr 2
    exact (commit_insert s _ _ _).symm

theorem refines_insertMany (s : Sys) (h : Handle) (docs : List Doc) (ordered : Bool) (oids : List V)
    (hi : SysInv sch s) (ok : OkDB (abs s.catalog)) (hw : InsertOk docs oids) :
    Refines sch s (.insertMany h docs ordered) oids := by
  unfold Refines Sys.step
  simp only [Spec.step, runCall, txnInsert_abs s h docs ordered oids hi ok hw]
  cases Txn.insert sch { catalog := s.catalog } h docs ordered (s.nu oids) with
  | error e => rfl
  | ok r => rfl

theorem refines_insertOne (s : Sys) (h : Handle) (doc : Doc) (oids : List V)
    (hi : SysInv sch s) (ok : OkDB (abs s.catalog)) (hw : InsertOk [doc] oids) :
    Refines sch s (.insertOne h doc) oids := by
  unfold Refines Sys.step
  simp only [Spec.step, runCall, txnInsert_abs s h [doc] true oids hi ok hw]
  cases Txn.insert sch { catalog := s.catalog } h [doc] true (s.nu oids) with
  | error e => rfl
  | ok r =>
    obtain ⟨t, res, nu⟩ := r
    simp only [Except.map]
    cases res.error with
    | some e => rfl
    | none =>
      cases res.modified with
      | nil => rfl
      | cons d l => rfl

end Lungo.SeqRef
