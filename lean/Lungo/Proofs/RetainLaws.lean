/-
  Lungo.Proofs.RetainLaws — further laws of the prefix counter `leading` and of the drop condition
  `droppable` of Transaction.Clean (monotonicity, behaviour on the remaining suffix), used by the
  retention theorems of Props/C08.
-/
import Lungo.Proofs.OplogLaws
namespace Lungo

/-- a pointwise weaker predicate counts at least as long a prefix -/
theorem leading_mono {α} (p q : Nat → α → Bool) (h : ∀ i a, p i a = true → q i a = true) (i : Nat) (l : List α) :
    leading p i l ≤ leading q i l := by
  induction l generalizing i with
  | nil => simp [leading]
  | cons a r ih =>
    simp only [leading]
    by_cases hp : p i a = true
    · rw [if_pos hp, if_pos (h i a hp)]
      have := ih (i + 1)
      omega
    · rw [if_neg hp]
      omega

/-- counting with a predicate whose index is shifted by `k` -/
theorem leading_shift {α} (p q : Nat → α → Bool) (k : Nat) (h : ∀ j a, p j a = q (k + j) a) (i : Nat) (l : List α) :
    leading p i l = leading q (k + i) l := by
  induction l generalizing i with
  | nil => simp [leading]
  | cons a r ih =>
    simp only [leading, h i a]
    rw [ih (i + 1)]
    rfl

/-- after the counted prefix nothing more is counted: the first remaining element is a keeper -/
theorem leading_drop_self {α} (p : Nat → α → Bool) (i : Nat) (l : List α) :
    leading p (i + leading p i l) (l.drop (leading p i l)) = 0 := by
  induction l generalizing i with
  | nil => simp [leading]
  | cons a r ih =>
    by_cases hp : p i a = true
    · have h1 : leading p i (a :: r) = leading p (i + 1) r + 1 := by
        simp only [leading, if_pos hp]; omega
      rw [h1, List.drop_succ_cons]
      have : i + (leading p (i + 1) r + 1) = i + 1 + leading p (i + 1) r := by omega
      rw [this]
      exact ih (i + 1)
    · have h1 : leading p i (a :: r) = 0 := by simp only [leading, if_neg hp]
      rw [h1]
      simp only [List.drop_zero, Nat.add_zero, leading, if_neg hp]

/-- the drop condition is monotone in the counter of `now` (a later counter makes more events "older
    than the maximum age") -/
theorem droppable_mono_nowI (n : Nat) (minSize maxSize : Int) (z : Bool) (minT maxT : Nat) {nowI nowI' : Nat}
    (h : nowI ≤ nowI') (i : Nat) (ts : Nat × Nat)
    (hd : droppable n minSize maxSize z minT maxT nowI i ts = true) :
    droppable n minSize maxSize z minT maxT nowI' i ts = true := by
  unfold droppable at *
  simp only [Bool.and_eq_true, Bool.or_eq_true, decide_eq_true_eq] at hd ⊢
  refine ⟨hd.1, ?_⟩
  rcases hd.2 with h2 | h2
  · exact .inl h2
  · right
    rw [tsLt_iff] at h2 ⊢
    simp only at h2 ⊢
    omega

/-- the drop condition is antitone in both sizes (a larger minimum protects more, a larger maximum
    forces less) -/
theorem droppable_antitone_sizes (n : Nat) {minSize minSize' maxSize maxSize' : Int} (z : Bool) (minT maxT nowI : Nat)
    (h1 : minSize ≤ minSize') (h2 : maxSize ≤ maxSize') (i : Nat) (ts : Nat × Nat)
    (hd : droppable n minSize' maxSize' z minT maxT nowI i ts = true) :
    droppable n minSize maxSize z minT maxT nowI i ts = true := by
  unfold droppable at *
  simp only [Bool.and_eq_true, Bool.or_eq_true, decide_eq_true_eq] at hd ⊢
  refine ⟨⟨by omega, hd.1.2⟩, ?_⟩
  rcases hd.2 with h | h
  · exact .inl (by omega)
  · exact .inr h

/-- the drop condition of the event at index `j` of the log that remains after `k ≤ n` events were
    removed is the drop condition of the same event at its old index `k + j` -/
theorem droppable_shift (n k : Nat) (hk : k ≤ n) (minSize maxSize : Int) (z : Bool) (minT maxT nowI : Nat)
    (j : Nat) (ts : Nat × Nat) :
    droppable (n - k) minSize maxSize z minT maxT nowI j ts = droppable n minSize maxSize z minT maxT nowI (k + j) ts := by
  unfold droppable
  have e1 : (((n - k : Nat) : Int)) = (n : Int) - (k : Int) := by omega
  have a : decide ((j : Int) < ((n - k : Nat) : Int) - minSize) = decide (((k + j : Nat) : Int) < (n : Int) - minSize) := by
    apply decide_eq_decide.mpr; omega
  have b : decide ((j : Int) < ((n - k : Nat) : Int) - maxSize) = decide (((k + j : Nat) : Int) < (n : Int) - maxSize) := by
    apply decide_eq_decide.mpr; omega
  rw [a, b]

end Lungo
