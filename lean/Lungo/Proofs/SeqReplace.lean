/-
  Lungo.Proofs.SeqReplace — C01: replaceOne / findOneAndReplace (with upsert). Per index the
  implementation removes the old document and adds the replacement; the Spec asks that the
  replacement be admissible among the other documents (`admits` over the collection without the
  old document) and swaps it into the slot.
-/
import Lungo.Proofs.SeqUpdate
namespace Lungo.SeqRef
open Lungo Lungo.Spec

variable {sch : SchemaEval}

/-- per index: remove the old document, add the replacement = `admits` among the other documents -/
theorem replace_upd_admits {docs : List SDoc} {old nw : SDoc} (hd : IdsDistinct docs) (hold : old ∈ docs)
    (hfresh : ∀ x ∈ docs, x.id ≠ nw.id) (hok : DocsOk docs) (hnw : DocOk nw.doc) :
    ∀ (idx : List (String × Index)), AllCoherent sch (· ∈ docs) idx →
      (Coll.replace.upd sch old nw idx).map (fun _ => ()) =
        admits sch ((docs.filter (fun sd => !([old].any (·.id == sd.id)))).map (·.doc)) nw.doc (shape idx)
  | [], _ => rfl
  | (n, i) :: r, hc => by
    have ih := replace_upd_admits hd hold hfresh hok hnw r (fun n i hm => hc n i (List.mem_cons_of_mem _ hm))
    have hci := hc n i (by simp)
    obtain ⟨i1, hr⟩ := hci.remove_ok hold
    have hc1 := hci.remove (fun x hx e => ids_inj hd x hx old hold e) hr
    have hsub : ∀ x ∈ docs.filter (fun sd => !([old].any (·.id == sd.id))), x ∈ docs :=
      fun x hx => (List.mem_filter.mp hx).1
    have hc1' : IndexCoherent sch (· ∈ docs.filter (fun sd => !([old].any (·.id == sd.id)))) i1 :=
      hc1.congr (fun x => by
        rw [mem_filter_notAny]
        simp)
    have hdB : IdsDistinct (docs.filter (fun sd => !([old].any (·.id == sd.id)))) :=
      IdsDistinct.sublist hd List.filter_sublist
    have ha := add_eq hc1' (fun x hx => hfresh x (hsub x hx)) (idInj_of_distinct hdB)
      (fun x hx => hok x (hsub x hx)) hnw
    have hcfg := (remove_shape hr).1
    rw [hcfg] at ha
    simp only [shape, List.map_cons, admits]
    rw [Coll.replace.upd]
    simp only [hr]
    rw [ha]
    cases hu : under sch i.config nw.doc with
    | error e => rfl
    | ok b =>
      cases b with
      | false =>
        simp only
        simp only [shape] at ih
        rw [← ih]
        cases Coll.replace.upd sch old nw r <;> rfl
      | true =>
        simp only
        cases hcl : (i.config.unique && clashes sch i.config
            ((docs.filter (fun sd => !([old].any (·.id == sd.id)))).map (·.doc)) nw.doc) with
        | true => simp [Except.map]
        | false =>
          simp only [Bool.not_false, Bool.false_eq_true, ↓reduceIte]
          simp only [shape] at ih
          rw [← ih]
          cases Coll.replace.upd sch old nw r <;> rfl

/-- the slot of the old document, by identity and by value -/
theorem replaceDoc_abs {docs : List SDoc} {old nw : SDoc} (hd : IdsDistinct docs) (hinj : DocInj docs)
    (hold : old ∈ docs) :
    (replaceDoc docs old.id nw).map (·.doc) = swapDoc (docs.map (·.doc)) old.doc nw.doc := by
  unfold replaceDoc swapDoc
  rw [List.map_map, List.map_map]
  apply List.map_congr_left
  intro sd hsd
  simp only [Function.comp]
  have : (sd.id == old.id) = sameDoc sd.doc old.doc := by
    apply Bool.eq_iff_iff.mpr
    simp only [beq_iff_eq, sameDoc_iff]
    constructor
    · intro e; rw [ids_inj hd sd hsd old hold e]
    · intro e; rw [hinj sd hsd old hold e]
  rw [this]
  split <;> rfl

theorem Get_ok (d : Doc) (p : String) (h : DocOk d) : (Get d p).i64Ok = true := by
  unfold Get
  exact get_ok (.doc d) (splitPath p) false false h

/-- the stored replacement is a Go value when the replacement and the old document are -/
theorem replacementFor_ok {old repl nw : Doc} (ho : DocOk old) (hr : DocOk repl)
    (h : replacementFor old repl = .ok nw) : DocOk nw := by
  unfold replacementFor at h
  simp only at h
  split at h
  · cases hp : Put repl ["_id"] (Get old "_id") true with
    | error e => rw [hp] at h; cases h
    | ok p =>
      obtain ⟨x, prev⟩ := p
      rw [hp] at h
      simp only [Except.ok.injEq] at h
      subst h
      exact put_id_ok hr (Get_ok old "_id" ho) hp
  · split at h
    · cases h
    · simp only [Except.ok.injEq] at h
      subst h; exact hr

/-- `Collection.Replace` = the Spec's replace: (collection, matched, modified) -/
theorem replace_abs {c : Coll} (k : CollOk sch c) {nu : Nu} (hb : IdsBelow c.docs nu.nextId)
    (q repl : Doc) (sort : Option Doc) (hne : noMatchError sch q c.docs) (hr : DocOk repl) :
    (c.replace sch q repl sort nu).map
        (fun r => (absC r.1.coll, r.1.matched.map (·.doc), r.1.modified.map (·.doc))) =
      (absC c).replace sch q repl sort := by
  unfold SColl.replace
  have hs := select_abs c q sort 0 1 k.docsOk hne
  rw [← hs]
  unfold Coll.replace
  cases hsel : selectDocs sch c q sort 0 1 with
  | error e => simp only [Except.map]
  | ok list =>
    cases list with
    | nil => simp only [Except.map, List.map_nil]
    | cons old rest =>
      have hmem := selectDocs_mem hsel
      have hold : old ∈ c.docs := hmem old (by simp)
      simp only [Except.map, List.map_cons]
      have hrf : replacementFor old.doc repl =
          (if (Get repl "_id").isMissing then
            match Put repl ["_id"] (Get old.doc "_id") true with
            | .error e => .error e
            | .ok (d, _) => .ok d
          else if !sameId (Get repl "_id") (Get old.doc "_id") then .error .err
          else .ok repl) := rfl
      rw [hrf]
      generalize (if (Get repl "_id").isMissing then
            (match Put repl ["_id"] (Get old.doc "_id") true with
            | .error e => .error e
            | .ok (d, _) => .ok d : Res Doc)
          else if !sameId (Get repl "_id") (Get old.doc "_id") then .error .err
          else .ok repl) = R at hrf ⊢
      cases R with
      | error e => rfl
      | ok nwd =>
        simp only [Nu.fresh]
        have hnw : DocOk nwd := replacementFor_ok (k.docsOk old hold) hr hrf
        have hadm := replace_upd_admits (sch := sch) (nw := ⟨nu.nextId, nwd⟩) k.coherent.1 hold
          (fun x hx => hb.fresh x hx) k.docsOk hnw c.indexes k.coherent.2
        have hrem := remove_abs (list := [old]) k.coherent.1 k.inj (fun x hx => by
          simp only [List.mem_singleton] at hx; subst hx; exact hold)
        rw [hrem] at hadm
        simp only [List.map_cons, List.map_nil] at hadm
        simp only [absC, SColl.remove]
        rw [← hadm]
        cases hupd : Coll.replace.upd sch old ⟨nu.nextId, nwd⟩ c.indexes with
        | error e => rfl
        | ok idx =>
          simp only [Except.map, replaceDoc_abs k.coherent.1 k.inj hold, replace_upd_shape hupd]
          congr 3
          by_cases hbq : sameDoc old.doc nwd = true
          · have h2 : (V.doc old.doc == V.doc nwd) = true := hbq
            rw [if_pos hbq, if_pos h2]; rfl
          · have h2 : ¬ (V.doc old.doc == V.doc nwd) = true := hbq
            rw [if_neg hbq, if_neg h2]; rfl

theorem replace_oids {c : Coll} {q repl : Doc} {sort : Option Doc} {nu nu' : Nu} {res : CResult}
    (h : c.replace sch q repl sort nu = .ok (res, nu')) : nu'.oids = nu.oids := by
  unfold Coll.replace at h
  split at h
  · cases h
  · simp only [Except.ok.injEq, Prod.mk.injEq] at h; rw [← h.2]
  · simp only at h
    split at h
    · cases h
    · simp only [Nu.fresh] at h
      split at h
      · cases h
      · simp only [Except.ok.injEq, Prod.mk.injEq] at h; rw [← h.2]

/-- what a replace call needs to know about its arguments, on the Spec's state -/
structure ReplaceOk (ac : ACtx) (db : SeqDB) (h : Handle) (q repl : Doc) (upsert : Bool) (oids : List V) : Prop where
  query : QueryOk ac.sch db h q
  replOk : DocOk repl
  ups : upsert = true → UpsertOk ac q (some repl) none []
  oids : ∀ o ∈ oids, o.i64Ok = true

/-- `Transaction.replace` = the Spec's `opReplace` -/
theorem replaceOp_abs {ac : ACtx} {cat : Catalog} {nu : Nu} (g : Good ac.sch true cat nu.nextId)
    (ok : OkDB (abs cat)) {h : Handle} (hne : h ≠ oplogHandle) (q repl : Doc) (sort : Option Doc)
    (upsert : Bool) (hw : ReplaceOk ac (abs cat) h q repl upsert nu.oids) :
    (replaceOp ac cat h q repl sort upsert nu).map (fun r => (abs r.1, r.2.1, r.2.2.oids)) =
      opReplace ac (abs cat) h q repl sort upsert nu.oids := by
  have k := g.ensureNs hne
  have kc := collOk_ensureNs g ok hne
  have hra := replace_abs (nu := nu) kc k.below q repl sort (queryOk_noMatchError hne hw.query) hw.replOk
  unfold replaceOp opReplace
  rw [abs_coll cat hne]
  dsimp only
  rw [← hra]
  cases hrep : (ensureNs cat h).replace ac.sch q repl sort nu with
  | error e => simp only [hrep, Except.map]
  | ok r =>
    obtain ⟨res, nu1⟩ := r
    simp only [hrep, Except.map, List.isEmpty_map]
    have hoids := replace_oids hrep
    obtain ⟨_, _, hle⟩ := k.coherent.replace k.below hrep
    cases hcond : (res.matched.isEmpty && upsert) with
    | true =>
      simp only [↓reduceIte]
      have hup : upsert = true := by
        cases upsert with
        | true => rfl
        | false => simp at hcond
      have hins := upsert_abs (ac := ac) (c := ensureNs cat h) (nu := nu1) k.coherent
        (k.below.mono hle) kc.docsOk q (some repl) none [] (hw.ups hup) (by rw [hoids]; exact hw.oids)
      rw [hoids] at hins
      rw [← hins]
      cases hu : (ensureNs cat h).upsert ac q (some repl) none [] nu1 with
      | error e => rfl
      | ok r2 =>
        obtain ⟨coll, sd, nu2⟩ := r2
        have ho' : ∃ c, (oplogHandle, c) ∈ (cat.set h coll).namespaces := set_keeps g.1.oplog
        have ha := (abs_appendOplog ho' nu2 h "insert" (some sd.doc) none).1
        rw [abs_set cat coll hne] at ha
        simp only [Except.map, ha, appendOplog_oids]
    | false =>
      simp only [Bool.false_eq_true, ↓reduceIte]
      have ho' : ∃ c, (oplogHandle, c) ∈ (cat.set h res.coll).namespaces := set_keeps g.1.oplog
      cases hm : res.modified with
      | nil => simp [abs_set cat res.coll hne, hoids]
      | cons m rest =>
        have ha := (abs_appendOplog ho' nu1 h "replace" (some m.doc) none).1
        rw [abs_set cat res.coll hne] at ha
        simp [ha, appendOplog_oids, hoids]

/-- `Transaction.Replace` (after `validateReplacement`) = the Spec's `replaceCall` -/
theorem txnReplace_abs {ac : ACtx} (s : Sys) (h : Handle) (q repl : Doc) (sort : Option Doc) (upsert : Bool)
    (oids : List V) (g : Good ac.sch true s.catalog s.nextId) (ok : OkDB (abs s.catalog))
    (hw : ReplaceOk ac (abs s.catalog) h q repl upsert oids) :
    replaceCall ac (abs s.catalog) h q repl sort upsert oids =
      (match validateReplacement repl with
       | .error e => (.error e : Res (Txn × TResult × Nu))
       | .ok _ => Txn.replace ac { catalog := s.catalog } h q sort repl upsert (s.nu oids)).map
        (fun (r : Txn × TResult × Nu) => (abs (s.commit r.1 r.2.2).catalog, r.2.1)) := by
  unfold replaceCall Txn.replace
  cases validateReplacement repl with
  | error e => rfl
  | ok _ =>
    simp only
    cases hwr : writable h true with
    | error e => rfl
    | ok _ =>
      have hne := writable_ne_oplog hwr
      simp only [abs_get?_isNone s.catalog hne]
      cases hg : ((s.catalog.get? h).isNone && !upsert) with
      | true => simp [Except.map, Sys.commit]
      | false =>
        simp only [Bool.false_eq_true, ↓reduceIte]
        have hop := replaceOp_abs (nu := s.nu oids) g ok hne q repl sort upsert hw
        simp only [Sys.nu] at hop ⊢
        rw [← hop]
        cases replaceOp ac s.catalog h q repl sort upsert { nextId := s.nextId, oids := oids } with
        | error e => rfl
        | ok r =>
          obtain ⟨cat', res, nu'⟩ := r
          simp only [Except.map]
          cases hb : (!res.modified.isEmpty || res.upserted.isSome) <;> simp [Sys.commit, keepIf]

theorem refines_replaceOne (s : Sys) (h : Handle) (q repl : Doc) (upsert : Bool) (oids : List V)
    (g : Good sch true s.catalog s.nextId) (ok : OkDB (abs s.catalog))
    (hw : ReplaceOk (acOf sch) (abs s.catalog) h q repl upsert oids) :
    Refines sch s (.replaceOne h q repl upsert) oids := by
  unfold Refines Sys.step
  simp only [Spec.step, runCall, txnReplace_abs (ac := acOf sch) s h q repl none upsert oids g ok hw]
  cases validateReplacement repl with
  | error e => rfl
  | ok _ =>
    simp only
    cases Txn.replace (acOf sch) { catalog := s.catalog } h q none repl upsert (s.nu oids) with
    | error e => rfl
    | ok r => rfl

theorem refines_findOneAndReplace (s : Sys) (h : Handle) (q repl : Doc) (sort proj : Option Doc)
    (upsert after : Bool) (oids : List V) (g : Good sch true s.catalog s.nextId) (ok : OkDB (abs s.catalog))
    (hw : ReplaceOk (acOf sch) (abs s.catalog) h q repl upsert oids) :
    Refines sch s (.findOneAndReplace h q repl sort proj upsert after) oids := by
  unfold Refines Sys.step
  simp only [Spec.step, runCall, txnReplace_abs (ac := acOf sch) s h q repl sort upsert oids g ok hw]
  cases validateReplacement repl with
  | error e => rfl
  | ok _ =>
    simp only
    cases Txn.replace (acOf sch) { catalog := s.catalog } h q sort repl upsert (s.nu oids) with
    | error e => rfl
    | ok r =>
      obtain ⟨t, res, nu⟩ := r
      simp only [Except.map]
      cases projOpt sch proj (famDoc res after) with
      | error e => rfl
      | ok d => rfl

end Lungo.SeqRef
