/-
  Lungo.Proofs.OwnClosed — every statement keeps the heap closed (no dangling pointers), never shrinks it,
  and keeps `t.catalog` allocated.  Independent of the ownership check: it holds for every program.
-/
import Lungo.Proofs.OwnRun
namespace Lungo.Own

theorem Heap.writes_size (h : Heap) (ws : List (Nat × Obj)) : (h.writes ws).size = h.size := by
  induction ws generalizing h with
  | nil => rfl
  | cons w ws ih => obtain ⟨o, x⟩ := w; simp only [Heap.writes]; rw [ih]; simp

theorem Closed.alloc {h : Heap} (c : Closed h) (x : Obj) (hx : ∀ p ∈ x.ptrs, p < h.size) : Closed (h.alloc x).1 := by
  intro o y hy p hp
  have ho := Heap.get_lt _ hy
  rw [Heap.size_alloc] at ho ⊢
  by_cases e : o < h.size
  · rw [h.get_alloc_lt x e] at hy
    exact Nat.lt_succ_of_lt (c o y hy p hp)
  · have : o = h.size := by omega
    subst this
    rw [Heap.get_alloc_new] at hy; cases hy
    exact Nat.lt_succ_of_lt (hx p hp)

theorem Closed.write {h : Heap} (c : Closed h) (o : Nat) (x : Obj) (hx : ∀ p ∈ x.ptrs, p < h.size) :
    Closed (h.write o x) := by
  intro o' y hy p hp
  rw [Heap.size_write]
  by_cases e : o' = o
  · subst e
    have ho := Heap.get_lt _ hy
    rw [Heap.size_write] at ho
    rw [h.get_write_eq x ho] at hy; cases hy
    exact hx p hp
  · rw [h.get_write_ne x e] at hy
    exact c o' y hy p hp

theorem Closed.allocs {h : Heap} (c : Closed h) (xs : List Obj) (hx : ∀ x ∈ xs, ∀ p ∈ x.ptrs, p < h.size) :
    Closed (h.allocs xs).1 := by
  induction xs generalizing h with
  | nil => exact c
  | cons x xs ih =>
    have e : (h.allocs (x :: xs)).1 = ((h.alloc x).1.allocs xs).1 := rfl
    rw [e]
    refine ih (c.alloc x (hx x (List.mem_cons_self ..))) fun y hy p hp => ?_
    rw [Heap.size_alloc]
    exact Nat.lt_succ_of_lt (hx y (List.mem_cons_of_mem _ hy) p hp)

theorem Closed.writes {h : Heap} (c : Closed h) (ws : List (Nat × Obj)) (hx : ∀ w ∈ ws, ∀ p ∈ w.2.ptrs, p < h.size) :
    Closed (h.writes ws) := by
  induction ws generalizing h with
  | nil => exact c
  | cons w ws ih =>
    obtain ⟨o, x⟩ := w
    simp only [Heap.writes]
    refine ih (c.write o x (hx (o, x) (List.mem_cons_self ..))) fun y hy p hp => ?_
    rw [Heap.size_write]
    exact hx y (List.mem_cons_of_mem _ hy) p hp

theorem setList_lt {h : Heap} (c : Closed h) (s : Nat) : ∀ p ∈ setList h s, p < h.size := by
  intro p hp
  simp only [setList] at hp
  split at hp
  · rename_i l hg; exact c s _ hg p hp
  · cases hp

theorem idxEntries_lt {h : Heap} (c : Closed h) (s : Nat) : ∀ p ∈ idxEntries h s, p < h.size := by
  intro p hp
  simp only [idxEntries] at hp
  split at hp
  · rename_i l hg; exact c s _ hg p hp
  · cases hp

/-- heap well-formedness carried along a history -/
structure WF (h : Heap) (t : TxnState) : Prop where
  closed : Closed h
  cat : t.catalog < h.size

theorem newCollH_closed {h : Heap} (c : Closed h) : Closed (newCollH h).1 ∧ (newCollH h).1.size = h.size + 3 ∧
    (newCollH h).2 = h.size + 2 := by
  simp only [newCollH]
  refine ⟨((c.alloc (.set []) (by simp [Obj.ptrs])).alloc (.idx []) (by simp [Obj.ptrs])).alloc _ ?_, by simp, by simp⟩
  intro p hp
  simp only [Obj.ptrs, List.map_cons, List.map_nil, List.mem_cons, List.not_mem_nil, or_false, Heap.alloc_id] at hp
  simp only [Heap.size_alloc] at hp ⊢
  rcases hp with rfl | rfl <;> omega

theorem cloneCollH_closed {h : Heap} (c : Closed h) (s : Nat) (idxs : List (String × Nat)) :
    Closed (cloneCollH h s idxs).1 ∧ h.size ≤ (cloneCollH h s idxs).1.size ∧
    (cloneCollH h s idxs).2 < (cloneCollH h s idxs).1.size := by
  simp only [cloneCollH]
  have c1 := c.alloc (.set (setList h s)) (setList_lt c s)
  have c2 := c1.allocs (idxs.map fun p => Obj.idx (idxEntries h p.2)) (by
    intro x hx p hp
    obtain ⟨q, _, rfl⟩ := List.mem_map.mp hx
    rw [Heap.size_alloc]; exact Nat.lt_succ_of_lt (idxEntries_lt c q.2 p hp))
  have hs := Heap.allocs_size (h.alloc (.set (setList h s))).1 (idxs.map fun p => Obj.idx (idxEntries h p.2))
  have ids := Heap.allocs_ids (h.alloc (.set (setList h s))).1 (idxs.map fun p => Obj.idx (idxEntries h p.2))
  rw [Heap.size_alloc] at hs
  refine ⟨c2.alloc _ ?_, by simp; omega, by simp⟩
  intro p hp
  simp only [Obj.ptrs, List.mem_cons, List.mem_map, Heap.alloc_id] at hp
  rcases hp with rfl | ⟨q, hq, rfl⟩
  · omega
  · exact (ids q.2 (List.of_mem_zip hq).2).2

theorem applyMut_closed {h : Heap} (c : Closed h) {o s : Nat} {idxs : List (String × Nat)}
    (hg : h.get o = some (.coll s idxs)) (args : List Nat) (mu : Mut) :
    Closed (applyMut h o s idxs args mu) ∧ h.size ≤ (applyMut h o s idxs args mu).size := by
  have hps := c o _ hg
  -- stage 1-4
  have pre : Closed (applyMutPre h s idxs args mu) ∧
      (applyMutPre h s idxs args mu).size = (h.allocs (mu.newDocs.map Obj.doc)).1.size ∧
      h.size ≤ (h.allocs (mu.newDocs.map Obj.doc)).1.size := by
    unfold applyMutPre
    extract_lets h1 h2 h3
    have c1 : Closed h1 := c.allocs _ (by
      intro x hx p hp; obtain ⟨v, _, rfl⟩ := List.mem_map.mp hx; simp [Obj.ptrs] at hp)
    have c2 : Closed h2 := c1.writes _ (by
      intro w hw p hp
      obtain ⟨v, _, e⟩ := List.mem_map.mp (List.of_mem_zip hw).2
      rw [← e] at hp; simp [Obj.ptrs] at hp)
    have e2 : h2.size = h1.size := Heap.writes_size _ _
    have c3 : Closed h3 ∧ h3.size = h1.size := by
      show Closed (match mu.list with
        | some l => h2.write s (.set (l.filter (· < h1.size)))
        | none => h2) ∧ (match mu.list with
        | some l => h2.write s (.set (l.filter (· < h1.size)))
        | none => h2).size = h1.size
      cases mu.list with
      | none => exact ⟨c2, e2⟩
      | some l =>
        refine ⟨c2.write _ _ ?_, by simp [e2]⟩
        intro p hp
        simp only [Obj.ptrs, List.mem_filter, decide_eq_true_eq] at hp
        rw [e2]; exact hp.2
    refine ⟨c3.1.writes _ ?_, by rw [Heap.writes_size]; exact c3.2, by
      show h.size ≤ (h.allocs (mu.newDocs.map Obj.doc)).1.size
      rw [Heap.allocs_size]; omega⟩
    intro w hw p hp
    simp only [idxWrites, List.mem_filterMap, Option.map_eq_some_iff] at hw
    obtain ⟨w0, _, q, _, rfl⟩ := hw
    simp only [Obj.ptrs, List.mem_filter, decide_eq_true_eq] at hp
    rw [c3.2]; exact hp.2
  simp only [applyMut]
  generalize applyMutPre h s idxs args mu = h4 at pre ⊢
  obtain ⟨c4, e4, le4⟩ := pre
  generalize (h.allocs (mu.newDocs.map Obj.doc)).1.size = bound at e4 le4 ⊢
  have c5 := c4.allocs (mu.add.map fun a => Obj.idx (a.2.filter (· < bound))) (by
    intro x hx p hp
    obtain ⟨a, _, rfl⟩ := List.mem_map.mp hx
    simp only [Obj.ptrs, List.mem_filter, decide_eq_true_eq] at hp
    rw [e4]; exact hp.2)
  have s5 := Heap.allocs_size h4 (mu.add.map fun a => Obj.idx (a.2.filter (· < bound)))
  have ids := Heap.allocs_ids h4 (mu.add.map fun a => Obj.idx (a.2.filter (· < bound)))
  generalize h4.allocs (mu.add.map fun a => Obj.idx (a.2.filter (· < bound))) = r5 at c5 s5 ids ⊢
  split
  · exact ⟨c5, by omega⟩
  · refine ⟨c5.write _ _ ?_, by simp; omega⟩
    intro p hp
    simp only [Obj.ptrs, List.mem_cons, List.mem_map] at hp
    rcases hp with rfl | ⟨q, hq, rfl⟩
    · have := hps p (by simp [Obj.ptrs]); omega
    · rcases List.mem_append.mp hq with hq | hq
      · have := hps q.2 (by simp only [Obj.ptrs, List.mem_cons, List.mem_map]; exact .inr ⟨q, (List.mem_filter.mp hq).1, rfl⟩)
        omega
      · exact (ids q.2 (List.of_mem_zip hq).2).2

theorem WF.grow {h h' : Heap} {t : TxnState} (w : WF h t) (c : Closed h') (le : h.size ≤ h'.size) : WF h' t :=
  ⟨c, Nat.lt_of_lt_of_le w.cat le⟩

theorem mapPut_ptrs {ns : List (Nat × Nat)} {k x n : Nat} (hx : x < n) (hns : ∀ p ∈ (Obj.cat ns).ptrs, p < n) :
    ∀ p ∈ (Obj.cat (mapPut ns k x)).ptrs, p < n := by
  intro p hp
  simp only [Obj.ptrs, mapPut, List.map_cons, List.mem_cons, List.mem_map, List.mem_filter] at hp
  rcases hp with rfl | ⟨q, ⟨hq, _⟩, rfl⟩
  · exact hx
  · exact hns q.2 (by simp only [Obj.ptrs, List.mem_map]; exact ⟨q, hq, rfl⟩)

theorem mapDel_ptrs {ns : List (Nat × Nat)} {k n : Nat} (hns : ∀ p ∈ (Obj.cat ns).ptrs, p < n) :
    ∀ p ∈ (Obj.cat (mapDel ns k)).ptrs, p < n := by
  intro p hp
  simp only [Obj.ptrs, mapDel, List.mem_map, List.mem_filter] at hp
  obtain ⟨q, ⟨hq, _⟩, rfl⟩ := hp
  exact hns q.2 (by simp only [Obj.ptrs, List.mem_map]; exact ⟨q, hq, rfl⟩)

theorem wf_iterate (f : St → St × Sig) (hf : ∀ st, WF st.heap st.txn → WF (f st).1.heap (f st).1.txn) :
    ∀ n st, WF st.heap st.txn → WF (iterate f n st).1.heap (iterate f n st).1.txn := by
  intro n
  induction n with
  | zero => intro st w; exact w
  | succ n ih =>
    intro st w
    have := hf st w
    simp only [iterate]
    revert this
    generalize f st = r
    obtain ⟨st', sg⟩ := r
    intro this
    cases sg with
    | next => exact ih st' this
    | cont => exact ih st' this
    | brk | ret | panic => exact this

mutual
theorem wf_exec : ∀ (s : Stmt) (st : St), WF st.heap st.txn → WF (exec s st).1.heap (exec s st).1.txn
  | .validate, st, w => by simpa [exec, St.setErr, St.popFlag] using w
  | .cloneDocs d s, st, w => by
    simp only [exec, St.bindDocs]
    refine w.grow (w.closed.allocs _ ?_) (by rw [Heap.allocs_size]; omega)
    intro x hx p hp; obtain ⟨v, _, rfl⟩ := List.mem_map.mp hx; simp [Obj.ptrs] at hp
  | .cloneCatalog d s, st, w => by
    simp only [exec]
    split
    · rename_i o ns ho
      exact w.grow (w.closed.alloc _ (w.closed o _ (St.obj_some ho).2)) (by simp [St.bind])
    · exact w
  | .alias d e, st, w => by simpa [exec, St.bind] using w
  | .newColl d, st, w => by
    simp only [exec, St.bind]
    obtain ⟨c, sz, _⟩ := newCollH_closed w.closed
    exact w.grow c (by omega)
  | .cloneColl d e, st, w => by
    simp only [exec]
    split
    · rename_i s idxs _
      obtain ⟨c, le, _⟩ := cloneCollH_closed w.closed s idxs
      exact w.grow c le
    · exact w
  | .shallowColl d e, st, w => by
    simp only [exec]
    split
    · rename_i s idxs he
      cases ho : st.evalC e with
      | none => simp [ho] at he
      | some o =>
        simp only [ho, Option.bind_some] at he
        exact w.grow (w.closed.alloc _ (w.closed o _ he)) (by simp [St.bind])
    · exact w
  | .setNs c hx v, st, w => by
    simp only [exec]
    split
    · rename_i o ns x ho _
      split
      · rename_i hlt
        exact w.grow (w.closed.write _ _ (mapPut_ptrs hlt (w.closed o _ (St.obj_some ho).2))) (by simp)
      · exact w
    · exact w
    · exact w
  | .setNsNew c hx, st, w => by
    simp only [exec]
    split
    · rename_i o ns ho
      obtain ⟨c1, sz, id⟩ := newCollH_closed w.closed
      refine w.grow (c1.write _ _ (mapPut_ptrs (by omega) fun p hp => ?_)) (by simp; omega)
      have := w.closed o _ (St.obj_some ho).2 p hp; omega
    · exact w
  | .deleteNs c hx, st, w => by
    simp only [exec]
    split
    · rename_i o ns ho
      exact w.grow (w.closed.write _ _ (mapDel_ptrs (w.closed o _ (St.obj_some ho).2))) (by simp)
    · exact w
  | .callColl r m x, st, w => by
    simp only [exec]
    split
    · rename_i o s idxs ho
      obtain ⟨c, le⟩ := applyMut_closed w.closed (St.obj_some ho).2 (st.argDocs x) (st.popMut.1.restrict m.footprint)
      simp only [callCollSt]
      split
      · exact w.grow c le
      · exact w.grow c le
    · exact w
  | .setCatalog v, st, w => by
    simp only [exec]
    split
    · split
      · rename_i hlt; exact ⟨w.closed, hlt⟩
      · exact w
    · exact w
  | .setDirty, st, w => by simp only [exec]; exact ⟨w.closed, w.cat⟩
  | .retErr, st, w => by simpa [exec] using w
  | .retOk, st, w => by simpa [exec, St.setErr] using w
  | .fail, st, w => by simpa [exec, St.setErr] using w
  | .brk, st, w => by simpa [exec] using w
  | .cont, st, w => by simpa [exec] using w
  | .unknown _, st, w => by simpa [exec] using w
  | .ite c t e, st, w => by
    simp only [exec]
    obtain ⟨e1, e2, _⟩ := Cond.eval_frame c st
    split
    · exact wf_execL t _ (by rw [e1, e2]; exact w)
    · exact wf_execL e _ (by rw [e1, e2]; exact w)
  | .loop o body, st, w => by
    simp only [exec]
    refine wf_iterate _ (fun st1 w1 => ?_) _ _ (by simpa [St.popIter] using w)
    cases o with
    | true => exact wf_execL body _ (by simpa [St.popHandle] using w1)
    | false => exact wf_execL body _ w1
  | .helper n body, st, w => by
    simp only [exec]
    have := wf_execL body st w
    revert this
    generalize execL body st = r
    obtain ⟨st', sg⟩ := r
    intro this
    cases sg <;> exact this
theorem wf_execL : ∀ (ss : List Stmt) (st : St), WF st.heap st.txn → WF (execL ss st).1.heap (execL ss st).1.txn
  | [], st, w => by simpa [execL] using w
  | s :: ss, st, w => by
    simp only [execL]
    have := wf_exec s st w
    revert this
    generalize exec s st = r
    obtain ⟨st1, sg1⟩ := r
    intro this
    cases sg1 with
    | next => exact wf_execL ss st1 this
    | brk | cont | ret | panic => exact this
end

/-- one call keeps the heap closed and `t.catalog` allocated -/
theorem wf_run (p : Prog) (a : Args) (ch : Choices) (h : Heap) (t : TxnState) (w : WF h t) :
    WF (run p a ch (h, t)).1 (run p a ch (h, t)).2.1 :=
  wf_execL p (initSt a ch h t) w

end Lungo.Own
