/-
  Lungo.Proofs.IndexMgmt — C15's explicit clauses: an index equals its rebuild, creating an
  existing index is a no-op, conflicting creations fail, drops spare `_id_`.
-/
import Lungo.Proofs.IndexCat
import Lungo.Proofs.SortLaws
namespace Lungo

variable {sch : SchemaEval}

/-- a coherent index has the same entries as the index rebuilt from scratch over the same
    documents (whenever that rebuild goes through), and the rebuilt one is coherent too -/
theorem coherent_rebuild {c : Coll} {n : String} {i j : Index} (hc : Coherent sch c)
    (hm : (n, i) ∈ c.indexes) (h : rebuild sch i c.docs = .ok (j, true)) :
    sameEntries i j ∧ IndexCoherent sch (· ∈ c.docs) j ∧ j.config = i.config ∧ j.columns = i.columns := by
  unfold rebuild at h
  split at h
  · cases h
  · rename_i i0 h0
    have hi := hc.2 n i hm
    have hj : IndexCoherent sch (· ∈ c.docs) j :=
      (build_coherent (newIndex_coherent h0) h).congr (fun x => by simp)
    have hcfg : j.config = i.config := (build_shape h).1.trans (newIndex_spec h0).1
    have hcol : j.columns = i.columns := columns_of_config hi hj hcfg
    refine ⟨⟨?_, ?_⟩, hj, hcfg, hcol⟩
    · intro k id hk
      obtain ⟨x, hx, hid, hb, hkx⟩ := hi.sound k id hk
      subst hid
      rw [← hcol] at hkx
      exact hj.complete x hx ((belongs_config hcfg x.doc).mpr hb) k hkx
    · intro k id hk
      obtain ⟨x, hx, hid, hb, hkx⟩ := hj.sound k id hk
      subst hid
      rw [hcol] at hkx
      exact hi.complete x hx ((belongs_config hcfg x.doc).mp hb) k hkx

theorem lookup_mem {α} : ∀ {l : List (String × α)} {k : String} {v : α}, l.lookup k = some v → (k, v) ∈ l
  | [], _, _, h => by cases h
  | (k', v') :: r, k, v, h => by
    rw [List.lookup_cons] at h
    split at h
    · rename_i he
      simp only [beq_iff_eq] at he
      simp only [Option.some.injEq] at h
      subst he h; simp
    · exact List.mem_cons_of_mem _ (lookup_mem h)

/-- CreateIndex with a name that exists with an `Equal` configuration returns the collection
    unchanged (`nm` is the given name, or the generated one when the name is empty) -/
theorem create_same_is_noop {c : Coll} {name nm : String} {config : IndexConfig} {i : Index}
    (hn : (if name == "" then config.name else .ok name) = .ok nm)
    (hl : c.indexes.lookup nm = some i) (he : config.equal i.config = true) :
    c.createIndex sch name config = .ok (c, nm) := by
  unfold Coll.createIndex
  simp only [hn, hl, he, ↓reduceIte]

/-- a different definition under an existing name is refused -/
theorem create_name_conflict_fails {c : Coll} {name nm : String} {config : IndexConfig} {i : Index}
    (hn : (if name == "" then config.name else .ok name) = .ok nm)
    (hl : c.indexes.lookup nm = some i) (he : config.equal i.config = false) :
    c.createIndex sch name config = .error .err := by
  have hany : c.indexes.any (·.1 == nm) = true :=
    List.any_eq_true.mpr ⟨(nm, i), lookup_mem hl, by simp⟩
  unfold Coll.createIndex
  simp only [hn, hl, he, Bool.false_eq_true, ↓reduceIte, hany]
  split <;> rfl

/-- the same key under another name is refused -/
theorem create_key_conflict_fails {c : Coll} {name nm : String} {config : IndexConfig}
    (hn : (if name == "" then config.name else .ok name) = .ok nm)
    (hl : c.indexes.lookup nm = none)
    (hk : ∃ n' i, (n', i) ∈ c.indexes ∧ V.cmp (.doc config.key) (.doc i.config.key) = .eq) :
    c.createIndex sch name config = .error .err := by
  obtain ⟨n', i, hm, hc⟩ := hk
  have hany : c.indexes.any (fun p => V.cmp (.doc config.key) (.doc p.2.config.key) == .eq) = true :=
    List.any_eq_true.mpr ⟨(n', i), hm, by simp [hc]⟩
  unfold Coll.createIndex
  simp only [hn, hl, Bool.false_eq_true, ↓reduceIte]
  have : (c.indexes.any fun x => (V.doc config.key).cmp (V.doc x.snd.config.key) == Ordering.eq) = true := hany
  simp only [this, ↓reduceIte]

/-- dropping `_id_` by name is refused -/
theorem drop_id_fails (c : Coll) : c.dropIndex "_id_" = .error .err := by
  unfold Coll.dropIndex
  simp

/-! ### `Index.list` -/

theorem mem_dedupIds {y : Nat} : ∀ {l : List Nat}, y ∈ dedupIds l ↔ y ∈ l
  | [] => by simp [dedupIds]
  | x :: r => by
    rw [dedupIds, List.mem_cons, List.mem_cons, List.mem_filter, mem_dedupIds (l := r)]
    by_cases h : y = x
    · simp [h]
    · simp [h]

theorem nodup_dedupIds : ∀ l : List Nat, (dedupIds l).Nodup
  | [] => by simp [dedupIds]
  | x :: r => by
    rw [dedupIds, List.nodup_cons]
    refine ⟨?_, (List.filter_sublist).nodup (nodup_dedupIds r)⟩
    intro h
    have := (List.mem_filter.mp h).2
    simp at this

theorem mem_index_list {i : Index} {id : Nat} : id ∈ i.list ↔ ∃ k, (k, id) ∈ i.entries := by
  unfold Index.list
  rw [mem_dedupIds, List.mem_map]
  constructor
  · rintro ⟨⟨k, d⟩, hm, rfl⟩
    exact ⟨k, (List.mergeSort_perm _ _).mem_iff.mp hm⟩
  · rintro ⟨k, hm⟩
    exact ⟨(k, id), (List.mergeSort_perm _ _).mem_iff.mpr hm, rfl⟩

/-- `Index.List` lists exactly the identities of the current documents that fall under the index,
    each once -/
theorem index_list_exact {c : Coll} {n : String} {i : Index} (hc : Coherent sch c)
    (hm : (n, i) ∈ c.indexes) :
    i.list.Nodup ∧ ∀ id, id ∈ i.list ↔ ∃ sd ∈ c.docs, sd.id = id ∧ belongs sch i sd.doc := by
  refine ⟨nodup_dedupIds _, fun id => ?_⟩
  rw [mem_index_list]
  have hi := hc.2 n i hm
  constructor
  · rintro ⟨k, hk⟩
    obtain ⟨x, hx, hid, hb, _⟩ := hi.sound k id hk
    exact ⟨x, hx, hid, hb⟩
  · rintro ⟨sd, hsd, rfl, hb⟩
    cases ht : tuples i.columns sd.doc with
    | nil => exact absurd ht (tuples_ne_nil _ _)
    | cons t r =>
      obtain ⟨k, hk, _⟩ := hi.complete sd hsd hb t (by rw [ht]; simp)
      exact ⟨k, hk⟩

/-! ### `Index.list` is in key order -/

theorem tuplesStep_length (d : Doc) (n : Nat) (acc : List (List V)) (col : Column)
    (hacc : ∀ t ∈ acc, t.length = n) : ∀ t ∈ tuplesStep d acc col, t.length = n + 1 := by
  intro t ht
  simp only [tuplesStep, List.mem_flatMap, List.mem_map] at ht
  obtain ⟨t0, ht0, x, _, rfl⟩ := ht
  simp [hacc t0 ht0]

theorem foldl_tuplesStep_length (d : Doc) : ∀ (cols : List Column) (n : Nat) (acc : List (List V)),
    (∀ t ∈ acc, t.length = n) → ∀ t ∈ cols.foldl (tuplesStep d) acc, t.length = n + cols.length
  | [], _, _, hacc => by simpa using hacc
  | col :: r, n, acc, hacc => by
    intro t ht
    have := foldl_tuplesStep_length d r (n + 1) _ (tuplesStep_length d n acc col hacc) t ht
    rw [this, List.length_cons]; omega

/-- every key tuple has one component per column -/
theorem tuples_length (cols : List Column) (d : Doc) : ∀ t ∈ tuples cols d, t.length = cols.length := by
  intro t ht
  rw [tuples_eq] at ht
  have := foldl_tuplesStep_length d cols 0 [[]] (by intro t ht; simp at ht; subst ht; rfl) t ht
  omega

theorem keyLe_cons (col : Column) (cs : List Column) (x y : V) (r s : List V) :
    keyLe (col :: cs) (x :: r) (y :: s) =
      match dirOrd col.reverse (V.cmp x y) with
      | .lt => true
      | .gt => false
      | .eq => keyLe cs r s := by
  rw [keyLe]; rfl

theorem keyLe_refl : ∀ (cols : List Column) (k : List V), keyLe cols k k = true
  | [], _ => by simp [keyLe]
  | _ :: _, [] => by simp [keyLe]
  | col :: cs, x :: r => by
    rw [keyLe_cons, V.cmp_refl]
    have : dirOrd col.reverse .eq = .eq := by unfold dirOrd; split <;> rfl
    rw [this]; exact keyLe_refl cs r

theorem cmp_dir_laws (rev : Bool) (x y z : V) (ox : x.i64Ok = true) (oy : y.i64Ok = true)
    (oz : z.i64Ok = true) :
    Ord.Laws (dirOrd rev (V.cmp x x)) (dirOrd rev (V.cmp x y)) (dirOrd rev (V.cmp y x))
      (dirOrd rev (V.cmp y z)) (dirOrd rev (V.cmp x z)) :=
  Laws.dir rev (V.cmp_at x y z ox oy oz) (V.cmp_at z y x oz oy ox) (V.cmp_swap x z)

theorem keyLe_trans : ∀ (cols : List Column) (a b c : List V), TupOk a → TupOk b → TupOk c →
    a.length = cols.length → b.length = cols.length → c.length = cols.length →
    keyLe cols a b = true → keyLe cols b c = true → keyLe cols a c = true
  | [], _, _, _, _, _, _, _, _, _, _, _ => by simp [keyLe]
  | _ :: _, [], _, _, _, _, _, h, _, _, _, _ => by simp at h
  | _ :: _, _ :: _, [], _, _, _, _, _, h, _, _, _ => by simp at h
  | _ :: _, _ :: _, _ :: _, [], _, _, _, _, _, h, _, _ => by simp at h
  | col :: cs, x :: r, y :: s, z :: u, oa, ob, oc, la, lb, lc, h1, h2 => by
    have L := cmp_dir_laws col.reverse x y z (oa x (by simp)) (ob y (by simp)) (oc z (by simp))
    rw [keyLe_cons] at h1 h2 ⊢
    have ih := keyLe_trans cs r s u (fun v hv => oa v (by simp [hv])) (fun v hv => ob v (by simp [hv]))
      (fun v hv => oc v (by simp [hv])) (by simpa using la) (by simpa using lb) (by simpa using lc)
    cases hab : dirOrd col.reverse (V.cmp x y) with
    | gt => rw [hab] at h1; cases h1
    | lt =>
      cases hbd : dirOrd col.reverse (V.cmp y z) with
      | gt => rw [hbd] at h2; cases h2
      | lt => rw [L.lt_trans hab hbd]
      | eq => rw [← L.congr_r hbd, hab]
    | eq =>
      rw [hab] at h1
      rw [L.congr_l hab]
      cases hbd : dirOrd col.reverse (V.cmp y z) with
      | gt => rw [hbd] at h2; cases h2
      | lt => rfl
      | eq => rw [hbd] at h2; exact ih h1 h2

theorem keyLe_total : ∀ (cols : List Column) (a b : List V),
    (keyLe cols a b || keyLe cols b a) = true
  | [], _, _ => by simp [keyLe]
  | _ :: _, [], _ => by simp [keyLe]
  | _ :: _, _ :: _, [] => by simp [keyLe]
  | col :: cs, x :: r, y :: s => by
    rw [keyLe_cons, keyLe_cons, V.cmp_swap x y]
    have ih := keyLe_total cs r s
    cases V.cmp x y <;> cases col.reverse <;> simp [dirOrd, Ordering.swap, ih]

/-- the entries in the order of the btree scan -/
def Index.scan (i : Index) : List (List V × Nat) :=
  i.entries.mergeSort fun a b => keyLe i.columns a.1 b.1

/-- keep the first entry of every document -/
def firstsBy : List (List V × Nat) → List (List V × Nat)
  | [] => []
  | e :: r => e :: (firstsBy r).filter (·.2 != e.2)

theorem firstsBy_ids : ∀ l : List (List V × Nat), (firstsBy l).map (·.2) = dedupIds (l.map (·.2))
  | [] => rfl
  | e :: r => by
    rw [firstsBy, List.map_cons, List.map_cons, dedupIds, ← firstsBy_ids r, List.filter_map]
    rfl

theorem firstsBy_sublist : ∀ l : List (List V × Nat), (firstsBy l).Sublist l
  | [] => .slnil
  | e :: r => by
    rw [firstsBy]
    exact (List.filter_sublist.trans (firstsBy_sublist r)).cons_cons e

theorem firstsBy_min {le : List V → List V → Bool} (hrefl : ∀ k, le k k = true) :
    ∀ l : List (List V × Nat), l.Pairwise (fun a b => le a.1 b.1 = true) →
      ∀ k id, (k, id) ∈ firstsBy l → ∀ k', (k', id) ∈ l → le k k' = true
  | [], _, _, _, hm, _, _ => by simp [firstsBy] at hm
  | e :: r, hp, k, id, hm, k', hm' => by
    rw [List.pairwise_cons] at hp
    rw [firstsBy, List.mem_cons] at hm
    rcases hm with rfl | hm
    · rcases List.mem_cons.mp hm' with h | h
      · cases h; exact hrefl k
      · exact hp.1 _ h
    · obtain ⟨h1, h2⟩ := List.mem_filter.mp hm
      have hne : id ≠ e.2 := by simpa using h2
      rcases List.mem_cons.mp hm' with h | h
      · subst h; exact absurd rfl hne
      · exact firstsBy_min hrefl r hp.2 k id h1 k' h

/-- the btree scan of a coherent index over well-formed documents is in key order -/
theorem scan_sorted {c : Coll} {n : String} {i : Index} (hc : Coherent sch c)
    (hm : (n, i) ∈ c.indexes) (hok : DocsOk c.docs) :
    i.scan.Pairwise (fun a b => keyLe i.columns a.1 b.1 = true) := by
  have hi := hc.2 n i hm
  have hP : ∀ e ∈ i.entries, TupOk e.1 ∧ e.1.length = i.columns.length := by
    intro ⟨k, id⟩ he
    obtain ⟨x, hx, _, _, hk⟩ := hi.sound k id he
    exact ⟨tuples_ok _ _ (hok x hx) k hk, tuples_length _ _ k hk⟩
  exact pairwise_mergeSort_on (P := fun e : List V × Nat => TupOk e.1 ∧ e.1.length = i.columns.length)
    (le := fun a b => keyLe i.columns a.1 b.1)
    (fun a b c pa pb pc h1 h2 => keyLe_trans _ _ _ _ pa.1 pb.1 pc.1 pa.2 pb.2 pc.2 h1 h2)
    (fun a b _ _ => keyLe_total _ _ _) i.entries hP

/-- `Index.List()` is in key order: it is the identity projection of a sub-list `ks` of the entries
    that is ascending by key, holds each listed document under its SMALLEST key, and lists every
    document once -/
theorem index_list_sorted {c : Coll} {n : String} {i : Index} (hc : Coherent sch c)
    (hm : (n, i) ∈ c.indexes) (hok : DocsOk c.docs) :
    ∃ ks : List (List V × Nat), ks.map (·.2) = i.list ∧ (∀ e ∈ ks, e ∈ i.entries) ∧
      ks.Pairwise (fun a b => keyLe i.columns a.1 b.1 = true) ∧
      ∀ k id, (k, id) ∈ ks → ∀ k', (k', id) ∈ i.entries → keyLe i.columns k k' = true := by
  have hs := scan_sorted hc hm hok
  refine ⟨firstsBy i.scan, firstsBy_ids _, ?_, List.Pairwise.sublist (firstsBy_sublist _) hs, ?_⟩
  · intro e he
    exact (List.mergeSort_perm _ _).mem_iff.mp ((firstsBy_sublist _).subset he)
  · intro k id hk k' hk'
    exact firstsBy_min (le := keyLe i.columns) (keyLe_refl _) _ hs k id hk k'
      ((List.mergeSort_perm _ _).mem_iff.mpr hk')

end Lungo
