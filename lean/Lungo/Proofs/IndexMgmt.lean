/-
  Lungo.Proofs.IndexMgmt — C15's explicit clauses: an index equals its rebuild, creating an
  existing index is a no-op, conflicting creations fail, drops spare `_id_`.
-/
import Lungo.Proofs.IndexCat
namespace Lungo

variable {sch : SchemaEval}

/-- a coherent index has the same entries as the index rebuilt from scratch over the same
    documents (whenever that rebuild goes through), and the rebuilt one is coherent too -/
theorem coherent_rebuild {c : Coll} {n : String} {i j : Index} (hc : Coherent sch c)
    (hm : (n, i) ∈ c.indexes) (h : rebuild sch i c.docs = .ok (j, true)) :
    sameEntries i j ∧ IndexCoherent sch (· ∈ c.docs) j ∧ j.config = i.config ∧ j.columns = i.columns := by
  unfold rebuild at h
  split at h
  · cases h
  · rename_i i0 h0
    have hi := hc.2 n i hm
    have hj : IndexCoherent sch (· ∈ c.docs) j :=
      (build_coherent (newIndex_coherent h0) h).congr (fun x => by simp)
    have hcfg : j.config = i.config := (build_shape h).1.trans (newIndex_spec h0).1
    have hcol : j.columns = i.columns := columns_of_config hi hj hcfg
    refine ⟨⟨?_, ?_⟩, hj, hcfg, hcol⟩
    · intro k id hk
      obtain ⟨x, hx, hid, hb, hkx⟩ := hi.sound k id hk
      subst hid
      rw [← hcol] at hkx
      exact hj.complete x hx ((belongs_config hcfg x.doc).mpr hb) k hkx
    · intro k id hk
      obtain ⟨x, hx, hid, hb, hkx⟩ := hj.sound k id hk
      subst hid
      rw [hcol] at hkx
      exact hi.complete x hx ((belongs_config hcfg x.doc).mp hb) k hkx

theorem lookup_mem {α} : ∀ {l : List (String × α)} {k : String} {v : α}, l.lookup k = some v → (k, v) ∈ l
  | [], _, _, h => by cases h
  | (k', v') :: r, k, v, h => by
    rw [List.lookup_cons] at h
    split at h
    · rename_i he
      simp only [beq_iff_eq] at he
      simp only [Option.some.injEq] at h
      subst he h; simp
    · exact List.mem_cons_of_mem _ (lookup_mem h)

/-- CreateIndex with a name that exists with an `Equal` configuration returns the collection
    unchanged (`nm` is the given name, or the generated one when the name is empty) -/
theorem create_same_is_noop {c : Coll} {name nm : String} {config : IndexConfig} {i : Index}
    (hn : (if name == "" then config.name else .ok name) = .ok nm)
    (hl : c.indexes.lookup nm = some i) (he : config.equal i.config = true) :
    c.createIndex sch name config = .ok (c, nm) := by
  unfold Coll.createIndex
  simp only [hn, hl, he, ↓reduceIte]

/-- a different definition under an existing name is refused -/
theorem create_name_conflict_fails {c : Coll} {name nm : String} {config : IndexConfig} {i : Index}
    (hn : (if name == "" then config.name else .ok name) = .ok nm)
    (hl : c.indexes.lookup nm = some i) (he : config.equal i.config = false) :
    c.createIndex sch name config = .error .err := by
  have hany : c.indexes.any (·.1 == nm) = true :=
    List.any_eq_true.mpr ⟨(nm, i), lookup_mem hl, by simp⟩
  unfold Coll.createIndex
  simp only [hn, hl, he, Bool.false_eq_true, ↓reduceIte, hany]
  split <;> rfl

/-- the same key under another name is refused -/
theorem create_key_conflict_fails {c : Coll} {name nm : String} {config : IndexConfig}
    (hn : (if name == "" then config.name else .ok name) = .ok nm)
    (hl : c.indexes.lookup nm = none)
    (hk : ∃ n' i, (n', i) ∈ c.indexes ∧ V.cmp (.doc config.key) (.doc i.config.key) = .eq) :
    c.createIndex sch name config = .error .err := by
  obtain ⟨n', i, hm, hc⟩ := hk
  have hany : c.indexes.any (fun p => V.cmp (.doc config.key) (.doc p.2.config.key) == .eq) = true :=
    List.any_eq_true.mpr ⟨(n', i), hm, by simp [hc]⟩
  unfold Coll.createIndex
  simp only [hn, hl, Bool.false_eq_true, ↓reduceIte]
  have : (c.indexes.any fun x => (V.doc config.key).cmp (V.doc x.snd.config.key) == Ordering.eq) = true := hany
  simp only [this, ↓reduceIte]

/-- dropping `_id_` by name is refused -/
theorem drop_id_fails (c : Coll) : c.dropIndex "_id_" = .error .err := by
  unfold Coll.dropIndex
  simp

/-! ### `Index.list` -/

theorem mem_dedupIds {y : Nat} : ∀ {l : List Nat}, y ∈ dedupIds l ↔ y ∈ l
  | [] => by simp [dedupIds]
  | x :: r => by
    rw [dedupIds, List.mem_cons, List.mem_cons, List.mem_filter, mem_dedupIds (l := r)]
    by_cases h : y = x
    · simp [h]
    · simp [h]

theorem nodup_dedupIds : ∀ l : List Nat, (dedupIds l).Nodup
  | [] => by simp [dedupIds]
  | x :: r => by
    rw [dedupIds, List.nodup_cons]
    refine ⟨?_, (List.filter_sublist).nodup (nodup_dedupIds r)⟩
    intro h
    have := (List.mem_filter.mp h).2
    simp at this

theorem mem_index_list {i : Index} {id : Nat} : id ∈ i.list ↔ ∃ k, (k, id) ∈ i.entries := by
  unfold Index.list
  rw [mem_dedupIds, List.mem_map]
  constructor
  · rintro ⟨⟨k, d⟩, hm, rfl⟩
    exact ⟨k, (List.mergeSort_perm _ _).mem_iff.mp hm⟩
  · rintro ⟨k, hm⟩
    exact ⟨(k, id), (List.mergeSort_perm _ _).mem_iff.mpr hm, rfl⟩

/-- `Index.List` lists exactly the identities of the current documents that fall under the index,
    each once -/
theorem index_list_exact {c : Coll} {n : String} {i : Index} (hc : Coherent sch c)
    (hm : (n, i) ∈ c.indexes) :
    i.list.Nodup ∧ ∀ id, id ∈ i.list ↔ ∃ sd ∈ c.docs, sd.id = id ∧ belongs sch i sd.doc := by
  refine ⟨nodup_dedupIds _, fun id => ?_⟩
  rw [mem_index_list]
  have hi := hc.2 n i hm
  constructor
  · rintro ⟨k, hk⟩
    obtain ⟨x, hx, hid, hb, _⟩ := hi.sound k id hk
    exact ⟨x, hx, hid, hb⟩
  · rintro ⟨sd, hsd, rfl, hb⟩
    cases ht : tuples i.columns sd.doc with
    | nil => exact absurd ht (tuples_ne_nil _ _)
    | cons t r =>
      obtain ⟨k, hk, _⟩ := hi.complete sd hsd hb t (by rw [ht]; simp)
      exact ⟨k, hk⟩

end Lungo
