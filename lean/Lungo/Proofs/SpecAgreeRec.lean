/-
  Lungo.Proofs.SpecAgreeRec — the recursive combination: leaf operators, $not, $elemMatch, field
  entries, $and/$or/$nor, whole filters.
-/
import Lungo.Proofs.SpecAgree
namespace Lungo
open Lungo.Spec

/-- the domain hypothesis of one condition `c` on `path` of `d` (proved domain: `ex = true`) -/
abbrev CondDom (d : Doc) (path : String) (c : Cond) : Prop :=
  coreC true (.doc d) (splitPath path) (fans (.doc d) (splitPath path)) c = true

theorem parseType_inv {v : V} {c : Cond} (h : parseType v = some c) : ∃ n ts, c = .type n ts := by
  unfold parseType at h
  dsimp only at h
  split at h
  · simp at h
  · split at h
    · exact ⟨_, _, (Option.some.inj h).symm⟩
    · simp at h
theorem parseSize_inv {v : V} {c : Cond} (h : parseSize v = some c) : ∃ n, c = .size n := by
  unfold parseSize at h
  split at h
  · split at h
    · simp at h
    · exact ⟨_, (Option.some.inj h).symm⟩
  · simp at h
theorem parseMod_inv {v : V} {c : Cond} (h : parseMod v = some c) : ∃ a b, c = .mod a b := by
  unfold parseMod at h
  split at h
  · split at h
    · split at h
      · simp at h
      · exact ⟨_, _, (Option.some.inj h).symm⟩
    · simp at h
  · simp at h
theorem parseBits_inv {o : BitsOp} {v : V} {c : Cond} (h : parseBits o v = some c) : ∃ ps, c = .bits o ps := by
  unfold parseBits at h
  split at h
  · exact ⟨_, (Option.some.inj h).symm⟩
  · simp at h

theorem fo_imp {fo b : Bool} (h : (!fo || b) = true) : fo = true → b = true := by
  cases fo <;> simp_all

/-- every operator without sub-expressions -/
theorem leaf_agrees (sch : SchemaEval) {d : Doc} {path : String} (hd : PathDom d path) (op : String) (v : V) (c : Cond)
    (hp : parseLeaf op v = some c) (hc : CondDom d path c) :
    mOp sch d op path v = toRes (holdsC (.doc d) (splitPath path) c) := by
  unfold parseLeaf at hp
  unfold CondDom at hc
  split at hp
  · -- $eq
    cases hp
    simp only [coreC, Bool.and_eq_true] at hc
    rw [mOp_leaf sch d "$eq" path v _ rfl, holdsC]
    exact matchComp_agrees hd .eq v (fo_imp hc.2)
  · cases hp
    simp only [coreC, Bool.and_eq_true] at hc
    rw [mOp_leaf sch d "$gt" path v _ rfl, holdsC]
    exact matchComp_agrees hd .gt v (fo_imp hc.2)
  · cases hp
    simp only [coreC, Bool.and_eq_true] at hc
    rw [mOp_leaf sch d "$gte" path v _ rfl, holdsC]
    exact matchComp_agrees hd .gte v (fo_imp hc.2)
  · cases hp
    simp only [coreC, Bool.and_eq_true] at hc
    rw [mOp_leaf sch d "$lt" path v _ rfl, holdsC]
    exact matchComp_agrees hd .lt v (fo_imp hc.2)
  · cases hp
    simp only [coreC, Bool.and_eq_true] at hc
    rw [mOp_leaf sch d "$lte" path v _ rfl, holdsC]
    exact matchComp_agrees hd .lte v (fo_imp hc.2)
  · -- $ne
    cases hp
    simp only [coreC, Bool.and_eq_true] at hc
    rw [mOp_leaf sch d "$ne" path v _ rfl, holdsC, ← negate_toRes]
    exact congrArg negate (matchComp_agrees hd .eq v (fo_imp hc.2))
  · -- $in
    split at hp
    · cases hp
      simp only [coreC, Bool.and_eq_true] at hc
      rw [mOp_leaf sch d "$in" path _ _ rfl, holdsC]
      exact matchIn_agrees hd _ (fo_imp hc.2)
    · simp at hp
  · -- $nin
    split at hp
    · cases hp
      simp only [coreC, Bool.and_eq_true] at hc
      rw [mOp_leaf sch d "$nin" path _ _ rfl, holdsC, ← negate_toRes]
      exact congrArg negate (matchIn_agrees hd _ (fo_imp hc.2))
    · simp at hp
  · -- $exists
    cases hp
    rw [mOp_leaf sch d "$exists" path v _ rfl, holdsC]
    exact matchExists_agrees hd v
  · -- $type
    rw [mOp_leaf sch d "$type" path v _ rfl]
    obtain ⟨n, ts, rfl⟩ := parseType_inv hp
    simp only [coreC] at hc
    rw [holdsC]
    exact matchType_agrees hd v _ _ hp (fo_imp hc)
  · -- $size
    rw [mOp_leaf sch d "$size" path v _ rfl]
    obtain ⟨n, rfl⟩ := parseSize_inv hp
    simp only [coreC, Bool.not_true, Bool.false_or, Bool.not_eq_true'] at hc
    rw [holdsC]
    exact matchSize_agrees hd v _ hp hc
  · -- $all
    split at hp
    · cases hp
      rename_i vs
      simp only [coreC, Bool.and_eq_true] at hc
      rw [mOp_leaf sch d "$all" path _ _ rfl, holdsC]
      exact matchAll_agrees hd vs (fo_imp hc.2)
    · simp at hp
  · -- $mod
    rw [mOp_leaf sch d "$mod" path v _ rfl]
    obtain ⟨a, b, rfl⟩ := parseMod_inv hp
    simp only [coreC] at hc
    rw [holdsC]
    refine matchMod_agrees hd v _ _ hp ?_
    rw [← hc]
    apply all_congr_mem
    intro l _
    cases l <;> rfl
  · rw [mOp_leaf sch d "$bitsAllSet" path v _ rfl]
    obtain ⟨ps, rfl⟩ := parseBits_inv hp
    rw [holdsC]; exact matchBits_agrees hd .allSet v _ hp
  · rw [mOp_leaf sch d "$bitsAllClear" path v _ rfl]
    obtain ⟨ps, rfl⟩ := parseBits_inv hp
    rw [holdsC]; exact matchBits_agrees hd .allClear v _ hp
  · rw [mOp_leaf sch d "$bitsAnySet" path v _ rfl]
    obtain ⟨ps, rfl⟩ := parseBits_inv hp
    rw [holdsC]; exact matchBits_agrees hd .anySet v _ hp
  · rw [mOp_leaf sch d "$bitsAnyClear" path v _ rfl]
    obtain ⟨ps, rfl⟩ := parseBits_inv hp
    rw [holdsC]; exact matchBits_agrees hd .anyClear v _ hp
  · simp at hp

/-! ### the virtual document `{item: x}` of `$elemMatch` -/

theorem candF_item (x : V) (p : Path) (f : Bool) :
    candF (.doc [("item", x)]) ("item" :: p) f = candF x p f := by
  simp [candF, List.lookup]

theorem cand_item (x : V) (p : Path) : cand (.doc [("item", x)]) ("item" :: p) = cand x p :=
  candF_item x p false

theorem fans_item (x : V) (p : Path) : fans (.doc [("item", x)]) ("item" :: p) = fans x p := by
  simp [fans, List.lookup]

theorem fans2_item (x : V) (p : Path) : fans2 (.doc [("item", x)]) ("item" :: p) = fans2 x p := by
  simp [fans2, List.lookup]

theorem leafsAt_congr {r1 r2 : V} {p1 p2 : Path} (h : cand r1 p1 = cand r2 p2) :
    leafsAt r1 p1 = leafsAt r2 p2 := by
  unfold leafsAt; rw [h]

mutual
/-- a condition only sees its root through the candidates of its path -/
theorem holdsC_congr {r1 r2 : V} {p1 p2 : Path} (h : cand r1 p1 = cand r2 p2) :
    ∀ c : Cond, holdsC r1 p1 c = holdsC r2 p2 c
  | .cmp _ _ => by simp only [holdsC, leafsAt_congr h]
  | .ne _ => by simp only [holdsC, leafsAt_congr h]
  | .in_ _ => by simp only [holdsC, leafsAt_congr h]
  | .nin _ => by simp only [holdsC, leafsAt_congr h]
  | .exists_ _ => by simp only [holdsC, h]
  | .type _ _ => by simp only [holdsC, leafsAt_congr h]
  | .size _ => by simp only [holdsC, h]
  | .all _ => by simp only [holdsC, leafsAt_congr h]
  | .mod _ _ => by simp only [holdsC, leafsAt_congr h]
  | .bits _ _ => by simp only [holdsC, leafsAt_congr h]
  | .not cs => by simp only [holdsC, holdsCs_congr h cs]
  | .elemOps _ => by simp only [holdsC, h]
  | .elemFields _ => by simp only [holdsC, h]
theorem holdsCs_congr {r1 r2 : V} {p1 p2 : Path} (h : cand r1 p1 = cand r2 p2) :
    ∀ cs : List Cond, holdsCs r1 p1 cs = holdsCs r2 p2 cs
  | [] => by simp only [holdsCs]
  | c :: cs => by simp only [holdsCs, holdsC_congr h c, holdsCs_congr h cs]
end

mutual
theorem coreC_congr {r1 r2 : V} {p1 p2 : Path} (h : cand r1 p1 = cand r2 p2)
    (h2 : fans2 r1 p1 = fans2 r2 p2) (ex fo : Bool) :
    ∀ c : Cond, coreC ex r1 p1 fo c = coreC ex r2 p2 fo c
  | .cmp _ _ => by simp only [coreC]
  | .ne _ => by simp only [coreC]
  | .in_ _ => by simp only [coreC]
  | .nin _ => by simp only [coreC]
  | .exists_ _ => by simp only [coreC, h]
  | .type _ _ => by simp only [coreC]
  | .size _ => by simp only [coreC, h2]
  | .all _ => by simp only [coreC, h]
  | .mod _ _ => by simp only [coreC, leafsAt_congr h]
  | .bits _ _ => by simp only [coreC]
  | .not cs => by simp only [coreC, coreCs_congr h h2 ex fo cs]
  | .elemOps _ => by simp only [coreC, h]
  | .elemFields _ => by simp only [coreC, h]
theorem coreCs_congr {r1 r2 : V} {p1 p2 : Path} (h : cand r1 p1 = cand r2 p2)
    (h2 : fans2 r1 p1 = fans2 r2 p2) (ex fo : Bool) :
    ∀ cs : List Cond, coreCs ex r1 p1 fo cs = coreCs ex r2 p2 fo cs
  | [] => by simp only [coreCs]
  | c :: cs => by simp only [coreCs, coreC_congr h h2 ex fo c, coreCs_congr h h2 ex fo cs]
end

/-- a parsed field-condition document has no operator keys -/
theorem parseFieldConds_allFields : ∀ {q : List (String × V)} {fcs : List FieldCond},
    parseFieldConds q = some fcs → (q.all fun kv => !isOpKey kv.1) = true
  | [], _, _ => rfl
  | (k, v) :: r, fcs, h => by
    rw [parseFieldConds] at h
    by_cases hop : isOpKey k = true
    · simp [hop] at h
    · have hop' : isOpKey k = false := by simpa using hop
      simp only [hop', Bool.false_eq_true, ↓reduceIte] at h
      cases hr : parseFieldConds r with
      | none => cases hv : parseFieldValue v <;> simp [hv, hr] at h
      | some fcs' => simp [hop', parseFieldConds_allFields hr]

/-- `elemLoop` over a truth-valued test is `List.any` -/
theorem elemLoop_toRes (f : V → Res Unit) (g : V → Bool) (xs : List V)
    (h : ∀ x ∈ xs, f x = toRes (g x)) : elemLoop f xs = toRes (xs.any g) := by
  induction xs with
  | nil => rfl
  | cons x r ih =>
    rw [elemLoop, h x (by simp), List.any_cons]
    cases hg : g x
    · simp only [toRes, Bool.false_eq_true, ↓reduceIte, Bool.false_or]
      exact ih fun y hy => h y (by simp [hy])
    · simp [toRes]

/-! ### the recursion over conditions -/

abbrev CondsDom (d : Doc) (path : String) (cs : List Cond) : Prop :=
  coreCs true (.doc d) (splitPath path) (fans (.doc d) (splitPath path)) cs = true

/-- the value of a field entry as lungo evaluates it (ProcessExpression, non-operator key) -/
def mField (sch : SchemaEval) (d : Doc) (path : String) (value : V) : Res Unit :=
  match value with
  | .doc ((k0, v0) :: exps) =>
    if isOpKey k0 then mOps sch d path ((k0, v0) :: exps) else matchComp d "" path value
  | _ => matchComp d "" path value

theorem mExpr_field (sch : SchemaEval) (d : Doc) (pfx key : String) (value : V) (root : Bool)
    (hk : isOpKey key = false) : mExpr sch d pfx key value root = mField sch d (joinKey pfx key) value := by
  unfold mExpr mField
  simp only [hk, Bool.false_eq_true, ↓reduceIte]
  rfl

theorem mExpr_op (sch : SchemaEval) (d : Doc) (pfx key : String) (value : V)
    (hk : isOpKey key = true) : mExpr sch d pfx key value false = mOp sch d key pfx value := by
  unfold mExpr
  simp [hk]

theorem mOp_not (sch : SchemaEval) (d : Doc) (path : String) (q : List (String × V)) (hq : q ≠ []) :
    mOp sch d "$not" path (.doc q) = negate (mProcess sch d q path false) := by
  unfold mOp
  have : q.isEmpty = false := by cases q <;> simp_all
  simp [leafOp, this, mNotLoop_negate]

theorem mOp_elemMatch (sch : SchemaEval) (d : Doc) (path : String) (q : List (String × V)) (hq : q ≠ []) :
    mOp sch d "$elemMatch" path (.doc q) =
      match (All d (splitPath path) true true).1 with
      | .arr array => elemLoop (fun item =>
          if (q.all fun kv => !isOpKey kv.1) && !item.isDoc then notMatched
          else mProcess sch [("item", item)] q "item" false) array
      | _ => notMatched := by
  unfold mOp
  have : q.isEmpty = false := by cases q <;> simp_all
  simp only [leafOp, this]
  simp
  rfl

theorem toRes_and (a b : Bool) (r : Res Unit) (hr : r = toRes b) :
    (match toRes a with
     | .error e => .error e
     | .ok _ => r) = toRes (a && b) := by
  cases a <;> simp [toRes, hr]

theorem segOK_item : segOK "item" = true := by decide

theorem nna_item (x : V) (h : noNestedArrays x = true) : noNestedArrays (.doc [("item", x)]) = true := by
  simp [noNestedArrays, nnaFields, h]

/-- the four statements proved together by induction on the size of the filter value -/
def StA (sch : SchemaEval) (op : String) (v : V) : Prop :=
  ∀ (d : Doc) (path : String) (c : Cond), parseCond op v = some c → PathDom d path → CondDom d path c →
    mOp sch d op path v = toRes (holdsC (.doc d) (splitPath path) c)
def StB (sch : SchemaEval) (ops : List (String × V)) : Prop :=
  ∀ (d : Doc) (path : String) (cs : List Cond), parseConds ops = some cs → PathDom d path → CondsDom d path cs →
    mOps sch d path ops = toRes (holdsCs (.doc d) (splitPath path) cs) ∧
    mProcess sch d ops path false = toRes (holdsCs (.doc d) (splitPath path) cs)
def StD (sch : SchemaEval) (v : V) : Prop :=
  ∀ (d : Doc) (path : String) (cs : List Cond), parseFieldValue v = some cs → PathDom d path → CondsDom d path cs →
    mField sch d path v = toRes (holdsCs (.doc d) (splitPath path) cs)
def StC (sch : SchemaEval) (q : List (String × V)) : Prop :=
  ∀ (x : V) (fcs : List FieldCond), parseFieldConds q = some fcs → noNestedArrays x = true →
    coreFCs true x fcs = true → fcs.all (fun fc => itemSplitOK fc.key) = true →
    mProcess sch [("item", x)] q "item" false = toRes (holdsFCs x fcs)

structure AgreeUpTo (sch : SchemaEval) (n : Nat) : Prop where
  a : ∀ op v, sizeOf v < n → StA sch op v
  b : ∀ ops, sizeOf ops < n → StB sch ops
  d : ∀ v, sizeOf v < n → StD sch v
  c : ∀ q, sizeOf q < n → StC sch q

theorem cond_step (sch : SchemaEval) (n : Nat) (ih : AgreeUpTo sch n) (op : String) (v : V)
    (hn : sizeOf v < n + 1) : StA sch op v := by
  intro d path c hp hd hc
  unfold parseCond at hp
  by_cases hnot : op = "$not"
  · subst hnot
    simp only [beq_self_eq_true, ↓reduceIte] at hp
    cases v with
    | doc q =>
      cases q with
      | nil => simp at hp
      | cons e es =>
        simp only [Option.map_eq_some_iff] at hp
        obtain ⟨cs, hcs, rfl⟩ := hp
        have hc' : CondsDom d path cs := by simpa [CondDom, coreC] using hc
        have ih := (ih.b (e :: es) (by simp at hn ⊢; omega) d path cs hcs hd hc').2
        rw [mOp_not sch d path (e :: es) (by simp), ih, negate_toRes, holdsC]
    | _ => simp at hp
  · have hnot' : (op == "$not") = false := by simpa using hnot
    by_cases hel : op = "$elemMatch"
    · subst hel
      simp only [hnot', Bool.false_eq_true, ↓reduceIte, beq_self_eq_true] at hp
      cases v with
      | doc q =>
        cases q with
        | nil => simp at hp
        | cons e es =>
          obtain ⟨k, w⟩ := e
          simp only at hp
          rw [mOp_elemMatch sch d path ((k, w) :: es) (by simp)]
          by_cases hop : isOpKey k = true
          · -- operator form
            simp only [hop, ↓reduceIte, Option.map_eq_some_iff] at hp
            obtain ⟨cs, hcs, rfl⟩ := hp
            simp only [CondDom, coreC, Bool.and_eq_true, Bool.not_eq_true'] at hc
            obtain ⟨⟨hfo, hsplit⟩, hall⟩ := hc
            have hitem : splitPath "item" = ["item"] := by
              simp only [itemSplitOK, Bool.and_eq_true, beq_iff_eq] at hsplit; exact hsplit.1
            obtain ⟨h1, h2⟩ := All_noFan d (splitPath path) true true hd.nna hd.segs hfo
            rw [h1, holdsC]
            cases hcand : cand (.doc d) (splitPath path) with
            | nil => simp [single, toRes, notMatched]
            | cons c0 cr =>
              have : cr = [] := by rw [hcand] at h2; simpa using h2
              subst this
              have hc0 : noNestedArrays c0.1 = true :=
                cand_nna _ _ false hd.nna c0 (by
                  rw [show candF (.doc d) (splitPath path) false = cand (.doc d) (splitPath path) from rfl, hcand]; simp)
              cases hc1 : c0.1 with
              | arr a =>
                simp only [single, hc1, List.any_cons, List.any_nil, Bool.or_false, elemsOf]
                rw [hc1, noNestedArrays] at hc0
                apply elemLoop_toRes
                intro x hx
                simp only [List.all_cons, hop, Bool.not_true, Bool.false_and, Bool.false_eq_true, ↓reduceIte]
                have hxn := (nna_elem hc0 hx).2
                have hxd : PathDom [("item", x)] "item" :=
                  ⟨nna_item x hxn, by rw [hitem]; simp [segsOK, segOK_item]⟩
                have hxc : CondsDom [("item", x)] "item" cs := by
                  have hx' : coreCs true x [] false cs = true := by
                    rw [hcand] at hall
                    simp only [List.flatMap_cons, List.flatMap_nil, List.append_nil, hc1, elemsOf] at hall
                    exact List.all_eq_true.mp hall x hx
                  unfold CondsDom
                  rw [hitem, fans_item, coreCs_congr (cand_item x []) (fans2_item x [])]
                  simpa [fans] using hx'
                rw [(ih.b ((k, w) :: es) (by simp at hn ⊢; omega) [("item", x)] "item" cs hcs hxd hxc).2, hitem,
                  holdsCs_congr (cand_item x [])]
              | _ => simp [single, hc1, elemsOf, toRes, notMatched]
          · -- field form
            have hop' : isOpKey k = false := by simpa using hop
            simp only [hop', Bool.false_eq_true, ↓reduceIte, Option.map_eq_some_iff] at hp
            obtain ⟨fcs, hfcs, rfl⟩ := hp
            simp only [CondDom, coreC, Bool.and_eq_true, Bool.not_eq_true'] at hc
            obtain ⟨⟨hfo, hsplit⟩, hall⟩ := hc
            obtain ⟨h1, h2⟩ := All_noFan d (splitPath path) true true hd.nna hd.segs hfo
            rw [h1, holdsC]
            cases hcand : cand (.doc d) (splitPath path) with
            | nil => simp [single, toRes, notMatched]
            | cons c0 cr =>
              have : cr = [] := by rw [hcand] at h2; simpa using h2
              subst this
              have hc0 : noNestedArrays c0.1 = true :=
                cand_nna _ _ false hd.nna c0 (by
                  rw [show candF (.doc d) (splitPath path) false = cand (.doc d) (splitPath path) from rfl, hcand]; simp)
              cases hc1 : c0.1 with
              | arr a =>
                simp only [single, hc1, List.any_cons, List.any_nil, Bool.or_false, elemsOf]
                rw [hc1, noNestedArrays] at hc0
                apply elemLoop_toRes
                intro x hx
                have hxn := (nna_elem hc0 hx).2
                have hx' : coreFCs true x fcs = true := by
                  rw [hcand] at hall
                  simp only [List.flatMap_cons, List.flatMap_nil, List.append_nil, hc1, elemsOf] at hall
                  simpa using List.all_eq_true.mp hall x hx
                rw [parseFieldConds_allFields hfcs]
                by_cases hxdoc : x.isDoc = true
                · simp only [hxdoc, Bool.not_true, Bool.and_false, Bool.false_eq_true, ↓reduceIte, Bool.true_and]
                  exact ih.c ((k, w) :: es) (by simp at hn ⊢; omega) x fcs hfcs hxn hx' hsplit
                · have hxdoc' : x.isDoc = false := by simpa using hxdoc
                  simp [hxdoc', toRes, notMatched]
              | _ => simp [single, hc1, elemsOf, toRes, notMatched]
      | _ => simp at hp
    · have hel' : (op == "$elemMatch") = false := by simpa using hel
      simp only [hnot', hel', Bool.false_eq_true, ↓reduceIte] at hp
      exact leaf_agrees sch hd op v c hp hc

theorem conds_step (sch : SchemaEval) (n : Nat) (ih : AgreeUpTo sch n) (ops : List (String × V))
    (hn : sizeOf ops < n + 1) : StB sch ops := by
  intro d path cs hp hd hc
  cases ops with
  | nil =>
    simp only [parseConds, Option.some.injEq] at hp
    subst hp
    rw [mOps, mProcess, holdsCs]
    exact ⟨rfl, rfl⟩
  | cons kv r =>
    obtain ⟨k, v⟩ := kv
    rw [parseConds] at hp
    by_cases hop : isOpKey k = true
    · simp only [hop, Bool.not_true, Bool.false_eq_true, ↓reduceIte] at hp
      cases hpc : parseCond k v with
      | none => simp [hpc] at hp
      | some c =>
        cases hpr : parseConds r with
        | none => simp [hpc, hpr] at hp
        | some cs' =>
          simp only [hpc, hpr, Option.some.injEq] at hp
          subst hp
          simp only [CondsDom, coreCs, Bool.and_eq_true] at hc
          have ihc := ih.a k v (by simp at hn ⊢; omega) d path c hpc hd hc.1
          have ihr := ih.b r (by simp at hn ⊢; omega) d path cs' hpr hd hc.2
          rw [mOps, mProcess, mExpr_op sch d path k v hop, ihc, holdsCs]
          simp only [hop, Bool.not_true, Bool.false_eq_true, ↓reduceIte]
          exact ⟨toRes_and _ _ _ ihr.1, toRes_and _ _ _ ihr.2⟩
    · simp [hop] at hp

theorem fieldValue_step (sch : SchemaEval) (n : Nat) (ih : AgreeUpTo sch n) (v : V)
    (hn : sizeOf v < n + 1) : StD sch v := by
  intro d path cs hp hd hc
  have lit : parseFieldValue v = some [.cmp .eq v] → mField sch d path v = matchComp d "" path v →
      mField sch d path v = toRes (holdsCs (.doc d) (splitPath path) cs) := by
    intro h1 h2
    rw [hp] at h1
    cases h1
    simp only [CondsDom, coreCs, coreC, Bool.and_eq_true, Bool.and_true] at hc
    rw [h2, holdsCs, holdsCs, holdsC, Bool.and_true]
    exact matchLit_agrees hd v (fo_imp hc.2)
  cases v with
  | doc q =>
    cases q with
    | nil => exact lit rfl rfl
    | cons e es =>
      obtain ⟨k, w⟩ := e
      by_cases hop : isOpKey k = true
      · simp only [parseFieldValue, hop, ↓reduceIte] at hp
        simp only [mField, hop, ↓reduceIte]
        exact (ih.b ((k, w) :: es) (by simp at hn ⊢; omega) d path cs hp hd hc).1
      · have hop' : isOpKey k = false := by simpa using hop
        exact lit (by simp [parseFieldValue, hop']) (by simp [mField, hop'])
  | _ => exact lit rfl rfl

theorem fieldConds_step (sch : SchemaEval) (n : Nat) (ih : AgreeUpTo sch n) (q : List (String × V))
    (hn : sizeOf q < n + 1) : StC sch q := by
  intro x fcs hp hx hc hs
  cases q with
  | nil =>
    simp only [parseFieldConds, Option.some.injEq] at hp
    subst hp
    rw [mProcess, holdsFCs]; rfl
  | cons kv r =>
    obtain ⟨k, v⟩ := kv
    rw [parseFieldConds] at hp
    by_cases hop : isOpKey k = true
    · simp [hop] at hp
    · have hop' : isOpKey k = false := by simpa using hop
      simp only [hop', Bool.false_eq_true, ↓reduceIte] at hp
      cases hpv : parseFieldValue v with
      | none => simp [hpv] at hp
      | some cs =>
        cases hpr : parseFieldConds r with
        | none => simp [hpv, hpr] at hp
        | some fcs' =>
          simp only [hpv, hpr, Option.some.injEq] at hp
          subst hp
          simp only [coreFCs, coreFC, Bool.and_eq_true] at hc
          simp only [List.all_cons, FieldCond.key, Bool.and_eq_true] at hs
          obtain ⟨⟨hpath, hcs⟩, hcr⟩ := hc
          have hsplit : splitPath ("item" ++ "." ++ k) = "item" :: splitPath k := by
            have := hs.1
            simp only [itemSplitOK, Bool.and_eq_true, beq_iff_eq] at this
            exact this.2
          have hjoin : joinKey "item" k = "item" ++ "." ++ k := by simp [joinKey]
          have hd' : PathDom [("item", x)] ("item" ++ "." ++ k) := by
            refine ⟨nna_item x hx, ?_⟩
            rw [hsplit]
            simp only [pathOK, Bool.and_eq_true] at hpath
            simp only [segsOK, List.all_cons, segOK_item, Bool.true_and]
            exact hpath.2
          have hc' : CondsDom [("item", x)] ("item" ++ "." ++ k) cs := by
            unfold CondsDom
            rw [hsplit, fans_item, coreCs_congr (cand_item x _) (fans2_item x _)]
            exact hcs
          have ihv := ih.d v (by simp at hn ⊢; omega) [("item", x)] ("item" ++ "." ++ k) cs hpv hd' hc'
          have ihr := ih.c r (by simp at hn ⊢; omega) x fcs' hpr hx hcr hs.2
          rw [mProcess, mExpr_field sch _ "item" k v false hop', hjoin, ihv, hsplit,
            holdsCs_congr (cand_item x _), holdsFCs, holdsFC]
          exact toRes_and _ _ _ ihr

theorem agree_upTo (sch : SchemaEval) : ∀ n, AgreeUpTo sch n := by
  intro n
  induction n with
  | zero => exact ⟨fun _ _ h => absurd h (Nat.not_lt_zero _), fun _ h => absurd h (Nat.not_lt_zero _),
      fun _ h => absurd h (Nat.not_lt_zero _), fun _ h => absurd h (Nat.not_lt_zero _)⟩
  | succ n ih =>
    exact ⟨fun op v h => cond_step sch n ih op v h, fun ops h => conds_step sch n ih ops h,
      fun v h => fieldValue_step sch n ih v h, fun q h => fieldConds_step sch n ih q h⟩

/-- one expression operator -/
theorem cond_agrees (sch : SchemaEval) (op : String) (v : V) : StA sch op v :=
  (agree_upTo sch (sizeOf v + 1)).a op v (Nat.lt_succ_self _)

/-- an operator document -/
theorem conds_agree (sch : SchemaEval) (ops : List (String × V)) : StB sch ops :=
  (agree_upTo sch (sizeOf ops + 1)).b ops (Nat.lt_succ_self _)

/-- the value of a field entry (operator document or literal) -/
theorem fieldValue_agrees (sch : SchemaEval) (v : V) : StD sch v :=
  (agree_upTo sch (sizeOf v + 1)).d v (Nat.lt_succ_self _)


/-! ### entries, filters, $and/$or/$nor -/

/-- a reference verdict as a matcher result -/
def resU : Res Bool → Res Unit
  | .ok true => .ok ()
  | .ok false => .error .notMatched
  | .error e => .error e

theorem resU_ok (b : Bool) : resU (.ok b) = toRes b := by cases b <;> rfl

theorem resU_schema (sch : SchemaEval) (s d : Doc) : resU (schemaHolds sch s d) = sch s d := by
  unfold schemaHolds
  cases h : sch s d with
  | ok u => cases u; rfl
  | error e => cases e <;> rfl

theorem schema_ne_nm (sch : SchemaEval) (s d : Doc) : schemaHolds sch s d ≠ .error .notMatched := by
  unfold schemaHolds
  cases h : sch s d with
  | ok u => simp
  | error e => cases e <;> simp

theorem negate_resU (r : Res Bool) (h : r ≠ .error .notMatched) : negate (resU r) = resU (r.map (!·)) := by
  cases r with
  | ok b => cases b <;> rfl
  | error e => cases e <;> first | rfl | exact absurd rfl h

def StE (sch : SchemaEval) (k : String) (v : V) : Prop :=
  ∀ (d : Doc) (e : Entry), parseEntry k v = some e → noNestedArrays (.doc d) = true → coreE true d e = true →
    mExpr sch d "" k v true = resU (holdsE sch d e) ∧ holdsE sch d e ≠ .error .notMatched
def StEs (sch : SchemaEval) (q : List (String × V)) : Prop :=
  ∀ (d : Doc) (es : List Entry), parseEntries q = some es → noNestedArrays (.doc d) = true → coreEs true d es = true →
    mProcess sch d q "" true = resU (holdsEs sch d es) ∧ holdsEs sch d es ≠ .error .notMatched
def StFs (sch : SchemaEval) (items : List V) : Prop :=
  ∀ (d : Doc) (fs : List Filter), parseFilters items = some fs → noNestedArrays (.doc d) = true → coreFs true d fs = true →
    (mAndLoop sch d items = resU (allF sch d fs) ∧ allF sch d fs ≠ .error .notMatched) ∧
    (mOrLoop sch d items = resU (anyF sch d fs) ∧ anyF sch d fs ≠ .error .notMatched)

structure TopUpTo (sch : SchemaEval) (n : Nat) : Prop where
  e : ∀ k v, sizeOf v < n → StE sch k v
  es : ∀ q, sizeOf q < n → StEs sch q
  fs : ∀ items, sizeOf items < n → StFs sch items

theorem entry_step (sch : SchemaEval) (n : Nat) (ih : TopUpTo sch n) (k : String) (v : V)
    (hn : sizeOf v < n + 1) : StE sch k v := by
  intro d e hp hd hc
  unfold parseEntry at hp
  by_cases hop : isOpKey k = true
  · simp only [hop, ↓reduceIte] at hp
    by_cases hand : k = "$and"
    · subst hand
      simp only [beq_self_eq_true, ↓reduceIte] at hp
      cases v with
      | arr xs =>
        cases xs with
        | nil => simp at hp
        | cons x r =>
          simp only [Option.map_eq_some_iff] at hp
          obtain ⟨fs, hfs, rfl⟩ := hp
          have := (ih.fs (x :: r) (by simp at hn ⊢; omega) d fs hfs hd (by simpa [coreE] using hc)).1
          unfold mExpr
          simp only [holdsE]
          refine ⟨?_, this.2⟩
          simpa [isOpKey] using this.1
      | _ => simp at hp
    · have hand' : (k == "$and") = false := by simpa using hand
      by_cases hor : k = "$or"
      · subst hor
        simp only [hand', Bool.false_eq_true, ↓reduceIte, beq_self_eq_true] at hp
        cases v with
        | arr xs =>
          cases xs with
          | nil => simp at hp
          | cons x r =>
            simp only [Option.map_eq_some_iff] at hp
            obtain ⟨fs, hfs, rfl⟩ := hp
            have := (ih.fs (x :: r) (by simp at hn ⊢; omega) d fs hfs hd (by simpa [coreE] using hc)).2
            unfold mExpr
            simp only [holdsE]
            refine ⟨?_, this.2⟩
            simpa [isOpKey] using this.1
        | _ => simp at hp
      · have hor' : (k == "$or") = false := by simpa using hor
        by_cases hnor : k = "$nor"
        · subst hnor
          simp only [hand', hor', Bool.false_eq_true, ↓reduceIte, beq_self_eq_true] at hp
          cases v with
          | arr xs =>
            cases xs with
            | nil => simp at hp
            | cons x r =>
              simp only [Option.map_eq_some_iff] at hp
              obtain ⟨fs, hfs, rfl⟩ := hp
              have := (ih.fs (x :: r) (by simp at hn ⊢; omega) d fs hfs hd (by simpa [coreE] using hc)).2
              unfold mExpr
              simp only [holdsE]
              constructor
              · rw [← negate_resU _ this.2, ← this.1]
                simp [isOpKey]
              · cases h : anyF sch d fs with
                | ok b => simp [Except.map]
                | error e =>
                  simp only [Except.map]
                  intro he
                  exact this.2 (by rw [h]; exact he)
          | _ => simp at hp
        · have hnor' : (k == "$nor") = false := by simpa using hnor
          by_cases hjs : k = "$jsonSchema"
          · subst hjs
            simp only [hand', hor', hnor', Bool.false_eq_true, ↓reduceIte, beq_self_eq_true] at hp
            cases v with
            | doc s =>
              simp only [Option.some.injEq] at hp
              subst hp
              unfold mExpr
              simp only [holdsE]
              refine ⟨?_, schema_ne_nm sch s d⟩
              rw [resU_schema]
              simp [isOpKey]
            | _ => simp at hp
          · have hjs' : (k == "$jsonSchema") = false := by simpa using hjs
            simp [hand', hor', hnor', hjs'] at hp
  · have hop' : isOpKey k = false := by simpa using hop
    simp only [hop', Bool.false_eq_true, ↓reduceIte, Option.map_eq_some_iff] at hp
    obtain ⟨cs, hcs, rfl⟩ := hp
    simp only [coreE, coreFC, Bool.and_eq_true] at hc
    have hjoin : joinKey "" k = k := by simp [joinKey]
    have hpd : PathDom d k := by
      refine ⟨hd, ?_⟩
      have := hc.1
      simp only [pathOK, Bool.and_eq_true] at this
      exact this.2
    rw [mExpr_field sch d "" k v true hop', hjoin, fieldValue_agrees sch v d k cs hcs hpd hc.2]
    simp only [holdsE, holdsFC, resU_ok]
    exact ⟨by first | rfl | trivial, by simp⟩

theorem entries_step (sch : SchemaEval) (n : Nat) (ih : TopUpTo sch n) (q : List (String × V))
    (hn : sizeOf q < n + 1) : StEs sch q := by
  intro d es hp hd hc
  cases q with
  | nil =>
    simp only [parseEntries, Option.some.injEq] at hp
    subst hp
    rw [mProcess, holdsEs]
    exact ⟨by first | rfl | trivial, by simp⟩
  | cons kv r =>
    obtain ⟨k, v⟩ := kv
    rw [parseEntries] at hp
    cases hpe : parseEntry k v with
    | none => simp [hpe] at hp
    | some e =>
      cases hpr : parseEntries r with
      | none => simp [hpe, hpr] at hp
      | some es' =>
        simp only [hpe, hpr, Option.some.injEq] at hp
        subst hp
        simp only [coreEs, Bool.and_eq_true] at hc
        obtain ⟨h1, h1n⟩ := ih.e k v (by simp at hn ⊢; omega) d e hpe hd hc.1
        obtain ⟨h2, h2n⟩ := ih.es r (by simp at hn ⊢; omega) d es' hpr hd hc.2
        rw [mProcess, h1, holdsEs]
        cases he : holdsE sch d e with
        | ok b =>
          cases b
          · simp [resU]
          · simp only [resU]; exact ⟨h2, h2n⟩
        | error err =>
          simp only [resU]
          exact ⟨by first | rfl | trivial, by rw [← he]; exact h1n⟩

theorem filters_step (sch : SchemaEval) (n : Nat) (ih : TopUpTo sch n) (items : List V)
    (hn : sizeOf items < n + 1) : StFs sch items := by
  intro d fs hp hd hc
  cases items with
  | nil =>
    simp only [parseFilters, Option.some.injEq] at hp
    subst hp
    rw [mAndLoop, mOrLoop, allF, anyF]
    exact ⟨⟨rfl, by simp⟩, ⟨rfl, by simp⟩⟩
  | cons x r =>
    cases x with
    | doc q =>
      rw [parseFilters] at hp
      cases hpq : parseEntries q with
      | none => simp [hpq] at hp
      | some es =>
        cases hpr : parseFilters r with
        | none => simp [hpq, hpr] at hp
        | some fs' =>
          simp only [hpq, hpr, Option.some.injEq] at hp
          subst hp
          simp only [coreFs, coreF, Bool.and_eq_true] at hc
          obtain ⟨h1, h1n⟩ := ih.es q (by simp at hn ⊢; omega) d es hpq hd hc.1
          obtain ⟨⟨ha, han⟩, ⟨ho, hon⟩⟩ := ih.fs r (by simp at hn ⊢; omega) d fs' hpr hd hc.2
          rw [mAndLoop, mOrLoop, h1, allF, anyF, holdsF]
          cases he : holdsEs sch d es with
          | ok b =>
            cases b
            · simp only [resU]
              exact ⟨⟨by first | rfl | trivial, by simp⟩, ⟨ho, hon⟩⟩
            · simp only [resU]
              exact ⟨⟨ha, han⟩, ⟨by first | rfl | trivial, by simp⟩⟩
          | error err =>
            have hne : err ≠ .notMatched := by
              intro h; subst h; exact h1n he
            simp only [resU]
            refine ⟨⟨by first | rfl | trivial, by rw [← he]; exact h1n⟩, ⟨?_, by rw [← he]; exact h1n⟩⟩
            cases err <;> first | rfl | trivial | exact absurd rfl hne
    | _ => simp [parseFilters] at hp

theorem top_upTo (sch : SchemaEval) : ∀ n, TopUpTo sch n := by
  intro n
  induction n with
  | zero => exact ⟨fun _ _ h => absurd h (Nat.not_lt_zero _), fun _ h => absurd h (Nat.not_lt_zero _),
      fun _ h => absurd h (Nat.not_lt_zero _)⟩
  | succ n ih =>
    exact ⟨fun k v h => entry_step sch n ih k v h, fun q h => entries_step sch n ih q h,
      fun items h => filters_step sch n ih items h⟩

theorem entries_agree (sch : SchemaEval) (q : List (String × V)) : StEs sch q :=
  (top_upTo sch (sizeOf q + 1)).es q (Nat.lt_succ_self _)

theorem entry_agrees (sch : SchemaEval) (k : String) (v : V) : StE sch k v :=
  (top_upTo sch (sizeOf v + 1)).e k v (Nat.lt_succ_self _)

theorem filters_agree (sch : SchemaEval) (items : List V) : StFs sch items :=
  (top_upTo sch (sizeOf items + 1)).fs items (Nat.lt_succ_self _)

end Lungo
