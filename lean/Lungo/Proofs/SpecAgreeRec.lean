/-
  Lungo.Proofs.SpecAgreeRec — the recursive combination: leaf operators, $not, $elemMatch, field
  entries, $and/$or/$nor, whole filters.
-/
import Lungo.Proofs.SpecAgree
namespace Lungo
open Lungo.Spec

/-- the domain hypothesis of one condition `c` on `path` of `d` (proved domain: `ex = true`) -/
abbrev CondDom (d : Doc) (path : String) (c : Cond) : Prop :=
  coreC true (.doc d) (splitPath path) (fans (.doc d) (splitPath path)) c = true

theorem parseType_inv {v : V} {c : Cond} (h : parseType v = some c) : ∃ n ts, c = .type n ts := by
  unfold parseType at h
  dsimp only at h
  split at h
  · simp at h
  · split at h
    · exact ⟨_, _, (Option.some.inj h).symm⟩
    · simp at h
theorem parseSize_inv {v : V} {c : Cond} (h : parseSize v = some c) : ∃ n, c = .size n := by
  unfold parseSize at h
  split at h
  · split at h
    · simp at h
    · exact ⟨_, (Option.some.inj h).symm⟩
  · simp at h
theorem parseMod_inv {v : V} {c : Cond} (h : parseMod v = some c) : ∃ a b, c = .mod a b := by
  unfold parseMod at h
  split at h
  · split at h
    · split at h
      · simp at h
      · exact ⟨_, _, (Option.some.inj h).symm⟩
    · simp at h
  · simp at h
theorem parseBits_inv {o : BitsOp} {v : V} {c : Cond} (h : parseBits o v = some c) : ∃ ps, c = .bits o ps := by
  unfold parseBits at h
  split at h
  · exact ⟨_, (Option.some.inj h).symm⟩
  · simp at h

theorem fo_imp {fo b : Bool} (h : (!fo || b) = true) : fo = true → b = true := by
  cases fo <;> simp_all

/-- every operator without sub-expressions -/
theorem leaf_agrees (sch : SchemaEval) {d : Doc} {path : String} (hd : PathDom d path) (op : String) (v : V) (c : Cond)
    (hp : parseLeaf op v = some c) (hc : CondDom d path c) :
    mOp sch d op path v = toRes (holdsC (.doc d) (splitPath path) c) := by
  unfold parseLeaf at hp
  unfold CondDom at hc
  split at hp
  · -- $eq
    cases hp
    simp only [coreC, Bool.and_eq_true] at hc
    rw [mOp_leaf sch d "$eq" path v _ rfl, holdsC]
    exact matchComp_agrees hd .eq v (fo_imp hc.2)
  · cases hp
    simp only [coreC, Bool.and_eq_true] at hc
    rw [mOp_leaf sch d "$gt" path v _ rfl, holdsC]
    exact matchComp_agrees hd .gt v (fo_imp hc.2)
  · cases hp
    simp only [coreC, Bool.and_eq_true] at hc
    rw [mOp_leaf sch d "$gte" path v _ rfl, holdsC]
    exact matchComp_agrees hd .gte v (fo_imp hc.2)
  · cases hp
    simp only [coreC, Bool.and_eq_true] at hc
    rw [mOp_leaf sch d "$lt" path v _ rfl, holdsC]
    exact matchComp_agrees hd .lt v (fo_imp hc.2)
  · cases hp
    simp only [coreC, Bool.and_eq_true] at hc
    rw [mOp_leaf sch d "$lte" path v _ rfl, holdsC]
    exact matchComp_agrees hd .lte v (fo_imp hc.2)
  · -- $ne
    cases hp
    simp only [coreC, Bool.and_eq_true] at hc
    rw [mOp_leaf sch d "$ne" path v _ rfl, holdsC, ← negate_toRes]
    exact congrArg negate (matchComp_agrees hd .eq v (fo_imp hc.2))
  · -- $in
    split at hp
    · cases hp
      simp only [coreC, Bool.and_eq_true] at hc
      rw [mOp_leaf sch d "$in" path _ _ rfl, holdsC]
      exact matchIn_agrees hd _ (fo_imp hc.2)
    · simp at hp
  · -- $nin
    split at hp
    · cases hp
      simp only [coreC, Bool.and_eq_true] at hc
      rw [mOp_leaf sch d "$nin" path _ _ rfl, holdsC, ← negate_toRes]
      exact congrArg negate (matchIn_agrees hd _ (fo_imp hc.2))
    · simp at hp
  · -- $exists
    cases hp
    simp only [coreC, Bool.not_true, Bool.false_or, Bool.and_eq_true, Bool.not_eq_true'] at hc
    rw [mOp_leaf sch d "$exists" path v _ rfl, holdsC]
    exact matchExists_agrees hd v hc.1 (fo_imp hc.2)
  · -- $type
    rw [mOp_leaf sch d "$type" path v _ rfl]
    obtain ⟨n, ts, rfl⟩ := parseType_inv hp
    simp only [coreC, Bool.not_true, Bool.false_or, Bool.and_eq_true, Bool.not_eq_true'] at hc
    rw [holdsC]
    exact matchType_agrees hd v _ _ hp hc.2 (fo_imp hc.1)
  · -- $size
    rw [mOp_leaf sch d "$size" path v _ rfl]
    obtain ⟨n, rfl⟩ := parseSize_inv hp
    simp only [coreC, Bool.not_true, Bool.false_or, Bool.not_eq_true'] at hc
    rw [holdsC]
    exact matchSize_agrees hd v _ hp hc
  · -- $all
    split at hp
    · cases hp
      rename_i vs
      simp only [coreC, Bool.not_true, Bool.false_or, Bool.and_eq_true] at hc
      rw [mOp_leaf sch d "$all" path _ _ rfl, holdsC]
      refine matchAll_agrees hd vs ?_ ?_
      · intro hf; simpa [hf] using hc.2
      · intro hf
        refine ⟨fo_imp hc.1.2 hf, ?_⟩
        simpa [hf] using hc.2
    · simp at hp
  · -- $mod
    rw [mOp_leaf sch d "$mod" path v _ rfl]
    obtain ⟨a, b, rfl⟩ := parseMod_inv hp
    simp only [coreC] at hc
    rw [holdsC]
    refine matchMod_agrees hd v _ _ hp ?_
    rw [← hc]
    apply all_congr_mem
    intro l _
    cases l <;> rfl
  · rw [mOp_leaf sch d "$bitsAllSet" path v _ rfl]
    obtain ⟨ps, rfl⟩ := parseBits_inv hp
    rw [holdsC]; exact matchBits_agrees hd .allSet v _ hp
  · rw [mOp_leaf sch d "$bitsAllClear" path v _ rfl]
    obtain ⟨ps, rfl⟩ := parseBits_inv hp
    rw [holdsC]; exact matchBits_agrees hd .allClear v _ hp
  · rw [mOp_leaf sch d "$bitsAnySet" path v _ rfl]
    obtain ⟨ps, rfl⟩ := parseBits_inv hp
    rw [holdsC]; exact matchBits_agrees hd .anySet v _ hp
  · rw [mOp_leaf sch d "$bitsAnyClear" path v _ rfl]
    obtain ⟨ps, rfl⟩ := parseBits_inv hp
    rw [holdsC]; exact matchBits_agrees hd .anyClear v _ hp
  · simp at hp

end Lungo
