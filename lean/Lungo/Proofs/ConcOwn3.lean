/-
  Lungo.Proofs.ConcOwn3 — the ownership invariant (Oinv), per sub-machine (generated mechanically).
-/
import Lungo.Proofs.ConcOwnDefs
namespace Lungo.Conc

set_option maxHeartbeats 1000000 in
theorem oinv_idle {s s' : State} {a : ActorId} {c : Choice} (inv1 : Inv1 s) (lw : Lwf s) (bnd : Bnd s) (sv : Sinv s) (g : Oinv s)
    (hpc : (s.loc a).pc = .idle) (hs : stepIdle s a (s.loc a) c = some s') : Oinv s' := by
  obtain ⟨gA, gB, gC⟩ := g
  obtain ⟨b1, b2, b3, b4⟩ := bnd
  obtain ⟨s1, s2, s3⟩ := sv
  have w := inv1.beginWf a
  have i2a := inv1.holder_iff a
  have i3 := inv1.conserv
  have m5 := inv1.smutex_iff
  have lwa := lw a
  have b2a := b2 a
  have b3a := b3 a
  have gBa := gB a
  have gCa := gC a
  have s1a := s1 (s.loc a).sid
  have s2a := s2 a (s.loc a).sid
  have s3a := s3 (s.loc a).sid
  clear inv1 lw s1 s2 s3 b3 b4
  simp only [BeginWf, SHold, StartFlow, THold, LWf, Owned, OwnsL] at *
  unfold stepIdle at hs
  conc_split hs
  all_goals (
    refine ⟨?_, fun b => ?_, fun b => ?_⟩
    · clear gB gC m5 b2
      cases hown : s.eng.own with
      | actor o =>
        try simp only [hown] at gA
        by_cases hoa : o = a
        · subst hoa
          (try goal_simp); grind
        · have hao : ¬ a = o := fun h => hoa h.symm
          try goal_simp
          try simp only [hown, if_neg hoa, if_neg hao]
          grind
      | sess so =>
        try simp only [hown] at gA
        try goal_simp
        grind
    · have hgBb := gB b; have := m5 b (s.loc b).sid; have := m5 a (s.loc b).sid
      clear gA gB gC m5 b2
      by_cases hba : b = a
      · subst hba; (try goal_simp); grind
      · have hab : ¬ a = b := fun h => hba h.symm
        try simp only [State.put, State.putS, State.finish, State.write, upd_apply, if_neg hba, if_neg hab]
        first
        | exact hgBb
        | ((try goal_simp); grind)
    · have hgCb := gC b; have := b2 b
      clear gA gB gC m5 b2
      by_cases hba : b = a
      · subst hba; (try goal_simp); grind
      · have hab : ¬ a = b := fun h => hba h.symm
        try simp only [State.put, State.putS, State.finish, State.write, upd_apply, if_neg hba, if_neg hab]
        first
        | exact hgCb
        | ((try goal_simp); grind))

set_option maxHeartbeats 1000000 in
theorem oinv_begin {s s' : State} {a : ActorId} {c : Choice} (inv1 : Inv1 s) (lw : Lwf s) (bnd : Bnd s) (sv : Sinv s) (g : Oinv s)
    (hs : stepBegin s a (s.loc a) c = some s') : Oinv s' := by
  obtain ⟨gA, gB, gC⟩ := g
  obtain ⟨b1, b2, b3, b4⟩ := bnd
  obtain ⟨s1, s2, s3⟩ := sv
  have w := inv1.beginWf a
  have i2a := inv1.holder_iff a
  have i3 := inv1.conserv
  have m5 := inv1.smutex_iff
  have lwa := lw a
  have b2a := b2 a
  have b3a := b3 a
  have gBa := gB a
  have gCa := gC a
  have s1a := s1 (s.loc a).sid
  have s2a := s2 a (s.loc a).sid
  have s3a := s3 (s.loc a).sid
  clear inv1 lw s1 s2 s3 b3 b4
  simp only [BeginWf, SHold, StartFlow, THold, LWf, Owned, OwnsL] at *
  unfold stepBegin at hs
  conc_split hs
  all_goals (
    refine ⟨?_, fun b => ?_, fun b => ?_⟩
    · clear gB gC m5 b2
      cases hown : s.eng.own with
      | actor o =>
        try simp only [hown] at gA
        by_cases hoa : o = a
        · subst hoa
          (try goal_simp); grind
        · have hao : ¬ a = o := fun h => hoa h.symm
          try goal_simp
          try simp only [hown, if_neg hoa, if_neg hao]
          grind
      | sess so =>
        try simp only [hown] at gA
        try goal_simp
        grind
    · have hgBb := gB b; have := m5 b (s.loc b).sid; have := m5 a (s.loc b).sid
      clear gA gB gC m5 b2
      by_cases hba : b = a
      · subst hba; (try goal_simp); grind
      · have hab : ¬ a = b := fun h => hba h.symm
        try simp only [State.put, State.putS, State.finish, State.write, upd_apply, if_neg hba, if_neg hab]
        first
        | exact hgBb
        | ((try goal_simp); grind)
    · have hgCb := gC b; have := b2 b
      clear gA gB gC m5 b2
      by_cases hba : b = a
      · subst hba; (try goal_simp); grind
      · have hab : ¬ a = b := fun h => hba h.symm
        try simp only [State.put, State.putS, State.finish, State.write, upd_apply, if_neg hba, if_neg hab]
        first
        | exact hgCb
        | ((try goal_simp); grind))

set_option maxHeartbeats 1000000 in
theorem oinv_commit {s s' : State} {a : ActorId} {c : Choice} (inv1 : Inv1 s) (lw : Lwf s) (bnd : Bnd s) (sv : Sinv s) (g : Oinv s)
    (hs : stepCommit s a (s.loc a) c = some s') : Oinv s' := by
  obtain ⟨gA, gB, gC⟩ := g
  obtain ⟨b1, b2, b3, b4⟩ := bnd
  obtain ⟨s1, s2, s3⟩ := sv
  have w := inv1.beginWf a
  have i2a := inv1.holder_iff a
  have i3 := inv1.conserv
  have m5 := inv1.smutex_iff
  have lwa := lw a
  have b2a := b2 a
  have b3a := b3 a
  have gBa := gB a
  have gCa := gC a
  have s1a := s1 (s.loc a).sid
  have s2a := s2 a (s.loc a).sid
  have s3a := s3 (s.loc a).sid
  clear inv1 lw s1 s2 s3 b3 b4
  simp only [BeginWf, SHold, StartFlow, THold, LWf, Owned, OwnsL] at *
  unfold stepCommit at hs
  conc_split hs
  all_goals (
    refine ⟨?_, fun b => ?_, fun b => ?_⟩
    · clear gB gC m5 b2
      cases hown : s.eng.own with
      | actor o =>
        try simp only [hown] at gA
        by_cases hoa : o = a
        · subst hoa
          (try goal_simp); grind
        · have hao : ¬ a = o := fun h => hoa h.symm
          try goal_simp
          try simp only [hown, if_neg hoa, if_neg hao]
          grind
      | sess so =>
        try simp only [hown] at gA
        try goal_simp
        grind
    · have hgBb := gB b; have := m5 b (s.loc b).sid; have := m5 a (s.loc b).sid
      clear gA gB gC m5 b2
      by_cases hba : b = a
      · subst hba; (try goal_simp); grind
      · have hab : ¬ a = b := fun h => hba h.symm
        try simp only [State.put, State.putS, State.finish, State.write, upd_apply, if_neg hba, if_neg hab]
        first
        | exact hgBb
        | ((try goal_simp); grind)
    · have hgCb := gC b; have := b2 b
      clear gA gB gC m5 b2
      by_cases hba : b = a
      · subst hba; (try goal_simp); grind
      · have hab : ¬ a = b := fun h => hba h.symm
        try simp only [State.put, State.putS, State.finish, State.write, upd_apply, if_neg hba, if_neg hab]
        first
        | exact hgCb
        | ((try goal_simp); grind))

set_option maxHeartbeats 1000000 in
theorem oinv_abort {s s' : State} {a : ActorId} {c : Choice} (inv1 : Inv1 s) (lw : Lwf s) (bnd : Bnd s) (sv : Sinv s) (g : Oinv s)
    (hs : stepAbort s a (s.loc a) c = some s') : Oinv s' := by
  obtain ⟨gA, gB, gC⟩ := g
  obtain ⟨b1, b2, b3, b4⟩ := bnd
  obtain ⟨s1, s2, s3⟩ := sv
  have w := inv1.beginWf a
  have i2a := inv1.holder_iff a
  have i3 := inv1.conserv
  have m5 := inv1.smutex_iff
  have lwa := lw a
  have b2a := b2 a
  have b3a := b3 a
  have gBa := gB a
  have gCa := gC a
  have s1a := s1 (s.loc a).sid
  have s2a := s2 a (s.loc a).sid
  have s3a := s3 (s.loc a).sid
  clear inv1 lw s1 s2 s3 b3 b4
  simp only [BeginWf, SHold, StartFlow, THold, LWf, Owned, OwnsL] at *
  unfold stepAbort at hs
  conc_split hs
  all_goals (
    refine ⟨?_, fun b => ?_, fun b => ?_⟩
    · clear gB gC m5 b2
      cases hown : s.eng.own with
      | actor o =>
        try simp only [hown] at gA
        by_cases hoa : o = a
        · subst hoa
          (try goal_simp); grind
        · have hao : ¬ a = o := fun h => hoa h.symm
          try goal_simp
          try simp only [hown, if_neg hoa, if_neg hao]
          grind
      | sess so =>
        try simp only [hown] at gA
        try goal_simp
        grind
    · have hgBb := gB b; have := m5 b (s.loc b).sid; have := m5 a (s.loc b).sid
      clear gA gB gC m5 b2
      by_cases hba : b = a
      · subst hba; (try goal_simp); grind
      · have hab : ¬ a = b := fun h => hba h.symm
        try simp only [State.put, State.putS, State.finish, State.write, upd_apply, if_neg hba, if_neg hab]
        first
        | exact hgBb
        | ((try goal_simp); grind)
    · have hgCb := gC b; have := b2 b
      clear gA gB gC m5 b2
      by_cases hba : b = a
      · subst hba; (try goal_simp); grind
      · have hab : ¬ a = b := fun h => hba h.symm
        try simp only [State.put, State.putS, State.finish, State.write, upd_apply, if_neg hba, if_neg hab]
        first
        | exact hgCb
        | ((try goal_simp); grind))

set_option maxHeartbeats 1000000 in
theorem oinv_after {s s' : State} {a : ActorId} {c : Choice} (inv1 : Inv1 s) (lw : Lwf s) (bnd : Bnd s) (sv : Sinv s) (g : Oinv s)
    (hpc : (s.loc a).pc = .after) (hs : stepAfter s a (s.loc a) c = some s') : Oinv s' := by
  obtain ⟨gA, gB, gC⟩ := g
  obtain ⟨b1, b2, b3, b4⟩ := bnd
  obtain ⟨s1, s2, s3⟩ := sv
  have w := inv1.beginWf a
  have i2a := inv1.holder_iff a
  have i3 := inv1.conserv
  have m5 := inv1.smutex_iff
  have lwa := lw a
  have b2a := b2 a
  have b3a := b3 a
  have gBa := gB a
  have gCa := gC a
  have s1a := s1 (s.loc a).sid
  have s2a := s2 a (s.loc a).sid
  have s3a := s3 (s.loc a).sid
  clear inv1 lw s1 s2 s3 b3 b4
  simp only [BeginWf, SHold, StartFlow, THold, LWf, Owned, OwnsL] at *
  unfold stepAfter at hs
  conc_split hs
  all_goals (
    refine ⟨?_, fun b => ?_, fun b => ?_⟩
    · clear gB gC m5 b2
      cases hown : s.eng.own with
      | actor o =>
        try simp only [hown] at gA
        by_cases hoa : o = a
        · subst hoa
          (try goal_simp); grind
        · have hao : ¬ a = o := fun h => hoa h.symm
          try goal_simp
          try simp only [hown, if_neg hoa, if_neg hao]
          grind
      | sess so =>
        try simp only [hown] at gA
        try goal_simp
        grind
    · have hgBb := gB b; have := m5 b (s.loc b).sid; have := m5 a (s.loc b).sid
      clear gA gB gC m5 b2
      by_cases hba : b = a
      · subst hba; (try goal_simp); grind
      · have hab : ¬ a = b := fun h => hba h.symm
        try simp only [State.put, State.putS, State.finish, State.write, upd_apply, if_neg hba, if_neg hab]
        first
        | exact hgBb
        | ((try goal_simp); grind)
    · have hgCb := gC b; have := b2 b
      clear gA gB gC m5 b2
      by_cases hba : b = a
      · subst hba; (try goal_simp); grind
      · have hab : ¬ a = b := fun h => hba h.symm
        try simp only [State.put, State.putS, State.finish, State.write, upd_apply, if_neg hba, if_neg hab]
        first
        | exact hgCb
        | ((try goal_simp); grind))

set_option maxHeartbeats 1000000 in
theorem oinv_use {s s' : State} {a : ActorId} {c : Choice} (inv1 : Inv1 s) (lw : Lwf s) (bnd : Bnd s) (sv : Sinv s) (g : Oinv s)
    (hs : stepUse s a (s.loc a) c = some s') : Oinv s' := by
  obtain ⟨gA, gB, gC⟩ := g
  obtain ⟨b1, b2, b3, b4⟩ := bnd
  obtain ⟨s1, s2, s3⟩ := sv
  have w := inv1.beginWf a
  have i2a := inv1.holder_iff a
  have i3 := inv1.conserv
  have m5 := inv1.smutex_iff
  have lwa := lw a
  have b2a := b2 a
  have b3a := b3 a
  have gBa := gB a
  have gCa := gC a
  have s1a := s1 (s.loc a).sid
  have s2a := s2 a (s.loc a).sid
  have s3a := s3 (s.loc a).sid
  clear inv1 lw s1 s2 s3 b3 b4
  simp only [BeginWf, SHold, StartFlow, THold, LWf, Owned, OwnsL] at *
  unfold stepUse at hs
  conc_split hs
  all_goals (
    refine ⟨?_, fun b => ?_, fun b => ?_⟩
    · clear gB gC m5 b2
      cases hown : s.eng.own with
      | actor o =>
        try simp only [hown] at gA
        by_cases hoa : o = a
        · subst hoa
          (try goal_simp); grind
        · have hao : ¬ a = o := fun h => hoa h.symm
          try goal_simp
          try simp only [hown, if_neg hoa, if_neg hao]
          grind
      | sess so =>
        try simp only [hown] at gA
        try goal_simp
        grind
    · have hgBb := gB b; have := m5 b (s.loc b).sid; have := m5 a (s.loc b).sid
      clear gA gB gC m5 b2
      by_cases hba : b = a
      · subst hba; (try goal_simp); grind
      · have hab : ¬ a = b := fun h => hba h.symm
        try simp only [State.put, State.putS, State.finish, State.write, upd_apply, if_neg hba, if_neg hab]
        first
        | exact hgBb
        | ((try goal_simp); grind)
    · have hgCb := gC b; have := b2 b
      clear gA gB gC m5 b2
      by_cases hba : b = a
      · subst hba; (try goal_simp); grind
      · have hab : ¬ a = b := fun h => hba h.symm
        try simp only [State.put, State.putS, State.finish, State.write, upd_apply, if_neg hba, if_neg hab]
        first
        | exact hgCb
        | ((try goal_simp); grind))

set_option maxHeartbeats 1000000 in
theorem oinv_sess {s s' : State} {a : ActorId} {c : Choice} (inv1 : Inv1 s) (lw : Lwf s) (bnd : Bnd s) (sv : Sinv s) (g : Oinv s)
    (hs : stepSess s a (s.loc a) c = some s') : Oinv s' := by
  obtain ⟨gA, gB, gC⟩ := g
  obtain ⟨b1, b2, b3, b4⟩ := bnd
  obtain ⟨s1, s2, s3⟩ := sv
  have w := inv1.beginWf a
  have i2a := inv1.holder_iff a
  have i3 := inv1.conserv
  have m5 := inv1.smutex_iff
  have lwa := lw a
  have b2a := b2 a
  have b3a := b3 a
  have gBa := gB a
  have gCa := gC a
  have s1a := s1 (s.loc a).sid
  have s2a := s2 a (s.loc a).sid
  have s3a := s3 (s.loc a).sid
  clear inv1 lw s1 s2 s3 b3 b4
  simp only [BeginWf, SHold, StartFlow, THold, LWf, Owned, OwnsL] at *
  unfold stepSess at hs
  conc_split hs
  all_goals (
    refine ⟨?_, fun b => ?_, fun b => ?_⟩
    · clear gB gC m5 b2
      cases hown : s.eng.own with
      | actor o =>
        try simp only [hown] at gA
        by_cases hoa : o = a
        · subst hoa
          (try goal_simp); grind
        · have hao : ¬ a = o := fun h => hoa h.symm
          try goal_simp
          try simp only [hown, if_neg hoa, if_neg hao]
          grind
      | sess so =>
        try simp only [hown] at gA
        try goal_simp
        grind
    · have hgBb := gB b; have := m5 b (s.loc b).sid; have := m5 a (s.loc b).sid
      clear gA gB gC m5 b2
      by_cases hba : b = a
      · subst hba; (try goal_simp); grind
      · have hab : ¬ a = b := fun h => hba h.symm
        try simp only [State.put, State.putS, State.finish, State.write, upd_apply, if_neg hba, if_neg hab]
        first
        | exact hgBb
        | ((try goal_simp); grind)
    · have hgCb := gC b; have := b2 b
      clear gA gB gC m5 b2
      by_cases hba : b = a
      · subst hba; (try goal_simp); grind
      · have hab : ¬ a = b := fun h => hba h.symm
        try simp only [State.put, State.putS, State.finish, State.write, upd_apply, if_neg hba, if_neg hab]
        first
        | exact hgCb
        | ((try goal_simp); grind))

set_option maxHeartbeats 1000000 in
theorem oinv_close {s s' : State} {a : ActorId} {c : Choice} (inv1 : Inv1 s) (lw : Lwf s) (bnd : Bnd s) (sv : Sinv s) (g : Oinv s)
    (hs : stepClose s a (s.loc a) c = some s') : Oinv s' := by
  obtain ⟨gA, gB, gC⟩ := g
  obtain ⟨b1, b2, b3, b4⟩ := bnd
  obtain ⟨s1, s2, s3⟩ := sv
  have w := inv1.beginWf a
  have i2a := inv1.holder_iff a
  have i3 := inv1.conserv
  have m5 := inv1.smutex_iff
  have lwa := lw a
  have b2a := b2 a
  have b3a := b3 a
  have gBa := gB a
  have gCa := gC a
  have s1a := s1 (s.loc a).sid
  have s2a := s2 a (s.loc a).sid
  have s3a := s3 (s.loc a).sid
  clear inv1 lw s1 s2 s3 b3 b4
  simp only [BeginWf, SHold, StartFlow, THold, LWf, Owned, OwnsL] at *
  unfold stepClose at hs
  conc_split hs
  all_goals (
    refine ⟨?_, fun b => ?_, fun b => ?_⟩
    · clear gB gC m5 b2
      cases hown : s.eng.own with
      | actor o =>
        try simp only [hown] at gA
        by_cases hoa : o = a
        · subst hoa
          (try goal_simp); grind
        · have hao : ¬ a = o := fun h => hoa h.symm
          try goal_simp
          try simp only [hown, if_neg hoa, if_neg hao]
          grind
      | sess so =>
        try simp only [hown] at gA
        try goal_simp
        grind
    · have hgBb := gB b; have := m5 b (s.loc b).sid; have := m5 a (s.loc b).sid
      clear gA gB gC m5 b2
      by_cases hba : b = a
      · subst hba; (try goal_simp); grind
      · have hab : ¬ a = b := fun h => hba h.symm
        try simp only [State.put, State.putS, State.finish, State.write, upd_apply, if_neg hba, if_neg hab]
        first
        | exact hgBb
        | ((try goal_simp); grind)
    · have hgCb := gC b; have := b2 b
      clear gA gB gC m5 b2
      by_cases hba : b = a
      · subst hba; (try goal_simp); grind
      · have hab : ¬ a = b := fun h => hba h.symm
        try simp only [State.put, State.putS, State.finish, State.write, upd_apply, if_neg hba, if_neg hab]
        first
        | exact hgCb
        | ((try goal_simp); grind))

set_option maxHeartbeats 1000000 in
theorem oinv_exp {s s' : State} {a : ActorId} {c : Choice} (inv1 : Inv1 s) (lw : Lwf s) (bnd : Bnd s) (sv : Sinv s) (g : Oinv s)
    (hs : stepExp s a (s.loc a) c = some s') : Oinv s' := by
  obtain ⟨gA, gB, gC⟩ := g
  obtain ⟨b1, b2, b3, b4⟩ := bnd
  obtain ⟨s1, s2, s3⟩ := sv
  have w := inv1.beginWf a
  have i2a := inv1.holder_iff a
  have i3 := inv1.conserv
  have m5 := inv1.smutex_iff
  have lwa := lw a
  have b2a := b2 a
  have b3a := b3 a
  have gBa := gB a
  have gCa := gC a
  have s1a := s1 (s.loc a).sid
  have s2a := s2 a (s.loc a).sid
  have s3a := s3 (s.loc a).sid
  clear inv1 lw s1 s2 s3 b3 b4
  simp only [BeginWf, SHold, StartFlow, THold, LWf, Owned, OwnsL] at *
  unfold stepExp at hs
  conc_split hs
  all_goals (
    refine ⟨?_, fun b => ?_, fun b => ?_⟩
    · clear gB gC m5 b2
      cases hown : s.eng.own with
      | actor o =>
        try simp only [hown] at gA
        by_cases hoa : o = a
        · subst hoa
          (try goal_simp); grind
        · have hao : ¬ a = o := fun h => hoa h.symm
          try goal_simp
          try simp only [hown, if_neg hoa, if_neg hao]
          grind
      | sess so =>
        try simp only [hown] at gA
        try goal_simp
        grind
    · have hgBb := gB b; have := m5 b (s.loc b).sid; have := m5 a (s.loc b).sid
      clear gA gB gC m5 b2
      by_cases hba : b = a
      · subst hba; (try goal_simp); grind
      · have hab : ¬ a = b := fun h => hba h.symm
        try simp only [State.put, State.putS, State.finish, State.write, upd_apply, if_neg hba, if_neg hab]
        first
        | exact hgBb
        | ((try goal_simp); grind)
    · have hgCb := gC b; have := b2 b
      clear gA gB gC m5 b2
      by_cases hba : b = a
      · subst hba; (try goal_simp); grind
      · have hab : ¬ a = b := fun h => hba h.symm
        try simp only [State.put, State.putS, State.finish, State.write, upd_apply, if_neg hba, if_neg hab]
        first
        | exact hgCb
        | ((try goal_simp); grind))

end Lungo.Conc
