/-
  Lungo.Proofs.MatchLaws — helper lemmas for the logical laws of C10.
-/
import Lungo.Model.Match
namespace Lungo

@[simp] theorem negate_negate_ok : negate (negate (.ok ())) = .ok () := rfl

theorem negate_involutive (r : Res Unit) : negate (negate r) = r := by
  cases r with
  | ok u => cases u; rfl
  | error e => cases e <;> rfl

/-- short-circuit conjunction of results: the first error (including NotMatched) wins. -/
def conj : List (Res Unit) → Res Unit
  | [] => .ok ()
  | r :: rs => match r with
    | .error e => .error e
    | .ok _ => conj rs

/-- short-circuit disjunction: the first success or the first error other than NotMatched wins. -/
def disj : List (Res Unit) → Res Unit
  | [] => .error .notMatched
  | r :: rs => match r with
    | .error .notMatched => disj rs
    | .error e => .error e
    | .ok _ => .ok ()

/-- a pure boolean test as an operator callback -/
def boolOp (p : V → Bool) : V → Res Unit := fun f => if p f then .ok () else .error .notMatched

theorem unwindLoop_bool (p : V → Bool) (xs : List V) :
    unwindLoop (boolOp p) xs = if xs.any p then some (.ok ()) else none := by
  induction xs with
  | nil => rfl
  | cons x r ih =>
    simp only [unwindLoop, boolOp, List.any_cons]
    by_cases h : p x
    · simp [h]
    · simp only [h]
      simpa [boolOp] using ih

/-- the values offered to a boolean operator by matchUnwind: does some of them satisfy p? -/
def unwindAny (d : Doc) (path : String) (merge yieldMerge : Bool) (p : V → Bool) : Bool :=
  let (value, multi) := All d (splitPath path) true merge
  (match value with
   | .arr arr => arr.any p
   | _ => false) || ((!multi || yieldMerge) && p value)

theorem matchUnwind_bool (d : Doc) (path : String) (merge yieldMerge : Bool) (p : V → Bool) :
    matchUnwind d path merge yieldMerge (boolOp p)
      = if unwindAny d path merge yieldMerge p then .ok () else .error .notMatched := by
  unfold matchUnwind unwindAny
  generalize All d (splitPath path) true merge = r
  obtain ⟨value, multi⟩ := r
  by_cases h1 : (!multi || yieldMerge) = true
  · cases value with
    | arr xs =>
      simp only [unwindLoop_bool, h1]
      by_cases h2 : xs.any p = true
      · simp [h2]
      · simp only [h2]
        simp [boolOp]
    | _ => simp [h1, boolOp]
  · cases value with
    | arr xs =>
      simp only [unwindLoop_bool, h1]
      by_cases h2 : xs.any p = true
      · simp [h2]
      · simp only [h2]
        simp [notMatched]
    | _ => simp [h1, notMatched]

theorem unwindAny_or (d : Doc) (path : String) (merge yieldMerge : Bool) (p q : V → Bool) :
    unwindAny d path merge yieldMerge (fun f => p f || q f)
      = (unwindAny d path merge yieldMerge p || unwindAny d path merge yieldMerge q) := by
  unfold unwindAny
  generalize All d (splitPath path) true merge = r
  obtain ⟨value, multi⟩ := r
  cases value <;> simp <;> (try grind)

theorem unwindAny_congr (d : Doc) (path : String) (merge yieldMerge : Bool) (p q : V → Bool)
    (h : ∀ f, p f = q f) : unwindAny d path merge yieldMerge p = unwindAny d path merge yieldMerge q := by
  have : p = q := funext h
  rw [this]

theorem unwindAny_anyList (d : Doc) (path : String) (merge yieldMerge : Bool) (ps : List (V → Bool)) :
    unwindAny d path merge yieldMerge (fun f => ps.any (fun p => p f))
      = ps.any (fun p => unwindAny d path merge yieldMerge p) := by
  induction ps with
  | nil =>
    unfold unwindAny
    generalize All d (splitPath path) true merge = r
    obtain ⟨value, multi⟩ := r
    cases value <;> simp
  | cons p ps ih =>
    simp only [List.any_cons]
    rw [unwindAny_or, ih]

/-- comparison operator as a boolean test -/
def compTest (op : String) (v : V) : Option (V → Bool) :=
  match op with
  | "" => some fun field => field.cls == v.cls && V.cmp field v == .eq
  | "$eq" => some fun field => field.cls == v.cls && V.cmp field v == .eq
  | "$gt" => some fun field => field.cls == v.cls && V.cmp field v == .gt
  | "$gte" => some fun field => field.cls == v.cls && V.cmp field v != .lt
  | "$lt" => some fun field => field.cls == v.cls && V.cmp field v == .lt
  | "$lte" => some fun field => field.cls == v.cls && V.cmp field v != .gt
  | _ => none

theorem matchComp_eq_bool (d : Doc) (path : String) (v : V) :
    matchComp d "$eq" path v = matchUnwind d path true false (boolOp fun field => field.cls == v.cls && V.cmp field v == .eq) := by
  unfold matchComp boolOp
  congr 1
  funext field
  by_cases h : (field.cls == v.cls && V.cmp field v == .eq) = true <;> simp [h, notMatched]

theorem matchComp_gt_bool (d : Doc) (path : String) (v : V) :
    matchComp d "$gt" path v = matchUnwind d path true false (boolOp fun field => field.cls == v.cls && V.cmp field v == .gt) := by
  unfold matchComp boolOp
  congr 1
  funext field
  by_cases h : (field.cls == v.cls && V.cmp field v == .gt) = true <;> simp [h, notMatched]

theorem matchComp_lt_bool (d : Doc) (path : String) (v : V) :
    matchComp d "$lt" path v = matchUnwind d path true false (boolOp fun field => field.cls == v.cls && V.cmp field v == .lt) := by
  unfold matchComp boolOp
  congr 1
  funext field
  by_cases h : (field.cls == v.cls && V.cmp field v == .lt) = true <;> simp [h, notMatched]

theorem matchComp_gte_bool (d : Doc) (path : String) (v : V) :
    matchComp d "$gte" path v = matchUnwind d path true false (boolOp fun field => field.cls == v.cls && V.cmp field v != .lt) := by
  unfold matchComp boolOp
  congr 1
  funext field
  by_cases h : (field.cls == v.cls && V.cmp field v != .lt) = true <;> simp [h, notMatched]

theorem matchComp_lte_bool (d : Doc) (path : String) (v : V) :
    matchComp d "$lte" path v = matchUnwind d path true false (boolOp fun field => field.cls == v.cls && V.cmp field v != .gt) := by
  unfold matchComp boolOp
  congr 1
  funext field
  by_cases h : (field.cls == v.cls && V.cmp field v != .gt) = true <;> simp [h, notMatched]

/-- disjunction of two boolean-valued results -/
def orRes (a b : Res Unit) : Res Unit :=
  match a with
  | .ok _ => .ok ()
  | .error .notMatched => b
  | .error e => .error e

theorem matchIn_bool (d : Doc) (path : String) (vs : List V) :
    matchIn d path (.arr vs) = matchUnwind d path true false (boolOp fun field => vs.any fun item => V.cmp field item == .eq) := by
  unfold matchIn boolOp
  congr 1

/-- values that compare equal have the same class (the rank test decides first). -/
theorem cmp_eq_cls (a b : V) (h : V.cmp a b = .eq) : a.cls.rank = b.cls.rank := by
  unfold V.cmp at h
  by_cases h1 : a.cls.rank > b.cls.rank
  · simp [h1] at h
  · by_cases h2 : a.cls.rank < b.cls.rank
    · simp [h1, h2] at h
    · omega


theorem rank_inj (a b : Class) (h : a.rank = b.rank) : a = b := by
  cases a <;> cases b <;> simp [Class.rank] at h <;> rfl

theorem cmp_eq_cls' (a b : V) (h : V.cmp a b = .eq) : (a.cls == b.cls) = true := by
  have := rank_inj _ _ (cmp_eq_cls a b h)
  simp [this]

theorem mOp_leaf (sch : SchemaEval) (d : Doc) (op path : String) (v : V) (r : Res Unit)
    (h : leafOp d op path v = some r) : mOp sch d op path v = r := by
  unfold mOp
  simp [h]

theorem mNotLoop_negate (sch : SchemaEval) (d : Doc) (q : List (String × V)) (path : String) :
    mNotLoop sch d path q = negate (mProcess sch d q path false) := by
  induction q with
  | nil => simp [mNotLoop, mProcess, negate, notMatched]
  | cons kv r ih =>
    obtain ⟨key, value⟩ := kv
    rw [mNotLoop, mProcess]
    split
    · rename_i h; simp [h, negate]
    · rename_i e h1 h2
      rw [h2]
      cases e <;> simp_all [negate]
    · rename_i h; rw [h]; exact ih

theorem mProcess_append (sch : SchemaEval) (d : Doc) (q1 q2 : List (String × V)) (pfx : String) (root : Bool) :
    mProcess sch d (q1 ++ q2) pfx root =
      (match mProcess sch d q1 pfx root with
       | .error e => .error e
       | .ok _ => mProcess sch d q2 pfx root) := by
  induction q1 with
  | nil => simp [mProcess]
  | cons kv r ih =>
    obtain ⟨key, value⟩ := kv
    rw [List.cons_append, mProcess, mProcess]
    split
    · rfl
    · exact ih

theorem mAndLoop_conj (sch : SchemaEval) (d : Doc) (qs : List Doc) :
    mAndLoop sch d (qs.map V.doc) = conj (qs.map fun q => mProcess sch d q "" true) := by
  induction qs with
  | nil => simp [mAndLoop, conj]
  | cons q r ih =>
    simp only [List.map_cons, mAndLoop, conj]
    split <;> simp_all

theorem mOrLoop_disj (sch : SchemaEval) (d : Doc) (qs : List Doc) :
    mOrLoop sch d (qs.map V.doc) = disj (qs.map fun q => mProcess sch d q "" true) := by
  induction qs with
  | nil => simp [mOrLoop, disj, notMatched]
  | cons q r ih =>
    simp only [List.map_cons, mOrLoop, disj]
    split <;> simp_all

end Lungo
