/-
  Lungo.Proofs.StreamTSInv — the combined inductive invariant holds in every reachable state.
-/
import Lungo.Proofs.StreamTSDrop
namespace Lungo.StreamTS

structure Inv (s : State) : Prop where
  pc : InvPC s
  h  : InvH s
  el : InvEL s
  sg : InvS s
  nr : InvNR s
  m  : InvM s
  sp : InvSP s
  w  : InvW s
  e  : InvE s
  g  : InvG s
  d  : InvD s
  df : InvDef s
  v3 : InvV3 s
  v  : InvV s
  u  : InvU s
  l  : InvL s
  lc : InvLC s

theorem Inv_init : Inv init :=
  ⟨InvPC_init, InvH_init, InvEL_init, InvS_init, InvNR_init, InvM_init, InvSP_init, InvW_init,
   InvE_init, InvG_init, InvD_init, InvDef_init, InvV3_init, InvV_init, InvU_init, InvL_init, InvLC_init⟩

theorem Inv_step {s s' a c} (h : step s a c = some s') (i : Inv s) : Inv s' :=
  ⟨InvPC_step h i.pc, InvH_step h i.h i.pc, InvEL_step h i.el, InvS_step h i.sg i.h i.el,
   InvNR_step h i.nr i.h i.pc, InvM_step h i.m i.pc, InvSP_step h i.sp i.h i.pc,
   InvW_step h i.w i.h i.pc i.m i.sg i.nr, InvE_step h i.e i.sg, InvG_step h i.g,
   InvD_step h i.g i.d, InvDef_step h i.df i.pc, InvV3_step h i.v3 i.nr, InvV_step h i.v i.nr,
   InvU_step h i.u i.h i.pc i.m, InvL_step h i.l i.g i.d i.h i.nr i.pc,
   InvLC_step h i.lc i.nr⟩

theorem reachable_inv {s : State} (h : Reachable s) : Inv s := by
  induction h with
  | init => exact Inv_init
  | step a c _ hs ih => exact Inv_step hs ih

/-- along any continuation of a reachable state, a dropped stream's `delivered` is frozen -/
theorem frozen_dropped {s s' : State} (hr : Reachable s) (hs : Steps s s') (x : StreamId)
    (hd : (s.streams x).dropped = true) :
    (s'.streams x).delivered = (s.streams x).delivered ∧ (s'.streams x).dropped = true := by
  induction hs with
  | refl => exact ⟨rfl, hd⟩
  | step a c hss h2 ih =>
    have i := reachable_inv (reachable_steps hr hss)
    have := (frozen_step h2 i.nr i.df x).1 ih.2
    exact ⟨this.1.trans ih.1, this.2⟩

/-- along any continuation of a reachable state, a closed (created) stream's `delivered` is frozen
    and it stays closed -/
theorem frozen_closed {s s' : State} (hr : Reachable s) (hs : Steps s s') (x : StreamId)
    (hc : (s.streams x).closed = true) (hx : x ∈ s.created) :
    (s'.streams x).delivered = (s.streams x).delivered ∧ (s'.streams x).closed = true ∧
    x ∈ s'.created := by
  induction hs with
  | refl => exact ⟨rfl, hc, hx⟩
  | step a c hss h2 ih =>
    have i := reachable_inv (reachable_steps hr hss)
    have := (frozen_step h2 i.nr i.df x).2.1 ih.2.1 ih.2.2
    exact ⟨this.1.trans ih.1, this.2⟩

theorem frozen_invalidated {s s' : State} (hr : Reachable s) (hs : Steps s s') (x : StreamId)
    (hv : (s.streams x).invalidated = true) : (s'.streams x).invalidated = true := by
  induction hs with
  | refl => exact hv
  | step a c hss h2 ih =>
    have i := reachable_inv (reachable_steps hr hss)
    exact (frozen_step h2 i.nr i.df x).2.2 ih

end Lungo.StreamTS
