/-
  Abort, Delete, tracked Close/Claim and Suspend/Resume on the GridFS model.
-/
import Lungo.Proofs.GridFSUpload
namespace Lungo.GridFS
open Lungo.Spec

theorem filter_ne_append_mkDocs (C0 : List ChunkDoc) (id : Nat) (D : List Bytes) (k : Nat)
    (hC0 : ∀ d ∈ C0, d.file ≠ id) :
    (C0 ++ mkDocs id k D).filter (fun d => d.file != id) = C0 := by
  rw [List.filter_append]
  have h1 : C0.filter (fun d => d.file != id) = C0 := by
    rw [List.filter_eq_self]; intro d hd; simp [hC0 d hd]
  have h2 : (mkDocs id k D).filter (fun d => d.file != id) = [] := by
    rw [List.filter_eq_nil_iff]; intro d hd; simp [(mem_mkDocs id D k d hd).1]
  rw [h1, h2, List.append_nil]

theorem filter_marker_id (Mb : List Marker) (m : Marker) (h : ∀ x ∈ Mb, x.id ≠ m.id) :
    (Mb ++ [m]).filter (fun x => x.id != m.id) = Mb := by
  rw [List.filter_append]
  have h1 : Mb.filter (fun x => x.id != m.id) = Mb := by
    rw [List.filter_eq_self]; intro x hx; simp [h x hx]
  rw [h1]; simp

section
variable {C0 : List ChunkDoc} {F0 : List FileDoc} {Mb : List Marker} {id c B : Nat} {tracked : Bool}

/-- Abort removes every chunk and the marker of the upload and nothing else -/
theorem abort_ok (env : Env C0 Mb id c B) {st : Store} {s : UploadStream} {P : Bytes} {D : List Bytes}
    (inv : UpInv C0 F0 Mb id c B tracked st s P D) :
    (s.abort st).2.2 = none ∧ (s.abort st).1.chunks = C0 ∧ (s.abort st).1.files = F0 ∧
    (s.abort st).1.markers = Mb := by
  unfold UploadStream.abort
  rw [inv.closed]
  simp only [Bool.false_eq_true, if_false]
  have hch : (if s.chunks > 0 then st.deleteChunks s.id else st).chunks = C0 := by
    by_cases h : s.chunks > 0
    · rw [if_pos h]
      simp only [Store.deleteChunks, inv.chunks, inv.sid]
      exact filter_ne_append_mkDocs C0 id D 0 env.hC0
    · rw [if_neg h]
      have : D = [] := List.eq_nil_of_length_eq_zero (by rw [← inv.cnt]; omega)
      rw [inv.chunks, this]; simp [mkDocs]
  have hfl : (if s.chunks > 0 then st.deleteChunks s.id else st).files = F0 := by
    by_cases h : s.chunks > 0
    · rw [if_pos h]; exact inv.files
    · rw [if_neg h]; exact inv.files
  have hmk : (if s.chunks > 0 then st.deleteChunks s.id else st).markers = st.markers := by
    by_cases h : s.chunks > 0
    · rw [if_pos h]; rfl
    · rw [if_neg h]
  rcases inv.mark with ⟨hm, hM⟩ | ⟨_, mid, hm, hM, hne⟩
  · rw [hm]; simp only
    exact ⟨trivial, hch, hfl, by rw [hmk, hM]⟩
  · rw [hm]; simp only [Store.deleteMarkerById]
    refine ⟨trivial, hch, hfl, ?_⟩
    rw [hmk, hM]
    exact filter_marker_id Mb ⟨mid, id, .uploading, 0, c⟩ hne

/-! ### tracked uploads: Suspend / Resume / Close / ClaimUpload -/

/-- the store between two segments of a tracked upload of `content` -/
structure Susp (C0 : List ChunkDoc) (F0 : List FileDoc) (Mb : List Marker) (id c : Nat) (content : Bytes)
    (st : Store) (D : List Bytes) : Prop where
  chunks : st.chunks = C0 ++ mkDocs id 0 D
  files : st.files = F0
  full : AllFull c D
  pre : D.flatten <+: content
  mark : (st.markers = Mb ∧ D = []) ∨
         (∃ mid, st.markers = Mb ++ [⟨mid, id, .uploading, 0, c⟩] ∧ ∀ m ∈ Mb, m.id ≠ mid)
  fresh : ∀ m ∈ st.markers, m.id < st.nextId

theorem UpInv.toSusp {content : Bytes} {st : Store} {s : UploadStream} {P : Bytes} {D : List Bytes}
    (inv : UpInv C0 F0 Mb id c B true st s P D) (hD : AllFull c D) (hP : P <+: content) :
    Susp C0 F0 Mb id c content st D :=
  { chunks := inv.chunks, files := inv.files, full := hD
    pre := List.IsPrefix.trans ⟨s.buffer, inv.flat⟩ hP
    mark := by
      rcases inv.mark with ⟨h1, h2⟩ | ⟨_, mid, _, h2, h3⟩
      · exact Or.inl ⟨h2, inv.trk rfl h1⟩
      · exact Or.inr ⟨mid, h2, h3⟩
    fresh := inv.fresh }

theorem suspend_ok (env : Env C0 Mb id c B) {content : Bytes} {st : Store} {s : UploadStream} {P : Bytes} {D : List Bytes}
    (inv : UpInv C0 F0 Mb id c B true st s P D) (hD : AllFull c D) (hP : P <+: content) :
    (s.suspend st).2.2.2 = none ∧ ∃ D', Susp C0 F0 Mb id c content (s.suspend st).1 D' := by
  unfold UploadStream.suspend
  rw [inv.str, inv.closed]
  simp only [Bool.true_eq_false, Bool.false_eq_true, if_false]
  by_cases hb : s.buffer.length > 0
  · rw [if_pos hb]
    obtain ⟨D', hD', u1, u2, _, _⟩ := upload_false_ok env inv hD
    generalize hx : s.upload st false = x at u1 u2
    obtain ⟨st2, s2, e⟩ := x
    simp only at u1 u2
    subst u1
    exact ⟨rfl, D', u2.toSusp hD' hP⟩
  · rw [if_neg hb]
    exact ⟨rfl, D, inv.toSusp hD hP⟩

theorem resumeScan_mkDocs (id c : Nat) : ∀ (D : List Bytes) (k len : Nat), AllFull c D →
    resumeScan c (mkDocs id k D) k len = some (k + D.length, len + D.flatten.length) := by
  intro D
  induction D with
  | nil => intro k len _; simp [mkDocs, resumeScan]
  | cons a D ih =>
    intro k len h
    have ha : a.length = c := h a (by simp)
    simp only [mkDocs, resumeScan]
    rw [if_neg (by simp [ha])]
    rw [ih (k + 1) (len + a.length) (fun x hx => h x (by simp [hx]))]
    simp only [List.length_cons, List.flatten_cons, List.length_append]
    congr 2 <;> omega

theorem find_last_marker (Mb : List Marker) (m : Marker) (h : ∀ x ∈ Mb, x.file ≠ m.file) :
    (Mb ++ [m]).find? (fun x => x.file == m.file) = some m := by
  rw [List.find?_append]
  have : Mb.find? (fun x => x.file == m.file) = none := by
    rw [List.find?_eq_none]; intro x hx; simp [h x hx]
  rw [this]; simp

/-- a new stream + Resume (or nothing to resume) continues exactly after the persisted chunks -/
theorem resumeOrFresh_ok (env : Env C0 Mb id c B) {content : Bytes} {st : Store} {D : List Bytes}
    (h : Susp C0 F0 Mb id c content st D) :
    ∃ s, resumeOrFresh st id c B = .ok (s, D.flatten.length) ∧
      UpInv C0 F0 Mb id c B true st s D.flatten D ∧ s.buffer = [] := by
  unfold resumeOrFresh UploadStream.resume UploadStream.new
  simp only [Bool.true_eq_false, if_false, Option.isSome_none, Bool.false_eq_true, List.length_nil,
    Nat.lt_irrefl, or_self, gt_iff_lt]
  rcases h.mark with ⟨hm, hD⟩ | ⟨mid, hm, hne⟩
  · have hfind : st.findMarker id = none := by
      apply findMarker_none_of; rw [hm]; exact env.hMb
    rw [hfind]
    subst hD
    refine ⟨_, rfl, ?_, rfl⟩
    exact { closed := rfl, sid := rfl, sc := rfl, sB := rfl, str := rfl
            chunks := h.chunks, files := h.files, flat := rfl, cnt := rfl, len := rfl
            mark := Or.inl ⟨rfl, hm⟩, fresh := h.fresh, trk := fun _ _ => rfl }
  · have hfind : st.findMarker id = some ⟨mid, id, .uploading, 0, c⟩ := by
      unfold Store.findMarker
      rw [hm]
      exact find_last_marker Mb ⟨mid, id, .uploading, 0, c⟩ env.hMb
    rw [hfind]
    simp only [ne_eq, not_true_eq_false, if_false]
    rw [chunksOfFile_eq st C0 id D h.chunks env.hC0, resumeScan_mkDocs id c D 0 0 h.full]
    simp only [Nat.zero_add]
    refine ⟨_, rfl, ?_, rfl⟩
    exact { closed := rfl, sid := rfl, sc := rfl, sB := rfl, str := rfl
            chunks := h.chunks, files := h.files, flat := by simp, cnt := rfl, len := rfl
            mark := Or.inr ⟨rfl, mid, rfl, hm, hne⟩, fresh := h.fresh
            trk := by intro _ h0; cases h0 }

theorem pieces_flatten : ∀ (ns : List Nat) (l : Bytes), (pieces l ns).flatten = l.take ns.sum := by
  intro ns
  induction ns with
  | nil => intro l; simp [pieces]
  | cons n ns ih =>
    intro l
    simp only [pieces, List.flatten_cons, List.sum_cons, ih]
    rw [List.take_add]

theorem prefix_take_drop (content : Bytes) (k m : Nat) (x : Bytes) (hx : x = content.take k) (hk : x.length = k) :
    x ++ (content.drop k).take m <+: content := by
  subst hx
  refine ⟨(content.drop k).drop m, ?_⟩
  rw [List.append_assoc, List.take_append_drop, List.take_append_drop]

/-- the non-final segments keep the store in a suspended state -/
theorem trackedSegments_ok (env : Env C0 Mb id c B) (content : Bytes) : ∀ (plan : List (List Nat)) (st : Store) (D : List Bytes),
    Susp C0 F0 Mb id c content st D →
    (trackedSegments content id c B st plan).2 = none ∧
    ∃ D', Susp C0 F0 Mb id c content (trackedSegments content id c B st plan).1 D' := by
  intro plan
  induction plan with
  | nil => intro st D h; exact ⟨rfl, D, h⟩
  | cons sizes plan ih =>
    intro st D h
    obtain ⟨s, r1, r2, r3⟩ := resumeOrFresh_ok (B := B) env h
    simp only [trackedSegments, r1]
    have hpre : D.flatten = content.take D.flatten.length := List.prefix_iff_eq_take.mp h.pre
    have hb : s.buffer.length < B := by rw [r3]; have := env.hc; have := env.hcB; simp; omega
    obtain ⟨D1, hD1, w1, w2, _⟩ := writeAll_ok env (pieces (content.drop D.flatten.length) sizes) st s _ D r2 h.full hb
    generalize hx : writeAll st s (pieces (content.drop D.flatten.length) sizes) = x at w1 w2
    obtain ⟨st2, s2, e⟩ := x
    simp only at w1 w2
    subst w1
    simp only
    rw [pieces_flatten] at w2
    obtain ⟨q1, D2, q2⟩ := suspend_ok env w2 hD1 (prefix_take_drop content _ sizes.sum _ hpre rfl)
    generalize hy : s2.suspend st2 = y at q1 q2
    obtain ⟨st3, s3, n3, e3⟩ := y
    simp only at q1 q2
    subst q1
    simp only
    exact ih st3 D2 q2

theorem map_replace_last (Mb : List Marker) (m m' : Marker) (hid : m'.id = m.id) (h : ∀ x ∈ Mb, x.id ≠ m.id) :
    (Mb ++ [m]).map (fun x => if x.id == m'.id then m' else x) = Mb ++ [m'] := by
  rw [List.map_append]
  have : Mb.map (fun x => if x.id == m'.id then m' else x) = Mb := by
    conv => rhs; rw [← List.map_id Mb]
    apply List.map_congr_left
    intro x hx
    rw [hid]; simp [h x hx]
  rw [this]; simp [hid]

/-- Close on a tracked bucket followed by ClaimUpload -/
theorem close_claim_ok (env : Env C0 Mb id c B) {st : Store} {s : UploadStream} {P : Bytes} {D : List Bytes}
    (inv : UpInv C0 F0 Mb id c B true st s P D) (hD : AllFull c D) (hF0 : ∀ f ∈ F0, f.id ≠ id) :
    (s.close st).2.2 = none ∧
    (claimUpload (s.close st).1 true id).2 = none ∧
    (claimUpload (s.close st).1 true id).1.chunks = C0 ++ mkDocs id 0 (chunksOf c P) ∧
    (claimUpload (s.close st).1 true id).1.files = F0 ++ [⟨id, P.length, c⟩] ∧
    (claimUpload (s.close st).1 true id).1.markers = Mb := by
  obtain ⟨f1, f2, f3, f4⟩ := close_flush env inv hD
  unfold UploadStream.close
  rw [inv.closed]
  simp only [Bool.false_eq_true, if_false]
  generalize hx : (if s.buffer.length > 0 ∨ (s.tracked = true ∧ s.marker.isNone) then s.upload st true else (st, s, none)) = x at f1 f2 f3 f4
  obtain ⟨st2, s2, e⟩ := x
  simp only at f1 f2 f3 f4
  subst f1
  simp only [f2.str, if_true]
  rcases f2.mark with ⟨hm, _⟩ | ⟨_, mid, hm, hM, hne⟩
  · have := f4 trivial; rw [hm] at this; simp at this
  · rw [hm]
    simp only
    have hany : st2.markers.any (fun x => x.id == mid) = true := by
      rw [hM]; simp
    simp only [Store.replaceMarker, hany, if_true]
    have hmap := map_replace_last Mb ⟨mid, id, .uploading, 0, c⟩ ⟨mid, s2.id, .uploaded, s2.length, s2.chunkSize⟩ rfl hne
    simp only at hmap
    rw [hM, hmap]
    refine ⟨trivial, ?_⟩
    -- ClaimUpload
    unfold claimUpload
    simp only [Bool.true_eq_false, if_false]
    have hfind : Store.findMarker { st2 with markers := Mb ++ [⟨mid, s2.id, .uploaded, s2.length, s2.chunkSize⟩] } id
        = some ⟨mid, s2.id, .uploaded, s2.length, s2.chunkSize⟩ := by
      unfold Store.findMarker
      have := find_last_marker Mb ⟨mid, s2.id, .uploaded, s2.length, s2.chunkSize⟩ (by rw [f2.sid]; exact env.hMb)
      simp only [f2.sid] at this ⊢
      exact this
    rw [hfind]
    simp only [ne_eq, not_true_eq_false, if_false]
    have hff : Store.findFile { st2 with markers := Mb ++ [⟨mid, s2.id, .uploaded, s2.length, s2.chunkSize⟩] } id = none := by
      apply findFile_none_of
      show ∀ f ∈ st2.files, f.id ≠ id
      rw [f2.files]; exact hF0
    simp only [Store.insertFile, hff, Option.isSome_none, Bool.false_eq_true, if_false, Store.deleteMarkerById]
    refine ⟨trivial, f2.chunks, ?_, ?_⟩
    · simp [f2.files, f2.sc, f2.length_eq f3]
    · exact filter_marker_id Mb ⟨mid, s2.id, .uploaded, s2.length, s2.chunkSize⟩ hne

/-- a complete tracked upload in segments stores the same documents as a plain upload -/
theorem trackedUpload_ok (st : Store) (id c B : Nat) (hc : 0 < c) (hcB : c ≤ B)
    (hC : ∀ d ∈ st.chunks, d.file ≠ id) (hF : ∀ f ∈ st.files, f.id ≠ id) (hM : ∀ m ∈ st.markers, m.file ≠ id)
    (hfresh : ∀ m ∈ st.markers, m.id < st.nextId) (content : Bytes) (plan : List (List Nat)) (last : List Nat) :
    (trackedUpload st content id c B plan last).2 = none ∧
    (trackedUpload st content id c B plan last).1.chunks = st.chunks ++ mkDocs id 0 (chunksOf c content) ∧
    (trackedUpload st content id c B plan last).1.files = st.files ++ [⟨id, content.length, c⟩] ∧
    (trackedUpload st content id c B plan last).1.markers = st.markers := by
  have env : Env st.chunks st.markers id c B := ⟨hc, hcB, hC, hM⟩
  have h0 : Susp st.chunks st.files st.markers id c content st [] :=
    { chunks := by simp [mkDocs], files := rfl, full := by intro d hd; cases hd
      pre := by simp, mark := Or.inl ⟨rfl, rfl⟩, fresh := hfresh }
  obtain ⟨t1, D, t2⟩ := trackedSegments_ok env content plan st [] h0
  unfold trackedUpload
  generalize hx : trackedSegments content id c B st plan = x at t1 t2
  obtain ⟨st1, e⟩ := x
  simp only at t1 t2
  subst t1
  simp only
  obtain ⟨s, r1, r2, r3⟩ := resumeOrFresh_ok (B := B) env t2
  rw [r1]
  simp only
  have hpre : D.flatten = content.take D.flatten.length := List.prefix_iff_eq_take.mp t2.pre
  have hb : s.buffer.length < B := by rw [r3]; simp; omega
  obtain ⟨D1, hD1, w1, w2, _⟩ := writeAll_ok env
    (pieces (content.drop D.flatten.length) last ++ [(content.drop D.flatten.length).drop last.sum]) st1 s _ D r2 t2.full hb
  generalize hy : writeAll st1 s (pieces (content.drop D.flatten.length) last ++ [(content.drop D.flatten.length).drop last.sum]) = y at w1 w2
  obtain ⟨st2, s2, e2⟩ := y
  simp only at w1 w2
  subst w1
  simp only
  have hP : D.flatten ++ (pieces (content.drop D.flatten.length) last ++ [(content.drop D.flatten.length).drop last.sum]).flatten = content := by
    rw [List.flatten_append, pieces_flatten]
    simp only [List.flatten_cons, List.flatten_nil, List.append_nil]
    rw [List.take_append_drop]
    have := List.take_append_drop D.flatten.length content
    rw [← hpre] at this; exact this
  rw [hP] at w2
  obtain ⟨c1, c2, c3, c4, c5⟩ := close_claim_ok env w2 hD1 hF
  generalize hz : s2.close st2 = z at c1 c2 c3 c4 c5
  obtain ⟨st3, s3, e3⟩ := z
  simp only at c1 c2 c3 c4 c5
  subst c1
  simp only
  exact ⟨c2, c3, c4, c5⟩

end
end Lungo.GridFS
