/-
  Abort, Delete, tracked Close/Claim and Suspend/Resume on the GridFS model.
-/
import Lungo.Proofs.GridFSUpload
namespace Lungo.GridFS
open Lungo.Spec

theorem filter_ne_append_mkDocs (C0 : List ChunkDoc) (id : Nat) (D : List Bytes) (k : Nat)
    (hC0 : ∀ d ∈ C0, d.file ≠ id) :
    (C0 ++ mkDocs id k D).filter (fun d => d.file != id) = C0 := by
  rw [List.filter_append]
  have h1 : C0.filter (fun d => d.file != id) = C0 := by
    rw [List.filter_eq_self]; intro d hd; simp [hC0 d hd]
  have h2 : (mkDocs id k D).filter (fun d => d.file != id) = [] := by
    rw [List.filter_eq_nil_iff]; intro d hd; simp [(mem_mkDocs id D k d hd).1]
  rw [h1, h2, List.append_nil]

theorem filter_marker_id (Mb : List Marker) (m : Marker) (h : ∀ x ∈ Mb, x.id ≠ m.id) :
    (Mb ++ [m]).filter (fun x => x.id != m.id) = Mb := by
  rw [List.filter_append]
  have h1 : Mb.filter (fun x => x.id != m.id) = Mb := by
    rw [List.filter_eq_self]; intro x hx; simp [h x hx]
  rw [h1]; simp

section
variable {C0 : List ChunkDoc} {F0 : List FileDoc} {Mb : List Marker} {id c B : Nat} {tracked : Bool}

/-- Abort removes every chunk and the marker of the upload and nothing else -/
theorem abort_ok (env : Env C0 Mb id c B) {st : Store} {s : UploadStream} {P : Bytes} {D : List Bytes}
    (inv : UpInv C0 F0 Mb id c B tracked st s P D) :
    (s.abort st).2.2 = none ∧ (s.abort st).1.chunks = C0 ∧ (s.abort st).1.files = F0 ∧
    (s.abort st).1.markers = Mb := by
  unfold UploadStream.abort
  rw [inv.closed]
  simp only [Bool.false_eq_true, if_false]
  have hch : (if s.chunks > 0 then st.deleteChunks s.id else st).chunks = C0 := by
    by_cases h : s.chunks > 0
    · rw [if_pos h]
      simp only [Store.deleteChunks, inv.chunks, inv.sid]
      exact filter_ne_append_mkDocs C0 id D 0 env.hC0
    · rw [if_neg h]
      have : D = [] := List.eq_nil_of_length_eq_zero (by rw [← inv.cnt]; omega)
      rw [inv.chunks, this]; simp [mkDocs]
  have hfl : (if s.chunks > 0 then st.deleteChunks s.id else st).files = F0 := by
    by_cases h : s.chunks > 0
    · rw [if_pos h]; exact inv.files
    · rw [if_neg h]; exact inv.files
  have hmk : (if s.chunks > 0 then st.deleteChunks s.id else st).markers = st.markers := by
    by_cases h : s.chunks > 0
    · rw [if_pos h]; rfl
    · rw [if_neg h]
  rcases inv.mark with ⟨hm, hM⟩ | ⟨_, mid, hm, hM, hne⟩
  · rw [hm]; simp only
    exact ⟨trivial, hch, hfl, by rw [hmk, hM]⟩
  · rw [hm]; simp only [Store.deleteMarkerById]
    refine ⟨trivial, hch, hfl, ?_⟩
    rw [hmk, hM]
    exact filter_marker_id Mb ⟨mid, id, .uploading, 0, c⟩ hne

end
end Lungo.GridFS
