/-
  Lungo.Proofs.ConcLog — log invariants for C04: the snapshot of the installed write transaction is
  the current catalog, the catalog is the concatenation of the committed transactions' operations
  in commit order, and every committed transaction ran on exactly the log produced by its
  predecessors.  (Per-sub-machine lemmas generated mechanically.)
-/
import Lungo.Proofs.ConcOwnDefs
namespace Lungo.Conc

/-- the log produced by a list of committed transactions -/
def logOf (cl : List CRec) : List OpId := (cl.map (·.ops)).flatten

/-- each record's base is the log produced by the records before it (starting from `acc`) -/
def SerialFrom (acc : List OpId) : List CRec → Prop
  | [] => True
  | r :: rs => r.base = acc ∧ SerialFrom (acc ++ r.ops) rs

@[simp] theorem logOf_nil : logOf [] = [] := rfl
theorem logOf_cons (r : CRec) (cl : List CRec) : logOf (r :: cl) = r.ops ++ logOf cl := by
  simp [logOf]
theorem logOf_append (cl : List CRec) (r : CRec) : logOf (cl ++ [r]) = logOf cl ++ r.ops := by
  simp [logOf]

theorem serialFrom_append (acc : List OpId) (cl : List CRec) (r : CRec) :
    SerialFrom acc (cl ++ [r]) ↔ SerialFrom acc cl ∧ r.base = acc ++ logOf cl := by
  induction cl generalizing acc with
  | nil => simp [SerialFrom]
  | cons x xs ih =>
    simp only [List.cons_append, SerialFrom, ih, logOf_cons, List.append_assoc]
    constructor
    · rintro ⟨h1, h2, h3⟩; exact ⟨⟨h1, h2⟩, h3⟩
    · rintro ⟨⟨h1, h2⟩, h3⟩; exact ⟨h1, h2, h3⟩

def Linv (s : State) : Prop :=
  (∀ t, s.eng.txn = some t → (s.txns t).base = s.eng.catalog) ∧
  (∀ a t, (s.loc a).pc = .cStore → (s.loc a).t = some t → (s.txns t).base = s.eng.catalog) ∧
  s.eng.catalog = logOf s.commitLog ∧
  SerialFrom [] s.commitLog

theorem linv_init (n : Nat) : Linv (init n) := by
  refine ⟨?_, fun b => ?_, ?_, ?_⟩
  all_goals (simp only [init]; try (by_cases hb : b = 0 <;> simp [hb]))
  all_goals simp [SerialFrom]

macro "log_simp" : tactic => `(tactic|
  simp only [State.put, State.putS, State.finish, State.write, upd_apply, Eng.unlock, Eng.release,
    Local.back, Local.invoke, newTxn, logOf_append, serialFrom_append, List.append_nil, List.nil_append,
    if_true, if_false, ite_true, ite_false])

set_option maxHeartbeats 1000000 in
theorem linv_idle {s s' : State} {a : ActorId} {c : Choice} (inv1 : Inv1 s) (bnd : Bnd s) (g : Linv s)
    (hpc : (s.loc a).pc = .idle) (hs : stepIdle s a (s.loc a) c = some s') : Linv s' := by
  obtain ⟨l1, l2, l3, l4⟩ := g
  obtain ⟨b1, b2, b3, b4⟩ := bnd
  have i2 := inv1.holder_iff
  have i2a := i2 a
  have i3 := inv1.conserv
  have l2a := l2 a
  have b2a := b2 a
  clear inv1 b3 b4
  simp only [THold] at *
  unfold stepIdle at hs
  conc_split hs
  all_goals (
    refine ⟨?_, fun b t => ?_, ?_, ?_⟩
    · first
      | exact l1
      | (clear l2 i2 b2
         (try log_simp); grind)
    · have hl2b := l2 b t; have := i2 b; have := b2 b t
      clear l2 i2 b2
      by_cases hba : b = a
      · subst hba; (try log_simp); grind
      · have hab : ¬ a = b := fun h => hba h.symm
        try simp only [State.put, State.putS, State.finish, State.write, upd_apply, if_neg hba, if_neg hab]
        first
        | exact hl2b
        | ((try log_simp); grind)
    · first
      | exact l3
      | (clear l2 i2 b2
         (try log_simp); grind)
    · first
      | exact l4
      | (clear l2 i2 b2
         (try log_simp); grind))

set_option maxHeartbeats 1000000 in
theorem linv_begin {s s' : State} {a : ActorId} {c : Choice} (inv1 : Inv1 s) (bnd : Bnd s) (g : Linv s)
    (hs : stepBegin s a (s.loc a) c = some s') : Linv s' := by
  obtain ⟨l1, l2, l3, l4⟩ := g
  obtain ⟨b1, b2, b3, b4⟩ := bnd
  have i2 := inv1.holder_iff
  have i2a := i2 a
  have i3 := inv1.conserv
  have l2a := l2 a
  have b2a := b2 a
  clear inv1 b3 b4
  simp only [THold] at *
  unfold stepBegin at hs
  conc_split hs
  all_goals (
    refine ⟨?_, fun b t => ?_, ?_, ?_⟩
    · first
      | exact l1
      | (clear l2 i2 b2
         (try log_simp); grind)
    · have hl2b := l2 b t; have := i2 b; have := b2 b t
      clear l2 i2 b2
      by_cases hba : b = a
      · subst hba; (try log_simp); grind
      · have hab : ¬ a = b := fun h => hba h.symm
        try simp only [State.put, State.putS, State.finish, State.write, upd_apply, if_neg hba, if_neg hab]
        first
        | exact hl2b
        | ((try log_simp); grind)
    · first
      | exact l3
      | (clear l2 i2 b2
         (try log_simp); grind)
    · first
      | exact l4
      | (clear l2 i2 b2
         (try log_simp); grind))

set_option maxHeartbeats 1000000 in
theorem linv_commit {s s' : State} {a : ActorId} {c : Choice} (inv1 : Inv1 s) (bnd : Bnd s) (g : Linv s)
    (hs : stepCommit s a (s.loc a) c = some s') : Linv s' := by
  obtain ⟨l1, l2, l3, l4⟩ := g
  obtain ⟨b1, b2, b3, b4⟩ := bnd
  have i2 := inv1.holder_iff
  have i2a := i2 a
  have i3 := inv1.conserv
  have l2a := l2 a
  have b2a := b2 a
  clear inv1 b3 b4
  simp only [THold] at *
  unfold stepCommit at hs
  conc_split hs
  all_goals (
    refine ⟨?_, fun b t => ?_, ?_, ?_⟩
    · first
      | exact l1
      | (clear l2 i2 b2
         (try log_simp); grind)
    · have hl2b := l2 b t; have := i2 b; have := b2 b t
      clear l2 i2 b2
      by_cases hba : b = a
      · subst hba; (try log_simp); grind
      · have hab : ¬ a = b := fun h => hba h.symm
        try simp only [State.put, State.putS, State.finish, State.write, upd_apply, if_neg hba, if_neg hab]
        first
        | exact hl2b
        | ((try log_simp); grind)
    · first
      | exact l3
      | (clear l2 i2 b2
         (try log_simp); grind)
    · first
      | exact l4
      | (clear l2 i2 b2
         (try log_simp); grind))

set_option maxHeartbeats 1000000 in
theorem linv_abort {s s' : State} {a : ActorId} {c : Choice} (inv1 : Inv1 s) (bnd : Bnd s) (g : Linv s)
    (hs : stepAbort s a (s.loc a) c = some s') : Linv s' := by
  obtain ⟨l1, l2, l3, l4⟩ := g
  obtain ⟨b1, b2, b3, b4⟩ := bnd
  have i2 := inv1.holder_iff
  have i2a := i2 a
  have i3 := inv1.conserv
  have l2a := l2 a
  have b2a := b2 a
  clear inv1 b3 b4
  simp only [THold] at *
  unfold stepAbort at hs
  conc_split hs
  all_goals (
    refine ⟨?_, fun b t => ?_, ?_, ?_⟩
    · first
      | exact l1
      | (clear l2 i2 b2
         (try log_simp); grind)
    · have hl2b := l2 b t; have := i2 b; have := b2 b t
      clear l2 i2 b2
      by_cases hba : b = a
      · subst hba; (try log_simp); grind
      · have hab : ¬ a = b := fun h => hba h.symm
        try simp only [State.put, State.putS, State.finish, State.write, upd_apply, if_neg hba, if_neg hab]
        first
        | exact hl2b
        | ((try log_simp); grind)
    · first
      | exact l3
      | (clear l2 i2 b2
         (try log_simp); grind)
    · first
      | exact l4
      | (clear l2 i2 b2
         (try log_simp); grind))

set_option maxHeartbeats 1000000 in
theorem linv_after {s s' : State} {a : ActorId} {c : Choice} (inv1 : Inv1 s) (bnd : Bnd s) (g : Linv s)
    (hpc : (s.loc a).pc = .after) (hs : stepAfter s a (s.loc a) c = some s') : Linv s' := by
  obtain ⟨l1, l2, l3, l4⟩ := g
  obtain ⟨b1, b2, b3, b4⟩ := bnd
  have i2 := inv1.holder_iff
  have i2a := i2 a
  have i3 := inv1.conserv
  have l2a := l2 a
  have b2a := b2 a
  clear inv1 b3 b4
  simp only [THold] at *
  unfold stepAfter at hs
  conc_split hs
  all_goals (
    refine ⟨?_, fun b t => ?_, ?_, ?_⟩
    · first
      | exact l1
      | (clear l2 i2 b2
         (try log_simp); grind)
    · have hl2b := l2 b t; have := i2 b; have := b2 b t
      clear l2 i2 b2
      by_cases hba : b = a
      · subst hba; (try log_simp); grind
      · have hab : ¬ a = b := fun h => hba h.symm
        try simp only [State.put, State.putS, State.finish, State.write, upd_apply, if_neg hba, if_neg hab]
        first
        | exact hl2b
        | ((try log_simp); grind)
    · first
      | exact l3
      | (clear l2 i2 b2
         (try log_simp); grind)
    · first
      | exact l4
      | (clear l2 i2 b2
         (try log_simp); grind))

set_option maxHeartbeats 1000000 in
theorem linv_use {s s' : State} {a : ActorId} {c : Choice} (inv1 : Inv1 s) (bnd : Bnd s) (g : Linv s)
    (hs : stepUse s a (s.loc a) c = some s') : Linv s' := by
  obtain ⟨l1, l2, l3, l4⟩ := g
  obtain ⟨b1, b2, b3, b4⟩ := bnd
  have i2 := inv1.holder_iff
  have i2a := i2 a
  have i3 := inv1.conserv
  have l2a := l2 a
  have b2a := b2 a
  clear inv1 b3 b4
  simp only [THold] at *
  unfold stepUse at hs
  conc_split hs
  all_goals (
    refine ⟨?_, fun b t => ?_, ?_, ?_⟩
    · first
      | exact l1
      | (clear l2 i2 b2
         (try log_simp); grind)
    · have hl2b := l2 b t; have := i2 b; have := b2 b t
      clear l2 i2 b2
      by_cases hba : b = a
      · subst hba; (try log_simp); grind
      · have hab : ¬ a = b := fun h => hba h.symm
        try simp only [State.put, State.putS, State.finish, State.write, upd_apply, if_neg hba, if_neg hab]
        first
        | exact hl2b
        | ((try log_simp); grind)
    · first
      | exact l3
      | (clear l2 i2 b2
         (try log_simp); grind)
    · first
      | exact l4
      | (clear l2 i2 b2
         (try log_simp); grind))

set_option maxHeartbeats 1000000 in
theorem linv_sess {s s' : State} {a : ActorId} {c : Choice} (inv1 : Inv1 s) (bnd : Bnd s) (g : Linv s)
    (hs : stepSess s a (s.loc a) c = some s') : Linv s' := by
  obtain ⟨l1, l2, l3, l4⟩ := g
  obtain ⟨b1, b2, b3, b4⟩ := bnd
  have i2 := inv1.holder_iff
  have i2a := i2 a
  have i3 := inv1.conserv
  have l2a := l2 a
  have b2a := b2 a
  clear inv1 b3 b4
  simp only [THold] at *
  unfold stepSess at hs
  conc_split hs
  all_goals (
    refine ⟨?_, fun b t => ?_, ?_, ?_⟩
    · first
      | exact l1
      | (clear l2 i2 b2
         (try log_simp); grind)
    · have hl2b := l2 b t; have := i2 b; have := b2 b t
      clear l2 i2 b2
      by_cases hba : b = a
      · subst hba; (try log_simp); grind
      · have hab : ¬ a = b := fun h => hba h.symm
        try simp only [State.put, State.putS, State.finish, State.write, upd_apply, if_neg hba, if_neg hab]
        first
        | exact hl2b
        | ((try log_simp); grind)
    · first
      | exact l3
      | (clear l2 i2 b2
         (try log_simp); grind)
    · first
      | exact l4
      | (clear l2 i2 b2
         (try log_simp); grind))

set_option maxHeartbeats 1000000 in
theorem linv_close {s s' : State} {a : ActorId} {c : Choice} (inv1 : Inv1 s) (bnd : Bnd s) (g : Linv s)
    (hs : stepClose s a (s.loc a) c = some s') : Linv s' := by
  obtain ⟨l1, l2, l3, l4⟩ := g
  obtain ⟨b1, b2, b3, b4⟩ := bnd
  have i2 := inv1.holder_iff
  have i2a := i2 a
  have i3 := inv1.conserv
  have l2a := l2 a
  have b2a := b2 a
  clear inv1 b3 b4
  simp only [THold] at *
  unfold stepClose at hs
  conc_split hs
  all_goals (
    refine ⟨?_, fun b t => ?_, ?_, ?_⟩
    · first
      | exact l1
      | (clear l2 i2 b2
         (try log_simp); grind)
    · have hl2b := l2 b t; have := i2 b; have := b2 b t
      clear l2 i2 b2
      by_cases hba : b = a
      · subst hba; (try log_simp); grind
      · have hab : ¬ a = b := fun h => hba h.symm
        try simp only [State.put, State.putS, State.finish, State.write, upd_apply, if_neg hba, if_neg hab]
        first
        | exact hl2b
        | ((try log_simp); grind)
    · first
      | exact l3
      | (clear l2 i2 b2
         (try log_simp); grind)
    · first
      | exact l4
      | (clear l2 i2 b2
         (try log_simp); grind))

set_option maxHeartbeats 1000000 in
theorem linv_exp {s s' : State} {a : ActorId} {c : Choice} (inv1 : Inv1 s) (bnd : Bnd s) (g : Linv s)
    (hs : stepExp s a (s.loc a) c = some s') : Linv s' := by
  obtain ⟨l1, l2, l3, l4⟩ := g
  obtain ⟨b1, b2, b3, b4⟩ := bnd
  have i2 := inv1.holder_iff
  have i2a := i2 a
  have i3 := inv1.conserv
  have l2a := l2 a
  have b2a := b2 a
  clear inv1 b3 b4
  simp only [THold] at *
  unfold stepExp at hs
  conc_split hs
  all_goals (
    refine ⟨?_, fun b t => ?_, ?_, ?_⟩
    · first
      | exact l1
      | (clear l2 i2 b2
         (try log_simp); grind)
    · have hl2b := l2 b t; have := i2 b; have := b2 b t
      clear l2 i2 b2
      by_cases hba : b = a
      · subst hba; (try log_simp); grind
      · have hab : ¬ a = b := fun h => hba h.symm
        try simp only [State.put, State.putS, State.finish, State.write, upd_apply, if_neg hba, if_neg hab]
        first
        | exact hl2b
        | ((try log_simp); grind)
    · first
      | exact l3
      | (clear l2 i2 b2
         (try log_simp); grind)
    · first
      | exact l4
      | (clear l2 i2 b2
         (try log_simp); grind))

end Lungo.Conc
