/-
  Lungo.Proofs.ApplyLaws — laws of the update operators (mongokit/apply.go), used by C11:
  idempotence of $set/$unset/$min/$max/$addToSet/$pull/$pullAll at a resolved path.
-/
import Lungo.Model.Apply
import Lungo.Proofs.AccessLaws
import Lungo.Proofs.CompareLaws
namespace Lungo

/-! ### record / putRec -/

theorem record_fresh (d : Doc) (path : String) (val : V) :
    record { doc := d, changed := [] } path val = .ok { doc := d, changed := [(path, val)] } := by
  simp [record]

theorem record_doc {s s' : AState} {path : String} {val : V} (h : record s path val = .ok s') :
    s'.doc = s.doc := by
  unfold record at h
  simp only at h
  split at h
  · cases h
  · cases h; rfl

theorem putRec_ok {s s1 : AState} {path : String} {v : V} (h : putRec s path v = .ok s1) :
    ∃ prev, Put s.doc (splitPath path) v false = .ok (s1.doc, prev) := by
  unfold putRec at h
  split at h
  · cases h
  · rename_i d pv hput
    exact ⟨pv, by rw [hput, record_doc h]⟩

/-- `bsonkit.Put` of the same value a second time returns the same document. -/
theorem Put_idempotent {d d1 : Doc} {p : Path} {x prev : V} {pre : Bool} (hp : p ≠ [])
    (h : Put d p x pre = .ok (d1, prev)) : Put d1 p x pre = .ok (d1, x) := by
  cases p with
  | nil => exact absurd rfl hp
  | cons key rest =>
    rw [Put_ok_iff] at h ⊢
    exact ⟨h.1, put_idempotent _ _ _ _ _ _ h.2 h.1⟩

theorem putRec_fresh_of_Put {d1 : Doc} {path : String} {v x : V}
    (h : Put d1 (splitPath path) v false = .ok (d1, x)) :
    putRec { doc := d1, changed := [] } path v = .ok { doc := d1, changed := [(path, v)] } := by
  unfold putRec
  simp only [h, record_fresh]

/-- after `putRec` succeeded, doing it again on the result (fresh change log) keeps the document. -/
theorem putRec_again {s s1 : AState} {path : String} {v : V} (h : putRec s path v = .ok s1) :
    putRec { doc := s1.doc, changed := [] } path v = .ok { doc := s1.doc, changed := [(path, v)] } := by
  obtain ⟨prev, hput⟩ := putRec_ok h
  exact putRec_fresh_of_Put (Put_idempotent (splitPath_ne_nil path) hput)

/-- the value just written by `bsonkit.Put` is read back. -/
theorem getP_Put {d d1 : Doc} {p : Path} {x prev : V} {pre : Bool} (hp : p ≠ [])
    (h : Put d p x pre = .ok (d1, prev)) : getP d1 p = x := by
  cases p with
  | nil => exact absurd rfl hp
  | cons key rest =>
    rw [Put_ok_iff] at h
    unfold getP
    rw [get_put_same _ _ _ _ _ _ false h.2 h.1]

/-! ### $set, $min, $max -/

/-- the idempotence statement: a second application on the result, with a fresh change log,
    succeeds and leaves the document as it is. -/
def IdemAt (c : ACtx) (op path : String) (v : V) (s1 : AState) : Prop :=
  ∃ s2, applyOp c { doc := s1.doc, changed := [] } op path v = .ok s2 ∧ s2.doc = s1.doc

theorem set_idem (c : ACtx) (s s1 : AState) (path : String) (v : V)
    (h : applyOp c s "$set" path v = .ok s1) : IdemAt c "$set" path v s1 := by
  unfold applyOp at h; simp only [] at h
  unfold IdemAt applyOp; simp only []
  exact ⟨_, putRec_again h, rfl⟩

theorem min_idem (c : ACtx) (s s1 : AState) (path : String) (v : V)
    (h : applyOp c s "$min" path v = .ok s1) : IdemAt c "$min" path v s1 := by
  unfold applyOp at h; simp only [] at h
  unfold IdemAt applyOp; simp only []
  have again : ∀ s0, putRec s0 path v = .ok s1 →
      ∃ s2, (if (getP s1.doc (splitPath path)).isMissing = true then
                putRec { doc := s1.doc, changed := [] } path v
             else if (V.cmp (getP s1.doc (splitPath path)) v == .gt) = true then
                putRec { doc := s1.doc, changed := [] } path v
             else .ok { doc := s1.doc, changed := [] }) = .ok s2 ∧ s2.doc = s1.doc := by
    intro s0 h0
    have := putRec_again h0
    split
    · exact ⟨_, this, rfl⟩
    · split
      · exact ⟨_, this, rfl⟩
      · exact ⟨_, rfl, rfl⟩
  split at h
  · exact again _ h
  · split at h
    · exact again _ h
    · rename_i h1 h2
      cases h
      simp only [h1, h2, if_false, Bool.false_eq_true]
      exact ⟨_, rfl, rfl⟩

theorem max_idem (c : ACtx) (s s1 : AState) (path : String) (v : V)
    (h : applyOp c s "$max" path v = .ok s1) : IdemAt c "$max" path v s1 := by
  unfold applyOp at h; simp only [] at h
  unfold IdemAt applyOp; simp only []
  have again : ∀ s0, putRec s0 path v = .ok s1 →
      ∃ s2, (if (getP s1.doc (splitPath path)).isMissing = true then
                putRec { doc := s1.doc, changed := [] } path v
             else if (V.cmp (getP s1.doc (splitPath path)) v == .lt) = true then
                putRec { doc := s1.doc, changed := [] } path v
             else .ok { doc := s1.doc, changed := [] }) = .ok s2 ∧ s2.doc = s1.doc := by
    intro s0 h0
    have := putRec_again h0
    split
    · exact ⟨_, this, rfl⟩
    · split
      · exact ⟨_, this, rfl⟩
      · exact ⟨_, rfl, rfl⟩
  split at h
  · exact again _ h
  · split at h
    · exact again _ h
    · rename_i h1 h2
      cases h
      simp only [h1, h2, if_false, Bool.false_eq_true]
      exact ⟨_, rfl, rfl⟩

/-! ### $unset -/

/-- `bsonkit.Unset` twice = once, on documents without duplicate keys. -/
theorem Unset_idempotent (d : Doc) (p : Path) (hp : p ≠ []) (hn : (V.doc d).nodupKeys = true) :
    (Unset (Unset d p).1 p).1 = (Unset d p).1 := by
  cases p with
  | nil => exact absurd rfl hp
  | cons key rest =>
    rw [Unset_eq d]
    cases h1 : put (.doc d) (key :: rest) .missing false with
    | error e => simp only; rw [Unset_eq, h1]
    | ok r =>
      obtain ⟨nv, prev⟩ := r
      obtain ⟨d1, e1⟩ := put_doc_isDoc _ _ _ _ _ _ _ h1
      subst e1
      simp only
      rw [Unset_eq]
      rcases put_missing_twice _ _ _ _ _ h1 hn with ⟨e, h2⟩ | ⟨pv, h2⟩
      · rw [h2]
      · rw [h2]

theorem unset_idem (c : ACtx) (s s1 : AState) (path : String) (v : V)
    (hn : (V.doc s.doc).nodupKeys = true)
    (h : applyOp c s "$unset" path v = .ok s1) : IdemAt c "$unset" path v s1 := by
  unfold applyOp at h; simp only [] at h
  unfold IdemAt applyOp; simp only []
  have hd : s1.doc = (Unset s.doc (splitPath path)).1 := by
    split at h
    · cases h; rfl
    · rw [record_doc h]
  have h2 := Unset_idempotent s.doc (splitPath path) (splitPath_ne_nil path) hn
  rw [← hd] at h2
  split
  · exact ⟨_, rfl, h2⟩
  · rw [record_fresh]; exact ⟨_, rfl, h2⟩

/-! ### $pullAll -/

theorem pullAll_idem (c : ACtx) (s s1 : AState) (path : String) (v : V)
    (h : applyOp c s "$pullAll" path v = .ok s1) : IdemAt c "$pullAll" path v s1 := by
  unfold applyOp at h; simp only [] at h
  unfold IdemAt applyOp; simp only []
  split at h
  · rename_i targets
    split at h
    · rename_i hg; cases h; simp only [hg]; exact ⟨_, rfl, rfl⟩
    · rename_i arr hg
      split at h
      · rename_i hl; cases h; simp only [hg, hl, if_true]; exact ⟨_, rfl, rfl⟩
      · split at h
        · cases h
        · rename_i d pv hput
          have hd := record_doc h
          simp only at hd
          have hg' : getP s1.doc (splitPath path) =
              .arr (arr.filter fun item => !(targets.any fun t => V.cmp item t == .eq)) := by
            rw [hd]
            exact getP_Put (splitPath_ne_nil path) hput
          simp only [hg', List.filter_filter, Bool.and_self, beq_self_eq_true, if_true]
          exact ⟨_, rfl, rfl⟩
    · rename_i hne1 hne2
      cases h
  · cases h

/-! ### $pull -/

theorem pullFilter_idem (sch : SchemaEval) (cond : V) (arr result : List V) (removed : Bool)
    (h : pullFilter sch cond arr = .ok (result, removed)) :
    pullFilter sch cond result = .ok (result, false) := by
  induction arr generalizing result removed with
  | nil => simp only [pullFilter] at h; cases h; rfl
  | cons item r ih =>
    simp only [pullFilter] at h
    split at h
    · cases h
    · rename_i m hm
      split at h
      · cases h
      · rename_i rest rem hr
        split at h
        · cases h; exact ih _ _ hr
        · cases h
          simp only [pullFilter, hm, ih _ _ hr]
          simp_all

theorem pull_idem (c : ACtx) (s s1 : AState) (path : String) (v : V)
    (h : applyOp c s "$pull" path v = .ok s1) : IdemAt c "$pull" path v s1 := by
  unfold applyOp at h; simp only [] at h
  unfold IdemAt applyOp; simp only []
  split at h
  · rename_i hg; cases h; simp only [hg]; exact ⟨_, rfl, rfl⟩
  · rename_i arr hg
    split at h
    · cases h
    · rename_i result removed hf
      split at h
      · rename_i hr; cases h; simp only [hg, hf, hr, if_true]; exact ⟨_, rfl, rfl⟩
      · split at h
        · cases h
        · rename_i d pv hput
          have hd := record_doc h
          simp only at hd
          have hg' : getP s1.doc (splitPath path) = .arr result := by
            rw [hd]
            exact getP_Put (splitPath_ne_nil path) hput
          simp only [hg', pullFilter_idem _ _ _ _ _ hf]
          exact ⟨_, rfl, rfl⟩
  · cases h

/-! ### $addToSet -/

/-- the accumulation step of $addToSet -/
def addStep (acc : List V) (val : V) : List V :=
  if acc.any (fun ex => V.cmp ex val == .eq) then acc else acc ++ [val]

def present (acc : List V) (val : V) : Bool := acc.any (fun ex => V.cmp ex val == .eq)

theorem present_append (acc extra : List V) (val : V) (h : present acc val = true) :
    present (acc ++ extra) val = true := by
  unfold present at h ⊢
  rw [List.any_append, h, Bool.true_or]

theorem addFold_prefix (values acc : List V) : ∃ extra, values.foldl addStep acc = acc ++ extra := by
  induction values generalizing acc with
  | nil => exact ⟨[], by simp⟩
  | cons val r ih =>
    simp only [List.foldl_cons]
    obtain ⟨e, he⟩ := ih (addStep acc val)
    rw [he]
    unfold addStep
    split
    · exact ⟨e, rfl⟩
    · exact ⟨[val] ++ e, by simp⟩

theorem addStep_present (acc : List V) (val : V) : present (addStep acc val) val = true := by
  unfold addStep
  split
  · assumption
  · simp [present, V.cmp_refl]

theorem addFold_present (values acc : List V) :
    ∀ val ∈ values, present (values.foldl addStep acc) val = true := by
  induction values generalizing acc with
  | nil => intro val hv; cases hv
  | cons a r ih =>
    intro val hv
    simp only [List.foldl_cons]
    rcases List.mem_cons.mp hv with e | hm
    · subst e
      obtain ⟨ex, he⟩ := addFold_prefix r (addStep acc val)
      rw [he]
      exact present_append _ _ _ (addStep_present acc val)
    · exact ih _ _ hm

theorem addFold_fixed (values acc : List V) (h : ∀ val ∈ values, present acc val = true) :
    values.foldl addStep acc = acc := by
  induction values with
  | nil => rfl
  | cons a r ih =>
    simp only [List.foldl_cons]
    have ha : addStep acc a = acc := by
      unfold addStep
      have := h a (List.mem_cons_self)
      unfold present at this
      simp only [this, if_true]
    rw [ha]
    exact ih (fun val hv => h val (List.mem_cons_of_mem _ hv))

theorem addFold_idem (values arr : List V) :
    values.foldl addStep (values.foldl addStep arr) = values.foldl addStep arr :=
  addFold_fixed _ _ (addFold_present values arr)

theorem addToSet_idem (c : ACtx) (s s1 : AState) (path : String) (v : V)
    (h : applyOp c s "$addToSet" path v = .ok s1) : IdemAt c "$addToSet" path v s1 := by
  unfold applyOp at h; simp only [] at h
  unfold IdemAt applyOp; simp only []
  split at h
  · cases h
  · rename_i values hv
    split at h
    · cases h
    · rename_i arr harr
      change (if ((values.foldl addStep arr).length == arr.length) = true then _ else _) = _ at h
      split at h
      · rename_i hl
        cases h
        simp only [harr]
        change ∃ s2, (if ((values.foldl addStep arr).length == arr.length) = true then _ else _) = _ ∧ _
        simp only [hl, if_true]
        exact ⟨_, rfl, rfl⟩
      · rename_i hl
        split at h
        · cases h
        · rename_i d pv hput
          have hd := record_doc h
          simp only at hd
          have h' := getP_Put (splitPath_ne_nil path) hput
          -- the array just written is read back: nothing to add any more
          rw [← hd] at h'
          simp only [h']
          change ∃ s2, (if ((values.foldl addStep (values.foldl addStep arr)).length ==
            (values.foldl addStep arr).length) = true then _ else _) = _ ∧ _
          simp only [addFold_idem, beq_self_eq_true, if_true]
          exact ⟨_, rfl, rfl⟩

/-! ### the change log is conflict free -/

/-- two recorded paths conflict when one is a prefix of the other (or they are equal). -/
def related (p q : Path) : Bool := isPrefixOf p q || isPrefixOf q p

/-- no two recorded paths are prefix-related. -/
def ConflictFree (ch : List (String × V)) : Prop :=
  ch.Pairwise fun a b => related (splitPath a.1) (splitPath b.1) = false

theorem record_changed {s s' : AState} {path : String} {val : V} (h : record s path val = .ok s') :
    s'.changed = s.changed ++ [(path, val)] ∧
      (∀ a ∈ s.changed, related (splitPath a.1) (splitPath path) = false) := by
  unfold record at h
  simp only at h
  split at h
  · cases h
  · rename_i hany
    cases h
    refine ⟨rfl, ?_⟩
    intro a ha
    simp only [List.any_eq_true, not_exists, not_and, Bool.not_eq_true] at hany
    exact hany a ha

theorem record_cf {s s' : AState} {path : String} {val : V} (h : record s path val = .ok s')
    (hc : ConflictFree s.changed) : ConflictFree s'.changed := by
  obtain ⟨e, hnew⟩ := record_changed h
  unfold ConflictFree at hc ⊢
  rw [e, List.pairwise_append]
  refine ⟨hc, List.pairwise_singleton _ _, ?_⟩
  intro a ha b hb
  simp only [List.mem_singleton] at hb
  subst hb
  exact hnew a ha

theorem putRec_cf {s s' : AState} {path : String} {v : V} (h : putRec s path v = .ok s')
    (hc : ConflictFree s.changed) : ConflictFree s'.changed := by
  unfold putRec at h
  split at h
  · cases h
  · exact record_cf h hc

theorem recs_cf {path : String} {s s' : AState} {i : Nat} {vals : List V}
    (h : applyOp.recs path s i vals = .ok s') (hc : ConflictFree s.changed) : ConflictFree s'.changed := by
  induction vals generalizing s i with
  | nil => unfold applyOp.recs at h; cases h; exact hc
  | cons val r ih =>
    unfold applyOp.recs at h
    split at h
    · cases h
    · rename_i s1 h1; exact ih h (record_cf h1 hc)

/-- every operator keeps the change log conflict free (all writes to it go through `record`). -/
theorem applyOp_cf (c : ACtx) (s s' : AState) (op path : String) (v : V)
    (h : applyOp c s op path v = .ok s') (hc : ConflictFree s.changed) : ConflictFree s'.changed := by
  unfold applyOp at h
  simp only [] at h
  split at h
  all_goals
    repeat' (first
      | (cases h; done)
      | (cases h; exact hc)
      | exact putRec_cf h hc
      | exact record_cf h hc
      | exact recs_cf h hc
      | split at h)
  -- $rename: two records in a row
  all_goals (rename_i h1; exact record_cf h (record_cf h1 hc))

theorem Apply_each_cf (c : ACtx) (op : String) (value : V) (s s' : AState) (ps : List String)
    (h : Apply.conds.each c op value s ps = .ok s') (hc : ConflictFree s.changed) :
    ConflictFree s'.changed := by
  induction ps generalizing s with
  | nil => unfold Apply.conds.each at h; cases h; exact hc
  | cons p r ih =>
    unfold Apply.conds.each at h
    split at h
    · cases h
    · rename_i s1 h1; exact ih _ h (applyOp_cf _ _ _ _ _ _ h1 hc)

theorem Apply_conds_cf (c : ACtx) (afs : List Doc) (s s' : AState) (op : String) (upd : List (String × V))
    (h : Apply.conds c afs s op upd = .ok s') (hc : ConflictFree s.changed) :
    ConflictFree s'.changed := by
  induction upd generalizing s with
  | nil => unfold Apply.conds at h; cases h; exact hc
  | cons kv r ih =>
    obtain ⟨key, value⟩ := kv
    unfold Apply.conds at h
    split at h
    · cases h
    · split at h
      · cases h
      · rename_i s1 h1; exact ih _ h (Apply_each_cf _ _ _ _ _ _ h1 hc)

theorem Apply_ops_cf (c : ACtx) (afs : List Doc) (s s' : AState) (upd : List (String × V))
    (h : Apply.ops c afs s upd = .ok s') (hc : ConflictFree s.changed) :
    ConflictFree s'.changed := by
  induction upd generalizing s with
  | nil => unfold Apply.ops at h; cases h; exact hc
  | cons kv r ih =>
    obtain ⟨key, value⟩ := kv
    unfold Apply.ops at h
    split at h
    · split at h
      · cases h
      · split at h
        · split at h
          · cases h
          · rename_i s1 h1; exact ih _ h (Apply_conds_cf _ _ _ _ _ _ h1 hc)
        · cases h
    · cases h

/-! ### checkPaths: the up-front conflict test over the literal paths of the update -/

/-- the segments at the first index, within the common length, where the two paths differ. -/
def firstDiff (p q : Path) : Option (String × String) :=
  match p, q with
  | [], _ => none
  | _ :: _, [] => none
  | a :: p', b :: q' => if a = b then firstDiff p' q' else some (a, b)

theorem firstDiff_some_iff (p q : Path) (a b : String) :
    firstDiff p q = some (a, b) ↔
      ∃ k : Nat, p[k]? = some a ∧ q[k]? = some b ∧ a ≠ b ∧ ∀ m, m < k → p[m]? = q[m]? := by
  induction p generalizing q with
  | nil =>
    unfold firstDiff
    constructor
    · intro h; cases h
    · rintro ⟨k, h, _⟩; simp at h
  | cons x p' ih =>
    cases q with
    | nil =>
      unfold firstDiff
      constructor
      · intro h; cases h
      · rintro ⟨k, _, h, _⟩; simp at h
    | cons y q' =>
      unfold firstDiff
      split
      · rename_i hxy
        subst hxy
        rw [ih]
        constructor
        · rintro ⟨k, h1, h2, h3, h4⟩
          refine ⟨k + 1, by simpa using h1, by simpa using h2, h3, ?_⟩
          intro m hm
          cases m with
          | zero => rfl
          | succ m => simpa using h4 m (by omega)
        · rintro ⟨k, h1, h2, h3, h4⟩
          cases k with
          | zero =>
            simp at h1 h2
            exact absurd (h1.symm.trans h2) h3
          | succ k =>
            refine ⟨k, by simpa using h1, by simpa using h2, h3, ?_⟩
            intro m hm
            simpa using h4 (m + 1) (by omega)
      · rename_i hxy
        constructor
        · intro h
          cases h
          exact ⟨0, rfl, rfl, hxy, fun m hm => absurd hm (Nat.not_lt_zero m)⟩
        · rintro ⟨k, h1, h2, h3, h4⟩
          cases k with
          | zero => simp at h1 h2; rw [h1, h2]
          | succ k =>
            have := h4 0 (by omega)
            simp at this
            exact absurd this hxy

/-- declaratively: at the first differing segment exactly one of the two is positional. -/
def PositionalClash (p q : Path) : Prop :=
  ∃ a b : String, firstDiff p q = some (a, b) ∧ isPositional a ≠ isPositional b

theorem positionalClash_iff (p q : Path) : positionalClash p q = true ↔ PositionalClash p q := by
  induction p generalizing q with
  | nil =>
    unfold positionalClash PositionalClash firstDiff
    simp
  | cons x p' ih =>
    cases q with
    | nil => unfold positionalClash PositionalClash firstDiff; simp
    | cons y q' =>
      unfold positionalClash PositionalClash firstDiff
      by_cases hxy : x = y
      · subst hxy
        simp only [bne_self_eq_false, Bool.false_eq_true, if_false, if_true]
        exact ih q'
      · simp only [hxy, if_false, bne_iff_ne, ne_eq, not_false_eq_true, if_true]
        constructor
        · intro h; exact ⟨x, y, rfl, h⟩
        · rintro ⟨a, b, e, h⟩; cases e; exact h

theorem firstDiff_swap (p q : Path) : firstDiff q p = (firstDiff p q).map (fun ab => (ab.2, ab.1)) := by
  induction p generalizing q with
  | nil => cases q <;> simp [firstDiff]
  | cons x p' ih =>
    cases q with
    | nil => simp [firstDiff]
    | cons y q' =>
      unfold firstDiff
      by_cases hxy : x = y
      · subst hxy; simp only [if_true]; exact ih q'
      · have : ¬ y = x := fun e => hxy e.symm
        simp [hxy, this]

theorem PositionalClash_symm {p q : Path} (h : PositionalClash p q) : PositionalClash q p := by
  obtain ⟨a, b, e, hne⟩ := h
  exact ⟨b, a, by rw [firstDiff_swap, e]; rfl, fun h' => hne h'.symm⟩

theorem positionalClash_comm (p q : Path) : positionalClash p q = positionalClash q p := by
  cases h1 : positionalClash p q <;> cases h2 : positionalClash q p <;> try rfl
  · have := PositionalClash_symm ((positionalClash_iff _ _).mp h2)
    rw [← positionalClash_iff, h1] at this; cases this
  · have := PositionalClash_symm ((positionalClash_iff _ _).mp h1)
    rw [← positionalClash_iff, h2] at this; cases this

/-- the index form of the declarative statement. -/
theorem PositionalClash_index_iff (p q : Path) :
    PositionalClash p q ↔
      ∃ (k : Nat) (a b : String), p[k]? = some a ∧ q[k]? = some b ∧ a ≠ b ∧ (∀ m, m < k → p[m]? = q[m]?) ∧
        isPositional a ≠ isPositional b := by
  unfold PositionalClash
  constructor
  · rintro ⟨a, b, e, h⟩
    obtain ⟨k, h1, h2, h3, h4⟩ := (firstDiff_some_iff p q a b).mp e
    exact ⟨k, a, b, h1, h2, h3, h4, h⟩
  · rintro ⟨k, a, b, h1, h2, h3, h4, h⟩
    exact ⟨a, b, (firstDiff_some_iff p q a b).mpr ⟨k, h1, h2, h3, h4⟩, h⟩

/-- two paths of one update conflict: prefix-related, or a positional clash. -/
def conflicting (p q : Path) : Bool := related p q || positionalClash p q

/-- the executable test (with the paths `seen` already inserted) finds nothing iff no inserted path
    conflicts with a listed one and the listed ones are pairwise conflict free. -/
theorem pathsConflict_false_iff (seen : List Path) (ps : List String) :
    pathsConflict seen ps = false ↔
      (∀ rp ∈ seen, ∀ q ∈ ps, conflicting rp (splitPath q) = false) ∧
        ps.Pairwise (fun a b => conflicting (splitPath a) (splitPath b) = false) := by
  induction ps generalizing seen with
  | nil => simp [pathsConflict]
  | cons path r ih =>
    unfold pathsConflict
    simp only []
    split
    · rename_i hany
      simp only [List.any_eq_true] at hany
      obtain ⟨rp, hrp, hrel⟩ := hany
      constructor
      · intro h; cases h
      · intro h
        have := h.1 rp hrp path List.mem_cons_self
        simp only [conflicting, related, Bool.or_eq_false_iff] at this
        rw [this.1.1, this.1.2] at hrel; cases hrel
    · rename_i hany
      simp only [List.any_eq_true, not_exists, not_and, Bool.not_eq_true] at hany
      split
      · rename_i hany2
        simp only [List.any_eq_true] at hany2
        obtain ⟨rp, hrp, hrel⟩ := hany2
        constructor
        · intro h; cases h
        · intro h
          have := h.1 rp hrp path List.mem_cons_self
          simp only [conflicting, Bool.or_eq_false_iff] at this
          rw [positionalClash_comm, this.2] at hrel; cases hrel
      · rename_i hany2
        simp only [List.any_eq_true, not_exists, not_and, Bool.not_eq_true] at hany2
        have hnew : ∀ rp ∈ seen, conflicting rp (splitPath path) = false := by
          intro rp hrp
          have h1 := hany rp hrp
          have h2 := hany2 rp hrp
          rw [positionalClash_comm] at h2
          simp only [conflicting, related, h2, Bool.or_false]
          exact h1
        rw [ih, List.pairwise_cons]
        constructor
        · rintro ⟨h1, h2⟩
          refine ⟨?_, ?_, h2⟩
          · intro rp hrp q hq
            rcases List.mem_cons.mp hq with e | hq
            · subst e; exact hnew rp hrp
            · exact h1 rp (List.mem_append_left _ hrp) q hq
          · intro q hq
            exact h1 _ (List.mem_append_right _ (List.mem_singleton.mpr rfl)) q hq
        · rintro ⟨h1, h2, h3⟩
          refine ⟨?_, h3⟩
          intro rp hrp q hq
          rcases List.mem_append.mp hrp with hrp | hrp
          · exact h1 rp hrp q (List.mem_cons_of_mem _ hq)
          · rw [List.mem_singleton.mp hrp]; exact h2 q hq

/-- the declarative conflict statement: two paths of the list, at positions `i < j`, are
    segment-wise prefix-related (one is a prefix of the other; equal paths included) — or (second
    disjunct) at their first differing segment exactly one of the two is positional. -/
def PrefixRelatedPair (ps : List String) : Prop :=
  ∃ (i j : Nat) (p q : String), i < j ∧ ps[i]? = some p ∧ ps[j]? = some q ∧
    (isPrefixOf (splitPath p) (splitPath q) = true ∨ isPrefixOf (splitPath q) (splitPath p) = true ∨
      PositionalClash (splitPath p) (splitPath q))

theorem conflicting_true_iff (p q : Path) :
    conflicting p q = true ↔
      (isPrefixOf p q = true ∨ isPrefixOf q p = true ∨ PositionalClash p q) := by
  simp only [conflicting, related, Bool.or_eq_true, positionalClash_iff, or_assoc]

/-- `pathsConflict_iff`: the executable test of `checkPaths` (starting from the empty tree) fires
    exactly when two listed paths are prefix-related or clash positionally. -/
theorem pathsConflict_iff (ps : List String) : pathsConflict [] ps = true ↔ PrefixRelatedPair ps := by
  constructor
  · intro h
    have hnp : ¬ ps.Pairwise (fun a b => conflicting (splitPath a) (splitPath b) = false) := by
      intro hp
      have := (pathsConflict_false_iff [] ps).mpr ⟨fun rp hrp => (nomatch hrp), hp⟩
      rw [this] at h; cases h
    rw [List.pairwise_iff_getElem] at hnp
    simp only [Classical.not_forall] at hnp
    obtain ⟨i, j, hi, hj, hij, hr⟩ := hnp
    refine ⟨i, j, ps[i], ps[j], hij, List.getElem?_eq_getElem hi, List.getElem?_eq_getElem hj, ?_⟩
    simp only [Bool.not_eq_false] at hr
    exact (conflicting_true_iff _ _).mp hr
  · rintro ⟨i, j, p, q, hij, hp, hq, hr⟩
    cases hc : pathsConflict [] ps with
    | true => rfl
    | false =>
      have := ((pathsConflict_false_iff [] ps).mp hc).2
      rw [List.pairwise_iff_getElem] at this
      obtain ⟨hi, ei⟩ := List.getElem?_eq_some_iff.mp hp
      obtain ⟨hj, ej⟩ := List.getElem?_eq_some_iff.mp hq
      have h := this i j hi hj hij
      rw [ei, ej, (conflicting_true_iff _ _).mpr hr] at h
      cases h

/-- `Apply` rejects (plain error) when the test fires — whatever the document, the context and
    the array filters, and before any operator runs. -/
theorem Apply_conflict (c : ACtx) (d u : Doc) (afs : List Doc)
    (h : pathsConflict [] (updatePaths u) = true) : Apply c d u afs = .error .err := by
  unfold Apply
  split
  · rfl
  · first | rfl | rw [if_pos h]

/-- a successful `Apply` passed the test. -/
theorem Apply_ok_noconflict (c : ACtx) (d u : Doc) (afs : List Doc) (r : Doc × List (String × V))
    (h : Apply c d u afs = .ok r) : pathsConflict [] (updatePaths u) = false := by
  cases hc : pathsConflict [] (updatePaths u) with
  | false => rfl
  | true => rw [Apply_conflict c d u afs hc] at h; cases h

/-- past the two up-front checks `Apply` is the operator loop on the fresh state. -/
theorem Apply_eq_ops (c : ACtx) (d u : Doc) (afs : List Doc) (he : u.isEmpty = false)
    (hc : pathsConflict [] (updatePaths u) = false) :
    Apply c d u afs =
      match Apply.ops c afs { doc := d, changed := [] } u with
      | .error e => .error e
      | .ok s => .ok (s.doc, s.changed) := by
  unfold Apply
  simp only [he, hc, Bool.false_eq_true, if_false]
  rfl

/-- a successful `Apply` is a successful run of the operator loop on the fresh state. -/
theorem Apply_ok_ops (c : ACtx) (d u : Doc) (afs : List Doc) (d' : Doc) (ch : List (String × V))
    (h : Apply c d u afs = .ok (d', ch)) :
    ∃ s, Apply.ops c afs { doc := d, changed := [] } u = .ok s ∧ s.doc = d' ∧ s.changed = ch := by
  have hc := Apply_ok_noconflict c d u afs _ h
  have he : u.isEmpty = false := by
    cases he : u.isEmpty with
    | false => rfl
    | true => unfold Apply at h; rw [if_pos he] at h; cases h
  rw [Apply_eq_ops c d u afs he hc] at h
  split at h
  · cases h
  · rename_i s hs
    cases h
    exact ⟨s, hs, rfl, rfl⟩

/-- an accepted update: its literal paths are pairwise unrelated and free of positional clashes. -/
theorem Apply_ok_pairwise (c : ACtx) (d u : Doc) (afs : List Doc) (r : Doc × List (String × V))
    (h : Apply c d u afs = .ok r) :
    (updatePaths u).Pairwise fun a b =>
      related (splitPath a) (splitPath b) = false ∧ positionalClash (splitPath a) (splitPath b) = false := by
  have := ((pathsConflict_false_iff [] _).mp (Apply_ok_noconflict c d u afs r h)).2
  refine this.imp ?_
  intro a b hab
  simpa only [conflicting, Bool.or_eq_false_iff] using hab

/-- an accepted update: no two literal paths (positions i < j) are prefix-related or clash
    positionally. -/
theorem Apply_ok_unrelated (c : ACtx) (d u : Doc) (afs : List Doc) (r : Doc × List (String × V))
    (h : Apply c d u afs = .ok r) (i j : Nat) (p q : String) (hij : i < j)
    (hp : (updatePaths u)[i]? = some p) (hq : (updatePaths u)[j]? = some q) :
    isPrefixOf (splitPath p) (splitPath q) = false ∧ isPrefixOf (splitPath q) (splitPath p) = false ∧
      ¬ PositionalClash (splitPath p) (splitPath q) := by
  have hc := Apply_ok_noconflict c d u afs r h
  have no : ¬ (isPrefixOf (splitPath p) (splitPath q) = true ∨ isPrefixOf (splitPath q) (splitPath p) = true ∨
      PositionalClash (splitPath p) (splitPath q)) := by
    intro hr
    rw [(pathsConflict_iff _).mpr ⟨i, j, p, q, hij, hp, hq, hr⟩] at hc; cases hc
  refine ⟨?_, ?_, fun h3 => no (.inr (.inr h3))⟩
  · cases h1 : isPrefixOf (splitPath p) (splitPath q) with
    | true => exact absurd (.inl h1) no
    | false => rfl
  · cases h2 : isPrefixOf (splitPath q) (splitPath p) with
    | true => exact absurd (.inr (.inl h2)) no
    | false => rfl

theorem fieldPaths_key_mem (op : String) (fields : List (String × V)) (key : String) (v : V)
    (hf : (key, v) ∈ fields) : key ∈ fieldPaths op fields := by
  induction fields with
  | nil => cases hf
  | cons kv r ih =>
    obtain ⟨k, x⟩ := kv
    unfold fieldPaths
    rcases List.mem_cons.mp hf with e | hm
    · cases e
      apply List.mem_append_left
      split
      · split <;> exact List.mem_cons_self
      · exact List.mem_cons_self
    · exact List.mem_append_right _ (ih hm)

theorem fieldPaths_target_mem (fields : List (String × V)) (key target : String)
    (hf : (key, V.str target) ∈ fields) : target ∈ fieldPaths "$rename" fields := by
  induction fields with
  | nil => cases hf
  | cons kv r ih =>
    obtain ⟨k, x⟩ := kv
    unfold fieldPaths
    rcases List.mem_cons.mp hf with e | hm
    · cases e
      apply List.mem_append_left
      simp
    · exact List.mem_append_right _ (ih hm)

theorem updatePaths_fields_sub (u : Doc) (op : String) (fields : List (String × V))
    (ho : (op, V.doc fields) ∈ u) : ∀ p ∈ fieldPaths op fields, p ∈ updatePaths u := by
  induction u with
  | nil => cases ho
  | cons kv r ih =>
    obtain ⟨k, x⟩ := kv
    intro p hp
    unfold updatePaths
    rcases List.mem_cons.mp ho with e | hm
    · cases e
      exact List.mem_append_left _ hp
    · exact List.mem_append_right _ (ih hm p hp)

theorem updatePaths_key_mem (u : Doc) (op : String) (fields : List (String × V)) (key : String) (v : V)
    (ho : (op, V.doc fields) ∈ u) (hf : (key, v) ∈ fields) : key ∈ updatePaths u :=
  updatePaths_fields_sub u op fields ho _ (fieldPaths_key_mem op fields key v hf)

theorem updatePaths_rename_target_mem (u : Doc) (fields : List (String × V)) (key target : String)
    (ho : ("$rename", V.doc fields) ∈ u) (hf : (key, V.str target) ∈ fields) : target ∈ updatePaths u :=
  updatePaths_fields_sub u "$rename" fields ho _ (fieldPaths_target_mem fields key target hf)

/-- `record_conflict_free`: the paths recorded by a successful Apply are pairwise not prefix-related. -/
theorem Apply_cf (c : ACtx) (d u : Doc) (afs : List Doc) (d' : Doc) (ch : List (String × V))
    (h : Apply c d u afs = .ok (d', ch)) : ConflictFree ch := by
  obtain ⟨s, hs, _, e⟩ := Apply_ok_ops c d u afs d' ch h
  subst e
  exact Apply_ops_cf _ _ _ _ _ hs List.Pairwise.nil

/-! ### recorded changes hold in the result (single-write operators) -/

theorem putRec_holds {s s1 : AState} {path : String} {x : V} (h : putRec s path x = .ok s1) :
    s1.changed = s.changed ++ [(path, x)] ∧ x.isMissing = false ∧
      Get s1.doc path = x := by
  obtain ⟨prev, hput⟩ := putRec_ok h
  unfold putRec at h
  split at h
  · cases h
  · refine ⟨(record_changed h).1, ?_, ?_⟩
    · obtain ⟨key, rest, e⟩ : ∃ key rest, splitPath path = key :: rest := by
        cases hsp : splitPath path with
        | nil => exact absurd hsp (splitPath_ne_nil path)
        | cons a b => exact ⟨a, b, rfl⟩
      rw [e, Put_ok_iff] at hput
      exact hput.1
    · exact getP_Put (splitPath_ne_nil path) hput

/-- the operators that perform at most one `Put` + `record` of the same present value. -/
def scalarOps : List String :=
  ["$set", "$setOnInsert", "$inc", "$mul", "$min", "$max", "$currentDate", "$bit",
   "$pull", "$pullAll", "$addToSet"]

theorem applyOp_scalar_shape (c : ACtx) (s s1 : AState) (op path : String) (v : V)
    (hop : op ∈ scalarOps) (h : applyOp c s op path v = .ok s1) :
    s1 = s ∨ ∃ x, putRec s path x = .ok s1 := by
  simp only [scalarOps, List.mem_cons, List.not_mem_nil, or_false] at hop
  rcases hop with e | e | e | e | e | e | e | e | e | e | e <;> subst e <;>
    (unfold applyOp at h; simp only [] at h) <;>
    repeat' (first
      | (cases h; done)
      | (cases h; exact .inl rfl)
      | exact .inr ⟨_, h⟩
      | split at h)

theorem Unset_ok_of_prev {d d' : Doc} {p : Path} {res : V} (hp : p ≠ []) (h : Unset d p = (d', res))
    (hr : res.isMissing = false) : put (.doc d) p .missing false = .ok (.doc d', res) := by
  cases p with
  | nil => exact absurd rfl hp
  | cons key rest =>
    rw [Unset_eq] at h
    split at h
    · rename_i nv prev hput
      split at h
      · cases h; exact hput
      · cases h; cases hr
    · cases h; cases hr

theorem unset_holds (c : ACtx) (s s1 : AState) (path : String) (v : V)
    (hn : (V.doc s.doc).nodupKeys = true) (h : applyOp c s "$unset" path v = .ok s1) :
    s1.changed = s.changed ∨
      (s1.changed = s.changed ++ [(path, .missing)] ∧
        (Get s1.doc path = .missing ∨ Get s1.doc path = .null)) := by
  unfold applyOp at h; simp only [] at h
  generalize hU : Unset s.doc (splitPath path) = U at h
  obtain ⟨d', res⟩ := U
  simp only at h
  split at h
  · cases h; left; rfl
  · rename_i hres
    right
    refine ⟨(record_changed h).1, ?_⟩
    rw [record_doc h]
    simp only
    have hput := Unset_ok_of_prev (splitPath_ne_nil path) hU (by simpa using hres)
    rcases get_after_unset _ _ _ _ _ false hput hn with h' | h'
    · left; unfold Get; rw [h']
    · right; unfold Get; rw [h']

/-- `$pop` records the array it reads back from the result. -/
theorem pop_holds (c : ACtx) (s s1 : AState) (path : String) (v : V)
    (h : applyOp c s "$pop" path v = .ok s1) :
    s1 = s ∨ ∃ x, s1.changed = s.changed ++ [(path, x)] ∧ Get s1.doc path = x := by
  unfold applyOp at h; simp only [] at h
  repeat' (first
    | (cases h; done)
    | (cases h; exact .inl rfl)
    | split at h)
  all_goals
    (right
     exact ⟨_, (record_changed h).1, by rw [record_doc h]; rfl⟩)

/-! ### Apply on a single operator with a single literal path -/

/-- the key contains no `$` (no positional operator). -/
def noDollar (key : String) : Bool := key.toList.all (· != '$')

theorem resolve_plain (sch : SchemaEval) (n : Nat) (key : String) (doc : Doc) (afs : List Doc)
    (h : noDollar key = true) : resolve sch (n + 1) key doc afs = .ok [key] := by
  have hs : splitDynamicPath key = (some key, none, none) := by
    unfold splitDynamicPath
    have : key.toList.findIdx? (· == '$') = none := by
      rw [List.findIdx?_eq_none_iff]
      intro x hx
      unfold noDollar at h
      rw [List.all_eq_true] at h
      simpa using h x hx
    simp only [this]
  unfold resolve
  rw [hs]
  rfl

/-- an update of one operator other than `$rename` on one path passes `checkPaths`. -/
theorem single_noconflict (op key : String) (v : V) (h : op ≠ "$rename") :
    pathsConflict [] (updatePaths [(op, .doc [(key, v)])]) = false := by
  have hb : (op == "$rename") = false := by simpa using h
  have : updatePaths [(op, .doc [(key, v)])] = [key] := by
    simp only [updatePaths, fieldPaths, hb, Bool.false_eq_true, if_false, List.append_nil]
    split <;> rfl
  rw [this]
  simp [pathsConflict]

theorem Apply_single (c : ACtx) (d : Doc) (op key : String) (v : V) (afs : List Doc)
    (h1 : isOpKey op = true) (h2 : knownUpdateOp op = true) (h3 : noDollar key = true)
    (hc : pathsConflict [] (updatePaths [(op, .doc [(key, v)])]) = false) :
    Apply c d [(op, .doc [(key, v)])] afs =
      match applyOp c { doc := d, changed := [] } op key v with
      | .error e => .error e
      | .ok s => .ok (s.doc, s.changed) := by
  rw [Apply_eq_ops c d _ afs rfl hc]
  unfold Apply.ops
  simp only [h1, h2, if_true, Bool.not_true, Bool.false_eq_true, if_false]
  unfold Apply.conds
  simp only [resolve_plain _ _ _ _ _ h3]
  unfold Apply.conds.each
  cases applyOp c { doc := d, changed := [] } op key v with
  | error e => rfl
  | ok s1 =>
    simp only
    unfold Apply.conds.each Apply.conds Apply.ops
    rfl

/-- the operators the property names as idempotent. -/
def idemOps : List String := ["$set", "$unset", "$min", "$max", "$addToSet", "$pull", "$pullAll"]

theorem idemOps_known {op : String} (h : op ∈ idemOps) : isOpKey op = true ∧ knownUpdateOp op = true := by
  simp only [idemOps, List.mem_cons, List.not_mem_nil, or_false] at h
  rcases h with e | e | e | e | e | e | e <;> subst e <;> exact ⟨by simp [isOpKey], by decide⟩

theorem idem_of_mem (c : ACtx) (s s1 : AState) (op path : String) (v : V) (hop : op ∈ idemOps)
    (hn : op = "$unset" → (V.doc s.doc).nodupKeys = true)
    (h : applyOp c s op path v = .ok s1) : IdemAt c op path v s1 := by
  simp only [idemOps, List.mem_cons, List.not_mem_nil, or_false] at hop
  rcases hop with e | e | e | e | e | e | e <;> subst e
  · exact set_idem _ _ _ _ _ h
  · exact unset_idem _ _ _ _ _ (hn rfl) h
  · exact min_idem _ _ _ _ _ h
  · exact max_idem _ _ _ _ _ h
  · exact addToSet_idem _ _ _ _ _ h
  · exact pull_idem _ _ _ _ _ h
  · exact pullAll_idem _ _ _ _ _ h

/-- `apply_idempotent` for an update consisting of one idempotent operator on one literal path. -/
theorem Apply_idem_single (c : ACtx) (d : Doc) (op key : String) (v : V) (afs : List Doc)
    (d1 : Doc) (ch1 : List (String × V)) (hop : op ∈ idemOps) (hk : noDollar key = true)
    (hn : op = "$unset" → (V.doc d).nodupKeys = true)
    (h : Apply c d [(op, .doc [(key, v)])] afs = .ok (d1, ch1)) :
    ∃ ch2, Apply c d1 [(op, .doc [(key, v)])] afs = .ok (d1, ch2) := by
  obtain ⟨k1, k2⟩ := idemOps_known hop
  have hnr : op ≠ "$rename" := by
    intro e; subst e
    simp [idemOps] at hop
  have hc := single_noconflict op key v hnr
  rw [Apply_single _ _ _ _ _ _ k1 k2 hk hc] at h ⊢
  split at h
  · cases h
  · rename_i s1 hs1
    cases h
    obtain ⟨s2, h2, hd⟩ := idem_of_mem c _ s1 op key v hop hn hs1
    rw [h2]
    exact ⟨s2.changed, by simp only [hd]⟩

/-! ### `$[identifier]`: only the array filters that bind the identifier select elements -/

/-- the identifier of an operator segment `$[identifier]` (resolve.go: `operator[2 : len(operator)-1]`). -/
def identifierOf (operator : String) : String := String.ofList ((operator.toList.drop 2).dropLast)

/-- `f` matches the wrapper document `{id: item}` (query matcher `Match`). -/
def filterHolds (sch : SchemaEval) (id : String) (item : V) (f : Doc) : Bool :=
  match Match sch [(id, item)] f with
  | .ok true => true
  | _ => false

/-- the element satisfies some filter that binds `id`. -/
def selectedBy (sch : SchemaEval) (id : String) (afs : List Doc) (item : V) : Bool :=
  (afs.filter (bindsId id)).any (filterHolds sch id item)

theorem anyFilter_ok (sch : SchemaEval) (id : String) (item : V) (fs : List Doc) (b : Bool)
    (h : anyFilter sch id item fs = .ok b) : b = fs.any (filterHolds sch id item) := by
  induction fs with
  | nil => unfold anyFilter at h; cases h; rfl
  | cons f r ih =>
    unfold anyFilter at h
    split at h
    · cases h
    · rename_i hm; cases h; simp [filterHolds, hm]
    · rename_i hm
      rw [ih h]
      simp [filterHolds, hm]

/-- the generic loop: what it returns when every step is either "skip" (element not selected) or the
    sub-expansion of the index. -/
theorem loopIdx_ok_eq (f : Nat → V → Res (Option (List String))) (sel : V → Bool) (sub : Nat → List String)
    (hn : ∀ k x, f k x = .ok none → sel x = false)
    (hs : ∀ k x qs, f k x = .ok (some qs) → sel x = true ∧ qs = sub k)
    (i : Nat) (xs : List V) (ps : List String) (h : loopIdx f i xs = .ok ps) :
    ps = (((xs.zipIdx i).filter (fun a => sel a.1)).map (fun a => sub a.2)).flatten := by
  induction xs generalizing i ps with
  | nil => unfold loopIdx at h; cases h; rfl
  | cons x r ih =>
    unfold loopIdx at h
    rw [List.zipIdx_cons]
    split at h
    · cases h
    · rename_i hf
      rw [List.filter_cons_of_neg (by simp [hn _ _ hf])]
      exact ih _ _ h
    · rename_i qs hf
      split at h
      · cases h
      · rename_i rs hr
        cases h
        obtain ⟨h1, h2⟩ := hs _ _ _ hf
        rw [List.filter_cons_of_pos (by simpa using h1), List.map_cons, List.flatten_cons, ← ih _ _ hr, h2]

/-- congruence of the loop in its step function. -/
theorem loopIdx_congr (f g : Nat → V → Res (Option (List String))) (h : ∀ k x, f k x = g k x) (i : Nat)
    (xs : List V) : loopIdx f i xs = loopIdx g i xs := by
  have : f = g := funext fun k => funext fun x => h k x
  rw [this]

/-- one level of `resolve` at an identified positional operator, unfolded. -/
theorem resolve_identified (sch : SchemaEval) (fuel : Nat) (path head operator : String) (tail : Option String)
    (doc : Doc) (afs : List Doc) (array : List V)
    (hsp : splitDynamicPath path = (some head, some operator, tail))
    (ha : Get doc head = .arr array)
    (h1 : (operator == "$") = false) (h2 : operator.startsWith "$[" = true) (h3 : operator.endsWith "]" = true)
    (hid : (identifierOf operator == "") = false) :
    resolve sch (fuel + 1) path doc afs =
      if (afs.filter (bindsId (identifierOf operator))).isEmpty then .error .err else
      loopIdx (fun i item =>
        match anyFilter sch (identifierOf operator) item (afs.filter (bindsId (identifierOf operator))) with
        | .error e => .error e
        | .ok false => .ok none
        | .ok true =>
          match resolve sch fuel (buildPath head i tail) doc afs with
          | .error e => .error e
          | .ok ps => .ok (some ps)) 0 array := by
  unfold identifierOf at *
  rw [resolve]
  simp only [hsp, ha, h1, h2, h3, hid, Bool.false_eq_true, if_false, Bool.not_true, Bool.or_self]
  rfl

/-- the declarative reading of `selectedBy`. -/
theorem selectedBy_iff (sch : SchemaEval) (id : String) (afs : List Doc) (item : V) :
    selectedBy sch id afs item = true ↔
      ∃ f ∈ afs, bindsId id f = true ∧ Match sch [(id, item)] f = .ok true := by
  unfold selectedBy
  simp only [List.any_eq_true, List.mem_filter]
  constructor
  · rintro ⟨f, ⟨hf, hb⟩, hm⟩
    refine ⟨f, hf, hb, ?_⟩
    unfold filterHolds at hm
    split at hm
    · assumption
    · cases hm
  · rintro ⟨f, hf, hb, hm⟩
    exact ⟨f, ⟨hf, hb⟩, by simp [filterHolds, hm]⟩

/-- the sub-expansion of one index (empty if that recursive call fails — it does not when the whole
    expansion succeeds). -/
def subPaths (sch : SchemaEval) (fuel : Nat) (doc : Doc) (afs : List Doc) (p : String) : List String :=
  match resolve sch fuel p doc afs with
  | .ok qs => qs
  | .error _ => []

/-- the indices of the array whose element is selected, ascending. -/
def selectedIdx (sch : SchemaEval) (id : String) (afs : List Doc) (array : List V) : List Nat :=
  ((array.zipIdx).filter (fun a => selectedBy sch id afs a.1)).map (·.2)

theorem mem_selectedIdx (sch : SchemaEval) (id : String) (afs : List Doc) (array : List V) (k : Nat) :
    k ∈ selectedIdx sch id afs array ↔ ∃ item, array[k]? = some item ∧ selectedBy sch id afs item = true := by
  unfold selectedIdx
  simp only [List.mem_map, List.mem_filter, Prod.exists, exists_eq_right, List.mem_zipIdx_iff_getElem?]

theorem selectedIdx_sorted (sch : SchemaEval) (id : String) (afs : List Doc) (array : List V) :
    (selectedIdx sch id afs array).Pairwise (· < ·) := by
  unfold selectedIdx
  have h : (array.zipIdx.map (·.2)).Pairwise (· < ·) := by
    rw [List.zipIdx_map_snd]
    exact List.pairwise_lt_range'
  rw [List.pairwise_map] at h ⊢
  exact h.sublist List.filter_sublist

/-- general (recursive) form: a successful expansion of `head.$[id].tail` is the concatenation, over
    exactly the selected indices in ascending order, of the expansions of `head.k.tail`. -/
theorem resolve_identified_ok (sch : SchemaEval) (fuel : Nat) (path head operator : String) (tail : Option String)
    (doc : Doc) (afs : List Doc) (array : List V) (ps : List String)
    (hsp : splitDynamicPath path = (some head, some operator, tail))
    (ha : Get doc head = .arr array)
    (h1 : (operator == "$") = false) (h2 : operator.startsWith "$[" = true) (h3 : operator.endsWith "]" = true)
    (hid : (identifierOf operator == "") = false)
    (h : resolve sch (fuel + 1) path doc afs = .ok ps) :
    ps = ((selectedIdx sch (identifierOf operator) afs array).map
        (fun k => subPaths sch fuel doc afs (buildPath head k tail))).flatten := by
  rw [resolve_identified sch fuel path head operator tail doc afs array hsp ha h1 h2 h3 hid] at h
  split at h
  · cases h
  · have := loopIdx_ok_eq _ (selectedBy sch (identifierOf operator) afs)
      (fun k => subPaths sch fuel doc afs (buildPath head k tail)) ?_ ?_ 0 array ps h
    · rw [this]; unfold selectedIdx; rw [List.map_map]; rfl
    · intro k x hf
      split at hf
      · cases hf
      · rename_i ha; exact (anyFilter_ok _ _ _ _ _ ha).symm
      · split at hf <;> cases hf
    · intro k x qs hf
      split at hf
      · cases hf
      · cases hf
      · rename_i ha
        split at hf
        · cases hf
        · rename_i rs hr
          cases hf
          exact ⟨(anyFilter_ok _ _ _ _ _ ha).symm, by simp [subPaths, hr]⟩

theorem noDollar_append (a b : String) : noDollar (a ++ b) = (noDollar a && noDollar b) := by
  simp [noDollar, String.toList_append]

theorem noDollar_natToString (k : Nat) : noDollar (toString k) = true := by
  unfold noDollar
  rw [List.all_eq_true]
  intro c hc
  rw [Nat.toString_eq_repr, Nat.toList_repr] at hc
  have := Nat.isDigit_of_mem_toDigits (by decide) (by decide) hc
  have hne : c ≠ '$' := by
    intro e; subst e; revert this; decide
  simpa using hne

theorem noDollar_buildPath (head : String) (k : Nat) (tail : Option String) (hh : noDollar head = true)
    (ht : ∀ t, tail = some t → noDollar t = true) : noDollar (buildPath head k tail) = true := by
  have hdot : noDollar "." = true := by decide
  have hemp : noDollar "" = true := by decide
  unfold buildPath
  have hb : noDollar ((if (head == "") = true then "" else head ++ ".") ++ toString k) = true := by
    rw [noDollar_append, noDollar_natToString]
    split
    · simp [hemp]
    · simp [noDollar_append, hh, hdot]
  cases tail with
  | none => exact hb
  | some t =>
    simp only [noDollar_append, hb, hdot, ht t rfl, Bool.and_self]

/-- `array_filter_own`, single `$[id]`: the expansion is exactly the selected indices. -/
theorem resolve_identified_single (sch : SchemaEval) (fuel : Nat) (path head operator : String) (tail : Option String)
    (doc : Doc) (afs : List Doc) (array : List V) (ps : List String)
    (hsp : splitDynamicPath path = (some head, some operator, tail))
    (ha : Get doc head = .arr array)
    (h1 : (operator == "$") = false) (h2 : operator.startsWith "$[" = true) (h3 : operator.endsWith "]" = true)
    (hid : (identifierOf operator == "") = false)
    (hh : noDollar head = true) (ht : ∀ t, tail = some t → noDollar t = true)
    (h : resolve sch (fuel + 2) path doc afs = .ok ps) :
    ps = (selectedIdx sch (identifierOf operator) afs array).map (fun k => buildPath head k tail) := by
  rw [resolve_identified_ok sch (fuel + 1) path head operator tail doc afs array ps hsp ha h1 h2 h3 hid h]
  have : ∀ k, subPaths sch (fuel + 1) doc afs (buildPath head k tail) = [buildPath head k tail] := by
    intro k
    unfold subPaths
    rw [resolve_plain _ _ _ _ _ (noDollar_buildPath head k tail hh ht)]
  simp only [this]
  generalize selectedIdx sch (identifierOf operator) afs array = l
  induction l with
  | nil => rfl
  | cons a r ih => simp only [List.map_cons, List.flatten_cons, ih, List.singleton_append]

/-- one level: the expansion depends on the filter list only through the filters binding the
    identifier (and through the recursive expansions). -/
theorem resolve_filters_congr (sch : SchemaEval) (fuel : Nat) (path head operator : String) (tail : Option String)
    (doc : Doc) (afs afs' : List Doc) (array : List V)
    (hsp : splitDynamicPath path = (some head, some operator, tail))
    (ha : Get doc head = .arr array)
    (h1 : (operator == "$") = false) (h2 : operator.startsWith "$[" = true) (h3 : operator.endsWith "]" = true)
    (hid : (identifierOf operator == "") = false)
    (hf : afs.filter (bindsId (identifierOf operator)) = afs'.filter (bindsId (identifierOf operator)))
    (hrec : ∀ k, resolve sch fuel (buildPath head k tail) doc afs = resolve sch fuel (buildPath head k tail) doc afs') :
    resolve sch (fuel + 1) path doc afs = resolve sch (fuel + 1) path doc afs' := by
  rw [resolve_identified sch fuel path head operator tail doc afs array hsp ha h1 h2 h3 hid,
    resolve_identified sch fuel path head operator tail doc afs' array hsp ha h1 h2 h3 hid, hf]
  split
  · rfl
  · apply loopIdx_congr
    intro k x
    rw [hrec k]

theorem resolve_filters_single (sch : SchemaEval) (fuel : Nat) (path head operator : String) (tail : Option String)
    (doc : Doc) (afs afs' : List Doc) (array : List V)
    (hsp : splitDynamicPath path = (some head, some operator, tail))
    (ha : Get doc head = .arr array)
    (h1 : (operator == "$") = false) (h2 : operator.startsWith "$[" = true) (h3 : operator.endsWith "]" = true)
    (hid : (identifierOf operator == "") = false)
    (hh : noDollar head = true) (ht : ∀ t, tail = some t → noDollar t = true)
    (hf : afs.filter (bindsId (identifierOf operator)) = afs'.filter (bindsId (identifierOf operator))) :
    resolve sch (fuel + 2) path doc afs = resolve sch (fuel + 2) path doc afs' := by
  apply resolve_filters_congr sch (fuel + 1) path head operator tail doc afs afs' array hsp ha h1 h2 h3 hid hf
  intro k
  rw [resolve_plain _ _ _ _ _ (noDollar_buildPath head k tail hh ht),
    resolve_plain _ _ _ _ _ (noDollar_buildPath head k tail hh ht)]

/-- inserting / removing a filter that does not bind `id` keeps the binding filters. -/
theorem filter_bindsId_insert (id : String) (afs₁ afs₂ : List Doc) (g : Doc) (hg : bindsId id g = false) :
    (afs₁ ++ g :: afs₂).filter (bindsId id) = (afs₁ ++ afs₂).filter (bindsId id) := by
  simp [List.filter_append, hg]
end Lungo
