/-
  Lungo.Proofs.ApplyLaws — laws of the update operators (mongokit/apply.go), used by C11:
  idempotence of $set/$unset/$min/$max/$addToSet/$pull/$pullAll at a resolved path.
-/
import Lungo.Model.Apply
import Lungo.Proofs.AccessLaws
import Lungo.Proofs.CompareLaws
namespace Lungo

/-! ### record / putRec -/

theorem record_fresh (d : Doc) (path : String) (val : V) :
    record { doc := d, changed := [] } path val = .ok { doc := d, changed := [(path, val)] } := by
  simp [record]

theorem record_doc {s s' : AState} {path : String} {val : V} (h : record s path val = .ok s') :
    s'.doc = s.doc := by
  unfold record at h
  simp only at h
  split at h
  · cases h
  · cases h; rfl

theorem putRec_ok {s s1 : AState} {path : String} {v : V} (h : putRec s path v = .ok s1) :
    ∃ prev, Put s.doc (splitPath path) v false = .ok (s1.doc, prev) := by
  unfold putRec at h
  split at h
  · cases h
  · rename_i d pv hput
    exact ⟨pv, by rw [hput, record_doc h]⟩

/-- `bsonkit.Put` of the same value a second time returns the same document. -/
theorem Put_idempotent {d d1 : Doc} {p : Path} {x prev : V} {pre : Bool} (hp : p ≠ [])
    (h : Put d p x pre = .ok (d1, prev)) : Put d1 p x pre = .ok (d1, x) := by
  cases p with
  | nil => exact absurd rfl hp
  | cons key rest =>
    rw [Put_ok_iff] at h ⊢
    exact ⟨h.1, put_idempotent _ _ _ _ _ _ h.2 h.1⟩

theorem putRec_fresh_of_Put {d1 : Doc} {path : String} {v x : V}
    (h : Put d1 (splitPath path) v false = .ok (d1, x)) :
    putRec { doc := d1, changed := [] } path v = .ok { doc := d1, changed := [(path, v)] } := by
  unfold putRec
  simp only [h, record_fresh]

/-- after `putRec` succeeded, doing it again on the result (fresh change log) keeps the document. -/
theorem putRec_again {s s1 : AState} {path : String} {v : V} (h : putRec s path v = .ok s1) :
    putRec { doc := s1.doc, changed := [] } path v = .ok { doc := s1.doc, changed := [(path, v)] } := by
  obtain ⟨prev, hput⟩ := putRec_ok h
  exact putRec_fresh_of_Put (Put_idempotent (splitPath_ne_nil path) hput)

theorem getP_Put_gen {d d1 : Doc} {p : Path} {x prev : V} {pre : Bool} (hp : p ≠ [])
    (h : Put d p x pre = .ok (d1, prev)) :
    getP d1 p = x ∨ (canonPath p = false ∧ getP d1 p = .missing ∧ getP d p = .missing) := by
  cases p with
  | nil => exact absurd rfl hp
  | cons key rest =>
    rw [Put_ok_iff] at h
    unfold getP
    rcases get_put_gen _ _ _ _ _ _ false h.2 h.1 with h' | ⟨c1, c2, c3⟩
    · left; rw [h']
    · right; rw [c2, c3]; exact ⟨c1, rfl, rfl⟩

/-! ### $set, $min, $max -/

/-- the idempotence statement: a second application on the result, with a fresh change log,
    succeeds and leaves the document as it is. -/
def IdemAt (c : ACtx) (op path : String) (v : V) (s1 : AState) : Prop :=
  ∃ s2, applyOp c { doc := s1.doc, changed := [] } op path v = .ok s2 ∧ s2.doc = s1.doc

theorem set_idem (c : ACtx) (s s1 : AState) (path : String) (v : V)
    (h : applyOp c s "$set" path v = .ok s1) : IdemAt c "$set" path v s1 := by
  unfold applyOp at h; simp only [] at h
  unfold IdemAt applyOp; simp only []
  exact ⟨_, putRec_again h, rfl⟩

theorem min_idem (c : ACtx) (s s1 : AState) (path : String) (v : V)
    (h : applyOp c s "$min" path v = .ok s1) : IdemAt c "$min" path v s1 := by
  unfold applyOp at h; simp only [] at h
  unfold IdemAt applyOp; simp only []
  have again : ∀ s0, putRec s0 path v = .ok s1 →
      ∃ s2, (if (getP s1.doc (splitPath path)).isMissing = true then
                putRec { doc := s1.doc, changed := [] } path v
             else if (V.cmp (getP s1.doc (splitPath path)) v == .gt) = true then
                putRec { doc := s1.doc, changed := [] } path v
             else .ok { doc := s1.doc, changed := [] }) = .ok s2 ∧ s2.doc = s1.doc := by
    intro s0 h0
    have := putRec_again h0
    split
    · exact ⟨_, this, rfl⟩
    · split
      · exact ⟨_, this, rfl⟩
      · exact ⟨_, rfl, rfl⟩
  split at h
  · exact again _ h
  · split at h
    · exact again _ h
    · rename_i h1 h2
      cases h
      simp only [h1, h2, if_false, Bool.false_eq_true]
      exact ⟨_, rfl, rfl⟩

theorem max_idem (c : ACtx) (s s1 : AState) (path : String) (v : V)
    (h : applyOp c s "$max" path v = .ok s1) : IdemAt c "$max" path v s1 := by
  unfold applyOp at h; simp only [] at h
  unfold IdemAt applyOp; simp only []
  have again : ∀ s0, putRec s0 path v = .ok s1 →
      ∃ s2, (if (getP s1.doc (splitPath path)).isMissing = true then
                putRec { doc := s1.doc, changed := [] } path v
             else if (V.cmp (getP s1.doc (splitPath path)) v == .lt) = true then
                putRec { doc := s1.doc, changed := [] } path v
             else .ok { doc := s1.doc, changed := [] }) = .ok s2 ∧ s2.doc = s1.doc := by
    intro s0 h0
    have := putRec_again h0
    split
    · exact ⟨_, this, rfl⟩
    · split
      · exact ⟨_, this, rfl⟩
      · exact ⟨_, rfl, rfl⟩
  split at h
  · exact again _ h
  · split at h
    · exact again _ h
    · rename_i h1 h2
      cases h
      simp only [h1, h2, if_false, Bool.false_eq_true]
      exact ⟨_, rfl, rfl⟩

/-! ### $unset -/

/-- `bsonkit.Unset` twice = once, on documents without duplicate keys. -/
theorem Unset_idempotent (d : Doc) (p : Path) (hp : p ≠ []) (hn : (V.doc d).nodupKeys = true) :
    (Unset (Unset d p).1 p).1 = (Unset d p).1 := by
  cases p with
  | nil => exact absurd rfl hp
  | cons key rest =>
    rw [Unset_eq d]
    cases h1 : put (.doc d) (key :: rest) .missing false with
    | error e => simp only; rw [Unset_eq, h1]
    | ok r =>
      obtain ⟨nv, prev⟩ := r
      obtain ⟨d1, e1⟩ := put_doc_isDoc _ _ _ _ _ _ _ h1
      subst e1
      simp only
      rw [Unset_eq]
      rcases put_missing_twice _ _ _ _ _ h1 hn with ⟨e, h2⟩ | ⟨pv, h2⟩
      · rw [h2]
      · rw [h2]

theorem unset_idem (c : ACtx) (s s1 : AState) (path : String) (v : V)
    (hn : (V.doc s.doc).nodupKeys = true)
    (h : applyOp c s "$unset" path v = .ok s1) : IdemAt c "$unset" path v s1 := by
  unfold applyOp at h; simp only [] at h
  unfold IdemAt applyOp; simp only []
  have hd : s1.doc = (Unset s.doc (splitPath path)).1 := by
    split at h
    · cases h; rfl
    · rw [record_doc h]
  have h2 := Unset_idempotent s.doc (splitPath path) (splitPath_ne_nil path) hn
  rw [← hd] at h2
  split
  · exact ⟨_, rfl, h2⟩
  · rw [record_fresh]; exact ⟨_, rfl, h2⟩

/-! ### $pullAll -/

theorem pullAll_idem (c : ACtx) (s s1 : AState) (path : String) (v : V)
    (h : applyOp c s "$pullAll" path v = .ok s1) : IdemAt c "$pullAll" path v s1 := by
  unfold applyOp at h; simp only [] at h
  unfold IdemAt applyOp; simp only []
  split at h
  · rename_i targets
    split at h
    · rename_i hg; cases h; simp only [hg]; exact ⟨_, rfl, rfl⟩
    · rename_i arr hg
      split at h
      · rename_i hl; cases h; simp only [hg, hl, if_true]; exact ⟨_, rfl, rfl⟩
      · split at h
        · cases h
        · rename_i d pv hput
          have hd := record_doc h
          simp only at hd
          have hg' : getP s1.doc (splitPath path) =
              .arr (arr.filter fun item => !(targets.any fun t => V.cmp item t == .eq)) := by
            rw [hd]
            rcases getP_Put_gen (splitPath_ne_nil path) hput with h' | ⟨_, _, c3⟩
            · exact h'
            · rw [hg] at c3; cases c3
          simp only [hg', List.filter_filter, Bool.and_self, beq_self_eq_true, if_true]
          exact ⟨_, rfl, rfl⟩
    · rename_i hne1 hne2
      cases h
  · cases h

/-! ### $pull -/

theorem pullFilter_idem (sch : SchemaEval) (cond : V) (arr result : List V) (removed : Bool)
    (h : pullFilter sch cond arr = .ok (result, removed)) :
    pullFilter sch cond result = .ok (result, false) := by
  induction arr generalizing result removed with
  | nil => simp only [pullFilter] at h; cases h; rfl
  | cons item r ih =>
    simp only [pullFilter] at h
    split at h
    · cases h
    · rename_i m hm
      split at h
      · cases h
      · rename_i rest rem hr
        split at h
        · cases h; exact ih _ _ hr
        · cases h
          simp only [pullFilter, hm, ih _ _ hr]
          simp_all

theorem pull_idem (c : ACtx) (s s1 : AState) (path : String) (v : V)
    (h : applyOp c s "$pull" path v = .ok s1) : IdemAt c "$pull" path v s1 := by
  unfold applyOp at h; simp only [] at h
  unfold IdemAt applyOp; simp only []
  split at h
  · rename_i hg; cases h; simp only [hg]; exact ⟨_, rfl, rfl⟩
  · rename_i arr hg
    split at h
    · cases h
    · rename_i result removed hf
      split at h
      · rename_i hr; cases h; simp only [hg, hf, hr, if_true]; exact ⟨_, rfl, rfl⟩
      · split at h
        · cases h
        · rename_i d pv hput
          have hd := record_doc h
          simp only at hd
          have hg' : getP s1.doc (splitPath path) = .arr result := by
            rw [hd]
            rcases getP_Put_gen (splitPath_ne_nil path) hput with h' | ⟨_, _, c3⟩
            · exact h'
            · rw [hg] at c3; cases c3
          simp only [hg', pullFilter_idem _ _ _ _ _ hf]
          exact ⟨_, rfl, rfl⟩
  · cases h

/-! ### $addToSet -/

/-- the accumulation step of $addToSet -/
def addStep (acc : List V) (val : V) : List V :=
  if acc.any (fun ex => V.cmp ex val == .eq) then acc else acc ++ [val]

def present (acc : List V) (val : V) : Bool := acc.any (fun ex => V.cmp ex val == .eq)

theorem present_append (acc extra : List V) (val : V) (h : present acc val = true) :
    present (acc ++ extra) val = true := by
  unfold present at h ⊢
  rw [List.any_append, h, Bool.true_or]

theorem addFold_prefix (values acc : List V) : ∃ extra, values.foldl addStep acc = acc ++ extra := by
  induction values generalizing acc with
  | nil => exact ⟨[], by simp⟩
  | cons val r ih =>
    simp only [List.foldl_cons]
    obtain ⟨e, he⟩ := ih (addStep acc val)
    rw [he]
    unfold addStep
    split
    · exact ⟨e, rfl⟩
    · exact ⟨[val] ++ e, by simp⟩

theorem addStep_present (acc : List V) (val : V) : present (addStep acc val) val = true := by
  unfold addStep
  split
  · assumption
  · simp [present, V.cmp_refl]

theorem addFold_present (values acc : List V) :
    ∀ val ∈ values, present (values.foldl addStep acc) val = true := by
  induction values generalizing acc with
  | nil => intro val hv; cases hv
  | cons a r ih =>
    intro val hv
    simp only [List.foldl_cons]
    rcases List.mem_cons.mp hv with e | hm
    · subst e
      obtain ⟨ex, he⟩ := addFold_prefix r (addStep acc val)
      rw [he]
      exact present_append _ _ _ (addStep_present acc val)
    · exact ih _ _ hm

theorem addFold_fixed (values acc : List V) (h : ∀ val ∈ values, present acc val = true) :
    values.foldl addStep acc = acc := by
  induction values with
  | nil => rfl
  | cons a r ih =>
    simp only [List.foldl_cons]
    have ha : addStep acc a = acc := by
      unfold addStep
      have := h a (List.mem_cons_self)
      unfold present at this
      simp only [this, if_true]
    rw [ha]
    exact ih (fun val hv => h val (List.mem_cons_of_mem _ hv))

theorem addFold_idem (values arr : List V) :
    values.foldl addStep (values.foldl addStep arr) = values.foldl addStep arr :=
  addFold_fixed _ _ (addFold_present values arr)

theorem addToSet_idem (c : ACtx) (s s1 : AState) (path : String) (v : V)
    (h : applyOp c s "$addToSet" path v = .ok s1) : IdemAt c "$addToSet" path v s1 := by
  unfold applyOp at h; simp only [] at h
  unfold IdemAt applyOp; simp only []
  split at h
  · cases h
  · rename_i values hv
    split at h
    · cases h
    · rename_i arr harr
      change (if ((values.foldl addStep arr).length == arr.length) = true then _ else _) = _ at h
      split at h
      · rename_i hl
        cases h
        simp only [harr]
        change ∃ s2, (if ((values.foldl addStep arr).length == arr.length) = true then _ else _) = _ ∧ _
        simp only [hl, if_true]
        exact ⟨_, rfl, rfl⟩
      · rename_i hl
        split at h
        · cases h
        · rename_i d pv hput
          have hd := record_doc h
          simp only at hd
          rcases getP_Put_gen (splitPath_ne_nil path) hput with h' | ⟨_, c2, c3⟩
          · -- the array just written is read back: nothing to add any more
            rw [← hd] at h'
            simp only [h']
            change ∃ s2, (if ((values.foldl addStep (values.foldl addStep arr)).length ==
              (values.foldl addStep arr).length) = true then _ else _) = _ ∧ _
            simp only [addFold_idem, beq_self_eq_true, if_true]
            exact ⟨_, rfl, rfl⟩
          · -- signed index on an array: the path reads Missing before and after; same write again
            rw [← hd] at c2
            rw [c3] at harr
            simp only at harr
            cases harr
            simp only [c2]
            change ∃ s2, (if ((values.foldl addStep []).length == ([] : List V).length) = true then _ else _) = _ ∧ _
            simp only [hl, if_false, Bool.false_eq_true]
            rw [← hd] at hput
            have := Put_idempotent (splitPath_ne_nil path) hput
            simp only [this, record_fresh]
            exact ⟨_, rfl, rfl⟩

end Lungo
