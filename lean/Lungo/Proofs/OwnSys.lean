/-
  Lungo.Proofs.OwnSys — a history of transaction calls, publishes (Engine.Commit) and snapshot-taking
  steps over one heap; the invariant that makes recorded snapshots immutable.
-/
import Lungo.Proofs.OwnClosed
import Lungo.Expected.TxnPrograms
import Lungo.Model.CommitStore
namespace Lungo.Own

/-- the driver hands the transaction FRESH documents (`bsonkit.Transform` of the caller's values) -/
def allocArgs (h : Heap) : List (Var × List Nat) → Heap × List (Var × List Nat)
  | [] => (h, [])
  | (v, vals) :: r =>
    let a := h.allocs (vals.map Obj.doc)
    let b := allocArgs a.1 r
    (b.1, (v, a.2) :: b.2)

theorem allocArgs_spec (h : Heap) (d : List (Var × List Nat)) :
    h.size ≤ (allocArgs h d).1.size ∧ Agree h (allocArgs h d).1 ∧ (Closed h → Closed (allocArgs h d).1) ∧
    ∀ p ∈ (allocArgs h d).2, ∀ o ∈ p.2, h.size ≤ o := by
  induction d generalizing h with
  | nil => exact ⟨Nat.le_refl _, Agree.refl _, id, by simp [allocArgs]⟩
  | cons x r ih =>
    obtain ⟨v, vals⟩ := x
    simp only [allocArgs]
    have sz := Heap.allocs_size h (vals.map Obj.doc)
    obtain ⟨i1, i2, i3, i4⟩ := ih (h.allocs (vals.map Obj.doc)).1
    refine ⟨by omega, fun o ho => ?_, fun c => i3 (c.allocs _ ?_), fun p hp o ho => ?_⟩
    · rw [i2 o (by omega)]; exact h.allocs_get_lt _ ho
    · intro y hy q hq; obtain ⟨w, _, rfl⟩ := List.mem_map.mp hy; simp [Obj.ptrs] at hq
    · rcases List.mem_cons.mp hp with rfl | hp
      · exact (Heap.allocs_ids h _ o ho).1
      · have := i4 p hp o ho; omega

structure Sys where
  heap : Heap
  txn : TxnState                    -- the active transaction (catalog pointer, dirty flag)
  engine : Nat                      -- e.catalog: what every client without the transaction sees
  snaps : List (Nat × CatView)      -- recorded snapshot roots with what they showed when taken

inductive Ev
  | call (name : String) (handle : Nat) (docs : List (Var × List Nat)) (ch : Choices)
                                    -- one Transaction write method (by name) with arbitrary nondeterminism
  | begin                           -- Engine.Begin: NewTransaction(e.catalog)
  | commit (r : CommitStore.StoreRes)   -- Engine.Commit: store, then `e.catalog = txn.Catalog()`
  | abort                           -- Engine.Abort
  | snapTxn                         -- somebody keeps `t.Catalog()` (a cursor, a read inside the transaction)
  | snapEngine                      -- somebody keeps `e.catalog` (a read-only transaction, a cursor)

def Sys.step (s : Sys) : Ev → Sys
  | .call name handle docs ch =>
    match Expected.txnPrograms.lookup name with
    | none => s
    | some p =>
      let a := allocArgs s.heap docs
      let r := run p { handle := handle, docs := a.2 } ch (a.1, s.txn)
      { s with heap := r.1, txn := r.2.1 }
  | .begin => { s with txn := ⟨s.engine, false⟩ }
  | .commit r =>
    if s.txn.dirty then
      match r with
      | .ok => { s with engine := s.txn.catalog }
      | _ => s
    else s
  | .abort => s
  | .snapTxn => { s with snaps := (s.txn.catalog, observe s.heap s.txn.catalog) :: s.snaps }
  | .snapEngine => { s with snaps := (s.engine, observe s.heap s.engine) :: s.snaps }

def Sys.run (s : Sys) : List Ev → Sys
  | [] => s
  | e :: es => (s.step e).run es

/-- the history invariant -/
structure Sys.Good (s : Sys) : Prop where
  wf : WF s.heap s.txn
  engine : s.engine < s.heap.size
  snaps : ∀ p ∈ s.snaps, p.1 < s.heap.size ∧ observe s.heap p.1 = p.2

/-- a call leaves everything that existed before it untouched -/
theorem call_agree (name : String) (p : Prog) (hl : Expected.txnPrograms.lookup name = some p)
    (handle : Nat) (docs : List (Var × List Nat)) (ch : Choices) (h : Heap) (t : TxnState) :
    h.size ≤ (run p { handle := handle, docs := (allocArgs h docs).2 } ch ((allocArgs h docs).1, t)).1.size ∧
    Agree h (run p { handle := handle, docs := (allocArgs h docs).2 } ch ((allocArgs h docs).1, t)).1 := by
  obtain ⟨a1, a2, _, a4⟩ := allocArgs_spec h docs
  have hp := Expected.expected_owned (name, p) (lookup_mem hl)
  obtain ⟨s, _⟩ := run_sound false p hp { handle := handle, docs := (allocArgs h docs).2 } ch (allocArgs h docs).1 t
  refine ⟨Nat.le_trans a1 s.size, fun o ho => ?_⟩
  rw [s.frozen (Nat.lt_of_lt_of_le ho a1) (Nat.lt_of_lt_of_le ho a1) (.inr ?_)]
  · exact a2 o ho
  · intro hm
    obtain ⟨q, hq, hoq⟩ := List.mem_flatMap.mp hm
    have := a4 q hq o hoq
    omega

theorem Sys.Good.step {s : Sys} (g : s.Good) (e : Ev) : (s.step e).Good := by
  cases e with
  | call name handle docs ch =>
    simp only [Sys.step]
    split
    · exact g
    · rename_i p hl
      obtain ⟨le, ag⟩ := call_agree name p hl handle docs ch s.heap s.txn
      obtain ⟨a1, _, a3, _⟩ := allocArgs_spec s.heap docs
      refine ⟨wf_run p _ ch _ _ ⟨a3 g.wf.closed, Nat.lt_of_lt_of_le g.wf.cat a1⟩,
        Nat.lt_of_lt_of_le g.engine le, fun q hq => ?_⟩
      obtain ⟨q1, q2⟩ := g.snaps q hq
      exact ⟨Nat.lt_of_lt_of_le q1 le, (observe_agree g.wf.closed ag q1).trans q2⟩
  | begin => exact ⟨⟨g.wf.closed, g.engine⟩, g.engine, g.snaps⟩
  | commit r =>
    simp only [Sys.step]
    split
    · cases r with
      | ok => exact ⟨g.wf, g.wf.cat, g.snaps⟩
      | fail | failWritten | panic => exact g
    · exact g
  | abort => exact g
  | snapTxn =>
    refine ⟨g.wf, g.engine, fun q hq => ?_⟩
    rcases List.mem_cons.mp hq with rfl | hq
    · exact ⟨g.wf.cat, rfl⟩
    · exact g.snaps q hq
  | snapEngine =>
    refine ⟨g.wf, g.engine, fun q hq => ?_⟩
    rcases List.mem_cons.mp hq with rfl | hq
    · exact ⟨g.engine, rfl⟩
    · exact g.snaps q hq

theorem Sys.Good.run {s : Sys} (g : s.Good) (es : List Ev) : (s.run es).Good := by
  induction es generalizing s with
  | nil => exact g
  | cons e es ih => exact ih (g.step e)

end Lungo.Own
