/-
  Lungo.Proofs.ConcDeadlock — the lock-order inversion witness for the OLD step order of Engine.Begin
  (`stepOld`, Model/ConcOld.lean: session read under e.mutex): one session used by two actors.
  Actor 2 runs a CRUD call with the session context (useTransaction → Engine.Begin holds e.mutex and
  wants s.mutex via sess.Transaction()); actor 1 runs Session.AbortTransaction (holds s.mutex and wants
  e.mutex via Engine.Abort).
-/
import Lungo.Model.ConcOld
namespace Lungo.Conc

/-- session 5 is shared by actors 1 and 2 -/
def deadSched : List (ActorId × Choice) :=
  [(2, .call (.useTx true (some 5))), (2, .go), (2, .go),          -- 2: sess.Transaction() = nil, about to Begin
   (1, .call (.sessStart 5)), (1, .go), (1, .go), (1, .go), (1, .go), (1, .tok), (1, .go), (1, .go),
   (1, .go), (1, .go), (1, .go),                                   -- 1: StartTransaction done, s.txn = t0
   (2, .go), (2, .go),                                             -- 2: Begin: e.mutex.Lock(); → wants s.mutex
   (1, .call (.sessAbort 5)), (1, .go), (1, .go),                  -- 1: AbortTransaction: s.mutex.Lock(); → wants e.mutex
   (0, .tick)]                                                     -- expiry: Begin → wants e.mutex

theorem dead_isSome : (runOld (init 2) deadSched).isSome = true := by rfl

def deadState : State := (runOld (init 2) deadSched).get dead_isSome

theorem dead_run : runOld (init 2) deadSched = some deadState := by
  simp [deadState]

theorem dead_reachable : ReachableOld 2 deadState :=
  runOld_reachable .init deadSched deadState dead_run

theorem dead_facts :
    deadState.eng.mutex = some 2 ∧ (deadState.loc 2).pc = .bSessLock ∧
    (deadState.sess 5).mutex = some 1 ∧ (deadState.loc 1).pc = .aLock ∧ (deadState.loc 0).pc = .bLock ∧
    deadState.eng.alive = true := by
  refine ⟨?_, ?_, ?_, ?_, ?_, ?_⟩ <;> rfl

theorem dead_stuck0 : ∀ c, stepOld deadState 0 c = none := by intro c; cases c <;> rfl
theorem dead_stuck1 : ∀ c, stepOld deadState 1 c = none := by intro c; cases c <;> rfl
theorem dead_stuck2 : ∀ c, stepOld deadState 2 c = none := by intro c; cases c <;> rfl

theorem dead_stuck : ∀ (a : Nat) (c : Choice), stepOld deadState a c = none := by
  intro a c
  by_cases h : a > 2
  · have hn : deadState.n = 2 := by rfl
    simp [stepOld, hn, h]
  · have h' : a ≤ 2 := Nat.le_of_not_gt h
    have : a = 0 ∨ a = 1 ∨ a = 2 := by omega
    rcases this with rfl | rfl | rfl
    · exact dead_stuck0 c
    · exact dead_stuck1 c
    · exact dead_stuck2 c

/-- under the CURRENT step order the same calls do not wedge: actor 2 reads the session before taking
    `e.mutex`, so actor 1's AbortTransaction gets `e.mutex`, releases the token, and actor 2 proceeds -/
def fixedSched : List (ActorId × Choice) :=
  [(2, .call (.useTx true (some 5))), (2, .go), (2, .go),
   (1, .call (.sessStart 5)), (1, .go), (1, .go), (1, .go), (1, .go), (1, .tok), (1, .go), (1, .go),
   (1, .go), (1, .go), (1, .go),
   (1, .call (.sessAbort 5)), (1, .go), (1, .go),                  -- 1 holds s.mutex, wants e.mutex
   (1, .go), (1, .go), (1, .go),                                   -- … gets it: Abort, release, unlock s
   (2, .go), (2, .go), (2, .go), (2, .go), (2, .tok)]              -- 2: session read, Begin, acquires

theorem fixed_run : ((run (init 2) fixedSched).map fun s =>
    (s.eng.token, s.eng.holder, (s.loc 1).pc, (s.loc 2).pc, (s.sess 5).mutex)) =
    some (0, some 2, .idle, .bRelock, none) := by rfl

end Lungo.Conc
