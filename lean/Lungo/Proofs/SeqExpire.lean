/-
  Lungo.Proofs.SeqExpire — C01: expire (TTL). The implementation walks the namespaces of the catalog
  and runs one `Transaction.delete` per namespace with a TTL index; the Spec maps over its
  collections. The two agree because handles are pairwise distinct (Proofs/SeqHandles.lean).
-/
import Lungo.Proofs.SeqBulk
import Lungo.Proofs.SeqHandles
namespace Lungo.SeqRef
open Lungo Lungo.Spec

variable {sch : SchemaEval}

theorem map_ok {α β} {f : α → β} {a : Res α} {y : β} (h : a.map f = .ok y) : ∃ x, a = .ok x ∧ f x = y := by
  cases a with
  | error e => cases h
  | ok x => exact ⟨x, rfl, by simpa [Except.map] using h⟩

theorem map_error {α β} {f : α → β} {a : Res α} {e : Err} (h : a.map f = .error e) : a = .error e := by
  cases a with
  | error e' => simp only [Except.map, Except.error.injEq] at h; rw [h]
  | ok x => cases h

/-! ### `get?` is local -/

theorem get?_set_ne (cat : Catalog) {h h' : Handle} (c : Coll) (hne : h' ≠ h) :
    (cat.set h c).get? h' = cat.get? h' := by
  unfold Catalog.get? Catalog.set
  split
  · simp only [List.find?_map]
    have hf : ((fun x : Handle × Coll => x.1 == h') ∘ fun (x : Handle × Coll) =>
        match x with
        | (a, x) => if a == h then (a, c) else (a, x)) = fun x => x.1 == h' := by
      funext x
      obtain ⟨a, b⟩ := x
      simp only [Function.comp]
      split <;> rfl
    rw [hf]
    cases hfind : cat.namespaces.find? (fun x => x.1 == h') with
    | none => rfl
    | some p =>
      obtain ⟨a, b⟩ := p
      have h1 := List.find?_some hfind
      simp only [beq_iff_eq] at h1
      subst h1
      simp [hne]
  · simp only [List.find?_append]
    have : (h == h') = false := by
      simp only [beq_eq_false_iff_ne, ne_eq]; exact fun e => hne e.symm
    simp [this]

theorem get?_appendOplog_ne (cat : Catalog) (nu : Nu) (h : Handle) (op : String) (doc : Option Doc)
    (ch : Option (List (String × V))) {h' : Handle} (hne : h' ≠ oplogHandle) :
    (appendOplog cat nu h op doc ch).1.get? h' = cat.get? h' := by
  unfold appendOplog
  simp only [Nu.fresh]
  exact get?_set_ne cat _ hne

theorem deleteOp_get? {cat cat' : Catalog} {h h' : Handle} {q : Doc} {sort : Option Doc} {skip limit : Int}
    {nu nu' : Nu} {r : TResult} (e : deleteOp sch cat h q sort skip limit nu = .ok (cat', r, nu'))
    (h1 : h' ≠ h) (h2 : h' ≠ oplogHandle) : cat'.get? h' = cat.get? h' := by
  unfold deleteOp at e
  simp only at e
  split at e
  · cases e
  · rename_i coll list _
    simp only [Except.ok.injEq, Prod.mk.injEq] at e
    obtain ⟨rfl, _, _⟩ := e
    refine foldl_inv (fun cn : Catalog × Nu => cn.1.get? h' = cat.get? h')
      (fun (cn : Catalog × Nu) (sd : SDoc) => appendOplog cn.1 cn.2 h "delete" (some sd.doc) none)
      (fun b a hb => by rw [get?_appendOplog_ne _ _ _ _ _ _ h2]; exact hb) list _ ?_
    exact get?_set_ne cat coll h1

/-! ### `put` into the middle of a list with distinct handles -/

theorem put_middle (P R : List (Handle × SColl)) (h : Handle) (c c' : SColl) (lg : Bool)
    (hnd : ((P ++ (h, c) :: R).map (·.1)).Nodup) :
    ({ colls := P ++ (h, c) :: R, logged := lg } : SeqDB).put h c' =
      { colls := P ++ (h, c') :: R, logged := lg } := by
  have hany : (P ++ (h, c) :: R).any (·.1 == h) = true :=
    List.any_eq_true.mpr ⟨(h, c), by simp, by simp⟩
  rw [List.map_append, List.map_cons] at hnd
  obtain ⟨_, hR, hdisj⟩ := List.nodup_append.mp hnd
  have hP : ∀ x ∈ P, (x.1 == h) = false := by
    intro x hx
    simp only [beq_eq_false_iff_ne, ne_eq]
    exact hdisj x.1 (List.mem_map.mpr ⟨x, hx, rfl⟩) h (by simp)
  have hRn : ∀ x ∈ R, (x.1 == h) = false := by
    intro x hx
    simp only [beq_eq_false_iff_ne, ne_eq]
    intro e
    exact (List.nodup_cons.mp hR).1 (List.mem_map.mpr ⟨x, hx, e⟩)
  have hmap : ∀ (l : List (Handle × SColl)), (∀ x ∈ l, (x.1 == h) = false) →
      l.map (fun (x : Handle × SColl) => match x with
        | (h', x) => if h' == h then (h', c') else (h', x)) = l := by
    intro l hl
    induction l with
    | nil => rfl
    | cons x r ih =>
      obtain ⟨a, b⟩ := x
      have := hl (a, b) (by simp)
      simp only at this
      simp only [List.map_cons, this, Bool.false_eq_true, ↓reduceIte]
      rw [ih (fun y hy => hl y (List.mem_cons_of_mem _ hy))]
  unfold SeqDB.put
  simp only [hany, ↓reduceIte, List.map_append, List.map_cons, hmap P hP, hmap R hRn, beq_self_eq_true]

/-! ### the TTL query -/

theorem ttl_filter_abs (idx : List (String × Index)) :
    ((shape idx).filter fun x => match x with | (_, cfg) => decide (cfg.expiry > 0)) =
      shape (idx.filter fun x => match x with | (_, i) => decide (i.config.expiry > 0)) := by
  simp only [shape, List.filter_map]
  rfl

theorem ttlQuery_abs (idx : List (String × Index)) (nowMs : Int) :
    ttlQuery (shape idx) nowMs =
      [("$or", V.arr ((idx.filter fun x => match x with | (_, i) => decide (i.config.expiry > 0)).map fun x =>
        match x with
        | (_, i) =>
          let field := match i.config.key with
            | (k, _) :: _ => k
            | [] => ""
          V.doc [(field, .doc [("$lt", .date (nowMs - i.config.expiry / 1000000))])]))] := by
  unfold ttlQuery
  rw [ttl_filter_abs]
  simp only [shape, List.map_map]
  rfl

/-! ### the walk over the namespaces -/

/-- the TTL queries evaluate on the documents of their collections -/
def TtlOk (sch : SchemaEval) (nowMs : Int) (colls : List (Handle × SColl)) : Prop :=
  ∀ h c, (h, c) ∈ colls → ∀ d ∈ c.docs, ∀ e, Match sch d (ttlQuery c.defs nowMs) ≠ .error e

theorem okDB_opDelete {db db' : SeqDB} {h : Handle} {q : Doc} {sort : Option Doc} {skip limit : Int}
    {r : TResult} (ok : OkDB db) (e : opDelete sch db h q sort skip limit = .ok (db', r)) : OkDB db' := by
  unfold opDelete SColl.delete at e
  cases hsel : select sch (db.coll h).docs q sort skip limit with
  | error e' => simp [hsel] at e
  | ok targets =>
    simp only [hsel, Except.ok.injEq, Prod.mk.injEq] at e
    obtain ⟨rfl, _⟩ := e
    have : OkDB (db.put h ((db.coll h).remove targets)) :=
      okDB_put ok (fun d hd => okDB_coll ok h d (List.mem_filter.mp hd).1)
    split
    · exact this
    · exact okDB_log this

/-- no TTL index (implementation side) -/
def ttlEmptyM (c : Coll) : Bool := (c.indexes.filter fun (_, i) => i.config.expiry > 0).isEmpty

/-- the delete filter of `Transaction.Expire` for one namespace -/
def ttlQueryM (c : Coll) (nowMs : Int) : Doc :=
  [("$or", .arr ((c.indexes.filter fun (_, i) => i.config.expiry > 0).map fun (_, i) =>
    let field := match i.config.key with
      | (k, _) :: _ => k
      | [] => ""
    V.doc [(field, .doc [("$lt", .date (nowMs - i.config.expiry / 1000000))])]))]

theorem expire_go_cons (nowMs : Int) (cat : Catalog) (nu : Nu) (deleted : Nat) (h : Handle) (c : Coll)
    (r : List (Handle × Coll)) :
    Txn.expire.go sch nowMs cat nu deleted ((h, c) :: r) =
      if ttlEmptyM c then Txn.expire.go sch nowMs cat nu deleted r else
      match deleteOp sch cat h (ttlQueryM c nowMs) none 0 0 nu with
      | .error e => .error e
      | .ok (cat', res, nu') => Txn.expire.go sch nowMs cat' nu' (deleted + res.matched.length) r := by
  rw [Txn.expire.go]
  rfl

/-- no TTL definition (Spec side) -/
def ttlEmptyS (c : SColl) : Bool := (c.defs.filter fun (_, cfg) => cfg.expiry > 0).isEmpty

theorem expireAll_cons (nowMs : Int) (h : Handle) (c : SColl) (r : List (Handle × SColl)) :
    expireAll sch nowMs ((h, c) :: r) =
      if ttlEmptyS c then
        match expireAll sch nowMs r with
        | .error e => .error e
        | .ok (r', n) => .ok ((h, c) :: r', n)
      else
        match c.delete sch (ttlQuery c.defs nowMs) none 0 0 with
        | .error e => .error e
        | .ok (c', gone) =>
          match expireAll sch nowMs r with
          | .error e => .error e
          | .ok (r', n) => .ok ((h, c') :: r', gone.length + n) := by
  rw [expireAll]
  rfl

theorem ttlEmpty_abs (c : Coll) : ttlEmptyS (absC c) = ttlEmptyM c := by
  unfold ttlEmptyS ttlEmptyM
  simp only [absC]
  rw [ttl_filter_abs]
  simp [shape]

theorem ttlQueryM_abs (c : Coll) (nowMs : Int) : ttlQuery (absC c).defs nowMs = ttlQueryM c nowMs :=
  ttlQuery_abs c.indexes nowMs

theorem expire_go_abs {nowMs : Int} :
    ∀ (L : List (Handle × Coll)) (P : List (Handle × SColl)) (cat : Catalog) (nu : Nu) (deleted : Nat),
    Good sch true cat nu.nextId → OkDB (abs cat) →
    (abs cat).colls = P ++ L.map absNs →
    ((P ++ L.map absNs).map (·.1)).Nodup →
    (∀ h c, (h, c) ∈ L → h ≠ oplogHandle → cat.get? h = some c) →
    (∀ c, (oplogHandle, c) ∈ L → c.indexes = []) →
    TtlOk sch nowMs (L.map absNs) →
    (Txn.expire.go sch nowMs cat nu deleted L).map (fun r => ((abs r.1).colls, (abs r.1).logged, r.2.2)) =
      (expireAll sch nowMs (L.map absNs)).map
        (fun r => (P ++ r.1, ((abs cat).logged || decide (r.2 > 0)), deleted + r.2))
  | [], P, cat, nu, deleted, _, _, hcolls, _, _, _, _ => by
    simp only [Txn.expire.go, List.map_nil, expireAll, Except.map, List.append_nil] at hcolls ⊢
    simp [hcolls]
  | (h, c) :: r, P, cat, nu, deleted, g, ok, hcolls, hnd, hget, hbare, httl => by
    have hget' : ∀ h' c', (h', c') ∈ r → h' ≠ oplogHandle → cat.get? h' = some c' :=
      fun h' c' hm => hget h' c' (List.mem_cons_of_mem _ hm)
    have hbare' : ∀ c', (oplogHandle, c') ∈ r → c'.indexes = [] :=
      fun c' hm => hbare c' (List.mem_cons_of_mem _ hm)
    have httl' : TtlOk sch nowMs (r.map absNs) :=
      fun h' c' hm => httl h' c' (by rw [List.map_cons]; exact List.mem_cons_of_mem _ hm)
    have hS : absNs (h, c) = (h, (absNs (h, c)).2) := rfl
    -- the emptiness test, on both sides
    have hE : ttlEmptyS (absNs (h, c)).2 = ttlEmptyM c := by
      by_cases ho : h = oplogHandle
      · subst ho
        have hself : (oplogHandle == oplogHandle) = true := beq_self_eq_true _
        unfold ttlEmptyS ttlEmptyM
        rw [hbare c (by simp)]
        simp only [absNs, hself, ↓reduceIte]
        rfl
      · have hb : (h == oplogHandle) = false := by simpa using ho
        have : (absNs (h, c)).2 = absC c := by simp only [absNs, hb, Bool.false_eq_true, ↓reduceIte]
        rw [this, ttlEmpty_abs]
    rw [expire_go_cons, List.map_cons, hS, expireAll_cons, hE]
    cases hEv : ttlEmptyM c with
    | true =>
      simp only [↓reduceIte]
      have hcolls' : (abs cat).colls = (P ++ [absNs (h, c)]) ++ r.map absNs := by
        rw [hcolls, List.map_cons, List.append_assoc]; rfl
      have hnd' : (((P ++ [absNs (h, c)]) ++ r.map absNs).map (·.1)).Nodup := by
        rw [List.append_assoc]; simpa using hnd
      have ih := expire_go_abs r (P ++ [absNs (h, c)]) cat nu deleted g ok hcolls' hnd' hget' hbare' httl'
      rw [ih]
      cases expireAll sch nowMs (r.map absNs) with
      | error e => rfl
      | ok res =>
        simp only [Except.map, List.append_assoc, List.cons_append, List.nil_append]
        rw [← hS]
    | false =>
      simp only [Bool.false_eq_true, ↓reduceIte]
      have ho : h ≠ oplogHandle := by
        intro e
        subst e
        unfold ttlEmptyM at hEv
        rw [hbare c (by simp)] at hEv
        simp at hEv
      have hb : (h == oplogHandle) = false := by simpa using ho
      have hcur : cat.get? h = some c := hget h c (by simp) ho
      have hS2 : (absNs (h, c)).2 = absC c := by simp only [absNs, hb, Bool.false_eq_true, ↓reduceIte]
      rw [hS2, ttlQueryM_abs]
      have hcoll : (abs cat).coll h = absC c := by rw [abs_coll cat ho, ensureNs_some hcur]
      have hqok : QueryOk sch (abs cat) h (ttlQueryM c nowMs) := by
        intro d hd e
        rw [hcoll] at hd
        rw [← ttlQueryM_abs]
        exact httl h (absC c) (by rw [List.map_cons, hS, hS2]; simp) d hd e
      have hdel := deleteOp_abs g ok ho (ttlQueryM c nowMs) none 0 0 nu hqok
      have hop : opDelete sch (abs cat) h (ttlQueryM c nowMs) none 0 0 =
          match (absC c).delete sch (ttlQueryM c nowMs) none 0 0 with
          | .error e => .error e
          | .ok (c', targets) =>
            .ok (if targets.isEmpty then (abs cat).put h c' else ((abs cat).put h c').log, { matched := targets }) := by
        unfold opDelete
        rw [hcoll]
        cases (absC c).delete sch (ttlQueryM c nowMs) none 0 0 <;> rfl
      rw [hop] at hdel
      cases hsd : (absC c).delete sch (ttlQueryM c nowMs) none 0 0 with
      | error e =>
        rw [hsd] at hdel
        simp only at hdel
        rw [map_error hdel]
        rfl
      | ok res =>
        obtain ⟨c', gone⟩ := res
        rw [hsd] at hdel hop
        simp only at hdel hop
        obtain ⟨⟨cat1, res1, nu1⟩, hd1, hd2⟩ := map_ok hdel
        simp only [Prod.mk.injEq] at hd2
        obtain ⟨habs1, hres1⟩ := hd2
        rw [hd1]
        simp only
        have g1 := (Good.deleteOp g (g.ensureNs ho) hd1).1
        have ok1 : OkDB (abs cat1) := by
          rw [habs1]
          exact okDB_opDelete ok hop
        -- the collections after this delete
        have hput : ((abs cat).put h c').colls = P ++ (h, c') :: r.map absNs := by
          have hdb : abs cat = { colls := P ++ (h, absC c) :: r.map absNs, logged := (abs cat).logged } := by
            cases hh : abs cat with
            | mk cs lg =>
              rw [hh] at hcolls
              simp only at hcolls
              rw [hcolls, List.map_cons, hS, hS2]
          rw [hdb, put_middle P (r.map absNs) h (absC c) c' _ (by
            have := hnd
            rw [List.map_cons, hS, hS2] at this
            exact this)]
        have hcolls1 : (abs cat1).colls = (P ++ [(h, c')]) ++ r.map absNs := by
          rw [habs1, List.append_assoc]
          split
          · exact hput
          · exact hput
        have hnd1 : (((P ++ [(h, c')]) ++ r.map absNs).map (·.1)).Nodup := by
          rw [List.append_assoc]
          have := hnd
          rw [List.map_cons, hS] at this
          simpa using this
        have hnotin : ∀ h' c'', (h', c'') ∈ r → h' ≠ h := by
          intro h' c'' hm e
          subst e
          have := hnd
          rw [List.map_cons, hS, List.map_append, List.map_cons] at this
          have h2 := (List.nodup_append.mp this).2.1
          have h3 := (List.nodup_cons.mp h2).1
          apply h3
          simp only [List.map_map]
          exact List.mem_map.mpr ⟨(h', c''), hm, rfl⟩
        have hget1 : ∀ h' c'', (h', c'') ∈ r → h' ≠ oplogHandle → cat1.get? h' = some c'' := by
          intro h' c'' hm hne'
          rw [deleteOp_get? hd1 (hnotin h' c'' hm) hne']
          exact hget' h' c'' hm hne'
        have ih := expire_go_abs r (P ++ [(h, c')]) cat1 nu1 (deleted + res1.matched.length) g1 ok1
          hcolls1 hnd1 hget1 hbare' httl'
        rw [ih]
        have hlen : res1.matched.length = gone.length := by rw [hres1]
        have hlog : (abs cat1).logged = ((abs cat).logged || !gone.isEmpty) := by
          rw [habs1]
          cases gone with
          | nil => simp [SeqDB.put]; split <;> rfl
          | cons a l => simp [SeqDB.log]
        cases expireAll sch nowMs (r.map absNs) with
        | error e => rfl
        | ok res2 =>
          obtain ⟨r', n⟩ := res2
          simp only [Except.map, Except.ok.injEq, Prod.mk.injEq, List.append_assoc, List.cons_append,
            List.nil_append, true_and, hlen, hlog]
          refine ⟨?_, by omega⟩
          cases gone <;> simp <;> omega

/-! ### the call -/

theorem get?_of_mem {cat : Catalog} (hd : HD cat) {h : Handle} {c : Coll} (hm : (h, c) ∈ cat.namespaces) :
    cat.get? h = some c := by
  unfold Catalog.get?
  unfold HD at hd
  generalize cat.namespaces = l at hd hm
  induction l with
  | nil => cases hm
  | cons x r ih =>
    obtain ⟨a, b⟩ := x
    rw [List.map_cons, List.nodup_cons] at hd
    simp only [List.find?_cons]
    rcases List.mem_cons.mp hm with e | hm'
    · simp only [Prod.mk.injEq] at e
      obtain ⟨rfl, rfl⟩ := e
      simp
    · have hne : (a == h) = false := by
        simp only [beq_eq_false_iff_ne, ne_eq]
        intro e
        subst e
        exact hd.1 (List.mem_map.mpr ⟨(a, c), hm', rfl⟩)
      simp only [hne]
      exact ih hd.2 hm'

theorem refines_expire (s : Sys) (nowMs : Int) (oids : List V) (g : Good sch true s.catalog s.nextId)
    (hh : HD s.catalog) (ok : OkDB (abs s.catalog)) (hw : TtlOk sch nowMs (abs s.catalog).colls) :
    Refines sch s (.expire nowMs) oids := by
  unfold Refines Sys.step
  simp only [Spec.step, runCall, Txn.expire]
  have hnd : ((([] : List (Handle × SColl)) ++ s.catalog.namespaces.map absNs).map (·.1)).Nodup := by
    simp only [List.nil_append, List.map_map]
    exact hh
  have hgo := expire_go_abs (sch := sch) (nowMs := nowMs) s.catalog.namespaces [] s.catalog (s.nu oids) 0 g ok
    rfl hnd (fun h c hm _ => get?_of_mem hh hm) (fun c hm => g.1.oplogBare c hm) hw
  have hcolls : (abs s.catalog).colls = s.catalog.namespaces.map absNs := rfl
  rw [hcolls]
  cases hex : expireAll sch nowMs (s.catalog.namespaces.map absNs) with
  | error e =>
    rw [hex] at hgo
    simp only [Except.map] at hgo
    rw [map_error hgo]
    rfl
  | ok res =>
    obtain ⟨colls', n⟩ := res
    rw [hex] at hgo
    simp only [Except.map, List.nil_append, Nat.zero_add] at hgo
    obtain ⟨⟨cat', nu', d'⟩, hg1, hg2⟩ := map_ok hgo
    simp only [Prod.mk.injEq] at hg2
    obtain ⟨hc, hl, rfl⟩ := hg2
    rw [hg1]
    simp only [Except.map]
    by_cases hn : d' > 0
    · simp only [hn, ↓reduceIte, Sys.commit, Except.ok.injEq, Prod.mk.injEq, and_true]
      have : decide (d' > 0) = true := by simpa using hn
      rw [this, Bool.or_true] at hl
      cases hab : abs cat' with
      | mk cs lg =>
        rw [hab] at hc hl
        simp only at hc hl
        rw [hc, hl]
    · have h0 : d' = 0 := by omega
      subst h0
      simp [Sys.commit]

end Lungo.SeqRef
