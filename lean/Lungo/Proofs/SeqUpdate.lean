/-
  Lungo.Proofs.SeqUpdate — C01: updateOne / updateMany / findOneAndUpdate (with upsert).
  The implementation applies the update to clones of the selected documents, removes ALL selected
  documents from every index, adds ALL successors (uniqueness is that of the RESULTING collection),
  and replaces the documents slot by slot by identity. The Spec does the same on plain documents:
  `applyEach`, `admitAll` over the untouched documents, `swapAll`.
-/
import Lungo.Proofs.SeqIndex
namespace Lungo.SeqRef
open Lungo Lungo.Spec

variable {sch : SchemaEval}

/-! ### list helpers -/

theorem find?_congr_mem {α} {p q : α → Bool} : ∀ {l : List α}, (∀ x ∈ l, p x = q x) → l.find? p = l.find? q
  | [], _ => rfl
  | a :: r, h => by
    simp only [List.find?_cons, h a (by simp)]
    rw [find?_congr_mem (fun x hx => h x (List.mem_cons_of_mem _ hx))]

/-- the successor of a stored document in a list of (old, new, _) pairs, by identity -/
def succOf {α : Type} (pairs : List (SDoc × SDoc × α)) (sd : SDoc) : SDoc :=
  match pairs.find? (fun p => p.1.id == sd.id) with
  | some p => p.2.1
  | none => sd

/-- replacing one after the other = replacing simultaneously, when no successor carries the
    identity of a later predecessor -/
theorem foldl_replaceDoc_map {α : Type} : ∀ (pairs : List (SDoc × SDoc × α)) (docs : List SDoc),
    (∀ p ∈ pairs, ∀ p' ∈ pairs, p'.1.id ≠ p.2.1.id) →
    pairs.foldl (fun ds p => replaceDoc ds p.1.id p.2.1) docs = docs.map (succOf pairs)
  | [], docs, _ => by
    have : succOf ([] : List (SDoc × SDoc × α)) = id := by funext sd; rfl
    simp [this]
  | p :: r, docs, hf => by
    rw [List.foldl_cons, foldl_replaceDoc_map r _ (fun a ha b hb =>
      hf a (List.mem_cons_of_mem _ ha) b (List.mem_cons_of_mem _ hb))]
    unfold replaceDoc
    rw [List.map_map]
    apply List.map_congr_left
    intro sd _
    simp only [Function.comp, succOf, List.find?_cons]
    by_cases e : sd.id == p.1.id
    · have e' : (p.1.id == sd.id) = true := by
        have : sd.id = p.1.id := by simpa using e
        simp [this]
      simp only [e, ↓reduceIte, e']
      have hnone : r.find? (fun p' => p'.1.id == p.2.1.id) = none := by
        apply List.find?_eq_none.mpr
        intro p' hp'
        simpa using hf p (by simp) p' (List.mem_cons_of_mem _ hp')
      rw [hnone]
    · have e' : (p.1.id == sd.id) = false := by
        have : ¬ sd.id = p.1.id := by simpa using e
        simp only [beq_eq_false_iff_ne, ne_eq]
        exact fun h => this h.symm
      simp only [e, Bool.false_eq_true, ↓reduceIte, e']

/-! ### `applyAll` = `applyEach` -/

theorem applyAll_applyEach {ac : ACtx} {u : Doc} {fs : List Doc} : ∀ (list : List SDoc) (nu : Nu),
    applyEach ac u fs (list.map (·.doc)) =
      (Coll.update.applyAll ac u fs nu list).map (fun r => (list.zip r.1).map (fun p => (p.1.doc, p.2.1.doc)))
  | [], nu => rfl
  | sd :: r, nu => by
    rw [List.map_cons, applyEach, Coll.update.applyAll]
    cases Apply { ac with upsert := false } sd.doc u fs with
    | error e => rfl
    | ok p =>
      obtain ⟨d', ch⟩ := p
      simp only [Nu.fresh]
      rw [applyAll_applyEach r { nu with nextId := nu.nextId + 1 }]
      cases Coll.update.applyAll ac u fs { nu with nextId := nu.nextId + 1 } r with
      | error e => rfl
      | ok q => rfl

theorem applyAll_oids {ac : ACtx} {u : Doc} {fs : List Doc} : ∀ {list : List SDoc} {nu nu' : Nu}
    {news : List (SDoc × List (String × V))},
    Coll.update.applyAll ac u fs nu list = .ok (news, nu') → nu'.oids = nu.oids
  | [], nu, nu', news, h => by
    simp only [Coll.update.applyAll, Except.ok.injEq, Prod.mk.injEq] at h
    rw [← h.2]
  | sd :: r, nu, nu', news, h => by
    rw [Coll.update.applyAll] at h
    split at h
    · cases h
    · simp only [Nu.fresh] at h
      split at h
      · cases h
      · rename_i rest nu2 hr
        simp only [Except.ok.injEq, Prod.mk.injEq] at h
        rw [← h.2, applyAll_oids hr]

/-- every successor is the result of `Apply` on its predecessor -/
theorem applyAll_results {ac : ACtx} {u : Doc} {fs : List Doc} : ∀ {list : List SDoc} {nu nu' : Nu}
    {news : List (SDoc × List (String × V))},
    Coll.update.applyAll ac u fs nu list = .ok (news, nu') →
    ∀ n ∈ news, ∃ o ∈ list, ∃ ch, Apply { ac with upsert := false } o.doc u fs = .ok (n.1.doc, ch)
  | [], nu, nu', news, h => by
    simp only [Coll.update.applyAll, Except.ok.injEq, Prod.mk.injEq] at h
    intro n hn; rw [← h.1] at hn; cases hn
  | sd :: r, nu, nu', news, h => by
    rw [Coll.update.applyAll] at h
    split at h
    · cases h
    · rename_i d' ch hap
      simp only [Nu.fresh] at h
      split at h
      · cases h
      · rename_i rest nu2 hr
        simp only [Except.ok.injEq, Prod.mk.injEq] at h
        intro n hn
        rw [← h.1] at hn
        rcases List.mem_cons.mp hn with rfl | hn
        · exact ⟨sd, by simp, ch, hap⟩
        · obtain ⟨o, ho, ch', h'⟩ := applyAll_results hr n hn
          exact ⟨o, List.mem_cons_of_mem _ ho, ch', h'⟩

/-! ### adding all successors = `admitAll` -/

theorem foldIdx_add_admitAll : ∀ (news base : List SDoc) (idx : List (String × Index)),
    AllCoherent sch (· ∈ base) idx → IdsDistinct (base ++ news) → DocsOk (base ++ news) →
    (foldIdx (fun idx sd => addToIndexes sch sd idx) idx news).map (fun _ => ()) =
      admitAll sch (shape idx) (base.map (·.doc)) (news.map (·.doc))
  | [], _, _, _, _, _ => rfl
  | sd :: r, base, idx, hc, hd, hok => by
    have hdb : IdsDistinct base := hd.sublist (List.sublist_append_left base (sd :: r))
    have hfresh : ∀ x ∈ base, x.id ≠ sd.id := by
      intro x hx e
      have hx' : x ∈ base ++ sd :: r := List.mem_append_left _ hx
      have hs' : sd ∈ base ++ sd :: r := List.mem_append_right _ (by simp)
      have := ids_inj hd x hx' sd hs' e
      subst this
      unfold IdsDistinct at hd
      rw [List.map_append, List.map_cons] at hd
      exact (List.nodup_append.mp hd).2.2 x.id (List.mem_map.mpr ⟨x, hx, rfl⟩) x.id (by simp) rfl
    have hokb : DocsOk base := fun x hx => hok x (List.mem_append_left _ hx)
    have hsd : DocOk sd.doc := hok sd (List.mem_append_right _ (by simp))
    have ha := addToIndexes_admits (sch := sch) hfresh (idInj_of_distinct hdb) hokb hsd idx hc
    have hd' : IdsDistinct ((base ++ [sd]) ++ r) := by simpa using hd
    have hok' : DocsOk ((base ++ [sd]) ++ r) := by simpa using hok
    rw [foldIdx, List.map_cons, admitAll, ← ha]
    cases hadd : addToIndexes sch sd idx with
    | error e => rfl
    | ok idx1 =>
      simp only [Except.map]
      have hc1 : AllCoherent sch (· ∈ base ++ [sd]) idx1 :=
        (hc.add hadd).congr (fun x => by simp)
      have := foldIdx_add_admitAll r (base ++ [sd]) idx1 hc1 hd' hok'
      rw [addToIndexes_shape hadd] at this
      simp only [List.map_append, List.map_cons, List.map_nil, Except.map] at this
      exact this

/-! ### `Collection.Update` -/

/-- the results of the update on the stored documents are Go values -/
def ApplyOkOn (ac : ACtx) (docs : List Doc) (u : Doc) (fs : List Doc) : Prop :=
  ∀ d ∈ docs, ∀ d' ch, Apply { ac with upsert := false } d u fs = .ok (d', ch) → DocOk d'

theorem swapAll_nil (docs : List Doc) : swapAll docs [] = docs := by
  unfold swapAll
  simp

/-- the slots after the update, without identities -/
theorem replaced_abs {α : Type} {docs : List SDoc} {pairs : List (SDoc × SDoc × α)} {n0 : Nat}
    (hd : IdsDistinct docs) (hinj : DocInj docs) (hb : IdsBelow docs n0)
    (hold : ∀ p ∈ pairs, p.1 ∈ docs) (hnew : ∀ p ∈ pairs, n0 ≤ p.2.1.id) :
    (pairs.foldl (fun ds p => replaceDoc ds p.1.id p.2.1) docs).map (·.doc) =
      swapAll (docs.map (·.doc)) (pairs.map (fun p => (p.1.doc, p.2.1.doc))) := by
  rw [foldl_replaceDoc_map pairs docs (fun p hp p' hp' e => by
    have h1 := hb p'.1 (hold p' hp')
    have h2 := hnew p hp
    omega)]
  unfold swapAll
  rw [List.map_map, List.map_map]
  apply List.map_congr_left
  intro sd hsd
  simp only [Function.comp, succOf, List.find?_map]
  have hc : pairs.find? ((fun p : Doc × Doc => sameDoc sd.doc p.1) ∘ fun p => (p.1.doc, p.2.1.doc)) =
      pairs.find? (fun p => p.1.id == sd.id) := by
    apply find?_congr_mem
    intro p hp
    simp only [Function.comp]
    apply Bool.eq_iff_iff.mpr
    simp only [sameDoc_iff, beq_iff_eq]
    constructor
    · intro e
      have := hinj sd hsd p.1 (hold p hp) e
      rw [this]
    · intro e
      have := ids_inj hd p.1 (hold p hp) sd hsd e
      rw [this]
  rw [hc]
  cases pairs.find? (fun p => p.1.id == sd.id) <;> rfl

/-- `Collection.Update` = the Spec's update: (collection, matched, modified) -/
theorem update_abs {ac : ACtx} {c : Coll} (k : CollOk ac.sch c) {nu : Nu} (hb : IdsBelow c.docs nu.nextId)
    (q u : Doc) (sort : Option Doc) (skip limit : Int) (fs : List Doc)
    (hne : noMatchError ac.sch q c.docs) (hap : ApplyOkOn ac (c.docs.map (·.doc)) u fs) :
    (c.update ac q u sort skip limit fs nu).map
        (fun r => (absC r.1.coll, r.1.matched.map (·.doc), r.1.modified.map (·.doc))) =
      (absC c).update ac q u sort skip limit fs := by
  unfold SColl.update
  have hs := select_abs c q sort skip limit k.docsOk hne
  rw [← hs]
  cases hsel : selectDocs ac.sch c q sort skip limit with
  | error e => simp [Coll.update, hsel, Except.map]
  | ok list =>
    simp only [Except.map]
    rw [applyAll_applyEach list nu]
    unfold Coll.update
    simp only [hsel]
    cases list with
    | nil =>
      simp only [Coll.update.applyAll, Except.map, List.zip_nil_left, List.map_nil, List.any_nil,
        Bool.false_eq_true, ↓reduceIte, admitAll, swapAll_nil, List.filter_nil]
    | cons o r =>
      have hmem := selectDocs_mem hsel
      have hdl := selectDocs_distinct hsel k.coherent.1
      cases happ : Coll.update.applyAll ac u fs nu (o :: r) with
      | error e => simp only [happ, Except.map]
      | ok res =>
        obtain ⟨news, nu'⟩ := res
        simp only [happ, Except.map]
        have hlen := applyAll_length happ
        have e2 : ((o :: r).zip news).map Prod.snd = news := List.map_snd_zip (by omega)
        have hany : (((o :: r).zip news).map (fun p => (p.1.doc, p.2.1.doc))).any
              (fun p => !sameId (Get p.2 "_id") (Get p.1 "_id")) =
            ((o :: r).zip news).any (fun x => !sameId (Get x.2.1.doc "_id") (Get x.1.doc "_id")) := by
          rw [List.any_map]; rfl
        rw [hany]
        cases hid : ((o :: r).zip news).any (fun x => !sameId (Get x.2.1.doc "_id") (Get x.1.doc "_id")) with
        | true => simp
        | false =>
          simp only [Bool.false_eq_true, ↓reduceIte]
          obtain ⟨_, _, f3, _⟩ := update_pairs_facts k.coherent.1 hb hmem hdl happ
          have hinj : ∀ o' ∈ o :: r, ∀ x, x ∈ c.docs → x.id = o'.id → x = o' :=
            fun o' ho x hx e => ids_inj k.coherent.1 x hx o' (hmem o' ho) e
          obtain ⟨idx1, hrem⟩ := foldIdx_remove_ok k.coherent.2 hmem hdl hinj
          have c1 := foldIdx_remove_coherent k.coherent.2 hinj hrem
          have hsh := foldIdx_remove_shape hrem
          -- the untouched documents, as a list
          have c1' : AllCoherent ac.sch
              (· ∈ c.docs.filter (fun sd => !((o :: r).any (·.id == sd.id)))) idx1 :=
            c1.congr (fun x => mem_filter_notAny)
          have hBsub : ∀ x ∈ c.docs.filter (fun sd => !((o :: r).any (·.id == sd.id))), x ∈ c.docs :=
            fun x hx => (List.mem_filter.mp hx).1
          have hdist : IdsDistinct (c.docs.filter (fun sd => !((o :: r).any (·.id == sd.id))) ++ news.map (·.1)) := by
            unfold IdsDistinct
            rw [List.map_append]
            apply List.nodup_append.mpr
            refine ⟨?_, ?_, ?_⟩
            · exact IdsDistinct.sublist k.coherent.1 List.filter_sublist
            · rw [List.map_map]
              have : ((fun x : SDoc => x.id) ∘ fun x : SDoc × List (String × V) => x.1) = fun x => x.1.id := rfl
              rw [this, (applyAll_spec happ).1]
              exact List.nodup_range' 1
            · intro a ha b hb' e
              obtain ⟨x, hx, rfl⟩ := List.mem_map.mp ha
              obtain ⟨y, hy, rfl⟩ := List.mem_map.mp hb'
              have h1 := hb x (hBsub x hx)
              have h2 := (f3 y hy).1
              omega
          have hokall : DocsOk (c.docs.filter (fun sd => !((o :: r).any (·.id == sd.id))) ++ news.map (·.1)) := by
            intro x hx
            rcases List.mem_append.mp hx with hx | hx
            · exact k.docsOk x (hBsub x hx)
            · obtain ⟨n, hn, rfl⟩ := List.mem_map.mp hx
              obtain ⟨o', ho', ch, ha⟩ := applyAll_results happ n hn
              exact hap o'.doc (List.mem_map.mpr ⟨o', hmem o' ho', rfl⟩) _ ch ha
          have hadm := foldIdx_add_admitAll (sch := ac.sch) (news.map (·.1)) _ idx1 c1' hdist hokall
          rw [hsh, remove_abs k.coherent.1 k.inj hmem] at hadm
          have hnews : (news.map (·.1)).map (·.doc) =
              (((o :: r).zip news).map (fun p => (p.1.doc, p.2.1.doc))).map (·.2) := by
            calc (news.map (·.1)).map (·.doc) = news.map (fun x => x.1.doc) := by rw [List.map_map]; rfl
              _ = (((o :: r).zip news).map Prod.snd).map (fun x => x.1.doc) := by rw [e2]
              _ = _ := by rw [List.map_map, List.map_map]; rfl
          rw [hnews] at hadm
          simp only [absC, SColl.remove, hrem] at hadm ⊢
          rw [← hadm]
          cases hadd : foldIdx (fun idx sd => addToIndexes ac.sch sd idx) idx1 (news.map (·.1)) with
          | error e => simp [Except.map]
          | ok idx2 =>
            simp only [Except.map]
            have hdocs := replaced_abs (pairs := (o :: r).zip news) k.coherent.1 k.inj hb
              (fun p hp => hmem p.1 (List.of_mem_zip hp).1)
              (fun p hp => (f3 p.2.1 (List.mem_map.mpr ⟨p.2, (List.of_mem_zip hp).2, rfl⟩)).1)
            simp only [Except.ok.injEq, Prod.mk.injEq, SColl.mk.injEq]
            refine ⟨⟨hdocs, ?_⟩, trivial, ?_⟩
            · rw [foldIdx_add_shape hadd, hsh]
            · simp only [List.map_map, List.filter_map]
              rfl

theorem update_oids {ac : ACtx} {c : Coll} {q u : Doc} {sort : Option Doc} {skip limit : Int}
    {fs : List Doc} {nu nu' : Nu} {res : CResult}
    (h : c.update ac q u sort skip limit fs nu = .ok (res, nu')) : nu'.oids = nu.oids := by
  rcases update_spec h with ⟨_, h2, _⟩ | ⟨list, news, _, _, _, hap, _⟩
  · rw [h2]
  · exact applyAll_oids hap

/-! ### `Collection.Upsert` -/

theorem upsert_unfold (ac : ACtx) (c : Coll) (q : Doc) (repl update : Option Doc) (fs : List Doc) (nu : Nu) :
    c.upsert ac q repl update fs nu =
      match upsertDoc ac q repl update fs with
      | .error e => .error e
      | .ok doc => c.insert ac.sch doc nu := by
  unfold Coll.upsert upsertDoc
  cases Extract q with
  | error e => rfl
  | ok seed =>
    simp only
    cases repl with
    | none =>
      simp only
      cases update with
      | none => rfl
      | some u =>
        simp only
        cases Apply { ac with upsert := true } seed u fs with
        | error e => rfl
        | ok p => rfl
    | some r =>
      simp only
      by_cases h1 : (!(Get seed "_id").isMissing && !(Get r "_id").isMissing &&
          V.cmp (Get r "_id") (Get seed "_id") != .eq) = true
      · simp only [h1, ↓reduceIte]
      · simp only [h1, ↓reduceIte]
        by_cases h2 : (!(Get r "_id").isMissing) = true
        · simp only [h2, ↓reduceIte]
          cases Put r ["_id"] (Get r "_id") true with
          | error e => rfl
          | ok p =>
            simp only
            cases update with
            | none => rfl
            | some u =>
              simp only
              cases Apply { ac with upsert := true } p.1 u fs with
              | error e => rfl
              | ok p' => rfl
        · simp only [h2, ↓reduceIte]
          by_cases h3 : (!(Get seed "_id").isMissing) = true
          · simp only [h3, ↓reduceIte]
            cases Put r ["_id"] (Get seed "_id") true with
            | error e => rfl
            | ok p =>
              simp only
              cases update with
              | none => rfl
              | some u =>
                simp only
                cases Apply { ac with upsert := true } p.1 u fs with
                | error e => rfl
                | ok p' => rfl
          · simp only [h3, ↓reduceIte]
            cases update with
            | none => rfl
            | some u =>
              simp only
              cases Apply { ac with upsert := true } r u fs with
              | error e => rfl
              | ok p' => rfl

/-- the document an upsert would insert is a Go value -/
def UpsertOk (ac : ACtx) (q : Doc) (repl update : Option Doc) (fs : List Doc) : Prop :=
  ∀ doc, upsertDoc ac q repl update fs = .ok doc → DocOk doc

/-- `Collection.Upsert` = the Spec's upsert -/
theorem upsert_abs {ac : ACtx} {c : Coll} {nu : Nu} (hc : Coherent ac.sch c) (hb : IdsBelow c.docs nu.nextId)
    (hok : DocsOk c.docs) (q : Doc) (repl update : Option Doc) (fs : List Doc)
    (hu : UpsertOk ac q repl update fs) (ho : ∀ o ∈ nu.oids, o.i64Ok = true) :
    (c.upsert ac q repl update fs nu).map (fun r => (absC r.1, r.2.1.doc, r.2.2.oids)) =
      (absC c).upsert ac q repl update fs nu.oids := by
  rw [upsert_unfold]
  unfold SColl.upsert
  cases hd : upsertDoc ac q repl update fs with
  | error e => rfl
  | ok doc => exact insert_abs hc hb hok (hu doc hd) ho

/-! ### `Transaction.update` -/

theorem appendOplog_oids (cat : Catalog) (nu : Nu) (h : Handle) (op : String) (doc : Option Doc)
    (ch : Option (List (String × V))) : (appendOplog cat nu h op doc ch).2.oids = nu.oids := by
  simp [appendOplog, Nu.fresh]

theorem fold_append_oids {α : Type} (F : Catalog × Nu → α → Catalog × Nu)
    (hF : ∀ cn a, ∃ h op doc ch, F cn a = appendOplog cn.1 cn.2 h op doc ch) :
    ∀ (l : List α) (cn : Catalog × Nu), (l.foldl F cn).2.oids = cn.2.oids
  | [], _ => rfl
  | a :: r, cn => by
    rw [List.foldl_cons, fold_append_oids F hF r]
    obtain ⟨h, op, doc, ch, e⟩ := hF cn a
    rw [e, appendOplog_oids]

theorem update_changes_len {ac : ACtx} {c : Coll} {q u : Doc} {sort : Option Doc} {skip limit : Int}
    {fs : List Doc} {nu nu' : Nu} {res : CResult}
    (h : c.update ac q u sort skip limit fs nu = .ok (res, nu')) :
    res.changes.length = res.modified.length := by
  unfold Coll.update at h
  simp only at h
  split at h
  · cases h
  · simp only [Except.ok.injEq, Prod.mk.injEq] at h
    rw [← h.1]
    rfl
  · split at h
    · cases h
    · split at h
      · cases h
      · split at h
        · cases h
        · split at h
          · cases h
          · simp only [Except.ok.injEq, Prod.mk.injEq] at h
            rw [← h.1]
            simp

theorem zip_isEmpty {α β} : ∀ (l1 : List α) (l2 : List β), l2.length = l1.length →
    (l1.zip l2).isEmpty = l1.isEmpty
  | [], _, _ => by simp
  | a :: r, [], h => by simp at h
  | a :: r, b :: s, _ => by simp

/-- what an update call needs to know about its arguments, on the Spec's state -/
structure UpdateOk (ac : ACtx) (db : SeqDB) (h : Handle) (q u : Doc) (upsert : Bool) (fs : List Doc)
    (oids : List V) : Prop where
  query : QueryOk ac.sch db h q
  apply : ApplyOkOn ac (db.coll h).docs u fs
  ups : upsert = true → UpsertOk ac q none (some u) fs
  oids : ∀ o ∈ oids, o.i64Ok = true

/-- `Transaction.update` = the Spec's `opUpdate` -/
theorem updateOp_abs {ac : ACtx} {cat : Catalog} {nu : Nu} (g : Good ac.sch true cat nu.nextId)
    (ok : OkDB (abs cat)) {h : Handle} (hne : h ≠ oplogHandle) (q u : Doc) (sort : Option Doc)
    (upsert : Bool) (skip limit : Int) (fs : List Doc)
    (hw : UpdateOk ac (abs cat) h q u upsert fs nu.oids) :
    (updateOp ac cat h q u sort upsert skip limit fs nu).map (fun r => (abs r.1, r.2.1, r.2.2.oids)) =
      opUpdate ac (abs cat) h q u sort upsert skip limit fs nu.oids := by
  have k := g.ensureNs hne
  have kc := collOk_ensureNs g ok hne
  have happ : ApplyOkOn ac ((ensureNs cat h).docs.map (·.doc)) u fs := by
    have := hw.apply; rw [abs_coll cat hne] at this; exact this
  have hua := update_abs kc k.below q u sort skip limit fs (queryOk_noMatchError hne hw.query) happ
  unfold updateOp opUpdate
  rw [abs_coll cat hne]
  dsimp only
  rw [← hua]
  cases hupd : (ensureNs cat h).update ac q u sort skip limit fs nu with
  | error e => simp only [hupd, Except.map]
  | ok r =>
    obtain ⟨res, nu1⟩ := r
    simp only [hupd, Except.map, List.isEmpty_map]
    have hoids := update_oids hupd
    obtain ⟨_, _, hle⟩ := k.coherent.update k.below hupd
    cases hcond : (res.matched.isEmpty && upsert) with
    | true =>
      simp only [↓reduceIte]
      have hup : upsert = true := by
        cases upsert with
        | true => rfl
        | false => simp at hcond
      have hins := upsert_abs (ac := ac) (c := ensureNs cat h) (nu := nu1) k.coherent
        (k.below.mono hle) kc.docsOk q none (some u) fs (hw.ups hup) (by rw [hoids]; exact hw.oids)
      rw [hoids] at hins
      rw [← hins]
      cases hu : (ensureNs cat h).upsert ac q none (some u) fs nu1 with
      | error e => rfl
      | ok r2 =>
        obtain ⟨coll, sd, nu2⟩ := r2
        have ho' : ∃ c, (oplogHandle, c) ∈ (cat.set h coll).namespaces := set_keeps g.1.oplog
        have ha := (abs_appendOplog ho' nu2 h "insert" (some sd.doc) none).1
        rw [abs_set cat coll hne] at ha
        simp only [Except.map, ha, appendOplog_oids]
    | false =>
      simp only [Bool.false_eq_true, ↓reduceIte]
      have hF : ∀ (cn : Catalog × Nu) (a : SDoc × List (String × V)), ∃ h' op doc ch,
          (match a with
            | (m, ch) => appendOplog cn.1 cn.2 h "update" (some m.doc) (some ch)) =
            appendOplog cn.1 cn.2 h' op doc ch := by
        rintro cn ⟨m, ch⟩; exact ⟨h, "update", some m.doc, some ch, rfl⟩
      have ho' : ∃ c, (oplogHandle, c) ∈ (cat.set h res.coll).namespaces := set_keeps g.1.oplog
      have hf := (abs_fold_append _ hF (res.modified.zip res.changes) (cat.set h res.coll, nu1) ho').1
      have hfo := fold_append_oids _ hF (res.modified.zip res.changes) (cat.set h res.coll, nu1)
      simp only at hf hfo
      rw [zip_isEmpty _ _ (update_changes_len hupd), abs_set cat res.coll hne] at hf
      simp only [hf, hfo, hoids]

/-- `Transaction.Update` = the Spec's `updateCall` -/
theorem txnUpdate_abs {ac : ACtx} (s : Sys) (h : Handle) (q u : Doc) (sort : Option Doc) (upsert : Bool)
    (limit : Int) (fs : List Doc) (oids : List V) (g : Good ac.sch true s.catalog s.nextId)
    (ok : OkDB (abs s.catalog)) (hw : UpdateOk ac (abs s.catalog) h q u upsert fs oids) :
    updateCall ac (abs s.catalog) h q u sort upsert limit fs oids =
      (Txn.update ac { catalog := s.catalog } h q sort u 0 limit upsert fs (s.nu oids)).map
        (fun r => (abs (s.commit r.1 r.2.2).catalog, r.2.1)) := by
  unfold updateCall Txn.update
  cases hwr : writable h true with
  | error e => rfl
  | ok _ =>
    have hne := writable_ne_oplog hwr
    simp only [abs_get?_isNone s.catalog hne]
    cases hg : ((s.catalog.get? h).isNone && !upsert) with
    | true => simp [Except.map, Sys.commit]
    | false =>
      simp only [Bool.false_eq_true, ↓reduceIte]
      have hop := updateOp_abs (nu := s.nu oids) g ok hne q u sort upsert 0 limit fs hw
      simp only [Sys.nu] at hop ⊢
      rw [← hop]
      cases updateOp ac s.catalog h q u sort upsert 0 limit fs { nextId := s.nextId, oids := oids } with
      | error e => rfl
      | ok r =>
        obtain ⟨cat', res, nu'⟩ := r
        simp only [Except.map]
        cases hb : (!res.modified.isEmpty || res.upserted.isSome) <;> simp [Sys.commit, keepIf]

theorem refines_updateOne (s : Sys) (h : Handle) (q u : Doc) (upsert : Bool) (fs : List Doc) (oids : List V)
    (g : Good sch true s.catalog s.nextId) (ok : OkDB (abs s.catalog))
    (hw : UpdateOk (acOf sch) (abs s.catalog) h q u upsert fs oids) :
    Refines sch s (.updateOne h q u upsert fs) oids := by
  unfold Refines Sys.step
  simp only [Spec.step, runCall, txnUpdate_abs (ac := acOf sch) s h q u none upsert 1 fs oids g ok hw]
  cases Txn.update (acOf sch) { catalog := s.catalog } h q none u 0 1 upsert fs (s.nu oids) with
  | error e => rfl
  | ok r => rfl

theorem refines_updateMany (s : Sys) (h : Handle) (q u : Doc) (upsert : Bool) (fs : List Doc) (oids : List V)
    (g : Good sch true s.catalog s.nextId) (ok : OkDB (abs s.catalog))
    (hw : UpdateOk (acOf sch) (abs s.catalog) h q u upsert fs oids) :
    Refines sch s (.updateMany h q u upsert fs) oids := by
  unfold Refines Sys.step
  simp only [Spec.step, runCall, txnUpdate_abs (ac := acOf sch) s h q u none upsert 0 fs oids g ok hw]
  cases Txn.update (acOf sch) { catalog := s.catalog } h q none u 0 0 upsert fs (s.nu oids) with
  | error e => rfl
  | ok r => rfl

theorem refines_findOneAndUpdate (s : Sys) (h : Handle) (q u : Doc) (sort proj : Option Doc) (upsert after : Bool)
    (fs : List Doc) (oids : List V) (g : Good sch true s.catalog s.nextId) (ok : OkDB (abs s.catalog))
    (hw : UpdateOk (acOf sch) (abs s.catalog) h q u upsert fs oids) :
    Refines sch s (.findOneAndUpdate h q u sort proj upsert after fs) oids := by
  unfold Refines Sys.step
  simp only [Spec.step, runCall, txnUpdate_abs (ac := acOf sch) s h q u sort upsert 1 fs oids g ok hw]
  cases Txn.update (acOf sch) { catalog := s.catalog } h q sort u 0 1 upsert fs (s.nu oids) with
  | error e => rfl
  | ok r =>
    obtain ⟨t, res, nu⟩ := r
    simp only [Except.map]
    cases projOpt sch proj (famDoc res after) with
    | error e => rfl
    | ok d => rfl

end Lungo.SeqRef
