/-
  Lungo.Proofs.ConcOwn2 — the `starting` protocol invariant (Sinv) and the ownership invariant
  (Oinv), per sub-machine (generated mechanically).
-/
import Lungo.Proofs.ConcOwnDefs
namespace Lungo.Conc

set_option maxHeartbeats 1000000 in
theorem sinv_idle {s s' : State} {a : ActorId} {c : Choice} (inv1 : Inv1 s) (g1 : Sinv s)
    (hpc : (s.loc a).pc = .idle) (hs : stepIdle s a (s.loc a) c = some s') : Sinv s' := by
  obtain ⟨s1, s2, s3⟩ := g1
  have w := inv1.beginWf a
  have m5 := inv1.smutex_iff a
  have s1a := s1 (s.loc a).sid
  have s2a := s2 a
  have s3a := s3 (s.loc a).sid
  clear inv1
  simp only [BeginWf, SHold, StartFlow] at *
  unfold stepIdle at hs
  conc_split hs
  all_goals (
    refine ⟨fun sid => ?_, fun b sid => ?_, fun sid => ?_⟩
    · first
      | exact s1 sid
      | (have := s1 sid; goal_simp; grind)
    · have := s2 b sid; have := s2 a sid; have := s3 sid
      by_cases hba : b = a
      · subst hba; goal_simp; grind
      · have hab : ¬ a = b := fun h => hba h.symm
        simp only [State.put, State.putS, State.finish, State.write, upd_apply, if_neg hba, if_neg hab]
        first
        | exact s2 b sid
        | (goal_simp; grind)
    · first
      | exact s3 sid
      | (have := s3 sid; goal_simp; grind))

set_option maxHeartbeats 1000000 in
theorem sinv_begin {s s' : State} {a : ActorId} {c : Choice} (inv1 : Inv1 s) (g1 : Sinv s)
    (hs : stepBegin s a (s.loc a) c = some s') : Sinv s' := by
  obtain ⟨s1, s2, s3⟩ := g1
  have w := inv1.beginWf a
  have m5 := inv1.smutex_iff a
  have s1a := s1 (s.loc a).sid
  have s2a := s2 a
  have s3a := s3 (s.loc a).sid
  clear inv1
  simp only [BeginWf, SHold, StartFlow] at *
  unfold stepBegin at hs
  conc_split hs
  all_goals (
    refine ⟨fun sid => ?_, fun b sid => ?_, fun sid => ?_⟩
    · first
      | exact s1 sid
      | (have := s1 sid; goal_simp; grind)
    · have := s2 b sid; have := s2 a sid; have := s3 sid
      by_cases hba : b = a
      · subst hba; goal_simp; grind
      · have hab : ¬ a = b := fun h => hba h.symm
        simp only [State.put, State.putS, State.finish, State.write, upd_apply, if_neg hba, if_neg hab]
        first
        | exact s2 b sid
        | (goal_simp; grind)
    · first
      | exact s3 sid
      | (have := s3 sid; goal_simp; grind))

set_option maxHeartbeats 1000000 in
theorem sinv_commit {s s' : State} {a : ActorId} {c : Choice} (inv1 : Inv1 s) (g1 : Sinv s)
    (hs : stepCommit s a (s.loc a) c = some s') : Sinv s' := by
  obtain ⟨s1, s2, s3⟩ := g1
  have w := inv1.beginWf a
  have m5 := inv1.smutex_iff a
  have s1a := s1 (s.loc a).sid
  have s2a := s2 a
  have s3a := s3 (s.loc a).sid
  clear inv1
  simp only [BeginWf, SHold, StartFlow] at *
  unfold stepCommit at hs
  conc_split hs
  all_goals (
    refine ⟨fun sid => ?_, fun b sid => ?_, fun sid => ?_⟩
    · first
      | exact s1 sid
      | (have := s1 sid; goal_simp; grind)
    · have := s2 b sid; have := s2 a sid; have := s3 sid
      by_cases hba : b = a
      · subst hba; goal_simp; grind
      · have hab : ¬ a = b := fun h => hba h.symm
        simp only [State.put, State.putS, State.finish, State.write, upd_apply, if_neg hba, if_neg hab]
        first
        | exact s2 b sid
        | (goal_simp; grind)
    · first
      | exact s3 sid
      | (have := s3 sid; goal_simp; grind))

set_option maxHeartbeats 1000000 in
theorem sinv_abort {s s' : State} {a : ActorId} {c : Choice} (inv1 : Inv1 s) (g1 : Sinv s)
    (hs : stepAbort s a (s.loc a) c = some s') : Sinv s' := by
  obtain ⟨s1, s2, s3⟩ := g1
  have w := inv1.beginWf a
  have m5 := inv1.smutex_iff a
  have s1a := s1 (s.loc a).sid
  have s2a := s2 a
  have s3a := s3 (s.loc a).sid
  clear inv1
  simp only [BeginWf, SHold, StartFlow] at *
  unfold stepAbort at hs
  conc_split hs
  all_goals (
    refine ⟨fun sid => ?_, fun b sid => ?_, fun sid => ?_⟩
    · first
      | exact s1 sid
      | (have := s1 sid; goal_simp; grind)
    · have := s2 b sid; have := s2 a sid; have := s3 sid
      by_cases hba : b = a
      · subst hba; goal_simp; grind
      · have hab : ¬ a = b := fun h => hba h.symm
        simp only [State.put, State.putS, State.finish, State.write, upd_apply, if_neg hba, if_neg hab]
        first
        | exact s2 b sid
        | (goal_simp; grind)
    · first
      | exact s3 sid
      | (have := s3 sid; goal_simp; grind))

set_option maxHeartbeats 1000000 in
theorem sinv_after {s s' : State} {a : ActorId} {c : Choice} (inv1 : Inv1 s) (g1 : Sinv s)
    (hpc : (s.loc a).pc = .after) (hs : stepAfter s a (s.loc a) c = some s') : Sinv s' := by
  obtain ⟨s1, s2, s3⟩ := g1
  have w := inv1.beginWf a
  have m5 := inv1.smutex_iff a
  have s1a := s1 (s.loc a).sid
  have s2a := s2 a
  have s3a := s3 (s.loc a).sid
  clear inv1
  simp only [BeginWf, SHold, StartFlow] at *
  unfold stepAfter at hs
  conc_split hs
  all_goals (
    refine ⟨fun sid => ?_, fun b sid => ?_, fun sid => ?_⟩
    · first
      | exact s1 sid
      | (have := s1 sid; goal_simp; grind)
    · have := s2 b sid; have := s2 a sid; have := s3 sid
      by_cases hba : b = a
      · subst hba; goal_simp; grind
      · have hab : ¬ a = b := fun h => hba h.symm
        simp only [State.put, State.putS, State.finish, State.write, upd_apply, if_neg hba, if_neg hab]
        first
        | exact s2 b sid
        | (goal_simp; grind)
    · first
      | exact s3 sid
      | (have := s3 sid; goal_simp; grind))

set_option maxHeartbeats 1000000 in
theorem sinv_use {s s' : State} {a : ActorId} {c : Choice} (inv1 : Inv1 s) (g1 : Sinv s)
    (hs : stepUse s a (s.loc a) c = some s') : Sinv s' := by
  obtain ⟨s1, s2, s3⟩ := g1
  have w := inv1.beginWf a
  have m5 := inv1.smutex_iff a
  have s1a := s1 (s.loc a).sid
  have s2a := s2 a
  have s3a := s3 (s.loc a).sid
  clear inv1
  simp only [BeginWf, SHold, StartFlow] at *
  unfold stepUse at hs
  conc_split hs
  all_goals (
    refine ⟨fun sid => ?_, fun b sid => ?_, fun sid => ?_⟩
    · first
      | exact s1 sid
      | (have := s1 sid; goal_simp; grind)
    · have := s2 b sid; have := s2 a sid; have := s3 sid
      by_cases hba : b = a
      · subst hba; goal_simp; grind
      · have hab : ¬ a = b := fun h => hba h.symm
        simp only [State.put, State.putS, State.finish, State.write, upd_apply, if_neg hba, if_neg hab]
        first
        | exact s2 b sid
        | (goal_simp; grind)
    · first
      | exact s3 sid
      | (have := s3 sid; goal_simp; grind))

set_option maxHeartbeats 1000000 in
theorem sinv_sess {s s' : State} {a : ActorId} {c : Choice} (inv1 : Inv1 s) (g1 : Sinv s)
    (hs : stepSess s a (s.loc a) c = some s') : Sinv s' := by
  obtain ⟨s1, s2, s3⟩ := g1
  have w := inv1.beginWf a
  have m5 := inv1.smutex_iff a
  have s1a := s1 (s.loc a).sid
  have s2a := s2 a
  have s3a := s3 (s.loc a).sid
  clear inv1
  simp only [BeginWf, SHold, StartFlow] at *
  unfold stepSess at hs
  conc_split hs
  all_goals (
    refine ⟨fun sid => ?_, fun b sid => ?_, fun sid => ?_⟩
    · first
      | exact s1 sid
      | (have := s1 sid; goal_simp; grind)
    · have := s2 b sid; have := s2 a sid; have := s3 sid
      by_cases hba : b = a
      · subst hba; goal_simp; grind
      · have hab : ¬ a = b := fun h => hba h.symm
        simp only [State.put, State.putS, State.finish, State.write, upd_apply, if_neg hba, if_neg hab]
        first
        | exact s2 b sid
        | (goal_simp; grind)
    · first
      | exact s3 sid
      | (have := s3 sid; goal_simp; grind))

set_option maxHeartbeats 1000000 in
theorem sinv_close {s s' : State} {a : ActorId} {c : Choice} (inv1 : Inv1 s) (g1 : Sinv s)
    (hs : stepClose s a (s.loc a) c = some s') : Sinv s' := by
  obtain ⟨s1, s2, s3⟩ := g1
  have w := inv1.beginWf a
  have m5 := inv1.smutex_iff a
  have s1a := s1 (s.loc a).sid
  have s2a := s2 a
  have s3a := s3 (s.loc a).sid
  clear inv1
  simp only [BeginWf, SHold, StartFlow] at *
  unfold stepClose at hs
  conc_split hs
  all_goals (
    refine ⟨fun sid => ?_, fun b sid => ?_, fun sid => ?_⟩
    · first
      | exact s1 sid
      | (have := s1 sid; goal_simp; grind)
    · have := s2 b sid; have := s2 a sid; have := s3 sid
      by_cases hba : b = a
      · subst hba; goal_simp; grind
      · have hab : ¬ a = b := fun h => hba h.symm
        simp only [State.put, State.putS, State.finish, State.write, upd_apply, if_neg hba, if_neg hab]
        first
        | exact s2 b sid
        | (goal_simp; grind)
    · first
      | exact s3 sid
      | (have := s3 sid; goal_simp; grind))

set_option maxHeartbeats 1000000 in
theorem sinv_exp {s s' : State} {a : ActorId} {c : Choice} (inv1 : Inv1 s) (g1 : Sinv s)
    (hs : stepExp s a (s.loc a) c = some s') : Sinv s' := by
  obtain ⟨s1, s2, s3⟩ := g1
  have w := inv1.beginWf a
  have m5 := inv1.smutex_iff a
  have s1a := s1 (s.loc a).sid
  have s2a := s2 a
  have s3a := s3 (s.loc a).sid
  clear inv1
  simp only [BeginWf, SHold, StartFlow] at *
  unfold stepExp at hs
  conc_split hs
  all_goals (
    refine ⟨fun sid => ?_, fun b sid => ?_, fun sid => ?_⟩
    · first
      | exact s1 sid
      | (have := s1 sid; goal_simp; grind)
    · have := s2 b sid; have := s2 a sid; have := s3 sid
      by_cases hba : b = a
      · subst hba; goal_simp; grind
      · have hab : ¬ a = b := fun h => hba h.symm
        simp only [State.put, State.putS, State.finish, State.write, upd_apply, if_neg hba, if_neg hab]
        first
        | exact s2 b sid
        | (goal_simp; grind)
    · first
      | exact s3 sid
      | (have := s3 sid; goal_simp; grind))

end Lungo.Conc
