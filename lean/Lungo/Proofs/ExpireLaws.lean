/-
  Lungo.Proofs.ExpireLaws — helper lemmas for C19 (TTL expiry): the `$or`-of-`$lt` filter built by
  Transaction.Expire decides exactly "some value offered for the TTL field is a date before the
  cutoff"; Collection.Delete with that filter removes exactly the matching documents.
-/
import Lungo.Proofs.OplogLaws
import Lungo.Proofs.MatchLaws
import Lungo.Props.C10
namespace Lungo

/-- the field of a TTL index: the first key of its key document (`(*Config.Key)[0].Key`) -/
def ttlField (i : Index) : String :=
  match i.config.key with
  | (k, _) :: _ => k
  | [] => ""

/-- `time.Now().Add(-expiry)` as a BSON date (milliseconds) -/
def ttlCutoff (i : Index) (nowMs : Int) : Int := nowMs - i.config.expiry / 1000000

/-- the condition document `{field: {$lt: cutoff}}` of one TTL index -/
def ttlCond (i : Index) (nowMs : Int) : Doc := [(ttlField i, .doc [("$lt", .date (ttlCutoff i nowMs))])]

/-- the TTL indexes of a collection -/
def ttlIndexes (c : Coll) : List (String × Index) := c.indexes.filter fun (_, i) => i.config.expiry > 0

/-- a value that is a date strictly before the cutoff -/
def isExpiredDate (cutoff : Int) : V → Bool
  | .date ms => ms < cutoff
  | _ => false

/-- the values the matcher offers to a comparison operator for `path` (matchUnwind with
    merge = true, yieldMerge = false): the elements of the value at `path` if it is an array
    (for a fan-out path: the merged candidate list), plus the value itself unless the path fanned
    out over an array of documents. -/
def offered (d : Doc) (path : String) : List V :=
  let (value, multi) := All d (splitPath path) true true
  (match value with
   | .arr arr => arr
   | _ => []) ++ (if multi then [] else [value])

theorem unwindAny_offered (d : Doc) (path : String) (p : V → Bool) :
    unwindAny d path true false p = (offered d path).any p := by
  unfold unwindAny offered
  generalize All d (splitPath path) true true = r
  obtain ⟨value, multi⟩ := r
  cases multi <;> cases value <;> simp

/-- document `d` is expired w.r.t. TTL index `i` at time `nowMs` -/
def expiredBy (i : Index) (nowMs : Int) (d : Doc) : Bool :=
  (offered d (ttlField i)).any (isExpiredDate (ttlCutoff i nowMs))

/-- document `d` of collection `c` is expired at time `nowMs` -/
def expired (c : Coll) (nowMs : Int) (d : Doc) : Bool :=
  (ttlIndexes c).any fun ni => expiredBy ni.2 nowMs d

theorem intCmp_lt (a b : Int) : (intCmp a b == .lt) = decide (a < b) := by
  unfold intCmp
  by_cases h : a < b
  · simp [h]
  · by_cases h2 : a = b <;> simp [h, h2] <;> split <;> simp_all

/-- type bracketing: `$lt date` holds exactly for dates before it -/
theorem lt_date_test (c : Int) :
    (fun field : V => field.cls == (V.date c).cls && V.cmp field (.date c) == .lt) = isExpiredDate c := by
  funext field
  cases field <;> simp [V.cls, isExpiredDate, V.cmp_date, intCmp_lt]

/-- one TTL condition `{f: {$lt: date}}` evaluates to a truth value, never to an error -/
theorem mProcess_ttlCond (sch : SchemaEval) (d : Doc) (i : Index) (nowMs : Int)
    (hf : isOpKey (ttlField i) = false) :
    mProcess sch d (ttlCond i nowMs) "" true
      = if expiredBy i nowMs d then .ok () else .error .notMatched := by
  unfold ttlCond
  rw [mProcess, mProcess]
  have hop : mOp sch d "$lt" (ttlField i) (.date (ttlCutoff i nowMs))
      = if expiredBy i nowMs d then .ok () else .error .notMatched := by
    rw [mOp_leaf sch d "$lt" (ttlField i) _ _ rfl, matchComp_lt_bool, matchUnwind_bool, lt_date_test,
      unwindAny_offered]
    rfl
  have hexpr : mExpr sch d "" (ttlField i) (.doc [("$lt", .date (ttlCutoff i nowMs))]) true
      = if expiredBy i nowMs d then .ok () else .error .notMatched := by
    unfold mExpr
    simp only [hf, Bool.false_eq_true, ↓reduceIte, joinKey]
    have : isOpKey "$lt" = true := by simp [isOpKey]
    simp only [this, ↓reduceIte, BEq.rfl]
    rw [mOps]
    simp only [this, Bool.not_true, Bool.false_eq_true, ↓reduceIte, hop]
    rw [mOps]
    split <;> simp_all
  rw [hexpr]
  split <;> simp_all

theorem disj_bools (bs : List Bool) :
    disj (bs.map fun b => if b then (.ok () : Res Unit) else .error .notMatched)
      = if bs.any id then .ok () else .error .notMatched := by
  induction bs with
  | nil => simp [disj]
  | cons b r ih =>
    cases b
    · simp only [List.map_cons, disj, Bool.false_eq_true, ↓reduceIte, List.any_cons, id, Bool.false_or]
      exact ih
    · simp [disj]

/-- the filter of Transaction.Expire decides `expired` and never fails -/
theorem Match_ttl (sch : SchemaEval) (d : Doc) (ttl : List (String × Index)) (nowMs : Int) (hne : ttl ≠ [])
    (hf : ∀ ni ∈ ttl, isOpKey (ttlField ni.2) = false) :
    Match sch d [("$or", .arr ((ttl.map fun ni => ttlCond ni.2 nowMs).map V.doc))]
      = .ok (ttl.any fun ni => expiredBy ni.2 nowMs d) := by
  unfold Match
  rw [mProcess, C10.or_is_disj sch d "" _ (by cases ttl <;> simp_all)]
  have : (ttl.map fun ni => ttlCond ni.2 nowMs).map (fun q => mProcess sch d q "" true)
      = (ttl.map fun ni => expiredBy ni.2 nowMs d).map fun b => if b then (.ok () : Res Unit) else .error .notMatched := by
    simp only [List.map_map]
    apply List.map_congr_left
    intro ni hni
    simp only [Function.comp]
    exact mProcess_ttlCond sch d ni.2 nowMs (hf ni hni)
  rw [this, disj_bools]
  have e : (ttl.map fun ni => expiredBy ni.2 nowMs d).any id = ttl.any fun ni => expiredBy ni.2 nowMs d := by
    simp [List.any_map]
  rw [e]
  cases ttl.any fun ni => expiredBy ni.2 nowMs d <;> simp [mProcess]

/-- filtering with a filter that always evaluates to a truth value (limit 0 = all) -/
theorem filterDocs_pure (sch : SchemaEval) (q : Doc) (p : Doc → Bool)
    (hp : ∀ d, Match sch d q = .ok (p d)) (l : List SDoc) :
    filterDocs sch q 0 l = .ok (l.filter fun sd => p sd.doc) := by
  induction l with
  | nil => rfl
  | cons sd r ih =>
    rw [filterDocs, hp sd.doc]
    cases h : p sd.doc
    · simp only [List.filter_cons, h]; exact ih
    · simp only [List.filter_cons, h]
      simp [ih]

/-- document identities (Go pointers) are pairwise distinct within a collection -/
def DocIdsDistinct (c : Coll) : Prop := c.docs.Pairwise fun a b => a.id ≠ b.id

theorem sdoc_eq_of_id {l : List SDoc} (hd : l.Pairwise fun a b => a.id ≠ b.id) {x y : SDoc}
    (hx : x ∈ l) (hy : y ∈ l) (e : x.id = y.id) : x = y := by
  induction l with
  | nil => cases hx
  | cons a r ih =>
    rw [List.pairwise_cons] at hd
    rcases List.mem_cons.mp hx with rfl | hx' <;> rcases List.mem_cons.mp hy with rfl | hy'
    · rfl
    · exact absurd e (hd.1 y hy')
    · exact absurd e.symm (hd.1 x hx')
    · exact ih hd.2 hx' hy'

theorem filter_by_ids {l : List SDoc} (hd : l.Pairwise fun a b => a.id ≠ b.id) (q : SDoc → Bool) :
    l.filter (fun sd => !((l.filter q).any (·.id == sd.id))) = l.filter (fun sd => !q sd) := by
  apply List.filter_congr
  intro sd hsd
  congr 1
  cases hq : q sd
  · rw [List.any_eq_false]
    intro x hx
    simp only [List.mem_filter] at hx
    intro hid
    have : x = sd := sdoc_eq_of_id hd hx.1 hsd (by simpa using hid)
    rw [this, hq] at hx
    exact absurd hx.2 (by simp)
  · rw [List.any_eq_true]
    exact ⟨sd, by simp [List.mem_filter, hsd, hq], by simp⟩

/-- Collection.Delete(query, nil, 0, 0) with a filter that always yields a truth value -/
theorem Coll.delete_pure (sch : SchemaEval) (c : Coll) (q : Doc) (p : Doc → Bool)
    (hp : ∀ d, Match sch d q = .ok (p d)) (c' : Coll) (list : List SDoc)
    (h : c.delete sch q none 0 0 = .ok (c', list)) :
    list = c.docs.filter (fun sd => p sd.doc) ∧
    c'.docs = c.docs.filter (fun sd => !(list.any (·.id == sd.id))) := by
  unfold Coll.delete selectDocs at h
  simp only [Int.lt_irrefl, ↓reduceIte, gt_iff_lt, filterDocs_pure sch q p hp, Int.toNat_zero, List.drop_zero] at h
  split at h
  · cases h
  · rename_i idx hidx
    simp only [Except.ok.injEq, Prod.mk.injEq] at h
    obtain ⟨h1, h2⟩ := h
    subst h2
    exact ⟨rfl, by rw [← h1]⟩

theorem Catalog.set_clock (c : Catalog) (h : Handle) (x : Coll) : (c.set h x).clock = c.clock := by
  unfold Catalog.set
  split <;> rfl

theorem Catalog.oplog_set_other (c : Catalog) (h : Handle) (x : Coll) (hne : h ≠ oplogHandle) :
    (c.set h x).oplog = c.oplog := by
  unfold Catalog.oplog
  rw [Catalog.get?_set_other _ _ _ _ (Ne.symm hne)]

/-- the delete events of a list of removed documents -/
def deleteSpecs (h : Handle) (rm : List SDoc) : List EvSpec := rm.map fun sd => ⟨h, "delete", some sd.doc, none⟩

/-- Transaction.delete(handle, …, query, nil, 0, 0) with a truth-valued filter `p`: the namespace
    loses exactly the documents satisfying `p` (order kept), every other namespace is untouched,
    and the oplog gains one delete event per removed document in natural order. -/
theorem deleteOp_pure (sch : SchemaEval) (cat : Catalog) (h : Handle) (q : Doc) (p : Doc → Bool)
    (hp : ∀ d, Match sch d q = .ok (p d)) (c : Coll) (hc : cat.get? h = some c) (hd : DocIdsDistinct c)
    (hno : h ≠ oplogHandle) (nu : Nu) (cat' : Catalog) (res : TResult) (nu' : Nu)
    (hr : deleteOp sch cat h q none 0 0 nu = .ok (cat', res, nu')) :
    let rm := c.docs.filter (fun sd => p sd.doc)
    res.matched = rm.map (·.doc) ∧
    (∃ c', cat'.get? h = some c' ∧ c'.docs = c.docs.filter (fun sd => !p sd.doc)) ∧
    (∀ h', h' ≠ h → h' ≠ oplogHandle → cat'.get? h' = cat.get? h') ∧
    cat'.oplog.map (·.doc) = cat.oplog.map (·.doc) ++ evDocs cat.clock (deleteSpecs h rm) ∧
    cat'.clock = cat.clock + rm.length ∧
    nu' = { nu with nextId := nu.nextId + rm.length } := by
  intro rm
  unfold deleteOp at hr
  simp only [ensureNs, hc, Option.getD_some] at hr
  split at hr
  · cases hr
  · rename_i coll list hdel
    obtain ⟨hl, hdocs⟩ := Coll.delete_pure sch c q p hp coll list hdel
    have hfold := foldl_appendOplog list (fun sd => (⟨h, "delete", some sd.doc, none⟩ : EvSpec)) (cat.set h coll, nu)
    simp only at hfold
    rw [hfold] at hr
    simp only [Except.ok.injEq, Prod.mk.injEq] at hr
    obtain ⟨h1, h2, h3⟩ := hr
    have hl' : list = rm := hl
    refine ⟨by rw [← h2, hl'], ?_, ?_, ?_, ?_, ?_⟩
    · refine ⟨coll, ?_, ?_⟩
      · rw [← h1, appendEvs_get_other _ _ _ hno, Catalog.get?_set_self]
      · rw [hdocs, hl]; exact filter_by_ids hd _
    · intro h' hne hne2
      rw [← h1, appendEvs_get_other _ _ _ hne2, Catalog.get?_set_other _ _ _ _ hne]
    · rw [← h1, appendEvs_oplog]
      simp only [Catalog.oplog_set_other _ _ _ hno, Catalog.set_clock, hl']
      rfl
    · rw [← h1, appendEvs_clock]
      simp [Catalog.set_clock, hl']
    · rw [← h3, appendEvs_nu]
      simp [hl']

/-- the field of every TTL index is a plain field name (not a `$`-operator key) -/
def TTLFieldsPlain (c : Coll) : Prop := ∀ ni ∈ ttlIndexes c, isOpKey (ttlField ni.2) = false

/-- the documents an expiry pass removes from collection `c` -/
def expiredDocs (c : Coll) (nowMs : Int) : List SDoc := c.docs.filter fun sd => expired c nowMs sd.doc

/-- the delete events of an expiry pass over the namespaces `l` (in iteration order) -/
def expireSpecs (nowMs : Int) (l : List (Handle × Coll)) : List EvSpec :=
  l.flatMap fun hc => deleteSpecs hc.1 (expiredDocs hc.2 nowMs)

theorem expired_of_no_ttl (c : Coll) (nowMs : Int) (h : ttlIndexes c = []) (d : Doc) : expired c nowMs d = false := by
  simp [expired, h]

theorem expiredDocs_of_no_ttl (c : Coll) (nowMs : Int) (h : ttlIndexes c = []) : expiredDocs c nowMs = [] := by
  simp [expiredDocs, expired_of_no_ttl c nowMs h]

/-- the query document built by Transaction.Expire for collection `c` -/
def expireQuery (c : Coll) (nowMs : Int) : Doc :=
  [("$or", .arr ((ttlIndexes c).map fun ni => V.doc (ttlCond ni.2 nowMs)))]

theorem expireQuery_match (sch : SchemaEval) (c : Coll) (nowMs : Int) (hne : ttlIndexes c ≠ [])
    (hf : TTLFieldsPlain c) (d : Doc) : Match sch d (expireQuery c nowMs) = .ok (expired c nowMs d) := by
  have := Match_ttl sch d (ttlIndexes c) nowMs hne hf
  rw [List.map_map] at this
  exact this

/-- what the loop of Transaction.Expire does to the catalog -/
theorem expire_go_spec (sch : SchemaEval) (nowMs : Int) (l : List (Handle × Coll)) :
    ∀ (cat : Catalog) (nu : Nu) (deleted : Nat) (cat' : Catalog) (nu' : Nu) (deleted' : Nat),
    l.Pairwise (fun a b => a.1 ≠ b.1) →
    (∀ hc ∈ l, hc.1 ≠ oplogHandle → cat.get? hc.1 = some hc.2) →
    (∀ hc ∈ l, ttlIndexes hc.2 ≠ [] → hc.1 ≠ oplogHandle ∧ DocIdsDistinct hc.2 ∧ TTLFieldsPlain hc.2) →
    Txn.expire.go sch nowMs cat nu deleted l = .ok (cat', nu', deleted') →
    (∀ hc ∈ l, hc.1 ≠ oplogHandle → ∃ c', cat'.get? hc.1 = some c' ∧
        c'.docs = hc.2.docs.filter (fun sd => !expired hc.2 nowMs sd.doc) ∧ (ttlIndexes hc.2 = [] → c' = hc.2)) ∧
    (∀ h', h' ≠ oplogHandle → (∀ hc ∈ l, hc.1 ≠ h') → cat'.get? h' = cat.get? h') ∧
    cat'.oplog.map (·.doc) = cat.oplog.map (·.doc) ++ evDocs cat.clock (expireSpecs nowMs l) ∧
    cat'.clock = cat.clock + (expireSpecs nowMs l).length ∧
    deleted' = deleted + (expireSpecs nowMs l).length := by
  induction l with
  | nil =>
    intro cat nu deleted cat' nu' deleted' _ _ _ hr
    simp only [Txn.expire.go, Except.ok.injEq, Prod.mk.injEq] at hr
    obtain ⟨rfl, rfl, rfl⟩ := hr
    simp [expireSpecs, evDocs]
  | cons hc r ih =>
    intro cat nu deleted cat' nu' deleted' hnd hsync hgood hr
    obtain ⟨h, c⟩ := hc
    rw [List.pairwise_cons] at hnd
    rw [Txn.expire.go] at hr
    change (if (ttlIndexes c).isEmpty = true then _ else
      match deleteOp sch cat h (expireQuery c nowMs) none 0 0 nu with
      | Except.error e => (Except.error e : Res (Catalog × Nu × Nat))
      | Except.ok (cat', res, nu') => Txn.expire.go sch nowMs cat' nu' (deleted + res.matched.length) r) = _ at hr
    by_cases hempty : ttlIndexes c = []
    · -- no TTL index: skipped
      simp only [hempty, List.isEmpty_nil, ↓reduceIte] at hr
      obtain ⟨ha, hb, hc', hd, he⟩ := ih cat nu deleted cat' nu' deleted' hnd.2
        (fun x hx => hsync x (List.mem_cons_of_mem _ hx)) (fun x hx => hgood x (List.mem_cons_of_mem _ hx)) hr
      have hspec : expireSpecs nowMs ((h, c) :: r) = expireSpecs nowMs r := by
        simp [expireSpecs, expiredDocs_of_no_ttl c nowMs hempty, deleteSpecs]
      rw [hspec]
      refine ⟨?_, ?_, hc', hd, he⟩
      · intro x hx hxo
        rcases List.mem_cons.mp hx with rfl | hx'
        · refine ⟨c, ?_, ?_, fun _ => rfl⟩
          · rw [hb h hxo (fun y hy => Ne.symm (hnd.1 y hy))]
            exact hsync (h, c) (List.mem_cons_self ..) hxo
          · symm; rw [List.filter_eq_self]
            intro sd _; simp [expired_of_no_ttl c nowMs hempty]
        · exact ha x hx' hxo
      · intro h' hno hall
        exact hb h' hno (fun y hy => hall y (List.mem_cons_of_mem _ hy))
    · -- TTL indexes present: delete the expired documents
      have hne : (ttlIndexes c).isEmpty = false := by
        cases hq : ttlIndexes c with
        | nil => exact absurd hq hempty
        | cons _ _ => rfl
      simp only [hne, Bool.false_eq_true, ↓reduceIte] at hr
      obtain ⟨hno, hdist, hplain⟩ := hgood (h, c) (List.mem_cons_self ..) hempty
      have hcat : cat.get? h = some c := hsync (h, c) (List.mem_cons_self ..) hno
      have hq : ∀ d, Match sch d (expireQuery c nowMs) = .ok (expired c nowMs d) :=
        expireQuery_match sch c nowMs hempty hplain
      split at hr
      · cases hr
      · rename_i cat1 res nu1 hdel
        obtain ⟨hm, ⟨c1, hc1, hc1docs⟩, hother, hoplog, hclock, _⟩ :=
          deleteOp_pure sch cat h (expireQuery c nowMs) (expired c nowMs) hq c hcat hdist hno nu cat1 res nu1 hdel
        have hsync1 : ∀ x ∈ r, x.1 ≠ oplogHandle → cat1.get? x.1 = some x.2 := by
          intro x hx hxo
          rw [hother x.1 (Ne.symm (hnd.1 x hx)) hxo]
          exact hsync x (List.mem_cons_of_mem _ hx) hxo
        obtain ⟨ha, hb, hc', hd, he⟩ := ih cat1 nu1 _ cat' nu' deleted' hnd.2 hsync1
          (fun x hx => hgood x (List.mem_cons_of_mem _ hx)) hr
        have hspec : expireSpecs nowMs ((h, c) :: r) = deleteSpecs h (expiredDocs c nowMs) ++ expireSpecs nowMs r := by
          simp [expireSpecs]
        have hlen : (deleteSpecs h (expiredDocs c nowMs)).length = (expiredDocs c nowMs).length := by
          simp [deleteSpecs]
        refine ⟨?_, ?_, ?_, ?_, ?_⟩
        · intro x hx hxo
          rcases List.mem_cons.mp hx with rfl | hx'
          · refine ⟨c1, ?_, hc1docs, fun e => absurd e hempty⟩
            rw [hb h hxo (fun y hy => Ne.symm (hnd.1 y hy))]
            exact hc1
          · exact ha x hx' hxo
        · intro h' hno' hall
          rw [hb h' hno' (fun y hy => hall y (List.mem_cons_of_mem _ hy))]
          exact hother h' (Ne.symm (hall (h, c) (List.mem_cons_self ..))) hno'
        · rw [hc', hoplog, hspec, evDocs_append, hclock, List.append_assoc, hlen]
          rfl
        · rw [hd, hclock, hspec, List.length_append, hlen]
          simp only [expiredDocs]
          omega
        · rw [he, hm, hspec, List.length_append, hlen]
          simp only [List.length_map, expiredDocs]
          omega

end Lungo
