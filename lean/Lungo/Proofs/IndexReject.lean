/-
  Lungo.Proofs.IndexReject — when exactly a write is rejected for uniqueness (C07):
  `.dup` from `addToIndexes` ⇔ the new document collides with a stored one under a unique index.
-/
import Lungo.Proofs.IndexColl
namespace Lungo

variable {sch : SchemaEval}

theorem CollidesAt.mono {S S' : SDoc → Prop} {i i' : Index} {d : Doc} (hs : ∀ x, S x → S' x)
    (hcfg : i'.config = i.config) (hcol : i'.columns = i.columns) (h : CollidesAt sch S i' d) :
    CollidesAt sch S' i d := by
  obtain ⟨hu, hb, x, hx, hbx, t, ht, k, hk, he⟩ := h
  rw [hcol] at ht hk
  rw [belongs_config hcfg] at hb hbx
  rw [hcfg] at hu
  exact ⟨hu, hb, x, hs x hx, hbx, t, ht, k, hk, he⟩

/-- `baseAdd` refused a fresh document: it collides under this (unique) index -/
theorem baseAdd_false_collides {S : SDoc → Prop} {i i' : Index} {sd : SDoc}
    (hc : IndexCoherent sch S i) (hfresh : ∀ x, S x → x.id ≠ sd.id) (hb : belongs sch i sd.doc)
    (h : i.baseAdd sd = (i', false)) : CollidesAt sch S i sd.doc := by
  obtain ⟨_, h1 | ⟨hu, t, ht, hk⟩⟩ := baseAdd_false h
  · obtain ⟨t0, _, he⟩ := h1
    obtain ⟨k, hm, _⟩ := (hasEntry_iff i t0 sd.id).mp he
    obtain ⟨x, hx, hid, _⟩ := hc.sound k sd.id hm
    exact absurd hid (hfresh x hx)
  · obtain ⟨k, id, hm, he⟩ := (hasKey_iff i t).mp hk
    obtain ⟨x, hx, _, hbx, hkx⟩ := hc.sound k id hm
    exact ⟨hu, hb, x, hx, hbx, t, ht, k, hkx, he⟩

/-- `Index.add` answered `false` (duplicate) for a fresh document: it collides -/
theorem add_false_collides {S : SDoc → Prop} {i i' : Index} {sd : SDoc}
    (hc : IndexCoherent sch S i) (hfresh : ∀ x, S x → x.id ≠ sd.id)
    (h : i.add sch sd = .ok (i', false)) : CollidesAt sch S i sd.doc := by
  unfold Index.add at h
  split at h
  · cases h
  · simp at h
  · rename_i hb
    simp only [Except.ok.injEq] at h
    exact baseAdd_false_collides hc hfresh hb h

/-- a successful `Index.add` means there was no collision (uses transitivity of `tupleEq`) -/
theorem add_true_not_collides {S : SDoc → Prop} {i i' : Index} {sd : SDoc}
    (hc : IndexCoherent sch S i) (hinj : IdInj S) (hok : ∀ x, S x → DocOk x.doc) (hsd : DocOk sd.doc)
    (h : i.add sch sd = .ok (i', true)) : ¬ CollidesAt sch S i sd.doc := by
  rintro ⟨hu, hb, x, hx, hbx, t, ht, k, hk, he⟩
  unfold Index.add at h
  unfold belongs at hb
  rw [hb] at h
  simp only [Except.ok.injEq] at h
  have := no_collision_of_baseAdd hc hinj hsd hu h x hx (hok x hx) hbx k hk t ht
  rw [he] at this; cases this

/-- with evaluable partial filters `Index.add` never errors -/
theorem add_total {i : Index} {sd : SDoc} (h : ∃ b, partialMatches sch i sd.doc = .ok b) :
    ∃ i' b, i.add sch sd = .ok (i', b) := by
  obtain ⟨b, hb⟩ := h
  unfold Index.add
  rw [hb]
  cases b with
  | false => exact ⟨i, true, rfl⟩
  | true => exact ⟨(i.baseAdd sd).1, (i.baseAdd sd).2, rfl⟩

/-- `.dup` from `addToIndexes` on a fresh document (no partial filter producing `.dup` itself):
    the document collides under one of the indexes -/
theorem addToIndexes_dup_collides {S : SDoc → Prop} {sd : SDoc}
    (hfresh : ∀ x, S x → x.id ≠ sd.id) : ∀ {idx : List (String × Index)},
    AllCoherent sch S idx →
    (∀ n i, (n, i) ∈ idx → partialMatches sch i sd.doc ≠ .error .dup) →
    addToIndexes sch sd idx = .error .dup → ∃ n i, (n, i) ∈ idx ∧ CollidesAt sch S i sd.doc
  | [], _, _, h => by simp [addToIndexes] at h
  | (m, j) :: r, hc, hne, h => by
    rw [addToIndexes] at h
    split at h
    · rename_i e he
      simp only [Except.error.injEq] at h; subst h
      exfalso
      apply hne m j (by simp)
      unfold Index.add at he
      split at he
      · rename_i e' he'; simp only [Except.error.injEq] at he; rw [he', he]
      · cases he
      · cases he
    · rename_i j' hj
      exact ⟨m, j, by simp, add_false_collides (hc m j (by simp)) hfresh hj⟩
    · split at h
      · rename_i e hr
        simp only [Except.error.injEq] at h; subst h
        obtain ⟨n, i, hm, hcol⟩ := addToIndexes_dup_collides hfresh (idx := r)
          (fun n i hm => hc n i (List.mem_cons_of_mem _ hm))
          (fun n i hm => hne n i (List.mem_cons_of_mem _ hm)) hr
        exact ⟨n, i, List.mem_cons_of_mem _ hm, hcol⟩
      · cases h

/-- with evaluable partial filters `addToIndexes` either succeeds or answers `.dup` -/
theorem addToIndexes_total {sd : SDoc} : ∀ {idx : List (String × Index)},
    (∀ n i, (n, i) ∈ idx → ∃ b, partialMatches sch i sd.doc = .ok b) →
    (∃ idx', addToIndexes sch sd idx = .ok idx') ∨ addToIndexes sch sd idx = .error .dup
  | [], _ => .inl ⟨[], rfl⟩
  | (m, j) :: r, htot => by
    obtain ⟨j', b, hj⟩ := add_total (htot m j (by simp))
    rw [addToIndexes]
    cases b with
    | false => simp only [hj]; exact .inr trivial
    | true =>
      simp only [hj]
      rcases addToIndexes_total (idx := r) (fun n i hm => htot n i (List.mem_cons_of_mem _ hm)) with ⟨r', hr⟩ | hr
      · simp only [hr]; exact .inl ⟨_, rfl⟩
      · simp only [hr]; exact .inr trivial

theorem total_ne_dup {i : Index} {d : Doc} (h : ∃ b, partialMatches sch i d = .ok b) :
    partialMatches sch i d ≠ .error .dup := by
  obtain ⟨b, hb⟩ := h; rw [hb]; intro e; cases e

/-- no collision ⇒ the document is accepted by every index -/
theorem addToIndexes_ok_of_not_collides {S : SDoc → Prop} {sd : SDoc} {idx : List (String × Index)}
    (hc : AllCoherent sch S idx) (hfresh : ∀ x, S x → x.id ≠ sd.id)
    (htot : ∀ n i, (n, i) ∈ idx → ∃ b, partialMatches sch i sd.doc = .ok b)
    (hno : ∀ n i, (n, i) ∈ idx → ¬ CollidesAt sch S i sd.doc) :
    ∃ idx', addToIndexes sch sd idx = .ok idx' := by
  rcases addToIndexes_total htot with h | h
  · exact h
  · obtain ⟨n, i, hm, hcol⟩ := addToIndexes_dup_collides hfresh hc
      (fun n i hm => total_ne_dup (htot n i hm)) h
    exact absurd hcol (hno n i hm)

/-- a collision ⇒ the document is rejected with `.dup` (given evaluable partial filters) -/
theorem addToIndexes_dup_of_collides {S : SDoc → Prop} {sd : SDoc} {idx : List (String × Index)}
    (hc : AllCoherent sch S idx) (hinj : IdInj S) (hok : ∀ x, S x → DocOk x.doc) (hsd : DocOk sd.doc)
    (htot : ∀ n i, (n, i) ∈ idx → ∃ b, partialMatches sch i sd.doc = .ok b)
    (hcol : ∃ n i, (n, i) ∈ idx ∧ CollidesAt sch S i sd.doc) :
    addToIndexes sch sd idx = .error .dup := by
  rcases addToIndexes_total htot with ⟨idx', h⟩ | h
  · exfalso
    obtain ⟨n, i, hm, hcol⟩ := hcol
    -- find the image of `i` in idx'
    have : ∀ {idx idx' : List (String × Index)}, addToIndexes sch sd idx = .ok idx' →
        ∀ n i, (n, i) ∈ idx → ∃ i', i.add sch sd = .ok (i', true) := by
      intro idx
      induction idx with
      | nil => intro _ _ n i hm; cases hm
      | cons a r ih =>
        intro idx' h n i hm
        obtain ⟨m, j⟩ := a
        rw [addToIndexes] at h
        split at h
        · cases h
        · cases h
        · rename_i j' hj
          split at h
          · cases h
          · rename_i r' hr
            rcases List.mem_cons.mp hm with e | hm
            · simp only [Prod.mk.injEq] at e
              obtain ⟨rfl, rfl⟩ := e
              exact ⟨j', hj⟩
            · exact ih hr n i hm
    obtain ⟨i', hadd⟩ := this h n i hm
    exact add_true_not_collides (hc n i hm) hinj hok hsd hadd hcol
  · exact h

/-! ### Multi-update: the new documents only have to be collision-free among themselves and
    with the untouched documents -/

theorem shape_mem {idx idx' : List (String × Index)} (h : shape idx' = shape idx) :
    ∀ n i', (n, i') ∈ idx' → ∃ i, (n, i) ∈ idx ∧ i'.config = i.config := by
  intro n i' hm
  have : (n, i'.config) ∈ shape idx' := List.mem_map.mpr ⟨(n, i'), hm, rfl⟩
  rw [h] at this
  obtain ⟨⟨n', i⟩, hi, he⟩ := List.mem_map.mp this
  simp only [Prod.mk.injEq] at he
  obtain ⟨rfl, hc⟩ := he
  exact ⟨i, hi, hc.symm⟩

theorem columns_of_config {S S' : SDoc → Prop} {i i' : Index} (hc : IndexCoherent sch S i)
    (hc' : IndexCoherent sch S' i') (h : i'.config = i.config) : i'.columns = i.columns := by
  have h1 := hc.cols
  have h2 := hc'.cols
  rw [h, h1] at h2
  simp only [Except.ok.injEq] at h2
  exact h2.symm

theorem foldIdx_add_ok : ∀ {list : List SDoc} {S : SDoc → Prop} {idx : List (String × Index)},
    AllCoherent sch S idx → (∀ nd ∈ list, ∀ x, S x → x.id ≠ nd.id) → (list.map (·.id)).Nodup →
    (∀ nd ∈ list, ∀ n i, (n, i) ∈ idx → ∃ b, partialMatches sch i nd.doc = .ok b) →
    (∀ nd ∈ list, ∀ n i, (n, i) ∈ idx →
      ¬ CollidesAt sch (fun x => S x ∨ (x ∈ list ∧ x ≠ nd)) i nd.doc) →
    ∃ idx', foldIdx (fun idx sd => addToIndexes sch sd idx) idx list = .ok idx'
  | [], _, idx, _, _, _, _, _ => ⟨idx, rfl⟩
  | sd :: r, S, idx, hc, hfresh, hnd, htot, hno => by
    rw [List.map_cons, List.nodup_cons] at hnd
    have hsd_ne : ∀ nd ∈ r, sd ≠ nd := fun nd hnd' e =>
      hnd.1 (List.mem_map.mpr ⟨nd, hnd', by rw [e]⟩)
    obtain ⟨idx1, h1⟩ := addToIndexes_ok_of_not_collides hc (hfresh sd (by simp))
      (htot sd (by simp))
      (fun n i hm hcol => hno sd (by simp) n i hm (hcol.mono (fun x hx => .inl hx) rfl rfl))
    have hc1 := hc.add h1
    obtain ⟨idx', h'⟩ := foldIdx_add_ok (list := r) hc1
      (fun nd hnd' x hx => by
        rcases hx with hx | rfl
        · exact hfresh nd (List.mem_cons_of_mem _ hnd') x hx
        · exact fun e => hnd.1 (List.mem_map.mpr ⟨nd, hnd', e.symm⟩))
      hnd.2
      (fun nd hnd' n i1 hm => by
        obtain ⟨i, hi, hadd⟩ := addToIndexes_mem h1 n i1 hm
        rw [partialMatches_config (add_shape hadd).1]
        exact htot nd (List.mem_cons_of_mem _ hnd') n i hi)
      (fun nd hnd' n i1 hm hcol => by
        obtain ⟨i, hi, hadd⟩ := addToIndexes_mem h1 n i1 hm
        obtain ⟨s1, s2⟩ := add_shape hadd
        refine hno nd (List.mem_cons_of_mem _ hnd') n i hi (hcol.mono ?_ s1 s2)
        intro x hx
        rcases hx with (hx | rfl) | ⟨hx1, hx2⟩
        · exact .inl hx
        · exact .inr ⟨by simp, hsd_ne nd hnd'⟩
        · exact .inr ⟨List.mem_cons_of_mem _ hx1, hx2⟩)
    exact ⟨idx', by rw [foldIdx]; simp only [h1, h']⟩

/-! ### `Coll.insert`: rejected for uniqueness ⇔ collision -/

theorem insert_unfold {c : Coll} {d d' : Doc} {nu nu1 : Nu} (he : ensureId d nu = .ok (d', nu1)) :
    c.insert sch d nu =
      match addToIndexes sch ⟨nu.nextId, d'⟩ c.indexes with
      | .error e => .error e
      | .ok idx => .ok ({ docs := c.docs ++ [⟨nu.nextId, d'⟩], indexes := idx }, ⟨nu.nextId, d'⟩,
          { nu1 with nextId := nu1.nextId + 1 }) := by
  unfold Coll.insert
  rw [he]
  simp only [Nu.fresh, ensureId_nextId he]
  generalize addToIndexes sch _ c.indexes = r
  cases r <;> rfl

theorem insert_reject_sound {c : Coll} {d d' : Doc} {nu nu1 : Nu}
    (hc : Coherent sch c) (hb : IdsBelow c.docs nu.nextId) (he : ensureId d nu = .ok (d', nu1))
    (hne : ∀ n i, (n, i) ∈ c.indexes → partialMatches sch i d' ≠ .error .dup)
    (h : c.insert sch d nu = .error .dup) : Collides sch c d' := by
  rw [insert_unfold he] at h
  split at h
  · rename_i e ha
    simp only [Except.error.injEq] at h; subst h
    exact addToIndexes_dup_collides (sd := ⟨nu.nextId, d'⟩) (fun x hx => hb.fresh x hx) hc.2 hne ha
  · cases h

theorem insert_accepts {c : Coll} {d d' : Doc} {nu nu1 : Nu}
    (hc : Coherent sch c) (hb : IdsBelow c.docs nu.nextId) (he : ensureId d nu = .ok (d', nu1))
    (htot : FiltersTotal sch c d') (hno : ¬ Collides sch c d') :
    ∃ r, c.insert sch d nu = .ok r := by
  obtain ⟨idx', ha⟩ := addToIndexes_ok_of_not_collides (sd := ⟨nu.nextId, d'⟩) hc.2
    (fun x hx => hb.fresh x hx) htot (fun n i hm hcol => hno ⟨n, i, hm, hcol⟩)
  rw [insert_unfold he]
  simp only [ha]
  exact ⟨_, rfl⟩

theorem insert_reject_complete {c : Coll} {d d' : Doc} {nu nu1 : Nu}
    (hc : Coherent sch c) (he : ensureId d nu = .ok (d', nu1))
    (hok : DocsOk c.docs) (hd : DocOk d') (htot : FiltersTotal sch c d') (hcol : Collides sch c d') :
    c.insert sch d nu = .error .dup := by
  have := addToIndexes_dup_of_collides (sd := ⟨nu.nextId, d'⟩) hc.2 (idInj_of_distinct hc.1) hok hd htot hcol
  rw [insert_unfold he]
  simp only [this]

/-! ### `Coll.update`: not rejected when the would-be result is collision-free -/

theorem update_ok_of_no_collision {ac : ACtx} {c : Coll} {q u : Doc} {sort : Option Doc}
    {skip limit : Int} {filters : List Doc} {nu nu' : Nu} {list : List SDoc}
    {news : List (SDoc × List (String × V))}
    (hc : Coherent ac.sch c) (hb : IdsBelow c.docs nu.nextId)
    (hsel : selectDocs ac.sch c q sort skip limit = .ok list)
    (hap : Coll.update.applyAll ac u filters nu list = .ok (news, nu'))
    (hid : (list.zip news).any (fun p => !sameId (Get p.2.1.doc "_id") (Get p.1.doc "_id")) = false)
    (htot : ∀ nd ∈ news.map (·.1), FiltersTotal ac.sch c nd.doc)
    (hno : ∀ nd ∈ news.map (·.1), ∀ n i, (n, i) ∈ c.indexes →
      ¬ CollidesAt ac.sch (fun x => (x ∈ c.docs ∧ ∀ o ∈ list, x.id ≠ o.id) ∨
          (x ∈ news.map (·.1) ∧ x ≠ nd)) i nd.doc) :
    ∃ res, c.update ac q u sort skip limit filters nu = .ok (res, nu') := by
  have hmem := selectDocs_mem hsel
  have hdl := selectDocs_distinct hsel hc.1
  obtain ⟨_, _, f3, _⟩ := update_pairs_facts hc.1 hb hmem hdl hap
  obtain ⟨hids, _⟩ := applyAll_spec hap
  have hinj : ∀ o ∈ list, ∀ x, x ∈ c.docs → x.id = o.id → x = o :=
    fun o ho x hx e => ids_inj hc.1 x hx o (hmem o ho) e
  obtain ⟨idx1, hrem⟩ := foldIdx_remove_ok hc.2 hmem hdl hinj
  have c1 := foldIdx_remove_coherent hc.2 hinj hrem
  have hsh := foldIdx_remove_shape hrem
  have hnd : ((news.map (·.1)).map (·.id)).Nodup := by
    rw [List.map_map]
    have : ((fun x : SDoc => x.id) ∘ fun x : SDoc × List (String × V) => x.1) = fun x => x.1.id := rfl
    rw [this, hids]; exact List.nodup_range' 1
  obtain ⟨idx2, hadd⟩ := foldIdx_add_ok (list := news.map (·.1)) c1
    (fun nd hnd' x hx e => by
      have h1 := hb x hx.1
      have h2 := (f3 nd hnd').1
      omega)
    hnd
    (fun nd hnd' n i1 hm => by
      obtain ⟨i, hi, hcfg⟩ := shape_mem hsh n i1 hm
      rw [partialMatches_config hcfg]
      exact htot nd hnd' n i hi)
    (fun nd hnd' n i1 hm hcol => by
      obtain ⟨i, hi, hcfg⟩ := shape_mem hsh n i1 hm
      exact hno nd hnd' n i hi
        (hcol.mono (fun x hx => hx) hcfg (columns_of_config (hc.2 n i hi) (c1 n i1 hm) hcfg)))
  unfold Coll.update
  simp only [hsel]
  cases list with
  | nil =>
    simp only [Coll.update.applyAll, Except.ok.injEq, Prod.mk.injEq] at hap
    exact ⟨_, by rw [hap.2]⟩
  | cons o r =>
    simp only [hap]
    have hid' : ((o :: r).zip news).any (fun x => match x with
        | (o, n, _) => !sameId (Get n.doc "_id") (Get o.doc "_id")) = false := hid
    simp only [hid', Bool.false_eq_true, ↓reduceIte, hrem, hadd]
    exact ⟨_, rfl⟩

end Lungo
