/-
  Lungo.Proofs.FS — invariants of the crash model: which contents a name can show after a crash.
-/
import Lungo.Model.FS
namespace Lungo.FS

/-- inode `i` is fully synced with content `c` -/
def Stable (s : State) (i : Ino) (c : Bytes) : Prop := s.ino i = ⟨c, []⟩

/-- effect of a directory operation on name `p`: `none` untouched, `some v` := `p ↦ v` -/
def DirOp.effect (p : Name) : DirOp → Option (Option Ino)
  | .link n i => if p = n then some (some i) else none
  | .unlink n => if p = n then some none else none
  | .rename a b i => if p = b then some (some i) else if p = a then some none else none

def DirOp.inoRef : DirOp → Option Ino
  | .link _ i => some i
  | .unlink _ => none
  | .rename _ _ i => some i

theorem effect_apply (op : DirOp) (d : Dir) (p : Name) :
    op.apply d p = match op.effect p with | none => d p | some v => v := by
  cases op with
  | link n i => simp only [DirOp.apply, DirOp.effect, Dir.set]; by_cases h : p = n <;> simp [h]
  | unlink n => simp only [DirOp.apply, DirOp.effect, Dir.set]; by_cases h : p = n <;> simp [h]
  | rename a b i =>
    simp only [DirOp.apply, DirOp.effect, Dir.set]
    by_cases h : p = b
    · simp [h]
    · by_cases h' : p = a
      · subst h'; simp [h]
      · simp [h, h']

theorem applyAll_cases (ops : List DirOp) (d : Dir) (p : Name) :
    applyAll d ops p = d p ∨ ∃ op ∈ ops, op.effect p = some (applyAll d ops p) := by
  induction ops generalizing d with
  | nil => exact Or.inl rfl
  | cons op ops ih =>
    simp only [applyAll]
    rcases ih (op.apply d) with h | ⟨op', hm, he⟩
    · rw [h, effect_apply]
      cases hop : op.effect p with
      | none => exact Or.inl rfl
      | some v =>
        refine Or.inr ⟨op, List.mem_cons_self, ?_⟩
        simp [hop]
    · exact Or.inr ⟨op', List.mem_cons_of_mem _ hm, he⟩

theorem applyAll_append (d : Dir) (l₁ l₂ : List DirOp) : applyAll d (l₁ ++ l₂) = applyAll (applyAll d l₁) l₂ := by
  induction l₁ generalizing d with
  | nil => rfl
  | cons op l ih => simp only [List.cons_append, applyAll, ih]

/-- the value `v` a directory may give to the path is acceptable: absent and `A none`, or a
    fully synced inode whose content `c` satisfies `A (some c)` -/
def ValOK (s : State) (A : Option Bytes → Prop) : Option Ino → Prop
  | none => A none
  | some i => ∃ c, Stable s i c ∧ A (some c)

theorem ValOK.mono {s A B v} (hAB : ∀ x, A x → B x) (h : ValOK s A v) : ValOK s B v := by
  cases v with
  | none => exact hAB _ h
  | some i => obtain ⟨c, hs, ha⟩ := h; exact ⟨c, hs, hAB _ ha⟩

theorem ValOK.congr {s s' : State} {A v} (hi : ∀ i, v = some i → s'.ino i = s.ino i) (h : ValOK s A v) : ValOK s' A v := by
  cases v with
  | none => exact h
  | some i => obtain ⟨c, hs, ha⟩ := h; exact ⟨c, by unfold Stable at *; rw [hi i rfl, hs], ha⟩

/-- every content the name `p` can show — durably, volatile, or through any pending operation — is in `A`
    and sits in a fully synced inode -/
structure PathInv (s : State) (p : Name) (A : Option Bytes → Prop) : Prop where
  d : ValOK s A (s.ddir p)
  v : ValOK s A (s.vdir p)
  pend : ∀ op ∈ s.pending, ∀ v, op.effect p = some v → ValOK s A v

theorem PathInv.mono {s p A B} (hAB : ∀ x, A x → B x) (h : PathInv s p A) : PathInv s p B :=
  ⟨h.d.mono hAB, h.v.mono hAB, fun op hm v he => (h.pend op hm v he).mono hAB⟩

/-- all inode references are below the allocation counter -/
structure WF (s : State) : Prop where
  v : ∀ n i, s.vdir n = some i → i < s.next
  d : ∀ n i, s.ddir n = some i → i < s.next
  pend : ∀ op ∈ s.pending, ∀ i, op.inoRef = some i → i < s.next

theorem effect_inoRef {op : DirOp} {p i} (h : op.effect p = some (some i)) : op.inoRef = some i := by
  cases op <;> simp only [DirOp.effect] at h <;> simp only [DirOp.inoRef]
  · split at h <;> simp_all
  · split at h <;> simp_all
  · repeat' split at h
    all_goals simp_all

/-- the value at `p` after applying a sub-list of the pending operations is acceptable -/
theorem PathInv.sub_ok {s p A} (h : PathInv s p A) {sub : List DirOp} (hs : sub.Sublist s.pending) :
    ValOK s A (applyAll s.ddir sub p) := by
  rcases applyAll_cases sub s.ddir p with he | ⟨op, hm, he⟩
  · rw [he]; exact h.d
  · exact h.pend op (hs.subset hm) _ he

/-- C05 core: after ANY crash the name shows an acceptable content -/
theorem PathInv.crash_load {s s' p A} (h : PathInv s p A) (hc : Crash s s') : A (load s' p) := by
  obtain ⟨sub, hsub, hd, hv, _, _, _, hino⟩ := hc
  have hok := h.sub_ok hsub
  unfold load
  rw [hv p, hd p]
  cases hval : applyAll s.ddir sub p with
  | none => rw [hval] at hok; exact hok
  | some i =>
    rw [hval] at hok
    obtain ⟨c, hst, ha⟩ := hok
    obtain ⟨g, hg, hlen⟩ := hino i
    unfold Stable at hst
    rw [hst] at hg hlen
    have : g = [] := List.eq_nil_of_length_eq_zero (by simpa using hlen)
    subst this
    simp only [Option.map_some, Inode.vol, hg, List.append_nil]
    exact ha

theorem PathInv.load_ok {s p A} (h : PathInv s p A) : A (load s p) := by
  have hv := h.v
  unfold load
  cases hval : s.vdir p with
  | none => rw [hval] at hv; exact hv
  | some i =>
    rw [hval] at hv
    obtain ⟨c, hst, ha⟩ := hv
    unfold Stable at hst
    simp only [Option.map_some, Inode.vol, hst, List.append_nil]
    exact ha

theorem PathInv.kill_load {s p A} (h : PathInv s p A) : A (load (kill s) p) := h.load_ok

/-- a post-crash state again satisfies the invariants (so the program can be re-run on it) -/
theorem crash_preserves {s s' p A} (hw : WF s) (h : PathInv s p A) (hc : Crash s s') : WF s' ∧ PathInv s' p A := by
  obtain ⟨sub, hsub, hd, hv, hp, _, hn, hino⟩ := hc
  have stab : ∀ i c, Stable s i c → Stable s' i c := by
    intro i c hst
    obtain ⟨g, hg, hlen⟩ := hino i
    unfold Stable at *
    rw [hst] at hg hlen
    have : g = [] := List.eq_nil_of_length_eq_zero (by simpa using hlen)
    subst this
    simpa using hg
  have ok' : ∀ v, ValOK s A v → ValOK s' A v := by
    intro v hv
    cases v with
    | none => exact hv
    | some i => obtain ⟨c, hs, ha⟩ := hv; exact ⟨c, stab i c hs, ha⟩
  have refd : ∀ n i, s'.ddir n = some i → i < s'.next := by
    intro n i hni
    rw [hd n] at hni
    rw [hn]
    rcases applyAll_cases sub s.ddir n with he | ⟨op, hm, he⟩
    · rw [he] at hni; exact hw.d n i hni
    · rw [hni] at he
      exact hw.pend op (hsub.subset hm) i (effect_inoRef he)
  refine ⟨⟨fun n i h => refd n i (by rw [← hv n]; exact h), refd, by rw [hp]; intro op hm; cases hm⟩, ?_⟩
  have hdp : ValOK s' A (s'.ddir p) := by rw [hd p]; exact ok' _ (h.sub_ok hsub)
  exact ⟨hdp, by rw [hv p]; exact hdp, by rw [hp]; intro op hm; cases hm⟩

end Lungo.FS
