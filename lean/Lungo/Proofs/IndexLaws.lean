/-
  Lungo.Proofs.IndexLaws — helper lemmas for C15 / C07: key tuples, `tupleEq`, and the effect of
  `Index.baseAdd` / `Index.baseRemove` / `Index.add` / `Index.remove` / `Index.build` on the
  entry set of an index.
-/
import Lungo.Spec.IndexSpec
import Lungo.Proofs.CompareLaws
namespace Lungo

/-! ### `tupleEq` is an equivalence (transitivity on the C12 domain) -/

theorem tupleEq_refl : ∀ t : List V, tupleEq t t = true
  | [] => rfl
  | x :: r => by simp [tupleEq, V.cmp_refl, tupleEq_refl r]

theorem tupleEq_symm : ∀ a b : List V, tupleEq a b = tupleEq b a
  | [], [] => rfl
  | [], _ :: _ => rfl
  | _ :: _, [] => rfl
  | x :: r, y :: s => by
    simp only [tupleEq, tupleEq_symm r s]
    rw [V.cmp_swap x y]
    cases V.cmp x y <;> rfl

theorem tupleEq_trans : ∀ a b c : List V, TupOk a → TupOk b → TupOk c →
    tupleEq a b = true → tupleEq b c = true → tupleEq a c = true
  | [], [], [], _, _, _, _, _ => rfl
  | [], [], _ :: _, _, _, _, _, h => by simp [tupleEq] at h
  | [], _ :: _, _, _, _, _, h, _ => by simp [tupleEq] at h
  | _ :: _, [], _, _, _, _, h, _ => by simp [tupleEq] at h
  | _ :: _, _ :: _, [], _, _, _, _, h => by simp [tupleEq] at h
  | x :: r, y :: s, z :: u, oa, ob, oc, h1, h2 => by
    simp only [tupleEq, Bool.and_eq_true, beq_iff_eq] at h1 h2 ⊢
    have ox := oa x (by simp)
    have oy := ob y (by simp)
    have oz := oc z (by simp)
    refine ⟨?_, tupleEq_trans r s u (fun v hv => oa v (by simp [hv])) (fun v hv => ob v (by simp [hv]))
      (fun v hv => oc v (by simp [hv])) h1.2 h2.2⟩
    rw [(V.cmp_at x y z ox oy oz).congr_l h1.1]; exact h2.1

/-! ### Key tuples -/

/-- the expanded values of one column (body of the loop in `Index.tuples`) -/
def colValues (d : Doc) (col : Column) : List V :=
  match (All d (splitPath col.path) true true).1 with
  | .arr [] => [(All d (splitPath col.path) true true).1]
  | .arr a => a
  | v => [v]

def tuplesStep (d : Doc) (acc : List (List V)) (col : Column) : List (List V) :=
  acc.flatMap fun t => (colValues d col).map fun x => t ++ [x]

theorem tuples_eq (cols : List Column) (d : Doc) : tuples cols d = cols.foldl (tuplesStep d) [[]] := by
  unfold tuples
  congr 1
  funext acc col
  unfold tuplesStep colValues
  split <;> simp_all

theorem colValues_ne_nil (d : Doc) (col : Column) : colValues d col ≠ [] := by
  unfold colValues
  split
  · simp
  · rename_i a h1 h2
    intro h; subst h; exact h1 rfl
  · simp

theorem tuplesStep_ne_nil (d : Doc) (acc : List (List V)) (col : Column) (h : acc ≠ []) :
    tuplesStep d acc col ≠ [] := by
  unfold tuplesStep
  cases acc with
  | nil => exact absurd rfl h
  | cons t r =>
    cases hv : colValues d col with
    | nil => exact absurd hv (colValues_ne_nil d col)
    | cons v vs => simp

theorem foldl_tuplesStep_ne_nil (d : Doc) : ∀ (cols : List Column) (acc : List (List V)), acc ≠ [] →
    cols.foldl (tuplesStep d) acc ≠ []
  | [], _, h => h
  | col :: r, acc, h => foldl_tuplesStep_ne_nil d r _ (tuplesStep_ne_nil d acc col h)

/-- `Index.tuples` always returns at least one tuple. -/
theorem tuples_ne_nil (cols : List Column) (d : Doc) : tuples cols d ≠ [] := by
  rw [tuples_eq]; exact foldl_tuplesStep_ne_nil d cols [[]] (by simp)

/-! ### Well-formedness of key tuples (`get` / `All` only return parts of the document) -/

theorem i64OkList_iff : ∀ xs : List V, i64OkList xs = true ↔ ∀ v ∈ xs, v.i64Ok = true
  | [] => by simp [i64OkList]
  | v :: r => by simp [i64OkList, i64OkList_iff r]

theorem i64OkList_append_idx (a b : List V) (ha : i64OkList a = true) (hb : i64OkList b = true) :
    i64OkList (a ++ b) = true := by
  rw [i64OkList_iff] at *
  intro v hv
  rcases List.mem_append.mp hv with h | h
  · exact ha v h
  · exact hb v h

mutual
theorem get_ok : ∀ (v : V) (path : Path) (c k : Bool), v.i64Ok = true →
    (get v path c k).1.i64Ok = true
  | v, [], c, k, h => by rw [get]; exact h
  | .doc fs, key :: rest, c, k, h => by
      rw [get]
      split
      · rfl
      · rw [V.i64Ok] at h; exact getField_ok fs key rest c k h
  | .arr xs, key :: rest, c, k, h => by
      rw [V.i64Ok] at h
      rw [get]
      split
      · rfl
      · split
        · rename_i r hr
          split at hr
          · exact getIdx_ok xs _ rest c k h r hr
          · cases hr
        · split
          · show (V.arr _).i64Ok = true
            rw [V.i64Ok]; exact getCollect_ok xs key rest c k h
          · rfl
  | .null, _ :: _, _, _, _ | .missing, _ :: _, _, _, _ | .i32 _, _ :: _, _, _, _
  | .i64 _, _ :: _, _, _, _ | .f64 _, _ :: _, _, _, _ | .dec _ _, _ :: _, _, _, _
  | .str _, _ :: _, _, _, _ | .bin _ _, _ :: _, _, _, _ | .oid _, _ :: _, _, _, _
  | .bool _, _ :: _, _, _, _ | .date _, _ :: _, _, _, _ | .ts _ _, _ :: _, _, _, _
  | .regex _ _, _ :: _, _, _, _ => by
      rw [get]
      · split <;> rfl
      all_goals (intro _ h; cases h)
theorem getField_ok : ∀ (fs : List (String × V)) (key : String) (rest : Path) (c k : Bool),
    i64OkFields fs = true → (getField fs key rest c k).1.i64Ok = true
  | [], _, _, _, _, _ => by rw [getField]; rfl
  | (k', v) :: r, key, rest, c, k, h => by
      rw [i64OkFields, Bool.and_eq_true] at h
      rw [getField]
      split
      · exact get_ok v rest c k h.1
      · exact getField_ok r key rest c k h.2
theorem getIdx_ok : ∀ (xs : List V) (idx : Nat) (rest : Path) (c k : Bool),
    i64OkList xs = true → ∀ r, getIdx xs idx rest c k = some r → r.1.i64Ok = true
  | [], _, _, _, _, _, r, hr => by rw [getIdx] at hr; cases hr
  | v :: _, 0, rest, c, k, h, r, hr => by
      rw [i64OkList, Bool.and_eq_true] at h
      rw [getIdx] at hr
      cases hr
      exact get_ok v rest c k h.1
  | _ :: r', n + 1, rest, c, k, h, r, hr => by
      rw [i64OkList, Bool.and_eq_true] at h
      rw [getIdx] at hr
      exact getIdx_ok r' n rest c k h.2 r hr
theorem getCollect_ok : ∀ (xs : List V) (key : String) (rest : Path) (c k : Bool),
    i64OkList xs = true → i64OkList (getCollect xs key rest c k) = true
  | [], _, _, _, _, _ => by rw [getCollect]; rfl
  | item :: r, key, rest, c, k, h => by
      rw [i64OkList, Bool.and_eq_true] at h
      have h1 := get_ok item (key :: rest) c k h.1
      have h2 := getCollect_ok r key rest c k h.2
      rw [getCollect]
      generalize get item (key :: rest) c k = p at h1
      obtain ⟨value, nested⟩ := p
      simp only at h1 ⊢
      split
      · split
        · rw [i64OkList, h1, h2]; rfl
        · exact h2
      · split
        · rename_i a
          split
          · rw [V.i64Ok] at h1; exact i64OkList_append_idx _ _ h1 h2
          · rw [i64OkList, h1, h2]; rfl
        · rw [i64OkList, h1, h2]; rfl
end

theorem flatten_ok : ∀ array : List V, i64OkList array = true →
    i64OkList (array.foldr (fun item acc => match item with
          | .arr a => a ++ acc
          | _ => item :: acc) []) = true
  | [], _ => rfl
  | item :: r, h => by
    rw [i64OkList, Bool.and_eq_true] at h
    have ih := flatten_ok r h.2
    rw [List.foldr_cons]
    split
    · have := h.1; rw [V.i64Ok] at this; exact i64OkList_append_idx _ _ this ih
    · rw [i64OkList, h.1, ih]; rfl

theorem All_ok (d : Doc) (path : Path) (c m : Bool) (h : DocOk d) : (All d path c m).1.i64Ok = true := by
  have h1 := get_ok (.doc d) path true c h
  unfold All
  generalize get (.doc d) path true c = p at h1
  obtain ⟨value, nested⟩ := p
  simp only at h1 ⊢
  split
  · exact h1
  · split
    · rw [V.i64Ok] at h1 ⊢; exact flatten_ok _ h1
    · exact h1

theorem colValues_ok (d : Doc) (col : Column) (h : DocOk d) : ∀ v ∈ colValues d col, v.i64Ok = true := by
  have h1 := All_ok d (splitPath col.path) true true h
  unfold colValues
  split
  · intro v hv; simp only [List.mem_singleton] at hv; subst hv; exact h1
  · rename_i a _ heq
    rw [heq, V.i64Ok, i64OkList_iff] at h1; exact h1
  · intro v hv; simp only [List.mem_singleton] at hv; subst hv; exact h1

theorem tuplesStep_ok (d : Doc) (h : DocOk d) (acc : List (List V)) (col : Column)
    (hacc : ∀ t ∈ acc, TupOk t) : ∀ t ∈ tuplesStep d acc col, TupOk t := by
  intro t ht
  simp only [tuplesStep, List.mem_flatMap, List.mem_map] at ht
  obtain ⟨t0, ht0, x, hx, rfl⟩ := ht
  intro v hv
  rcases List.mem_append.mp hv with h' | h'
  · exact hacc t0 ht0 v h'
  · simp only [List.mem_singleton] at h'; subst h'; exact colValues_ok d col h v hx

theorem foldl_tuplesStep_ok (d : Doc) (h : DocOk d) : ∀ (cols : List Column) (acc : List (List V)),
    (∀ t ∈ acc, TupOk t) → ∀ t ∈ cols.foldl (tuplesStep d) acc, TupOk t
  | [], _, hacc => hacc
  | col :: r, acc, hacc => foldl_tuplesStep_ok d h r _ (tuplesStep_ok d h acc col hacc)

/-- key tuples of a well-formed document are well-formed -/
theorem tuples_ok (cols : List Column) (d : Doc) (h : DocOk d) : ∀ t ∈ tuples cols d, TupOk t := by
  rw [tuples_eq]
  exact foldl_tuplesStep_ok d h cols [[]] (by intro t ht; simp at ht; subst ht; intro v hv; cases hv)

/-! ### `hasEntry`, `hasKey` -/

theorem hasEntry_iff (i : Index) (t : List V) (id : Nat) :
    i.hasEntry t id = true ↔ ∃ k, (k, id) ∈ i.entries ∧ tupleEq k t = true := by
  simp only [Index.hasEntry, List.any_eq_true, Bool.and_eq_true, beq_iff_eq]
  constructor
  · rintro ⟨⟨k, d⟩, hm, hd, hk⟩
    simp only at hd hk; subst hd; exact ⟨k, hm, hk⟩
  · rintro ⟨k, hm, hk⟩; exact ⟨(k, id), hm, rfl, hk⟩

theorem hasKey_iff (i : Index) (t : List V) :
    i.hasKey t = true ↔ ∃ k id, (k, id) ∈ i.entries ∧ tupleEq k t = true := by
  simp only [Index.hasKey, List.any_eq_true]
  constructor
  · rintro ⟨⟨k, d⟩, hm, hk⟩; exact ⟨k, d, hm, hk⟩
  · rintro ⟨k, d, hm, hk⟩; exact ⟨(k, d), hm, hk⟩

/-! ### The entry list after `baseAdd` -/

/-- one `btree.Set`: keep the set if an equivalent entry of the same document exists -/
def addEntry (id : Nat) (es : List (List V × Nat)) (t : List V) : List (List V × Nat) :=
  if es.any (fun (k, d) => d == id && tupleEq k t) then es else es ++ [(t, id)]

def addEntries (es : List (List V × Nat)) (id : Nat) (ts : List (List V)) : List (List V × Nat) :=
  ts.foldl (addEntry id) es

theorem addEntry_sub {id es t e} (h : e ∈ es) : e ∈ addEntry id es t := by
  unfold addEntry; split
  · exact h
  · exact List.mem_append_left _ h

theorem addEntry_mem {id es t e} (h : e ∈ addEntry id es t) : e ∈ es ∨ e = (t, id) := by
  unfold addEntry at h; split at h
  · exact .inl h
  · rcases List.mem_append.mp h with h | h
    · exact .inl h
    · exact .inr (by simpa using h)

theorem addEntry_has (id : Nat) (es : List (List V × Nat)) (t : List V) :
    ∃ k, (k, id) ∈ addEntry id es t ∧ tupleEq k t = true := by
  unfold addEntry; split
  · rename_i h
    simp only [List.any_eq_true, Bool.and_eq_true, beq_iff_eq] at h
    obtain ⟨⟨k, d⟩, hm, hd, hk⟩ := h
    simp only at hd hk; subst hd; exact ⟨k, hm, hk⟩
  · exact ⟨t, by simp, tupleEq_refl t⟩

abbrev EntriesNodup (es : List (List V × Nat)) : Prop :=
  es.Pairwise fun e1 e2 => ¬ (e1.2 = e2.2 ∧ tupleEq e1.1 e2.1 = true)

theorem addEntry_nodup {id es t} (h : EntriesNodup es) : EntriesNodup (addEntry id es t) := by
  unfold addEntry; split
  · exact h
  · rename_i hn
    rw [EntriesNodup, List.pairwise_append]
    refine ⟨h, by simp, ?_⟩
    intro a ha b hb
    simp only [List.mem_singleton] at hb; subst hb
    rintro ⟨h1, h2⟩
    apply hn
    simp only [List.any_eq_true, Bool.and_eq_true, beq_iff_eq]
    exact ⟨a, ha, h1, h2⟩

theorem addEntries_sub {id e} : ∀ {ts es}, e ∈ es → e ∈ addEntries es id ts
  | [], _, h => h
  | t :: r, _, h => addEntries_sub (ts := r) (addEntry_sub (t := t) h)

theorem addEntries_mem {id e} : ∀ {ts es}, e ∈ addEntries es id ts → e ∈ es ∨ (e.2 = id ∧ e.1 ∈ ts)
  | [], _, h => .inl h
  | t :: r, es, h => by
    rcases addEntries_mem (ts := r) h with h | ⟨h1, h2⟩
    · rcases addEntry_mem h with h | h
      · exact .inl h
      · subst h; exact .inr ⟨rfl, by simp⟩
    · exact .inr ⟨h1, by simp [h2]⟩

theorem addEntries_has {id} : ∀ {ts es t}, t ∈ ts → ∃ k, (k, id) ∈ addEntries es id ts ∧ tupleEq k t = true
  | t0 :: r, es, t, h => by
    rcases List.mem_cons.mp h with h | h
    · subst h
      obtain ⟨k, hm, hk⟩ := addEntry_has id es t
      exact ⟨k, addEntries_sub (ts := r) hm, hk⟩
    · exact addEntries_has (ts := r) h

theorem addEntries_nodup {id} : ∀ {ts es}, EntriesNodup es → EntriesNodup (addEntries es id ts)
  | [], _, h => h
  | t :: r, _, h => addEntries_nodup (ts := r) (addEntry_nodup (t := t) h)

/-- `baseAdd` succeeded: what the new index is and what the checks established -/
theorem baseAdd_true {i i' : Index} {sd : SDoc} (h : i.baseAdd sd = (i', true)) :
    i'.config = i.config ∧ i'.columns = i.columns ∧
    i'.entries = addEntries i.entries sd.id (tuples i.columns sd.doc) ∧
    (i.config.unique = true → ∀ t ∈ tuples i.columns sd.doc, i.hasKey t = false) := by
  unfold Index.baseAdd at h
  simp only at h
  split at h
  · simp at h
  · rename_i t0 r hts
    split at h
    · simp at h
    · split at h
      · simp at h
      · rename_i h1 h2
        simp only [Prod.mk.injEq, and_true] at h
        subst h
        refine ⟨rfl, rfl, ?_, ?_⟩
        · rw [hts]; rfl
        · intro hu t ht
          simp only [hu, Bool.true_and, List.any_eq_true, not_exists, not_and, Bool.not_eq_true] at h2
          exact h2 t ht

/-- `baseAdd` refused: the index is unchanged and the document was already present or collides -/
theorem baseAdd_false {i i' : Index} {sd : SDoc} (h : i.baseAdd sd = (i', false)) :
    i' = i ∧ ((∃ t0 ∈ tuples i.columns sd.doc, i.hasEntry t0 sd.id = true) ∨
      (i.config.unique = true ∧ ∃ t ∈ tuples i.columns sd.doc, i.hasKey t = true)) := by
  unfold Index.baseAdd at h
  simp only at h
  split at h
  · rename_i hts; exact absurd hts (tuples_ne_nil _ _)
  · rename_i t0 r hts
    split at h
    · rename_i h1
      simp only [Prod.mk.injEq, and_true] at h
      exact ⟨h.symm, .inl ⟨t0, by rw [hts]; simp, h1⟩⟩
    · split at h
      · rename_i h1 h2
        simp only [Prod.mk.injEq, and_true] at h
        simp only [Bool.and_eq_true, List.any_eq_true] at h2
        obtain ⟨hu, t, ht, hk⟩ := h2
        exact ⟨h.symm, .inr ⟨hu, t, ht, hk⟩⟩
      · simp at h

/-- `baseRemove` succeeded -/
theorem baseRemove_true {i i' : Index} {sd : SDoc} (h : i.baseRemove sd = (i', true)) :
    i'.config = i.config ∧ i'.columns = i.columns ∧
    i'.entries = i.entries.filter (fun (k, d) => !(d == sd.id && (tuples i.columns sd.doc).any (tupleEq k))) := by
  unfold Index.baseRemove at h
  simp only at h
  split at h
  · simp at h
  · rename_i t0 r hts
    split at h
    · simp at h
    · simp only [Prod.mk.injEq, and_true] at h
      subst h
      refine ⟨rfl, rfl, ?_⟩
      rw [hts]

/-- `baseRemove` succeeds as soon as the first tuple has an entry -/
theorem baseRemove_ok {i : Index} {sd : SDoc}
    (h : ∀ t ∈ tuples i.columns sd.doc, i.hasEntry t sd.id = true) : ∃ i', i.baseRemove sd = (i', true) := by
  unfold Index.baseRemove
  simp only
  split
  · rename_i hts; exact absurd hts (tuples_ne_nil _ _)
  · rename_i t0 r hts
    rw [h t0 (by rw [hts]; simp)]
    exact ⟨_, rfl⟩

/-! ### Index-level coherence steps -/

variable {sch : SchemaEval}

theorem partialMatches_config {i i' : Index} (h : i'.config = i.config) (d : Doc) :
    partialMatches sch i' d = partialMatches sch i d := by
  unfold partialMatches; rw [h]

theorem belongs_config {i i' : Index} (h : i'.config = i.config) (d : Doc) :
    belongs sch i' d ↔ belongs sch i d := by
  unfold belongs; rw [partialMatches_config h]

theorem IndexCoherent.congr {S S' : SDoc → Prop} {i : Index} (hc : IndexCoherent sch S i)
    (h : ∀ x, S' x ↔ S x) : IndexCoherent sch S' i where
  cols := hc.cols
  total x hx := hc.total x ((h x).mp hx)
  sound k id hm := by
    obtain ⟨x, hx, r⟩ := hc.sound k id hm
    exact ⟨x, (h x).mpr hx, r⟩
  complete x hx := hc.complete x ((h x).mp hx)
  nodup := hc.nodup

/-- a document outside the partial filter joins the collection: the index is untouched -/
theorem IndexCoherent.add_nonmember {S : SDoc → Prop} {i : Index} {sd : SDoc}
    (hc : IndexCoherent sch S i) (hb : partialMatches sch i sd.doc = .ok false) :
    IndexCoherent sch (fun x => S x ∨ x = sd) i where
  cols := hc.cols
  total x hx := by
    rcases hx with hx | rfl
    · exact hc.total x hx
    · exact ⟨false, hb⟩
  sound k id hm := by
    obtain ⟨x, hx, r⟩ := hc.sound k id hm
    exact ⟨x, .inl hx, r⟩
  complete x hx hbx := by
    rcases hx with hx | rfl
    · exact hc.complete x hx hbx
    · unfold belongs at hbx; rw [hb] at hbx; cases hbx
  nodup := hc.nodup

theorem IndexCoherent.baseAdd {S : SDoc → Prop} {i i' : Index} {sd : SDoc}
    (hc : IndexCoherent sch S i) (hb : belongs sch i sd.doc) (h : i.baseAdd sd = (i', true)) :
    IndexCoherent sch (fun x => S x ∨ x = sd) i' := by
  obtain ⟨hcfg, hcol, hent, _⟩ := baseAdd_true h
  refine ⟨?_, ?_, ?_, ?_, ?_⟩
  · rw [hcfg, hcol]; exact hc.cols
  · intro x hx
    rw [partialMatches_config hcfg]
    rcases hx with hx | rfl
    · exact hc.total x hx
    · exact ⟨true, hb⟩
  · intro k id hm
    rw [hent] at hm
    rw [hcol]
    simp only [belongs_config hcfg]
    rcases addEntries_mem hm with hm | ⟨h1, h2⟩
    · obtain ⟨x, hx, r⟩ := hc.sound k id hm
      exact ⟨x, .inl hx, r⟩
    · exact ⟨sd, .inr rfl, h1.symm, hb, h2⟩
  · intro x hx hbx t ht
    rw [belongs_config hcfg] at hbx
    rw [hcol] at ht
    rw [hent]
    rcases hx with hx | rfl
    · obtain ⟨k, hm, hk⟩ := hc.complete x hx hbx t ht
      exact ⟨k, addEntries_sub hm, hk⟩
    · exact addEntries_has ht
  · rw [hent]; exact addEntries_nodup hc.nodup

/-- `Index.add` succeeded: the index is coherent for the collection plus the document -/
theorem IndexCoherent.add {S : SDoc → Prop} {i i' : Index} {sd : SDoc}
    (hc : IndexCoherent sch S i) (h : i.add sch sd = .ok (i', true)) :
    IndexCoherent sch (fun x => S x ∨ x = sd) i' := by
  unfold Index.add at h
  split at h
  · cases h
  · rename_i hb
    simp only [Except.ok.injEq, Prod.mk.injEq, and_true] at h
    subst h; exact hc.add_nonmember hb
  · rename_i hb
    simp only [Except.ok.injEq] at h
    exact hc.baseAdd hb h

theorem IndexCoherent.baseRemove {S : SDoc → Prop} {i i' : Index} {sd : SDoc}
    (hc : IndexCoherent sch S i) (hinj : ∀ x, S x → x.id = sd.id → x = sd)
    (h : i.baseRemove sd = (i', true)) :
    IndexCoherent sch (fun x => S x ∧ x.id ≠ sd.id) i' := by
  obtain ⟨hcfg, hcol, hent⟩ := baseRemove_true h
  refine ⟨?_, ?_, ?_, ?_, ?_⟩
  · rw [hcfg, hcol]; exact hc.cols
  · intro x hx
    rw [partialMatches_config hcfg]
    exact hc.total x hx.1
  · intro k id hm
    rw [hent, List.mem_filter] at hm
    rw [hcol]
    simp only [belongs_config hcfg]
    obtain ⟨x, hx, hid, hbx, hk⟩ := hc.sound k id hm.1
    refine ⟨x, ⟨hx, ?_⟩, hid, hbx, hk⟩
    intro heq
    have := hinj x hx heq
    subst this
    have h2 := hm.2
    simp only [Bool.not_eq_true', Bool.and_eq_false_iff, beq_eq_false_iff_ne, ne_eq] at h2
    rcases h2 with h2 | h2
    · exact h2 hid.symm
    · have : (tuples i.columns x.doc).any (tupleEq k) = true :=
        List.any_eq_true.mpr ⟨k, hk, tupleEq_refl k⟩
      rw [this] at h2; cases h2
  · intro x hx hbx t ht
    rw [belongs_config hcfg] at hbx
    rw [hcol] at ht
    obtain ⟨k, hm, hk⟩ := hc.complete x hx.1 hbx t ht
    refine ⟨k, ?_, hk⟩
    rw [hent, List.mem_filter]
    refine ⟨hm, ?_⟩
    simp only [Bool.not_eq_true', Bool.and_eq_false_iff, beq_eq_false_iff_ne, ne_eq]
    exact .inl hx.2
  · rw [hent]; exact hc.nodup.filter _

theorem IndexCoherent.remove_nonmember {S : SDoc → Prop} {i : Index} {sd : SDoc}
    (hc : IndexCoherent sch S i) (hinj : ∀ x, S x → x.id = sd.id → x = sd)
    (hb : partialMatches sch i sd.doc = .ok false) :
    IndexCoherent sch (fun x => S x ∧ x.id ≠ sd.id) i where
  cols := hc.cols
  total x hx := hc.total x hx.1
  sound k id hm := by
    obtain ⟨x, hx, hid, hbx, hk⟩ := hc.sound k id hm
    refine ⟨x, ⟨hx, ?_⟩, hid, hbx, hk⟩
    intro heq
    have := hinj x hx heq
    subst this
    unfold belongs at hbx; rw [hb] at hbx; cases hbx
  complete x hx hbx := hc.complete x hx.1 hbx
  nodup := hc.nodup

/-- `Index.remove` succeeded: the index is coherent for the collection minus the document -/
theorem IndexCoherent.remove {S : SDoc → Prop} {i i' : Index} {sd : SDoc}
    (hc : IndexCoherent sch S i) (hinj : ∀ x, S x → x.id = sd.id → x = sd)
    (h : i.remove sch sd = .ok (i', true)) :
    IndexCoherent sch (fun x => S x ∧ x.id ≠ sd.id) i' := by
  unfold Index.remove at h
  split at h
  · cases h
  · rename_i hb
    simp only [Except.ok.injEq, Prod.mk.injEq, and_true] at h
    subst h; exact hc.remove_nonmember hinj hb
  · simp only [Except.ok.injEq] at h
    exact hc.baseRemove hinj h

/-- removing a stored document from a coherent index never fails
    ("unable to remove document from index" is unreachable) -/
theorem IndexCoherent.remove_ok {S : SDoc → Prop} {i : Index} {sd : SDoc}
    (hc : IndexCoherent sch S i) (hs : S sd) : ∃ i', i.remove sch sd = .ok (i', true) := by
  unfold Index.remove
  obtain ⟨b, hb⟩ := hc.total sd hs
  rw [hb]
  cases b with
  | false => exact ⟨i, rfl⟩
  | true =>
    have : ∀ t ∈ tuples i.columns sd.doc, i.hasEntry t sd.id = true := fun t ht =>
      (hasEntry_iff i t sd.id).mpr (hc.complete sd hs hb t ht)
    obtain ⟨i', h⟩ := baseRemove_ok this
    exact ⟨i', by simp only [h]⟩

/-- config and columns never change -/
theorem add_shape {i i' : Index} {sd : SDoc} {b : Bool} (h : i.add sch sd = .ok (i', b)) :
    i'.config = i.config ∧ i'.columns = i.columns := by
  unfold Index.add at h
  split at h
  · cases h
  · simp only [Except.ok.injEq, Prod.mk.injEq] at h; rw [← h.1]; exact ⟨rfl, rfl⟩
  · simp only [Except.ok.injEq] at h
    cases b with
    | true => obtain ⟨h1, h2, _⟩ := baseAdd_true h; exact ⟨h1, h2⟩
    | false => rw [(baseAdd_false h).1]; exact ⟨rfl, rfl⟩

theorem remove_shape {i i' : Index} {sd : SDoc} (h : i.remove sch sd = .ok (i', true)) :
    i'.config = i.config ∧ i'.columns = i.columns := by
  unfold Index.remove at h
  split at h
  · cases h
  · simp only [Except.ok.injEq, Prod.mk.injEq] at h; rw [← h.1]; exact ⟨rfl, rfl⟩
  · simp only [Except.ok.injEq] at h
    obtain ⟨h1, h2, _⟩ := baseRemove_true h; exact ⟨h1, h2⟩

/-! ### Index-level uniqueness steps -/

theorem IndexUnique.mono {S S' : SDoc → Prop} {i i' : Index} (hu : IndexUnique sch S i)
    (hs : ∀ x, S' x → S x) (hcfg : i'.config = i.config) (hcol : i'.columns = i.columns) :
    IndexUnique sch S' i' := by
  intro hun x y hx hy hne bx hby
  rw [hcol]
  rw [belongs_config hcfg] at bx hby
  rw [hcfg] at hun
  exact hu hun x y (hs x hx) (hs y hy) hne bx hby

/-- identities determine the stored documents of `S` -/
def IdInj (S : SDoc → Prop) : Prop := ∀ x y, S x → S y → x.id = y.id → x = y

theorem IdInj.insert {S : SDoc → Prop} {sd : SDoc} (h : IdInj S) (hf : ∀ x, S x → x.id ≠ sd.id) :
    IdInj (fun x => S x ∨ x = sd) := by
  intro x y hx hy e
  rcases hx with hx | rfl
  · rcases hy with hy | rfl
    · exact h x y hx hy e
    · exact absurd e (hf x hx)
  · rcases hy with hy | rfl
    · exact absurd e.symm (hf y hy)
    · rfl

theorem IdInj.mono {S S' : SDoc → Prop} (h : IdInj S) (hs : ∀ x, S' x → S x) : IdInj S' :=
  fun x y hx hy e => h x y (hs x hx) (hs y hy) e

/-- after a successful `baseAdd` into a unique index the new document shares no key with a
    stored one (needs transitivity of `tupleEq`, hence well-formed tuples) -/
theorem no_collision_of_baseAdd {S : SDoc → Prop} {i i' : Index} {sd : SDoc}
    (hc : IndexCoherent sch S i) (hinj : IdInj S) (hsd : DocOk sd.doc)
    (hun : i.config.unique = true) (h : i.baseAdd sd = (i', true)) :
    ∀ x, S x → DocOk x.doc → belongs sch i x.doc →
      ∀ t1 ∈ tuples i.columns x.doc, ∀ t2 ∈ tuples i.columns sd.doc, tupleEq t1 t2 = false := by
  obtain ⟨_, _, _, hno⟩ := baseAdd_true h
  intro x hx hxo hbx t1 ht1 t2 ht2
  cases heq : tupleEq t1 t2 with
  | false => rfl
  | true =>
    obtain ⟨k, hm, hk⟩ := hc.complete x hx hbx t1 ht1
    obtain ⟨x', hx', hid, _, hk'⟩ := hc.sound k x.id hm
    have := hinj x' x hx' hx hid
    subst this
    have okk : TupOk k := tuples_ok _ _ hxo k hk'
    have ok1 : TupOk t1 := tuples_ok _ _ hxo t1 ht1
    have ok2 : TupOk t2 := tuples_ok _ _ hsd t2 ht2
    have := tupleEq_trans k t1 t2 okk ok1 ok2 hk heq
    have hk2 : i.hasKey t2 = true := (hasKey_iff i t2).mpr ⟨k, x'.id, hm, this⟩
    rw [hno hun t2 ht2] at hk2; cases hk2

/-- uniqueness among the well-formed documents is preserved by a successful `Index.add` -/
theorem IndexUnique.add {S : SDoc → Prop} {i i' : Index} {sd : SDoc}
    (hc : IndexCoherent sch S i) (hinj : IdInj S)
    (hu : IndexUnique sch (fun x => S x ∧ DocOk x.doc) i)
    (h : i.add sch sd = .ok (i', true)) :
    IndexUnique sch (fun x => (S x ∨ x = sd) ∧ DocOk x.doc) i' := by
  obtain ⟨hcfg, hcol⟩ := add_shape h
  intro hun x y hx hy hne bx hby t1 ht1 t2 ht2
  rw [hcol] at ht1 ht2
  rw [belongs_config hcfg] at bx hby
  rw [hcfg] at hun
  have key : ∀ z, S z → DocOk z.doc → DocOk sd.doc → belongs sch i z.doc → belongs sch i sd.doc →
      ∀ u1 ∈ tuples i.columns z.doc, ∀ u2 ∈ tuples i.columns sd.doc, tupleEq u1 u2 = false := by
    intro z hz hzo hsd hbz hbs
    unfold Index.add at h
    unfold belongs at hbs
    rw [hbs] at h
    simp only [Except.ok.injEq] at h
    exact no_collision_of_baseAdd hc hinj hsd hun h z hz hzo hbz
  obtain ⟨hx, hxo⟩ := hx
  obtain ⟨hy, hyo⟩ := hy
  rcases hx with hx | rfl
  · rcases hy with hy | rfl
    · exact hu hun x y ⟨hx, hxo⟩ ⟨hy, hyo⟩ hne bx hby t1 ht1 t2 ht2
    · exact key x hx hxo hyo bx hby t1 ht1 t2 ht2
  · rcases hy with hy | rfl
    · rw [tupleEq_symm]; exact key y hy hyo hxo hby bx t2 ht2 t1 ht1
    · exact absurd rfl hne

end Lungo
