/-
  Lungo.Proofs.StreamTSDrop — invariants about `dropped` / invalidate and frozen streams.
-/
import Lungo.Proofs.StreamTSData
namespace Lungo.StreamTS

/-- never-created stream ids carry the default stream state -/
def InvDef (s : State) : Prop := ∀ x, x ∉ s.created → s.streams x = {}

theorem InvDef_init : InvDef init := by
  intro x _; rfl

theorem InvDef_step {s s' a c} (h : step s a c = some s') (i : InvDef s) (ipc : InvPC s) :
    InvDef s' := by
  intro x
  have i1 := i x
  have p1 := ipc a x
  have e1 : bcast ({} : StreamState) = {} := by simp [bcast]
  step_leaves h
  all_goals (grind [upd_apply, Pc.sid?])

/-- `invalidated` implies closed and dropped -/
def InvV3 (s : State) : Prop :=
  ∀ x, (s.streams x).invalidated = true → (s.streams x).closed = true ∧ (s.streams x).dropped = true

theorem InvV3_init : InvV3 init := by
  intro x; simp [init]

theorem InvV3_step {s s' a c} (h : step s a c = some s') (i : InvV3 s) (inr : InvNR s) :
    InvV3 s' := by
  intro x
  have i1 := i x
  have n1 := inr a x
  step_leaves h
  all_goals (grind [upd_apply, bcast])


/-- the lost-position error comes with a closed stream -/
def InvLC (s : State) : Prop :=
  ∀ x, (s.streams x).error = some .lost → (s.streams x).closed = true

theorem InvLC_init : InvLC init := by
  intro x; simp [init]

theorem InvLC_step {s s' a c} (h : step s a c = some s') (i : InvLC s) (inr : InvNR s) :
    InvLC s' := by
  intro x
  have i1 := i x
  have n1 := inr a x
  step_leaves h
  all_goals (grind [upd_apply, bcast])

/-- the drop event that set `dropped` is the last delivered event, and the only such one -/
def InvV (s : State) : Prop :=
  ∀ x, ((s.streams x).dropped = false →
          ∀ e ∈ (s.streams x).delivered, setsDropped (s.streams x).handle e = false) ∧
       ((s.streams x).dropped = true →
          ∃ pre e, (s.streams x).delivered = pre ++ [e] ∧
            setsDropped (s.streams x).handle e = true ∧
            ∀ e' ∈ pre, setsDropped (s.streams x).handle e' = false)

theorem InvV_init : InvV init := by
  intro x; simp [init]

theorem InvV_frame {s : State} (i : InvV s) (a : ActorId) (l : Local) (sid : StreamId)
    (st' : StreamState)
    (h1 : st'.dropped = (s.streams sid).dropped) (h2 : st'.handle = (s.streams sid).handle)
    (h3 : st'.delivered = (s.streams sid).delivered) :
    InvV (setBoth s a l sid st') := by
  intro x
  have ix := i x
  by_cases hx : x = sid
  · subst hx
    simp only [setBoth, upd_same, h1, h2, h3]
    exact ix
  · simp only [setBoth, upd_other _ _ hx]
    exact ix

theorem InvV_nRead {s : State} (i : InvV s) (inr : InvNR s) (a : ActorId) (sid : StreamId)
    (block ce : Bool) (hpc : (s.actors a).pc = .nRead sid block) :
    InvV (stepNRead s a sid block ce) := by
  have hd : (s.streams sid).dropped = false := ((inr a sid).1 block hpc).2.1
  simp only [stepNRead]
  cases hni : lookupNext (s.streams sid).last s.oplog with
  | none => exact i
  | some ni =>
    dsimp only
    cases hev : s.oplog[ni]? with
    | some ev =>
      dsimp only
      by_cases hsc : inScope (s.streams sid).handle ev = true
      · rw [if_pos hsc]
        intro x
        by_cases hx : x = sid
        · subst hx
          have ix := (i x).1 hd
          simp only [setBoth, upd_same, hd, Bool.false_or]
          refine ⟨?_, ?_⟩
          · intro hs e he
            rcases List.mem_append.mp he with he | he
            · exact ix e he
            · simp only [List.mem_singleton] at he; subst he; exact hs
          · intro hs
            exact ⟨_, ev, rfl, hs, ix⟩
        · simp only [setBoth, upd_other _ _ hx]
          exact i x
      · rw [if_neg hsc]
        exact InvV_frame i _ _ _ _ rfl rfl rfl
    | none =>
      dsimp only
      cases block with
      | true => exact i
      | false => exact InvV_frame i _ _ _ _ rfl rfl rfl

theorem InvV_step {s s' a c} (h : step s a c = some s') (i : InvV s) (inr : InvNR s) : InvV s' := by
  unfold step at h
  split at h
  case h_4 =>
    unfold stepWatch at h
    split at h
    · cases h; exact i
    · split at h
      · cases h
      · split at h
        · cases h; exact i
        · simp only [Option.some.injEq] at h
          subst h
          intro x
          rename_i sid _ _ _ _ _ _ _ _
          by_cases hx : x = sid
          · subst hx; simp
          · simp only [upd_other _ _ hx]; exact i x
  case h_5 =>
    split at h
    · simp only [Option.some.injEq] at h; subst h
      intro x
      obtain ⟨_, b2, _, _, _, b6, _, b8, _⟩ := bcast_fields (s.streams x)
      simp only [stepCommit, b2, b6, b8]
      exact i x
    · cases h
  case h_7 =>
    rename_i heq
    simp only [Option.some.injEq] at h; subst h; exact InvV_nRead i inr _ _ _ _ heq
  case h_8 =>
    rename_i heq
    simp only [Option.some.injEq] at h; subst h; exact InvV_nRead i inr _ _ _ _ heq
  all_goals
    (try (simp only [stepCallNext, stepNLock, stepNLost, stepNGap, stepRecv,
      stepNSigClosed, stepNCtx, stepCLock, stepCSend, stepCallCloseEngine, stepELoop] at h))
    (repeat' (split at h))
    all_goals (try (simp only [Option.some.injEq, reduceCtorEq] at h))
    all_goals (try (subst h))
    all_goals (first | exact i | exact InvV_frame i _ _ _ _ rfl rfl rfl)

/-! ### frozen streams -/

/-- one step never changes `delivered` of a dropped or closed stream, and both flags are stable -/
theorem frozen_step {s s' a c} (h : step s a c = some s') (inr : InvNR s) (idf : InvDef s)
    (x : StreamId) :
    ((s.streams x).dropped = true →
       (s'.streams x).delivered = (s.streams x).delivered ∧ (s'.streams x).dropped = true) ∧
    ((s.streams x).closed = true → x ∈ s.created →
       (s'.streams x).delivered = (s.streams x).delivered ∧ (s'.streams x).closed = true ∧
       x ∈ s'.created) ∧
    ((s.streams x).invalidated = true → (s'.streams x).invalidated = true) := by
  have n1 := inr a x
  have d1 := idf x
  refine ⟨?_, ?_, ?_⟩
  · step_leaves h
    all_goals (grind [upd_apply, bcast])
  · step_leaves h
    all_goals (grind [upd_apply, bcast])
  · step_leaves h
    all_goals (grind [upd_apply, bcast])

end Lungo.StreamTS
