/-
  Lungo.Proofs.StreamTS — control invariants of the stream transition system
  (mutex ownership, signal protocol, wake-ups, no send on a closed channel).
-/
import Lungo.Model.StreamTS
namespace Lungo.StreamTS

/-- split `h : step s a c = some s'` into the leaves of the decision tree of `step`; in each leaf
    `s'` is replaced by an explicit record update of `s` -/
macro "step_leaves" h:ident : tactic =>
  `(tactic| (
    unfold step at $h:ident
    split at $h:ident
    all_goals (try (simp only [stepCallNext, stepNLock, stepNRead, stepNLost, stepNGap, stepRecv,
      stepNSigClosed, stepNCtx, stepCLock, stepCSend, stepCallCloseEngine, stepELoop, stepWatch,
      stepCommit] at $h:ident))
    all_goals (repeat' (split at $h:ident))
    all_goals (try (simp only [Option.some.injEq, reduceCtorEq] at $h:ident))
    all_goals (try (subst $h:ident))
    all_goals (try (simp only [setBoth, setActor]))
    ))

/-! ### pcs refer to created streams -/

def InvPC (s : State) : Prop :=
  ∀ a sid, (s.actors a).pc.sid? = some sid → sid ∈ s.created

theorem InvPC_init : InvPC init := by
  intro a sid; simp [init, Pc.sid?]

theorem InvPC_step {s s' a c} (h : step s a c = some s') (i : InvPC s) : InvPC s' := by
  intro a' x
  have i1 := i a' x
  have i2 := i a x
  step_leaves h
  all_goals (grind [upd_apply, bcast, Pc.sid?])

/-! ### mutex ownership -/

/-- H1: an actor at a pc inside a critical section of `s.mutex` owns the mutex -/
def InvH (s : State) : Prop :=
  ∀ a sid, (∀ b, (s.actors a).pc = .nRead sid b → (s.streams sid).mutex = some a) ∧
           ((s.actors a).pc = .nLost sid → (s.streams sid).mutex = some a) ∧
           (∀ r, (s.actors a).pc = .nGap sid r → (s.streams sid).mutex = some a) ∧
           ((s.actors a).pc = .cSend sid → (s.streams sid).mutex = some a)

theorem InvH_init : InvH init := by
  intro a sid; simp [init]

theorem InvH_step {s s' a c} (h : step s a c = some s') (i : InvH s) (ipc : InvPC s) : InvH s' := by
  intro a' x
  have i1 := i a' x
  have i2 := i a x
  have i3 := ipc a' x
  step_leaves h
  all_goals (grind [upd_apply, bcast, Pc.sid?])


/-! ### Engine.Close runs on a dead engine -/

def InvEL (s : State) : Prop := ∀ a rest, (s.actors a).pc = .eLoop rest → s.alive = false

theorem InvEL_init : InvEL init := by
  intro a rest; simp [init]

theorem InvEL_step {s s' a c} (h : step s a c = some s') (i : InvEL s) : InvEL s' := by
  intro a' rest
  have i1 := i a' rest
  have i2 := i a
  step_leaves h
  all_goals (grind [upd_apply, bcast])

/-! ### signal protocol -/

/-- per-stream facts about the signal channel and registration -/
def InvS (s : State) : Prop :=
  ∀ sid, ((s.streams sid).signal = .closed → (s.streams sid).closed = true) ∧
         ((s.streams sid).signal = .closed → s.alive = false) ∧
         ((s.streams sid).registered = true ∨ (s.streams sid).closed = true) ∧
         ((s.streams sid).registered = true → sid ∈ s.created) ∧
         ((s.streams sid).panic = false) ∧
         (∀ b, (s.actors b).pc = .cSend sid → (s.streams sid).signal ≠ .closed)

theorem InvS_init : InvS init := by
  intro sid; simp [init]

theorem InvS_step {s s' a c} (h : step s a c = some s') (i : InvS s) (ih : InvH s) (iel : InvEL s) : InvS s' := by
  intro x
  have i1 := i x
  have h1 := ih a x
  have e1 := iel a
  refine ⟨?_, ?_, ?_, ?_, ?_, ?_⟩
  · step_leaves h
    all_goals (grind [upd_apply, bcast])
  · step_leaves h
    all_goals (grind [upd_apply, bcast])
  · step_leaves h
    all_goals (grind [upd_apply, bcast])
  · step_leaves h
    all_goals (grind [upd_apply, bcast])
  · step_leaves h
    all_goals (grind [upd_apply, bcast])
  · intro b
    have h2 := ih b x
    step_leaves h
    all_goals (grind [upd_apply, bcast])


/-! ### the consumer inside its critical section sees a valid stream -/

def InvNR (s : State) : Prop :=
  ∀ a sid, (∀ b, (s.actors a).pc = .nRead sid b →
              (s.streams sid).closed = false ∧ (s.streams sid).dropped = false ∧
              (s.streams sid).error = none) ∧
           (∀ r, (s.actors a).pc = .nGap sid r → (s.streams sid).closed = false)

theorem InvNR_init : InvNR init := by
  intro a sid; simp [init]

theorem InvNR_step {s s' a c} (h : step s a c = some s') (i : InvNR s) (ih : InvH s)
    (ipc : InvPC s) : InvNR s' := by
  intro a' x
  have i1 := i a' x
  have i2 := i a x
  have h1 := ih a x
  have h2 := ih a' x
  have p1 := ipc a' x
  step_leaves h
  all_goals (grind [upd_apply, bcast, Pc.sid?])

/-! ### single consumer bookkeeping -/

def InvM (s : State) : Prop :=
  ∀ c sid, (s.streams sid).multi = false → (s.actors c).pc.nextSid? = some sid →
    (s.streams sid).busy = some c

theorem InvM_init : InvM init := by
  intro a sid; simp [init, Pc.nextSid?]

theorem InvM_step {s s' a c} (h : step s a c = some s') (i : InvM s) (ipc : InvPC s) : InvM s' := by
  intro a' x
  have i1 := i a' x
  have i2 := i a x
  have p1 := ipc a' x
  have p2 := @Pc.nextSid?_sid? (s.actors a').pc x
  step_leaves h
  all_goals (grind [upd_apply, bcast, Pc.nextSid?])


/-! ### pending send of Stream.Close -/

def InvSP (s : State) : Prop :=
  ∀ sid, ((s.streams sid).sendPending = true → (s.streams sid).mutex ≠ none) ∧
         (∀ b, (s.streams sid).sendPending = true → (s.streams sid).mutex = some b →
               (s.actors b).pc = .cSend sid) ∧
         (∀ b, (s.actors b).pc = .cSend sid → (s.streams sid).sendPending = true)

theorem InvSP_init : InvSP init := by
  intro sid; simp [init]

theorem InvSP_step {s s' a c} (h : step s a c = some s') (i : InvSP s) (ih : InvH s)
    (ipc : InvPC s) : InvSP s' := by
  intro x
  have i1 := i x
  have h1 := ih a x
  refine ⟨?_, ?_, ?_⟩
  · step_leaves h
    all_goals (grind [upd_apply, bcast])
  · intro b
    have h2 := ih b x
    step_leaves h
    all_goals (grind [upd_apply, bcast])
  · intro b
    have h2 := ih b x
    have p1 := ipc b x
    step_leaves h
    all_goals (grind [upd_apply, bcast, Pc.sid?])

/-! ### no lost wake-up -/

/-- a consumer that is about to park or is parked, on a stream never used by two consumers at once:
    if something was committed since its oplog read, or the stream was closed, then its signal
    channel is non-empty or a Stream.Close is about to send -/
def InvW (s : State) : Prop :=
  ∀ a sid r, ((s.actors a).pc = .nGap sid r ∨ (s.actors a).pc = .parked sid r) →
    (s.streams sid).multi = false →
    (r < s.version ∨ (s.streams sid).closed = true) →
    ((s.streams sid).signal ≠ .empty ∨ (s.streams sid).sendPending = true)

theorem InvW_init : InvW init := by
  intro a sid r; simp [init]

theorem InvW_step {s s' a c} (h : step s a c = some s') (i : InvW s) (ih : InvH s)
    (ipc : InvPC s) (im : InvM s) (is : InvS s) (inr : InvNR s) : InvW s' := by
  intro a' x r
  have i1 := i a' x r
  have h1 := ih a x
  have h2 := ih a' x
  have p1 := ipc a' x
  have m1 := im a' x
  have m2 := im a x
  have s1 := is x
  have n1 := inr a x
  have n2 := inr a' x
  step_leaves h
  all_goals (grind [upd_apply, bcast, Pc.sid?, Pc.nextSid?])


/-! ### Engine.Close reaches every registered, unclosed stream -/

def InvE (s : State) : Prop :=
  ((s.alive = false → s.closer ≠ none) ∧ (s.alive = true → s.closer = none)) ∧
  ∀ b sid, s.closer = some b → (s.streams sid).registered = true →
    (s.streams sid).closed = false → sid ∈ (s.actors b).pc.eRest

theorem InvE_init : InvE init := by
  simp [InvE, init]

theorem InvE_step {s s' a c} (h : step s a c = some s') (i : InvE s) (is : InvS s) : InvE s' := by
  obtain ⟨i0, i⟩ := i
  refine ⟨?_, ?_⟩
  · step_leaves h
    all_goals (grind [upd_apply, bcast])
  · intro b x
    have i1 := i b x
    have s1 := is x
    step_leaves h
    all_goals (grind [upd_apply, bcast, Pc.eRest])


/-! ### a parked consumer whose read is still current has nothing to deliver -/

def InvU (s : State) : Prop :=
  ∀ a sid r, ((s.actors a).pc = .nGap sid r ∨ (s.actors a).pc = .parked sid r) →
    (s.streams sid).multi = false →
    r ≤ s.version ∧
    (r = s.version → nextEvent (s.streams sid).last s.oplog = some none)

theorem InvU_init : InvU init := by
  intro a sid r; simp [init]

theorem InvU_step {s s' a c} (h : step s a c = some s') (i : InvU s) (ih : InvH s)
    (ipc : InvPC s) (im : InvM s) : InvU s' := by
  intro a' x r
  have i1 := i a' x r
  have h1 := ih a x
  have h2 := ih a' x
  have p1 := ipc a' x
  have m1 := im a' x
  have m2 := im a x
  step_leaves h
  all_goals (grind [upd_apply, bcast, Pc.sid?, Pc.nextSid?, nextEvent])

end Lungo.StreamTS
