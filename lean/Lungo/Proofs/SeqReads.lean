/-
  Lungo.Proofs.SeqReads — C01, the calls that do not change the database: the well-formedness
  vocabulary (`OkDB`, `QueryOk`, stated on the Spec's state) and the refinement of
  find / findOne / count / estimatedCount / distinct / listIndexes / listCollections / listDatabases.
-/
import Lungo.Proofs.SeqAbs
namespace Lungo.SeqRef
open Lungo Lungo.Spec

variable {sch : SchemaEval}

/-- every stored document is a Go value (int64 payloads in range): the domain of the C12 order laws -/
def OkDB (db : SeqDB) : Prop := ∀ h c, (h, c) ∈ db.colls → ∀ d ∈ c.docs, DocOk d

/-- the filter evaluates (to true or false) on every stored document of the namespace -/
def QueryOk (sch : SchemaEval) (db : SeqDB) (h : Handle) (q : Doc) : Prop :=
  ∀ d ∈ (db.coll h).docs, ∀ e, Match sch d q ≠ .error e

/-- the refinement statement for one call: the Spec, started in the abstraction of the state,
    returns the same reply or the same error, and the abstraction commutes -/
def Refines (sch : SchemaEval) (s : Sys) (c : Call) (oids : List V) : Prop :=
  Spec.step sch (abs s.catalog) c oids =
    (Sys.step sch s c oids).map (fun p => (abs p.1.catalog, p.2))

theorem okDB_docsOk {cat : Catalog} (ok : OkDB (abs cat)) {h : Handle} {c : Coll}
    (hm : (h, c) ∈ cat.namespaces) (hne : h ≠ oplogHandle) : DocsOk c.docs := by
  intro x hx
  have : (h, absC c) ∈ (abs cat).colls := by
    simp only [abs, List.mem_map]
    exact ⟨(h, c), hm, absNs_user hne c⟩
  exact ok h (absC c) this x.doc (List.mem_map.mpr ⟨x, hx, rfl⟩)

theorem okDB_ensureNs {cat : Catalog} (ok : OkDB (abs cat)) {h : Handle} (hne : h ≠ oplogHandle) :
    DocsOk (ensureNs cat h).docs := by
  unfold ensureNs
  cases hg : cat.get? h with
  | none => intro x hx; simp [newColl] at hx
  | some c => exact okDB_docsOk ok (get?_some hg) hne

theorem queryOk_noMatchError {cat : Catalog} {h : Handle} {q : Doc} (hne : h ≠ oplogHandle)
    (hq : QueryOk sch (abs cat) h q) : noMatchError sch q (ensureNs cat h).docs := by
  intro sd hsd e
  rw [QueryOk, abs_coll cat hne] at hq
  exact hq sd.doc (List.mem_map.mpr ⟨sd, hsd, rfl⟩) e

theorem ensureNs_some {cat : Catalog} {h : Handle} {c : Coll} (hg : cat.get? h = some c) :
    ensureNs cat h = c := by simp [ensureNs, hg]

/-- `Transaction.Find` and the Spec's `findDocs` return the same documents (or the same error) -/
theorem findDocs_abs {cat : Catalog} {h : Handle} (hne : h ≠ oplogHandle) (q : Doc) (sort : Option Doc)
    (skip limit : Int) (ok : OkDB (abs cat)) (hq : QueryOk sch (abs cat) h q) (d : Bool) :
    findDocs sch (abs cat) h q sort skip limit =
      Txn.find sch { catalog := cat, dirty := d } h q sort skip limit := by
  unfold findDocs Txn.find
  cases h.validate true with
  | error e => rfl
  | ok _ =>
    simp only [abs_get? cat hne]
    cases hg : cat.get? h with
    | none => rfl
    | some c =>
      have hne' := queryOk_noMatchError hne hq
      rw [ensureNs_some hg] at hne'
      have := select_abs c q sort skip limit (okDB_docsOk ok (get?_some hg) hne) hne'
      simp only [Option.map_some, Coll.find]
      rw [← this]
      cases selectDocs sch c q sort skip limit <;> rfl

theorem commit_clean (s : Sys) (nu : Nu) :
    (s.commit { catalog := s.catalog } nu).catalog = s.catalog := by
  simp [Sys.commit]

/-! ### the read calls -/

theorem refines_find (s : Sys) (h : Handle) (q : Doc) (o : FindOpts) (oids : List V)
    (hne : h ≠ oplogHandle) (ok : OkDB (abs s.catalog)) (hq : QueryOk sch (abs s.catalog) h q) :
    Refines sch s (.find h q o) oids := by
  unfold Refines Sys.step
  simp only [Spec.step, runCall, findDocs_abs hne q o.sort o.skip o.limit ok hq false]
  cases Txn.find sch { catalog := s.catalog } h q o.sort o.skip o.limit with
  | error e => rfl
  | ok l =>
    simp only
    cases projList sch o.proj l with
    | error e => rfl
    | ok l' => simp [Except.map, commit_clean]

theorem refines_findOne (s : Sys) (h : Handle) (q : Doc) (o : FindOpts) (oids : List V)
    (hne : h ≠ oplogHandle) (ok : OkDB (abs s.catalog)) (hq : QueryOk sch (abs s.catalog) h q) :
    Refines sch s (.findOne h q o) oids := by
  unfold Refines Sys.step
  simp only [Spec.step, runCall, findDocs_abs hne q o.sort o.skip 1 ok hq false]
  cases Txn.find sch { catalog := s.catalog } h q o.sort o.skip 1 with
  | error e => rfl
  | ok l =>
    cases l with
    | nil => simp [Except.map, commit_clean]
    | cons x r =>
      simp only
      cases projList sch o.proj (x :: r) with
      | error e => rfl
      | ok l' => simp [Except.map, commit_clean]

theorem refines_count (s : Sys) (h : Handle) (q : Doc) (skip limit : Int) (oids : List V)
    (hne : h ≠ oplogHandle) (ok : OkDB (abs s.catalog)) (hq : QueryOk sch (abs s.catalog) h q) :
    Refines sch s (.count h q skip limit) oids := by
  unfold Refines Sys.step
  simp only [Spec.step, runCall, findDocs_abs hne q none skip limit ok hq false]
  cases Txn.find sch { catalog := s.catalog } h q none skip limit with
  | error e => rfl
  | ok l => simp [Except.map, commit_clean]

theorem refines_distinct (s : Sys) (h : Handle) (field : String) (q : Doc) (oids : List V)
    (hne : h ≠ oplogHandle) (ok : OkDB (abs s.catalog)) (hq : QueryOk sch (abs s.catalog) h q) :
    Refines sch s (.distinct h field q) oids := by
  unfold Refines Sys.step
  simp only [Spec.step, runCall, findDocs_abs hne q none 0 0 ok hq false]
  cases Txn.find sch { catalog := s.catalog } h q none 0 0 with
  | error e => rfl
  | ok l => simp [Except.map, commit_clean]

theorem refines_estCount (s : Sys) (h : Handle) (oids : List V) (hne : h ≠ oplogHandle) :
    Refines sch s (.estCount h) oids := by
  unfold Refines Sys.step
  simp only [Spec.step, runCall, Txn.count]
  cases h.validate true with
  | error e => rfl
  | ok _ =>
    simp only [abs_get? s.catalog hne, Except.map, commit_clean]
    cases s.catalog.get? h <;> simp [absC]

theorem indexSpecDoc_eq (n : String) (i : Index) :
    indexSpecDoc n i.config =
      ([("v", V.i32 2), ("key", .doc i.config.key), ("name", .str n)] : Doc) ++
      (if i.config.unique && n != "_id_" then [("unique", .bool true)] else []) ++
      (match i.config.partialF with
       | some p => [("partialFilterExpression", V.doc p)]
       | none => []) ++
      (if i.config.expiry > 0 then [("expireAfterSeconds", .i32 (wrap32 (i.config.expiry / 1000000000)))] else []) := rfl

theorem refines_listIndexes (s : Sys) (h : Handle) (oids : List V) (hne : h ≠ oplogHandle) :
    Refines sch s (.listIndexes h) oids := by
  unfold Refines Sys.step
  simp only [Spec.step, runCall, Txn.listIndexes]
  cases h.validate true with
  | error e => rfl
  | ok _ =>
    simp only [abs_get? s.catalog hne]
    cases s.catalog.get? h with
    | none => simp [Except.map, commit_clean]
    | some c =>
      simp only [Option.map_some, Except.map, commit_clean, absC, shape, List.map_map, byName]
      rfl

/-! ### listings -/

theorem collectionInfos_abs (cat : Catalog) (db : String) :
    ((abs cat).colls.filter (·.1.db == db)).map (fun p => collectionInfo p.1) = listCollectionDocs cat db := by
  simp only [abs, listCollectionDocs, List.filter_map, List.map_map]
  rfl

theorem refines_listCollections (s : Sys) (db : String) (q : Doc) (oids : List V) :
    Refines sch s (.listCollections db q) oids := by
  unfold Refines Sys.step
  simp only [Spec.step, runCall]
  cases (Handle.mk db "").validate false with
  | error e => rfl
  | ok _ =>
    have := collectionInfos_abs s.catalog db
    simp only at this ⊢
    rw [this]
    cases filterPlain sch q (listCollectionDocs s.catalog db) with
    | error e => rfl
    | ok l => simp [Except.map, commit_clean, byName]

theorem all_congr_mem {α} {p q : α → Bool} : ∀ {l : List α}, (∀ x ∈ l, p x = q x) → l.all p = l.all q
  | [], _ => rfl
  | a :: r, h => by
    simp only [List.all_cons, h a (by simp)]
    rw [all_congr_mem (fun x hx => h x (List.mem_cons_of_mem _ hx))]

theorem isEmptyColl_abs (cat : Catalog) (name : String) :
    ((abs cat).colls.filter (·.1.db == name)).all (fun p => (abs cat).isEmptyColl p.1 p.2) =
      (cat.namespaces.filter (·.1.db == name)).all (fun p => p.2.docs.isEmpty) := by
  -- the oplog entries are "empty" iff nothing is logged, i.e. iff every oplog entry is empty
  by_cases hlog : (abs cat).logged = true
  · -- some oplog entry is non-empty
    have hl := hlog
    simp only [abs, List.any_eq_true] at hl
    obtain ⟨⟨a, b⟩, hm, hp⟩ := hl
    simp only [Bool.and_eq_true, beq_iff_eq, Bool.not_eq_true'] at hp
    obtain ⟨rfl, hb⟩ := hp
    by_cases hn : name = "local"
    · subst hn
      have l1 : ((abs cat).colls.filter (·.1.db == "local")).all (fun p => (abs cat).isEmptyColl p.1 p.2) = false := by
        apply List.all_eq_false.mpr
        refine ⟨absNs (oplogHandle, b), ?_, ?_⟩
        · simp only [List.mem_filter, abs, List.mem_map]
          exact ⟨⟨(oplogHandle, b), hm, rfl⟩, by simp [absNs, oplogHandle]⟩
        · simp [SeqDB.isEmptyColl, absNs, hlog]
      have l2 : (cat.namespaces.filter (·.1.db == "local")).all (fun p => p.2.docs.isEmpty) = false := by
        apply List.all_eq_false.mpr
        exact ⟨(oplogHandle, b), List.mem_filter.mpr ⟨hm, by simp [oplogHandle]⟩, by simp [hb]⟩
      rw [l1, l2]
    · simp only [abs, List.filter_map, List.all_map]
      apply all_congr_mem
      rintro ⟨a, b'⟩ hab
      have : a.db = name := by simpa [List.mem_filter, Function.comp, absNs] using (List.mem_filter.mp hab).2
      have hao : (a == oplogHandle) = false := by
        simp only [beq_eq_false_iff_ne, ne_eq]
        rintro rfl
        exact hn (by rw [← this]; rfl)
      have hao' : a ≠ oplogHandle := by simpa using hao
      simp [SeqDB.isEmptyColl, absNs, hao, hao', absC]
  · have hlog' : (abs cat).logged = false := by simpa using hlog
    have hl := hlog'
    simp only [abs, List.any_eq_false] at hl
    simp only [abs, List.filter_map, List.all_map]
    apply all_congr_mem
    rintro ⟨a, b'⟩ hab
    have hm : (a, b') ∈ cat.namespaces := (List.mem_filter.mp hab).1
    by_cases hao : a == oplogHandle
    · have := hl (a, b') hm
      simp only [hao, Bool.true_and, Bool.not_eq_true, Bool.not_eq_false'] at this
      have e : a = oplogHandle := by simpa using hao
      subst e
      simp only [Function.comp, SeqDB.isEmptyColl, absNs, beq_self_eq_true, ↓reduceIte, this]
      have : (abs cat).logged = false := hlog'
      simp only [abs] at this
      simp [this]
    · simp [Function.comp, SeqDB.isEmptyColl, absNs, hao, absC]

theorem databaseInfos_abs (cat : Catalog) : databaseInfos (abs cat) = listDatabaseDocs cat := by
  unfold databaseInfos listDatabaseDocs
  have h1 : (abs cat).colls.map (·.1.db) = cat.namespaces.map (·.1.db) := by
    simp only [abs, List.map_map]; rfl
  rw [h1]
  apply List.map_congr_left
  intro name _
  have := isEmptyColl_abs cat name
  simp only at this ⊢
  rw [this]

theorem refines_listDatabases (s : Sys) (q : Doc) (oids : List V) :
    Refines sch s (.listDatabases q) oids := by
  unfold Refines Sys.step
  simp only [Spec.step, runCall, databaseInfos_abs]
  cases filterPlain sch q (listDatabaseDocs s.catalog) with
  | error e => rfl
  | ok l => simp [Except.map, commit_clean, byName]

end Lungo.SeqRef
