/-
  Lungo.Proofs.OplogLaws — helper lemmas for C08 (change log) and C19 (TTL expiry):
  the retention decision of Transaction.Clean, catalog get/set algebra, the oplog invariant.
-/
import Lungo.Model.Api
import Lungo.Proofs.CompareLaws
namespace Lungo

/-! ## Part 1 — retention (Transaction.Clean) -/

/-- the timestamp `(T, I)` of an event: the value at `_id.ts`, if it is a timestamp. -/
def eventTs (d : Doc) : Option (Nat × Nat) :=
  match getP d tsPath with
  | .ts t i => some (t, i)
  | _ => none

/-- the events of a transaction's catalog, oldest first -/
def Catalog.oplog (c : Catalog) : List SDoc := ((c.get? oplogHandle).getD (newColl false)).docs

def Txn.oplog (t : Txn) : List SDoc := t.catalog.oplog

/-- `a < b` on timestamps (primitive.CompareTimestamp = -1) -/
def tsLt (a b : Nat × Nat) : Bool := cmpTs a.1 a.2 b.1 b.2 == .lt

/-- `a ≤ b` on timestamps -/
def tsLe (a b : Nat × Nat) : Prop := a.1 < b.1 ∨ (a.1 = b.1 ∧ a.2 ≤ b.2)

theorem tsLt_iff (a b : Nat × Nat) : tsLt a b = true ↔ a.1 < b.1 ∨ (a.1 = b.1 ∧ a.2 < b.2) := by
  unfold tsLt cmpTs
  by_cases h1 : a.1 > b.1
  · simp [h1]; omega
  · by_cases h2 : a.1 < b.1
    · simp [h1, h2]
    · by_cases h3 : a.2 > b.2
      · simp [h1, h2, h3]; omega
      · by_cases h4 : a.2 < b.2
        · simp [h1, h2, h3, h4]; omega
        · simp [h1, h2, h3, h4]

/-- `<` is downward closed along `≤` -/
theorem tsLt_of_le_of_lt {a b c : Nat × Nat} (h : tsLe a b) (h2 : tsLt b c = true) : tsLt a c = true := by
  rw [tsLt_iff] at *
  unfold tsLe at h
  omega

/-- nothing is below `(T, 0)` within the same second -/
theorem tsLt_zero (a : Nat × Nat) (t : Nat) : tsLt a (t, 0) = true ↔ a.1 < t := by
  rw [tsLt_iff]; simp

/-- The drop condition of Clean for the event at index `i` with timestamp `ts` in a log of `n` events:
    * `afterMin` ("willing"): `i < n − minSize` (not one of the `minSize` newest) and, unless
      `minAge == 0`, `ts < (minT, 0)` (older than the minimum age);
    * `beyondMax` ("forced"): `i < n − maxSize` (more than `maxSize` events from the end, i.e. beyond
      the maximum size) or `ts < (maxT, now.I)` (older than the maximum age). -/
def droppable (n : Nat) (minSize maxSize : Int) (minAgeZero : Bool) (minT maxT nowI : Nat)
    (i : Nat) (ts : Nat × Nat) : Bool :=
  ((i : Int) < (n : Int) - minSize && (minAgeZero || tsLt ts (minT, 0))) &&
  ((i : Int) < (n : Int) - maxSize || tsLt ts (maxT, nowI))

/-- number of leading elements satisfying an indexed predicate -/
def leading {α} (p : Nat → α → Bool) : Nat → List α → Nat
  | _, [] => 0
  | i, a :: r => if p i a then 1 + leading p (i + 1) r else 0

theorem leading_le {α} (p : Nat → α → Bool) (i : Nat) (l : List α) : leading p i l ≤ l.length := by
  induction l generalizing i with
  | nil => simp [leading]
  | cons a r ih =>
    simp only [leading, List.length_cons]
    split
    · have := ih (i + 1); omega
    · omega

/-- every element of the counted prefix satisfies the predicate -/
theorem leading_spec {α} (p : Nat → α → Bool) (i : Nat) (l : List α) (j : Nat) (hj : j < leading p i l) :
    ∃ a, l[j]? = some a ∧ p (i + j) a = true := by
  induction l generalizing i j with
  | nil => simp [leading] at hj
  | cons a r ih =>
    simp only [leading] at hj
    split at hj
    · rename_i hp
      cases j with
      | zero => exact ⟨a, by simp, by simpa using hp⟩
      | succ j =>
        obtain ⟨b, hb, hpb⟩ := ih (i + 1) j (by omega)
        refine ⟨b, by simpa using hb, ?_⟩
        have : i + (j + 1) = i + 1 + j := by omega
        rw [this]; exact hpb
    · omega

/-- the element just after the counted prefix (if any) fails the predicate -/
theorem leading_stop {α} (p : Nat → α → Bool) (i : Nat) (l : List α) (h : leading p i l < l.length) :
    ∃ a, l[leading p i l]? = some a ∧ p (i + leading p i l) a = false := by
  induction l generalizing i with
  | nil => simp at h
  | cons a r ih =>
    simp only [leading] at h ⊢
    split
    · rename_i hp
      rw [if_pos hp] at h
      simp only [List.length_cons] at h
      obtain ⟨b, hb, hpb⟩ := ih (i + 1) (by omega)
      refine ⟨b, ?_, ?_⟩
      · rw [Nat.add_comm 1, List.getElem?_cons_succ]; exact hb
      · have : i + (1 + leading p (i + 1) r) = i + 1 + leading p (i + 1) r := by omega
        rw [this]; exact hpb
    · rename_i hp
      exact ⟨a, by simp, by simpa using hp⟩

theorem cleanCount_go_eq (minAgeZero : Bool) (nowI : Nat) (n : Nat) (minSize maxSize : Int) (minT maxT : Nat)
    (i : Nat) (l : List (Nat × Nat)) :
    cleanCount.go minAgeZero nowI ((n : Int) - minSize) ((n : Int) - maxSize) minT maxT i l
      = leading (droppable n minSize maxSize minAgeZero minT maxT nowI) i l := by
  induction l generalizing i with
  | nil => simp [cleanCount.go, leading]
  | cons a r ih =>
    obtain ⟨tT, tI⟩ := a
    simp only [cleanCount.go, leading, droppable, tsLt, ih]
    rfl

/-- `cleanCount` is the number of leading droppable events. -/
theorem cleanCount_eq (L : List (Nat × Nat)) (minSize maxSize : Int) (minAgeS maxAgeS : Nat)
    (minAgeZero : Bool) (nowT nowI : Nat) :
    cleanCount L minSize maxSize minAgeS maxAgeS minAgeZero nowT nowI
      = leading (droppable L.length minSize maxSize minAgeZero (cutoffT nowT minAgeS) (cutoffT nowT maxAgeS) nowI) 0 L := by
  unfold cleanCount
  exact cleanCount_go_eq ..

/-- the loop of the model's `Txn.clean` on documents agrees with `cleanCount` on their timestamps -/
theorem cleanDropped_eq (n : Nat) (minSize maxSize : Int) (minAgeZero : Bool) (minT maxT nowI : Nat)
    (i : Nat) (docs : List SDoc) (L : List (Nat × Nat))
    (hts : docs.map (fun sd => eventTs sd.doc) = L.map some) :
    cleanDropped ((n : Int) - minSize) ((n : Int) - maxSize) minAgeZero minT maxT nowI i docs
      = leading (droppable n minSize maxSize minAgeZero minT maxT nowI) i L := by
  induction docs generalizing i L with
  | nil =>
    cases L with
    | nil => simp [cleanDropped, leading]
    | cons _ _ => simp at hts
  | cons sd r ih =>
    cases L with
    | nil => simp at hts
    | cons a L =>
      simp only [List.map_cons, List.cons.injEq] at hts
      obtain ⟨h1, h2⟩ := hts
      have hv : getP sd.doc tsPath = .ts a.1 a.2 := by
        unfold eventTs at h1
        split at h1
        · rename_i t i' heq; simp at h1; rw [heq, ← h1]
        · simp at h1
      simp only [cleanDropped, leading, droppable, tsLt, hv, V.cmp_ts, tsCmp, ih (i + 1) L h2]
      rfl

theorem cutoffT_nowrap (nowT ageS : Nat) (h1 : ageS ≤ nowT) (h2 : nowT < 4294967296) :
    cutoffT nowT ageS = nowT - ageS := by
  unfold cutoffT
  omega

/-- the drop condition is antitone in the index and in the timestamp -/
theorem droppable_antitone (n : Nat) (minSize maxSize : Int) (z : Bool) (minT maxT nowI : Nat)
    {i i' : Nat} {ts ts' : Nat × Nat} (hi : i ≤ i') (hts : tsLe ts ts')
    (h : droppable n minSize maxSize z minT maxT nowI i' ts' = true) :
    droppable n minSize maxSize z minT maxT nowI i ts = true := by
  unfold droppable at *
  simp only [Bool.and_eq_true, Bool.or_eq_true, decide_eq_true_eq] at *
  obtain ⟨⟨h1, h2⟩, h3⟩ := h
  refine ⟨⟨by omega, ?_⟩, ?_⟩
  · rcases h2 with h2 | h2
    · exact .inl h2
    · exact .inr (tsLt_of_le_of_lt hts h2)
  · rcases h3 with h3 | h3
    · exact .inl (by omega)
    · exact .inr (tsLt_of_le_of_lt hts h3)

theorem tsLe_refl (a : Nat × Nat) : tsLe a a := .inr ⟨rfl, Nat.le_refl _⟩

/-- non-decreasing timestamps, index form -/
theorem sorted_get {L : List (Nat × Nat)} (hs : L.Pairwise tsLe) {j j' : Nat} {a b : Nat × Nat}
    (ha : L[j]? = some a) (hb : L[j']? = some b) (hjj : j ≤ j') : tsLe a b := by
  by_cases e : j = j'
  · subst e; rw [ha] at hb; cases hb; exact tsLe_refl a
  · rw [List.pairwise_iff_getElem] at hs
    obtain ⟨hj, rfl⟩ := List.getElem?_eq_some_iff.mp ha
    obtain ⟨hj', rfl⟩ := List.getElem?_eq_some_iff.mp hb
    exact hs j j' hj hj' (by omega)

/-! ### Catalog get/set algebra -/

theorem nsFind_map_self (l : List (Handle × Coll)) (h : Handle) (x : Coll)
    (hany : l.any (fun a => a.1 == h) = true) :
    ((l.map fun (a : Handle × Coll) => if a.1 == h then (a.1, x) else (a.1, a.2)).find? (fun a => a.1 == h)).map (·.2)
      = some x := by
  induction l with
  | nil => simp at hany
  | cons a r ih =>
    simp only [List.map_cons, List.find?_cons]
    by_cases hh : (a.1 == h) = true
    · simp [hh]
    · simp only [List.any_cons, hh, Bool.false_or] at hany
      simp only [hh, Bool.false_eq_true, ↓reduceIte]
      exact ih hany

theorem nsFind_map_other (l : List (Handle × Coll)) (h h' : Handle) (x : Coll) (hne : h' ≠ h) :
    ((l.map fun (a : Handle × Coll) => if a.1 == h then (a.1, x) else (a.1, a.2)).find? (fun a => a.1 == h')).map (·.2)
      = (l.find? (fun a => a.1 == h')).map (·.2) := by
  induction l with
  | nil => rfl
  | cons a r ih =>
    simp only [List.map_cons, List.find?_cons]
    by_cases hg : (a.1 == h) = true
    · have e : a.1 = h := by simpa using hg
      have hne' : (a.1 == h') = false := by
        rw [e]; simp; exact fun e => hne e.symm
      simp only [hg, ↓reduceIte, hne']
      exact ih
    · simp only [hg, Bool.false_eq_true, ↓reduceIte]
      by_cases hg' : (a.1 == h') = true
      · simp [hg']
      · simp only [hg']
        exact ih

theorem Catalog.get?_set_self (c : Catalog) (h : Handle) (x : Coll) : (c.set h x).get? h = some x := by
  unfold Catalog.set Catalog.get?
  split
  · rename_i hany
    exact nsFind_map_self c.namespaces h x hany
  · rename_i hany
    simp only [List.find?_append]
    have : c.namespaces.find? (fun x => x.1 == h) = none := by
      rw [List.find?_eq_none]
      intro a ha
      simp only [List.any_eq_true, not_exists, not_and] at hany
      exact hany a ha
    simp [this]

theorem Catalog.get?_set_other (c : Catalog) (h h' : Handle) (x : Coll) (hne : h' ≠ h) :
    (c.set h x).get? h' = c.get? h' := by
  unfold Catalog.set Catalog.get?
  split
  · exact nsFind_map_other c.namespaces h h' x hne
  · simp only [List.find?_append]
    have : ((h, x).1 == h') = false := by simp; exact fun e => hne e.symm
    cases hf : c.namespaces.find? (fun x => x.1 == h') with
    | some _ => simp
    | none => simp [this]

theorem Catalog.oplog_set (c : Catalog) (x : Coll) : (c.set oplogHandle x).oplog = x.docs := by
  unfold Catalog.oplog
  rw [Catalog.get?_set_self]; rfl

/-! ## Part 2 — appending events -/

theorem Catalog.get?_clock (c : Catalog) (k : Nat) (h : Handle) : ({ c with clock := k } : Catalog).get? h = c.get? h := rfl

theorem Catalog.oplog_clock (c : Catalog) (k : Nat) : ({ c with clock := k } : Catalog).oplog = c.oplog := rfl

/-- what `Transaction.append` is called with -/
structure EvSpec where
  h : Handle
  op : String
  doc : Option Doc
  changes : Option (List (String × V))

def appendEv (cn : Catalog × Nu) (e : EvSpec) : Catalog × Nu := appendOplog cn.1 cn.2 e.h e.op e.doc e.changes

def appendEvs (cn : Catalog × Nu) (es : List EvSpec) : Catalog × Nu := es.foldl appendEv cn

/-- the event documents produced by appending `es` when the clock stands at `clock` -/
def evDocs : Nat → List EvSpec → List Doc
  | _, [] => []
  | clock, e :: r => oplogEvent (clock + 1) e.h e.op e.doc e.changes :: evDocs (clock + 1) r

theorem evDocs_length (k : Nat) (es : List EvSpec) : (evDocs k es).length = es.length := by
  induction es generalizing k with
  | nil => rfl
  | cons e r ih => simp [evDocs, ih]

theorem evDocs_append (k : Nat) (es fs : List EvSpec) :
    evDocs k (es ++ fs) = evDocs k es ++ evDocs (k + es.length) fs := by
  induction es generalizing k with
  | nil => simp [evDocs]
  | cons e r ih =>
    simp only [List.cons_append, evDocs, ih, List.length_cons]
    have : k + 1 + r.length = k + (r.length + 1) := by omega
    rw [this]

theorem appendOplog_get_other (c : Catalog) (nu : Nu) (h : Handle) (op : String) (doc : Option Doc)
    (ch : Option (List (String × V))) (h' : Handle) (hne : h' ≠ oplogHandle) :
    (appendOplog c nu h op doc ch).1.get? h' = c.get? h' := by
  unfold appendOplog
  simp only [Nu.fresh]
  rw [Catalog.get?_clock, Catalog.get?_set_other _ _ _ _ hne]

theorem appendOplog_oplog (c : Catalog) (nu : Nu) (h : Handle) (op : String) (doc : Option Doc)
    (ch : Option (List (String × V))) :
    (appendOplog c nu h op doc ch).1.oplog
      = c.oplog ++ [{ id := nu.nextId, doc := oplogEvent (c.clock + 1) h op doc ch }] := by
  unfold appendOplog
  simp only [Nu.fresh]
  rw [Catalog.oplog_clock, Catalog.oplog_set]
  rfl

theorem appendOplog_clock (c : Catalog) (nu : Nu) (h : Handle) (op : String) (doc : Option Doc)
    (ch : Option (List (String × V))) : (appendOplog c nu h op doc ch).1.clock = c.clock + 1 := rfl

theorem appendOplog_nu (c : Catalog) (nu : Nu) (h : Handle) (op : String) (doc : Option Doc)
    (ch : Option (List (String × V))) :
    (appendOplog c nu h op doc ch).2 = { nu with nextId := nu.nextId + 1 } := rfl

theorem appendEvs_get_other (cn : Catalog × Nu) (es : List EvSpec) (h' : Handle) (hne : h' ≠ oplogHandle) :
    (appendEvs cn es).1.get? h' = cn.1.get? h' := by
  induction es generalizing cn with
  | nil => rfl
  | cons e r ih =>
    simp only [appendEvs, List.foldl_cons] at ih ⊢
    rw [ih (appendEv cn e)]
    exact appendOplog_get_other _ _ _ _ _ _ _ hne

theorem appendEvs_clock (cn : Catalog × Nu) (es : List EvSpec) :
    (appendEvs cn es).1.clock = cn.1.clock + es.length := by
  induction es generalizing cn with
  | nil => rfl
  | cons e r ih =>
    simp only [appendEvs, List.foldl_cons, List.length_cons] at ih ⊢
    rw [ih (appendEv cn e)]
    simp only [appendEv, appendOplog_clock]
    omega

theorem appendEvs_oplog (cn : Catalog × Nu) (es : List EvSpec) :
    (appendEvs cn es).1.oplog.map (·.doc) = cn.1.oplog.map (·.doc) ++ evDocs cn.1.clock es := by
  induction es generalizing cn with
  | nil => simp [appendEvs, evDocs]
  | cons e r ih =>
    simp only [appendEvs, List.foldl_cons] at ih ⊢
    rw [ih (appendEv cn e)]
    simp only [appendEv, appendOplog_oplog, appendOplog_clock, List.map_append, List.map_cons, List.map_nil,
      evDocs, List.append_assoc, List.cons_append, List.nil_append]

theorem appendEvs_nu (cn : Catalog × Nu) (es : List EvSpec) :
    (appendEvs cn es).2 = { cn.2 with nextId := cn.2.nextId + es.length } := by
  induction es generalizing cn with
  | nil => rfl
  | cons e r ih =>
    simp only [appendEvs, List.foldl_cons, List.length_cons] at ih ⊢
    rw [ih (appendEv cn e)]
    simp only [appendEv, appendOplog_nu]
    congr 1
    omega

/-- the `foldl` loops of the transaction methods are `appendEvs` over the mapped list -/
theorem foldl_appendOplog {α} (l : List α) (F : α → EvSpec) (cn : Catalog × Nu) :
    l.foldl (fun (cn : Catalog × Nu) a => appendOplog cn.1 cn.2 (F a).h (F a).op (F a).doc (F a).changes) cn
      = appendEvs cn (l.map F) := by
  unfold appendEvs
  rw [List.foldl_map]
  rfl

/-! ## Part 3 — every transaction method extends the oplog by appended events only -/

/-- the oplog namespace carries no TTL index (it is created with `NewCollection(false)` and
    `local.*` is read-only), so an expiry pass never deletes from it -/
def OplogPlain (cat : Catalog) : Prop :=
  ∀ hc ∈ cat.namespaces, hc.1 = oplogHandle → hc.2.indexes.filter (fun (_, i) => i.config.expiry > 0) = []

/-- `cat'` is `cat` with the events `es` appended to the oplog (clock advanced accordingly) -/
structure Ext (cat cat' : Catalog) (es : List EvSpec) : Prop where
  oplog : cat'.oplog.map (·.doc) = cat.oplog.map (·.doc) ++ evDocs cat.clock es
  clock : cat'.clock = cat.clock + es.length
  plain : OplogPlain cat → OplogPlain cat'

theorem Ext.refl (cat : Catalog) : Ext cat cat [] := ⟨by simp [evDocs], rfl, id⟩

theorem Ext.trans {a b c : Catalog} {es fs : List EvSpec} (h1 : Ext a b es) (h2 : Ext b c fs) : Ext a c (es ++ fs) :=
  ⟨by rw [h2.oplog, h1.oplog, evDocs_append, h1.clock, List.append_assoc],
   by rw [h2.clock, h1.clock, List.length_append]; omega,
   fun h => h2.plain (h1.plain h)⟩

theorem Catalog.mem_set {c : Catalog} {h : Handle} {x : Coll} {hc : Handle × Coll}
    (hm : hc ∈ (c.set h x).namespaces) : (hc ∈ c.namespaces ∧ hc.1 ≠ h) ∨ hc = (h, x) := by
  unfold Catalog.set at hm
  split at hm
  · simp only [List.mem_map] at hm
    obtain ⟨a, ha, rfl⟩ := hm
    by_cases e : (a.1 == h) = true
    · right
      have : a.1 = h := by simpa using e
      simp [this]
    · left
      simp only [e, Bool.false_eq_true, ↓reduceIte]
      exact ⟨ha, by simpa using e⟩
  · simp only [List.mem_append, List.mem_singleton] at hm
    rcases hm with hm | hm
    · left
      rename_i hany
      refine ⟨hm, ?_⟩
      intro e
      apply hany
      rw [List.any_eq_true]
      exact ⟨hc, hm, by simp [e]⟩
    · right; exact hm

theorem Catalog.get?_mem {c : Catalog} {h : Handle} {x : Coll} (hg : c.get? h = some x) : (h, x) ∈ c.namespaces := by
  unfold Catalog.get? at hg
  cases hf : c.namespaces.find? (fun a => a.1 == h) with
  | none => simp [hf] at hg
  | some a =>
    simp only [hf, Option.map_some, Option.some.injEq] at hg
    have h1 := List.mem_of_find?_eq_some hf
    have h2 := List.find?_some hf
    have : a.1 = h := by simpa using h2
    rw [← this, ← hg]
    exact h1

theorem Ext.set (cat : Catalog) (h : Handle) (x : Coll) (hne : h ≠ oplogHandle) : Ext cat (cat.set h x) [] := by
  refine ⟨?_, ?_, ?_⟩
  · unfold Catalog.oplog
    rw [Catalog.get?_set_other _ _ _ _ (Ne.symm hne)]
    simp [evDocs]
  · unfold Catalog.set
    split <;> rfl
  · intro hp hc hm ho
    rcases Catalog.mem_set hm with ⟨hm', _⟩ | rfl
    · exact hp hc hm' ho
    · exact absurd ho hne

theorem Ext.append (c : Catalog) (nu : Nu) (h : Handle) (op : String) (doc : Option Doc)
    (ch : Option (List (String × V))) : Ext c (appendOplog c nu h op doc ch).1 [⟨h, op, doc, ch⟩] := by
  refine ⟨?_, rfl, ?_⟩
  · rw [appendOplog_oplog]
    simp [evDocs]
  · intro hp hc hm ho
    unfold appendOplog at hm
    simp only [Nu.fresh] at hm
    change hc ∈ (c.set oplogHandle _).namespaces at hm
    rcases Catalog.mem_set hm with ⟨hm', _⟩ | rfl
    · exact hp hc hm' ho
    · simp only
      cases hg : c.get? oplogHandle with
      | none => simp [newColl]
      | some x => simpa using hp _ (Catalog.get?_mem hg) rfl

theorem Ext.appendEvs (cn : Catalog × Nu) (es : List EvSpec) : Ext cn.1 (appendEvs cn es).1 es := by
  induction es generalizing cn with
  | nil => exact Ext.refl _
  | cons e r ih =>
    have h1 : Ext cn.1 (appendEv cn e).1 [e] := Ext.append ..
    have h2 := ih (appendEv cn e)
    have := Ext.trans h1 h2
    simpa [Lungo.appendEvs] using this

theorem writable_not_oplog {h : Handle} {b : Bool} (hw : writable h b = .ok ()) : h ≠ oplogHandle := by
  unfold writable at hw
  split at hw
  · cases hw
  · split at hw
    · cases hw
    · rename_i hl
      intro e
      apply hl
      rw [e]
      rfl

theorem insertOne_ext {sch : SchemaEval} {cat cat' : Catalog} {h : Handle} {d d' : Doc} {nu nu' : Nu}
    (hno : h ≠ oplogHandle) (hr : insertOne sch cat h d nu = .ok (cat', d', nu')) :
    Ext cat cat' [⟨h, "insert", some d', none⟩] := by
  unfold insertOne at hr
  split at hr
  · cases hr
  · rename_i coll sd nu1 _
    simp only [Except.ok.injEq, Prod.mk.injEq] at hr
    obtain ⟨rfl, rfl, _⟩ := hr
    exact Ext.trans (Ext.set cat h coll hno) (Ext.append ..)

theorem replaceOp_ext {ac : ACtx} {cat cat' : Catalog} {h : Handle} {q repl : Doc} {sort : Option Doc}
    {upsert : Bool} {nu nu' : Nu} {res : TResult}
    (hno : h ≠ oplogHandle) (hr : replaceOp ac cat h q repl sort upsert nu = .ok (cat', res, nu')) :
    ∃ es, Ext cat cat' es := by
  unfold replaceOp at hr
  simp only at hr
  split at hr
  · cases hr
  · rename_i cres nu1 _
    split at hr
    · split at hr
      · cases hr
      · rename_i coll sd nu2 _
        simp only [Except.ok.injEq, Prod.mk.injEq] at hr
        obtain ⟨rfl, _, _⟩ := hr
        exact ⟨_, Ext.trans (Ext.set cat h coll hno) (Ext.append ..)⟩
    · simp only [Except.ok.injEq, Prod.mk.injEq] at hr
      obtain ⟨rfl, _, _⟩ := hr
      split
      · exact ⟨_, Ext.trans (Ext.set cat h _ hno) (Ext.append ..)⟩
      · exact ⟨_, Ext.set cat h _ hno⟩

theorem updateOp_ext {ac : ACtx} {cat cat' : Catalog} {h : Handle} {q u : Doc} {sort : Option Doc}
    {upsert : Bool} {skip limit : Int} {fs : List Doc} {nu nu' : Nu} {res : TResult}
    (hno : h ≠ oplogHandle) (hr : updateOp ac cat h q u sort upsert skip limit fs nu = .ok (cat', res, nu')) :
    ∃ es, Ext cat cat' es := by
  unfold updateOp at hr
  simp only at hr
  split at hr
  · cases hr
  · rename_i cres nu1 _
    split at hr
    · split at hr
      · cases hr
      · rename_i coll sd nu2 _
        simp only [Except.ok.injEq, Prod.mk.injEq] at hr
        obtain ⟨rfl, _, _⟩ := hr
        exact ⟨_, Ext.trans (Ext.set cat h coll hno) (Ext.append ..)⟩
    · simp only [Except.ok.injEq, Prod.mk.injEq] at hr
      obtain ⟨rfl, _, _⟩ := hr
      have hf := foldl_appendOplog (cres.modified.zip cres.changes)
        (fun mc => (⟨h, "update", some mc.1.doc, some mc.2⟩ : EvSpec)) (cat.set h cres.coll, nu1)
      simp only at hf
      exact ⟨_, Ext.trans (Ext.set cat h _ hno) (hf ▸ Ext.appendEvs ..)⟩

theorem deleteOp_ext {sch : SchemaEval} {cat cat' : Catalog} {h : Handle} {q : Doc} {sort : Option Doc}
    {skip limit : Int} {nu nu' : Nu} {res : TResult}
    (hno : h ≠ oplogHandle) (hr : deleteOp sch cat h q sort skip limit nu = .ok (cat', res, nu')) :
    ∃ es, Ext cat cat' es := by
  unfold deleteOp at hr
  simp only at hr
  split at hr
  · cases hr
  · rename_i coll list _
    simp only [Except.ok.injEq, Prod.mk.injEq] at hr
    obtain ⟨rfl, _, _⟩ := hr
    have hf := foldl_appendOplog list (fun sd => (⟨h, "delete", some sd.doc, none⟩ : EvSpec)) (cat.set h coll, nu)
    simp only at hf
    exact ⟨_, Ext.trans (Ext.set cat h _ hno) (hf ▸ Ext.appendEvs ..)⟩

/-- a transaction method either returns the transaction itself or a dirty one whose catalog is
    the old one with events appended -/
def TStep (t t' : Txn) : Prop := t' = t ∨ (t'.dirty = true ∧ ∃ es, Ext t.catalog t'.catalog es)

theorem ensure_base_ext (cat : Catalog) (h : Handle) (hno : h ≠ oplogHandle) :
    Ext cat (if (cat.get? h).isSome then cat else cat.set h (newColl true)) [] := by
  split
  · exact Ext.refl _
  · exact Ext.set _ _ _ hno

theorem insert_go_ext (sch : SchemaEval) (h : Handle) (ordered : Bool) (hno : h ≠ oplogHandle) (list : List Doc) :
    ∀ (cat : Catalog) (nu : Nu) (acc : List Doc) (err : Option Err),
      ∃ es, Ext cat (Txn.insert.go sch h ordered cat nu acc err list).1 es := by
  induction list with
  | nil => intro cat nu acc err; exact ⟨[], by simpa [Txn.insert.go] using Ext.refl cat⟩
  | cons d r ih =>
    intro cat nu acc err
    rw [Txn.insert.go]
    split
    · cases ordered
      · simp only [Bool.false_eq_true, ↓reduceIte]; exact ih ..
      · simp only [↓reduceIte]; exact ⟨[], Ext.refl cat⟩
    · rename_i cat1 d1 nu1 hins
      obtain ⟨es, he⟩ := ih cat1 nu1 (acc ++ [d1]) err
      exact ⟨_, Ext.trans (insertOne_ext hno hins) he⟩

theorem Txn.insert_step {sch : SchemaEval} {t t' : Txn} {h : Handle} {list : List Doc} {ordered : Bool}
    {nu nu' : Nu} {r : TResult} (hr : t.insert sch h list ordered nu = .ok (t', r, nu')) : TStep t t' := by
  unfold Txn.insert at hr
  split at hr
  · cases hr
  · rename_i hw
    have hno := writable_not_oplog hw
    simp only [Except.ok.injEq, Prod.mk.injEq] at hr
    obtain ⟨rfl, _, _⟩ := hr
    obtain ⟨es, he⟩ := insert_go_ext sch h ordered hno list
      (if (t.catalog.get? h).isSome then t.catalog else t.catalog.set h (newColl true)) nu [] none
    have hb := ensure_base_ext t.catalog h hno
    generalize Txn.insert.go sch h ordered
      (if (t.catalog.get? h).isSome then t.catalog else t.catalog.set h (newColl true)) nu [] none list = g at he ⊢
    by_cases hm : g.2.2.1.isEmpty = true
    · simp only [hm, ↓reduceIte]; exact .inl rfl
    · simp only [hm, Bool.false_eq_true, ↓reduceIte]
      exact .inr ⟨rfl, _, Ext.trans hb he⟩

theorem Txn.replace_step {ac : ACtx} {t t' : Txn} {h : Handle} {q repl : Doc} {sort : Option Doc} {upsert : Bool}
    {nu nu' : Nu} {r : TResult} (hr : t.replace ac h q sort repl upsert nu = .ok (t', r, nu')) : TStep t t' := by
  unfold Txn.replace at hr
  split at hr
  · cases hr
  · rename_i hw
    have hno := writable_not_oplog hw
    split at hr
    · simp only [Except.ok.injEq, Prod.mk.injEq] at hr; exact .inl hr.1.symm
    · split at hr
      · cases hr
      · rename_i cat res nu1 hop
        split at hr
        · simp only [Except.ok.injEq, Prod.mk.injEq] at hr
          obtain ⟨rfl, _, _⟩ := hr
          exact .inr ⟨rfl, replaceOp_ext hno hop⟩
        · simp only [Except.ok.injEq, Prod.mk.injEq] at hr; exact .inl hr.1.symm

theorem Txn.update_step {ac : ACtx} {t t' : Txn} {h : Handle} {q u : Doc} {sort : Option Doc} {upsert : Bool}
    {skip limit : Int} {fs : List Doc} {nu nu' : Nu} {r : TResult}
    (hr : t.update ac h q sort u skip limit upsert fs nu = .ok (t', r, nu')) : TStep t t' := by
  unfold Txn.update at hr
  split at hr
  · cases hr
  · rename_i hw
    have hno := writable_not_oplog hw
    split at hr
    · simp only [Except.ok.injEq, Prod.mk.injEq] at hr; exact .inl hr.1.symm
    · split at hr
      · cases hr
      · rename_i cat res nu1 hop
        split at hr
        · simp only [Except.ok.injEq, Prod.mk.injEq] at hr
          obtain ⟨rfl, _, _⟩ := hr
          exact .inr ⟨rfl, updateOp_ext hno hop⟩
        · simp only [Except.ok.injEq, Prod.mk.injEq] at hr; exact .inl hr.1.symm

theorem Txn.delete_step {sch : SchemaEval} {t t' : Txn} {h : Handle} {q : Doc} {sort : Option Doc}
    {skip limit : Int} {nu nu' : Nu} {r : TResult}
    (hr : t.delete sch h q sort skip limit nu = .ok (t', r, nu')) : TStep t t' := by
  unfold Txn.delete at hr
  split at hr
  · cases hr
  · rename_i hw
    have hno := writable_not_oplog hw
    split at hr
    · simp only [Except.ok.injEq, Prod.mk.injEq] at hr; exact .inl hr.1.symm
    · split at hr
      · cases hr
      · rename_i cat res nu1 hop
        split at hr
        · simp only [Except.ok.injEq, Prod.mk.injEq] at hr
          obtain ⟨rfl, _, _⟩ := hr
          exact .inr ⟨rfl, deleteOp_ext hno hop⟩
        · simp only [Except.ok.injEq, Prod.mk.injEq] at hr; exact .inl hr.1.symm

theorem bulk_go_ext (ac : ACtx) (h : Handle) (ordered : Bool) (hno : h ≠ oplogHandle) (ops : List Operation) :
    ∀ (cat : Catalog) (nu : Nu) (acc : List TResult) (changes : Nat),
      ∃ es, Ext cat (Txn.bulk.go ac h ordered cat nu acc changes ops).1 es := by
  induction ops with
  | nil => intro cat nu acc ch; exact ⟨[], by simpa [Txn.bulk.go] using Ext.refl cat⟩
  | cons op r ih =>
    intro cat nu acc ch
    rw [Txn.bulk.go]
    simp only
    split
    · cases ordered
      · simp only [Bool.false_eq_true, ↓reduceIte]; exact ih ..
      · simp only [↓reduceIte]; exact ⟨[], Ext.refl cat⟩
    · rename_i cat1 tr nu1 hres
      have h1 : ∃ es, Ext cat cat1 es := by
        split at hres
        · split at hres
          · cases hres
          · rename_i c d n hins
            simp only [Except.ok.injEq, Prod.mk.injEq] at hres
            obtain ⟨rfl, _, _⟩ := hres
            exact ⟨_, insertOne_ext hno hins⟩
        · exact replaceOp_ext hno hres
        · exact updateOp_ext hno hres
        · exact deleteOp_ext hno hres
      obtain ⟨es1, he1⟩ := h1
      obtain ⟨es, he⟩ := ih cat1 nu1 (acc ++ [tr]) (ch + (tr.modified.length + (if tr.upserted.isSome then 1 else if op.opcode == .delete then tr.matched.length else 0)))
      exact ⟨_, Ext.trans he1 he⟩

theorem Txn.bulk_step {ac : ACtx} {t t' : Txn} {h : Handle} {ops : List Operation} {ordered : Bool}
    {nu nu' : Nu} {r : List TResult} (hr : t.bulk ac h ops ordered nu = .ok (t', r, nu')) : TStep t t' := by
  unfold Txn.bulk at hr
  split at hr
  · cases hr
  · rename_i hw
    have hno := writable_not_oplog hw
    simp only [Except.ok.injEq, Prod.mk.injEq] at hr
    obtain ⟨rfl, _, _⟩ := hr
    obtain ⟨es, he⟩ := bulk_go_ext ac h ordered hno ops
      (if (t.catalog.get? h).isSome then t.catalog else t.catalog.set h (newColl true)) nu [] 0
    have hb := ensure_base_ext t.catalog h hno
    generalize Txn.bulk.go ac h ordered
      (if (t.catalog.get? h).isSome then t.catalog else t.catalog.set h (newColl true)) nu [] 0 ops = g at he ⊢
    by_cases hm : g.2.2.2 > 0
    · simp only [hm, ↓reduceIte]
      exact .inr ⟨rfl, _, Ext.trans hb he⟩
    · simp only [hm, ↓reduceIte]; exact .inl rfl

end Lungo
