/-
  Lungo.Proofs.AtomicWrite — phase-by-phase verification of the interpreted AtomicWriteFile program.
-/
import Lungo.Model.AtomicWrite
import Lungo.Expected.AtomicWrite
import Lungo.Proofs.FSOps
namespace Lungo.AtomicWrite
open Lungo.FS

/-- the adversary injects at most one fault -/
def AtMostOne (f : Faults) : Prop := ∀ i j, f i ≠ none → f j ≠ none → i = j

/-- `j` is the first faulted system call at or after `j0` -/
def FirstFault (f : Faults) (j0 j : Nat) : Prop := j0 ≤ j ∧ f j ≠ none ∧ ∀ i, j0 ≤ i → i < j → f i = none

/-- for every bound `k`: `G` holds at the cut, `P` holds if the run finished, and it finishes within `n` calls -/
def Tri (r : Nat → M × Bool) (n : Nat) (G P : M → Prop) : Prop :=
  ∀ k, G (r k).1 ∧ ((r k).2 = true → P (r k).1) ∧ (n ≤ k → (r k).2 = true)

theorem Tri.mono_n {r n n' G P} (h : Tri r n G P) (hn : n ≤ n') : Tri r n' G P :=
  fun k => ⟨(h k).1, (h k).2.1, fun hk => (h k).2.2 (Nat.le_trans hn hk)⟩

theorem Tri.mono_P {r n G P P'} (h : Tri r n G P) (hp : ∀ m, G m → P m → P' m) : Tri r n G P' :=
  fun k => ⟨(h k).1, fun hk => hp _ (h k).1 ((h k).2.1 hk), (h k).2.2⟩

section
variable (path tmp : Name) (f : Faults)

theorem execCall_err (c : Call) (ch : Bytes) (m : M) (ft : Fault) : (execCall path tmp c ch m ft).1.err = m.err := by
  cases c <;> simp only [execCall, withFile]
  · split <;> rfl
  all_goals (split <;> rfl)

theorem cleanup_tri (Q : M → Prop) (cl : List Call)
    (hQ : ∀ c ∈ cl, ∀ m ft, Q m → Q (execCall path tmp c [] m ft).1) :
    ∀ (m : M) (j : Nat), Q m → Tri (fun k => cleanupUpTo path tmp f k cl m j) cl.length Q Q := by
  induction cl with
  | nil => intro m j hm k; cases k <;> exact ⟨hm, fun _ => hm, fun _ => rfl⟩
  | cons c cl ih =>
    intro m j hm k
    cases k with
    | zero => exact ⟨hm, fun h => (by cases h), fun h => (by simp at h)⟩
    | succ k =>
      simp only [cleanupUpTo]
      have := ih (fun c hc => hQ c (List.mem_cons_of_mem _ hc)) (execCall path tmp c [] m (f j)).1 (j + 1)
        (hQ c List.mem_cons_self m (f j) hm) k
      exact ⟨this.1, this.2.1, fun h => this.2.2 (by simpa using h)⟩

/-- one main-line instruction -/
theorem tri_step {fin : List Call} {i : Instr} {rest : List Instr} {m : M} {j0 n : Nat} {G P : M → Prop}
    (hG : G m)
    (hp : proceeds i.onErr (execCall path tmp i.call i.chunk m (f j0)).2 = true →
      Tri (fun k => runUpTo path tmp f fin k rest (execCall path tmp i.call i.chunk m (f j0)).1 (j0 + 1)) n G P)
    (hf : proceeds i.onErr (execCall path tmp i.call i.chunk m (f j0)).2 = false →
      Tri (fun k => cleanupUpTo path tmp f k i.cleanup { (execCall path tmp i.call i.chunk m (f j0)).1 with err := true } (j0 + 1)) n G P) :
    Tri (fun k => runUpTo path tmp f fin k (i :: rest) m j0) (n + 1) G P := by
  intro k
  cases k with
  | zero => exact ⟨hG, fun h => (by cases h), fun h => (by simp at h)⟩
  | succ k =>
    simp only [runUpTo]
    cases hpr : proceeds i.onErr (execCall path tmp i.call i.chunk m (f j0)).2 with
    | true =>
      simp only [if_true]
      have := hp hpr k
      exact ⟨this.1, this.2.1, fun h => this.2.2 (by simpa using h)⟩
    | false =>
      simp only [Bool.false_eq_true, if_false]
      have := hf hpr k
      exact ⟨this.1, this.2.1, fun h => this.2.2 (by simpa using h)⟩

end
/-! ### the calls at machine level -/

def C1 : List Call := [.closeTmp, .removeTmp]
def C2 : List Call := [.closeDir, .closeTmp, .removeTmp]

section
variable {path tmp : Name} (hne : tmp ≠ path)
include hne

theorem exec_base_simple {X : Option Bytes → Prop} (c : Call) (hc : c ≠ .writeTmp ∧ c ≠ .renameTmpToPath)
    (ch : Bytes) (m : M) (ft : Fault) (hb : Base m.fs path X) : Base (execCall path tmp c ch m ft).1.fs path X := by
  cases c with
  | removeTmp => exact unlink_base hne _ hb
  | createExclTmp =>
    simp only [execCall]
    have := createExcl_base hne ft.isSome hb
    split <;> exact this
  | writeTmp => exact absurd rfl hc.1
  | fsyncTmp => simp only [execCall, withFile]; split; exact hb; exact fsync_base _ hb
  | closeTmp => simp only [execCall, withFile]; split; exact hb; exact close_base _ _ hb
  | renameTmpToPath => exact absurd rfl hc.2
  | openDir => exact openDir_base _ hb
  | fsyncDir => exact fsyncDir_base _ hb
  | closeDir => exact close_base _ _ hb

theorem exec_base_cleanup {X : Option Bytes → Prop} (c : Call) (hc : c ∈ C2)
    (m : M) (ft : Fault) (hb : Base m.fs path X) : Base (execCall path tmp c [] m ft).1.fs path X := by
  apply exec_base_simple hne c _ [] m ft hb
  simp only [C2, List.mem_cons, List.not_mem_nil, or_false] at hc
  rcases hc with h | h | h <;> subst h <;> exact ⟨(by decide), (by decide)⟩

omit hne in
theorem exec_gone_cleanup (c : Call) (hc : c ∈ C2) (m : M) (ft : Fault) (hg : m.fs.vdir tmp = none) :
    (execCall path tmp c [] m ft).1.fs.vdir tmp = none := by
  simp only [C2, List.mem_cons, List.not_mem_nil, or_false] at hc
  rcases hc with h | h | h <;> subst h
  · simp only [execCall, close]; split <;> exact hg
  · simp only [execCall, withFile, close]; split; exact hg; split <;> exact hg
  · simp only [execCall, unlink]; split; exact hg; split; exact hg; simp [Dir.set]

omit hne in
theorem exec_removeTmp_gone (m : M) : (execCall path tmp .removeTmp [] m none).1.fs.vdir tmp = none := by
  simp only [execCall, unlink, Option.isSome_none, Bool.false_eq_true, if_false]
  split
  · assumption
  · simp [Dir.set]

omit hne in
theorem cleanup_snoc_gone (f : Faults) (cl : List Call) (hcl : ∀ c ∈ cl, c ∈ C2) :
    ∀ (m : M) (j k : Nat), (∀ i, j ≤ i → f i = none) →
      (cleanupUpTo path tmp f k (cl ++ [.removeTmp]) m j).2 = true →
      (cleanupUpTo path tmp f k (cl ++ [.removeTmp]) m j).1.fs.vdir tmp = none := by
  induction cl with
  | nil =>
    intro m j k hf hk
    cases k with
    | zero => simp [cleanupUpTo] at hk
    | succ k =>
      simp only [List.nil_append, cleanupUpTo, hf j (Nat.le_refl _)]
      cases k <;> exact exec_removeTmp_gone m
  | cons c cl ih =>
    intro m j k hf hk
    cases k with
    | zero => simp [cleanupUpTo] at hk
    | succ k =>
      simp only [List.cons_append, cleanupUpTo] at hk ⊢
      exact ih (fun c hc => hcl c (List.mem_cons_of_mem _ hc)) _ (j + 1) k (fun i hi => hf i (by omega)) hk

end

/-! ### the post-condition of a finished run -/

section
variable (path tmp : Name) (f : Faults) (A₀ : Option Bytes → Prop) (new : Bytes)

structure Post (gp : Prop) (j0 nMain nBefore : Nat) (m : M) : Prop where
  ok : m.err = false → PathInv m.fs path (· = some new) ∧ m.fs.vdir tmp = none
  clean : (∀ i, j0 ≤ i → f i = none) → m.err = false
  fault : ∀ j, FirstFault f j0 j → j < j0 + nMain → m.err = true ∧ (j < j0 + nBefore → PathInv m.fs path A₀)
  gone : AtMostOne f → gp → m.fs.vdir tmp = none

variable {path tmp f A₀ new}

theorem Post.shift {gp gp' : Prop} {j0 nm nb nb' : Nat} {m : M} (hf : f j0 = none) (hnb : nb' ≤ nb + 1) (hgp : gp' → gp)
    (h : Post path tmp f A₀ new gp (j0 + 1) nm nb m) : Post path tmp f A₀ new gp' j0 (nm + 1) nb' m where
  ok := h.ok
  clean := fun hc => h.clean (fun i hi => hc i (by omega))
  fault := by
    intro j ⟨hj, hfj, hfirst⟩ hlt
    have hne : j ≠ j0 := by intro e; subst e; exact hfj hf
    have := h.fault j ⟨by omega, hfj, fun i hi hij => hfirst i (by omega) hij⟩ (by omega)
    exact ⟨this.1, fun hh => this.2 (by omega)⟩
  gone := fun ha hg => h.gone ha (hgp hg)

theorem Post.of_fail {gp : Prop} {j0 nm nb : Nat} {m : M} (hf : f j0 ≠ none) (herr : m.err = true)
    (hinv : 0 < nb → PathInv m.fs path A₀) (hgone : AtMostOne f → gp → m.fs.vdir tmp = none) :
    Post path tmp f A₀ new gp j0 nm nb m where
  ok := by intro h; rw [herr] at h; cases h
  clean := fun hc => absurd (hc j0 (Nat.le_refl _)) hf
  fault := by
    intro j ⟨hj, _, hfirst⟩ _
    have : j = j0 := by
      rcases Nat.lt_or_ge j0 j with h | h
      · exact absurd (hfirst j0 (Nat.le_refl _) h) hf
      · omega
    subst this
    exact ⟨herr, fun hh => hinv (by omega)⟩
  gone := hgone

end

/-! ### failure exit: the deferred calls run from a state that still satisfies the invariants -/

section
variable {path tmp : Name} (hne : tmp ≠ path) {f : Faults} {A₀ A : Option Bytes → Prop} {new : Bytes}
include hne

theorem fail_tri {gp : Prop} {j0 nm nb : Nat} (cl : List Call) (m : M)
    (hcl : ∀ c ∈ cl, c ∈ C2) (hshape : cl = [] ∨ ∃ pre, cl = pre ++ [.removeTmp]) (hlen : cl.length ≤ 3)
    (hf : f j0 ≠ none) (hb : Base m.fs path A) (herr : m.err = true)
    (hinv : 0 < nb → Base m.fs path A₀)
    (hgone : cl = [] → gp → m.fs.vdir tmp = none) :
    Tri (fun k => cleanupUpTo path tmp f k cl m (j0 + 1)) 3 (fun m => Base m.fs path A)
      (Post path tmp f A₀ new gp j0 nm nb) := by
  let Q : M → Prop := fun m => Base m.fs path A ∧ m.err = true ∧ (0 < nb → Base m.fs path A₀) ∧ (cl = [] → gp → m.fs.vdir tmp = none)
  have hQ : ∀ c ∈ cl, ∀ m ft, Q m → Q (execCall path tmp c [] m ft).1 := by
    intro c hc m ft ⟨h1, h2, h3, _⟩
    refine ⟨exec_base_cleanup hne c (hcl c hc) m ft h1, by rw [execCall_err]; exact h2,
      fun h => exec_base_cleanup hne c (hcl c hc) m ft (h3 h), ?_⟩
    intro e; subst e; cases hc
  intro k
  have t := cleanup_tri path tmp f Q cl hQ m (j0 + 1) ⟨hb, herr, hinv, hgone⟩ k
  refine ⟨t.1.1, fun hk => ?_, fun hk => t.2.2 (Nat.le_trans hlen hk)⟩
  obtain ⟨_, q2, q3, q4⟩ := t.2.1 hk
  refine Post.of_fail hf q2 (fun h => (q3 h).inv) ?_
  intro hamo hg
  rcases hshape with e | ⟨pre, e⟩
  · exact q4 e hg
  · subst e
    refine cleanup_snoc_gone f pre (fun c hc => hcl c (List.mem_append_left _ hc)) m (j0 + 1) k ?_ hk
    intro i hi
    cases hfi : f i with
    | none => rfl
    | some n =>
      have : i = j0 := hamo i j0 (by rw [hfi]; simp) hf
      omega

end
end Lungo.AtomicWrite
