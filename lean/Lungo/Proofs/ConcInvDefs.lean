/-
  Lungo.Proofs.ConcInvDefs — definitions (regions, Inv1, tactics, dispatch lemma) for the lock / token invariants of the concurrency model (`Lungo.Model.Conc`),
  proved for every reachable state by induction over `step` (any number of actors).
-/
import Lungo.Model.Conc
namespace Lungo.Conc

/-- program counters at which an actor holds `e.mutex` -/
def EHold (pc : Pc) : Prop :=
  pc = .bCheck ∨ pc = .bPost ∨ pc = .cCheck ∨ pc = .cStore ∨
  pc = .aBody ∨ pc = .clKill ∨ pc = .kBody

/-- local states in which an actor holds the writer token itself (between a successful
    `Acquire` and `e.txn = …`/`Release`, or inside Commit after `e.txn = nil`) -/
def THold (l : Local) : Prop :=
  ((l.pc = .bRelock ∨ l.pc = .bPost) ∧ l.okF = true) ∨ l.pc = .cStore

/-- local states in which an actor holds `s.mutex` of session `sid` -/
def SHold (l : Local) (sid : SessId) : Prop :=
  ((l.pc = .bSessRead ∨ l.pc = .uSessRead) ∧ l.ctxSess = some sid) ∨
  (l.sid = sid ∧ (l.pc = .ssReserve ∨ l.pc = .ssFinal ∨ l.pc = .scBody ∨ l.pc = .saBody ∨
    ((l.k = .startAbort ∨ l.k = .sessCommit ∨ l.k = .sessAbort) ∧
      (l.pc = .aLock ∨ l.pc = .aBody ∨ l.pc = .cLock ∨ l.pc = .cCheck ∨ l.pc = .cStore ∨ l.pc = .after))))

/-- inside Engine.Begin the continuation is one of the Begin call sites -/
def BeginWf (l : Local) : Prop :=
  ((l.pc = .bLock ∨ l.pc = .bCheck ∨ l.pc = .bSessLock ∨ l.pc = .bSessRead ∨ l.pc = .bAcquire ∨
    l.pc = .bRelock ∨ l.pc = .bPost) →
  (l.k = .use ∨ l.k = .start ∨ l.k = .expBegin ∨ l.k = .dBegin)) ∧
  ((l.pc = .cLock ∨ l.pc = .cCheck ∨ l.pc = .cStore) →
    (l.k = .useCommit ∨ l.k = .sessCommit ∨ l.k = .expCommit ∨ l.k = .dCommit)) ∧
  ((l.pc = .aLock ∨ l.pc = .aBody) →
    (l.k = .useAbort ∨ l.k = .startAbort ∨ l.k = .sessAbort ∨ l.k = .expAbort ∨ l.k = .dAbort))

/-- the lock/token invariant -/
structure Inv1 (s : State) : Prop where
  mutex_iff : ∀ a, s.eng.mutex = some a ↔ EHold (s.loc a).pc
  holder_iff : ∀ a, s.eng.holder = some a ↔ THold (s.loc a)
  conserv : s.eng.token + (if s.eng.holder.isSome then 1 else 0) + (if s.eng.txn.isSome then 1 else 0) = 1
  noPanic : s.eng.relPanic = false
  smutex_iff : ∀ a sid, (s.sess sid).mutex = some a ↔ SHold (s.loc a) sid
  beginWf : ∀ a, BeginWf (s.loc a)

/-- split a sub-step hypothesis into its cases -/
macro "conc_split" h:ident : tactic => `(tactic| (
  dsimp only at $h:ident
  split at $h:ident
  all_goals (try split at $h:ident)
  all_goals (try split at $h:ident)
  all_goals (try split at $h:ident)
  all_goals (try split at $h:ident)
  all_goals (try split at $h:ident)
  all_goals (try cases $h:ident)))

macro "conc_simp" : tactic => `(tactic|
  simp only [State.put, State.putS, State.finish, State.write, upd_apply, Eng.unlock, Eng.release,
    Local.back, Local.invoke, EHold, THold, SHold, BeginWf, if_true, if_false, ite_true, ite_false] at *)

/-- goal-only version of `conc_simp` (hypotheses are unfolded once, before the case split) -/
macro "conc_gsimp" : tactic => `(tactic|
  simp only [State.put, State.putS, State.finish, State.write, upd_apply, Eng.unlock, Eng.release,
    Local.back, Local.invoke, EHold, THold, SHold, BeginWf, if_true, if_false, ite_true, ite_false])

/-- close a goal `P ((upd loc a l') b) …` by cases on `b = a` -/
macro "by_actor" b:ident a:ident : tactic => `(tactic| (
  by_cases hba : $b = $a
  · subst hba
    (try conc_gsimp)
    grind
  · have hab : ¬ $a = $b := fun h => hba h.symm
    (try simp only [State.put, State.putS, State.finish, State.write, upd_apply, if_neg hba, if_neg hab])
    (try conc_gsimp)
    grind))

/-- like `by_actor`, trying the frame case `exact h` first when `b ≠ a` -/
macro "by_actor_or" h:ident b:ident a:ident : tactic => `(tactic| (
  by_cases hba : $b = $a
  · subst hba
    (try conc_gsimp)
    grind
  · have hab : ¬ $a = $b := fun h => hba h.symm
    (try simp only [State.put, State.putS, State.finish, State.write, upd_apply, if_neg hba, if_neg hab])
    first
    | exact $h
    | ((try conc_gsimp)
       grind)))

macro "inv1_close" h1:ident h2:ident h3:ident h4:ident h5:ident h6:ident a:ident : tactic => `(tactic| (
  refine ⟨fun b => ?_, fun b => ?_, ?_, ?_, fun b sid => ?_, fun b => ?_⟩
  · have hb1 := $h1 b
    clear $h1 $h2 $h5 $h6
    by_actor_or hb1 b $a
  · have hb1 := $h2 b
    clear $h1 $h2 $h5 $h6
    by_actor_or hb1 b $a
  · first
    | exact $h3
    | (clear $h1 $h2 $h5 $h6
       (try conc_gsimp)
       grind)
  · first
    | exact $h4
    | (clear $h1 $h2 $h5 $h6
       (try conc_gsimp)
       grind)
  · have hb1 := $h5 b sid
    have hb2 := $h6 b
    have hb3 := $h5 $a sid
    clear $h1 $h2 $h5 $h6
    by_actor_or hb1 b $a
  · have hb1 := $h6 b
    clear $h1 $h2 $h5 $h6
    by_actor_or hb1 b $a))

/-- dispatch lemma: a step of `step` is a step of exactly one sub-machine, with the pc known -/
theorem step_cases {s s' : State} {a : ActorId} {c : Choice} (hs : step s a c = some s') :
    ((s.loc a).pc = .idle ∧ stepIdle s a (s.loc a) c = some s') ∨
    stepBegin s a (s.loc a) c = some s' ∨ stepCommit s a (s.loc a) c = some s' ∨
    stepAbort s a (s.loc a) c = some s' ∨
    ((s.loc a).pc = .after ∧ stepAfter s a (s.loc a) c = some s') ∨
    stepUse s a (s.loc a) c = some s' ∨ stepSess s a (s.loc a) c = some s' ∨
    stepClose s a (s.loc a) c = some s' ∨ stepExp s a (s.loc a) c = some s' := by
  unfold step at hs
  split at hs
  · cases hs
  · dsimp only at hs
    split at hs <;> simp_all

theorem step_le_n {s s' : State} {a : ActorId} {c : Choice} (hs : step s a c = some s') : a ≤ s.n := by
  unfold step at hs
  split at hs
  · cases hs
  · rename_i h; exact Nat.le_of_not_gt h


end Lungo.Conc
