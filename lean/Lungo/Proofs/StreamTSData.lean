/-
  Lungo.Proofs.StreamTSData — data invariants of the stream transition system
  (change-log ids, oplog = suffix of the history, delivered = scope-filtered slice).
-/
import Lungo.Proofs.StreamTS
namespace Lungo.StreamTS

/-! ### list lemmas -/

def posOf (last : Option Event) (startPos : Nat) : Nat :=
  match last with
  | some e => e.id
  | none => startPos

theorem StreamState.pos_eq (st : StreamState) : st.pos = posOf st.last st.startPos := rfl

theorem expected_succ {h : Handle} {cm : List Event} {lo hi : Nat} {ev : Event}
    (hev : cm[hi]? = some ev) (hle : lo ≤ hi) :
    expected h cm lo (hi + 1) = expected h cm lo hi ++ (if inScope h ev then [ev] else []) := by
  have hlt : hi < cm.length := by
    rcases List.getElem?_eq_some_iff.mp hev with ⟨hlt, _⟩; exact hlt
  unfold expected
  rw [List.take_add_one, hev]
  have : lo ≤ (List.take hi cm).length := by rw [List.length_take]; omega
  rw [List.drop_append_of_le_length this, List.filter_append]
  congr 1
  simp only [Option.toList, List.filter]
  split <;> simp_all

theorem expected_append {h : Handle} {cm new : List Event} {lo hi : Nat} (hle : hi ≤ cm.length) :
    expected h (cm ++ new) lo hi = expected h cm lo hi := by
  unfold expected
  rw [List.take_append_of_le_length hle]

theorem expected_self {h : Handle} {cm : List Event} {lo : Nat} : expected h cm lo lo = [] := by
  unfold expected
  rw [List.drop_eq_nil_of_le]; · rfl
  rw [List.length_take]; omega

theorem mkEvents_getElem? {start : Nat} {ps : List Proto} {i : Nat} {e : Event}
    (h : (mkEvents start ps)[i]? = some e) : e.id = start + i := by
  induction ps generalizing start i with
  | nil => simp [mkEvents] at h
  | cons p ps ih =>
    cases i with
    | zero => simp [mkEvents] at h; subst h; rfl
    | succ i =>
      simp only [mkEvents, List.getElem?_cons_succ] at h
      have := ih h
      omega

/-- ids are positions + 1 -/
def IdsOK (cm : List Event) : Prop := ∀ i e, cm[i]? = some e → e.id = i + 1

theorem IdsOK_append {cm : List Event} (h : IdsOK cm) (ps : List Proto) :
    IdsOK (cm ++ mkEvents (cm.length + 1) ps) := by
  intro i e he
  rw [List.getElem?_append] at he
  split at he
  · exact h i e he
  · have := mkEvents_getElem? he
    omega

theorem IdsOK_mem {cm : List Event} (h : IdsOK cm) {e : Event} (he : e ∈ cm) :
    cm[e.id - 1]? = some e ∧ 0 < e.id ∧ e.id ≤ cm.length := by
  obtain ⟨i, hi⟩ := List.getElem?_of_mem he
  have := h i e hi
  have hlt : i < cm.length := (List.getElem?_eq_some_iff.mp hi).1
  refine ⟨?_, by omega, by omega⟩
  have : e.id - 1 = i := by omega
  rw [this]; exact hi

/-- the element after `e` in a suffix of the history is the history's element at position `e.id` -/
theorem lookup_next {cm : List Event} (hids : IdsOK cm) {k : Nat} {e : Event}
    (he : e ∈ cm.drop k) : (cm.drop k)[(cm.drop k).idxOf e + 1]? = cm[e.id]? := by
  have hlt := List.idxOf_lt_length_of_mem he
  have hget := List.getElem_idxOf hlt
  have h1 : (cm.drop k)[(cm.drop k).idxOf e]? = some e := by
    rw [List.getElem?_eq_getElem hlt, hget]
  rw [List.getElem?_drop] at h1
  have := hids _ _ h1
  rw [List.getElem?_drop]
  congr 1
  omega

theorem posTime_mem {t : Nat} {prev dflt : Option Event} {l : List Event} {e : Event}
    (h : posTime t prev dflt l = some e) : prev = some e ∨ dflt = some e ∨ e ∈ l := by
  induction l generalizing prev with
  | nil => simp [posTime] at h; exact .inr (.inl h)
  | cons x xs ih =>
    simp only [posTime] at h
    split at h
    · exact .inl h
    · rcases ih h with h1 | h1 | h1
      · simp at h1; subst h1; exact .inr (.inr (by simp))
      · exact .inr (.inl h1)
      · exact .inr (.inr (by simp [h1]))

theorem posTime_some_ne_none {t : Nat} {p d : Event} {l : List Event} :
    posTime t (some p) (some d) l ≠ none := by
  induction l generalizing p with
  | nil => simp [posTime]
  | cons x xs ih =>
    simp only [posTime]
    split
    · simp
    · exact ih

theorem watchPos_mem {spec : StartSpec} {oplog : List Event} {e : Event}
    (h : watchPos spec oplog = some (some e)) : e ∈ oplog := by
  unfold watchPos at h
  split at h
  · simp at h; exact List.mem_of_getLast? h
  · simp at h; exact List.mem_of_find?_eq_some h
  · simp at h
    rcases posTime_mem h with h1 | h1 | h1
    · cases h1
    · exact List.mem_of_getLast? h1
    · exact h1

theorem watchPos_token {k : Nat} {oplog : List Event} {r : Option Event}
    (h : watchPos (.token k) oplog = some r) : ∃ e, r = some e ∧ e.id = k := by
  simp [watchPos] at h
  obtain ⟨e, he, rfl⟩ := h
  exact ⟨e, rfl, by simpa using List.find?_some he⟩


/-! ### global data invariant -/

def InvG (s : State) : Prop :=
  IdsOK s.committed ∧
  (∃ k, k ≤ s.committed.length ∧ s.oplog = s.committed.drop k) ∧
  (s.trimmed = false → s.oplog = s.committed)

theorem InvG_init : InvG init := by
  refine ⟨?_, ⟨0, ?_⟩, ?_⟩ <;> simp [init, IdsOK]

theorem InvG_commit {s : State} (i : InvG s) (evs : List Proto) (trim : Nat) :
    InvG (stepCommit s evs trim) := by
  obtain ⟨i1, ⟨k, hk, i2⟩, i3⟩ := i
  refine ⟨IdsOK_append i1 evs, ?_, ?_⟩
  · simp only [stepCommit]
    refine ⟨min (k + trim) (s.committed ++ mkEvents (s.committed.length + 1) evs).length,
      Nat.min_le_right _ _, ?_⟩
    rw [i2, ← List.drop_append_of_le_length hk, List.drop_drop]
    by_cases hc : k + trim ≤ (s.committed ++ mkEvents (s.committed.length + 1) evs).length
    · rw [Nat.min_eq_left hc]
    · rw [Nat.min_eq_right (by omega), List.drop_eq_nil_of_le (by omega),
        List.drop_eq_nil_of_le (Nat.le_refl _)]
  · simp only [stepCommit, Bool.or_eq_false_iff, decide_eq_false_iff_not]
    intro ⟨ht, h0⟩
    have : trim = 0 := by omega
    subst this
    rw [i3 ht]; rfl

theorem InvG_step {s s' a c} (h : step s a c = some s') (i : InvG s) : InvG s' := by
  unfold step at h
  split at h
  case h_5 =>
    split at h
    · simp only [Option.some.injEq] at h; subst h; exact InvG_commit i _ _
    · cases h
  all_goals
    (try (simp only [stepCallNext, stepNLock, stepNRead, stepNLost, stepNGap, stepRecv,
      stepNSigClosed, stepNCtx, stepCLock, stepCSend, stepCallCloseEngine, stepELoop, stepWatch] at h))
    (repeat' (split at h))
    all_goals (try (simp only [Option.some.injEq, reduceCtorEq] at h))
    all_goals (try (subst h))
    all_goals (try (simp only [setBoth, setActor]))
    all_goals (exact i)


/-! ### per-stream data invariant -/

def InvD (s : State) : Prop :=
  ∀ x,
    (∀ e, (s.streams x).last = some e → e ∈ s.committed) ∧
    ((s.streams x).nilStart = false → (s.streams x).last ≠ none) ∧
    (s.trimmed = false → (s.streams x).last = none → (s.streams x).startPos = 0) ∧
    (∀ k, (s.streams x).spec = .token k → (s.streams x).startPos = k ∧ (s.streams x).nilStart = false) ∧
    ((s.trimmed = false ∨ (s.streams x).nilStart = false) →
      (s.streams x).startPos ≤ posOf (s.streams x).last (s.streams x).startPos ∧
      posOf (s.streams x).last (s.streams x).startPos ≤ s.committed.length ∧
      (s.streams x).delivered =
        expected (s.streams x).handle s.committed (s.streams x).startPos
          (posOf (s.streams x).last (s.streams x).startPos))

theorem InvD_init : InvD init := by
  intro x
  simp [init, posOf, expected]

/-- the event found by the lookup is the history's next event after the stream's position -/
theorem next_event {s : State} (ig : InvG s) (i : InvD s) {sid : StreamId} {ni : Nat} {ev : Event}
    (hni : lookupNext (s.streams sid).last s.oplog = some ni) (hev : s.oplog[ni]? = some ev) :
    ev ∈ s.committed ∧
    ((s.trimmed = false ∨ (s.streams sid).nilStart = false) →
      s.committed[posOf (s.streams sid).last (s.streams sid).startPos]? = some ev ∧
      ev.id = posOf (s.streams sid).last (s.streams sid).startPos + 1) := by
  obtain ⟨ids, ⟨k, hk, hop⟩, htr⟩ := ig
  obtain ⟨_, n1, n2, _, _⟩ := i sid
  cases hl : (s.streams sid).last with
  | none =>
    rw [hl] at hni
    simp only [lookupNext, Option.some.injEq] at hni
    subst hni
    refine ⟨?_, ?_⟩
    · have := List.mem_of_getElem? hev
      rw [hop] at this
      exact List.mem_of_mem_drop this
    · intro hp
      rcases hp with hp | hp
      · rw [htr hp] at hev
        simp only [posOf, n2 hp hl]
        exact ⟨hev, ids _ _ hev⟩
      · exact absurd hl (n1 hp)
  | some e =>
    rw [hl] at hni
    simp only [lookupNext] at hni
    split at hni
    · rename_i hmem
      simp only [Option.some.injEq] at hni
      subst hni
      rw [hop] at hmem hev
      rw [lookup_next ids hmem] at hev
      refine ⟨List.mem_of_getElem? hev, fun _ => ?_⟩
      simp only [posOf]
      exact ⟨hev, ids _ _ hev⟩
    · cases hni

theorem InvD_advance {s : State} (ig : InvG s) (i : InvD s) {sid : StreamId} {ni : Nat} {ev : Event}
    (hni : lookupNext (s.streams sid).last s.oplog = some ni) (hev : s.oplog[ni]? = some ev)
    (st' : StreamState) (a : ActorId) (l : Local)
    (h1 : st'.last = some ev) (h2 : st'.handle = (s.streams sid).handle)
    (h3 : st'.startPos = (s.streams sid).startPos) (h4 : st'.nilStart = (s.streams sid).nilStart)
    (h5 : st'.spec = (s.streams sid).spec)
    (h6 : st'.delivered = (s.streams sid).delivered ++
            (if inScope (s.streams sid).handle ev then [ev] else [])) :
    InvD (setBoth s a l sid st') := by
  intro x
  have ix := i x
  by_cases hx : x = sid
  · subst hx
    obtain ⟨hmem, hnext⟩ := next_event ig i hni hev
    obtain ⟨_, _, _, i4, i5⟩ := ix
    simp only [setBoth, upd_same, h1, h2, h3, h4, h5, h6]
    refine ⟨?_, ?_, ?_, i4, ?_⟩
    · intro e he; cases he; exact hmem
    · intro _; simp
    · intro _ h; cases h
    · intro hp
      obtain ⟨hget, hid⟩ := hnext hp
      obtain ⟨j1, j2, j3⟩ := i5 hp
      have hlt := (List.getElem?_eq_some_iff.mp hget).1
      simp only [posOf]
      refine ⟨by omega, by omega, ?_⟩
      rw [hid, expected_succ hget j1, j3]
  · simp only [setBoth, upd_other _ _ hx]
    exact ix

theorem InvD_frame {s : State} (i : InvD s) (a : ActorId) (l : Local) (sid : StreamId)
    (st' : StreamState)
    (h1 : st'.last = (s.streams sid).last) (h2 : st'.handle = (s.streams sid).handle)
    (h3 : st'.startPos = (s.streams sid).startPos) (h4 : st'.nilStart = (s.streams sid).nilStart)
    (h5 : st'.spec = (s.streams sid).spec) (h6 : st'.delivered = (s.streams sid).delivered) :
    InvD (setBoth s a l sid st') := by
  intro x
  have ix := i x
  by_cases hx : x = sid
  · subst hx
    simp only [setBoth, upd_same, h1, h2, h3, h4, h5, h6]
    exact ix
  · simp only [setBoth, upd_other _ _ hx]
    exact ix

theorem InvD_nRead {s : State} (ig : InvG s) (i : InvD s) (a : ActorId) (sid : StreamId)
    (block ce : Bool) : InvD (stepNRead s a sid block ce) := by
  simp only [stepNRead]
  cases hni : lookupNext (s.streams sid).last s.oplog with
  | none => exact i
  | some ni =>
    dsimp only
    cases hev : s.oplog[ni]? with
    | some ev =>
      dsimp only
      by_cases hsc : inScope (s.streams sid).handle ev = true
      · rw [if_pos hsc]
        exact InvD_advance ig i hni hev _ _ _ rfl rfl rfl rfl rfl (by simp [hsc])
      · rw [if_neg hsc]
        exact InvD_advance ig i hni hev _ _ _ rfl rfl rfl rfl rfl (by simp [hsc])
    | none =>
      dsimp only
      cases block with
      | true => exact i
      | false => exact InvD_frame i _ _ _ _ rfl rfl rfl rfl rfl rfl


theorem bcast_fields (st : StreamState) :
    (bcast st).last = st.last ∧ (bcast st).handle = st.handle ∧ (bcast st).startPos = st.startPos ∧
    (bcast st).nilStart = st.nilStart ∧ (bcast st).spec = st.spec ∧
    (bcast st).delivered = st.delivered ∧ (bcast st).error = st.error ∧
    (bcast st).dropped = st.dropped ∧ (bcast st).invalidated = st.invalidated ∧
    (bcast st).closed = st.closed := by
  unfold bcast
  split
  · split <;> simp
  · simp

theorem InvD_commit {s : State} (i : InvD s) (evs : List Proto) (trim : Nat) :
    InvD (stepCommit s evs trim) := by
  intro x
  obtain ⟨i1, i2, i3, i4, i5⟩ := i x
  obtain ⟨b1, b2, b3, b4, b5, b6, _⟩ := bcast_fields (s.streams x)
  simp only [stepCommit, b1, b2, b3, b4, b5, b6, Bool.or_eq_false_iff, decide_eq_false_iff_not]
  refine ⟨?_, i2, ?_, i4, ?_⟩
  · intro e he; exact List.mem_append_left _ (i1 e he)
  · intro ⟨ht, _⟩; exact i3 ht
  · intro hp
    have hp' : s.trimmed = false ∨ (s.streams x).nilStart = false := by
      rcases hp with ⟨hp, _⟩ | hp
      · exact .inl hp
      · exact .inr hp
    obtain ⟨j1, j2, j3⟩ := i5 hp'
    refine ⟨j1, ?_, ?_⟩
    · rw [List.length_append]; omega
    · rw [expected_append j2]; exact j3

theorem InvD_watch {s s' : State} {sid : StreamId} {hd : Handle} {spec : StartSpec}
    (h : stepWatch s sid hd spec = some s') (ig : InvG s) (i : InvD s) : InvD s' := by
  obtain ⟨ids, ⟨k, hk, hop⟩, htr⟩ := ig
  unfold stepWatch at h
  split at h
  · cases h; exact i
  · split at h
    · cases h
    · cases hw : watchPos spec s.oplog with
      | none => rw [hw] at h; cases h; exact i
      | some last =>
        rw [hw] at h
        simp only [Option.some.injEq] at h
        subst h
        intro x
        by_cases hx : x = sid
        · subst hx
          simp only [upd_same]
          cases last with
          | some e =>
            have hmem : e ∈ s.committed := by
              have := watchPos_mem hw
              rw [hop] at this
              exact List.mem_of_mem_drop this
            have hid := IdsOK_mem ids hmem
            refine ⟨?_, ?_, ?_, ?_, ?_⟩
            · intro e' he'; cases he'; exact hmem
            · simp
            · intro _ h; cases h
            · intro k hk
              subst hk
              obtain ⟨e', he', hid'⟩ := watchPos_token hw
              cases he'
              exact ⟨hid', rfl⟩
            · intro _
              simp only [posOf]
              exact ⟨Nat.le_refl _, hid.2.2, expected_self.symm⟩
          | none =>
            have hsp : nilStartPos spec s.oplog s.committed.length ≤ s.committed.length := by
              unfold nilStartPos
              split
              · rename_i _ t e0 rest hol
                split
                · rename_i hle
                  have : e0 ∈ s.committed := by
                    have h0 : e0 ∈ s.oplog := by rw [hol]; simp
                    rw [hop] at h0
                    exact List.mem_of_mem_drop h0
                  have := (IdsOK_mem ids this).2.2
                  omega
                · exact Nat.le_refl _
              · exact Nat.le_refl _
            refine ⟨?_, ?_, ?_, ?_, ?_⟩
            · intro e' he'; cases he'
            · simp
            · intro ht _
              have hoc := htr ht
              cases spec with
              | now =>
                simp only [watchPos, Option.some.injEq, List.getLast?_eq_none_iff] at hw
                rw [hw] at hoc
                simp [nilStartPos, ← hoc]
              | token k =>
                obtain ⟨e', he', _⟩ := watchPos_token hw
                cases he'
              | time t =>
                simp only [watchPos, Option.some.injEq] at hw
                cases hol : s.oplog with
                | nil =>
                  rw [hol] at hoc
                  simp [nilStartPos, ← hoc]
                | cons e0 rest =>
                  have h0 : s.committed[0]? = some e0 := by rw [← hoc, hol]; rfl
                  have hid0 := ids _ _ h0
                  simp only [nilStartPos]
                  split
                  · omega
                  · rename_i hnle
                    rw [hol] at hw
                    simp only [posTime, if_neg hnle] at hw
                    have hgl : (e0 :: rest).getLast? = some ((e0 :: rest).getLast (by simp)) :=
                      List.getLast?_eq_some_getLast (by simp)
                    rw [hgl] at hw
                    exact absurd hw posTime_some_ne_none
            · intro k hk
              subst hk
              obtain ⟨e', he', _⟩ := watchPos_token hw
              cases he'
            · intro _
              simp only [posOf]
              exact ⟨Nat.le_refl _, hsp, expected_self.symm⟩
        · simp only [upd_other _ _ hx]
          exact i x


theorem InvD_step {s s' a c} (h : step s a c = some s') (ig : InvG s) (i : InvD s) : InvD s' := by
  unfold step at h
  split at h
  case h_4 => exact InvD_watch h ig i
  case h_5 =>
    split at h
    · simp only [Option.some.injEq] at h; subst h; exact InvD_commit i _ _
    · cases h
  case h_7 => simp only [Option.some.injEq] at h; subst h; exact InvD_nRead ig i _ _ _ _
  case h_8 => simp only [Option.some.injEq] at h; subst h; exact InvD_nRead ig i _ _ _ _
  all_goals
    (try (simp only [stepCallNext, stepNLock, stepNLost, stepNGap, stepRecv,
      stepNSigClosed, stepNCtx, stepCLock, stepCSend, stepCallCloseEngine, stepELoop] at h))
    (repeat' (split at h))
    all_goals (try (simp only [Option.some.injEq, reduceCtorEq] at h))
    all_goals (try (subst h))
    all_goals (first | exact i | exact InvD_frame i _ _ _ _ rfl rfl rfl rfl rfl rfl)


/-! ### the lost-position error is truthful -/

/-- `last` is an event that the oplog no longer holds -/
def Gone (s : State) (sid : StreamId) : Prop :=
  (s.streams sid).last ≠ none ∧ ∀ e, (s.streams sid).last = some e → e ∉ s.oplog

def InvL (s : State) : Prop :=
  (∀ a sid, (s.actors a).pc = .nLost sid → Gone s sid) ∧
  (∀ sid, (s.streams sid).error = some .lost → Gone s sid)

theorem InvL_init : InvL init := by
  refine ⟨?_, ?_⟩ <;> simp [init]

theorem not_mem_commit {cm oplog : List Event} (hids : IdsOK cm) {e : Event} (he : e ∈ cm)
    (hno : e ∉ oplog) (evs : List Proto) (trim : Nat) :
    e ∉ (oplog ++ mkEvents (cm.length + 1) evs).drop trim := by
  intro hm
  rcases List.mem_append.mp (List.mem_of_mem_drop hm) with h | h
  · exact hno h
  · obtain ⟨j, hj⟩ := List.getElem?_of_mem h
    have := mkEvents_getElem? hj
    have := (IdsOK_mem hids he).2.2
    omega

theorem Gone_commit {s : State} (ig : InvG s) (id : InvD s) {sid : StreamId} (h : Gone s sid)
    (evs : List Proto) (trim : Nat) : Gone (stepCommit s evs trim) sid := by
  obtain ⟨b1, _⟩ := bcast_fields (s.streams sid)
  simp only [Gone, stepCommit, b1]
  refine ⟨h.1, ?_⟩
  intro e he
  exact not_mem_commit ig.1 ((id sid).1 e he) (h.2 e he) evs trim

theorem InvL_step {s s' a c} (h : step s a c = some s') (i : InvL s) (ig : InvG s) (id : InvD s)
    (ih : InvH s) (inr : InvNR s) (ipc : InvPC s) : InvL s' := by
  obtain ⟨i1, i2⟩ := i
  unfold step at h
  split at h
  case h_5 =>
    split at h
    · simp only [Option.some.injEq] at h; subst h
      refine ⟨?_, ?_⟩
      · intro a' sid hpc
        exact Gone_commit ig id (i1 a' sid hpc) _ _
      · intro sid he
        have : (s.streams sid).error = some .lost := by
          rw [← (bcast_fields (s.streams sid)).2.2.2.2.2.2.1]; exact he
        exact Gone_commit ig id (i2 sid this) _ _
    · cases h
  all_goals
    (try (simp only [stepCallNext, stepNLock, stepNRead, stepNLost, stepNGap, stepRecv,
      stepNSigClosed, stepNCtx, stepCLock, stepCSend, stepCallCloseEngine, stepELoop, stepWatch] at h))
    (repeat' (split at h))
    all_goals (try (simp only [Option.some.injEq, reduceCtorEq] at h))
    all_goals (try (subst h))
    all_goals (try (simp only [setBoth, setActor]))
    all_goals
      refine ⟨?_, ?_⟩
      · intro a' x
        have j1 := i1 a' x
        have j2 := i2 x
        have h1 := ih a x
        have h2 := ih a' x
        have n1 := inr a x
        have p1 := ipc a' x
        (grind [upd_apply, Gone, lookupNext, Pc.sid?])
      · intro x
        have j2 := i2 x
        have j1 := i1 a x
        have h1 := ih a x
        have n1 := inr a x
        (grind [upd_apply, Gone, lookupNext])


/-! ### the slice by positions is the filter by ids -/

theorem slice_filter_ids (p : Event → Bool) (cm : List Event) (o lo hi : Nat)
    (hids : ∀ i e, cm[i]? = some e → e.id = o + i + 1) :
    ((cm.take hi).drop lo).filter p =
      cm.filter (fun e => decide (o + lo < e.id) && decide (e.id ≤ o + hi) && p e) := by
  induction cm generalizing o lo hi with
  | nil => simp
  | cons x xs ih =>
    have hx : x.id = o + 1 := hids 0 x rfl
    have hxs : ∀ i e, xs[i]? = some e → e.id = (o + 1) + i + 1 := by
      intro i e he
      have := hids (i + 1) e (by simpa using he)
      omega
    have hge : ∀ e ∈ xs, o + 2 ≤ e.id := by
      intro e he
      obtain ⟨i, hi⟩ := List.getElem?_of_mem he
      have := hxs i e hi
      omega
    cases hi with
    | zero =>
      simp only [List.take_zero, List.drop_nil, List.filter_nil]
      symm
      rw [List.filter_eq_nil_iff]
      intro e he
      rcases List.mem_cons.mp he with rfl | he
      · simp; omega
      · have := hge e he; simp; omega
    | succ hi' =>
      cases lo with
      | zero =>
        simp only [List.take_succ_cons, List.drop_zero, List.filter_cons]
        have hc : (decide (o + 0 < x.id) && decide (x.id ≤ o + (hi' + 1)) && p x) = p x := by
          have h1 : decide (o + 0 < x.id) = true := by simp; omega
          have h2 : decide (x.id ≤ o + (hi' + 1)) = true := by simp; omega
          rw [h1, h2]; simp
        rw [hc]
        have := ih (o + 1) 0 hi' hxs
        simp only [List.drop_zero] at this
        rw [this]
        have hcg : xs.filter (fun e => decide (o + 1 + 0 < e.id) && decide (e.id ≤ o + 1 + hi') && p e) =
            xs.filter (fun e => decide (o + 0 < e.id) && decide (e.id ≤ o + (hi' + 1)) && p e) := by
          apply List.filter_congr
          intro e he
          have := hge e he
          have h1 : decide (o + 1 + 0 < e.id) = decide (o + 0 < e.id) := by
            simp only [decide_eq_decide]; omega
          have h2 : decide (e.id ≤ o + 1 + hi') = decide (e.id ≤ o + (hi' + 1)) := by
            simp only [decide_eq_decide]; omega
          rw [h1, h2]
        rw [hcg]
      | succ lo' =>
        simp only [List.take_succ_cons, List.drop_succ_cons, List.filter_cons]
        have hc : (decide (o + (lo' + 1) < x.id) && decide (x.id ≤ o + (hi' + 1)) && p x) = false := by
          have h1 : decide (o + (lo' + 1) < x.id) = false := by simp; omega
          rw [h1]; simp
        rw [hc]
        simp only [Bool.false_eq_true, if_false]
        rw [ih (o + 1) lo' hi' hxs]
        apply List.filter_congr
        intro e _
        have h1 : decide (o + 1 + lo' < e.id) = decide (o + (lo' + 1) < e.id) := by
          simp only [decide_eq_decide]; omega
        have h2 : decide (e.id ≤ o + 1 + hi') = decide (e.id ≤ o + (hi' + 1)) := by
          simp only [decide_eq_decide]; omega
        rw [h1, h2]


theorem expected_eq_filter {h : Handle} {cm : List Event} (hids : IdsOK cm) (lo hi : Nat) :
    expected h cm lo hi =
      cm.filter (fun e => decide (lo < e.id) && decide (e.id ≤ hi) && inScope h e) := by
  have := slice_filter_ids (inScope h) cm 0 lo hi (by intro i e he; have := hids i e he; omega)
  simpa [expected] using this

end Lungo.StreamTS
