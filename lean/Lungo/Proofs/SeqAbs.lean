/-
  Lungo.Proofs.SeqAbs — the abstraction `abs : Catalog → Spec.SeqDB` of property C01 (forget index
  entries, document identities and the oplog) and its commutation with the catalog plumbing
  (`get?`, `set`, `ensureNs`, `appendOplog`) and with the selection `selectDocs`.
-/
import Lungo.Spec.SeqDB
import Lungo.Proofs.IndexMgmt
import Lungo.Proofs.FindLaws
namespace Lungo.SeqRef
open Lungo Lungo.Spec

variable {sch : SchemaEval}

/-- a collection without entries and identities: documents in natural order + index definitions -/
def absC (c : Coll) : SColl := { docs := c.docs.map (·.doc), defs := shape c.indexes }

def absNs (p : Handle × Coll) : Handle × SColl :=
  (p.1, if p.1 == oplogHandle then { docs := [], defs := [] } else absC p.2)

/-- the abstraction: every namespace without entries and identities; of the oplog only whether it is empty -/
def abs (cat : Catalog) : SeqDB :=
  { colls := cat.namespaces.map absNs,
    logged := cat.namespaces.any fun p => p.1 == oplogHandle && !p.2.docs.isEmpty }

theorem absNs_fst (p : Handle × Coll) : (absNs p).1 = p.1 := rfl

theorem absNs_user {h : Handle} (hne : h ≠ oplogHandle) (c : Coll) : absNs (h, c) = (h, absC c) := by
  have : (h == oplogHandle) = false := by simpa using hne
  simp [absNs, this]

theorem absC_new : absC (newColl true) = SColl.new := rfl

theorem abs_init : abs newCatalog = SeqDB.init := by
  simp [abs, newCatalog, SeqDB.init, absNs, newColl]

/-! ### `get?` / `set` / `ensureNs` -/

theorem abs_get? (cat : Catalog) {h : Handle} (hne : h ≠ oplogHandle) :
    (abs cat).get? h = (cat.get? h).map absC := by
  unfold SeqDB.get? Catalog.get? abs
  simp only [List.find?_map]
  have hf : ((fun x : Handle × SColl => x.1 == h) ∘ absNs) = fun p : Handle × Coll => p.1 == h := rfl
  rw [hf]
  cases hfind : cat.namespaces.find? (fun p => p.1 == h) with
  | none => rfl
  | some p =>
    have h1 := List.find?_some hfind
    simp only [beq_iff_eq] at h1
    obtain ⟨a, b⟩ := p
    simp only at h1
    subst h1
    simp [absNs_user hne]

theorem abs_get?_isSome (cat : Catalog) {h : Handle} (hne : h ≠ oplogHandle) :
    ((abs cat).get? h).isSome = (cat.get? h).isSome := by
  rw [abs_get? cat hne]; cases cat.get? h <;> rfl

theorem abs_get?_isNone (cat : Catalog) {h : Handle} (hne : h ≠ oplogHandle) :
    ((abs cat).get? h).isNone = (cat.get? h).isNone := by
  rw [abs_get? cat hne]; cases cat.get? h <;> rfl

theorem abs_coll (cat : Catalog) {h : Handle} (hne : h ≠ oplogHandle) :
    (abs cat).coll h = absC (ensureNs cat h) := by
  unfold SeqDB.coll ensureNs
  rw [abs_get? cat hne]
  cases cat.get? h <;> rfl

theorem abs_any (cat : Catalog) (h : Handle) :
    (abs cat).colls.any (·.1 == h) = cat.namespaces.any (·.1 == h) := by
  simp only [abs, List.any_map]
  rfl

theorem abs_set (cat : Catalog) {h : Handle} (coll : Coll) (hne : h ≠ oplogHandle) :
    abs (cat.set h coll) = (abs cat).put h (absC coll) := by
  have hb : (h == oplogHandle) = false := by simpa using hne
  unfold SeqDB.put
  rw [abs_any]
  unfold Catalog.set
  split
  · simp only [abs, List.map_map, List.any_map]
    congr 1
    · apply List.map_congr_left
      rintro ⟨a, b⟩ _
      simp only [Function.comp]
      by_cases e : a == h
      · simp only [e, ↓reduceIte]
        have : a = h := by simpa using e
        subst this
        simp [absNs, hb]
      · simp [e, absNs]
    · congr 1
      funext p
      obtain ⟨a, b⟩ := p
      simp only [Function.comp]
      by_cases e : a == h
      · have : a = h := by simpa using e
        subst this
        simp [hb]
      · simp [e]
  · simp only [abs, List.map_append, List.map_cons, List.map_nil, List.any_append, List.any_cons,
      List.any_nil, hb, Bool.false_and, Bool.or_false, absNs_user hne]

/-- `abs` depends on the namespaces only (not on the logical clock) -/
theorem abs_clock (cat : Catalog) (k : Nat) : abs { cat with clock := k } = abs cat := rfl

/-! ### the oplog: appending an event sets the bit `logged` and nothing else -/

theorem abs_appendOplog {cat : Catalog} (ho : ∃ c, (oplogHandle, c) ∈ cat.namespaces) (nu : Nu) (h : Handle)
    (op : String) (doc : Option Doc) (ch : Option (List (String × V))) :
    abs (appendOplog cat nu h op doc ch).1 = (abs cat).log ∧
    ∃ c, (oplogHandle, c) ∈ (appendOplog cat nu h op doc ch).1.namespaces := by
  obtain ⟨c0, hc0⟩ := ho
  have hany : cat.namespaces.any (·.1 == oplogHandle) = true :=
    List.any_eq_true.mpr ⟨(oplogHandle, c0), hc0, by simp⟩
  unfold appendOplog
  simp only [Nu.fresh]
  constructor
  · rw [abs_clock]
    unfold Catalog.set
    simp only [hany, ↓reduceIte, abs, SeqDB.log, List.map_map, List.any_map]
    congr 1
    · apply List.map_congr_left
      rintro ⟨a, b⟩ _
      simp only [Function.comp]
      by_cases e : a == oplogHandle
      · simp [e, absNs]
      · simp [e]
    · apply List.any_eq_true.mpr
      refine ⟨(oplogHandle, c0), hc0, ?_⟩
      simp
  · exact set_keeps ⟨c0, hc0⟩

theorem abs_appendOplog_fold {α : Type} (h : Handle) (op : String) (f : α → Option Doc) (g : α → Option (List (String × V))) :
    ∀ (l : List α) (cat : Catalog) (nu : Nu), (∃ c, (oplogHandle, c) ∈ cat.namespaces) →
      abs (l.foldl (fun (cn : Catalog × Nu) a => appendOplog cn.1 cn.2 h op (f a) (g a)) (cat, nu)).1 =
        (if l.isEmpty then abs cat else (abs cat).log) ∧
      ∃ c, (oplogHandle, c) ∈ (l.foldl (fun (cn : Catalog × Nu) a => appendOplog cn.1 cn.2 h op (f a) (g a)) (cat, nu)).1.namespaces
  | [], cat, nu, ho => ⟨rfl, ho⟩
  | a :: r, cat, nu, ho => by
    simp only [List.foldl_cons, List.isEmpty_cons, Bool.false_eq_true, ↓reduceIte]
    obtain ⟨h1, h2⟩ := abs_appendOplog ho nu h op (f a) (g a)
    obtain ⟨h3, h4⟩ := abs_appendOplog_fold h op f g r (appendOplog cat nu h op (f a) (g a)).1
      (appendOplog cat nu h op (f a) (g a)).2 h2
    refine ⟨?_, h4⟩
    rw [h3, h1]
    split <;> rfl

theorem log_log (db : SeqDB) : db.log.log = db.log := rfl

theorem put_log (db : SeqDB) (h : Handle) (c : SColl) : (db.put h c).log = db.log.put h c := by
  unfold SeqDB.put SeqDB.log
  simp only
  split <;> rfl

/-! ### selection -/

theorem sortBy_abs (sort : Option Doc) (l : List SDoc) :
    (sortBy sort l).map (List.map (·.doc)) =
      (sortCols sort).map (fun cols => sortWith cols (l.map (·.doc))) := by
  cases sort with
  | none => rfl
  | some s =>
    simp only [sortBy, sortCols]
    split
    · rfl
    · cases columns s with
      | error e => rfl
      | ok cols =>
        simp only [Except.map, sortWith]
        rw [sortSDocs_map_doc]

theorem filterPlain_noerr (q : Doc) : ∀ (l : List SDoc), noMatchError sch q l →
    filterPlain sch q (l.map (·.doc)) = .ok ((l.filter (matchesB sch q)).map (·.doc))
  | [], _ => rfl
  | sd :: r, h => by
    have ih := filterPlain_noerr q r (fun x hx => h x (List.mem_cons_of_mem _ hx))
    cases hm : Match sch sd.doc q with
    | error e => exact absurd hm (h sd (by simp) e)
    | ok b =>
      simp only [List.map_cons, filterPlain, ih, List.filter_cons, matchesB, hm]
      cases b <;> simp

theorem window_map {α β} (f : α → β) (skip limit : Int) (l : List α) :
    (windowOf skip limit l).map f = window skip limit (l.map f) := by
  simp only [windowOf, window]
  split <;> simp [List.map_take, List.map_drop]

/-- **selection commutes with the abstraction**: the selected stored documents, without their
    identities, are the Spec's selection — same error otherwise. Needs the C12 order laws (`DocsOk`)
    for "filter then sort = sort then filter", and a filter that evaluates on every stored document. -/
theorem select_abs (c : Coll) (q : Doc) (sort : Option Doc) (skip limit : Int)
    (ok : DocsOk c.docs) (hne : noMatchError sch q c.docs) :
    (selectDocs sch c q sort skip limit).map (List.map (·.doc)) =
      select sch (absC c).docs q sort skip limit := by
  unfold select
  by_cases hs : skip < 0
  · simp [selectDocs, hs, Except.map]
  · simp only [hs, ↓reduceIte]
    have hs' : 0 ≤ skip := by omega
    have hsb := sortBy_abs sort c.docs
    cases hL : sortBy sort c.docs with
    | error e =>
      rw [hL] at hsb
      have hm : selectDocs sch c q sort skip limit = .error e := by
        have : ¬ skip < 0 := hs
        rw [selectDocs_eq, sortedList_eq, hL]; simp [this]
      rw [hm]
      cases hc : sortCols sort with
      | error e' => rw [hc] at hsb; simp only [Except.map] at hsb ⊢; cases hsb; rfl
      | ok cols => rw [hc] at hsb; simp [Except.map] at hsb
    | ok L =>
      rw [hL] at hsb
      have hne' := noMatchError_perm sch q (sortBy_perm sort c.docs L hL) hne
      rw [selectDocs_noerr sch c q sort skip limit hs' L (by rw [sortedList_eq]; exact hL) hne']
      cases hc : sortCols sort with
      | error e' => rw [hc] at hsb; simp [Except.map] at hsb
      | ok cols =>
        rw [hc] at hsb
        simp only [Except.map, Except.ok.injEq] at hsb
        simp only [absC, filterPlain_noerr q c.docs hne, Except.map, window_map]
        have h2 := sortBy_filter sort c.docs L ok (matchesB sch q) hL
        have h3 := sortBy_abs sort (c.docs.filter (matchesB sch q))
        rw [h2, hc] at h3
        simp only [Except.map, Except.ok.injEq] at h3
        rw [h3]

end Lungo.SeqRef
