/-
  Lungo.Proofs.ConcLogAll — assembly: Linv, Rinv, Pinv, Hinv hold in every reachable state.
-/
import Lungo.Proofs.ConcAll
import Lungo.Proofs.ConcLog2
import Lungo.Proofs.ConcNamed
namespace Lungo.Conc

theorem linv_step {s s' : State} {a : ActorId} {c : Choice} (h1 : Inv1 s) (h2 : Inv2 s) (g : Linv s)
    (hs : step s a c = some s') : Linv s' := by
  have bd := h2.bnd
  rcases step_cases hs with ⟨hp, h'⟩ | h' | h' | h' | ⟨hp, h'⟩ | h' | h' | h' | h'
  · exact linv_idle h1 bd g hp h'
  · exact linv_begin h1 bd g h'
  · exact linv_commit h1 bd g h'
  · exact linv_abort h1 bd g h'
  · exact linv_after h1 bd g hp h'
  · exact linv_use h1 bd g h'
  · exact linv_sess h1 bd g h'
  · exact linv_close h1 bd g h'
  · exact linv_exp h1 bd g h'

theorem linv_reachable {n : Nat} {s : State} (h : Reachable n s) : Linv s := by
  induction h with
  | init => exact linv_init n
  | step hr hs ih => exact linv_step (inv_reachable hr).1 (inv_reachable hr).2 ih hs

structure Inv3 (s : State) : Prop where
  linv : Linv s
  rinv : Rinv s
  pinv : Pinv s
  hinv : Hinv s

theorem inv3_step {s s' : State} {a : ActorId} {c : Choice} (h1 : Inv1 s) (h2 : Inv2 s) (g : Inv3 s)
    (hs : step s a c = some s') : Inv3 s' := by
  obtain ⟨lv, rv, pv, hv⟩ := g
  have bd := h2.bnd
  refine ⟨linv_step h1 h2 lv hs, ?_, ?_, ?_⟩
  · rcases step_cases hs with ⟨hp, h'⟩ | h' | h' | h' | ⟨hp, h'⟩ | h' | h' | h' | h'
    · exact rinv_idle bd lv rv hp h'
    · exact rinv_begin bd lv rv h'
    · exact rinv_commit bd lv rv h'
    · exact rinv_abort bd lv rv h'
    · exact rinv_after bd lv rv hp h'
    · exact rinv_use bd lv rv h'
    · exact rinv_sess bd lv rv h'
    · exact rinv_close bd lv rv h'
    · exact rinv_exp bd lv rv h'
  · rcases step_cases hs with ⟨hp, h'⟩ | h' | h' | h' | ⟨hp, h'⟩ | h' | h' | h' | h'
    · exact pinv_idle h1 bd lv rv pv hp h'
    · exact pinv_begin h1 bd lv rv pv h'
    · exact pinv_commit h1 bd lv rv pv h'
    · exact pinv_abort h1 bd lv rv pv h'
    · exact pinv_after h1 bd lv rv pv hp h'
    · exact pinv_use h1 bd lv rv pv h'
    · exact pinv_sess h1 bd lv rv pv h'
    · exact pinv_close h1 bd lv rv pv h'
    · exact pinv_exp h1 bd lv rv pv h'
  · rcases step_cases hs with ⟨hp, h'⟩ | h' | h' | h' | ⟨hp, h'⟩ | h' | h' | h' | h'
    · exact hinv_idle bd hv hp h'
    · exact hinv_begin bd hv h'
    · exact hinv_commit bd hv h'
    · exact hinv_abort bd hv h'
    · exact hinv_after bd hv hp h'
    · exact hinv_use bd hv h'
    · exact hinv_sess bd hv h'
    · exact hinv_close bd hv h'
    · exact hinv_exp bd hv h'

theorem inv3_reachable {n : Nat} {s : State} (h : Reachable n s) : Inv3 s := by
  induction h with
  | init => exact ⟨linv_init n, rinv_init n, pinv_init n, hinv_init n⟩
  | step hr hs ih => exact inv3_step (inv_reachable hr).1 (inv_reachable hr).2 ih hs

/-- the log is append-only: a step either leaves the catalog alone or appends the committing
    transaction's operations -/
theorem catalog_grows {n : Nat} {s s' : State} {a : ActorId} {c : Choice} (h : Reachable n s)
    (hs : step s a c = some s') : ∃ ops, s'.eng.catalog = s.eng.catalog ++ ops := by
  have l2a := (linv_reachable h).2.1 a
  rcases step_cases hs with ⟨hp, h'⟩ | h' | h' | h' | ⟨hp, h'⟩ | h' | h' | h' | h'
  · unfold stepIdle at h'; conc_split h'
    all_goals exact ⟨[], by simp [State.put, State.putS, State.finish, State.write]⟩
  · unfold stepBegin at h'; conc_split h'
    all_goals exact ⟨[], by simp [State.put, State.putS, State.finish, State.write, Eng.unlock, Eng.release]; try split <;> simp⟩
  · unfold stepCommit at h'; conc_split h'
    all_goals (
      simp only [State.put, State.putS, State.finish, State.write, Eng.unlock, Eng.release]
      first
      | (refine ⟨[], ?_⟩; (try split) <;> simp; done)
      | (rename_i t _ _
         have hb := l2a t (by assumption) (by assumption)
         refine ⟨(s.txns t).ops, ?_⟩
         (try split) <;> simp [hb]; done))
  · unfold stepAbort at h'; conc_split h'
    all_goals exact ⟨[], by simp [State.put, State.putS, State.finish, State.write, Eng.unlock, Eng.release]; try split <;> simp⟩
  · unfold stepAfter at h'; conc_split h'
    all_goals exact ⟨[], by simp [State.put, State.putS, State.finish, State.write]⟩
  · unfold stepUse at h'; conc_split h'
    all_goals exact ⟨[], by simp [State.put, State.putS, State.finish, State.write]⟩
  · unfold stepSess at h'; conc_split h'
    all_goals exact ⟨[], by simp [State.put, State.putS, State.finish, State.write]⟩
  · unfold stepClose at h'; conc_split h'
    all_goals exact ⟨[], by simp [State.put, State.putS, State.finish, State.write, Eng.unlock]⟩
  · unfold stepExp at h'; conc_split h'
    all_goals exact ⟨[], by simp [State.put, State.putS, State.finish, State.write]⟩

theorem serialFrom_get {acc : List OpId} {cl : List CRec} (h : SerialFrom acc cl) {i : Nat} {r : CRec}
    (hi : cl[i]? = some r) : r.base = acc ++ logOf (cl.take i) := by
  induction cl generalizing acc i with
  | nil => simp at hi
  | cons x xs ih =>
    cases i with
    | zero =>
      simp at hi; subst hi
      simp [h.1]
    | succ i =>
      simp at hi
      have := ih h.2 hi
      simp [logOf_cons, this, List.append_assoc]

theorem logOf_take_lt {cl : List CRec} {i j : Nat} {r : CRec} (hi : cl[i]? = some r) (hij : i < j) :
    ∃ rest, logOf (cl.take j) = logOf (cl.take i) ++ r.ops ++ rest := by
  induction cl generalizing i j with
  | nil => simp at hi
  | cons x xs ih =>
    cases j with
    | zero => omega
    | succ j =>
      cases i with
      | zero =>
        simp at hi; subst hi
        exact ⟨logOf (xs.take j), by simp [logOf_cons]⟩
      | succ i =>
        simp at hi
        obtain ⟨rest, h⟩ := ih (j := j) hi (by omega)
        exact ⟨rest, by simp [logOf_cons, h, List.append_assoc]⟩

theorem logOf_take_drop (cl : List CRec) (j : Nat) : logOf (cl.take j) ++ logOf (cl.drop j) = logOf cl := by
  simp only [logOf, ← List.flatten_append, ← List.map_append, List.take_append_drop]


theorem ninv_reachable {n : Nat} {s : State} (h : Reachable n s) : Ninv s := by
  induction h with
  | init => exact ninv_init n
  | step hr hs ih =>
    have bd := (inv_reachable hr).2.bnd
    have lv := linv_reachable hr
    rcases step_cases hs with ⟨hp, h'⟩ | h' | h' | h' | ⟨hp, h'⟩ | h' | h' | h' | h'
    · exact ninv_idle bd lv ih hp h'
    · exact ninv_begin bd lv ih h'
    · exact ninv_commit bd lv ih h'
    · exact ninv_abort bd lv ih h'
    · exact ninv_after bd lv ih hp h'
    · exact ninv_use bd lv ih h'
    · exact ninv_sess bd lv ih h'
    · exact ninv_close bd lv ih h'
    · exact ninv_exp bd lv ih h'


end Lungo.Conc
