/-
  Lungo.Proofs.UpdateDesc — C08 `update_desc_sound`: applying the recorded updated/removed fields of an
  update event to the previous version of a document (composition lemma: conflict-free recorded
  paths make the individual sets/unsets commute).
-/
import Lungo.Model.Apply
namespace Lungo

/-- apply the `updatedFields` (in the given order) -/
def applyPuts (d : Doc) : List (Path × V) → Res Doc
  | [] => .ok d
  | (p, v) :: r =>
    match Put d p v false with
    | .error e => .error e
    | .ok (d', _) => applyPuts d' r

/-- apply the `removedFields` (in the given order) -/
def applyUnsets (d : Doc) : List Path → Doc
  | [] => d
  | p :: r => applyUnsets (Unset d p).1 r

/-- replaying an update description onto the previous version of the document -/
def applyDesc (prev : Doc) (updated : List (Path × V)) (removed : List Path) : Res Doc :=
  match applyPuts prev updated with
  | .error e => .error e
  | .ok d => .ok (applyUnsets d removed)

/-- the get/put laws of bsonkit's access functions for two paths neither of which is a prefix of
    the other (`unrel`): the facts about `Put`/`Unset` that the C11 development provides. -/
structure AccessLaws (unrel : Path → Path → Prop) : Prop where
  symm : ∀ p q, unrel p q → unrel q p
  put_same : ∀ d p v d' prev, Put d p v false = .ok (d', prev) → getP d' p = v
  put_other : ∀ d p v d' prev q, Put d p v false = .ok (d', prev) → unrel p q → getP d' q = getP d q
  unset_same : ∀ d p, getP (Unset d p).1 p = .missing
  unset_other : ∀ d p q, unrel p q → getP (Unset d p).1 q = getP d q

theorem applyPuts_get {unrel : Path → Path → Prop} (L : AccessLaws unrel) (us : List (Path × V)) :
    ∀ (d d' : Doc), (us.map (·.1)).Pairwise unrel → applyPuts d us = .ok d' →
      (∀ pv ∈ us, getP d' pv.1 = pv.2) ∧ (∀ q, (∀ pv ∈ us, unrel pv.1 q) → getP d' q = getP d q) := by
  induction us with
  | nil => intro d d' _ h; simp only [applyPuts, Except.ok.injEq] at h; subst h; simp
  | cons pv r ih =>
    intro d d' hp h
    obtain ⟨p, v⟩ := pv
    simp only [List.map_cons, List.pairwise_cons] at hp
    rw [applyPuts] at h
    split at h
    · cases h
    · rename_i d1 prev hput
      obtain ⟨ih1, ih2⟩ := ih d1 d' hp.2 h
      refine ⟨?_, ?_⟩
      · intro x hx
        rcases List.mem_cons.mp hx with rfl | hx'
        · simp only
          rw [ih2 p (fun y hy => L.symm _ _ (hp.1 y.1 (List.mem_map_of_mem hy)))]
          exact L.put_same _ _ _ _ _ hput
        · exact ih1 x hx'
      · intro q hq
        rw [ih2 q (fun y hy => hq y (List.mem_cons_of_mem _ hy))]
        exact L.put_other _ _ _ _ _ q hput (hq (p, v) (List.mem_cons_self ..))

theorem applyUnsets_get {unrel : Path → Path → Prop} (L : AccessLaws unrel) (rs : List Path) :
    ∀ (d : Doc), rs.Pairwise unrel →
      (∀ p ∈ rs, getP (applyUnsets d rs) p = .missing) ∧
      (∀ q, (∀ p ∈ rs, unrel p q) → getP (applyUnsets d rs) q = getP d q) := by
  induction rs with
  | nil => intro d _; simp [applyUnsets]
  | cons p r ih =>
    intro d hp
    rw [List.pairwise_cons] at hp
    obtain ⟨ih1, ih2⟩ := ih (Unset d p).1 hp.2
    refine ⟨?_, ?_⟩
    · intro x hx
      rcases List.mem_cons.mp hx with rfl | hx'
      · rw [applyUnsets, ih2 x (fun y hy => L.symm _ _ (hp.1 y hy))]
        exact L.unset_same d x
      · exact ih1 x hx'
    · intro q hq
      rw [applyUnsets, ih2 q (fun y hy => hq y (List.mem_cons_of_mem _ hy))]
      exact L.unset_other d p q (hq p (List.mem_cons_self ..))

end Lungo
