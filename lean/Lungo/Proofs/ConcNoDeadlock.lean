/-
  Lungo.Proofs.ConcNoDeadlock — (sessions may be shared) some non-fault step is always enabled
  unless every unfinished actor waits for the token that a client deliberately holds.
-/
import Lungo.Proofs.ConcProgress
import Lungo.Proofs.ConcHolder
namespace Lungo.Conc

/-- labels that are not faults, not timeouts, not new calls and not ticker events -/
def Progress (c : Choice) : Prop :=
  c = .go ∨ c = .tok ∨ c = .dying ∨ c = .storeOk ∨ c = .cbNoop

def CanStep (s : State) : Prop := ∃ a c, Progress c ∧ (step s a c).isSome = true

/-- the installed transaction is held by a client at rest: a session's `txn` or a direct handle -/
def ClientHeld (s : State) (t : Tid) : Prop :=
  (∃ sid, (s.sess sid).txn = some t) ∨ (∃ b, (s.loc b).handle = some t)

def Parked (pc : Pc) : Prop := pc = .idle ∨ pc = .xWait ∨ pc = .xExited ∨ pc = .bAcquire

/-- every actor is idle or waits for the token, which a client holds on purpose -/
def TokenWait (s : State) : Prop :=
  s.eng.alive = true ∧ s.eng.token = 0 ∧ (∃ t, s.eng.txn = some t ∧ ClientHeld s t) ∧
  ∀ a, Parked (s.loc a).pc

macro "en_tac" c:term : tactic => `(tactic| (
  refine ⟨$c, by simp [Progress], ?_⟩
  simp only [step, *, if_false, stepBegin, stepCommit, stepAbort, stepAfter, stepUse, stepSess,
    stepClose, stepExp]
  (try split) <;> (try split) <;> (try split) <;> (try split) <;> simp_all))

/-- control points at which the actor waits for a session mutex -/
def SWait (pc : Pc) : Prop :=
  pc = .uSessLock ∨ pc = .bSessLock ∨ pc = .ssLock ∨ pc = .ssRelock ∨ pc = .scLock ∨ pc = .saLock

/-- an actor that is neither parked, nor in `Close`'s wait, nor waiting for a session mutex, nor
    inside an `e.mutex` section (the engine mutex is free) can take a non-fault step -/
theorem local_enabled {n : Nat} {s : State} {a : ActorId} (h : Reachable n s)
    (hm : s.eng.mutex = none) (hle : ¬ a > s.n)
    (hp : ¬ Parked (s.loc a).pc) (hw : (s.loc a).pc ≠ .clWait) (hsw : ¬ SWait (s.loc a).pc) :
    ∃ c, Progress c ∧ (step s a c).isSome = true := by
  obtain ⟨i, j⟩ := inv_reachable h
  have he := (i.mutex_iff a)
  rw [hm] at he
  have lw := j.lwf a
  simp only [LWf] at lw
  simp only [Parked] at hp
  simp only [SWait] at hsw
  simp only [EHold] at he
  cases hpc : (s.loc a).pc
  all_goals (first | (exfalso; simp_all; done) | skip)
  case bLock => en_tac Choice.go
  case bRelock => en_tac Choice.go
  case cLock => en_tac Choice.go
  case aLock => en_tac Choice.go
  case clLock => en_tac Choice.go
  case kLock => en_tac Choice.go
  case after =>
    refine ⟨.go, by simp [Progress], ?_⟩
    simp only [step, hle, if_false, hpc, stepAfter]
    cases (s.loc a).k <;> simp <;> (try split) <;> (try split) <;> simp
  case bSessRead =>
    have hc := lw.2.1 (by simp [hpc])
    obtain ⟨sid, hsid⟩ := Option.isSome_iff_exists.mp hc
    refine ⟨.go, by simp [Progress], ?_⟩
    simp only [step, hle, if_false, hpc, stepBegin, hsid]
    split <;> simp
  case uSessRead =>
    have hc := lw.2.1 (by simp [hpc])
    obtain ⟨sid, hsid⟩ := Option.isSome_iff_exists.mp hc
    refine ⟨.go, by simp [Progress], ?_⟩
    simp only [step, hle, if_false, hpc, stepUse, hsid]
    split <;> simp
  case uCb =>
    have hc := lw.2.2.1 (by simp [hpc])
    obtain ⟨t, ht⟩ := Option.isSome_iff_exists.mp hc
    refine ⟨.cbNoop, by simp [Progress], ?_⟩
    simp [step, hle, hpc, stepUse, ht]
  case uCbSess =>
    have hc := lw.2.2.1 (by simp [hpc])
    obtain ⟨t, ht⟩ := Option.isSome_iff_exists.mp hc
    refine ⟨.cbNoop, by simp [Progress], ?_⟩
    simp [step, hle, hpc, stepUse, ht]
  case uCbRead =>
    have hc := lw.2.2.1 (by simp [hpc])
    obtain ⟨t, ht⟩ := Option.isSome_iff_exists.mp hc
    refine ⟨.cbNoop, by simp [Progress], ?_⟩
    simp [step, hle, hpc, stepUse, ht]
  case xExpire =>
    have hc := lw.2.2.1 (by simp [hpc])
    obtain ⟨t, ht⟩ := Option.isSome_iff_exists.mp hc
    refine ⟨.cbNoop, by simp [Progress], ?_⟩
    simp [step, hle, hpc, stepExp, ht]
  case ssReserve =>
    refine ⟨.go, by simp [Progress], ?_⟩
    simp only [step, hle, if_false, hpc, stepSess]
    (try split) <;> (try split) <;> simp
  case ssFinal =>
    refine ⟨.go, by simp [Progress], ?_⟩
    simp only [step, hle, if_false, hpc, stepSess]
    (try split) <;> (try split) <;> simp
  case scBody =>
    refine ⟨.go, by simp [Progress], ?_⟩
    simp only [step, hle, if_false, hpc, stepSess]
    (try split) <;> (try split) <;> simp
  case saBody =>
    refine ⟨.go, by simp [Progress], ?_⟩
    simp only [step, hle, if_false, hpc, stepSess]
    (try split) <;> (try split) <;> simp
  case clStreams =>
    refine ⟨.go, by simp [Progress], ?_⟩
    simp [step, hle, hpc, stepClose]

/-- the session an actor at a session-lock wait wants -/
def wantS (l : Local) : SessId :=
  if l.pc = .uSessLock ∨ l.pc = .bSessLock then l.ctxSess.getD 0 else l.sid

/-- an actor waiting for a session mutex: either the mutex is free and it proceeds, or the holder
    (which never waits for a session mutex itself, and `e.mutex` is free) proceeds -/
theorem swait_progress {n : Nat} {s : State} {a : ActorId} (h : Reachable n s)
    (hm : s.eng.mutex = none) (hle : ¬ a > s.n) (hsw : SWait (s.loc a).pc) : CanStep s := by
  obtain ⟨i, j⟩ := inv_reachable h
  have lw := j.lwf a
  simp only [LWf] at lw
  cases hmx : (s.sess (wantS (s.loc a))).mutex with
  | none =>
    refine ⟨a, .go, by simp [Progress], ?_⟩
    simp only [SWait] at hsw
    rcases hsw with hpc | hpc | hpc | hpc | hpc | hpc
    · have hc := lw.2.1 (by simp [hpc])
      obtain ⟨sid, hsid⟩ := Option.isSome_iff_exists.mp hc
      simp [wantS, hpc, hsid] at hmx
      simp [step, hle, hpc, stepUse, hsid, hmx]
    · have hc := lw.2.1 (by simp [hpc])
      obtain ⟨sid, hsid⟩ := Option.isSome_iff_exists.mp hc
      simp [wantS, hpc, hsid] at hmx
      simp [step, hle, hpc, stepBegin, hsid, hmx]
    · simp [wantS, hpc] at hmx
      simp [step, hle, hpc, stepSess, hmx]
    · simp [wantS, hpc] at hmx
      simp [step, hle, hpc, stepSess, hmx]
    · simp [wantS, hpc] at hmx
      simp [step, hle, hpc, stepSess, hmx]
    · simp [wantS, hpc] at hmx
      simp [step, hle, hpc, stepSess, hmx]
  | some b =>
    have hb := (i.smutex_iff b _).1 hmx
    have hbn : ¬ b > s.n := by
      intro hgt
      have := j.rng b hgt
      simp [SHold, this] at hb
    have hbp : ¬ Parked (s.loc b).pc := by
      simp only [SHold] at hb; simp only [Parked]; grind
    have hbw : (s.loc b).pc ≠ .clWait := by
      simp only [SHold] at hb; grind
    have hbs : ¬ SWait (s.loc b).pc := by
      simp only [SHold] at hb; simp only [SWait]; grind
    obtain ⟨c, hc, hs⟩ := local_enabled h hm hbn hbp hbw hbs
    exact ⟨b, c, hc, hs⟩

theorem no_deadlock_aux {n : Nat} {s : State} (h : Reachable n s)
    (hun : ∃ a, (s.loc a).pc ≠ .idle ∧ (s.loc a).pc ≠ .xWait ∧ (s.loc a).pc ≠ .xExited) :
    CanStep s ∨ TokenWait s := by
  obtain ⟨i, j⟩ := inv_reachable h
  obtain ⟨x1, x2, x3⟩ := xinv_reachable h
  have hrange : ∀ a, (s.loc a).pc ≠ .idle → ¬ a > s.n := fun a hp hgt => hp (j.rng a hgt)
  cases hm : s.eng.mutex with
  | some b =>
    left
    obtain ⟨c, hc, hs⟩ := holder_progress h hm
    exact ⟨b, c, by rcases hc with rfl | rfl <;> simp [Progress], hs⟩
  | none =>
    by_cases hex : ∃ a, ¬ Parked (s.loc a).pc ∧ (s.loc a).pc ≠ .clWait
    · obtain ⟨a, hp, hw⟩ := hex
      left
      have hle : ¬ a > s.n := hrange a (fun hi => hp (Or.inl hi))
      by_cases hsw : SWait (s.loc a).pc
      · exact swait_progress h hm hle hsw
      · obtain ⟨c, hc, hs⟩ := local_enabled h hm hle hp hw hsw
        exact ⟨a, c, hc, hs⟩
    · have hall : ∀ a, Parked (s.loc a).pc ∨ (s.loc a).pc = .clWait := by
        intro a
        by_cases hp : Parked (s.loc a).pc
        · exact Or.inl hp
        · right
          by_cases hw : (s.loc a).pc = .clWait
          · exact hw
          · exact absurd ⟨a, hp, hw⟩ hex
      obtain ⟨a0, h0i, h0w, h0e⟩ := hun
      have hle0 : ¬ a0 > s.n := hrange a0 h0i
      cases hal : s.eng.alive with
      | true =>
        have hpark : ∀ a, Parked (s.loc a).pc := by
          intro a
          rcases hall a with hp | hw
          · exact hp
          · have := x2 a (Or.inr hw); simp [hal] at this
        have h0a : (s.loc a0).pc = .bAcquire := by
          have := hpark a0
          simp only [Parked] at this
          rcases this with hh | hh | hh | hh
          · exact absurd hh h0i
          · exact absurd hh h0w
          · exact absurd hh h0e
          · exact hh
        by_cases htok : s.eng.token = 1
        · left
          exact ⟨a0, .tok, by simp [Progress], by simp [step, hle0, h0a, stepBegin, htok]⟩
        · right
          have hc := i.conserv
          have hnoholder : s.eng.holder = none := by
            cases hh : s.eng.holder with
            | none => rfl
            | some b =>
              have ht := (i.holder_iff b).1 hh
              have hp := hpark b
              simp only [THold] at ht
              simp only [Parked] at hp
              grind
          rw [hnoholder] at hc
          cases htx : s.eng.txn with
          | none => simp [htx] at hc; omega
          | some t =>
            have ht0 : s.eng.token = 0 := by simp [htx] at hc; omega
            refine ⟨hal, ht0, ⟨t, htx, ?_⟩, hpark⟩
            have ho := j.oinv.1 hal t htx
            unfold Owned at ho
            cases hown : s.eng.own with
            | actor b =>
              rw [hown] at ho
              have hp := hpark b
              simp only [OwnsL] at ho
              simp only [Parked] at hp
              right
              refine ⟨b, ?_⟩
              grind
            | sess sid =>
              rw [hown] at ho
              exact Or.inl ⟨sid, ho⟩
      | false =>
        left
        rcases hall a0 with hp | hw
        · have h0a : (s.loc a0).pc = .bAcquire := by
            simp only [Parked] at hp
            rcases hp with hh | hh | hh | hh
            · exact absurd hh h0i
            · exact absurd hh h0w
            · exact absurd hh h0e
            · exact hh
          exact ⟨a0, .dying, by simp [Progress], by simp [step, hle0, h0a, stepBegin, hal]⟩
        · -- Close waits for the expiry goroutine, which can exit
          have hle00 : ¬ (0 : Nat) > s.n := by omega
          have h00 := hall 0
          simp only [ExpFlow] at x1
          simp only [Parked] at h00
          by_cases hx : (s.loc 0).pc = .xExited
          · exact ⟨a0, .go, by simp [Progress], by simp [step, hle0, hw, stepClose, hx]⟩
          · by_cases hxw : (s.loc 0).pc = .xWait
            · exact ⟨0, .dying, by simp [Progress], by simp [step, hxw, stepExp, hal]⟩
            · have hb : (s.loc 0).pc = .bAcquire := by grind
              exact ⟨0, .dying, by simp [Progress], by simp [step, hb, stepBegin, hal]⟩

end Lungo.Conc
