/-
  Lungo.Proofs.OwnSound — soundness of the static ownership check `check` (Model/Own.lean):
  a checked statement, run from a state satisfying the abstract state, only `Step`s the heap (writes go to
  objects allocated in this call — or, in the lenient mode, to the caller's documents), leaves a state
  satisfying the abstract state of the edge it leaves by, and a return with `err` set has not assigned `t`.
-/
import Lungo.Proofs.OwnHeap
namespace Lungo.Own

/-- concretisation of the ownership part of an abstract state -/
structure Gam (cx : Ctx) (t0 : TxnState) (a : Abs) (st : St) : Prop where
  vars : ∀ v, a.owns v = true → ∀ o, (st.env.vars.lookup v).join = some o → Own cx st.heap o
  docs : ∀ v, a.ownsDocs v = true → ∀ o ∈ st.docsOf v, cx.base ≤ o
  tcat : a.tcatOwned = true → Own cx st.heap st.txn.catalog
  txn : a.assigned = false → st.txn = t0

/-- invariant of a call that started in heap `h0` -/
structure Inv (cx : Ctx) (h0 : Heap) (st : St) : Prop where
  base : cx.base ≤ h0.size
  step : Step cx h0 st.heap
  docs : ∀ v, ∀ o ∈ st.docsOf v, cx.base ≤ o ∨ o ∈ cx.ex

variable {cx : Ctx} {t0 : TxnState} {h0 : Heap}

/-- same ownership-relevant components -/
def Abs.coreEq (a b : Abs) : Prop := a.owned = b.owned ∧ a.ownedDocs = b.ownedDocs ∧ a.tcatOwned = b.tcatOwned ∧ a.assigned = b.assigned

theorem Gam.congr {a b : Abs} {st : St} (e : a.coreEq b) (g : Gam cx t0 a st) : Gam cx t0 b st := by
  obtain ⟨e1, e1', e2, e3⟩ := e
  refine ⟨fun v hv => g.vars v ?_, fun v hv => g.docs v ?_, fun h => g.tcat (e2 ▸ h), fun h => g.txn (e3 ▸ h)⟩
  · simpa [Abs.owns, e1] using hv
  · simpa [Abs.ownsDocs, e1'] using hv

/-- Gam only looks at heap, txn, env.vars, env.docs -/
theorem Gam.frame {a : Abs} {st st' : St} (eh : st'.heap = st.heap) (et : st'.txn = st.txn)
    (ev : st'.env.vars = st.env.vars) (ed : st'.env.docs = st.env.docs) (g : Gam cx t0 a st) : Gam cx t0 a st' := by
  refine ⟨fun v hv o ho => ?_, fun v hv o ho => ?_, fun h => ?_, fun h => ?_⟩
  · rw [eh]; rw [ev] at ho; exact g.vars v hv o ho
  · simp only [St.docsOf, ed] at ho; exact g.docs v hv o ho
  · rw [eh, et]; exact g.tcat h
  · rw [et]; exact g.txn h

theorem Inv.frame {st st' : St} (eh : st'.heap = st.heap) (ed : st'.env.docs = st.env.docs)
    (i : Inv cx h0 st) : Inv cx h0 st' := by
  refine ⟨i.base, eh ▸ i.step, fun v o ho => ?_⟩
  simp only [St.docsOf, ed] at ho; exact i.docs v o ho

theorem Abs.owns_join {a b : Abs} {v : Var} (h : (a.join b).owns v = true) : a.owns v = true ∧ b.owns v = true := by
  simp only [Abs.owns, Abs.join, Bool.and_eq_true, List.contains_eq_mem, List.mem_filter, decide_eq_true_eq] at *
  exact ⟨⟨h.1, h.2.1⟩, ⟨h.1, h.2.2⟩⟩

theorem Abs.ownsDocs_join {a b : Abs} {v : Var} (h : (a.join b).ownsDocs v = true) :
    a.ownsDocs v = true ∧ b.ownsDocs v = true := by
  simp only [Abs.ownsDocs, Abs.join, List.contains_eq_mem, List.mem_filter, decide_eq_true_eq] at *
  exact h

theorem Gam.join_left {a b : Abs} {st : St} (g : Gam cx t0 a st) : Gam cx t0 (a.join b) st :=
  ⟨fun v hv => g.vars v (Abs.owns_join hv).1, fun v hv => g.docs v (Abs.ownsDocs_join hv).1,
   fun h => g.tcat (by simp [Abs.join] at h; exact h.1), fun h => g.txn (by simp [Abs.join] at h; exact h.1)⟩

theorem Gam.join_right {a b : Abs} {st : St} (g : Gam cx t0 b st) : Gam cx t0 (a.join b) st :=
  ⟨fun v hv => g.vars v (Abs.owns_join hv).2, fun v hv => g.docs v (Abs.ownsDocs_join hv).2,
   fun h => g.tcat (by simp [Abs.join] at h; exact h.2), fun h => g.txn (by simp [Abs.join] at h; exact h.2)⟩

theorem Abs.owns_le {a b : Abs} {v : Var} (l : a.le b = true) (h : a.owns v = true) : b.owns v = true := by
  simp only [Abs.le, Bool.and_eq_true, List.all_eq_true] at l
  simp only [Abs.owns, Bool.and_eq_true] at *
  exact ⟨h.1, l.1.1.1.1.1.1 v (by simpa using h.2)⟩

theorem Abs.ownsDocs_le {a b : Abs} {v : Var} (l : a.le b = true) (h : a.ownsDocs v = true) : b.ownsDocs v = true := by
  simp only [Abs.le, Bool.and_eq_true, List.all_eq_true] at l
  simp only [Abs.ownsDocs] at *
  exact l.1.1.1.1.1.2 v (by simpa using h)

theorem Gam.le {a b : Abs} {st : St} (l : a.le b = true) (g : Gam cx t0 b st) : Gam cx t0 a st := by
  have l' := l
  simp only [Abs.le, Bool.and_eq_true, Bool.or_eq_true, Bool.not_eq_true'] at l'
  refine ⟨fun v hv => g.vars v (Abs.owns_le l hv), fun v hv => g.docs v (Abs.ownsDocs_le l hv), fun h => g.tcat ?_, fun h => g.txn ?_⟩
  · rcases l'.1.1.1.1.2 with h' | h'
    · rw [h] at h'; cases h'
    · exact h'
  · rcases l'.1.1.1.2 with h' | h'
    · exact h'
    · rw [h] at h'; cases h'

/-- "some abstract state on this edge is satisfied" -/
def Sat (cx : Ctx) (t0 : TxnState) (x : Option Abs) (st : St) : Prop := ∃ a, x = some a ∧ Gam cx t0 a st

theorem Sat.joinL {x y : Option Abs} {st : St} (s : Sat cx t0 x st) : Sat cx t0 (joinO x y) st := by
  obtain ⟨a, rfl, g⟩ := s
  cases y with
  | none => exact ⟨a, rfl, g⟩
  | some b => exact ⟨_, rfl, g.join_left⟩

theorem Sat.joinR {x y : Option Abs} {st : St} (s : Sat cx t0 y st) : Sat cx t0 (joinO x y) st := by
  obtain ⟨b, rfl, g⟩ := s
  cases x with
  | none => exact ⟨b, rfl, g⟩
  | some a => exact ⟨_, rfl, g.join_right⟩

theorem Sat.le {a : Abs} {x : Option Abs} {st : St} (l : leO a x = true) (s : Sat cx t0 x st) : Gam cx t0 a st := by
  obtain ⟨b, rfl, g⟩ := s
  exact g.le l

/-! ### state updates -/

theorem Inv.base_le {st : St} (i : Inv cx h0 st) : cx.base ≤ st.heap.size :=
  Nat.le_trans i.base i.step.size

theorem Gam.heap {a : Abs} {st : St} {h' : Heap} (g : Gam cx t0 a st) (s : Step cx st.heap h') :
    Gam cx t0 a { st with heap := h' } :=
  ⟨fun v hv o ho => (g.vars v hv o ho).step s, g.docs, fun h => (g.tcat h).step s, g.txn⟩

theorem Inv.heap {st : St} {h' : Heap} (i : Inv cx h0 st) (s : Step cx st.heap h') :
    Inv cx h0 { st with heap := h' } :=
  ⟨i.base, i.step.trans s, i.docs⟩

theorem Abs.owns_forget {a : Abs} {v w : Var} (h : (a.forget v).owns w = true) : w ≠ v ∧ a.owns w = true := by
  simp only [Abs.owns, Abs.forget, Bool.and_eq_true, List.contains_eq_mem, List.mem_filter, decide_eq_true_eq,
    bne_iff_ne, ne_eq] at *
  exact ⟨h.2.2, h.1, h.2.1⟩

theorem lookup_bind_ne {st : St} {v w : Var} {x : Option Nat} (h : w ≠ v) :
    ((st.bind v x).env.vars.lookup w) = st.env.vars.lookup w := by
  simp only [St.bind, List.lookup]
  have : (w == v) = false := by simpa using h
  rw [this]

theorem lookup_bind_eq {st : St} {v : Var} {x : Option Nat} :
    ((st.bind v x).env.vars.lookup v) = some x := by
  simp [St.bind]

theorem Gam.bindOwned {a : Abs} {st : St} {v : Var} {x : Option Nat} (g : Gam cx t0 a st)
    (hx : ∀ o, x = some o → Own cx st.heap o) : Gam cx t0 (a.bindOwned v) (st.bind v x) := by
  refine ⟨fun w hw o ho => ?_, g.docs, g.tcat, g.txn⟩
  by_cases e : w = v
  · subst e; rw [lookup_bind_eq] at ho; exact hx o (by simpa using ho)
  · rw [lookup_bind_ne e] at ho
    have hw' : (a.forget v).owns w = true := by
      simp only [Abs.owns, Abs.bindOwned, Bool.and_eq_true, List.contains_eq_mem, List.mem_cons,
        decide_eq_true_eq] at hw ⊢
      exact ⟨hw.1, hw.2.resolve_left e⟩
    exact g.vars w (Abs.owns_forget hw').2 o ho

theorem Gam.bindAlias {a : Abs} {st : St} {v : Var} {x : Option Nat} (g : Gam cx t0 a st) :
    Gam cx t0 (a.bindAlias v) (st.bind v x) := by
  refine ⟨fun w hw o ho => ?_, g.docs, g.tcat, g.txn⟩
  have hw' : (a.forget v).owns w = true := by simpa [Abs.owns, Abs.bindAlias] using hw
  have := Abs.owns_forget hw'
  rw [lookup_bind_ne this.1] at ho
  exact g.vars w this.2 o ho

theorem Inv.bind {st : St} {v : Var} {x : Option Nat} (i : Inv cx h0 st) : Inv cx h0 (st.bind v x) :=
  Inv.frame (st := st) (st' := st.bind v x) rfl rfl i

theorem St.var_of_owns {a : Abs} {st : St} {v : Var} (h : a.owns v = true) :
    st.var v = (st.env.vars.lookup v).join := by
  have : v ≠ tcat := by simp [Abs.owns] at h; exact h.1
  simp [St.var, this]

theorem Gam.var_own {a : Abs} {st : St} {v : Var} {o : Nat} (g : Gam cx t0 a st) (h : a.owns v = true)
    (hv : st.var v = some o) : Own cx st.heap o :=
  g.vars v h o (by rw [← St.var_of_owns h]; exact hv)

theorem Gam.cat_own {a : Abs} {st : St} {c : Var} {o : Nat} (g : Gam cx t0 a st) (h : a.ownsCat c = true)
    (hv : st.var c = some o) : Own cx st.heap o := by
  simp only [Abs.ownsCat, Bool.or_eq_true, Bool.and_eq_true, beq_iff_eq] at h
  rcases h with h | ⟨rfl, h⟩
  · exact g.var_own h hv
  · have : st.var Lungo.Own.tcat = some st.txn.catalog := by simp [St.var]
    rw [this] at hv; cases hv; exact g.tcat h

theorem St.obj_some {st : St} {v : Var} {o : Nat} {x : Obj} (h : st.obj v = some (o, x)) :
    st.var v = some o ∧ st.heap.get o = some x := by
  simp only [St.obj] at h
  split at h
  · cases h
  · rename_i o' ho'
    cases hg : st.heap.get o' with
    | none => simp [hg] at h
    | some y => simp [hg] at h; obtain ⟨rfl, rfl⟩ := h; exact ⟨ho', hg⟩

/-! ### heap builders -/

theorem newCollH_spec (h : Heap) (hb : cx.base ≤ h.size) :
    Step cx h (newCollH h).1 ∧ Own cx (newCollH h).1 (newCollH h).2 := by
  simp only [newCollH]
  refine ⟨((Step.alloc cx h _).trans (Step.alloc cx _ _)).trans (Step.alloc cx _ _), ?_⟩
  have := Own.alloc (cx := cx) ((h.alloc (.set [])).1.alloc (.idx [])).1 (.coll h.size [("_id_", h.size + 1)])
    (by simp; omega) (by
      intro s i e; cases e
      refine ⟨hb, fun p hp => ?_⟩
      simp at hp; subst hp; simp; omega)
  simpa using this

theorem cloneCollH_spec (h : Heap) (s : Nat) (idxs : List (String × Nat)) (hb : cx.base ≤ h.size) :
    Step cx h (cloneCollH h s idxs).1 ∧ Own cx (cloneCollH h s idxs).1 (cloneCollH h s idxs).2 := by
  simp only [cloneCollH]
  refine ⟨((Step.alloc cx h _).trans (Step.allocs cx _ _)).trans (Step.alloc cx _ _), ?_⟩
  have hs : cx.base ≤ ((h.alloc (.set (setList h s))).1.allocs (idxs.map fun p => Obj.idx (idxEntries h p.2))).1.size := by
    rw [Heap.allocs_size]; simp; omega
  exact Own.alloc _ _ hs (by
    intro s' i e; cases e
    refine ⟨hb, fun p hp => ?_⟩
    have := (Heap.allocs_ids _ _ p.2 (List.of_mem_zip hp).2).1
    simp at this; omega)

theorem lookup_mem {α β : Type} [BEq α] [LawfulBEq α] {l : List (α × β)} {k : α} {v : β}
    (h : l.lookup k = some v) : (k, v) ∈ l := by
  induction l with
  | nil => simp [List.lookup] at h
  | cons p ps ih =>
    obtain ⟨k', v'⟩ := p
    simp only [List.lookup] at h
    by_cases e : k == k'
    · simp only [e] at h; cases h
      have : k = k' := by simpa using e
      subst this; exact List.mem_cons_self ..
    · have e' : (k == k') = false := by simpa using e
      simp only [e'] at h; exact List.mem_cons_of_mem _ (ih h)

theorem applyMutPre_step (h : Heap) {s : Nat} {idxs : List (String × Nat)} (args : List Nat) (mu : Mut)
    (hs : cx.base ≤ s) (hi : ∀ p ∈ idxs, cx.base ≤ p.2) (ha : mu.argVals ≠ [] → ∀ a ∈ args, Writable cx a) :
    Step cx h (applyMutPre h s idxs args mu) := by
  unfold applyMutPre
  extract_lets h1 h2 h3
  have s1 : Step cx h h1 := Step.allocs cx h _
  have s2 : Step cx h1 h2 := Step.writes _ _ (by
    intro p hp
    obtain ⟨p1, p2⟩ := List.of_mem_zip hp
    obtain ⟨v, hv, e⟩ := List.mem_map.mp p2
    refine ⟨ha (List.ne_nil_of_mem hv) _ p1, ?_⟩
    rw [← e]; exact FreshObj.doc)
  have s3 : Step cx h2 h3 := by
    show Step cx h2 (match mu.list with
      | some l => h2.write s (.set (l.filter (· < h1.size)))
      | none => h2)
    cases mu.list with
    | none => exact Step.refl _ _
    | some l => exact Step.write _ (.inl hs) FreshObj.set
  refine ((s1.trans s2).trans s3).trans (Step.writes _ _ ?_)
  intro p hp
  simp only [idxWrites, List.mem_filterMap, Option.map_eq_some_iff] at hp
  obtain ⟨w0, _, q, hq, rfl⟩ := hp
  exact ⟨.inl (hi _ (lookup_mem hq)), FreshObj.idx⟩

/-- a Collection method call on an owned collection only `Step`s the heap, whatever it does -/
theorem applyMut_step (h : Heap) {o s : Nat} {idxs : List (String × Nat)} (args : List Nat) (mu : Mut)
    (w : Own cx h o) (hg : h.get o = some (.coll s idxs)) (ha : mu.argVals ≠ [] → ∀ a ∈ args, Writable cx a) :
    Step cx h (applyMut h o s idxs args mu) := by
  obtain ⟨hs, hi⟩ := w.parts _ hg s idxs rfl
  have s14 := applyMutPre_step (cx := cx) h args mu hs hi ha
  simp only [applyMut]
  generalize applyMutPre h s idxs args mu = h4 at s14 ⊢
  generalize (h.allocs (mu.newDocs.map Obj.doc)).1.size = bound
  have s5 := Step.allocs cx h4 (mu.add.map fun a => Obj.idx (a.2.filter (· < bound)))
  have hids := Heap.allocs_ids h4 (mu.add.map fun a => Obj.idx (a.2.filter (· < bound)))
  generalize h4.allocs (mu.add.map fun a => Obj.idx (a.2.filter (· < bound))) = r5 at s5 hids ⊢
  split
  · exact s14.trans s5
  · refine (s14.trans s5).trans (Step.write _ w.writable ?_)
    intro s' i' e; cases e
    refine ⟨hs, fun p hp => ?_⟩
    rcases List.mem_append.mp hp with hp | hp
    · exact hi p (List.mem_filter.mp hp).1
    · have := (hids p.2 (List.of_mem_zip hp).2).1
      have := s14.size; have := w.lt; have := w.fresh; omega

/-! ### conditions -/

theorem Cond.eval_frame (c : Cond) (st : St) :
    (c.eval st).2.heap = st.heap ∧ (c.eval st).2.txn = st.txn ∧ (c.eval st).2.env = st.env := by
  induction c generalizing st with
  | isNil e => simp [Cond.eval]
  | err => simp [Cond.eval]
  | test s => simp [Cond.eval, St.popFlag]
  | neg c ih => simpa [Cond.eval] using ih st
  | both a b iha ihb =>
    simp only [Cond.eval]
    obtain ⟨a1, a2, a3⟩ := iha st
    obtain ⟨b1, b2, b3⟩ := ihb (a.eval st).2
    exact ⟨b1.trans a1, b2.trans a2, b3.trans a3⟩
  | either a b iha ihb =>
    simp only [Cond.eval]
    obtain ⟨a1, a2, a3⟩ := iha st
    obtain ⟨b1, b2, b3⟩ := ihb (a.eval st).2
    exact ⟨b1.trans a1, b2.trans a2, b3.trans a3⟩

theorem Abs.coreEq.refl (a : Abs) : a.coreEq a := ⟨rfl, rfl, rfl, rfl⟩
theorem Abs.coreEq.trans {a b c : Abs} (x : a.coreEq b) (y : b.coreEq c) : a.coreEq c :=
  ⟨x.1.trans y.1, x.2.1.trans y.2.1, x.2.2.1.trans y.2.2.1, x.2.2.2.trans y.2.2.2⟩

theorem Cond.refine_core (c : Cond) (a : Abs) : a.coreEq (c.refine a).1 ∧ a.coreEq (c.refine a).2 := by
  induction c generalizing a with
  | isNil e => exact ⟨.refl a, .refl a⟩
  | err => exact ⟨.refl a, ⟨rfl, rfl, rfl, rfl⟩⟩
  | test s => exact ⟨.refl a, .refl a⟩
  | neg c ih => exact ⟨(ih a).2, (ih a).1⟩
  | both x y ihx ihy => exact ⟨(ihx a).1.trans (ihy _).1, .refl a⟩
  | either x y ihx ihy => exact ⟨.refl a, (ihx a).2.trans (ihy _).2⟩

theorem Gam.evalCond {a : Abs} {st : St} (c : Cond) (g : Gam cx t0 a st) : Gam cx t0 a (c.eval st).2 := by
  obtain ⟨e1, e2, e3⟩ := Cond.eval_frame c st
  exact g.frame e1 e2 (by rw [e3]) (by rw [e3])

theorem Inv.evalCond {st : St} (c : Cond) (i : Inv cx h0 st) : Inv cx h0 (c.eval st).2 := by
  obtain ⟨e1, _, e3⟩ := Cond.eval_frame c st
  exact i.frame e1 (by rw [e3])

/-! ### the main induction -/

/-- what holds on the edge a statement leaves by -/
def Post (cx : Ctx) (t0 : TxnState) (r : Res) (st' : St) : Sig → Prop
  | .next => Sat cx t0 r.next st'
  | .brk => Sat cx t0 r.brk st'
  | .cont => Sat cx t0 r.cont st'
  | .ret => Sat cx t0 r.ret st' ∧ (st'.env.err = true → st'.txn = t0)
  | .panic => True

theorem iterate_sound (f : St → St × Sig) (hd : Abs) (r2 : Res)
    (hf : ∀ st, Inv cx h0 st → Gam cx t0 hd st → Inv cx h0 (f st).1 ∧ Post cx t0 r2 (f st).1 (f st).2)
    (l1 : leO hd r2.next = true) (l2 : leO hd r2.cont = true) :
    ∀ n st, Inv cx h0 st → Gam cx t0 hd st →
      Inv cx h0 (iterate f n st).1 ∧
      Post cx t0 { next := joinO (some hd) r2.brk, ret := r2.ret } (iterate f n st).1 (iterate f n st).2 := by
  intro n
  induction n with
  | zero => intro st i g; exact ⟨i, Sat.joinL ⟨hd, rfl, g⟩⟩
  | succ n ih =>
    intro st i g
    obtain ⟨i', p'⟩ := hf st i g
    simp only [iterate]
    generalize f st = r at i' p'
    obtain ⟨st', sg⟩ := r
    cases sg with
    | next => exact ih st' i' (Sat.le l1 p')
    | cont => exact ih st' i' (Sat.le l2 p')
    | brk => exact ⟨i', Sat.joinR p'⟩
    | ret => exact ⟨i', p'⟩
    | panic => exact ⟨i', trivial⟩

theorem Gam.popHandle {a : Abs} {st : St} (g : Gam cx t0 a st) : Gam cx t0 a st.popHandle :=
  Gam.frame (st := st) (st' := st.popHandle) rfl rfl rfl rfl g
theorem Inv.popHandle {st : St} (i : Inv cx h0 st) : Inv cx h0 st.popHandle :=
  Inv.frame (st := st) (st' := st.popHandle) rfl rfl i

theorem Gam.setErr {a : Abs} {st : St} (b : Bool) (g : Gam cx t0 a st) : Gam cx t0 a (st.setErr b) :=
  Gam.frame (st := st) (st' := st.setErr b) rfl rfl rfl rfl g
theorem Inv.setErr {st : St} (b : Bool) (i : Inv cx h0 st) : Inv cx h0 (st.setErr b) :=
  Inv.frame (st := st) (st' := st.setErr b) rfl rfl i

end Lungo.Own
