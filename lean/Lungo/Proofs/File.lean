/-
  Lungo.Proofs.File — `File` ↔ BSON round trip and Store/Load identity on the lite catalog.
-/
import Lungo.Model.File
import Lungo.Proofs.Codec
namespace Lungo.Lite
open Lungo.Bson

/-! ### maps -/

theorem mapPut_fresh {α : Type} (k : String) (x : α) (acc : List (String × α))
    (h : k ∉ acc.map Prod.fst) : mapPut k x acc = acc ++ [(k, x)] := by
  induction acc with
  | nil => rfl
  | cons a r ih =>
    obtain ⟨k', y⟩ := a
    simp only [List.map_cons, List.mem_cons, not_or] at h
    have hne : ¬ k' = k := fun e => h.1 e.symm
    simp [mapPut, hne, ih h.2]

/-! ### FileIndex -/

theorem vIdx_idxV (i : FileIndex) : vIdx (idxV i) = .ok i := by
  obtain ⟨k, u, p, e⟩ := i
  cases k <;> cases p <;> simp [vIdx, idxV, lastField, optDocV, vOptDoc, vBool, vInt64]

theorem vIdxMap_idxFields (is acc : List (String × FileIndex))
    (h : (acc.map Prod.fst ++ is.map Prod.fst).Nodup) :
    vIdxMap (idxFields is) acc = .ok (acc ++ is) := by
  induction is generalizing acc with
  | nil => simp [idxFields, vIdxMap]
  | cons a r ih =>
    obtain ⟨n, i⟩ := a
    have hn : n ∉ acc.map Prod.fst := by
      intro hm
      rw [List.nodup_append] at h
      exact h.2.2 n hm n (by simp) rfl
    have h' : ((acc ++ [(n, i)]).map Prod.fst ++ r.map Prod.fst).Nodup := by
      simpa [List.append_assoc] using h
    simp only [idxFields, vIdxMap, vIdx_idxV, mapPut_fresh n i acc hn]
    rw [ih _ h']
    simp [List.append_assoc]

/-! ### FileNamespace -/

theorem vDocs_docsV (ds : List Doc) : vDocs (docsV ds) = .ok ds := by
  induction ds with
  | nil => rfl
  | cons d r ih => simp [docsV, vDocs, ih]

def FileNamespace.distinct (n : FileNamespace) : Prop :=
  ((n.indexes.getD []).map Prod.fst).Nodup

theorem vNs_nsV (n : FileNamespace) (h : n.distinct) : vNs (nsV n) = .ok n := by
  obtain ⟨ds, is⟩ := n
  cases ds <;> cases is <;>
    simp_all [vNs, nsV, lastField, vDocs_docsV, FileNamespace.distinct, Except.map,
      vIdxMap_idxFields _ []]

theorem vNsMap_nsFields (nss acc : List (String × FileNamespace))
    (h : (acc.map Prod.fst ++ nss.map Prod.fst).Nodup)
    (hd : ∀ x ∈ nss, x.2.distinct) :
    vNsMap (nsFields nss) acc = .ok (acc ++ nss) := by
  induction nss generalizing acc with
  | nil => simp [nsFields, vNsMap]
  | cons a r ih =>
    obtain ⟨n, x⟩ := a
    have hn : n ∉ acc.map Prod.fst := by
      intro hm
      rw [List.nodup_append] at h
      exact h.2.2 n hm n (by simp) rfl
    have h' : ((acc ++ [(n, x)]).map Prod.fst ++ r.map Prod.fst).Nodup := by
      simpa [List.append_assoc] using h
    have hx : x.distinct := hd (n, x) (by simp)
    simp only [nsFields, vNsMap, vNs_nsV x hx, mapPut_fresh n x acc hn]
    rw [ih _ h' (fun y hy => hd y (by simp [hy]))]
    simp [List.append_assoc]

/-! ### File -/

/-- Map keys are pairwise distinct (as in any Go map). -/
def File.distinct (f : File) : Prop :=
  ((f.namespaces.getD []).map Prod.fst).Nodup ∧ ∀ x ∈ f.namespaces.getD [], x.2.distinct

theorem docFile_fileDoc (f : File) (h : f.distinct) : docFile (fileDoc f) = .ok f := by
  obtain ⟨nss⟩ := f
  cases nss with
  | none => simp [docFile, fileDoc, lastField]
  | some nss =>
    have := vNsMap_nsFields nss [] (by simpa [File.distinct] using h.1)
      (by simpa [File.distinct] using h.2)
    simp [docFile, fileDoc, lastField, this, Except.map]

/-- `bson.Unmarshal(bson.Marshal(file)) = file` on the model. -/
theorem decodeFile_encodeFile (f : File) (h : f.distinct) (hw : wfEncDoc (fileDoc f) = true) :
    decodeFile (encodeFile f) = .ok f := by
  simp [decodeFile, encodeFile, decDoc_encDoc _ hw, docFile_fileDoc f h]

/-! ### BuildFile / BuildCatalog -/

theorem splitDot_append (a b : List Char) (h : '.' ∉ a) :
    splitDot (a ++ '.' :: b) = some (a, b) := by
  induction a with
  | nil => simp [splitDot]
  | cons c r ih =>
    simp only [List.mem_cons, not_or] at h
    have hc : ¬ c = '.' := fun e => h.1 e.symm
    simp [splitDot, hc, ih h.2]

theorem handleString_toList (db coll : String) :
    (handleString db coll).toList = db.toList ++ '.' :: coll.toList := by
  simp [handleString, String.toList_append]

theorem splitDot_handleString (db coll : String) (h : '.' ∉ db.toList) :
    splitDot (handleString db coll).toList = some (db.toList, coll.toList) := by
  rw [handleString_toList]; exact splitDot_append _ _ h

/-- Without a dot in the database name, `Handle.String` is injective. -/
theorem handleString_inj (db coll db' coll' : String) (h : '.' ∉ db.toList) (h' : '.' ∉ db'.toList)
    (e : handleString db coll = handleString db' coll') : db = db' ∧ coll = coll' := by
  have e1 := splitDot_handleString db coll h
  rw [e, splitDot_handleString db' coll' h'] at e1
  simp only [Option.some.injEq, Prod.mk.injEq] at e1
  exact ⟨(String.toList_inj.mp e1.1).symm, (String.toList_inj.mp e1.2).symm⟩

theorem fromFileIndexes_toFileIndexes (indexOk : IndexDef → List Doc → Bool) (docs : List Doc)
    (is : List (String × IndexDef)) (h : ∀ x ∈ is, indexOk x.2 docs = true) :
    fromFileIndexes indexOk docs (toFileIndexes is) = .ok is := by
  induction is with
  | nil => rfl
  | cons a r ih =>
    obtain ⟨n, d⟩ := a
    have hd : indexOk d docs = true := h (n, d) (by simp)
    have hr := ih (fun x hx => h x (by simp [hx]))
    obtain ⟨k, u, p, e⟩ := d
    simp only [toFileIndexes, fromFileIndexes, toFileIndex, hd, if_true, hr]

/-- What `BuildCatalog` needs from a catalog besides encodability. -/
structure Catalog.Loadable (indexOk : IndexDef → List Doc → Bool) (c : Catalog) : Prop where
  /-- no database name contains '.', the separator of the persisted handle string -/
  noDot : ∀ n ∈ c, '.' ∉ n.db.toList
  /-- every index is consistent with the documents of its collection (C15's `Inv`) -/
  idxOk : ∀ n ∈ c, ∀ x ∈ n.indexes, indexOk x.2 n.docs = true

theorem fromFileNamespaces_toFileNamespaces (indexOk : IndexDef → List Doc → Bool) (c : Catalog)
    (h : Catalog.Loadable indexOk c) :
    fromFileNamespaces indexOk (toFileNamespaces c) = .ok c := by
  induction c with
  | nil => rfl
  | cons n r ih =>
    have hr := ih ⟨fun m hm => h.noDot m (by simp [hm]), fun m hm => h.idxOk m (by simp [hm])⟩
    have hs := splitDot_handleString n.db n.coll (h.noDot n (by simp))
    have hi := fromFileIndexes_toFileIndexes indexOk n.docs n.indexes (h.idxOk n (by simp))
    simp only [toFileNamespaces, fromFileNamespaces, hs, Option.getD_some, hi, hr, String.ofList_toList]

theorem toFileNamespaces_keys_nodup (c : Catalog) (hnd : ∀ n ∈ c, '.' ∉ n.db.toList)
    (hp : (c.map Namespace.handle).Nodup) : ((toFileNamespaces c).map Prod.fst).Nodup := by
  induction c with
  | nil => simp [toFileNamespaces]
  | cons n r ih =>
    simp only [List.map_cons, List.nodup_cons] at hp
    simp only [toFileNamespaces, List.map_cons, List.nodup_cons]
    refine ⟨?_, ih (fun m hm => hnd m (by simp [hm])) hp.2⟩
    intro hm
    apply hp.1
    clear ih hp
    induction r with
    | nil => simp [toFileNamespaces] at hm
    | cons m r' ih2 =>
      simp only [toFileNamespaces, List.map_cons, List.mem_cons] at hm
      rcases hm with e | hm
      · have := handleString_inj n.db n.coll m.db m.coll (hnd n (by simp)) (hnd m (by simp)) e
        simp [Namespace.handle, this.1, this.2]
      · have := ih2 (fun x hx => hnd x (by
          simp only [List.mem_cons] at hx ⊢
          rcases hx with hx | hx
          · exact Or.inl hx
          · exact Or.inr (Or.inr hx))) hm
        simp only [List.map_cons, List.mem_cons]
        exact Or.inr this

theorem toFileIndexes_keys (is : List (String × IndexDef)) :
    (toFileIndexes is).map Prod.fst = is.map Prod.fst := by
  induction is with
  | nil => rfl
  | cons a r ih => obtain ⟨n, d⟩ := a; simp [toFileIndexes, ih]

theorem toFileNamespaces_distinct (c : Catalog) (hi : ∀ n ∈ c, (n.indexes.map Prod.fst).Nodup) :
    ∀ x ∈ toFileNamespaces c, x.2.distinct := by
  induction c with
  | nil => simp [toFileNamespaces]
  | cons n r ih =>
    intro x hx
    simp only [toFileNamespaces, List.mem_cons] at hx
    rcases hx with e | hx
    · subst e
      simpa [FileNamespace.distinct, toFileIndexes_keys] using hi n (by simp)
    · exact ih (fun m hm => hi m (by simp [hm])) x hx

end Lungo.Lite
