/-
  Lungo.Proofs.Codec — the model BSON decoder inverts the model encoder on `wfEnc` values.
-/
import Lungo.Model.Codec
namespace Lungo.Bson

/-! ### little-endian numbers -/

@[simp] theorem leBytes_length (k n : Nat) : (leBytes k n).length = k := by
  induction k generalizing n with
  | zero => rfl
  | succ k ih => simp [leBytes, ih]

theorem leNat_leBytes (k n : Nat) (h : n < 256 ^ k) : leNat (leBytes k n) = n := by
  induction k generalizing n with
  | zero => simp [leBytes, leNat]; omega
  | succ k ih =>
    have h2 : n / 256 < 256 ^ k := by
      apply Nat.div_lt_of_lt_mul
      rw [Nat.pow_succ] at h; omega
    simp only [leBytes, leNat, ih _ h2, UInt8.toNat_ofNat']
    omega

theorem takeN_append (xs r : Bytes) : takeN xs.length (xs ++ r) = some (xs, r) := by
  induction xs with
  | nil => simp [takeN]
  | cons x xs ih => simp [takeN, ih]

theorem takeN_append' (n : Nat) (xs r : Bytes) (h : xs.length = n) : takeN n (xs ++ r) = some (xs, r) := by
  subst h; exact takeN_append xs r

theorem rdNat_leBytes (k n : Nat) (r : Bytes) (h : n < 256 ^ k) :
    rdNat k (leBytes k n ++ r) = some (n, r) := by
  simp [rdNat, takeN_append' k (leBytes k n) r (leBytes_length k n), leNat_leBytes k n h]

theorem splitNul_append (xs r : Bytes) (h : xs.contains 0 = false) :
    splitNul (xs ++ 0 :: r) = some (xs, r) := by
  induction xs with
  | nil => simp [splitNul]
  | cons x xs ih =>
    simp only [List.contains_cons, Bool.or_eq_false_iff] at h
    have hx : x ≠ 0 := by
      intro e; subst e; simp at h
    simp [splitNul, hx, ih h.2]

theorem bytesStr?_strBytes (s : String) : bytesStr? (strBytes s) = some s := by
  simp [bytesStr?, strBytes, String.fromUTF8?, s.isValidUTF8, String.fromUTF8]

/-! ### two's complement -/

theorem toSigned32_small (n : Nat) (h : n < 2 ^ 31) : toSigned 32 n = (n : Int) := by
  unfold toSigned
  have : ¬ (n ≥ 2 ^ (32 - 1)) := by simp; omega
  simp [this]

theorem toSigned32_enc (z : Int) (h : inI32 z = true) :
    toSigned 32 (z % (2 : Int) ^ 32).toNat = z := by
  unfold inI32 i32Min i32Max at h
  simp only [Bool.and_eq_true, decide_eq_true_eq] at h
  unfold toSigned
  have e : (2 : Int) ^ 32 = 4294967296 := by decide
  have e' : (2 : Nat) ^ (32 - 1) = 2147483648 := by decide
  rw [e, e']
  split <;> omega

theorem toSigned64_enc (z : Int) (h : inI64 z = true) :
    toSigned 64 (z % (2 : Int) ^ 64).toNat = z := by
  unfold inI64 i64Min i64Max at h
  simp only [Bool.and_eq_true, decide_eq_true_eq] at h
  unfold toSigned
  have e : (2 : Int) ^ 64 = 18446744073709551616 := by decide
  have e' : (2 : Nat) ^ (64 - 1) = 9223372036854775808 := by decide
  rw [e, e']
  split <;> omega

theorem enc32_lt (z : Int) : (z % (2 : Int) ^ 32).toNat < 256 ^ 4 := by
  have := Int.emod_lt_of_pos z (show (0 : Int) < 2 ^ 32 by decide)
  have := Int.emod_nonneg z (show ((2 : Int) ^ 32) ≠ 0 by decide)
  omega

theorem enc64_lt (z : Int) : (z % (2 : Int) ^ 64).toNat < 256 ^ 8 := by
  have := Int.emod_lt_of_pos z (show (0 : Int) < 2 ^ 64 by decide)
  have := Int.emod_nonneg z (show ((2 : Int) ^ 64) ≠ 0 by decide)
  omega

/-! ### array keys -/

theorem decDigits_noNul (f n : Nat) (acc : Bytes) (h : acc.contains 0 = false) :
    (decDigits f n acc).contains 0 = false := by
  induction f generalizing n acc with
  | zero => simpa [decDigits] using h
  | succ f ih =>
    have hd : (UInt8.ofNat (48 + n % 10) == (0 : UInt8)) = false := by
      apply beq_false_of_ne
      intro e
      have := congrArg UInt8.toNat e
      simp [UInt8.toNat_ofNat'] at this
      omega
    have h' : (UInt8.ofNat (48 + n % 10) :: acc).contains 0 = false := by
      simp only [List.contains_cons, Bool.or_eq_false_iff]
      refine ⟨?_, h⟩
      rw [Bool.beq_comm]; exact hd
    simp only [decDigits]
    split
    · exact h'
    · exact ih _ _ h'

theorem idxKey_noNul (i : Nat) : (idxKey i).contains 0 = false :=
  decDigits_noNul _ _ _ rfl

/-! ### type bytes -/

theorem tyByte_toNat (v : V) : (tyByte v).toNat = v.typ := by
  cases v <;> rfl

theorem tyByte_ne_zero (v : V) : tyByte v ≠ 0 := by
  cases v <;> (intro e; have := congrArg UInt8.toNat e; revert this; simp [tyByte, V.typ])

/-! ### scalars -/

theorem noNul_contains {s : String} (h : noNul s = true) : (strBytes s).contains 0 = false := by
  simpa [noNul] using h

theorem rdString_enc (s : String) (rest : Bytes) (h : (strBytes s).length + 1 < 2 ^ 31) :
    rdString (leBytes 4 ((strBytes s).length + 1) ++ (strBytes s ++ [0]) ++ rest) = some (s, rest) := by
  have hlt : (strBytes s).length + 1 < 256 ^ 4 := by omega
  unfold rdString
  rw [List.append_assoc, rdNat_leBytes 4 _ _ hlt]
  simp only [toSigned32_small _ h]
  have hpos : ¬ (((strBytes s).length + 1 : Nat) : Int) ≤ 0 := by omega
  rw [if_neg hpos]
  have hn : (((strBytes s).length + 1 : Nat) : Int).toNat - 1 = (strBytes s).length := by omega
  rw [hn, List.append_assoc, takeN_append]
  simp [bytesStr?_strBytes]

theorem rdBinary_enc (sub : UInt8) (d rest : Bytes) (h : d.length + 4 < 2 ^ 31)
    (hq : (sub == 2 && d.isEmpty) = false) :
    rdBinary (encV (.bin sub d) ++ rest) = some (.bin sub d, rest) := by
  have hlt : d.length < 256 ^ 4 := by omega
  have hlt4 : d.length + 4 < 256 ^ 4 := by omega
  have hs : d.length < 2 ^ 31 := by omega
  unfold rdBinary encV
  by_cases h2 : sub = 2
  · subst h2
    have hne : d.length ≠ 0 := by
      intro e
      have : d = [] := List.eq_nil_of_length_eq_zero e
      subst this
      simp at hq
    simp only [if_true, List.append_assoc, rdNat_leBytes 4 _ _ hlt4, List.cons_append,
      toSigned32_small _ h]
    have hc : (True ∧ ((d.length + 4 : Nat) : Int) > 4) := ⟨trivial, by omega⟩
    rw [if_pos hc, rdNat_leBytes 4 _ _ hlt]
    simp only [toSigned32_small _ hs]
    have hnn : ¬ ((d.length : Nat) : Int) < 0 := by omega
    rw [if_neg hnn]
    have : ((d.length : Nat) : Int).toNat = d.length := by omega
    rw [this, takeN_append]
  · simp only [if_neg h2, List.append_assoc, rdNat_leBytes 4 _ _ hlt, List.cons_append,
      toSigned32_small _ hs]
    have hc : ¬ (sub = 2 ∧ ((d.length : Nat) : Int) > 4) := fun c => h2 c.1
    rw [if_neg hc]
    have hnn : ¬ ((d.length : Nat) : Int) < 0 := by omega
    rw [if_neg hnn]
    have : ((d.length : Nat) : Int).toNat = d.length := by omega
    rw [this, takeN_append]

theorem u64_lt (b : UInt64) : b.toNat < 256 ^ 8 := by
  have := b.toNat_lt
  omega

/-- Every scalar payload decodes back to the value it encodes. -/
theorem decScalar_enc (v : V) (rest : Bytes) (hw : wfEnc v = true)
    (hd : v.isDoc = false) (ha : v.isArr = false) :
    decScalar v.typ (encV v ++ rest) = some (v, rest) := by
  cases v with
  | null => simp [decScalar, encV, V.typ]
  | missing => simp [wfEnc] at hw
  | i32 n =>
    simp only [wfEnc] at hw
    simp only [decScalar, encV, V.typ, encI32]
    rw [rdNat_leBytes 4 _ _ (enc32_lt n)]
    simp only [toSigned32_enc n hw]
  | i64 n =>
    simp only [wfEnc] at hw
    simp only [decScalar, encV, V.typ, encI64]
    rw [rdNat_leBytes 8 _ _ (enc64_lt n)]
    simp only [toSigned64_enc n hw]
  | f64 b =>
    simp [decScalar, encV, V.typ, rdNat_leBytes 8 _ _ (u64_lt b)]
  | dec hi lo =>
    simp [decScalar, encV, V.typ, List.append_assoc, rdNat_leBytes 8 _ _ (u64_lt lo),
      rdNat_leBytes 8 _ _ (u64_lt hi)]
  | str s =>
    simp only [wfEnc, decide_eq_true_eq] at hw
    simp only [decScalar, encV, V.typ, rdString_enc s rest hw]
  | doc fs => simp [V.isDoc] at hd
  | arr xs => simp [V.isArr] at ha
  | bin sub d =>
    simp only [wfEnc, Bool.and_eq_true, decide_eq_true_eq, Bool.not_eq_true'] at hw
    simp only [decScalar, V.typ, rdBinary_enc sub d rest hw.1 hw.2]
  | oid b =>
    simp only [wfEnc, beq_iff_eq] at hw
    simp [decScalar, encV, V.typ, takeN_append' 12 b rest hw]
  | bool b => cases b <;> simp [decScalar, encV, V.typ]
  | date ms =>
    simp only [wfEnc] at hw
    simp only [decScalar, encV, V.typ, encI64]
    rw [rdNat_leBytes 8 _ _ (enc64_lt ms)]
    simp only [toSigned64_enc ms hw]
  | ts t i =>
    simp only [wfEnc, Bool.and_eq_true, decide_eq_true_eq] at hw
    have h1 : t < 256 ^ 4 := by omega
    have h2 : i < 256 ^ 4 := by omega
    simp [decScalar, encV, V.typ, List.append_assoc, rdNat_leBytes 4 _ _ h1, rdNat_leBytes 4 _ _ h2]
  | regex p o =>
    simp only [wfEnc, Bool.and_eq_true, beq_iff_eq] at hw
    obtain ⟨⟨hp, ho⟩, hs⟩ := hw
    simp only [decScalar, encV, V.typ, hs, List.append_assoc, List.cons_append,
      splitNul_append _ _ (noNul_contains hp), List.nil_append,
      splitNul_append _ _ (noNul_contains ho), bytesStr?_strBytes]

/-! ### containers -/

mutual
/-- Fuel that suffices to decode the encoding of a value. -/
def need : V → Nat
  | .doc fs => 1 + needFields fs
  | .arr xs => 1 + needList xs
  | _ => 1
def needFields : List (String × V) → Nat
  | [] => 1
  | (_, v) :: r => 1 + need v + needFields r
def needList : List V → Nat
  | [] => 1
  | v :: r => 1 + need v + needList r
end

theorem decVal_scalar (f t : Nat) (bs : Bytes) (h3 : t ≠ 3) (h4 : t ≠ 4) :
    decVal (f + 1) t bs = decScalar t bs := by
  simp [decVal, h3, h4]

theorem decVal_doc_step (fs : List (String × V)) (f : Nat) (rest : Bytes)
    (hsz : (encElems fs).length + 5 < 2 ^ 31)
    (ih : decElems f (encElems fs ++ 0 :: rest) rest.length = some (fs, rest)) :
    decVal (f + 1) 3 (encV (.doc fs) ++ rest) = some (.doc fs, rest) := by
  have hlt : (encElems fs).length + 5 < 256 ^ 4 := by omega
  have hlen : (((encV (.doc fs) ++ rest).length : Nat) : Int)
      - (((encElems fs).length + 5 : Nat) : Int) = (rest.length : Int) := by
    simp only [encV, List.length_append, leBytes_length, List.length_cons, List.length_nil]
    omega
  have hshape : encV (.doc fs) ++ rest
      = leBytes 4 ((encElems fs).length + 5) ++ (encElems fs ++ 0 :: rest) := by
    simp [encV, List.append_assoc]
  have hrd : rdNat 4 (encV (.doc fs) ++ rest)
      = some ((encElems fs).length + 5, encElems fs ++ 0 :: rest) := by
    rw [hshape]; exact rdNat_leBytes 4 _ _ hlt
  unfold decVal
  simp only [if_true]
  rw [hrd]
  simp only [toSigned32_small _ hsz, hlen, ih]

theorem decVal_arr_step (xs : List V) (f : Nat) (rest : Bytes)
    (hsz : (encArr 0 xs).length + 5 < 2 ^ 31)
    (ih : decArr f (encArr 0 xs ++ 0 :: rest) rest.length = some (xs, rest)) :
    decVal (f + 1) 4 (encV (.arr xs) ++ rest) = some (.arr xs, rest) := by
  have hlt : (encArr 0 xs).length + 5 < 256 ^ 4 := by omega
  have hlen : (((encV (.arr xs) ++ rest).length : Nat) : Int)
      - (((encArr 0 xs).length + 5 : Nat) : Int) = (rest.length : Int) := by
    simp only [encV, List.length_append, leBytes_length, List.length_cons, List.length_nil]
    omega
  have hshape : encV (.arr xs) ++ rest
      = leBytes 4 ((encArr 0 xs).length + 5) ++ (encArr 0 xs ++ 0 :: rest) := by
    simp [encV, List.append_assoc]
  have hrd : rdNat 4 (encV (.arr xs) ++ rest)
      = some ((encArr 0 xs).length + 5, encArr 0 xs ++ 0 :: rest) := by
    rw [hshape]; exact rdNat_leBytes 4 _ _ hlt
  unfold decVal
  simp only [show ¬ ((4 : Nat) = 3) by decide, if_false, if_true]
  rw [hrd]
  simp only [toSigned32_small _ hsz, hlen, ih]

theorem decElems_nil_step (f : Nat) (rest : Bytes) :
    decElems (f + 1) (encElems [] ++ 0 :: rest) rest.length = some ([], rest) := by
  simp [encElems, decElems]

theorem decArr_nil_step (f i : Nat) (rest : Bytes) :
    decArr (f + 1) (encArr i [] ++ 0 :: rest) rest.length = some ([], rest) := by
  simp [encArr, decArr]

theorem decElems_cons_step (k : String) (v : V) (r : List (String × V)) (f : Nat) (rest : Bytes)
    (hk : noNul k = true)
    (ihv : decVal f v.typ (encV v ++ (encElems r ++ 0 :: rest)) = some (v, encElems r ++ 0 :: rest))
    (ihr : decElems f (encElems r ++ 0 :: rest) rest.length = some (r, rest)) :
    decElems (f + 1) (encElems ((k, v) :: r) ++ 0 :: rest) rest.length = some ((k, v) :: r, rest) := by
  have hshape : encElems ((k, v) :: r) ++ 0 :: rest
      = tyByte v :: (strBytes k ++ 0 :: (encV v ++ (encElems r ++ 0 :: rest))) := by
    simp [encElems, List.append_assoc]
  rw [hshape]
  unfold decElems
  simp only [if_neg (tyByte_ne_zero v), splitNul_append _ _ (noNul_contains hk),
    bytesStr?_strBytes, tyByte_toNat, ihv, ihr]

theorem decArr_cons_step (i : Nat) (v : V) (r : List V) (f : Nat) (rest : Bytes)
    (ihv : decVal f v.typ (encV v ++ (encArr (i + 1) r ++ 0 :: rest))
      = some (v, encArr (i + 1) r ++ 0 :: rest))
    (ihr : decArr f (encArr (i + 1) r ++ 0 :: rest) rest.length = some (r, rest)) :
    decArr (f + 1) (encArr i (v :: r) ++ 0 :: rest) rest.length = some (v :: r, rest) := by
  have hshape : encArr i (v :: r) ++ 0 :: rest
      = tyByte v :: (idxKey i ++ 0 :: (encV v ++ (encArr (i + 1) r ++ 0 :: rest))) := by
    simp [encArr, List.append_assoc]
  rw [hshape]
  unfold decArr
  simp only [if_neg (tyByte_ne_zero v), splitNul_append _ _ (idxKey_noNul i), tyByte_toNat, ihv, ihr]

theorem decVal_sc (v : V) (hw : wfEnc v = true) (fuel : Nat) (rest : Bytes) (hf : need v ≤ fuel)
    (hd : v.isDoc = false) (ha : v.isArr = false) :
    decVal fuel v.typ (encV v ++ rest) = some (v, rest) := by
  have h1 : 1 ≤ fuel := by
    cases v <;> simp_all [need, V.isDoc, V.isArr]
  obtain ⟨f, rfl⟩ : ∃ f, fuel = f + 1 := ⟨fuel - 1, by omega⟩
  have h3 : v.typ ≠ 3 := by cases v <;> simp_all [V.typ, V.isDoc]
  have h4 : v.typ ≠ 4 := by cases v <;> simp_all [V.typ, V.isArr]
  rw [decVal_scalar f _ _ h3 h4]
  exact decScalar_enc v rest hw hd ha

mutual
theorem decVal_enc (v : V) (hw : wfEnc v = true) (fuel : Nat) (rest : Bytes) (hf : need v ≤ fuel) :
    decVal fuel v.typ (encV v ++ rest) = some (v, rest) := by
  match v, fuel with
  | .doc fs, 0 => simp [need] at hf
  | .arr xs, 0 => simp [need] at hf
  | .doc fs, f + 1 =>
    simp only [wfEnc, Bool.and_eq_true, decide_eq_true_eq] at hw
    simp only [need] at hf
    exact decVal_doc_step fs f rest hw.2 (decElems_enc fs hw.1 f rest (by omega))
  | .arr xs, f + 1 =>
    simp only [wfEnc, Bool.and_eq_true, decide_eq_true_eq] at hw
    simp only [need] at hf
    exact decVal_arr_step xs f rest hw.2 (decArr_enc xs 0 hw.1 f rest (by omega))
  | .null, f => exact decVal_sc _ hw f rest hf rfl rfl
  | .missing, f => exact decVal_sc _ hw f rest hf rfl rfl
  | .i32 _, f => exact decVal_sc _ hw f rest hf rfl rfl
  | .i64 _, f => exact decVal_sc _ hw f rest hf rfl rfl
  | .f64 _, f => exact decVal_sc _ hw f rest hf rfl rfl
  | .dec _ _, f => exact decVal_sc _ hw f rest hf rfl rfl
  | .str _, f => exact decVal_sc _ hw f rest hf rfl rfl
  | .bin _ _, f => exact decVal_sc _ hw f rest hf rfl rfl
  | .oid _, f => exact decVal_sc _ hw f rest hf rfl rfl
  | .bool _, f => exact decVal_sc _ hw f rest hf rfl rfl
  | .date _, f => exact decVal_sc _ hw f rest hf rfl rfl
  | .ts _ _, f => exact decVal_sc _ hw f rest hf rfl rfl
  | .regex _ _, f => exact decVal_sc _ hw f rest hf rfl rfl
theorem decElems_enc (fs : List (String × V)) (hw : wfEncFields fs = true) (fuel : Nat) (rest : Bytes)
    (hf : needFields fs ≤ fuel) :
    decElems fuel (encElems fs ++ 0 :: rest) rest.length = some (fs, rest) := by
  match fs, fuel with
  | [], 0 => simp [needFields] at hf
  | _ :: _, 0 => simp [needFields] at hf
  | [], f + 1 => exact decElems_nil_step f rest
  | (k, v) :: r, f + 1 =>
    simp only [wfEncFields, Bool.and_eq_true] at hw
    simp only [needFields] at hf
    exact decElems_cons_step k v r f rest hw.1.1
      (decVal_enc v hw.1.2 f _ (by omega)) (decElems_enc r hw.2 f rest (by omega))
theorem decArr_enc (xs : List V) (i : Nat) (hw : wfEncList xs = true) (fuel : Nat) (rest : Bytes)
    (hf : needList xs ≤ fuel) :
    decArr fuel (encArr i xs ++ 0 :: rest) rest.length = some (xs, rest) := by
  match xs, fuel with
  | [], 0 => simp [needList] at hf
  | _ :: _, 0 => simp [needList] at hf
  | [], f + 1 => exact decArr_nil_step f i rest
  | v :: r, f + 1 =>
    simp only [wfEncList, Bool.and_eq_true] at hw
    simp only [needList] at hf
    exact decArr_cons_step i v r f rest
      (decVal_enc v hw.1 f _ (by omega)) (decArr_enc r (i + 1) hw.2 f rest (by omega))
end

/-! ### fuel bound and the top-level statement -/

mutual
theorem need_le (v : V) : need v ≤ (encV v).length + 1 := by
  match v with
  | .doc fs =>
    have := needFields_le fs
    simp only [need, encV, List.length_append, leBytes_length, List.length_cons, List.length_nil]
    omega
  | .arr xs =>
    have := needList_le xs 0
    simp only [need, encV, List.length_append, leBytes_length, List.length_cons, List.length_nil]
    omega
  | .null | .missing | .i32 _ | .i64 _ | .f64 _ | .dec _ _ | .str _ | .bin _ _ | .oid _
  | .bool _ | .date _ | .ts _ _ | .regex _ _ => simp [need]
theorem needFields_le (fs : List (String × V)) : needFields fs ≤ (encElems fs).length + 1 := by
  match fs with
  | [] => simp [needFields]
  | (k, v) :: r =>
    have := need_le v
    have := needFields_le r
    simp only [needFields, encElems, List.length_append, List.length_cons]
    omega
theorem needList_le (xs : List V) (i : Nat) : needList xs ≤ (encArr i xs).length + 1 := by
  match xs with
  | [] => simp [needList]
  | v :: r =>
    have := need_le v
    have := needList_le r (i + 1)
    simp only [needList, encArr, List.length_append, List.length_cons]
    omega
end

/-- `bson.Unmarshal (bson.Marshal d) = d` on the model, for every well-formed document. -/
theorem decDoc_encDoc (d : Doc) (hw : wfEncDoc d = true) : decDoc (encDoc d) = some d := by
  simp only [wfEncDoc, wfEnc, Bool.and_eq_true, decide_eq_true_eq] at hw
  obtain ⟨hfs, hsz⟩ := hw
  have hlt : (encElems d).length + 5 < 256 ^ 4 := by omega
  have hlen : (encDoc d).length = (encElems d).length + 5 := by
    simp [encDoc, encV]; omega
  have hrd : rdNat 4 (encDoc d) = some ((encElems d).length + 5, encElems d ++ 0 :: []) := by
    simp only [encDoc, encV]
    exact rdNat_leBytes 4 _ _ hlt
  have hfuel : needFields d ≤ (encDoc d).length + 1 := by
    have := needFields_le d
    omega
  have hel := decElems_enc d hfs ((encDoc d).length + 1) [] hfuel
  unfold decDoc
  rw [hrd]
  simp only [toSigned32_small _ hsz, hlen]
  simp only [hlen, List.length_nil, Int.natCast_zero] at hel
  rw [hel]
  simp

end Lungo.Bson
