/-
  Lungo.Proofs.ConcHolder — an actor holding `e.mutex` always has an enabled non-fault step
  (every reachable state, sessions may be shared between actors): since the fix "read the session
  before taking the engine lock in Begin" no `e.mutex` critical section contains a blocking operation.
-/
import Lungo.Proofs.ConcAll
namespace Lungo.Conc

theorem holder_progress {n : Nat} {s : State} {a : ActorId} (h : Reachable n s)
    (hm : s.eng.mutex = some a) : ∃ c, (c = .go ∨ c = .storeOk) ∧ (step s a c).isSome = true := by
  obtain ⟨i, j⟩ := inv_reachable h
  have he := (i.mutex_iff a).1 hm
  have hle : ¬ a > s.n := by
    intro hgt
    have := j.rng a hgt
    simp [EHold, this] at he
  have lw := j.lwf a
  simp only [LWf] at lw
  have key : ∀ c, (c = .go ∨ c = .storeOk) → (step s a c).isSome = true →
      ∃ c, (c = .go ∨ c = .storeOk) ∧ (step s a c).isSome = true := by
    intro c hc hs
    exact ⟨c, hc, hs⟩
  simp only [EHold] at he
  rcases he with hp | hp | hp | hp | hp | hp | hp
  · apply key .go (Or.inl rfl)
    simp only [step, hle, if_false, hp, stepBegin]
    split <;> (try split) <;> (try split) <;> simp
  · apply key .go (Or.inl rfl)
    simp only [step, hle, if_false, hp, stepBegin]
    split <;> (try split) <;> (try split) <;> simp
  · apply key .go (Or.inl rfl)
    simp only [step, hle, if_false, hp, stepCommit]
    split <;> (try split) <;> (try split) <;> (try split) <;> simp
  · apply key .storeOk (Or.inr rfl)
    have hc := lw.2.2.1 (Or.inl hp)
    obtain ⟨t, ht⟩ := Option.isSome_iff_exists.mp hc
    simp [step, hle, hp, stepCommit, ht]
  · apply key .go (Or.inl rfl)
    simp only [step, hle, if_false, hp, stepAbort]
    split <;> (try split) <;> simp
  · apply key .go (Or.inl rfl)
    simp only [step, hle, if_false, hp, stepClose]
    split <;> simp
  · apply key .go (Or.inl rfl)
    simp only [step, hle, if_false, hp, stepClose]
    split <;> (try split) <;> simp

theorem mutex_holder_enabled_aux {n : Nat} {s : State} {a : ActorId} (h : Reachable n s)
    (hm : s.eng.mutex = some a) : ∃ c s', step s a c = some s' := by
  obtain ⟨c, _, hc⟩ := holder_progress h hm
  exact ⟨c, Option.isSome_iff_exists.mp hc⟩

end Lungo.Conc
