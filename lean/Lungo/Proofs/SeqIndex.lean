/-
  Lungo.Proofs.SeqIndex — C01: createIndex. The implementation builds the index entries document by
  document (`Index.build`); the Spec asks that the stored documents, one after the other, be
  admissible under the new definition (`admitAll` over plain documents).
-/
import Lungo.Proofs.SeqMgmt
namespace Lungo.SeqRef
open Lungo Lungo.Spec

variable {sch : SchemaEval}

theorem validDef_newIndex (cfg : IndexConfig) : (newIndex cfg).map (fun _ => ()) = validDef cfg := by
  unfold newIndex validDef
  by_cases hk : cfg.key.isEmpty = true
  · simp [hk, Except.map]
  · simp only [hk, Bool.false_eq_true, ↓reduceIte]
    cases columns cfg.key with
    | error e => rfl
    | ok cols =>
      simp only
      split
      · rfl
      · split <;> rfl

/-- the outcome of an index build as the Spec sees it -/
def buildRes : Res (Index × Bool) → Res Unit
  | .error e => .error e
  | .ok (_, false) => .error .dup
  | .ok (_, true) => .ok ()

theorem build_admitAll (n : String) : ∀ (list base : List SDoc) (i : Index),
    IndexCoherent sch (· ∈ base) i → IdsDistinct (base ++ list) → DocsOk (base ++ list) →
    buildRes (i.build sch list) = admitAll sch [(n, i.config)] (base.map (·.doc)) (list.map (·.doc))
  | [], _, _, _, _, _ => rfl
  | sd :: r, base, i, hc, hd, hok => by
    have hdb : IdsDistinct base := hd.sublist (List.sublist_append_left base (sd :: r))
    have hfresh : ∀ x ∈ base, x.id ≠ sd.id := by
      intro x hx e
      have hx' : x ∈ base ++ sd :: r := List.mem_append_left _ hx
      have hs' : sd ∈ base ++ sd :: r := List.mem_append_right _ (by simp)
      have := ids_inj hd x hx' sd hs' e
      subst this
      unfold IdsDistinct at hd
      rw [List.map_append, List.map_cons] at hd
      have := (List.nodup_append.mp hd).2.2 x.id (List.mem_map.mpr ⟨x, hx, rfl⟩) x.id (by simp)
      exact this rfl
    have hokb : DocsOk base := fun x hx => hok x (List.mem_append_left _ hx)
    have hsd : DocOk sd.doc := hok sd (List.mem_append_right _ (by simp))
    have ha := add_eq hc hfresh (idInj_of_distinct hdb) hokb hsd
    have hd' : IdsDistinct ((base ++ [sd]) ++ r) := by simpa using hd
    have hok' : DocsOk ((base ++ [sd]) ++ r) := by simpa using hok
    have hcong : ∀ {j : Index}, IndexCoherent sch (fun x => x ∈ base ∨ x = sd) j →
        IndexCoherent sch (· ∈ base ++ [sd]) j := fun hj => hj.congr (fun x => by simp)
    rw [Index.build, List.map_cons, admitAll, admits]
    cases hu : under sch i.config sd.doc with
    | error e => rw [hu] at ha; simp only at ha; rw [ha]; rfl
    | ok b =>
      cases b with
      | false =>
        rw [hu] at ha
        simp only at ha
        rw [ha]
        simp only [admits]
        have := build_admitAll n r (base ++ [sd]) i (hcong (hc.add ha)) hd' hok'
        simpa using this
      | true =>
        rw [hu] at ha
        simp only at ha
        rw [ha]
        cases hcl : (i.config.unique && clashes sch i.config (base.map (·.doc)) sd.doc) with
        | true => simp [buildRes]
        | false =>
          rw [hcl] at ha
          simp only [Bool.not_false, Bool.false_eq_true, ↓reduceIte, admits]
          have hcfg := (add_shape ha).1
          have := build_admitAll n r (base ++ [sd]) (i.baseAdd sd).1 (hcong (hc.add ha)) hd' hok'
          rw [hcfg] at this
          simpa using this

theorem lookup_shape : ∀ (idx : List (String × Index)) (n : String),
    (shape idx).lookup n = (idx.lookup n).map (·.config)
  | [], _ => rfl
  | (m, i) :: r, n => by
    simp only [shape, List.map_cons, List.lookup]
    cases n == m with
    | true => rfl
    | false => exact lookup_shape r n

/-- `Collection.CreateIndex` = the Spec's createIndex -/
theorem createIndex_abs {c : Coll} (hc : Coherent sch c) (hok : DocsOk c.docs) (name : String) (cfg : IndexConfig) :
    (c.createIndex sch name cfg).map (fun r => (absC r.1, r.2)) = (absC c).createIndex sch name cfg := by
  unfold Coll.createIndex SColl.createIndex SColl.hasSame
  cases hn : (if name == "" then cfg.name else Except.ok name) with
  | error e => rfl
  | ok nm =>
    have hkey : (shape c.indexes).any (fun x => V.cmp (.doc cfg.key) (.doc x.2.key) == .eq) =
        c.indexes.any (fun x => V.cmp (.doc cfg.key) (.doc x.2.config.key) == .eq) := by
      simp only [shape, List.any_map]; rfl
    simp only [absC, lookup_shape, hkey, shape_any]
    cases hlk : c.indexes.lookup nm with
    | some i0 =>
      simp only [Option.map_some]
      split
      · rfl
      · split
        · rfl
        · have : c.indexes.any (·.1 == nm) = true := by
            have hm := lookup_mem hlk
            exact List.any_eq_true.mpr ⟨(nm, i0), hm, by simp⟩
          simp only [this, ↓reduceIte]
          rfl
    | none =>
    simp only [Option.map_none]
    split
    · rfl
    · split
      · rfl
      · split
        · rfl
        · rename_i hnm
          rw [← validDef_newIndex]
          cases hni : newIndex cfg with
          | error e => rfl
          | ok index =>
            simp only [Except.map]
            obtain ⟨h1, h2, h3⟩ := newIndex_spec hni
            have hc0 : IndexCoherent sch (· ∈ ([] : List SDoc)) index :=
              (newIndex_coherent (sch := sch) hni).congr (fun x => by simp)
            have hb := build_admitAll (sch := sch) nm c.docs [] index hc0 (by simpa using hc.1) (by simpa using hok)
            rw [h1] at hb
            simp only [List.map_nil] at hb
            rw [← hb]
            cases hbd : index.build sch c.docs with
            | error e => rfl
            | ok p =>
              obtain ⟨index', b⟩ := p
              cases b with
              | false => rfl
              | true =>
                simp only [buildRes]
                have hany : c.indexes.any (·.1 == nm) = false := by
                  cases hh : c.indexes.any (·.1 == nm) with
                  | false => rfl
                  | true => exact absurd hh hnm
                rw [assocSet_fresh hany]
                have hcfg := (build_shape hbd).1
                simp [shape, hcfg, h1]

theorem refines_createIndex (s : Sys) (h : Handle) (name : String) (cfg : IndexConfig) (oids : List V)
    (hi : SysInv sch s) (ok : OkDB (abs s.catalog)) : Refines sch s (.createIndex h name cfg) oids := by
  unfold Refines Sys.step
  simp only [Spec.step, runCall, Txn.createIndex]
  cases hwr : writable h true with
  | error e => rfl
  | ok _ =>
    have hne := writable_ne_oplog hwr
    have k := (good_of_inv hi).ensureNs hne
    simp only
    rw [abs_coll s.catalog hne, ← createIndex_abs k.coherent (okDB_ensureNs ok hne) name cfg]
    cases (ensureNs s.catalog h).createIndex sch name cfg with
    | error e => rfl
    | ok r =>
      obtain ⟨coll, nm⟩ := r
      simp [Except.map, Sys.commit, abs_set s.catalog coll hne]

end Lungo.SeqRef
