/-
  Lungo.Proofs.AtomicSearchExpected —
  (A) for ANY step list with `tmp ≠ path`: as long as the trace contains no successful rename, `path` shows
      what it showed at the start (this ties `traceUpTo`/`renamed` to the interpreter);
  (B) on the EXPECTED protocol the search returns no counterexample, for all contents (no false alarms).
-/
import Lungo.Proofs.AtomicSearch
import Lungo.Proofs.AtomicWritePhases
namespace Lungo.AtomicSearch
open Lungo.FS Lungo.AtomicWrite

/-- `path` still has its initial directory entry `v0`, whose inode (if any) still reads `c0` and is not the
    temp file's handle -/
structure Keep (path : Name) (v0 : Option Ino) (c0 : Bytes) (m : M) : Prop where
  vdir : m.fs.vdir path = v0
  lt : ∀ i, v0 = some i → i < m.fs.next
  vol : ∀ i, v0 = some i → (m.fs.ino i).vol = c0
  tmpH : ∀ i h, v0 = some i → m.tmpH = some h → h ≠ i

theorem Keep.load {path v0 c0 m} (h : Keep path v0 c0 m) : load m.fs path = v0.map (fun _ => c0) := by
  unfold FS.load
  rw [h.vdir]
  cases v0 with
  | none => rfl
  | some i => simp only [Option.map_some, h.vol i rfl]

theorem Keep.setErr {path v0 c0 m} (h : Keep path v0 c0 m) (b : Bool) : Keep path v0 c0 { m with err := b } :=
  ⟨h.vdir, h.lt, h.vol, h.tmpH⟩

section
variable {path tmp : Name} (hne : tmp ≠ path)
include hne

/-- one call: unless it is a successful rename, `Keep` is preserved -/
theorem exec_keep {v0 c0} (c : Call) (ch : Bytes) (m : M) (ft : Fault) (h : Keep path v0 c0 m)
    (hr : ¬ (c = .renameTmpToPath ∧ (execCall path tmp c ch m ft).2 = none)) :
    Keep path v0 c0 (execCall path tmp c ch m ft).1 := by
  have hpt : path ≠ tmp := fun e => hne e.symm
  obtain ⟨fs, th, er⟩ := m
  have hvd : fs.vdir path = v0 := h.vdir
  have hlt : ∀ i, v0 = some i → i < fs.next := h.lt
  have hvol : ∀ i, v0 = some i → (fs.ino i).vol = c0 := h.vol
  have hth : ∀ i t, v0 = some i → th = some t → t ≠ i := h.tmpH
  -- replacing the content of the temp handle's inode keeps everything
  have hset : ∀ (t : Ino) (x : Inode) (fds : List Fd), th = some t →
      Keep path v0 c0 ⟨{ fs with ino := setIno fs.ino t x, fds := fds }, th, er⟩ := by
    intro t x fds ht
    refine ⟨hvd, hlt, ?_, hth⟩
    intro i hi
    have hti : t ≠ i := hth i t hi ht
    show (setIno fs.ino t x i).vol = c0
    have hit : ¬ i = t := fun e => hti e.symm
    simp only [setIno, hit, if_false]
    exact hvol i hi
  cases c with
  | removeTmp =>
    simp only [execCall, unlink]
    split
    · exact h
    · split
      · exact h
      · exact ⟨by simp only [Dir.set, hpt, if_false]; exact hvd, hlt, hvol, hth⟩
  | createExclTmp =>
    by_cases hf : ft.isSome = true
    · simp only [execCall, createExcl, hf, if_true]; exact h
    · cases hv : fs.vdir tmp with
      | some t => simp only [execCall, createExcl, hf, hv, if_false, Bool.false_eq_true]; exact h
      | none =>
        simp only [execCall, createExcl, hf, hv, if_false, Bool.false_eq_true]
        refine ⟨by simp only [Dir.set, hpt, if_false]; exact hvd, fun i hi => Nat.lt_succ_of_lt (hlt i hi), ?_, ?_⟩
        · intro i hi
          have := hlt i hi
          simp only [setIno, Nat.ne_of_lt this, if_false]
          exact hvol i hi
        · intro i t hi ht
          cases ht
          exact Nat.ne_of_gt (hlt i hi)
  | writeTmp =>
    cases th with
    | none => exact h
    | some t =>
      by_cases hfd : Fd.file t ∈ fs.fds
      · cases ft with
        | none => simp only [execCall, withFile, write, hfd, if_true]; exact hset t _ _ rfl
        | some n => simp only [execCall, withFile, write, hfd, if_true]; exact hset t _ _ rfl
      · simp only [execCall, withFile, write, hfd, if_false]; exact h
  | fsyncTmp =>
    cases th with
    | none => exact h
    | some t =>
      by_cases hfd : Fd.file t ∈ fs.fds
      · by_cases hf : ft.isSome = true
        · simp only [execCall, withFile, fsync, hfd, hf, if_true]; exact h
        · simp only [execCall, withFile, fsync, hfd, hf, if_true, if_false, Bool.false_eq_true]; exact hset t _ _ rfl
      · simp only [execCall, withFile, fsync, hfd, if_false]; exact h
  | closeTmp =>
    cases th with
    | none => exact h
    | some t =>
      simp only [execCall, withFile, close]
      split <;> exact ⟨hvd, hlt, hvol, hth⟩
  | renameTmpToPath =>
    by_cases hf : ft.isSome = true
    · simp only [execCall, rename, hf, if_true]; exact h
    · cases hv : fs.vdir tmp with
      | none => simp only [execCall, rename, hf, hv, if_false, Bool.false_eq_true]; exact h
      | some i =>
        exfalso
        apply hr
        simp only [execCall, rename, hf, hv, if_false, Bool.false_eq_true, and_self]
  | openDir =>
    simp only [execCall, openDir]
    split <;> exact ⟨hvd, hlt, hvol, hth⟩
  | fsyncDir =>
    simp only [execCall, fsyncDir]
    split
    · split <;> exact ⟨hvd, hlt, hvol, hth⟩
    · exact h
  | closeDir =>
    simp only [execCall, close]
    split <;> exact ⟨hvd, hlt, hvol, hth⟩

omit hne in
theorem renamed_cons (e : Ev) (tr : List Ev) :
    renamed (e :: tr) = (decide (e.1 = Call.renameTmpToPath ∧ e.2 = none) || renamed tr) := by
  simp only [renamed, List.any_cons]

theorem cleanup_keep {v0 c0} (f : Faults) (cs : List Call) : ∀ (k : Nat) (m : M) (j : Nat), Keep path v0 c0 m →
    renamed (cleanupTrace path tmp f k cs m j) = false → Keep path v0 c0 (cleanupUpTo path tmp f k cs m j).1 := by
  induction cs with
  | nil => intro k m j h _; cases k <;> exact h
  | cons c cs ih =>
    intro k m j h hr
    cases k with
    | zero => exact h
    | succ k =>
      simp only [cleanupTrace, renamed_cons, Bool.or_eq_false_iff, decide_eq_false_iff_not] at hr
      simp only [cleanupUpTo]
      exact ih k _ (j + 1) (exec_keep hne c [] m (f j) h hr.1) hr.2

theorem run_keep {v0 c0} (f : Faults) (fin : List Call) (is : List Instr) : ∀ (k : Nat) (m : M) (j : Nat), Keep path v0 c0 m →
    renamed (runTrace path tmp f fin k is m j) = false → Keep path v0 c0 (runUpTo path tmp f fin k is m j).1 := by
  induction is with
  | nil =>
    intro k m j h hr
    simp only [runTrace] at hr
    simp only [runUpTo]
    exact cleanup_keep hne f fin k m j h hr
  | cons i is ih =>
    intro k m j h hr
    cases k with
    | zero => exact h
    | succ k =>
      simp only [runTrace, renamed_cons, Bool.or_eq_false_iff, decide_eq_false_iff_not] at hr
      simp only [runUpTo]
      have hk := exec_keep hne i.call i.chunk m (f j) h hr.1
      split
      · rename_i hp
        rw [if_pos hp] at hr
        exact ih k _ (j + 1) hk hr.2
      · rename_i hp
        rw [if_neg hp] at hr
        exact cleanup_keep hne f i.cleanup k _ (j + 1) (hk.setErr true) hr.2

/-- **(A)** for any step list: while no rename onto `path` has succeeded, `path` shows its initial content -/
theorem load_of_not_renamed {v0 c0} (steps : List Step) (chunks : List Bytes) (f : Faults) (k : Nat) (s : State)
    (h0 : Keep path v0 c0 (initM s)) (hr : renamed (traceUpTo steps path tmp chunks f k s) = false) :
    load (interpUpTo steps path tmp chunks f k s).1.fs path = load s path := by
  have := run_keep hne f (compile chunks steps []).2 (compile chunks steps []).1 k (initM s) 0 h0 hr
  rw [show load s path = load (initM s).fs path from rfl, h0.load]
  exact this.load

end

/-- process death keeps the invariants (only descriptors are lost) -/
theorem kill_preserves {s : State} {p : Name} {A : Option Bytes → Prop} (hw : WF s) (h : PathInv s p A) :
    WF (kill s) ∧ PathInv (kill s) p A :=
  ⟨⟨hw.v, hw.d, hw.pend⟩,
   ⟨h.d.congr (fun _ _ => rfl), h.v.congr (fun _ _ => rfl), fun op hm v he => (h.pend op hm v he).congr (fun _ _ => rfl)⟩⟩

/-- the initial states of the search satisfy `Keep` for name 0 -/
theorem keep_fsInit (old : Option Bytes) (stale : Bool) :
    Keep 0 (if old.isSome then some 0 else none) (old.getD []) (initM (fsInit old stale)) := by
  refine ⟨rfl, ?_, ?_, ?_⟩
  · intro i hi
    cases old <;> simp at hi
    subst hi; exact (by decide : 0 < 2)
  · intro i hi
    cases old <;> simp at hi
    subst hi
    simp [fsInit, initM, Inode.vol]
  · intro i h _ hh; cases hh

theorem load_fsInit (old : Option Bytes) (stale : Bool) : load (fsInit old stale) 0 = old := by
  cases old <;> simp [load, fsInit, Inode.vol]

end Lungo.AtomicSearch
