/-
  Lungo.Proofs.ConcProgress — progress: invariants about Close / the expiry actor and the
  no-deadlock argument.  (Per-sub-machine lemmas generated mechanically.)
-/
import Lungo.Proofs.ConcInvDefs
namespace Lungo.Conc

/-- control states of the expiry goroutine (actor 0): it never becomes an idle client -/
def ExpFlow (l : Local) : Prop :=
  l.pc = .xWait ∨ l.pc = .xExpire ∨ l.pc = .xExited ∨
  ((l.pc = .bLock ∨ l.pc = .bCheck ∨ l.pc = .bSessLock ∨ l.pc = .bSessRead ∨ l.pc = .bAcquire ∨
      l.pc = .bRelock ∨ l.pc = .bPost) ∧ l.k = .expBegin) ∨
  ((l.pc = .cLock ∨ l.pc = .cCheck ∨ l.pc = .cStore) ∧ l.k = .expCommit) ∨
  ((l.pc = .aLock ∨ l.pc = .aBody) ∧ l.k = .expAbort) ∨
  (l.pc = .after ∧ (l.k = .expBegin ∨ l.k = .expCommit ∨ l.k = .expAbort))

def SubPc (pc : Pc) : Prop :=
  pc = .bLock ∨ pc = .bCheck ∨ pc = .bSessLock ∨ pc = .bSessRead ∨ pc = .bAcquire ∨ pc = .bRelock ∨
  pc = .bPost ∨ pc = .cLock ∨ pc = .cCheck ∨ pc = .cStore ∨ pc = .aLock ∨ pc = .aBody ∨ pc = .after

def Xinv (s : State) : Prop :=
  ExpFlow (s.loc 0) ∧
  (∀ a, ((s.loc a).pc = .clStreams ∨ (s.loc a).pc = .clWait) → s.eng.alive = false) ∧
  (∀ a, a ≠ 0 → (s.loc a).pc ≠ .xWait ∧ (s.loc a).pc ≠ .xExpire ∧ (s.loc a).pc ≠ .xExited ∧
    (SubPc (s.loc a).pc → (s.loc a).k ≠ .expBegin ∧ (s.loc a).k ≠ .expCommit ∧ (s.loc a).k ≠ .expAbort))

theorem xinv_init (n : Nat) : Xinv (init n) := by
  refine ⟨?_, fun b => ?_, fun b hb => ?_⟩
  · simp [init, ExpFlow]
  · simp only [init]; by_cases hb : b = 0 <;> simp [hb]
  · simp [init, hb, SubPc]

macro "x_simp" : tactic => `(tactic|
  simp only [State.put, State.putS, State.finish, State.write, upd_apply, Eng.unlock, Eng.release,
    Local.back, Local.invoke, ExpFlow, SubPc, if_true, if_false, ite_true, ite_false])

set_option maxHeartbeats 1000000 in
theorem xinv_idle {s s' : State} {a : ActorId} {c : Choice} (g : Xinv s)
    (hpc : (s.loc a).pc = .idle) (hs : stepIdle s a (s.loc a) c = some s') : Xinv s' := by
  obtain ⟨x1, x2, x3⟩ := g
  have x2a := x2 a
  have x3a := x3 a
  simp only [ExpFlow] at x1
  simp only [SubPc] at x3 x3a
  unfold stepIdle at hs
  conc_split hs
  all_goals (
    refine ⟨?_, fun b => ?_, fun b hb => ?_⟩
    · clear x2 x3
      by_cases h0 : (0 : Nat) = a
      · subst h0; (try x_simp); grind
      · (try simp only [State.put, State.putS, State.finish, State.write, upd_apply, if_neg h0])
        first
        | exact x1
        | (have h0' : ¬ a = 0 := fun h => h0 h.symm
           (try x_simp); grind)
    · have hx2b := x2 b
      clear x2 x3
      by_cases hba : b = a
      · subst hba; (try x_simp); grind
      · (try simp only [State.put, State.putS, State.finish, State.write, upd_apply, if_neg hba])
        first
        | exact hx2b
        | ((try x_simp); grind)
    · have hx3b := x3 b hb
      clear x2 x3
      by_cases hba : b = a
      · subst hba; (try x_simp); grind
      · (try simp only [State.put, State.putS, State.finish, State.write, upd_apply, if_neg hba])
        first
        | exact hx3b
        | ((try x_simp); grind))

set_option maxHeartbeats 1000000 in
theorem xinv_begin {s s' : State} {a : ActorId} {c : Choice} (g : Xinv s)
    (hs : stepBegin s a (s.loc a) c = some s') : Xinv s' := by
  obtain ⟨x1, x2, x3⟩ := g
  have x2a := x2 a
  have x3a := x3 a
  simp only [ExpFlow] at x1
  simp only [SubPc] at x3 x3a
  unfold stepBegin at hs
  conc_split hs
  all_goals (
    refine ⟨?_, fun b => ?_, fun b hb => ?_⟩
    · clear x2 x3
      by_cases h0 : (0 : Nat) = a
      · subst h0; (try x_simp); grind
      · (try simp only [State.put, State.putS, State.finish, State.write, upd_apply, if_neg h0])
        first
        | exact x1
        | (have h0' : ¬ a = 0 := fun h => h0 h.symm
           (try x_simp); grind)
    · have hx2b := x2 b
      clear x2 x3
      by_cases hba : b = a
      · subst hba; (try x_simp); grind
      · (try simp only [State.put, State.putS, State.finish, State.write, upd_apply, if_neg hba])
        first
        | exact hx2b
        | ((try x_simp); grind)
    · have hx3b := x3 b hb
      clear x2 x3
      by_cases hba : b = a
      · subst hba; (try x_simp); grind
      · (try simp only [State.put, State.putS, State.finish, State.write, upd_apply, if_neg hba])
        first
        | exact hx3b
        | ((try x_simp); grind))

set_option maxHeartbeats 1000000 in
theorem xinv_commit {s s' : State} {a : ActorId} {c : Choice} (g : Xinv s)
    (hs : stepCommit s a (s.loc a) c = some s') : Xinv s' := by
  obtain ⟨x1, x2, x3⟩ := g
  have x2a := x2 a
  have x3a := x3 a
  simp only [ExpFlow] at x1
  simp only [SubPc] at x3 x3a
  unfold stepCommit at hs
  conc_split hs
  all_goals (
    refine ⟨?_, fun b => ?_, fun b hb => ?_⟩
    · clear x2 x3
      by_cases h0 : (0 : Nat) = a
      · subst h0; (try x_simp); grind
      · (try simp only [State.put, State.putS, State.finish, State.write, upd_apply, if_neg h0])
        first
        | exact x1
        | (have h0' : ¬ a = 0 := fun h => h0 h.symm
           (try x_simp); grind)
    · have hx2b := x2 b
      clear x2 x3
      by_cases hba : b = a
      · subst hba; (try x_simp); grind
      · (try simp only [State.put, State.putS, State.finish, State.write, upd_apply, if_neg hba])
        first
        | exact hx2b
        | ((try x_simp); grind)
    · have hx3b := x3 b hb
      clear x2 x3
      by_cases hba : b = a
      · subst hba; (try x_simp); grind
      · (try simp only [State.put, State.putS, State.finish, State.write, upd_apply, if_neg hba])
        first
        | exact hx3b
        | ((try x_simp); grind))

set_option maxHeartbeats 1000000 in
theorem xinv_abort {s s' : State} {a : ActorId} {c : Choice} (g : Xinv s)
    (hs : stepAbort s a (s.loc a) c = some s') : Xinv s' := by
  obtain ⟨x1, x2, x3⟩ := g
  have x2a := x2 a
  have x3a := x3 a
  simp only [ExpFlow] at x1
  simp only [SubPc] at x3 x3a
  unfold stepAbort at hs
  conc_split hs
  all_goals (
    refine ⟨?_, fun b => ?_, fun b hb => ?_⟩
    · clear x2 x3
      by_cases h0 : (0 : Nat) = a
      · subst h0; (try x_simp); grind
      · (try simp only [State.put, State.putS, State.finish, State.write, upd_apply, if_neg h0])
        first
        | exact x1
        | (have h0' : ¬ a = 0 := fun h => h0 h.symm
           (try x_simp); grind)
    · have hx2b := x2 b
      clear x2 x3
      by_cases hba : b = a
      · subst hba; (try x_simp); grind
      · (try simp only [State.put, State.putS, State.finish, State.write, upd_apply, if_neg hba])
        first
        | exact hx2b
        | ((try x_simp); grind)
    · have hx3b := x3 b hb
      clear x2 x3
      by_cases hba : b = a
      · subst hba; (try x_simp); grind
      · (try simp only [State.put, State.putS, State.finish, State.write, upd_apply, if_neg hba])
        first
        | exact hx3b
        | ((try x_simp); grind))

set_option maxHeartbeats 1000000 in
theorem xinv_after {s s' : State} {a : ActorId} {c : Choice} (g : Xinv s)
    (hpc : (s.loc a).pc = .after) (hs : stepAfter s a (s.loc a) c = some s') : Xinv s' := by
  obtain ⟨x1, x2, x3⟩ := g
  have x2a := x2 a
  have x3a := x3 a
  simp only [ExpFlow] at x1
  simp only [SubPc] at x3 x3a
  unfold stepAfter at hs
  conc_split hs
  all_goals (
    refine ⟨?_, fun b => ?_, fun b hb => ?_⟩
    · clear x2 x3
      by_cases h0 : (0 : Nat) = a
      · subst h0; (try x_simp); grind
      · (try simp only [State.put, State.putS, State.finish, State.write, upd_apply, if_neg h0])
        first
        | exact x1
        | (have h0' : ¬ a = 0 := fun h => h0 h.symm
           (try x_simp); grind)
    · have hx2b := x2 b
      clear x2 x3
      by_cases hba : b = a
      · subst hba; (try x_simp); grind
      · (try simp only [State.put, State.putS, State.finish, State.write, upd_apply, if_neg hba])
        first
        | exact hx2b
        | ((try x_simp); grind)
    · have hx3b := x3 b hb
      clear x2 x3
      by_cases hba : b = a
      · subst hba; (try x_simp); grind
      · (try simp only [State.put, State.putS, State.finish, State.write, upd_apply, if_neg hba])
        first
        | exact hx3b
        | ((try x_simp); grind))

set_option maxHeartbeats 1000000 in
theorem xinv_use {s s' : State} {a : ActorId} {c : Choice} (g : Xinv s)
    (hs : stepUse s a (s.loc a) c = some s') : Xinv s' := by
  obtain ⟨x1, x2, x3⟩ := g
  have x2a := x2 a
  have x3a := x3 a
  simp only [ExpFlow] at x1
  simp only [SubPc] at x3 x3a
  unfold stepUse at hs
  conc_split hs
  all_goals (
    refine ⟨?_, fun b => ?_, fun b hb => ?_⟩
    · clear x2 x3
      by_cases h0 : (0 : Nat) = a
      · subst h0; (try x_simp); grind
      · (try simp only [State.put, State.putS, State.finish, State.write, upd_apply, if_neg h0])
        first
        | exact x1
        | (have h0' : ¬ a = 0 := fun h => h0 h.symm
           (try x_simp); grind)
    · have hx2b := x2 b
      clear x2 x3
      by_cases hba : b = a
      · subst hba; (try x_simp); grind
      · (try simp only [State.put, State.putS, State.finish, State.write, upd_apply, if_neg hba])
        first
        | exact hx2b
        | ((try x_simp); grind)
    · have hx3b := x3 b hb
      clear x2 x3
      by_cases hba : b = a
      · subst hba; (try x_simp); grind
      · (try simp only [State.put, State.putS, State.finish, State.write, upd_apply, if_neg hba])
        first
        | exact hx3b
        | ((try x_simp); grind))

set_option maxHeartbeats 1000000 in
theorem xinv_sess {s s' : State} {a : ActorId} {c : Choice} (g : Xinv s)
    (hs : stepSess s a (s.loc a) c = some s') : Xinv s' := by
  obtain ⟨x1, x2, x3⟩ := g
  have x2a := x2 a
  have x3a := x3 a
  simp only [ExpFlow] at x1
  simp only [SubPc] at x3 x3a
  unfold stepSess at hs
  conc_split hs
  all_goals (
    refine ⟨?_, fun b => ?_, fun b hb => ?_⟩
    · clear x2 x3
      by_cases h0 : (0 : Nat) = a
      · subst h0; (try x_simp); grind
      · (try simp only [State.put, State.putS, State.finish, State.write, upd_apply, if_neg h0])
        first
        | exact x1
        | (have h0' : ¬ a = 0 := fun h => h0 h.symm
           (try x_simp); grind)
    · have hx2b := x2 b
      clear x2 x3
      by_cases hba : b = a
      · subst hba; (try x_simp); grind
      · (try simp only [State.put, State.putS, State.finish, State.write, upd_apply, if_neg hba])
        first
        | exact hx2b
        | ((try x_simp); grind)
    · have hx3b := x3 b hb
      clear x2 x3
      by_cases hba : b = a
      · subst hba; (try x_simp); grind
      · (try simp only [State.put, State.putS, State.finish, State.write, upd_apply, if_neg hba])
        first
        | exact hx3b
        | ((try x_simp); grind))

set_option maxHeartbeats 1000000 in
theorem xinv_close {s s' : State} {a : ActorId} {c : Choice} (g : Xinv s)
    (hs : stepClose s a (s.loc a) c = some s') : Xinv s' := by
  obtain ⟨x1, x2, x3⟩ := g
  have x2a := x2 a
  have x3a := x3 a
  simp only [ExpFlow] at x1
  simp only [SubPc] at x3 x3a
  unfold stepClose at hs
  conc_split hs
  all_goals (
    refine ⟨?_, fun b => ?_, fun b hb => ?_⟩
    · clear x2 x3
      by_cases h0 : (0 : Nat) = a
      · subst h0; (try x_simp); grind
      · (try simp only [State.put, State.putS, State.finish, State.write, upd_apply, if_neg h0])
        first
        | exact x1
        | (have h0' : ¬ a = 0 := fun h => h0 h.symm
           (try x_simp); grind)
    · have hx2b := x2 b
      clear x2 x3
      by_cases hba : b = a
      · subst hba; (try x_simp); grind
      · (try simp only [State.put, State.putS, State.finish, State.write, upd_apply, if_neg hba])
        first
        | exact hx2b
        | ((try x_simp); grind)
    · have hx3b := x3 b hb
      clear x2 x3
      by_cases hba : b = a
      · subst hba; (try x_simp); grind
      · (try simp only [State.put, State.putS, State.finish, State.write, upd_apply, if_neg hba])
        first
        | exact hx3b
        | ((try x_simp); grind))

set_option maxHeartbeats 1000000 in
theorem xinv_exp {s s' : State} {a : ActorId} {c : Choice} (g : Xinv s)
    (hs : stepExp s a (s.loc a) c = some s') : Xinv s' := by
  obtain ⟨x1, x2, x3⟩ := g
  have x2a := x2 a
  have x3a := x3 a
  simp only [ExpFlow] at x1
  simp only [SubPc] at x3 x3a
  unfold stepExp at hs
  conc_split hs
  all_goals (
    refine ⟨?_, fun b => ?_, fun b hb => ?_⟩
    · clear x2 x3
      by_cases h0 : (0 : Nat) = a
      · subst h0; (try x_simp); grind
      · (try simp only [State.put, State.putS, State.finish, State.write, upd_apply, if_neg h0])
        first
        | exact x1
        | (have h0' : ¬ a = 0 := fun h => h0 h.symm
           (try x_simp); grind)
    · have hx2b := x2 b
      clear x2 x3
      by_cases hba : b = a
      · subst hba; (try x_simp); grind
      · (try simp only [State.put, State.putS, State.finish, State.write, upd_apply, if_neg hba])
        first
        | exact hx2b
        | ((try x_simp); grind)
    · have hx3b := x3 b hb
      clear x2 x3
      by_cases hba : b = a
      · subst hba; (try x_simp); grind
      · (try simp only [State.put, State.putS, State.finish, State.write, upd_apply, if_neg hba])
        first
        | exact hx3b
        | ((try x_simp); grind))

theorem xinv_step {s s' : State} {a : ActorId} {c : Choice} (g : Xinv s)
    (hs : step s a c = some s') : Xinv s' := by
  rcases step_cases hs with ⟨hp, h'⟩ | h' | h' | h' | ⟨hp, h'⟩ | h' | h' | h' | h'
  · exact xinv_idle g hp h'
  · exact xinv_begin g h'
  · exact xinv_commit g h'
  · exact xinv_abort g h'
  · exact xinv_after g hp h'
  · exact xinv_use g h'
  · exact xinv_sess g h'
  · exact xinv_close g h'
  · exact xinv_exp g h'

theorem xinv_reachable {n : Nat} {s : State} (h : Reachable n s) : Xinv s := by
  induction h with
  | init => exact xinv_init n
  | step _ hs ih => exact xinv_step ih hs

end Lungo.Conc
