/-
  Lungo.Proofs.ConcFreezeAll — assembly: Zown ∧ Zfrz hold in every state reachable without sharing a
  session between actors; consequence: committed transaction objects are frozen.
-/
import Lungo.Proofs.ConcFreeze
import Lungo.Proofs.ConcLogAll
namespace Lungo.Conc

theorem zown_step {s s' : State} {a : ActorId} {c : Choice} (h1 : Inv1 s) (h2 : Inv2 s) (g : Zown s)
    (hs : step s a c = some s') : Zown s' := by
  have lw := h2.lwf; have bd := h2.bnd; have ov := h2.oinv
  rcases step_cases hs with ⟨hp, h'⟩ | h' | h' | h' | ⟨hp, h'⟩ | h' | h' | h' | h'
  · exact zown_idle h1 lw bd ov g hp h'
  · exact zown_begin h1 lw bd ov g h'
  · exact zown_commit h1 lw bd ov g h'
  · exact zown_abort h1 lw bd ov g h'
  · exact zown_after h1 lw bd ov g hp h'
  · exact zown_use h1 lw bd ov g h'
  · exact zown_sess h1 lw bd ov g h'
  · exact zown_close h1 lw bd ov g h'
  · exact zown_exp h1 lw bd ov g h'

theorem zfrz_step {s s' : State} {a : ActorId} {c : Choice} (h1 : Inv1 s) (h2 : Inv2 s) (u : Uinv s)
    (zo : Zown s) (g : Zfrz s) (hs : step s a c = some s') : Zfrz s' := by
  have bd := h2.bnd
  rcases step_cases hs with ⟨hp, h'⟩ | h' | h' | h' | ⟨hp, h'⟩ | h' | h' | h' | h'
  · exact zfrz_idle h1 u bd zo g hp h'
  · exact zfrz_begin h1 u bd zo g h'
  · exact zfrz_commit h1 u bd zo g h'
  · exact zfrz_abort h1 u bd zo g h'
  · exact zfrz_after h1 u bd zo g hp h'
  · exact zfrz_use h1 u bd zo g h'
  · exact zfrz_sess h1 u bd zo g h'
  · exact zfrz_close h1 u bd zo g h'
  · exact zfrz_exp h1 u bd zo g h'

/-- `Zown` needs no sharing restriction: it holds in every reachable state -/
theorem zown_reachable {n : Nat} {s : State} (h : Reachable n s) : Zown s := by
  induction h with
  | init => exact zown_init n
  | step hr hs ih => exact zown_step (inv_reachable hr).1 (inv_reachable hr).2 ih hs

theorem zfrz_reachable {n : Nat} {s : State} (h : ReachableU n s) : Zfrz s := by
  induction h with
  | init => exact zfrz_init n
  | step hr _ hs ih =>
    exact zfrz_step (inv_reachable hr.reachable).1 (inv_reachable hr.reachable).2 (uinv_reachable hr)
      (zown_reachable hr.reachable) ih hs

end Lungo.Conc
