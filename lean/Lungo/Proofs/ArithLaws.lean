/-
  Lungo.Proofs.ArithLaws — the type-promotion table of `Add` / `Mul` (bsonkit/math.go), used by C11.
-/
import Lungo.Model.Arith
namespace Lungo

/-- the numeric BSON type of a value (`none` = not a number). -/
inductive NumTy where
  | int32 | int64 | double | decimal
deriving Repr, DecidableEq

def V.numTy : V → Option NumTy
  | .i32 _ => some .int32
  | .i64 _ => some .int64
  | .f64 _ => some .double
  | .dec _ _ => some .decimal
  | _ => none

/-- the exact integer payload of an integer value. -/
def V.intVal : V → Int
  | .i32 n => n
  | .i64 n => n
  | _ => 0

theorem inI32_iff (n : Int) : inI32 n = true ↔ (-2147483648 ≤ n ∧ n ≤ 2147483647) := by
  unfold inI32 i32Min i32Max; rw [Bool.and_eq_true, decide_eq_true_iff, decide_eq_true_iff]

theorem inI64_iff (n : Int) : inI64 n = true ↔ (-9223372036854775808 ≤ n ∧ n ≤ 9223372036854775807) := by
  unfold inI64 i64Min i64Max; rw [Bool.and_eq_true, decide_eq_true_iff, decide_eq_true_iff]

theorem inI64_of_inI32 {n : Int} (h : inI32 n = true) : inI64 n = true := by
  rw [inI32_iff] at h; rw [inI64_iff]; omega

/-- int32 + int32 always fits int64. -/
theorem add_i32_inI64 {a b : Int} (ha : inI32 a = true) (hb : inI32 b = true) : inI64 (a + b) = true := by
  rw [inI32_iff] at ha hb; rw [inI64_iff]; omega

/-- int32 * int32 always fits int64 (|a·b| ≤ 2^62). -/
theorem mul_i32_inI64 {a b : Int} (ha : inI32 a = true) (hb : inI32 b = true) : inI64 (a * b) = true := by
  rw [inI32_iff] at ha hb; rw [inI64_iff]
  have h1 : a.natAbs ≤ 2147483648 := by omega
  have h2 : b.natAbs ≤ 2147483648 := by omega
  have h3 : (a * b).natAbs ≤ 2147483648 * 2147483648 := by
    rw [Int.natAbs_mul]; exact Nat.mul_le_mul h1 h2
  omega

theorem intResult_narrow (r : Int) (h : inI64 r = true) :
    intResult false r = if inI32 r then .i32 r else .i64 r := by
  unfold intResult
  by_cases h1 : inI32 r = true <;> simp [h1, h]

theorem intResult_wide (r : Int) :
    intResult true r = if inI64 r then .i64 r else .missing := by
  unfold intResult; simp

theorem intResult_wf (w : Bool) (r : Int) : (intResult w r).wf = true := by
  unfold intResult
  by_cases h1 : (!w && inI32 r) = true
  · rw [if_pos h1]; simp at h1; simp [V.wf, h1.2]
  · rw [if_neg h1]
    by_cases h2 : inI64 r = true
    · rw [if_pos h2]; simp [V.wf, h2]
    · rw [if_neg h2]; simp [V.wf]

theorem decToD128_isDec (d : SDec) : ∃ h l, decToD128 d = .dec h l := by
  unfold decToD128
  split
  · exact ⟨_, _, rfl⟩
  · exact ⟨_, _, rfl⟩

/-- the result-type table of `Add`/`Mul`, as a predicate on (a, b, result) parameterised by the
    exact integer operation `op` (`+` or `*`). -/
def ArithTable (op : Int → Int → Int) (a b : V) (res : Option V) : Prop :=
  match a.numTy, b.numTy with
  | some .int32, some .int32 =>
      -- int32 unless the exact result leaves int32, then int64; never rejected
      res = some (if inI32 (op a.intVal b.intVal) then .i32 (op a.intVal b.intVal) else .i64 (op a.intVal b.intVal))
        ∧ inI64 (op a.intVal b.intVal) = true
  | some .int32, some .int64 | some .int64, some .int32 | some .int64, some .int64 =>
      -- int64 iff the exact result is an int64, else rejected (Missing)
      res = some (if inI64 (op a.intVal b.intVal) then .i64 (op a.intVal b.intVal) else .missing)
  | some .double, some .int32 | some .double, some .int64 | some .double, some .double
  | some .int32, some .double | some .int64, some .double =>
      ∃ r, res = some (.f64 r)
  | some .decimal, some .int32 | some .decimal, some .int64 | some .decimal, some .decimal
  | some .int32, some .decimal | some .int64, some .decimal =>
      ∃ h l, res = some (.dec h l)
  | some .double, some .decimal | some .decimal, some .double =>
      res = none          -- decimal.NewFromFloat: not modelled
  | none, _ | _, none =>
      res = some .missing -- not a number: rejected

theorem add_table (a b : V) (wa : a.wf = true) (wb : b.wf = true) : ArithTable (· + ·) a b (Add a b) := by
  cases a <;> cases b <;> simp only [ArithTable, V.numTy, V.intVal, Add, intResult_wide] <;>
    first
      | rfl
      | exact ⟨_, rfl⟩
      | exact ⟨_, _, rfl⟩
      | (obtain ⟨h, l, e⟩ := decToD128_isDec _; rw [e]; exact ⟨_, _, rfl⟩)
      | (simp only [V.wf] at wa wb
         exact ⟨congrArg some (intResult_narrow _ (add_i32_inI64 wa wb)), add_i32_inI64 wa wb⟩)

theorem mul_table (a b : V) (wa : a.wf = true) (wb : b.wf = true) : ArithTable (· * ·) a b (Mul a b) := by
  cases a <;> cases b <;> simp only [ArithTable, V.numTy, V.intVal, Mul, intResult_wide] <;>
    first
      | rfl
      | exact ⟨_, rfl⟩
      | exact ⟨_, _, rfl⟩
      | (obtain ⟨h, l, e⟩ := decToD128_isDec _; rw [e]; exact ⟨_, _, rfl⟩)
      | (simp only [V.wf] at wa wb
         exact ⟨congrArg some (intResult_narrow _ (mul_i32_inI64 wa wb)), mul_i32_inI64 wa wb⟩)

/-- results of Add are well-formed whatever the operands. -/
theorem add_result_wf (a b r : V) (h : Add a b = some r) : r.wf = true := by
  cases a <;> cases b <;> simp only [Add, Option.some.injEq, reduceCtorEq] at h <;> subst h <;>
    first
      | exact intResult_wf _ _
      | rfl
      | (obtain ⟨_, _, e⟩ := decToD128_isDec _; rw [e]; rfl)

theorem mul_result_wf (a b r : V) (h : Mul a b = some r) : r.wf = true := by
  cases a <;> cases b <;> simp only [Mul, Option.some.injEq, reduceCtorEq] at h <;> subst h <;>
    first
      | exact intResult_wf _ _
      | rfl
      | (obtain ⟨_, _, e⟩ := decToD128_isDec _; rw [e]; rfl)

end Lungo
