/-
  Lungo.Spec.Chunks — the chunking of a byte string that C18 demands:
  `chunksOf c l` = [l[0,c), l[c,2c), …], the last piece possibly shorter, no empty piece.
  (Fuel = length of the list; exact for c > 0.  For c = 0 the result is meaningless.)
-/
namespace Lungo.Spec

def chunksAux {α : Type} (c : Nat) : Nat → List α → List (List α)
  | 0, _ => []
  | f + 1, l => if l.length = 0 then [] else l.take c :: chunksAux c f (l.drop c)

def chunksOf {α : Type} (c : Nat) (l : List α) : List (List α) := chunksAux c l.length l

end Lungo.Spec
