/-
  Lungo.Spec.SeqDB — the plain sequential reference model of the driver API (DESIGN §8.6), the
  right-hand side of property C01.

  State: per namespace a list of documents in NATURAL ORDER (insertion order; a replaced or updated
  document keeps its slot; a deleted one leaves no gap) and a list of index DEFINITIONS
  `(name, IndexConfig)`. There are no index entries, no document identities, no oplog, no
  transactions. Everything is written with `List.filter/map/any`, the stable sort, `drop/take` and
  the shared semantic functions `Match`, `Apply`, `Project`, `Extract`, `Distinct`, `sortDocs`,
  `tuples`/`tupleEq` (index key tuples and BSON key equality) — their own meaning is the subject of
  C10/C11/C14/C13/C07, C01 is about the plumbing around them.

  Uniqueness is a condition on DOCUMENTS: `wouldCollide defs docs d` — some unique index definition
  under which `d` falls (partial filter) has a stored document falling under it that shares a key
  tuple with `d`. `admits` is the same condition evaluated definition by definition, so that the
  error CLASS (a partial filter that cannot be evaluated → its error; a collision → `dup`) is the
  one the implementation reports (`admits_eq_wouldCollide` in Props/C01.lean relates the two).

  The system namespace `local.oplog` is listed (it shows up in listCollections/listDatabases) but its
  contents are not part of this model; the only thing the API can observe about it outside a direct
  read is whether it is empty (`listDatabases` reports `empty` for `local`), hence the one bit
  `logged` = "some write has been logged". Direct reads of `local.oplog` are outside the Spec's domain.

  Observed nondeterminism: `oids`, the ObjectIDs the driver generated during the call, in order.
  Core Lean only (linked into `lungo_model` for the `seq` correspondence stream).
-/
import Lungo.Model.Api
namespace Lungo.Spec
open Lungo

/-- a collection: documents in natural order + index definitions (`_id_` first for user collections) -/
structure SColl where
  docs : List Doc
  defs : List (String × IndexConfig)
deriving Inhabited

def SColl.new : SColl := { docs := [], defs := [("_id_", idIndexConfig)] }

structure SeqDB where
  colls : List (Handle × SColl)
  /-- some write has been logged (`local.oplog` is not empty) -/
  logged : Bool := false
deriving Inhabited

def SeqDB.init : SeqDB := { colls := [(oplogHandle, { docs := [], defs := [] })] }

def SeqDB.get? (db : SeqDB) (h : Handle) : Option SColl := (db.colls.find? (·.1 == h)).map (·.2)

/-- a collection that does not exist reads as the empty collection (and is created by the first write) -/
def SeqDB.coll (db : SeqDB) (h : Handle) : SColl := (db.get? h).getD SColl.new

def SeqDB.put (db : SeqDB) (h : Handle) (c : SColl) : SeqDB :=
  if db.colls.any (·.1 == h) then
    { db with colls := db.colls.map fun (h', x) => if h' == h then (h', c) else (h', x) }
  else { db with colls := db.colls ++ [(h, c)] }

def SeqDB.log (db : SeqDB) : SeqDB := { db with logged := true }

/-! ### documents as values -/

/-- same BSON encoding -/
def sameDoc (a b : Doc) : Bool := V.doc a == V.doc b

def memDoc (d : Doc) (l : List Doc) : Bool := l.any (sameDoc d)

/-! ### selection: matching documents → stable sort → drop skip → keep limit -/

/-- `none` = natural order -/
def sortCols (sort : Option Doc) : Res (Option (List Column)) :=
  match sort with
  | none => .ok none
  | some s => if s.isEmpty then .ok none else
    match columns s with
    | .error e => .error e
    | .ok cols => .ok (some cols)

def sortWith (cols : Option (List Column)) (l : List Doc) : List Doc :=
  match cols with
  | none => l
  | some cs => sortDocs l cs

def window {α} (skip limit : Int) (l : List α) : List α :=
  if limit > 0 then (l.drop skip.toNat).take limit.toNat else l.drop skip.toNat

def select (sch : SchemaEval) (docs : List Doc) (q : Doc) (sort : Option Doc) (skip limit : Int) : Res (List Doc) :=
  if skip < 0 then .error .err else
  match sortCols sort with
  | .error e => .error e
  | .ok cols =>
    match filterPlain sch q docs with
    | .error e => .error e
    | .ok ms => .ok (window skip limit (sortWith cols ms))

/-! ### indexes as definitions: which documents fall under one, and when two share a key -/

/-- the document falls under the index (matches its partial filter) -/
def under (sch : SchemaEval) (cfg : IndexConfig) (d : Doc) : Res Bool :=
  match cfg.partialF with
  | none => .ok true
  | some f => Match sch d f

def underB (sch : SchemaEval) (cfg : IndexConfig) (d : Doc) : Bool :=
  match under sch cfg d with
  | .ok true => true
  | _ => false

/-- the key tuples of a document under an index definition -/
def keysOf (cfg : IndexConfig) (d : Doc) : List (List V) :=
  match columns cfg.key with
  | .ok cols => tuples cols d
  | .error _ => []

def sharesKey (cfg : IndexConfig) (d x : Doc) : Bool :=
  (keysOf cfg d).any fun t => (keysOf cfg x).any fun k => tupleEq k t

/-- some stored document under the index shares a key tuple with `d` -/
def clashes (sch : SchemaEval) (cfg : IndexConfig) (docs : List Doc) (d : Doc) : Bool :=
  docs.any fun x => underB sch cfg x && sharesKey cfg d x

/-- the declarative uniqueness condition -/
def wouldCollide (sch : SchemaEval) (defs : List (String × IndexConfig)) (docs : List Doc) (d : Doc) : Bool :=
  defs.any fun (_, cfg) => cfg.unique && underB sch cfg d && clashes sch cfg docs d

/-- `d` may be added to `docs`: definition by definition, the partial filter must be evaluable and
    a unique definition must not clash -/
def admits (sch : SchemaEval) (docs : List Doc) (d : Doc) : List (String × IndexConfig) → Res Unit
  | [] => .ok ()
  | (_, cfg) :: r =>
    match under sch cfg d with
    | .error e => .error e
    | .ok false => admits sch docs d r
    | .ok true => if cfg.unique && clashes sch cfg docs d then .error .dup else admits sch docs d r

/-- the documents `news` may be added one after the other -/
def admitAll (sch : SchemaEval) (defs : List (String × IndexConfig)) : List Doc → List Doc → Res Unit
  | _, [] => .ok ()
  | base, d :: r =>
    match admits sch base d defs with
    | .error e => .error e
    | .ok _ => admitAll sch defs (base ++ [d]) r

/-! ### collection-level writes -/

/-- `_id` generated and put first if absent -/
def genId (d : Doc) (oids : List V) : Res (Doc × List V) :=
  if (Get d "_id").isMissing then
    match oids with
    | [] => .error (.unmodelled "no generated ObjectID observed")
    | o :: r =>
      match Put d ["_id"] o true with
      | .error e => .error e
      | .ok (d', _) => .ok (d', r)
  else .ok (d, oids)

def SColl.insert (sch : SchemaEval) (c : SColl) (d : Doc) (oids : List V) : Res (SColl × Doc × List V) :=
  match genId d oids with
  | .error e => .error e
  | .ok (d, oids) =>
    match admits sch c.docs d c.defs with
    | .error e => .error e
    | .ok _ => .ok ({ c with docs := c.docs ++ [d] }, d, oids)

/-- the documents of `targets` removed -/
def SColl.remove (c : SColl) (targets : List Doc) : SColl :=
  { c with docs := c.docs.filter fun d => !memDoc d targets }

def SColl.delete (sch : SchemaEval) (c : SColl) (q : Doc) (sort : Option Doc) (skip limit : Int) : Res (SColl × List Doc) :=
  match select sch c.docs q sort skip limit with
  | .error e => .error e
  | .ok targets => .ok (c.remove targets, targets)

/-- every document equal to `old` replaced, in its slot, by `nw` -/
def swapDoc (docs : List Doc) (old nw : Doc) : List Doc := docs.map fun d => if sameDoc d old then nw else d

/-- the replacement carries the stored `_id` (put first when it has none; another one is an error) -/
def replacementFor (old repl : Doc) : Res Doc :=
  let replID := Get repl "_id"
  if replID.isMissing then
    match Put repl ["_id"] (Get old "_id") true with
    | .error e => .error e
    | .ok (d, _) => .ok d
  else if !sameId replID (Get old "_id") then .error .err
  else .ok repl

/-- (collection, matched, modified) -/
def SColl.replace (sch : SchemaEval) (c : SColl) (q repl : Doc) (sort : Option Doc) : Res (SColl × List Doc × List Doc) :=
  match select sch c.docs q sort 0 1 with
  | .error e => .error e
  | .ok [] => .ok (c, [], [])
  | .ok (old :: _) =>
    match replacementFor old repl with
    | .error e => .error e
    | .ok nw =>
      match admits sch (c.remove [old]).docs nw c.defs with
      | .error e => .error e
      | .ok _ => .ok ({ c with docs := swapDoc c.docs old nw }, [old], if sameDoc old nw then [] else [nw])

/-- the update applied to every target, in order: (before, after) -/
def applyEach (ac : ACtx) (u : Doc) (fs : List Doc) : List Doc → Res (List (Doc × Doc))
  | [] => .ok []
  | d :: r =>
    match Apply { ac with upsert := false } d u fs with
    | .error e => .error e
    | .ok (d', _) =>
      match applyEach ac u fs r with
      | .error e => .error e
      | .ok rest => .ok ((d, d') :: rest)

/-- every target replaced, in its slot, by its successor -/
def swapAll (docs : List Doc) (pairs : List (Doc × Doc)) : List Doc :=
  docs.map fun d => match pairs.find? (fun p => sameDoc d p.1) with
    | some p => p.2
    | none => d

/-- (collection, matched, modified) -/
def SColl.update (ac : ACtx) (c : SColl) (q u : Doc) (sort : Option Doc) (skip limit : Int) (fs : List Doc) :
    Res (SColl × List Doc × List Doc) :=
  match select ac.sch c.docs q sort skip limit with
  | .error e => .error e
  | .ok targets =>
    match applyEach ac u fs targets with
    | .error e => .error e
    | .ok pairs =>
      if pairs.any (fun p => !sameId (Get p.2 "_id") (Get p.1 "_id")) then .error .err else
      match admitAll ac.sch c.defs (c.remove targets).docs (pairs.map (·.2)) with
      | .error e => .error e
      | .ok _ =>
        .ok ({ c with docs := swapAll c.docs pairs }, targets,
             (pairs.filter fun p => !sameDoc p.1 p.2).map (·.2))

/-- the document an upsert inserts: the seed of the filter (its equality conditions), for a
    replacement the replacement carrying the seed's `_id`, then the update applied as an insert -/
def upsertDoc (ac : ACtx) (q : Doc) (repl update : Option Doc) (fs : List Doc) : Res Doc :=
  match Extract q with
  | .error e => .error e
  | .ok seed =>
    let base : Res Doc := match repl with
      | none => .ok seed
      | some r =>
        let queryID := Get seed "_id"
        let replID := Get r "_id"
        if !queryID.isMissing && !replID.isMissing && V.cmp replID queryID != .eq then .error .err
        else if !replID.isMissing then
          match Put r ["_id"] replID true with
          | .error e => .error e
          | .ok (d, _) => .ok d
        else if !queryID.isMissing then
          match Put r ["_id"] queryID true with
          | .error e => .error e
          | .ok (d, _) => .ok d
        else .ok r
    match base with
    | .error e => .error e
    | .ok doc =>
      match update with
      | none => .ok doc
      | some u =>
        match Apply { ac with upsert := true } doc u fs with
        | .error e => .error e
        | .ok (d, _) => .ok d

def SColl.upsert (ac : ACtx) (c : SColl) (q : Doc) (repl update : Option Doc) (fs : List Doc) (oids : List V) :
    Res (SColl × Doc × List V) :=
  match upsertDoc ac q repl update fs with
  | .error e => .error e
  | .ok doc => c.insert ac.sch doc oids

/-! ### index management -/

/-- what a definition must satisfy -/
def validDef (cfg : IndexConfig) : Res Unit :=
  if cfg.key.isEmpty then .error .err else
  match columns cfg.key with
  | .error e => .error e
  | .ok cols =>
    if cols.any (fun c => isOpKey c.path) then .error .err
    else if cfg.expiry > 0 && cfg.key.length > 1 then .error .err
    else .ok ()

/-- an index of that name with an equal definition exists -/
def SColl.hasSame (c : SColl) (name : String) (cfg : IndexConfig) : Bool :=
  match c.defs.lookup name with
  | some k => cfg.equal k
  | none => false

def SColl.createIndex (sch : SchemaEval) (c : SColl) (name : String) (cfg : IndexConfig) : Res (SColl × String) :=
  match (if name == "" then cfg.name else .ok name) with
  | .error e => .error e
  | .ok name =>
    if c.hasSame name cfg then .ok (c, name)
    else if c.defs.any (fun (_, k) => V.cmp (.doc cfg.key) (.doc k.key) == .eq) then .error .err
    else if c.defs.any (·.1 == name) then .error .err
    else
      match validDef cfg with
      | .error e => .error e
      | .ok _ =>
        -- the stored documents, one after the other, must be admissible under the new definition
        match admitAll sch [(name, cfg)] [] c.docs with
        | .error e => .error e
        | .ok _ => .ok ({ c with defs := c.defs ++ [(name, cfg)] }, name)

def SColl.dropIndex (c : SColl) (name : String) : Res SColl :=
  if name == "_id_" then .error .err
  else if !c.defs.any (·.1 == name) then .error .err
  else .ok { c with defs := c.defs.filter (·.1 != name) }

def SColl.dropAllIndexes (c : SColl) : SColl := { c with defs := c.defs.filter (·.1 == "_id_") }

/-- drop every index but `_id_` (nothing to drop: the database is as before) -/
def dropAllIn (db : SeqDB) (h : Handle) (c : SColl) : SeqDB :=
  if (c.defs.filter (·.1 != "_id_")).isEmpty then db else db.put h c.dropAllIndexes

/-- drop by name ("" = all) -/
def dropIn (db : SeqDB) (h : Handle) (c : SColl) (name : String) : Res SeqDB :=
  if name == "" then .ok (dropAllIn db h c) else
  match c.dropIndex name with
  | .error e => .error e
  | .ok c' => .ok (db.put h c')

/-- dropIndex by name ("" = all but `_id_`): the collection must exist -/
def dropIndexCall (db : SeqDB) (h : Handle) (name : String) : Res SeqDB :=
  match writable h true with
  | .error e => .error e
  | .ok _ =>
    match db.get? h with
    | none => .error .err
    | some c => dropIn db h c name

def indexSpecDoc (name : String) (cfg : IndexConfig) : Doc :=
  ([("v", V.i32 2), ("key", .doc cfg.key), ("name", .str name)] : Doc) ++
  (if cfg.unique && name != "_id_" then [("unique", .bool true)] else []) ++
  (match cfg.partialF with
   | some p => [("partialFilterExpression", V.doc p)]
   | none => []) ++
  (if cfg.expiry > 0 then [("expireAfterSeconds", .i32 (wrap32 (cfg.expiry / 1000000000)))] else [])

def byName : List Column := [{ path := "name", reverse := false }]

/-! ### database-level writes (one operation on one namespace; used directly and by bulkWrite) -/

def opInsert (sch : SchemaEval) (db : SeqDB) (h : Handle) (d : Doc) (oids : List V) : Res (SeqDB × Doc × List V) :=
  match (db.coll h).insert sch d oids with
  | .error e => .error e
  | .ok (c, d, oids) => .ok ((db.put h c).log, d, oids)

def opReplace (ac : ACtx) (db : SeqDB) (h : Handle) (q repl : Doc) (sort : Option Doc) (upsert : Bool) (oids : List V) :
    Res (SeqDB × TResult × List V) :=
  let c := db.coll h
  match c.replace ac.sch q repl sort with
  | .error e => .error e
  | .ok (c', matched, modified) =>
    if matched.isEmpty && upsert then
      match c.upsert ac q (some repl) none [] oids with
      | .error e => .error e
      | .ok (c', d, oids) => .ok ((db.put h c').log, { upserted := some d }, oids)
    else
      let db' := db.put h c'
      .ok (if modified.isEmpty then db' else db'.log, { matched := matched, modified := modified }, oids)

def opUpdate (ac : ACtx) (db : SeqDB) (h : Handle) (q u : Doc) (sort : Option Doc) (upsert : Bool)
    (skip limit : Int) (fs : List Doc) (oids : List V) : Res (SeqDB × TResult × List V) :=
  let c := db.coll h
  match c.update ac q u sort skip limit fs with
  | .error e => .error e
  | .ok (c', matched, modified) =>
    if matched.isEmpty && upsert then
      match c.upsert ac q none (some u) fs oids with
      | .error e => .error e
      | .ok (c', d, oids) => .ok ((db.put h c').log, { upserted := some d }, oids)
    else
      let db' := db.put h c'
      .ok (if modified.isEmpty then db' else db'.log, { matched := matched, modified := modified }, oids)

def opDelete (sch : SchemaEval) (db : SeqDB) (h : Handle) (q : Doc) (sort : Option Doc) (skip limit : Int) :
    Res (SeqDB × TResult) :=
  match (db.coll h).delete sch q sort skip limit with
  | .error e => .error e
  | .ok (c', targets) =>
    let db' := db.put h c'
    .ok (if targets.isEmpty then db' else db'.log, { matched := targets })

/-- a write that changed nothing leaves the database as it was (in particular it does not create
    the collection) -/
def keepIf (changed : Bool) (db' db : SeqDB) : SeqDB := if changed then db' else db

def replaceCall (ac : ACtx) (db : SeqDB) (h : Handle) (q repl : Doc) (sort : Option Doc) (upsert : Bool) (oids : List V) :
    Res (SeqDB × TResult) :=
  match validateReplacement repl with
  | .error e => .error e
  | .ok _ =>
    match writable h true with
    | .error e => .error e
    | .ok _ =>
      if (db.get? h).isNone && !upsert then .ok (db, {}) else
      match opReplace ac db h q repl sort upsert oids with
      | .error e => .error e
      | .ok (db', r, _) => .ok (keepIf (!r.modified.isEmpty || r.upserted.isSome) db' db, r)

def updateCall (ac : ACtx) (db : SeqDB) (h : Handle) (q u : Doc) (sort : Option Doc) (upsert : Bool)
    (limit : Int) (fs : List Doc) (oids : List V) : Res (SeqDB × TResult) :=
  match writable h true with
  | .error e => .error e
  | .ok _ =>
    if (db.get? h).isNone && !upsert then .ok (db, {}) else
    match opUpdate ac db h q u sort upsert 0 limit fs oids with
    | .error e => .error e
    | .ok (db', r, _) => .ok (keepIf (!r.modified.isEmpty || r.upserted.isSome) db' db, r)

def deleteCall (sch : SchemaEval) (db : SeqDB) (h : Handle) (q : Doc) (sort : Option Doc) (limit : Int) :
    Res (SeqDB × TResult) :=
  match writable h true with
  | .error e => .error e
  | .ok _ =>
    if (db.get? h).isNone then .ok (db, {}) else
    match opDelete sch db h q sort 0 limit with
    | .error e => .error e
    | .ok (db', r) => .ok (keepIf (!r.matched.isEmpty) db' db, r)

/-- insertMany: ordered stops at the first rejected document, unordered skips rejected ones;
    (state, remaining ids, inserted documents, first error) -/
def insertAll (sch : SchemaEval) (h : Handle) (ordered : Bool) :
    SeqDB → List V → List Doc → Option Err → List Doc → SeqDB × List V × List Doc × Option Err
  | db, oids, acc, err, [] => (db, oids, acc, err)
  | db, oids, acc, err, d :: r =>
    match opInsert sch db h d oids with
    | .error e =>
      let err := if err.isNone then some e else err
      if ordered then (db, oids, acc, err) else insertAll sch h ordered db oids acc err r
    | .ok (db', d', oids') => insertAll sch h ordered db' oids' (acc ++ [d']) err r

def insertCall (sch : SchemaEval) (db : SeqDB) (h : Handle) (docs : List Doc) (ordered : Bool) (oids : List V) :
    Res (SeqDB × List Doc × Option Err) :=
  match writable h true with
  | .error e => .error e
  | .ok _ =>
    let base := if (db.get? h).isSome then db else db.put h SColl.new
    let (db', _, inserted, err) := insertAll sch h ordered base oids [] none docs
    .ok (keepIf (!inserted.isEmpty) db' db, inserted, err)

/-! ### bulkWrite -/

def bulkOne (ac : ACtx) (db : SeqDB) (h : Handle) (oids : List V) : BulkModel → Res (SeqDB × TResult × List V)
  | .insertOne d =>
    match opInsert ac.sch db h d oids with
    | .error e => .error e
    | .ok (db', d', oids') => .ok (db', { modified := [d'] }, oids')
  | .replaceOne q r up => opReplace ac db h q r none up oids
  | .updateOne q u up fs => opUpdate ac db h q u none up 0 1 fs oids
  | .updateMany q u up fs => opUpdate ac db h q u none up 0 0 fs oids
  | .deleteOne q =>
    match opDelete ac.sch db h q none 0 1 with
    | .error e => .error e
    | .ok (db', r) => .ok (db', r, oids)
  | .deleteMany q =>
    match opDelete ac.sch db h q none 0 0 with
    | .error e => .error e
    | .ok (db', r) => .ok (db', r, oids)

def BulkModel.isInsert : BulkModel → Bool
  | .insertOne _ => true
  | _ => false

def BulkModel.isDelete : BulkModel → Bool
  | .deleteOne _ => true
  | .deleteMany _ => true
  | _ => false

/-- number of documents an operation changed -/
def changesOf (m : BulkModel) (r : TResult) : Nat :=
  r.modified.length + (if r.upserted.isSome then 1 else if BulkModel.isDelete m then r.matched.length else 0)

/-- the operations in order: ordered stops at the first failing one, unordered continues -/
def bulkAll (ac : ACtx) (h : Handle) (ordered : Bool) :
    SeqDB → List V → List TResult → Nat → List BulkModel → SeqDB × List TResult × Nat
  | db, _, acc, ch, [] => (db, acc, ch)
  | db, oids, acc, ch, m :: r =>
    match bulkOne ac db h oids m with
    | .error e =>
      let acc := acc ++ [{ error := some e }]
      if ordered then (db, acc, ch) else bulkAll ac h ordered db oids acc ch r
    | .ok (db', tr, oids') => bulkAll ac h ordered db' oids' (acc ++ [tr]) (ch + changesOf m tr) r

def sumBy {α} (f : α → Nat) (l : List α) : Nat := (l.map f).foldl (· + ·) 0

/-- counts are sums over the successful operations, upserted ids and errors are keyed by operation index -/
def bulkReply (ms : List BulkModel) (rs : List TResult) : Reply :=
  let rows : List (Nat × TResult × BulkModel) := (List.range rs.length).zip (rs.zip ms)
  let good := rows.filter fun (_, r, _) => r.error.isNone
  let writes := good.filter fun (_, _, m) => !BulkModel.isInsert m && !BulkModel.isDelete m
  .bulk
    (sumBy (fun (_, r, _) => r.modified.length) (good.filter fun (_, _, m) => BulkModel.isInsert m))
    (sumBy (fun (_, r, _) => r.matched.length) writes)
    (sumBy (fun (_, r, _) => r.modified.length) writes)
    (sumBy (fun (_, r, _) => r.matched.length) (good.filter fun (_, _, m) => BulkModel.isDelete m))
    (writes.filter fun (_, r, _) => r.upserted.isSome).length
    (writes.filterMap fun (i, r, _) => r.upserted.map fun d => (i, Get d "_id"))
    (rows.filterMap fun (i, r, _) => r.error.map fun e => (i, e))

def badReplacement : BulkModel → Bool
  | .replaceOne _ r _ => (validateReplacement r).toBool == false
  | _ => false

/-! ### listings -/

def collectionInfo (h : Handle) : Doc :=
  let full := h.db ++ "." ++ h.coll
  [("name", V.str h.coll), ("type", .str "collection"), ("options", .doc []),
   ("info", .doc [("uuid", .str full), ("readOnly", .bool false)]),
   ("idIndex", .doc [("v", .i32 2), ("key", .doc [("_id", .i32 1)]), ("name", .str "_id_"), ("namespace", .str full)])]

/-- `local.oplog` is empty iff nothing has been logged -/
def SeqDB.isEmptyColl (db : SeqDB) (h : Handle) (c : SColl) : Bool :=
  if h == oplogHandle then !db.logged else c.docs.isEmpty

def databaseInfos (db : SeqDB) : List Doc :=
  (dedupStrings (db.colls.map (·.1.db))).map fun name =>
    let empty := (db.colls.filter (·.1.db == name)).all fun (h, c) => db.isEmptyColl h c
    ([("name", V.str name), ("sizeOnDisk", .i64 0), ("empty", .bool empty)] : Doc)

/-! ### TTL -/

/-- the documents of a collection that a TTL definition expires at `nowMs`: a date older than
    `now − expiry` at the indexed field -/
def ttlQuery (defs : List (String × IndexConfig)) (nowMs : Int) : Doc :=
  let conds : List V := (defs.filter fun (_, cfg) => cfg.expiry > 0).map fun (_, cfg) =>
    let field := match cfg.key with
      | (k, _) :: _ => k
      | [] => ""
    V.doc [(field, .doc [("$lt", .date (nowMs - cfg.expiry / 1000000))])]
  [("$or", .arr conds)]

/-- (collections after expiry, number of removed documents) -/
def expireAll (sch : SchemaEval) (nowMs : Int) : List (Handle × SColl) → Res (List (Handle × SColl) × Nat)
  | [] => .ok ([], 0)
  | (h, c) :: r =>
    if (c.defs.filter fun (_, cfg) => cfg.expiry > 0).isEmpty then
      match expireAll sch nowMs r with
      | .error e => .error e
      | .ok (r', n) => .ok ((h, c) :: r', n)
    else
      match c.delete sch (ttlQuery c.defs nowMs) none 0 0 with
      | .error e => .error e
      | .ok (c', gone) =>
        match expireAll sch nowMs r with
        | .error e => .error e
        | .ok (r', n) => .ok ((h, c') :: r', gone.length + n)

/-! ### one call -/

def findDocs (sch : SchemaEval) (db : SeqDB) (h : Handle) (q : Doc) (sort : Option Doc) (skip limit : Int) : Res (List Doc) :=
  match h.validate true with
  | .error e => .error e
  | .ok _ =>
    match db.get? h with
    | none => .ok []
    | some c => select sch c.docs q sort skip limit

def step (sch : SchemaEval) (db : SeqDB) (c : Call) (oids : List V) : Res (SeqDB × Reply) :=
  let ac := acOf sch
  match c with
  | .insertOne h doc =>
    match insertCall sch db h [doc] true oids with
    | .error e => .error e
    | .ok (db', inserted, err) =>
      match err, inserted with
      | some e, _ => .error e
      | none, d :: _ => .ok (db', .id (Get d "_id"))
      | none, [] => .error .err
  | .insertMany h docs ordered =>
    match insertCall sch db h docs ordered oids with
    | .error e => .error e
    | .ok (db', inserted, err) => .ok (db', .ids (inserted.map fun d => Get d "_id") err)
  | .find h q o =>
    match findDocs sch db h q o.sort o.skip o.limit with
    | .error e => .error e
    | .ok l =>
      match projList sch o.proj l with
      | .error e => .error e
      | .ok l => .ok (db, .docs l)
  | .findOne h q o =>
    match findDocs sch db h q o.sort o.skip 1 with
    | .error e => .error e
    | .ok [] => .ok (db, .doc none)
    | .ok l =>
      match projList sch o.proj l with
      | .error e => .error e
      | .ok l => .ok (db, .doc l.head?)
  | .count h q skip limit =>
    match findDocs sch db h q none skip limit with
    | .error e => .error e
    | .ok l => .ok (db, .num l.length)
  | .estCount h =>
    match h.validate true with
    | .error e => .error e
    | .ok _ => .ok (db, .num ((db.get? h).map (·.docs.length) |>.getD 0))
  | .distinct h field q =>
    match findDocs sch db h q none 0 0 with
    | .error e => .error e
    | .ok l => .ok (db, .vals (Distinct l field))
  | .updateOne h q u upsert fs =>
    match updateCall ac db h q u none upsert 1 fs oids with
    | .error e => .error e
    | .ok (db', r) => .ok (db', updReply r)
  | .updateMany h q u upsert fs =>
    match updateCall ac db h q u none upsert 0 fs oids with
    | .error e => .error e
    | .ok (db', r) => .ok (db', updReply r)
  | .replaceOne h q repl upsert =>
    match replaceCall ac db h q repl none upsert oids with
    | .error e => .error e
    | .ok (db', r) => .ok (db', updReply r)
  | .deleteOne h q =>
    match deleteCall sch db h q none 1 with
    | .error e => .error e
    | .ok (db', r) => .ok (db', .num r.matched.length)
  | .deleteMany h q =>
    match deleteCall sch db h q none 0 with
    | .error e => .error e
    | .ok (db', r) => .ok (db', .num r.matched.length)
  | .findOneAndDelete h q sort proj =>
    match deleteCall sch db h q sort 1 with
    | .error e => .error e
    | .ok (db', r) =>
      -- a failing projection fails the call (without effect)
      match projOpt sch proj r.matched.head? with
      | .error e => .error e
      | .ok d => .ok (db', .doc d)
  | .findOneAndReplace h q repl sort proj upsert after =>
    match replaceCall ac db h q repl sort upsert oids with
    | .error e => .error e
    | .ok (db', r) =>
      match projOpt sch proj (famDoc r after) with
      | .error e => .error e
      | .ok d => .ok (db', .doc d)
  | .findOneAndUpdate h q u sort proj upsert after fs =>
    match updateCall ac db h q u sort upsert 1 fs oids with
    | .error e => .error e
    | .ok (db', r) =>
      match projOpt sch proj (famDoc r after) with
      | .error e => .error e
      | .ok d => .ok (db', .doc d)
  | .bulkWrite h models ordered =>
    if models.any badReplacement then .error .err else
    match writable h true with
    | .error e => .error e
    | .ok _ =>
      let base := if (db.get? h).isSome then db else db.put h SColl.new
      let (db', results, changes) := bulkAll ac h ordered base oids [] 0 models
      .ok (keepIf (changes > 0) db' db, bulkReply models results)
  | .createIndex h name config =>
    match writable h true with
    | .error e => .error e
    | .ok _ =>
      match (db.coll h).createIndex sch name config with
      | .error e => .error e
      | .ok (c', name) => .ok (db.put h c', .name name)
  | .dropIndex h name =>
    match dropIndexCall db h name with
    | .error e => .error e
    | .ok db' => .ok (db', .unit)
  | .dropAllIndexes h =>
    match dropIndexCall db h "" with
    | .error e => .error e
    | .ok db' => .ok (db', .unit)
  | .dropIndexByKey h key =>
    match writable h true with
    | .error e => .error e
    | .ok _ =>
      match db.get? h with
      | none => .error .err
      | some c =>
        match c.defs.find? (fun x => V.cmp (.doc x.2.key) (.doc key) == .eq) with
        | none => .error .err
        | some (name, _) =>
          match dropIndexCall db h name with
          | .error e => .error e
          | .ok db' => .ok (db', .unit)
  | .listIndexes h =>
    match h.validate true with
    | .error e => .error e
    | .ok _ =>
      match db.get? h with
      | none => .ok (db, .docs [])
      | some c => .ok (db, .docs (sortDocs (c.defs.map fun (n, cfg) => indexSpecDoc n cfg) byName))
  | .createCollection h =>
    match writable h true with
    | .error e => .error e
    | .ok _ => .ok (if (db.get? h).isSome then db else db.put h SColl.new, .unit)
  | .dropCollection h =>
    -- a collection name is needed (without one this would be the request to drop the database)
    match writable h true with
    | .error e => .error e
    | .ok _ =>
      if (db.colls.filter fun (ns, _) => ns == h).isEmpty then .ok (db, .unit)
      else .ok ({ colls := db.colls.filter fun (ns, _) => !(ns == h), logged := true }, .unit)
  | .dropDatabase name =>
    match writable ⟨name, ""⟩ false with
    | .error e => .error e
    | .ok _ =>
      if (db.colls.filter fun (ns, _) => ns.db == name).isEmpty then .ok (db, .unit)
      else .ok ({ colls := db.colls.filter fun (ns, _) => !(ns.db == name), logged := true }, .unit)
  | .listCollections name q =>
    match (Handle.mk name "").validate false with
    | .error e => .error e
    | .ok _ =>
      match filterPlain sch q ((db.colls.filter (·.1.db == name)).map fun (h, _) => collectionInfo h) with
      | .error e => .error e
      | .ok l => .ok (db, .names (namesOf (sortDocs l byName)))
  | .listDatabases q =>
    match filterPlain sch q (databaseInfos db) with
    | .error e => .error e
    | .ok l => .ok (db, .names (namesOf (sortDocs l byName)))
  | .expire nowMs =>
    match expireAll sch nowMs db.colls with
    | .error e => .error e
    | .ok (colls', n) => .ok (if n > 0 then { colls := colls', logged := true } else db, .num n)

/-- a history of calls: a failing call leaves the state as it was -/
def run (sch : SchemaEval) (db : SeqDB) (calls : List (Call × List V)) : SeqDB :=
  calls.foldl (fun db co => match step sch db co.1 co.2 with
    | .ok (db', _) => db'
    | .error _ => db) db

/-- the replies (or error classes) of a history -/
def replies (sch : SchemaEval) : SeqDB → List (Call × List V) → List (Res Reply)
  | _, [] => []
  | db, co :: r =>
    match step sch db co.1 co.2 with
    | .ok (db', rep) => .ok rep :: replies sch db' r
    | .error e => .error e :: replies sch db r

end Lungo.Spec
