/-
  Lungo.Spec.IndexSpec — the index invariants of properties C15 (coherence) and C07 (uniqueness),
  stated over the collection model of Lungo/Model/Collection.lean and lifted to the catalog
  (Lungo/Model/Txn.lean) and the sequential system (Lungo/Model/Api.lean).

  Everything about an index is stated relative to a SET of stored documents `S : SDoc → Prop`
  (for a collection `c` this is `(· ∈ c.docs)`), because the index never depends on the order of
  the document list.
-/
import Lungo.Model.Api
import Lungo.Model.Session
import Lungo.Spec.I64Ok
namespace Lungo

/-- `d` falls under index `i`: it matches the partial filter (every document when there is none). -/
def belongs (sch : SchemaEval) (i : Index) (d : Doc) : Prop := partialMatches sch i d = .ok true

/-- every component of a key tuple has in-range int64 payloads (domain of the C12 laws) -/
def TupOk (t : List V) : Prop := ∀ v ∈ t, v.i64Ok = true

/-- the document has in-range int64 payloads (true of every Go value) -/
def DocOk (d : Doc) : Prop := (V.doc d).i64Ok = true

def DocsOk (docs : List SDoc) : Prop := ∀ x ∈ docs, DocOk x.doc

/-- The index holds exactly the documents of `S` (those that belong), each under all its tuples. -/
structure IndexCoherent (sch : SchemaEval) (S : SDoc → Prop) (i : Index) : Prop where
  /-- the cached columns are those of the configured key -/
  cols : columns i.config.key = .ok i.columns
  /-- the partial filter can be evaluated on every stored document -/
  total : ∀ x, S x → ∃ b, partialMatches sch i x.doc = .ok b
  /-- every entry is a tuple of a stored document that belongs to the index -/
  sound : ∀ k id, (k, id) ∈ i.entries →
    ∃ x, S x ∧ x.id = id ∧ belongs sch i x.doc ∧ k ∈ tuples i.columns x.doc
  /-- every tuple of every belonging stored document has an entry (up to `tupleEq`) -/
  complete : ∀ x, S x → belongs sch i x.doc → ∀ t ∈ tuples i.columns x.doc,
    ∃ k, (k, x.id) ∈ i.entries ∧ tupleEq k t = true
  /-- the btree is a set: no two entries with the same document and `tupleEq` keys -/
  nodup : i.entries.Pairwise fun e1 e2 => ¬ (e1.2 = e2.2 ∧ tupleEq e1.1 e2.1 = true)

/-- identities of the stored documents are pairwise distinct -/
def IdsDistinct (docs : List SDoc) : Prop := (docs.map (·.id)).Nodup

/-- every stored identity is below `n` (freshness of `Nu.nextId`) -/
def IdsBelow (docs : List SDoc) (n : Nat) : Prop := ∀ x ∈ docs, x.id < n

/-- C15: every index of the collection holds exactly the collection's documents. -/
def Coherent (sch : SchemaEval) (c : Coll) : Prop :=
  IdsDistinct c.docs ∧ ∀ n i, (n, i) ∈ c.indexes → IndexCoherent sch (· ∈ c.docs) i

/-- no two distinct belonging documents of `S` share a key tuple under a unique index -/
def IndexUnique (sch : SchemaEval) (S : SDoc → Prop) (i : Index) : Prop :=
  i.config.unique = true → ∀ x y, S x → S y → x ≠ y → belongs sch i x.doc → belongs sch i y.doc →
    ∀ t1 ∈ tuples i.columns x.doc, ∀ t2 ∈ tuples i.columns y.doc, tupleEq t1 t2 = false

/-- C07: no unique index of the collection has two distinct documents with a common key. -/
def Unique (sch : SchemaEval) (c : Coll) : Prop :=
  ∀ n i, (n, i) ∈ c.indexes → IndexUnique sch (· ∈ c.docs) i

/-- C07 restricted to the well-formed documents (those a Go program can hold: int64 payloads in
    range). This is the form that every transition preserves unconditionally; with `DocsOk c.docs`
    it is `Unique` (`unique_of_uniqueOk`). -/
def UniqueOk (sch : SchemaEval) (c : Coll) : Prop :=
  ∀ n i, (n, i) ∈ c.indexes → IndexUnique sch (fun x => x ∈ c.docs ∧ DocOk x.doc) i

/-- the two indexes have the same entries up to `tupleEq` on the key -/
def sameEntries (i j : Index) : Prop :=
  (∀ k id, (k, id) ∈ i.entries → ∃ k', (k', id) ∈ j.entries ∧ tupleEq k' k = true) ∧
  (∀ k id, (k, id) ∈ j.entries → ∃ k', (k', id) ∈ i.entries ∧ tupleEq k' k = true)

/-- the index rebuilt from scratch over `docs` with the configuration of `i` -/
def rebuild (sch : SchemaEval) (i : Index) (docs : List SDoc) : Res (Index × Bool) :=
  match newIndex i.config with
  | .error e => .error e
  | .ok i0 => i0.build sch docs

/-- document `d` would collide with a stored document under the unique index `i` -/
def CollidesAt (sch : SchemaEval) (S : SDoc → Prop) (i : Index) (d : Doc) : Prop :=
  i.config.unique = true ∧ belongs sch i d ∧
    ∃ x, S x ∧ belongs sch i x.doc ∧
      ∃ t ∈ tuples i.columns d, ∃ k ∈ tuples i.columns x.doc, tupleEq k t = true

/-- document `d` collides with a stored document under some unique index of the collection -/
def Collides (sch : SchemaEval) (c : Coll) (d : Doc) : Prop :=
  ∃ n i, (n, i) ∈ c.indexes ∧ CollidesAt sch (· ∈ c.docs) i d

/-- every partial filter of the collection can be evaluated on `d` (no `Match` error) -/
def FiltersTotal (sch : SchemaEval) (c : Coll) (d : Doc) : Prop :=
  ∀ n i, (n, i) ∈ c.indexes → ∃ b, partialMatches sch i d = .ok b

/-- the `_id_` index with its fixed definition is present -/
def IdIndexPresent (c : Coll) : Prop := ∃ i, ("_id_", i) ∈ c.indexes ∧ i.config = idIndexConfig

/-- index names are pairwise distinct (the association list represents the Go map `Indexes`) -/
def NamesDistinct (c : Coll) : Prop := (c.indexes.map (·.1)).Nodup

/-- catalog-level invariant (C15 + the side conditions the transitions rely on) -/
structure Inv (sch : SchemaEval) (cat : Catalog) (nextId : Nat) : Prop where
  coherent : ∀ h c, (h, c) ∈ cat.namespaces → Coherent sch c
  below : ∀ h c, (h, c) ∈ cat.namespaces → IdsBelow c.docs nextId
  oplog : ∃ c, (oplogHandle, c) ∈ cat.namespaces
  /-- the oplog collection has no index (events are appended without index maintenance) -/
  oplogBare : ∀ c, (oplogHandle, c) ∈ cat.namespaces → c.indexes = []
  idIndex : ∀ h c, (h, c) ∈ cat.namespaces → h ≠ oplogHandle → IdIndexPresent c
  /-- the index association lists are maps -/
  names : ∀ h c, (h, c) ∈ cat.namespaces → NamesDistinct c

/-- catalog-level uniqueness -/
def UniqueCat (sch : SchemaEval) (cat : Catalog) : Prop :=
  ∀ h c, (h, c) ∈ cat.namespaces → Unique sch c

/-- catalog-level uniqueness among the well-formed documents -/
def UniqueOkCat (sch : SchemaEval) (cat : Catalog) : Prop :=
  ∀ h c, (h, c) ∈ cat.namespaces → UniqueOk sch c

/-- all stored documents of the catalog are well-formed -/
def OkCat (cat : Catalog) : Prop := ∀ h c, (h, c) ∈ cat.namespaces → DocsOk c.docs

/-- the invariant of the sequential system -/
def SysInv (sch : SchemaEval) (s : Sys) : Prop := Inv sch s.catalog s.nextId

/-- a history of driver calls (each with the ObjectIDs observed for it); a failed call leaves
    the state unchanged -/
def Sys.run (sch : SchemaEval) (s : Sys) (calls : List (Call × List V)) : Sys :=
  calls.foldl (fun s co => match Sys.step sch s co.1 co.2 with
    | .ok (s', _) => s'
    | .error _ => s) s

/-- the invariant of the session-level system: the committed catalog and the catalog of every open
    session transaction satisfy `Inv` (all with the one global identity counter) -/
def SSysInv (sch : SchemaEval) (s : SSys) : Prop :=
  SysInv sch s.sys ∧
  ∀ k st t, (k, st) ∈ s.sessions → st.txn = some t → Inv sch t.catalog s.sys.nextId

end Lungo
