/-
  Lungo.Spec.Reader — the in-memory reader C18 compares a download stream against.

  Modelled on Go's bytes.Reader (bytes/reader.go):
    Read(b):  if r.i >= len(r.s) { return 0, io.EOF }; n = copy(b, r.s[r.i:]); r.i += n; return n, nil
              (so Read at EOF returns (0, EOF) even for len(b) = 0, and Read of 0 bytes before EOF
               returns (0, nil))
    Seek(offset, whence): abs = offset | r.i + offset | len(r.s) + offset  (int64 arithmetic, wraps);
              unknown whence → error "invalid whence"; abs < 0 → error "negative position";
              otherwise r.i = abs (positions beyond the end are allowed), return abs.
    Skip(n) = Seek(n, io.SeekCurrent)   (bytes.Reader has no Skip; this is the contract of
              DownloadStream.Skip's documentation).
-/
import Lungo.Model.GridFS
namespace Lungo.Spec
open Lungo.GridFS (Bytes wrap64 ROp)

inductive RErr where
  | eof | negPos | invalidWhence
  deriving DecidableEq, Repr, Inhabited

structure Reader where
  content : Bytes
  pos : Nat := 0
  deriving Repr, Inhabited

def Reader.read (r : Reader) (n : Nat) : Reader × Bytes × Option RErr :=
  if r.pos ≥ r.content.length then (r, [], some .eof)
  else
    let out := (r.content.drop r.pos).take n
    ({ r with pos := r.pos + out.length }, out, none)

def Reader.seekPos (r : Reader) (abs : Int) : Reader × Nat × Option RErr :=
  if abs < 0 then (r, 0, some .negPos)
  else ({ r with pos := abs.toNat }, abs.toNat, none)

def Reader.seek (r : Reader) (offset whence : Int) : Reader × Nat × Option RErr :=
  if whence = 0 ∨ whence = 1 ∨ whence = 2 then
    r.seekPos
      (if whence = 0 then offset
       else if whence = 1 then wrap64 (r.pos + offset)
       else wrap64 (r.content.length + offset))
  else (r, 0, some .invalidWhence)

def Reader.skip (r : Reader) (n : Int) : Reader × Nat × Option RErr := r.seek n 1

/-- observable result of a step: bytes, returned number, position afterwards, error -/
structure SOut where
  bytes : Bytes
  ret : Nat
  pos : Nat
  err : Option RErr
  deriving Repr, DecidableEq, Inhabited

def Reader.step (r : Reader) : ROp → Reader × SOut
  | .read n => let x := r.read n; (x.1, ⟨x.2.1, x.2.1.length, x.1.pos, x.2.2⟩)
  | .seek o w => let x := r.seek o w; (x.1, ⟨[], x.2.1, x.1.pos, x.2.2⟩)
  | .skip n => let x := r.skip n; (x.1, ⟨[], x.2.1, x.1.pos, x.2.2⟩)

def Reader.run : Reader → List ROp → List SOut
  | _, [] => []
  | r, op :: ops => let x := r.step op; x.2 :: Reader.run x.1 ops

end Lungo.Spec
