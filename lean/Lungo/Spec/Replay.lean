/-
  Lungo.Spec.Replay — the replay semantics of change events onto collection contents (C08).

  Contents: for every namespace but the oplog, its documents in natural (insertion) order.
  An event is read the way a change-stream consumer reads it: `operationType`, `ns.db`, `ns.coll`,
  `documentKey._id`, `fullDocument`. Replay:
    insert        → append `fullDocument` (if a document with that `_id` is already there: set it in its slot)
    replace/update→ set `fullDocument` in the slot of the document whose `_id` is `documentKey._id`
    delete        → remove the document(s) with that `_id`
    drop          → remove the namespace;   dropDatabase → remove all namespaces of the database
  Keys are matched by STRUCTURAL equality (`==` = `V.beq`, same BSON encoding): `documentKey._id`
  is a verbatim copy of the document's `_id`, and the code's own identity test on update/replace
  (`sameId`) is structural too. Under the `_id_` unique index distinct documents have `_id`s that
  differ under `Compare`, hence structurally (`Compare` is reflexive) — so this is the weaker
  assumption on the collection and the finer key.
  Namespaces that hold no document are not distinguishable by replay (creating a collection or an
  index appends no event): contents are compared per namespace as document lists, an absent
  namespace counting as empty (`Contents.Equiv`).
-/
import Lungo.Model.Txn
namespace Lungo.Spec
open Lungo

abbrev Contents := List (Handle × List Doc)

/-- the documents of namespace `h` (absent = empty) -/
def Contents.docs (c : Contents) (h : Handle) : List Doc := ((c.find? (·.1 == h)).map (·.2)).getD []

/-- equality as document lists per namespace -/
def Contents.Equiv (a b : Contents) : Prop := ∀ h, a.docs h = b.docs h

infix:50 " ≃ " => Contents.Equiv

/-- the contents of a catalog: all namespaces but the oplog, documents in natural order -/
def contents (cat : Catalog) : Contents :=
  (cat.namespaces.filter fun hc => hc.1 != oplogHandle).map fun hc => (hc.1, hc.2.docs.map (·.doc))

inductive Change where
  | insert (h : Handle) (key : V) (doc : Doc)
  | set (h : Handle) (key : V) (doc : Doc)
  | delete (h : Handle) (key : V)
  | drop (h : Handle)
  | dropDatabase (db : String)

def strOr (v : V) : String :=
  match v with
  | .str s => s
  | _ => ""

/-- reading an event document -/
def decodeEvent (ev : Doc) : Option Change :=
  let db := strOr (getP ev ["ns", "db"])
  let coll := strOr (getP ev ["ns", "coll"])
  let h : Handle := ⟨db, coll⟩
  let key := getP ev ["documentKey", "_id"]
  let full : Option Doc := match getP ev ["fullDocument"] with
    | .doc d => some d
    | _ => none
  match getP ev ["operationType"] with
  | .str op =>
    if op == "insert" then full.map (Change.insert h key)
    else if op == "replace" || op == "update" then full.map (Change.set h key)
    else if op == "delete" then some (.delete h key)
    else if op == "drop" then some (.drop h)
    else if op == "dropDatabase" then some (.dropDatabase db)
    else none
  | _ => none

/-- the key of a document -/
def keyOf (d : Doc) : V := Get d "_id"

def setAt (key : V) (doc : Doc) (l : List Doc) : List Doc := l.map fun d => if keyOf d == key then doc else d

/-- update the document list of one namespace (created if absent) -/
def upd (c : Contents) (h : Handle) (f : List Doc → List Doc) : Contents :=
  if c.any (·.1 == h) then c.map fun hl => if hl.1 == h then (hl.1, f hl.2) else hl
  else c ++ [(h, f [])]

def applyChange (c : Contents) : Change → Contents
  | .insert h key doc => upd c h fun l => if l.any (fun d => keyOf d == key) then setAt key doc l else l ++ [doc]
  | .set h key doc => upd c h (setAt key doc)
  | .delete h key => upd c h fun l => l.filter fun d => !(keyOf d == key)
  | .drop h => c.filter fun hl => hl.1 != h
  | .dropDatabase db => c.filter fun hl => hl.1.db != db

def applyEvent (c : Contents) (ev : Doc) : Contents :=
  match decodeEvent ev with
  | some ch => applyChange c ch
  | none => c

/-- replay a list of events (oldest first) onto contents -/
def replay (events : List Doc) (c : Contents) : Contents := events.foldl applyEvent c

end Lungo.Spec
