/-
  Lungo.Spec.I64Ok — the one well-formedness condition the order laws of `V.cmp` (C12) need.

  The model type `V` stores an `int64` payload as an unbounded `Int`.  A Go `int64` is always in
  range; `V.i64Ok` says so for every `i64` occurring anywhere inside a value.  It is implied by the
  model's full well-formedness predicate `V.wf` (`V.i64Ok_of_wf` in Proofs/CompareLaws.lean).
-/
import Lungo.Model.Value
namespace Lungo

mutual
/-- Every int64 payload inside the value is in the int64 range (implied by `V.wf`). This is the
    only well-formedness the order laws need: for out-of-range "int64" payloads the range checks
    of `compareInt64ToFloat64` are wrong (e.g. `i64 2^64` vs the double `2^63`). -/
def V.i64Ok : V → Bool
  | .i64 n => inI64 n
  | .doc fs => i64OkFields fs
  | .arr xs => i64OkList xs
  | _ => true
def i64OkFields : List (String × V) → Bool
  | [] => true
  | (_, v) :: r => v.i64Ok && i64OkFields r
def i64OkList : List V → Bool
  | [] => true
  | v :: r => v.i64Ok && i64OkList r
end

end Lungo
