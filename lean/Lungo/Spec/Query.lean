/-
  Lungo.Spec.Query — the declarative reference semantics of MongoDB query filters
  (DESIGN §8.1–8.3): candidates, leaves, per-operator predicates, the core domain.

  This file is the MEANING of "MongoDB's query semantics" in property C10. It is written
  over a small abstract syntax (`Cond`, `Entry`, `Filter`) obtained from a filter document
  by `parseFilter` (which succeeds exactly on the well-formed filters of §8.2(5)); every
  operator is a predicate over the *candidates* / *leaves* of a path, not a control flow.

  Shared with the model (and therefore NOT covered by the agreement theorem beyond the
  domain restrictions of §8.2(4)): the decoding of operator ARGUMENTS into numbers —
  `resolveTypes` (type aliases/numbers), `intArg` ($size), `modOperand` ($mod),
  `parseBitMask` ($bits* masks → positions), `bitAccessor` (bits of a leaf) — and the
  comparison `V.cmp` / classes `V.cls` (C12). Everything about paths, arrays, fan-out,
  missing vs null and the logical structure is defined here independently.

  Core Lean only (linked into the driver).
-/
import Lungo.Model.Match
namespace Lungo.Spec
open Lungo

/-! ### 8.1 paths, candidates, leaves -/

/-- a path segment that is a canonical decimal numeral (no sign, no leading zero) -/
def numeral (s : String) : Option Nat :=
  let cs := s.toList
  if cs.isEmpty || !cs.all Char.isDigit || (cs.length > 1 && cs.head? == some '0') then none
  else some (cs.foldl (fun n c => 10 * n + (c.toNat - 48)) 0)

/-- the element an index segment selects in an array, if it is an in-range index -/
def elemAt (xs : List V) (seg : String) : Option V :=
  match numeral seg with
  | some i => xs[i]?
  | none => none

/-- Candidates `(value, viaFanOut)` reached from `v` along `p` (`f`: already fanned out).
    Structural recursion on the path; the fan-out case is the DESIGN text with "the candidates
    of a document element for the same remaining path" unfolded once (see `cand_fanOut`). -/
def candF : V → Path → Bool → List (V × Bool)
  | v, [], f => [(v, f)]
  | .doc fs, k :: rest, f =>
    match fs.lookup k with
    | some w => candF w rest f
    | none => []
  | .arr xs, k :: rest, f =>
    match elemAt xs k with
    | some x => candF x rest f
    | none => xs.flatMap fun x =>
        match x with
        | .doc fs => (match fs.lookup k with
                      | some w => candF w rest true
                      | none => [])
        | _ => []
  | _, _ :: _, _ => []

/-- §8.1 candidates -/
def cand (v : V) (p : Path) : List (V × Bool) := candF v p false

/-- does the path fan out over an array on its way through `v` (even if nothing is reached)? -/
def fans : V → Path → Bool
  | _, [] => false
  | .doc fs, k :: rest =>
    match fs.lookup k with
    | some w => fans w rest
    | none => false
  | .arr xs, k :: rest =>
    match elemAt xs k with
    | some x => fans x rest
    | none => true
  | _, _ :: _ => false

/-- does the path fan out at least twice (a fan-out below a fan-out)? -/
def fans2 : V → Path → Bool
  | _, [] => false
  | .doc fs, k :: rest =>
    match fs.lookup k with
    | some w => fans2 w rest
    | none => false
  | .arr xs, k :: rest =>
    match elemAt xs k with
    | some x => fans2 x rest
    | none => xs.any fun x =>
        match x with
        | .doc fs => (match fs.lookup k with
                      | some w => fans w rest
                      | none => false)
        | _ => false
  | _, _ :: _ => false

/-- a candidate that is an array contributes the array and each of its elements -/
def expand (c : V) : List V :=
  match c with
  | .arr xs => c :: xs
  | _ => [c]

/-- §8.1 leaves of a path below an arbitrary value -/
def leafsAt (v : V) (p : Path) : List V :=
  match cand v p with
  | [] => [.missing]
  | cs => cs.flatMap fun c => expand c.1

/-- §8.1 leaves -/
def leafs (d : Doc) (p : Path) : List V := leafsAt (.doc d) p

/-! ### abstract syntax of well-formed filters -/

inductive CmpOp where | eq | gt | gte | lt | lte
deriving Repr, DecidableEq

inductive BitsOp where | allSet | allClear | anySet | anyClear
deriving Repr, DecidableEq

mutual
/-- an expression operator applied to a path -/
inductive Cond where
  | cmp (o : CmpOp) (v : V)              -- literal / $eq / $gt / $gte / $lt / $lte
  | ne (v : V)
  | in_ (vs : List V)
  | nin (vs : List V)
  | exists_ (arg : V)
  | type (number : Bool) (ts : List Nat)
  | size (n : Int)
  | all (vs : List V)
  | mod (d r : Int)
  | bits (o : BitsOp) (positions : List Nat)
  | not (cs : List Cond)
  | elemOps (cs : List Cond)             -- {$elemMatch: {$gt: 1, …}}
  | elemFields (fcs : List FieldCond)    -- {$elemMatch: {b: 1, "c.d": {$lt: 2}}}
/-- a field entry: dotted path (as written) and the conjunction of its conditions -/
inductive FieldCond where
  | mk (key : String) (cs : List Cond)
end

mutual
inductive Entry where
  | field (fc : FieldCond)
  | and (fs : List Filter)
  | or (fs : List Filter)
  | nor (fs : List Filter)
  | schema (s : Doc)
/-- a filter document: the conjunction of its entries -/
inductive Filter where
  | mk (es : List Entry)
end

/-! ### 8.3 operator meanings -/

def CmpOp.rel : CmpOp → Ordering → Bool
  | .eq, o => o == .eq
  | .gt, o => o == .gt
  | .gte, o => o == .gt || o == .eq
  | .lt, o => o == .lt
  | .lte, o => o == .lt || o == .eq

/-- type-bracketed comparison of a leaf with the operand -/
def cmpHolds (o : CmpOp) (v l : V) : Bool := l.cls == v.cls && o.rel (V.cmp l v)

/-- leaf equals some member (equal values are of the same class) -/
def memberOf (vs : List V) (l : V) : Bool := vs.any fun v => V.cmp l v == .eq

/-- truthiness of the `$exists` argument: anything but false, null, numeric zero -/
def truthy (v : V) : Bool :=
  match v with
  | .bool b => b
  | .null => false
  | .i32 n => n != 0
  | .i64 n => n != 0
  | .f64 b => (match f64Val b with      -- ±0 is zero; NaN and the infinities are not
    | .fin q => q != 0
    | _ => true)
  | .dec h l => (match decVal h l with
    | .fin q => q != 0
    | _ => true)
  | _ => true

/-- a PRESENT leaf of one of the types -/
def typeHolds (number : Bool) (ts : List Nat) (l : V) : Bool :=
  !l.isMissing && ((number && l.cls == .number) || ts.contains l.typ)

/-- the integer a numeric leaf truncates to, if finite and in int64 range -/
def leafInt (l : V) : Option Int :=
  match l with
  | .i32 n => some n
  | .i64 n => some n
  | .f64 _ | .dec _ _ =>
    match l.numVal with
    | .fin q => if (i64Min : Rat) ≤ q ∧ q < (two63 : Rat) then some (ratTrunc q) else none
    | _ => none
  | _ => none

def modHolds (d r : Int) (l : V) : Bool :=
  match leafInt l with
  | some n => Int.tmod n d == r
  | none => false

def bitsHolds (o : BitsOp) (positions : List Nat) (l : V) : Bool :=
  match bitAccessor l with
  | none => false
  | some bit =>
    match o with
    | .allSet => positions.all bit
    | .allClear => positions.all (fun i => !bit i)
    | .anySet => positions.any bit
    | .anyClear => positions.any (fun i => !bit i)

def arrOfLength (n : Int) (c : V) : Bool :=
  match c with
  | .arr xs => (xs.length : Int) == n
  | _ => false

def elemsOf (c : V) : List V :=
  match c with
  | .arr xs => xs
  | _ => []

mutual
/-- does condition `c` hold for path `p` below `root`? -/
def holdsC (root : V) (p : Path) : Cond → Bool
  | .cmp o v => (leafsAt root p).any (cmpHolds o v)
  | .ne v => !(leafsAt root p).any (cmpHolds .eq v)
  | .in_ vs => (leafsAt root p).any (memberOf vs)
  | .nin vs => !(leafsAt root p).any (memberOf vs)
  | .exists_ arg => truthy arg == !(cand root p).isEmpty
  | .type number ts => (leafsAt root p).any (typeHolds number ts)
  | .size n => (cand root p).any fun c => arrOfLength n c.1
  | .all vs => !vs.isEmpty && vs.all fun v => (leafsAt root p).any fun l => V.cmp l v == .eq
  | .mod d r => (leafsAt root p).any (modHolds d r)
  | .bits o ps => (leafsAt root p).any (bitsHolds o ps)
  | .not cs => !holdsCs root p cs
  | .elemOps cs => (cand root p).any fun c => (elemsOf c.1).any fun x => holdsCs x [] cs
  | .elemFields fcs => (cand root p).any fun c => (elemsOf c.1).any fun x => x.isDoc && holdsFCs x fcs
/-- conjunction -/
def holdsCs (root : V) (p : Path) : List Cond → Bool
  | [] => true
  | c :: cs => holdsC root p c && holdsCs root p cs
def holdsFC (root : V) : FieldCond → Bool
  | .mk key cs => holdsCs root (splitPath key) cs
def holdsFCs (root : V) : List FieldCond → Bool
  | [] => true
  | fc :: r => holdsFC root fc && holdsFCs root r
end

def schemaHolds (sch : SchemaEval) (s d : Doc) : Res Bool :=
  match sch s d with
  | .ok _ => .ok true
  | .error .notMatched => .ok false
  | .error e => .error e

mutual
def holdsE (sch : SchemaEval) (d : Doc) : Entry → Res Bool
  | .field fc => .ok (holdsFC (.doc d) fc)
  | .and fs => allF sch d fs
  | .or fs => anyF sch d fs
  | .nor fs => (anyF sch d fs).map (!·)
  | .schema s => schemaHolds sch s d
def holdsEs (sch : SchemaEval) (d : Doc) : List Entry → Res Bool
  | [] => .ok true
  | e :: es =>
    match holdsE sch d e with
    | .ok true => holdsEs sch d es
    | r => r
def holdsF (sch : SchemaEval) (d : Doc) : Filter → Res Bool
  | .mk es => holdsEs sch d es
/-- left-to-right short-circuit conjunction -/
def allF (sch : SchemaEval) (d : Doc) : List Filter → Res Bool
  | [] => .ok true
  | f :: fs =>
    match holdsF sch d f with
    | .ok true => allF sch d fs
    | r => r
/-- left-to-right short-circuit disjunction -/
def anyF (sch : SchemaEval) (d : Doc) : List Filter → Res Bool
  | [] => .ok false
  | f :: fs =>
    match holdsF sch d f with
    | .ok false => anyF sch d fs
    | r => r
end

/-! ### parsing filter documents (well-formedness, §8.2(5)) -/

def optAll {α β} (f : α → Option β) : List α → Option (List β)
  | [] => some []
  | a :: r => match f a, optAll f r with
    | some b, some bs => some (b :: bs)
    | _, _ => none

def parseType (v : V) : Option Cond :=
  let operands : Option (List V) := match v with
    | .arr arr => if arr.isEmpty then none else some arr
    | _ => some [v]
  match operands with
  | none => none
  | some ops => match resolveTypes ops with
    | .ok (number, ts) => some (.type number ts)
    | .error _ => none

def parseSize (v : V) : Option Cond :=
  match intArg v with
  | .ok n => if n < 0 then none else some (.size n)
  | .error _ => none

def parseMod (v : V) : Option Cond :=
  match v with
  | .arr [a, b] =>
    match modOperand a, modOperand b with
    | .ok d, .ok r => if d == 0 then none else some (.mod d r)
    | _, _ => none
  | _ => none

def parseBits (o : BitsOp) (v : V) : Option Cond :=
  match parseBitMask v with
  | .ok ps => some (.bits o ps)
  | .error _ => none

/-- operators without sub-expressions -/
def parseLeaf (op : String) (v : V) : Option Cond :=
  match op with
  | "$eq" => some (.cmp .eq v)
  | "$gt" => some (.cmp .gt v)
  | "$gte" => some (.cmp .gte v)
  | "$lt" => some (.cmp .lt v)
  | "$lte" => some (.cmp .lte v)
  | "$ne" => some (.ne v)
  | "$in" => (match v with | .arr vs => some (.in_ vs) | _ => none)
  | "$nin" => (match v with | .arr vs => some (.nin vs) | _ => none)
  | "$exists" => some (.exists_ v)
  | "$type" => parseType v
  | "$size" => parseSize v
  | "$all" => (match v with | .arr vs => some (.all vs) | _ => none)
  | "$mod" => parseMod v
  | "$bitsAllSet" => parseBits .allSet v
  | "$bitsAllClear" => parseBits .allClear v
  | "$bitsAnySet" => parseBits .anySet v
  | "$bitsAnyClear" => parseBits .anyClear v
  | _ => none

mutual
/-- one expression operator `op: v` -/
def parseCond (op : String) (v : V) : Option Cond :=
  if op == "$not" then
    match v with
    | .doc (e :: es) => (parseConds (e :: es)).map .not
    | _ => none
  else if op == "$elemMatch" then
    match v with
    | .doc ((k, w) :: es) =>
      if isOpKey k then (parseConds ((k, w) :: es)).map .elemOps
      else (parseFieldConds ((k, w) :: es)).map .elemFields
    | _ => none
  else parseLeaf op v
/-- an operator document: every key an operator -/
def parseConds : List (String × V) → Option (List Cond)
  | [] => some []
  | (k, v) :: r =>
    if !isOpKey k then none else
    match parseCond k v, parseConds r with
    | some c, some cs => some (c :: cs)
    | _, _ => none
/-- the value of a field entry: an operator document or a literal -/
def parseFieldValue (v : V) : Option (List Cond) :=
  match v with
  | .doc ((k, w) :: es) =>
    if isOpKey k then parseConds ((k, w) :: es) else some [.cmp .eq v]
  | _ => some [.cmp .eq v]
/-- a document of field conditions only (the field form of `$elemMatch`) -/
def parseFieldConds : List (String × V) → Option (List FieldCond)
  | [] => some []
  | (k, v) :: r =>
    if isOpKey k then none else
    match parseFieldValue v, parseFieldConds r with
    | some cs, some fcs => some (.mk k cs :: fcs)
    | _, _ => none
end

mutual
def parseEntry (k : String) (v : V) : Option Entry :=
  if isOpKey k then
    if k == "$and" then
      match v with
      | .arr (x :: xs) => (parseFilters (x :: xs)).map .and
      | _ => none
    else if k == "$or" then
      match v with
      | .arr (x :: xs) => (parseFilters (x :: xs)).map .or
      | _ => none
    else if k == "$nor" then
      match v with
      | .arr (x :: xs) => (parseFilters (x :: xs)).map .nor
      | _ => none
    else if k == "$jsonSchema" then
      match v with
      | .doc s => some (.schema s)
      | _ => none
    else none
  else (parseFieldValue v).map fun cs => .field (.mk k cs)
def parseEntries : List (String × V) → Option (List Entry)
  | [] => some []
  | (k, v) :: r =>
    match parseEntry k v, parseEntries r with
    | some e, some es => some (e :: es)
    | _, _ => none
def parseFilters : List V → Option (List Filter)
  | [] => some []
  | .doc q :: r =>
    match parseEntries q, parseFilters r with
    | some es, some fs => some (.mk es :: fs)
    | _, _ => none
  | _ :: _ => none
end

/-- the abstract syntax of a well-formed filter document -/
def parseFilter (q : Doc) : Option Filter := (parseEntries q).map .mk

/-- `Spec.matches`: the truth value MongoDB's semantics give to filter document `q` on `d`;
    `none`-parse (ill-formed filter) is an error. -/
def «matches» (sch : SchemaEval) (d q : Doc) : Res Bool :=
  match parseFilter q with
  | some f => holdsF sch d f
  | none => .error .err

/-! ### 8.2 core domain -/

mutual
/-- (1) arrays hold scalars or documents, not arrays (and `missing`, which only denotes absence,
    is not a value: §8.1 "supported values") -/
def noNestedArrays : V → Bool
  | .doc fs => nnaFields fs
  | .arr xs => nnaElems xs
  | .missing => false
  | _ => true
def nnaFields : List (String × V) → Bool
  | [] => true
  | (_, v) :: r => noNestedArrays v && nnaFields r
def nnaElems : List V → Bool
  | [] => true
  | x :: r => !x.isArr && noNestedArrays x && nnaElems r
end

mutual
/-- (3) field names inside array elements are not decimal numerals -/
def noNumeralKeys : Bool → V → Bool
  | _, .doc fs => nnkFields false fs
  | _, .arr xs => nnkElems xs
  | _, _ => true
def nnkFields (inArr : Bool) : List (String × V) → Bool
  | [] => true
  | (k, v) :: r => !(inArr && (k.toList.all Char.isDigit)) && noNumeralKeys false v && nnkFields inArr r
def nnkElems : List V → Bool
  | [] => true
  | .doc fs :: r => nnkFields true fs && nnkElems r
  | x :: r => noNumeralKeys false x && nnkElems r
end

/-- the document part of the core domain -/
def coreDoc (d : Doc) : Bool := noNestedArrays (.doc d) && noNumeralKeys false (.doc d)

/-- a non-null scalar operand -/
def scalarOperand (v : V) : Bool :=
  match v with
  | .null | .missing | .arr _ | .doc _ => false
  | _ => true

def isRegex (v : V) : Bool :=
  match v with
  | .regex _ _ => true
  | _ => false

/-- path segments: non-empty, and a segment read as an index by lungo is a canonical numeral
    (and vice versa) -/
def segOK (s : String) : Bool := s != "" && parseIndex s == numeral s

def pathOK (p : Path) : Bool := !p.isEmpty && p.all segOK

/-- Two facts about `String.splitOn` that hold for every key but are not proved here; they are
    CHECKED instead (lungo evaluates `$elemMatch` on the virtual document `{item: x}` with the path
    `"item." ++ key`; the reference semantics evaluates `key` on `x`). -/
def itemSplitOK (key : String) : Bool :=
  splitPath "item" == ["item"] && splitPath ("item" ++ "." ++ key) == "item" :: splitPath key

def FieldCond.key : FieldCond → String
  | .mk k _ => k

/-- no type of the list is null (10) or array (4) -/
def scalarTypes (ts : List Nat) : Bool := !ts.contains 0x0A && !ts.contains 0x04

def isDec (v : V) : Bool :=
  match v with
  | .dec _ _ => true
  | _ => false

/-
  `ex` ("exclude the known deviation"): with `ex = false` the predicates below are the core domain
  of DESIGN §8.2. The real code (and the model) still DEVIATES from §8.3 at one kind of point
  inside that domain (observed on /repo by stream `specmatch`, recorded as a known finding):
   D3 `$size` below two fan-outs.
  `ex = true` removes exactly those points, which gives the domain on which agreement is PROVED.
  (Former deviations, all fixed in the code and now inside the proved domain: D1 `$type` null on
  absent fields, D2 `$exists` over fan-outs reaching only empty arrays, D4 `$elemMatch` field form
  on non-document elements, D5 `$all` over a fan-out with array-valued candidates, D6 Decimal128
  `$exists` arguments (decimal zero is falsy), D7 `$all` with array-valued members. `$all` is now
  literally the conjunction of the equality conditions of its members, so its restrictions are
  those of `$eq` on each member.)
-/
mutual
/-- restrictions (2) and (4) on one condition for path `p` below `root`; `fo`: the path fans out -/
def coreC (ex : Bool) (root : V) (p : Path) (fo : Bool) : Cond → Bool
  | .cmp _ v => !isRegex v && (!fo || scalarOperand v)
  | .ne v => !isRegex v && (!fo || scalarOperand v)
  | .in_ vs => vs.all (fun v => !isRegex v) && (!fo || vs.all scalarOperand)
  | .nin vs => vs.all (fun v => !isRegex v) && (!fo || vs.all scalarOperand)
  | .exists_ _ => true
  | .type _ ts => !fo || scalarTypes ts
  | .size _ => !ex || !fans2 root p
  | .all vs => vs.all (fun v => !isRegex v && !(match v with
                  | .doc ((k, _) :: _) => k == "$elemMatch"
                  | _ => false)) && (!fo || vs.all scalarOperand)
  | .mod _ _ => (leafsAt root p).all fun l => match l with | .dec _ _ => false | _ => true
  | .bits _ ps => ps.all (· < 64)
  | .not cs => coreCs ex root p fo cs
  | .elemOps cs => !fo && itemSplitOK "" && ((cand root p).flatMap fun c => elemsOf c.1).all fun x => coreCs ex x [] false cs
  | .elemFields fcs => !fo && fcs.all (fun fc => itemSplitOK fc.key) && ((cand root p).flatMap fun c => elemsOf c.1).all fun x => coreFCs ex x fcs
def coreCs (ex : Bool) (root : V) (p : Path) (fo : Bool) : List Cond → Bool
  | [] => true
  | c :: cs => coreC ex root p fo c && coreCs ex root p fo cs
def coreFC (ex : Bool) (root : V) : FieldCond → Bool
  | .mk key cs => pathOK (splitPath key) && coreCs ex root (splitPath key) (fans root (splitPath key)) cs
def coreFCs (ex : Bool) (root : V) : List FieldCond → Bool
  | [] => true
  | fc :: r => coreFC ex root fc && coreFCs ex root r
end

mutual
def coreE (ex : Bool) (d : Doc) : Entry → Bool
  | .field fc => coreFC ex (.doc d) fc
  | .and fs => coreFs ex d fs
  | .or fs => coreFs ex d fs
  | .nor fs => coreFs ex d fs
  | .schema _ => true
def coreEs (ex : Bool) (d : Doc) : List Entry → Bool
  | [] => true
  | e :: es => coreE ex d e && coreEs ex d es
def coreF (ex : Bool) (d : Doc) : Filter → Bool
  | .mk es => coreEs ex d es
def coreFs (ex : Bool) (d : Doc) : List Filter → Bool
  | [] => true
  | f :: fs => coreF ex d f && coreFs ex d fs
end

/-- why a pair is outside the core domain (`none` = inside) -/
def outsideX (ex : Bool) (d q : Doc) : Option String :=
  match parseFilter q with
  | none => some "ill-formed filter"
  | some f =>
    if !noNestedArrays (.doc d) then some "nested arrays"
    else if !noNumeralKeys false (.doc d) then some "numeral field name in array element"
    else if !coreF ex d f then some "operand/path restriction"
    else none

def outside (d q : Doc) : Option String := outsideX false d q

/-- §8.2: the core domain as a decidable test -/
def core (d q : Doc) : Bool := (outside d q).isNone

/-- the core domain minus the known deviation point D3: where agreement is proved -/
def coreProved (d q : Doc) : Bool := (outsideX true d q).isNone

end Lungo.Spec
